(* C13 - poolDequeue: proofs.  See Dequeue.v for the model. *)
From Coq Require Import ZArith Znumtheory List Bool Lia Permutation.
From VF Require Import C13.Dequeue.
Import ListNotations.
Open Scope Z_scope.

(* ------------------------------------------------------------------ *)
(* constants                                                           *)
(* ------------------------------------------------------------------ *)
Lemma M32_pos : 0 < M32.
Proof. reflexivity. Qed.
Lemma M32_pow : M32 = 2 ^ 32.
Proof. reflexivity. Qed.
Lemma M64_pow : M64 = 2 ^ 64.
Proof. reflexivity. Qed.
Lemma M64_M32 : M64 = M32 * M32.
Proof. reflexivity. Qed.
Lemma limit_lt_M32 : dequeueLimit < M32.
Proof. reflexivity. Qed.
Lemma limit_pow : dequeueLimit = 2 ^ 30.
Proof. reflexivity. Qed.
Lemma M32_val : M32 = 4294967296.
Proof. reflexivity. Qed.
Lemma M64_val : M64 = 18446744073709551616.
Proof. reflexivity. Qed.
Global Opaque M32 M64 dequeueLimit.

(* ------------------------------------------------------------------ *)
(* modular arithmetic                                                  *)
(* ------------------------------------------------------------------ *)
Lemma mod_neq : forall n a b, 0 < n -> 0 < a - b < n -> a mod n <> b mod n.
Proof.
  intros n a b Hn Hab Heq.
  assert (H0 : (a - b) mod n = 0).
  { rewrite Zminus_mod, Heq, Z.sub_diag. apply Z.mod_0_l. lia. }
  rewrite Z.mod_small in H0; lia.
Qed.

Lemma mod_inj : forall n a b, 0 < n -> a mod n = b mod n -> - n < a - b < n -> a = b.
Proof.
  intros n a b Hn Heq Hab.
  destruct (Z.lt_trichotomy a b) as [Hlt | [He | Hgt]]; [ | assumption | ].
  - exfalso. apply (mod_neq n b a); [lia | lia | congruence].
  - exfalso. apply (mod_neq n a b); [lia | lia | congruence].
Qed.

Lemma mod_mod_div : forall n a, 0 < n -> (n | M32) -> (a mod M32) mod n = a mod n.
Proof.
  intros n a Hn Hd. symmetry. apply Zmod_div_mod; [assumption | apply M32_pos | assumption].
Qed.

Lemma succ_mod : forall m a, (a mod m + 1) mod m = (a + 1) mod m.
Proof. intros. apply Zplus_mod_idemp_l. Qed.

Lemma pred_mod : forall m a, (a mod m - 1) mod m = (a - 1) mod m.
Proof. intros. apply Zminus_mod_idemp_l. Qed.

Lemma mod_add_self : forall n a, (a + n) mod n = a mod n.
Proof.
  intros n a. replace (a + n) with (a + 1 * n) by ring. apply Z_mod_plus_full.
Qed.

Lemma mod_sub_self : forall n a, (a - n) mod n = a mod n.
Proof.
  intros n a. replace (a - n) with (a + (-1) * n) by ring. apply Z_mod_plus_full.
Qed.

Lemma mod_range : forall n a, 0 < n -> 0 <= a mod n < n.
Proof. intros. apply Z.mod_pos_bound. assumption. Qed.

(* ------------------------------------------------------------------ *)
(* lists                                                               *)
(* ------------------------------------------------------------------ *)
Lemma upd_length : forall A (l : list A) i x, length (upd l i x) = length l.
Proof.
  intros A l. induction l as [| y r IH]; intros i x; [reflexivity |].
  destruct i; cbn [upd length]; [reflexivity | rewrite IH; reflexivity].
Qed.

Lemma nth_upd_eq : forall A (l : list A) i x d, (i < length l)%nat -> nth i (upd l i x) d = x.
Proof.
  intros A l. induction l as [| y r IH]; intros i x d Hi; cbn [length] in Hi; [lia |].
  destruct i; cbn [upd nth]; [reflexivity | apply IH; lia].
Qed.

Lemma nth_upd_neq : forall A (l : list A) i j x d, i <> j -> nth j (upd l i x) d = nth j l d.
Proof.
  intros A l. induction l as [| y r IH]; intros i j x d Hij; [reflexivity |].
  destruct i, j; cbn [upd nth]; try reflexivity; [congruence | apply IH; congruence].
Qed.

Lemma nth_error_upd : forall A (l : list A) i j x s,
  nth_error (upd l i x) j = Some s ->
  (j = i /\ s = x) \/ (j <> i /\ nth_error l j = Some s).
Proof.
  intros A l. induction l as [| y r IH]; intros i j x s H.
  - destruct j; discriminate H.
  - destruct i, j; cbn [upd nth_error] in H.
    + left. split; [reflexivity | congruence].
    + right. split; [congruence | assumption].
    + right. split; [congruence | assumption].
    + destruct (IH _ _ _ _ H) as [[E1 E2] | [E1 E2]]; [left | right];
        (split; [congruence | cbn [nth_error]; assumption]).
Qed.

Lemma nth_error_upd_same : forall A (l : list A) i x s,
  nth_error l i = Some s -> nth_error (upd l i x) i = Some x.
Proof.
  intros A l. induction l as [| y r IH]; intros i x s H.
  - destruct i; discriminate H.
  - destruct i; cbn [upd nth_error] in *; [reflexivity | eapply IH; eassumption].
Qed.

Lemma wr_length : forall l i x, length (wr l i x) = length l.
Proof. intros. apply upd_length. Qed.

Lemma rd_wr_eq : forall l i x, 0 <= i < Z.of_nat (length l) -> rd (wr l i x) i = x.
Proof. intros l i x Hi. unfold rd, wr. apply nth_upd_eq. lia. Qed.

Lemma rd_wr_neq : forall l i j x, 0 <= i -> 0 <= j -> i <> j -> rd (wr l i x) j = rd l j.
Proof. intros l i j x Hi Hj Hij. unfold rd, wr. apply nth_upd_neq. lia. Qed.

Lemma nth_snoc_last : forall (q : list V) x k d, k = length q -> nth k (q ++ [x]) d = x.
Proof.
  intros q x k d ->. rewrite app_nth2 by lia. rewrite Nat.sub_diag. reflexivity.
Qed.

Lemma nonempty_snoc : forall (l : list V) d, l <> [] -> l = removelast l ++ [last l d].
Proof. intros. apply app_removelast_last. assumption. Qed.

(* ------------------------------------------------------------------ *)
(* the core (safety) invariant                                         *)
(* ------------------------------------------------------------------ *)
(* 1 when the producer holds slot gh mod n outside the live window *)
Definition ex (p : pstate) : Z :=
  match p with
  | PP3 _ _ | PP4 _ | PH3 _ _ _ | PH4 _ _ _ _ => 1
  | _ => 0
  end.

Definition pinv (n hd : Z) (vs : list (option V)) (g_h : Z) (p : pstate) : Prop :=
  match p with
  | PP2 v h => h = hd
  | PP3 v h => h = hd /\ rd vs (g_h mod n) = None
  | PP4 v => rd vs (g_h mod n) = Some v
  | PH2 h t => h <> t
  | PH3 i k x => i = g_h mod n /\ rd vs i = Some x
  | PH4 i val k x => i = g_h mod n /\ rd vs i = Some x /\ val = Some x
  | _ => True
  end.

Definition tinv (s : tstate) : Prop :=
  match s with
  | T2 h t => h <> t
  | T4 i val p k x => val = Some x
  | _ => True
  end.

Section CoreDef.
Variables (n hd tl : Z) (vs : list (option V)) (pr : pstate) (ths : list tstate)
          (g_h g_t : Z) (ab : list V).
Record CoreF : Prop := {
  c_n1 : 1 <= n;
  c_n2 : n <= dequeueLimit;
  c_div : (n | M32);
  c_len : Z.of_nat (length vs) = n;
  c_hd : hd = g_h mod M32;
  c_tl : tl = g_t mod M32;
  c_ab : g_h - g_t = Z.of_nat (length ab);
  c_cap : g_h - g_t + ex pr <= n;
  c_town : forall j s i p x, nth_error ths j = Some s -> towned s = Some (i, p, x) ->
           g_h - n + ex pr <= p < g_t /\ i = p mod n /\ rd vs i = Some x;
  c_tdist : forall j1 j2 s1 s2 i1 i2 p x1 x2,
           nth_error ths j1 = Some s1 -> nth_error ths j2 = Some s2 ->
           towned s1 = Some (i1, p, x1) -> towned s2 = Some (i2, p, x2) -> j1 = j2;
  c_win : forall p, g_t <= p < g_h ->
           rd vs (p mod n) = Some (nth (Z.to_nat (g_h - 1 - p)) ab dflt);
  c_pinv : pinv n hd vs g_h pr;
  c_tinv : forall j s, nth_error ths j = Some s -> tinv s
}.
End CoreDef.

Definition Core (st : state) : Prop :=
  CoreF (sz st) (head st) (tail st) (vals st) (prod st) (thieves st) (gh st) (gt st) (abs st).

Ltac dcore H :=
  destruct H as [Hn1 Hn2 Hdiv Hlen Hhd Htl Hab Hcap Htown Htdist Hwin Hpinv Htinv].

Lemma nth_error_repeat : forall A (a : A) m j s, nth_error (repeat a m) j = Some s -> s = a.
Proof.
  intros A a m j s H. apply nth_error_In in H. apply repeat_spec in H. assumption.
Qed.

Lemma core_init : forall n T h0,
  1 <= n <= dequeueLimit -> (n | M32) -> 0 <= h0 < M32 -> Core (init n T h0).
Proof.
  intros n T h0 Hn Hd Hh. unfold Core, init. cbn [sz head tail vals prod thieves gh gt abs].
  constructor; cbn [ex length].
  - lia.
  - lia.
  - assumption.
  - rewrite repeat_length. lia.
  - symmetry. apply Z.mod_small. assumption.
  - symmetry. apply Z.mod_small. assumption.
  - lia.
  - lia.
  - intros j s i p x Hj Ho. apply nth_error_repeat in Hj. subst s. discriminate Ho.
  - intros j1 j2 s1 s2 i1 i2 p x1 x2 Hj1 _ Ho1 _. apply nth_error_repeat in Hj1. subst s1. discriminate Ho1.
  - intros p Hp. lia.
  - exact I.
  - intros j s Hj. apply nth_error_repeat in Hj. subst s. exact I.
Qed.

(* -- steps that only change the producer's control state -- *)
Lemma core_set_prod : forall n hd tl vs pr pr' ths g_h g_t ab,
  CoreF n hd tl vs pr ths g_h g_t ab -> ex pr' = ex pr -> pinv n hd vs g_h pr' ->
  CoreF n hd tl vs pr' ths g_h g_t ab.
Proof.
  intros n hd tl vs pr pr' ths g_h g_t ab H He Hp. dcore H.
  constructor; try assumption; rewrite He; assumption.
Qed.

(* -- steps that only change one thief's control state -- *)
Lemma core_set_thief : forall n hd tl vs pr ths g_h g_t ab j s s',
  CoreF n hd tl vs pr ths g_h g_t ab -> nth_error ths j = Some s ->
  towned s' = towned s -> tinv s' ->
  CoreF n hd tl vs pr (upd ths j s') g_h g_t ab.
Proof.
  intros n hd tl vs pr ths g_h g_t ab j s s' H Hj Ho Ht. dcore H.
  constructor; try assumption.
  - intros k s0 i p x Hk Hs0.
    apply nth_error_upd in Hk as [[-> ->] | [Hne Hk]].
    + rewrite Ho in Hs0. eapply Htown; eassumption.
    + eapply Htown; eassumption.
  - intros j1 j2 s1 s2 i1 i2 p x1 x2 Hk1 Hk2 Hs1 Hs2.
    apply nth_error_upd in Hk1 as [[-> ->] | [Hne1 Hk1]];
    apply nth_error_upd in Hk2 as [[-> ->] | [Hne2 Hk2]].
    + reflexivity.
    + rewrite Ho in Hs1. eapply Htdist; eassumption.
    + rewrite Ho in Hs2. eapply Htdist; eassumption.
    + eapply Htdist; eassumption.
  - intros k s0 Hk.
    apply nth_error_upd in Hk as [[-> ->] | [Hne Hk]]; [assumption | eapply Htinv; eassumption].
Qed.

Lemma ex_range : forall p, 0 <= ex p <= 1.
Proof. intros p. destruct p; cbn [ex]; lia. Qed.

(* -- P2, slot found nil: the slot is outside the window and unowned -- *)
Lemma core_P2_ok : forall n hv tv vs ths g_h g_t ab v h,
  CoreF n hv tv vs (PP2 v h) ths g_h g_t ab -> rd vs (h mod n) = None ->
  CoreF n hv tv vs (PP3 v h) ths g_h g_t ab.
Proof.
  intros n hv tv vs ths g_h g_t ab v h H Hs. dcore H. cbn [pinv ex] in *.
  assert (Hn0 : 0 < n) by lia.
  assert (Hslot : h mod n = g_h mod n).
  { rewrite Hpinv, Hhd. apply mod_mod_div; assumption. }
  rewrite Hslot in Hs.
  assert (Hlt : g_h - g_t < n).
  { destruct (Z.eq_dec (g_h - g_t) n) as [E | E]; [| lia]. exfalso.
    assert (Hw : rd vs (g_t mod n) = Some (nth (Z.to_nat (g_h - 1 - g_t)) ab dflt))
      by (apply Hwin; lia).
    replace (g_t mod n) with (g_h mod n) in Hw; [congruence |].
    replace g_h with (g_t + n) by lia. apply mod_add_self. }
  constructor; cbn [ex pinv]; try assumption.
  - lia.
  - intros j s i p x Hj Ho. destruct (Htown _ _ _ _ _ Hj Ho) as (Hr & Hi & Hv).
    repeat split; try assumption; try lia.
    destruct (Z.eq_dec p (g_h - n)) as [E | E]; [| lia]. exfalso.
    subst p. rewrite mod_sub_self in Hi. subst i. congruence.
  - split; assumption.
Qed.

(* -- P3, the plain store -- *)
Lemma core_P3 : forall n hv tv vs ths g_h g_t ab v h,
  CoreF n hv tv vs (PP3 v h) ths g_h g_t ab ->
  CoreF n hv tv (wr vs (h mod n) (Some v)) (PP4 v) ths g_h g_t ab.
Proof.
  intros n hv tv vs ths g_h g_t ab v h H. dcore H. cbn [pinv ex] in *.
  destruct Hpinv as [Hh Hs].
  assert (Hn0 : 0 < n) by lia.
  assert (Hslot : h mod n = g_h mod n).
  { rewrite Hh, Hhd. apply mod_mod_div; assumption. }
  rewrite Hslot.
  assert (Hr := mod_range n g_h Hn0).
  constructor; cbn [ex pinv]; try assumption.
  - rewrite wr_length. assumption.
  - intros j s i p x Hj Ho. destruct (Htown _ _ _ _ _ Hj Ho) as (Hr' & Hi & Hv).
    repeat split; try assumption; try lia.
    rewrite rd_wr_neq; [assumption | lia | subst i; apply mod_range; assumption |].
    intro E. rewrite <- E in Hv. congruence.
  - intros p Hp. assert (Hw := Hwin p Hp).
    rewrite rd_wr_neq; [assumption | lia | apply mod_range; assumption |].
    intro E. rewrite <- E in Hw. congruence.
  - apply rd_wr_eq. lia.
Qed.

(* -- P4, publish -- *)
Lemma core_P4 : forall n hv tv vs ths g_h g_t ab v,
  CoreF n hv tv vs (PP4 v) ths g_h g_t ab ->
  CoreF n ((hv + 1) mod M32) tv vs PIdle ths (g_h + 1) g_t (v :: ab).
Proof.
  intros n hv tv vs ths g_h g_t ab v H. dcore H. cbn [pinv ex] in *.
  constructor; cbn [ex pinv length]; try assumption.
  - rewrite Hhd. apply succ_mod.
  - lia.
  - lia.
  - intros j s i p x Hj Ho. destruct (Htown _ _ _ _ _ Hj Ho) as (Hr & Hi & Hv).
    repeat split; try assumption; lia.
  - intros p Hp. destruct (Z.eq_dec p g_h) as [-> | E].
    + replace (g_h + 1 - 1 - g_h) with 0 by lia. cbn [Z.to_nat nth]. exact Hpinv.
    + replace (Z.to_nat (g_h + 1 - 1 - p)) with (S (Z.to_nat (g_h - 1 - p))) by lia.
      cbn [nth]. apply Hwin. lia.
  - exact I.
Qed.

(* -- H2, successful CAS -- *)
Lemma core_H2_ok : forall n hv tv vs ths g_h g_t ab k,
  CoreF n hv tv vs (PH2 hv tv) ths g_h g_t ab ->
  CoreF n ((hv - 1) mod M32) tv vs
        (PH3 (((hv - 1) mod M32) mod n) k (hd dflt ab)) ths (g_h - 1) g_t (tl ab).
Proof.
  intros n hv tv vs ths g_h g_t ab k H. dcore H. cbn [pinv ex] in *.
  assert (Hn0 : 0 < n) by lia.
  assert (Hne : g_h <> g_t).
  { intro E. apply Hpinv. rewrite Hhd, Htl, E. reflexivity. }
  destruct ab as [| x q]; cbn [length] in Hab; [lia |]. cbn [hd tl].
  assert (Hidx : ((hv - 1) mod M32) mod n = (g_h - 1) mod n).
  { rewrite Hhd, pred_mod. apply mod_mod_div; assumption. }
  rewrite Hidx.
  constructor; cbn [ex pinv]; try assumption.
  - rewrite Hhd. apply pred_mod.
  - lia.
  - lia.
  - intros j s i p x0 Hj Ho. destruct (Htown _ _ _ _ _ Hj Ho) as (Hr & Hi & Hv).
    repeat split; try assumption; lia.
  - intros p Hp. assert (Hw : rd vs (p mod n) = Some (nth (Z.to_nat (g_h - 1 - p)) (x :: q) dflt))
      by (apply Hwin; lia).
    replace (Z.to_nat (g_h - 1 - p)) with (S (Z.to_nat (g_h - 1 - 1 - p))) in Hw by lia.
    cbn [nth] in Hw. exact Hw.
  - split; [reflexivity |].
    assert (Hw : rd vs ((g_h - 1) mod n)
                 = Some (nth (Z.to_nat (g_h - 1 - (g_h - 1))) (x :: q) dflt))
      by (apply Hwin; lia).
    replace (g_h - 1 - (g_h - 1)) with 0 in Hw by lia. cbn [Z.to_nat nth] in Hw. exact Hw.
Qed.

(* -- H4, zero the slot -- *)
Lemma core_H4 : forall n hv tv vs ths g_h g_t ab i val k x,
  CoreF n hv tv vs (PH4 i val k x) ths g_h g_t ab ->
  CoreF n hv tv (wr vs i None) PIdle ths g_h g_t ab.
Proof.
  intros n hv tv vs ths g_h g_t ab i val k x H. dcore H. cbn [pinv ex] in *.
  destruct Hpinv as (Hi & Hv & Hval). subst i.
  assert (Hn0 : 0 < n) by lia.
  assert (Hr := mod_range n g_h Hn0).
  constructor; cbn [ex pinv]; try assumption.
  - rewrite wr_length. assumption.
  - lia.
  - intros j s i p x0 Hj Ho. destruct (Htown _ _ _ _ _ Hj Ho) as (Hr' & Hi & Hv').
    repeat split; try assumption; try lia.
    rewrite rd_wr_neq; [assumption | lia | subst i; apply mod_range; assumption |].
    subst i. apply mod_neq; lia.
  - intros p Hp.
    rewrite rd_wr_neq; [apply Hwin; assumption | lia | apply mod_range; assumption |].
    apply mod_neq; lia.
  - exact I.
Qed.

(* -- T2, successful CAS -- *)
Lemma core_T2_ok : forall n hv tv vs pr ths g_h g_t ab j k,
  CoreF n hv tv vs pr ths g_h g_t ab -> nth_error ths j = Some (T2 hv tv) ->
  CoreF n hv ((tv + 1) mod M32) vs pr
        (upd ths j (T3 (tv mod n) g_t k (last ab dflt))) g_h (g_t + 1) (removelast ab).
Proof.
  intros n hv tv vs pr ths g_h g_t ab j k H Hj. dcore H.
  assert (Hn0 : 0 < n) by lia.
  assert (Hex := ex_range pr).
  assert (Hne : g_h <> g_t).
  { intro E. apply (Htinv _ _ Hj). rewrite Hhd, Htl, E. reflexivity. }
  assert (Hab0 : ab <> []).
  { intro E. subst ab. cbn [length] in Hab. lia. }
  destruct (exists_last Hab0) as (q & x & E). subst ab.
  rewrite removelast_last, last_last.
  rewrite app_length in Hab. cbn [length] in Hab.
  assert (Hidx : tv mod n = g_t mod n).
  { rewrite Htl. apply mod_mod_div; assumption. }
  rewrite Hidx.
  constructor; try assumption.
  - rewrite Htl. apply succ_mod.
  - lia.
  - lia.
  - intros k0 s i p x0 Hk Ho.
    apply nth_error_upd in Hk as [[-> ->] | [Hnk Hk]].
    + cbn [towned] in Ho. inversion Ho; subst i p x0; clear Ho.
      split; [lia |]. split; [reflexivity |].
      rewrite Hwin by lia. f_equal. apply nth_snoc_last. lia.
    + destruct (Htown _ _ _ _ _ Hk Ho) as (Hr & Hi & Hv).
      repeat split; try assumption; lia.
  - intros j1 j2 s1 s2 i1 i2 p x1 x2 Hk1 Hk2 Hs1 Hs2.
    apply nth_error_upd in Hk1 as [[-> ->] | [Hne1 Hk1]];
    apply nth_error_upd in Hk2 as [[-> ->] | [Hne2 Hk2]].
    + reflexivity.
    + exfalso. cbn [towned] in Hs1. inversion Hs1; subst.
      destruct (Htown _ _ _ _ _ Hk2 Hs2) as (Hr & _). lia.
    + exfalso. cbn [towned] in Hs2. inversion Hs2; subst.
      destruct (Htown _ _ _ _ _ Hk1 Hs1) as (Hr & _). lia.
    + eapply Htdist; eassumption.
  - intros p Hp.
    assert (Hw : rd vs (p mod n) = Some (nth (Z.to_nat (g_h - 1 - p)) (q ++ [x]) dflt))
      by (apply Hwin; lia).
    rewrite app_nth1 in Hw by lia. exact Hw.
  - intros k0 s Hk.
    apply nth_error_upd in Hk as [[-> ->] | [Hnk Hk]]; [exact I | eapply Htinv; eassumption].
Qed.

(* -- T4, release the slot -- *)
Lemma core_T4 : forall n hv tv vs pr ths g_h g_t ab j i val p k x,
  CoreF n hv tv vs pr ths g_h g_t ab -> nth_error ths j = Some (T4 i val p k x) ->
  CoreF n hv tv (wr vs i None) pr (upd ths j T1) g_h g_t ab.
Proof.
  intros n hv tv vs pr ths g_h g_t ab j i val p k x H Hj. dcore H.
  assert (Hn0 : 0 < n) by lia.
  assert (Hex := ex_range pr).
  destruct (Htown j _ i p x Hj eq_refl) as (Hpr & Hpi & Hpv).
  assert (Hir : 0 <= i < n) by (subst i; apply mod_range; assumption).
  constructor; try assumption.
  - rewrite wr_length. assumption.
  - intros k0 s i2 p2 x2 Hk Ho.
    apply nth_error_upd in Hk as [[-> ->] | [Hnk Hk]]; [discriminate Ho |].
    destruct (Htown _ _ _ _ _ Hk Ho) as (Hr & Hi & Hv).
    repeat split; try assumption; try lia.
    assert (Hpp : p <> p2).
    { intro E. subst p2. apply Hnk. eapply Htdist; [exact Hk | exact Hj | exact Ho | reflexivity]. }
    rewrite rd_wr_neq; [assumption | lia | subst i2; apply mod_range; assumption |].
    subst i i2.
    destruct (Z.lt_trichotomy p p2) as [Hlt | [Heq | Hgt]]; [| contradiction |].
    + intro E. symmetry in E. revert E. apply mod_neq; lia.
    + apply mod_neq; lia.
  - intros j1 j2 s1 s2 i1 i2 p0 x1 x2 Hk1 Hk2 Hs1 Hs2.
    apply nth_error_upd in Hk1 as [[-> ->] | [Hne1 Hk1]]; [discriminate Hs1 |].
    apply nth_error_upd in Hk2 as [[-> ->] | [Hne2 Hk2]]; [discriminate Hs2 |].
    eapply Htdist; eassumption.
  - intros p0 Hp0.
    rewrite rd_wr_neq; [apply Hwin; assumption | lia | apply mod_range; assumption |].
    subst i. intro E. symmetry in E. revert E. apply mod_neq; lia.
  - assert (Hneq : ex pr = 1 -> i <> g_h mod n).
    { intro E1. subst i. intro E. symmetry in E. revert E. apply mod_neq; lia. }
    assert (Hgr := mod_range n g_h Hn0).
    destruct pr; cbn [pinv ex] in *; try assumption.
    + destruct Hpinv as [Hh Hs]. split; [assumption |].
      rewrite rd_wr_neq; [assumption | lia | lia | apply Hneq; reflexivity].
    + rewrite rd_wr_neq; [assumption | lia | lia | apply Hneq; reflexivity].
    + destruct Hpinv as [Hh Hs]. split; [assumption |].
      rewrite rd_wr_neq; [assumption | lia | lia | subst i0; apply Hneq; reflexivity].
    + destruct Hpinv as (Hh & Hs & Hval). split; [assumption |]. split; [| assumption].
      rewrite rd_wr_neq; [assumption | lia | lia | subst i0; apply Hneq; reflexivity].
  - intros k0 s Hk.
    apply nth_error_upd in Hk as [[-> ->] | [Hnk Hk]]; [exact I | eapply Htinv; eassumption].
Qed.

Ltac sp :=
  cbn [sz head tail vals prod thieves gh gt abs glog trace
       with_prod with_thieves with_vals with_head with_tail do_log do_ret do_lp_ret] in *.

Lemma prod_step_core : forall st, Core st -> Core (prod_step st).
Proof.
  intros st H. unfold Core in *. unfold prod_step.
  destruct st as [n hv tv vs pr ths g_h g_t ab lg tr]. sp.
  destruct pr as [| v | v h | v h | v | | h t | i k x | i val k x].
  - exact H.
  - destruct ((tv + n) mod M32 =? hv); sp.
    + eapply core_set_prod; [exact H | reflexivity | exact I].
    + eapply core_set_prod; [exact H | reflexivity | reflexivity].
  - destruct (rd vs (h mod n)) eqn:Es; sp.
    + eapply core_set_prod; [exact H | reflexivity | exact I].
    + apply core_P2_ok; assumption.
  - apply core_P3. exact H.
  - apply core_P4. exact H.
  - destruct (tv =? hv) eqn:E; sp.
    + eapply core_set_prod; [exact H | reflexivity | exact I].
    + eapply core_set_prod; [exact H | reflexivity |].
      cbn [pinv]. apply Z.eqb_neq in E. congruence.
  - destruct ((hv =? h) && (tv =? t)) eqn:E; sp.
    + apply andb_true_iff in E. destruct E as [E1 E2].
      apply Z.eqb_eq in E1. apply Z.eqb_eq in E2. subst h t.
      apply core_H2_ok. exact H.
    + eapply core_set_prod; [exact H | reflexivity | exact I].
  - eapply core_set_prod; [exact H | reflexivity |].
    destruct (c_pinv _ _ _ _ _ _ _ _ _ H) as [Hi Hv]. cbn [pinv].
    repeat split; assumption.
  - eapply core_H4. exact H.
Qed.

Lemma thief_step_core : forall st j, Core st -> Core (thief_step st j).
Proof.
  intros st j H. unfold Core in *. unfold thief_step.
  destruct st as [n hv tv vs pr ths g_h g_t ab lg tr]. sp.
  destruct (nth_error ths j) as [s |] eqn:Ej; [| exact H].
  destruct s as [| h t | i p k x | i val p k x].
  - destruct (tv =? hv) eqn:E; sp.
    + exact H.
    + eapply core_set_thief; [exact H | exact Ej | reflexivity |].
      cbn [tinv]. apply Z.eqb_neq in E. congruence.
  - destruct ((hv =? h) && (tv =? t)) eqn:E; sp.
    + apply andb_true_iff in E. destruct E as [E1 E2].
      apply Z.eqb_eq in E1. apply Z.eqb_eq in E2. subst h t.
      apply core_T2_ok; assumption.
    + eapply core_set_thief; [exact H | exact Ej | reflexivity | exact I].
  - eapply core_set_thief; [exact H | exact Ej | reflexivity |].
    destruct (c_town _ _ _ _ _ _ _ _ _ H j _ i p x Ej eq_refl) as (_ & _ & Hv).
    exact Hv.
  - eapply core_T4; [exact H | exact Ej].
Qed.

Lemma step_core : forall st l, Core st -> Core (step st l).
Proof.
  intros st l H. destruct l as [v | | | j]; unfold step.
  - destruct (prod st) eqn:Ep; try exact H.
    unfold Core in *. destruct st; sp. subst.
    eapply core_set_prod; [exact H | reflexivity | exact I].
  - destruct (prod st) eqn:Ep; try exact H.
    unfold Core in *. destruct st; sp. subst.
    eapply core_set_prod; [exact H | reflexivity | exact I].
  - apply prod_step_core. exact H.
  - apply thief_step_core. exact H.
Qed.

Lemma run_app : forall s1 s2 st, run st (s1 ++ s2) = run (run st s1) s2.
Proof. intros. unfold run. apply fold_left_app. Qed.

Lemma run_invariant : forall (P : state -> Prop),
  (forall st l, P st -> P (step st l)) -> forall sched st, P st -> P (run st sched).
Proof.
  intros P HP sched. induction sched as [| l r IH]; intros st H; [exact H |].
  cbn [run fold_left]. apply IH. apply HP. exact H.
Qed.

Lemma run_core : forall sched st, Core st -> Core (run st sched).
Proof. apply run_invariant. apply step_core. Qed.

(* ------------------------------------------------------------------ *)
(* facts extracted from the core invariant                             *)
(* ------------------------------------------------------------------ *)
Lemma core_nonneg : forall n hv tv vs pr ths g_h g_t ab,
  CoreF n hv tv vs pr ths g_h g_t ab -> 0 <= g_h - g_t <= n /\ n < M32.
Proof.
  intros n hv tv vs pr ths g_h g_t ab H. dcore H.
  assert (Hex := ex_range pr). assert (HM := limit_lt_M32). lia.
Qed.

Lemma core_empty_iff : forall n hv tv vs pr ths g_h g_t ab,
  CoreF n hv tv vs pr ths g_h g_t ab -> (tv = hv <-> ab = []).
Proof.
  intros n hv tv vs pr ths g_h g_t ab H.
  destruct (core_nonneg _ _ _ _ _ _ _ _ _ H) as [Hr HM]. dcore H.
  split.
  - intro E. rewrite Hhd, Htl in E.
    assert (E2 : g_t = g_h) by (apply (mod_inj M32); [apply M32_pos | assumption | lia]).
    destruct ab; [reflexivity | cbn [length] in Hab; lia].
  - intro E. subst ab. cbn [length] in Hab. replace g_h with g_t in Hhd by lia. congruence.
Qed.

(* ------------------------------------------------------------------ *)
(* the log invariant: the ghost log is a legal sequential history      *)
(* ending in abs, completed calls agree with their log entry           *)
(* ------------------------------------------------------------------ *)
Lemma seq_run_snoc : forall q0 es q e q',
  seq_run q0 es q -> seq_step q e q' -> seq_run q0 (es ++ [e]) q'.
Proof.
  intros q0 es q e q' H. induction H as [q | q e0 q1 es q2 Hs Hr IH]; intro Hs'.
  - cbn [app]. eapply sr_cons; [exact Hs' | apply sr_nil].
  - cbn [app]. eapply sr_cons; [exact Hs | apply IH; exact Hs'].
Qed.

Lemma nth_error_snoc_old : forall A (l : list A) k e e',
  nth_error l k = Some e -> nth_error (l ++ [e']) k = Some e.
Proof.
  intros A l k e e' H. rewrite nth_error_app1; [assumption |].
  apply nth_error_Some. congruence.
Qed.

Lemma nth_error_snoc_new : forall A (l : list A) e, nth_error (l ++ [e]) (length l) = Some e.
Proof.
  intros A l e. rewrite nth_error_app2 by lia. rewrite Nat.sub_diag. reflexivity.
Qed.

Definition pk_inv (lg : list (nat * event)) (p : pstate) : Prop :=
  match p with
  | PH3 _ k x => nth_error lg k = Some (0%nat, EPopHead (Got (Some x)))
  | PH4 _ _ k x => nth_error lg k = Some (0%nat, EPopHead (Got (Some x)))
  | _ => True
  end.

Definition tk_inv (lg : list (nat * event)) (j : nat) (s : tstate) : Prop :=
  match s with
  | T3 _ _ k x => nth_error lg k = Some (S j, EPopTail (Got (Some x)))
  | T4 _ _ _ k x => nth_error lg k = Some (S j, EPopTail (Got (Some x)))
  | _ => True
  end.

Record LogF (lg : list (nat * event)) (ab : list V) (tr : list (nat * event * nat))
            (pr : pstate) (ths : list tstate) : Prop := {
  l_seq : seq_run [] (map snd lg) ab;
  l_trace : forall t e k, In (t, e, k) tr -> nth_error lg k = Some (t, e);
  l_prod : pk_inv lg pr;
  l_thief : forall j s, nth_error ths j = Some s -> tk_inv lg j s
}.

Definition LogInv (st : state) : Prop :=
  LogF (glog st) (abs st) (trace st) (prod st) (thieves st).

Lemma logF_set_prod : forall lg ab tr pr pr' ths,
  LogF lg ab tr pr ths -> pk_inv lg pr' -> LogF lg ab tr pr' ths.
Proof. intros lg ab tr pr pr' ths [H1 H2 H3 H4] Hp. constructor; assumption. Qed.

Lemma logF_set_thief : forall lg ab tr pr ths j s',
  LogF lg ab tr pr ths -> tk_inv lg j s' -> LogF lg ab tr pr (upd ths j s').
Proof.
  intros lg ab tr pr ths j s' [H1 H2 H3 H4] Hp. constructor; try assumption.
  intros k s Hk. apply nth_error_upd in Hk as [[-> ->] | [Hne Hk]]; [assumption | apply H4; assumption].
Qed.

Lemma logF_log : forall lg ab ab' tr pr ths t e,
  LogF lg ab tr pr ths -> seq_step ab e ab' -> LogF (lg ++ [(t, e)]) ab' tr pr ths.
Proof.
  intros lg ab ab' tr pr ths t e [H1 H2 H3 H4] Hs. constructor.
  - rewrite map_app. cbn [map snd]. eapply seq_run_snoc; eassumption.
  - intros t0 e0 k Hin. apply nth_error_snoc_old. apply H2. assumption.
  - destruct pr; cbn [pk_inv] in *; try exact I; apply nth_error_snoc_old; assumption.
  - intros j s Hj. specialize (H4 j s Hj).
    destruct s; cbn [tk_inv] in *; try exact I; apply nth_error_snoc_old; assumption.
Qed.

Lemma logF_ret : forall lg ab tr pr ths t e k,
  LogF lg ab tr pr ths -> nth_error lg k = Some (t, e) -> LogF lg ab (tr ++ [(t, e, k)]) pr ths.
Proof.
  intros lg ab tr pr ths t e k [H1 H2 H3 H4] Hk. constructor; try assumption.
  intros t0 e0 k0 Hin. apply in_app_or in Hin. destruct Hin as [Hin | Hin].
  - apply H2. assumption.
  - cbn [In] in Hin. destruct Hin as [E | []]. inversion E; subst. assumption.
Qed.

Lemma logF_lp_ret : forall lg ab ab' tr pr ths t e,
  LogF lg ab tr pr ths -> seq_step ab e ab' ->
  LogF (lg ++ [(t, e)]) ab' (tr ++ [(t, e, length lg)]) pr ths.
Proof.
  intros. apply logF_ret; [eapply logF_log; eassumption | apply nth_error_snoc_new].
Qed.

Lemma log_init : forall n T h0, LogInv (init n T h0).
Proof.
  intros n T h0. unfold LogInv, init. sp. constructor.
  - apply sr_nil.
  - intros t e k [].
  - exact I.
  - intros j s Hj. apply nth_error_repeat in Hj. subst s. exact I.
Qed.

Lemma prod_step_log : forall st, Core st -> LogInv st -> LogInv (prod_step st).
Proof.
  intros st HC H. unfold Core, LogInv in *. unfold prod_step.
  destruct st as [n hv tv vs pr ths g_h g_t ab lg tr]. sp.
  destruct pr as [| v | v h | v h | v | | h t | i k x | i val k x].
  - exact H.
  - destruct ((tv + n) mod M32 =? hv); sp.
    + eapply logF_set_prod; [| exact I]. eapply logF_lp_ret; [exact H | apply ss_push_fail].
    + eapply logF_set_prod; [exact H | exact I].
  - destruct (rd vs (h mod n)) eqn:Es; sp.
    + eapply logF_set_prod; [| exact I]. eapply logF_lp_ret; [exact H | apply ss_push_fail].
    + eapply logF_set_prod; [exact H | exact I].
  - eapply logF_set_prod; [exact H | exact I].
  - eapply logF_set_prod; [| exact I]. eapply logF_lp_ret; [exact H | apply ss_push].
  - destruct (tv =? hv) eqn:E; sp.
    + apply Z.eqb_eq in E. apply (core_empty_iff _ _ _ _ _ _ _ _ _ HC) in E. subst ab.
      eapply logF_set_prod; [| exact I]. eapply logF_lp_ret; [exact H | apply ss_pophead_empty].
    + eapply logF_set_prod; [exact H | exact I].
  - destruct ((hv =? h) && (tv =? t)) eqn:E; sp.
    + apply andb_true_iff in E. destruct E as [E1 E2].
      apply Z.eqb_eq in E1. apply Z.eqb_eq in E2. subst h t.
      assert (Hne : ab <> []).
      { intro E. apply (core_empty_iff _ _ _ _ _ _ _ _ _ HC) in E.
        apply (c_pinv _ _ _ _ _ _ _ _ _ HC). congruence. }
      destruct ab as [| x q]; [congruence |]. cbn [hd tl].
      eapply logF_set_prod.
      * eapply logF_log; [exact H | apply ss_pophead].
      * cbn [pk_inv]. apply nth_error_snoc_new.
    + eapply logF_set_prod; [exact H | exact I].
  - eapply logF_set_prod; [exact H |]. exact (l_prod _ _ _ _ _ H).
  - eapply logF_set_prod; [| exact I].
    destruct (c_pinv _ _ _ _ _ _ _ _ _ HC) as (_ & _ & Hval). subst val.
    apply logF_ret; [exact H | exact (l_prod _ _ _ _ _ H)].
Qed.

Lemma thief_step_log : forall st j, Core st -> LogInv st -> LogInv (thief_step st j).
Proof.
  intros st j HC H. unfold Core, LogInv in *. unfold thief_step.
  destruct st as [n hv tv vs pr ths g_h g_t ab lg tr]. sp.
  destruct (nth_error ths j) as [s |] eqn:Ej; [| exact H].
  destruct s as [| h t | i p k x | i val p k x].
  - destruct (tv =? hv) eqn:E; sp.
    + apply Z.eqb_eq in E. apply (core_empty_iff _ _ _ _ _ _ _ _ _ HC) in E. subst ab.
      eapply logF_lp_ret; [exact H | apply ss_poptail_empty].
    + eapply logF_set_thief; [exact H | exact I].
  - destruct ((hv =? h) && (tv =? t)) eqn:E; sp.
    + apply andb_true_iff in E. destruct E as [E1 E2].
      apply Z.eqb_eq in E1. apply Z.eqb_eq in E2. subst h t.
      assert (Hne : ab <> []).
      { intro E. apply (core_empty_iff _ _ _ _ _ _ _ _ _ HC) in E.
        apply (c_tinv _ _ _ _ _ _ _ _ _ HC _ _ Ej). congruence. }
      destruct (exists_last Hne) as (q & x & E). subst ab.
      rewrite removelast_last, last_last.
      eapply logF_set_thief.
      * eapply logF_log; [exact H | apply ss_poptail].
      * cbn [tk_inv]. apply nth_error_snoc_new.
    + eapply logF_set_thief; [exact H | exact I].
  - eapply logF_set_thief; [exact H |]. exact (l_thief _ _ _ _ _ H _ _ Ej).
  - eapply logF_set_thief; [| exact I].
    assert (Hval : val = Some x) by exact (c_tinv _ _ _ _ _ _ _ _ _ HC _ _ Ej). subst val.
    apply logF_ret; [exact H | exact (l_thief _ _ _ _ _ H _ _ Ej)].
Qed.

Lemma step_log : forall st l, Core st -> LogInv st -> LogInv (step st l).
Proof.
  intros st l HC H. destruct l as [v | | | j]; unfold step.
  - destruct (prod st) eqn:Ep; try exact H.
    unfold LogInv in *. destruct st; sp. subst.
    eapply logF_set_prod; [exact H | exact I].
  - destruct (prod st) eqn:Ep; try exact H.
    unfold LogInv in *. destruct st; sp. subst.
    eapply logF_set_prod; [exact H | exact I].
  - apply prod_step_log; assumption.
  - apply thief_step_log; assumption.
Qed.

Lemma run_core_log : forall sched st, Core st /\ LogInv st -> Core (run st sched) /\ LogInv (run st sched).
Proof.
  apply (run_invariant (fun st => Core st /\ LogInv st)).
  intros st l [HC HL]. split; [apply step_core | apply step_log]; assumption.
Qed.

(* ------------------------------------------------------------------ *)
(* ownership: pushed values = abs + pending + popped (as multisets)    *)
(* ------------------------------------------------------------------ *)
Lemma flat_map_upd : forall A B (f : A -> list B) l j s s',
  nth_error l j = Some s ->
  exists l1 l2, flat_map f l = l1 ++ f s ++ l2 /\ flat_map f (upd l j s') = l1 ++ f s' ++ l2.
Proof.
  intros A B f l. induction l as [| y r IH]; intros j s s' H.
  - destruct j; discriminate H.
  - destruct j; cbn [nth_error upd flat_map] in *.
    + inversion H; subst. exists [], (flat_map f r). split; reflexivity.
    + destruct (IH _ _ s' H) as (l1 & l2 & E1 & E2).
      exists (f y ++ l1), l2. rewrite E1, E2, <- !app_assoc. split; reflexivity.
Qed.

Lemma flat_map_upd_same : forall A B (f : A -> list B) l j s s',
  nth_error l j = Some s -> f s' = f s -> flat_map f (upd l j s') = flat_map f l.
Proof.
  intros A B f l j s s' H E.
  destruct (flat_map_upd _ _ f l j s s' H) as (l1 & l2 & E1 & E2).
  rewrite E1, E2, E. reflexivity.
Qed.

Lemma popped_snoc : forall tr t e k, popped (tr ++ [(t, e, k)]) = popped tr ++ ev_popped e.
Proof.
  intros. unfold popped. rewrite flat_map_app. cbn [flat_map fst snd]. rewrite app_nil_r. reflexivity.
Qed.

Lemma pushed_snoc : forall tr t e k, pushed (tr ++ [(t, e, k)]) = pushed tr ++ ev_pushed e.
Proof.
  intros. unfold pushed. rewrite flat_map_app. cbn [flat_map fst snd]. rewrite app_nil_r. reflexivity.
Qed.

Definition PermF (tr : list (nat * event * nat)) (pr : pstate) (ths : list tstate) (ab : list V) : Prop :=
  Permutation (ab ++ ppend pr ++ flat_map tpend ths ++ popped tr) (pushed tr).
Definition PermInv (st : state) : Prop := PermF (trace st) (prod st) (thieves st) (abs st).

Ltac tr_snoc :=
  rewrite ?popped_snoc, ?pushed_snoc; cbn [ev_popped ev_pushed]; rewrite ?app_nil_r.

Lemma perm_init : forall n T h0, PermInv (init n T h0).
Proof.
  intros n T h0. unfold PermInv, PermF, init. sp. cbn [ppend app popped pushed flat_map].
  replace (flat_map tpend (repeat T1 T)) with (@nil V); [apply perm_nil |].
  induction T as [| T IH]; [reflexivity | cbn [repeat flat_map tpend app]; exact IH].
Qed.

Lemma prod_step_perm : forall st, Core st -> PermInv st -> PermInv (prod_step st).
Proof.
  intros st HC H. unfold Core, PermInv, PermF in *. unfold prod_step.
  destruct st as [n hv tv vs pr ths g_h g_t ab lg tr]. sp.
  destruct pr as [| v | v h | v h | v | | h t | i k x | i val k x]; sp.
  - exact H.
  - destruct ((tv + n) mod M32 =? hv); sp; [tr_snoc |]; exact H.
  - destruct (rd vs (h mod n)) eqn:Es; sp; [tr_snoc |]; exact H.
  - exact H.
  - tr_snoc. cbn [ppend app] in *. rewrite <- Permutation_cons_append. apply perm_skip. exact H.
  - destruct (tv =? hv) eqn:E; sp; [tr_snoc |]; exact H.
  - destruct ((hv =? h) && (tv =? t)) eqn:E; sp; [| exact H].
    apply andb_true_iff in E. destruct E as [E1 E2].
    apply Z.eqb_eq in E1. apply Z.eqb_eq in E2. subst h t.
    assert (Hne : ab <> []).
    { intro E. apply (core_empty_iff _ _ _ _ _ _ _ _ _ HC) in E.
      apply (c_pinv _ _ _ _ _ _ _ _ _ HC). congruence. }
    destruct ab as [| x q]; [congruence |]. cbn [hd tl].
    etransitivity; [| exact H]. cbn [app ppend]. symmetry. apply Permutation_middle.
  - exact H.
  - destruct (c_pinv _ _ _ _ _ _ _ _ _ HC) as (_ & _ & Hval). subst val.
    tr_snoc. etransitivity; [| exact H]. apply Permutation_app_head. cbn [app ppend].
    rewrite app_assoc. symmetry. apply Permutation_cons_append.
Qed.

Lemma thief_step_perm : forall st j, Core st -> PermInv st -> PermInv (thief_step st j).
Proof.
  intros st j HC H. unfold Core, PermInv, PermF in *. unfold thief_step.
  destruct st as [n hv tv vs pr ths g_h g_t ab lg tr]. sp.
  destruct (nth_error ths j) as [s |] eqn:Ej; [| exact H].
  destruct s as [| h t | i p k x | i val p k x]; sp.
  - destruct (tv =? hv) eqn:E; sp.
    + tr_snoc. exact H.
    + rewrite (flat_map_upd_same _ _ tpend _ _ _ _ Ej); [exact H | reflexivity].
  - destruct ((hv =? h) && (tv =? t)) eqn:E; sp.
    + apply andb_true_iff in E. destruct E as [E1 E2].
      apply Z.eqb_eq in E1. apply Z.eqb_eq in E2. subst h t.
      assert (Hne : ab <> []).
      { intro E. apply (core_empty_iff _ _ _ _ _ _ _ _ _ HC) in E.
        apply (c_tinv _ _ _ _ _ _ _ _ _ HC _ _ Ej). congruence. }
      destruct (exists_last Hne) as (q & x & E). subst ab.
      rewrite removelast_last, last_last.
      destruct (flat_map_upd _ _ tpend ths j _ (T3 (tv mod n) g_t (length lg) x) Ej)
        as (l1 & l2 & E1 & E2).
      rewrite E2. rewrite E1 in H. cbn [tpend app] in *.
      etransitivity; [| exact H]. rewrite <- (app_assoc q). apply Permutation_app_head.
      cbn [app]. rewrite <- (Permutation_middle l1 l2 x). cbn [app].
      symmetry. apply Permutation_middle.
    + rewrite (flat_map_upd_same _ _ tpend _ _ _ _ Ej); [exact H | reflexivity].
  - rewrite (flat_map_upd_same _ _ tpend _ _ _ _ Ej); [exact H | reflexivity].
  - assert (Hval : val = Some x) by exact (c_tinv _ _ _ _ _ _ _ _ _ HC _ _ Ej). subst val.
    tr_snoc.
    destruct (flat_map_upd _ _ tpend ths j _ T1 Ej) as (l1 & l2 & E1 & E2).
    rewrite E2. rewrite E1 in H. cbn [tpend app] in *.
    etransitivity; [| exact H]. do 2 apply Permutation_app_head.
    rewrite <- (Permutation_middle l1 l2 x). cbn [app].
    rewrite app_assoc. symmetry. apply Permutation_cons_append.
Qed.

Lemma step_perm : forall st l, Core st -> PermInv st -> PermInv (step st l).
Proof.
  intros st l HC H. destruct l as [v | | | j]; unfold step.
  - destruct (prod st) eqn:Ep; try exact H.
    unfold PermInv, PermF in *. destruct st; sp. subst. exact H.
  - destruct (prod st) eqn:Ep; try exact H.
    unfold PermInv, PermF in *. destruct st; sp. subst. exact H.
  - apply prod_step_perm; assumption.
  - apply thief_step_perm; assumption.
Qed.

(* ------------------------------------------------------------------ *)
(* completed + pending calls are in bijection with the log entries     *)
(* ------------------------------------------------------------------ *)
Definition IdxF (tr : list (nat * event * nat)) (pr : pstate) (ths : list tstate)
                (lg : list (nat * event)) : Prop :=
  Permutation (ppend_k pr ++ flat_map tpend_k ths ++ map snd tr) (seq 0 (length lg)).
Definition IdxInv (st : state) : Prop := IdxF (trace st) (prod st) (thieves st) (glog st).

Lemma idx_lp_ret : forall (Q R : list nat) (tr : list (nat * event * nat)) (lg : list (nat * event)) t e,
  Permutation (Q ++ R ++ map snd tr) (seq 0 (length lg)) ->
  Permutation (Q ++ R ++ map snd (tr ++ [(t, e, length lg)])) (seq 0 (length (lg ++ [(t, e)]))).
Proof.
  intros Q R tr lg t e H.
  rewrite map_app, app_length. cbn [map snd length]. rewrite Nat.add_1_r, seq_S. cbn [Nat.add].
  rewrite 2 app_assoc. apply Permutation_app_tail. rewrite <- app_assoc. exact H.
Qed.

Lemma idx_init : forall n T h0, IdxInv (init n T h0).
Proof.
  intros n T h0. unfold IdxInv, IdxF, init. sp. cbn [ppend_k app map length seq].
  rewrite app_nil_r.
  replace (flat_map tpend_k (repeat T1 T)) with (@nil nat); [apply perm_nil |].
  induction T as [| T IH]; [reflexivity | cbn [repeat flat_map tpend_k app]; exact IH].
Qed.

Lemma prod_step_idx : forall st, IdxInv st -> IdxInv (prod_step st).
Proof.
  intros st H. unfold IdxInv, IdxF in *. unfold prod_step.
  destruct st as [n hv tv vs pr ths g_h g_t ab lg tr]. sp.
  destruct pr as [| v | v h | v h | v | | h t | i k x | i val k x]; sp.
  - exact H.
  - destruct ((tv + n) mod M32 =? hv); sp; [apply idx_lp_ret |]; exact H.
  - destruct (rd vs (h mod n)) eqn:Es; sp; [apply idx_lp_ret |]; exact H.
  - exact H.
  - apply idx_lp_ret. exact H.
  - destruct (tv =? hv) eqn:E; sp; [apply idx_lp_ret |]; exact H.
  - destruct ((hv =? h) && (tv =? t)) eqn:E; sp; [| exact H].
    rewrite app_length. cbn [length ppend_k app] in *. rewrite Nat.add_1_r, seq_S. cbn [Nat.add].
    rewrite <- Permutation_cons_append. apply perm_skip. exact H.
  - exact H.
  - rewrite map_app. cbn [map snd ppend_k app] in *.
    rewrite app_assoc, <- Permutation_cons_append. exact H.
Qed.

Lemma thief_step_idx : forall st j, IdxInv st -> IdxInv (thief_step st j).
Proof.
  intros st j H. unfold IdxInv, IdxF in *. unfold thief_step.
  destruct st as [n hv tv vs pr ths g_h g_t ab lg tr]. sp.
  destruct (nth_error ths j) as [s |] eqn:Ej; [| exact H].
  destruct s as [| h t | i p k x | i val p k x]; sp.
  - destruct (tv =? hv) eqn:E; sp.
    + apply idx_lp_ret. exact H.
    + rewrite (flat_map_upd_same _ _ tpend_k _ _ _ _ Ej); [exact H | reflexivity].
  - destruct ((hv =? h) && (tv =? t)) eqn:E; sp.
    + destruct (flat_map_upd _ _ tpend_k ths j _
                  (T3 (t mod n) g_t (length lg) (last ab dflt)) Ej) as (l1 & l2 & E1 & E2).
      rewrite E2. rewrite E1 in H. cbn [tpend_k app] in *.
      rewrite app_length. cbn [length]. rewrite Nat.add_1_r, seq_S. cbn [Nat.add].
      rewrite <- (Permutation_middle l1 l2 (length lg)). cbn [app].
      rewrite <- (Permutation_middle (ppend_k pr) ((l1 ++ l2) ++ map snd tr) (length lg)).
      rewrite <- Permutation_cons_append. apply perm_skip. exact H.
    + rewrite (flat_map_upd_same _ _ tpend_k _ _ _ _ Ej); [exact H | reflexivity].
  - rewrite (flat_map_upd_same _ _ tpend_k _ _ _ _ Ej); [exact H | reflexivity].
  - destruct (flat_map_upd _ _ tpend_k ths j _ T1 Ej) as (l1 & l2 & E1 & E2).
    rewrite E2. rewrite E1 in H. cbn [tpend_k app] in *.
    rewrite map_app. cbn [map snd].
    etransitivity; [| exact H]. apply Permutation_app_head.
    rewrite <- (Permutation_middle l1 l2 k). cbn [app].
    rewrite app_assoc. symmetry. apply Permutation_cons_append.
Qed.

Lemma step_idx : forall st l, IdxInv st -> IdxInv (step st l).
Proof.
  intros st l H. destruct l as [v | | | j]; unfold step.
  - destruct (prod st) eqn:Ep; try exact H.
    unfold IdxInv, IdxF in *. destruct st; sp. subst. exact H.
  - destruct (prod st) eqn:Ep; try exact H.
    unfold IdxInv, IdxF in *. destruct st; sp. subst. exact H.
  - apply prod_step_idx; assumption.
  - apply thief_step_idx; assumption.
Qed.

(* ------------------------------------------------------------------ *)
(* the packed word: the pair (head, tail) is a faithful representation *)
(* ------------------------------------------------------------------ *)
Lemma land_shiftl_low : forall h t, Z.land (Z.shiftl h 32) (Z.land t (Z.ones 32)) = 0.
Proof.
  intros h t. apply Z.bits_inj'. intros i Hi. rewrite Z.land_spec, Z.bits_0.
  destruct (Z.lt_ge_cases i 32) as [Hlt | Hge].
  - rewrite Z.shiftl_spec_low by assumption. reflexivity.
  - rewrite Z.land_ones by lia. rewrite Z.mod_pow2_bits_high by lia. apply andb_false_r.
Qed.

Lemma pack_arith : forall h t, 0 <= t < M32 -> pack h t = h * M32 + t.
Proof.
  intros h t Ht. unfold pack, mask32.
  rewrite <- Z.lxor_lor by apply land_shiftl_low.
  rewrite <- Z.add_nocarry_lxor by apply land_shiftl_low.
  rewrite Z.shiftl_mul_pow2 by lia. rewrite Z.land_ones by lia. rewrite <- M32_pow.
  rewrite Z.mod_small by lia. reflexivity.
Qed.

Lemma unpack_arith : forall w, unpack w = ((w / M32) mod M32, w mod M32).
Proof.
  intros w. unfold unpack, mask32.
  rewrite Z.shiftr_div_pow2 by lia. rewrite !Z.land_ones by lia. rewrite <- M32_pow. reflexivity.
Qed.

Lemma unpack_pack : forall h t, 0 <= h < M32 -> 0 <= t < M32 -> unpack (pack h t) = (h, t).
Proof.
  intros h t Hh Ht. rewrite unpack_arith, pack_arith by assumption.
  assert (HM := M32_pos).
  rewrite Z.div_add_l by lia. rewrite (Z.div_small t) by lia. rewrite Z.add_0_r.
  rewrite (Z.mod_small h) by lia.
  rewrite Z.add_comm, Z_mod_plus_full. rewrite Z.mod_small by lia. reflexivity.
Qed.

Lemma pack_range : forall h t, 0 <= h < M32 -> 0 <= t < M32 -> 0 <= pack h t < M64.
Proof.
  intros h t Hh Ht. rewrite pack_arith by assumption. rewrite M32_val, M64_val in *. lia.
Qed.

(* comparing the packed words (the CAS) = comparing both halves *)
Lemma pack_inj : forall h t h' t',
  0 <= h < M32 -> 0 <= t < M32 -> 0 <= h' < M32 -> 0 <= t' < M32 ->
  pack h t = pack h' t' -> h = h' /\ t = t'.
Proof.
  intros h t h' t' Hh Ht Hh' Ht' E. rewrite !pack_arith in E by assumption.
  rewrite M32_val in *. lia.
Qed.

Lemma pack_unpack : forall w, 0 <= w < M64 ->
  pack (fst (unpack w)) (snd (unpack w)) = w /\
  0 <= fst (unpack w) < M32 /\ 0 <= snd (unpack w) < M32.
Proof.
  intros w Hw. rewrite unpack_arith. cbn [fst snd].
  assert (HM := M32_pos).
  assert (Hd : 0 <= w / M32 < M32).
  { split; [apply Z.div_pos; lia |]. apply Z.div_lt_upper_bound; [lia |]. rewrite <- M64_M32. lia. }
  assert (Hr : 0 <= w mod M32 < M32) by (apply Z.mod_pos_bound; lia).
  rewrite (Z.mod_small (w / M32)) by assumption.
  rewrite pack_arith by assumption.
  split; [| split; assumption].
  rewrite (Z.div_mod w M32) at 3 by lia. ring.
Qed.

(* atomic.AddUint64(&headTail, 1<<32): head+1 mod 2^32, tail untouched; the carry
   out of bit 63 is dropped *)
Lemma add_head_spec : forall h t, 0 <= h < M32 -> 0 <= t < M32 ->
  add_head (pack h t) = pack ((h + 1) mod M32) t.
Proof.
  intros h t Hh Ht. unfold add_head.
  rewrite Z.shiftl_mul_pow2 by lia. rewrite <- M32_pow, Z.mul_1_l.
  assert (HM := M32_pos).
  assert (Hr : 0 <= (h + 1) mod M32 < M32) by (apply Z.mod_pos_bound; lia).
  rewrite !pack_arith by assumption.
  destruct (Z.eq_dec (h + 1) M32) as [E | E].
  - rewrite E, Z_mod_same_full. symmetry.
    apply (Z.mod_unique_pos _ _ 1); rewrite M32_val, M64_val in *; lia.
  - rewrite (Z.mod_small (h + 1)) by lia.
    rewrite Z.mod_small; [ring | rewrite M32_val, M64_val in *; lia].
Qed.

(* the slot index head & (len-1) of the code is head mod len for len = 2^k *)
Lemma mask_is_mod : forall h k, 0 <= k -> Z.land h (2 ^ k - 1) = h mod 2 ^ k.
Proof.
  intros h k Hk. rewrite <- Z.land_ones by assumption. f_equal.
  rewrite Z.ones_equiv. unfold Z.pred. ring.
Qed.

(* the words written by the two CASes *)
Lemma cas_words : forall h t, 0 <= h < M32 -> 0 <= t < M32 ->
  unpack (pack ((h - 1) mod M32) t) = ((h - 1) mod M32, t) /\
  unpack (pack h ((t + 1) mod M32)) = (h, (t + 1) mod M32).
Proof.
  intros h t Hh Ht. assert (HM := M32_pos).
  split; apply unpack_pack; try assumption; apply Z.mod_pos_bound; lia.
Qed.

(* ------------------------------------------------------------------ *)
(* (A) step level: where the linearization points are                  *)
(* ------------------------------------------------------------------ *)
(* which (thread, event) takes effect at the step labelled l from st:
   P4 (push), successful H2 / T2 (pop), the empty answers at H1 / T1, and the
   two failure returns of pushHead (no abstract effect). *)
Definition lp_of (st : state) (l : label) : option (nat * event) :=
  match l with
  | LProd =>
      match prod st with
      | PP1 v => if (tail st + sz st) mod M32 =? head st
                 then Some (0%nat, EPush v false) else None
      | PP2 v h => match rd (vals st) (h mod sz st) with
                   | Some _ => Some (0%nat, EPush v false)
                   | None => None
                   end
      | PP4 v => Some (0%nat, EPush v true)
      | PH1 => if tail st =? head st then Some (0%nat, EPopHead Empty) else None
      | PH2 h t => if (head st =? h) && (tail st =? t)
                   then Some (0%nat, EPopHead (Got (Some (hd dflt (abs st))))) else None
      | _ => None
      end
  | LThief j =>
      match nth_error (thieves st) j with
      | Some T1 => if tail st =? head st then Some (S j, EPopTail Empty) else None
      | Some (T2 h t) => if (head st =? h) && (tail st =? t)
                         then Some (S j, EPopTail (Got (Some (last (abs st) dflt)))) else None
      | _ => None
      end
  | _ => None
  end.

Definition lin_step (st : state) (l : label) : Prop :=
  match lp_of st l with
  | None => glog (step st l) = glog st /\ abs (step st l) = abs st
  | Some (t, e) => glog (step st l) = glog st ++ [(t, e)] /\ seq_step (abs st) e (abs (step st l))
  end.

Lemma step_lin : forall st l, Core st -> lin_step st l.
Proof.
  intros st l HC. unfold lin_step, lp_of, step. unfold Core in HC.
  destruct st as [n hv tv vs pr ths g_h g_t ab lg tr]. sp.
  destruct l as [v | | | j].
  - destruct pr; sp; split; reflexivity.
  - destruct pr; sp; split; reflexivity.
  - unfold prod_step. sp.
    destruct pr as [| v | v h | v h | v | | h t | i k x | i val k x]; sp.
    + split; reflexivity.
    + destruct ((tv + n) mod M32 =? hv); sp; split; try reflexivity. apply ss_push_fail.
    + destruct (rd vs (h mod n)); sp; split; try reflexivity. apply ss_push_fail.
    + split; reflexivity.
    + split; [reflexivity | apply ss_push].
    + destruct (tv =? hv) eqn:E; sp; split; try reflexivity.
      apply Z.eqb_eq in E. apply (core_empty_iff _ _ _ _ _ _ _ _ _ HC) in E. subst ab.
      apply ss_pophead_empty.
    + destruct ((hv =? h) && (tv =? t)) eqn:E; sp; split; try reflexivity.
      apply andb_true_iff in E. destruct E as [E1 E2].
      apply Z.eqb_eq in E1. apply Z.eqb_eq in E2. subst h t.
      assert (Hne : ab <> []).
      { intro E. apply (core_empty_iff _ _ _ _ _ _ _ _ _ HC) in E.
        apply (c_pinv _ _ _ _ _ _ _ _ _ HC). congruence. }
      destruct ab as [| x q]; [congruence |]. cbn [hd tl]. apply ss_pophead.
    + split; reflexivity.
    + split; reflexivity.
  - unfold thief_step. sp.
    destruct (nth_error ths j) as [s |] eqn:Ej; [| split; reflexivity].
    destruct s as [| h t | i p k x | i val p k x]; sp.
    + destruct (tv =? hv) eqn:E; sp; split; try reflexivity.
      apply Z.eqb_eq in E. apply (core_empty_iff _ _ _ _ _ _ _ _ _ HC) in E. subst ab.
      apply ss_poptail_empty.
    + destruct ((hv =? h) && (tv =? t)) eqn:E; sp; split; try reflexivity.
      apply andb_true_iff in E. destruct E as [E1 E2].
      apply Z.eqb_eq in E1. apply Z.eqb_eq in E2. subst h t.
      assert (Hne : ab <> []).
      { intro E. apply (core_empty_iff _ _ _ _ _ _ _ _ _ HC) in E.
        apply (c_tinv _ _ _ _ _ _ _ _ _ HC _ _ Ej). congruence. }
      destruct (exists_last Hne) as (q & x & E). subst ab.
      rewrite removelast_last, last_last. apply ss_poptail.
    + split; reflexivity.
    + split; reflexivity.
Qed.

(* ------------------------------------------------------------------ *)
(* reachable states                                                    *)
(* ------------------------------------------------------------------ *)
Definition good_params (n h0 : Z) : Prop :=
  1 <= n <= dequeueLimit /\ (n | M32) /\ 0 <= h0 < M32.

(* every power of two up to dequeueLimit is a good ring size *)
Lemma pow2_good : forall k h0, 0 <= k <= 30 -> 0 <= h0 < M32 -> good_params (2 ^ k) h0.
Proof.
  intros k h0 Hk Hh. unfold good_params. rewrite limit_pow, M32_pow.
  split; [| split; [| rewrite <- M32_pow; assumption]].
  - split.
    + assert (0 < 2 ^ k) by (apply Z.pow_pos_nonneg; lia). lia.
    + apply Z.pow_le_mono_r; lia.
  - exists (2 ^ (32 - k)). rewrite <- Z.pow_add_r by lia. f_equal. lia.
Qed.

Definition AllInv (st : state) : Prop := Core st /\ LogInv st /\ PermInv st /\ IdxInv st.

Lemma all_init : forall n T h0, good_params n h0 -> AllInv (init n T h0).
Proof.
  intros n T h0 (Hn & Hd & Hh). unfold AllInv.
  split; [apply core_init; assumption |].
  split; [apply log_init |]. split; [apply perm_init | apply idx_init].
Qed.

Lemma all_step : forall st l, AllInv st -> AllInv (step st l).
Proof.
  intros st l (HC & HL & HP & HI). unfold AllInv.
  split; [apply step_core; assumption |].
  split; [apply step_log; assumption |].
  split; [apply step_perm; assumption | apply step_idx; assumption].
Qed.

Lemma all_reach : forall n T h0 sched, good_params n h0 -> AllInv (run (init n T h0) sched).
Proof.
  intros n T h0 sched Hg. apply (run_invariant AllInv all_step). apply all_init. assumption.
Qed.

Lemma sz_step : forall st l, sz (step st l) = sz st.
Proof.
  intros st l. destruct l as [v | | | j]; unfold step.
  - destruct (prod st); reflexivity.
  - destruct (prod st); reflexivity.
  - unfold prod_step. destruct (prod st); sp; try reflexivity.
    + destruct (_ =? _); reflexivity.
    + destruct (rd _ _); reflexivity.
    + destruct (_ =? _); reflexivity.
    + destruct (_ && _); reflexivity.
  - unfold thief_step. destruct (nth_error _ _) as [s |]; [| reflexivity].
    destruct s; sp; try reflexivity.
    + destruct (_ =? _); reflexivity.
    + destruct (_ && _); reflexivity.
Qed.

Lemma sz_run : forall sched st, sz (run st sched) = sz st.
Proof.
  induction sched as [| l r IH]; intros st; [reflexivity |].
  cbn [run fold_left]. fold (run (step st l) r). rewrite IH. apply sz_step.
Qed.

(* ------------------------------------------------------------------ *)
(* (A) the atomic deque refinement                                     *)
(* ------------------------------------------------------------------ *)
Lemma NoDup_app_l : forall A (l r : list A), NoDup (l ++ r) -> NoDup l.
Proof.
  intros A l r. induction l as [| a l IH]; intro H; [apply NoDup_nil |].
  cbn [app] in H. inversion H as [| a' l' Hni Hnd]; subst.
  apply NoDup_cons; [| apply IH; assumption].
  intro Hin. apply Hni. apply in_or_app. left. assumption.
Qed.

(* pending calls (past their CAS, not yet returned) and their log entries *)
Definition pending_logged (st : state) : Prop :=
  (forall i k x, prod st = PH3 i k x ->
     nth_error (glog st) k = Some (0%nat, EPopHead (Got (Some x)))) /\
  (forall i val k x, prod st = PH4 i val k x ->
     val = Some x /\ nth_error (glog st) k = Some (0%nat, EPopHead (Got (Some x)))) /\
  (forall j i p k x, nth_error (thieves st) j = Some (T3 i p k x) ->
     nth_error (glog st) k = Some (S j, EPopTail (Got (Some x)))) /\
  (forall j i val p k x, nth_error (thieves st) j = Some (T4 i val p k x) ->
     val = Some x /\ nth_error (glog st) k = Some (S j, EPopTail (Got (Some x)))).

(* For EVERY ring size n (1 <= n <= 2^30, n | 2^32, in particular every 2^k
   with k <= 30), every number T of thieves, every initial index h0 and every
   schedule (which also fixes the producer's sequence of calls):
   1. the ghost log - the calls in the order of their linearization points -
      is a legal history of the sequential deque and ends in abs;
   2. every completed call (with the result it really returned, read from
      memory at H3/T3) is the log entry written at its linearization point;
   3. completed + pending calls are in bijection with the log entries;
   4. pending pops are logged with the value they will return;
   5. every further step is either abstractly silent or appends exactly one
      event that is a legal sequential deque step from abs (lp_of says which:
      P4, successful H2/T2, empty H1/T1, failing P1/P2).
   A failing pushHead is logged as (EPush v false) and has no abstract effect:
   the sequential specification allows pushHead to fail spuriously, which
   happens when the ring is full or a thief has not yet released the slot. *)
Theorem linearizable : forall n T h0 sched, good_params n h0 ->
  let st := run (init n T h0) sched in
  seq_run [] (map snd (glog st)) (abs st) /\
  (forall t e k, In (t, e, k) (trace st) -> nth_error (glog st) k = Some (t, e)) /\
  Permutation (map snd (trace st) ++ pending_k st) (seq 0 (length (glog st))) /\
  NoDup (map snd (trace st)) /\
  pending_logged st /\
  (forall l, lin_step st l).
Proof.
  intros n T h0 sched Hg st.
  destruct (all_reach n T h0 sched Hg) as (HC & HL & HP & HI). fold st in HC, HL, HP, HI.
  assert (Hperm : Permutation (map snd (trace st) ++ pending_k st) (seq 0 (length (glog st)))).
  { unfold IdxInv, IdxF in HI. unfold pending_k.
    etransitivity; [| exact HI]. rewrite (app_assoc (ppend_k (prod st))).
    apply Permutation_app_comm. }
  destruct HL as [H1 H2 H3 H4].
  split; [exact H1 |]. split; [exact H2 |]. split; [exact Hperm |].
  split.
  { assert (Hnd : NoDup (map snd (trace st) ++ pending_k st)).
    { eapply Permutation_NoDup; [symmetry; exact Hperm | apply seq_NoDup]. }
    apply NoDup_app_l in Hnd. exact Hnd. }
  split.
  { unfold pending_logged. split; [| split; [| split]].
    - intros i k x E. rewrite E in H3. exact H3.
    - intros i val k x E. split.
      + assert (Hp := c_pinv _ _ _ _ _ _ _ _ _ HC). rewrite E in Hp.
        destruct Hp as (_ & _ & Hv). exact Hv.
      + rewrite E in H3. exact H3.
    - intros j i p k x E. exact (H4 _ _ E).
    - intros j i val p k x E. split.
      + exact (c_tinv _ _ _ _ _ _ _ _ _ HC _ _ E).
      + exact (H4 _ _ E). }
  intros l. apply step_lin. exact HC.
Qed.

(* ------------------------------------------------------------------ *)
(* (B) ownership                                                       *)
(* ------------------------------------------------------------------ *)
Theorem ownership : forall n T h0 sched, good_params n h0 ->
  let st := run (init n T h0) sched in
  Permutation (popped (trace st) ++ pending st ++ abs st) (pushed (trace st)).
Proof.
  intros n T h0 sched Hg st.
  destruct (all_reach n T h0 sched Hg) as (HC & HL & HP & HI). fold st in HP.
  unfold PermInv, PermF in HP. unfold pending.
  etransitivity; [| exact HP].
  rewrite (Permutation_app_comm (popped (trace st))).
  rewrite (Permutation_app_comm (ppend (prod st) ++ flat_map tpend (thieves st)) (abs st)).
  rewrite <- !app_assoc. reflexivity.
Qed.

(* a value is handed out at most as often as it was pushed; in particular a
   value pushed once is returned by at most one pop (popHead or popTail),
   and while it is in the deque or held by a pending pop nobody has got it *)
Corollary popped_le_pushed : forall n T h0 sched x, good_params n h0 ->
  let st := run (init n T h0) sched in
  (count_occ Nat.eq_dec (popped (trace st)) x
   + count_occ Nat.eq_dec (pending st) x
   + count_occ Nat.eq_dec (abs st) x
   = count_occ Nat.eq_dec (pushed (trace st)) x)%nat.
Proof.
  intros n T h0 sched x Hg st.
  assert (H := ownership n T h0 sched Hg). fold st in H.
  rewrite (Permutation_count_occ Nat.eq_dec) in H. rewrite <- H.
  rewrite !count_occ_app. symmetry. apply Nat.add_assoc.
Qed.

(* ------------------------------------------------------------------ *)
(* (C) slot ownership / no data race / no overflow                     *)
(* ------------------------------------------------------------------ *)
Lemma core_diff : forall n hv tv vs pr ths g_h g_t ab,
  CoreF n hv tv vs pr ths g_h g_t ab -> (hv - tv) mod M32 = g_h - g_t.
Proof.
  intros n hv tv vs pr ths g_h g_t ab H.
  destruct (core_nonneg _ _ _ _ _ _ _ _ _ H) as [Hr HM]. dcore H.
  rewrite Hhd, Htl, <- Zminus_mod. apply Z.mod_small. lia.
Qed.

Lemma core_window_pos : forall n hv tv vs pr ths g_h g_t ab d,
  CoreF n hv tv vs pr ths g_h g_t ab -> 0 <= d < (hv - tv) mod M32 ->
  g_t <= g_t + d < g_h /\ ((tv + d) mod M32) mod n = (g_t + d) mod n.
Proof.
  intros n hv tv vs pr ths g_h g_t ab d H Hd.
  rewrite (core_diff _ _ _ _ _ _ _ _ _ H) in Hd. dcore H.
  split; [lia |].
  rewrite Htl, Zplus_mod_idemp_l. apply mod_mod_div; [lia | assumption].
Qed.

(* slot index i is one of the live slots tail, tail+1, ..., head-1 (mod 2^32, mod n) *)
Definition in_window (st : state) (i : Z) : Prop :=
  exists d, 0 <= d < (head st - tail st) mod M32 /\ ((tail st + d) mod M32) mod sz st = i.

(* the live slots hold exactly abs (abs is listed from the head end) *)
Definition window_holds (st : state) : Prop :=
  forall d, 0 <= d < (head st - tail st) mod M32 ->
    rd (vals st) (((tail st + d) mod M32) mod sz st)
    = Some (nth (Z.to_nat ((head st - tail st) mod M32 - 1 - d)) (abs st) dflt).

(* a thief at T3/T4 on slot i *)
Definition thief_safe (st : state) : Prop :=
  forall j s i p x, nth_error (thieves st) j = Some s -> towned s = Some (i, p, x) ->
    0 <= i < sz st /\ rd (vals st) i = Some x /\ ~ in_window st i /\
    (forall j' s' i' p' x', nth_error (thieves st) j' = Some s' ->
        towned s' = Some (i', p', x') -> j' <> j -> i' <> i) /\
    (forall i' x', powned (prod st) = Some (i', x') -> i' <> i) /\
    (forall i', pfilling st = Some i' -> i' <> i).

(* the producer at H3/H4 on slot i *)
Definition pop_safe (st : state) : Prop :=
  forall i x, powned (prod st) = Some (i, x) ->
    0 <= i < sz st /\ rd (vals st) i = Some x /\ ~ in_window st i.

(* the producer between P2-success and P4 on slot i *)
Definition push_safe (st : state) : Prop :=
  forall i, pfilling st = Some i ->
    0 <= i < sz st /\ ~ in_window st i /\
    (forall v h, prod st = PP3 v h -> rd (vals st) i = None) /\
    (forall v, prod st = PP4 v -> rd (vals st) i = Some v).

Lemma core_not_window : forall st i p,
  Core st -> i = p mod sz st -> gh st - sz st <= p < gt st \/ (p = gh st /\ ex (prod st) = 1) ->
  ~ in_window st i.
Proof.
  intros st i p HC Hi Hp (d & Hd & E). unfold Core in HC.
  destruct (core_window_pos _ _ _ _ _ _ _ _ _ d HC Hd) as [Hr Hm].
  dcore HC. rewrite Hm in E. subst i. revert E.
  destruct Hp as [Hp | [Hp Hex]].
  - apply mod_neq; lia.
  - intro E. symmetry in E. revert E. apply mod_neq; lia.
Qed.

Lemma core_window_holds : forall st, Core st -> window_holds st.
Proof.
  intros st HC d Hd. unfold Core in HC.
  destruct (core_window_pos _ _ _ _ _ _ _ _ _ d HC Hd) as [Hr Hm].
  rewrite Hm. rewrite (core_diff _ _ _ _ _ _ _ _ _ HC).
  rewrite (c_win _ _ _ _ _ _ _ _ _ HC) by assumption.
  do 3 f_equal. lia.
Qed.

Lemma core_thief_safe : forall st, Core st -> thief_safe st.
Proof.
  intros st HC j s i p x Hj Ho. assert (HC' := HC). unfold Core in HC'. dcore HC'.
  assert (Hn0 : 0 < sz st) by lia.
  assert (Hex := ex_range (prod st)).
  destruct (Htown _ _ _ _ _ Hj Ho) as (Hr & Hi & Hv).
  split; [subst i; apply mod_range; assumption |].
  split; [assumption |].
  split; [apply (core_not_window st i p HC Hi); left; lia |].
  split; [| split].
  - intros j' s' i' p' x' Hj' Ho' Hne.
    destruct (Htown _ _ _ _ _ Hj' Ho') as (Hr' & Hi' & Hv').
    assert (Hpp : p' <> p).
    { intro E. subst p'. apply Hne. eapply Htdist; [exact Hj' | exact Hj | exact Ho' | exact Ho]. }
    subst i i'.
    destruct (Z.lt_trichotomy p p') as [Hlt | [Heq | Hgt]]; [| congruence |].
    + apply mod_neq; lia.
    + intro E. symmetry in E. revert E. apply mod_neq; lia.
  - intros i' x' Hpo.
    destruct (prod st) eqn:Ep; cbn [powned] in Hpo; try discriminate Hpo;
      inversion Hpo; subst; cbn [pinv ex] in *; destruct Hpinv as [Hi' _]; subst;
      apply mod_neq; lia.
  - intros i' Hpf. unfold pfilling in Hpf.
    destruct (prod st) eqn:Ep; try discriminate Hpf; inversion Hpf; subst i';
      cbn [pinv ex] in *.
    + destruct Hpinv as [Hh _]. rewrite Hh, Hhd, mod_mod_div by assumption.
      rewrite Hi. apply mod_neq; lia.
    + rewrite Hhd, mod_mod_div by assumption. rewrite Hi. apply mod_neq; lia.
Qed.

Lemma core_pop_safe : forall st, Core st -> pop_safe st.
Proof.
  intros st HC i x Hpo. assert (HC' := HC). unfold Core in HC'. dcore HC'.
  assert (Hn0 : 0 < sz st) by lia.
  assert (Hgoal : i = gh st mod sz st /\ rd (vals st) i = Some x /\ ex (prod st) = 1).
  { destruct (prod st) eqn:Ep; cbn [powned] in Hpo; try discriminate Hpo;
      inversion Hpo; subst; cbn [pinv ex] in *.
    - destruct Hpinv as [Hi Hv]. repeat split; assumption.
    - destruct Hpinv as (Hi & Hv & _). repeat split; assumption. }
  destruct Hgoal as (Hi & Hv & Hex).
  split; [rewrite Hi; apply mod_range; assumption |].
  split; [assumption |].
  apply (core_not_window st i (gh st) HC Hi). right. split; [reflexivity | assumption].
Qed.

Lemma core_push_safe : forall st, Core st -> push_safe st.
Proof.
  intros st HC i Hpf. assert (HC' := HC). unfold Core in HC'. dcore HC'.
  assert (Hn0 : 0 < sz st) by lia.
  assert (Hgoal : i = gh st mod sz st /\ ex (prod st) = 1).
  { unfold pfilling in Hpf.
    destruct (prod st) eqn:Ep; try discriminate Hpf; inversion Hpf; subst i; cbn [pinv ex] in *.
    - destruct Hpinv as [Hh _]. rewrite Hh, Hhd, mod_mod_div by assumption. split; reflexivity.
    - rewrite Hhd, mod_mod_div by assumption. split; reflexivity. }
  destruct Hgoal as (Hi & Hex).
  split; [rewrite Hi; apply mod_range; assumption |].
  split; [apply (core_not_window st i (gh st) HC Hi); right; split; [reflexivity | assumption] |].
  split.
  - intros v h Ep. rewrite Ep in Hpinv. cbn [pinv] in Hpinv. destruct Hpinv as [_ Hs].
    rewrite Hi. exact Hs.
  - intros v Ep. rewrite Ep in Hpinv. cbn [pinv] in Hpinv. rewrite Hi. exact Hpinv.
Qed.

Theorem safety : forall n T h0 sched, good_params n h0 ->
  let st := run (init n T h0) sched in
  (sz st = n /\ Z.of_nat (length (vals st)) = n) /\
  (0 <= head st < M32 /\ 0 <= tail st < M32) /\
  ((head st - tail st) mod M32 = Z.of_nat (length (abs st)) /\
   Z.of_nat (length (abs st)) + ex (prod st) <= n) /\
  window_holds st /\ thief_safe st /\ pop_safe st /\ push_safe st.
Proof.
  intros n T h0 sched Hg st.
  destruct (all_reach n T h0 sched Hg) as (HC & _). fold st in HC.
  assert (Hsz : sz st = n) by (unfold st; rewrite sz_run; reflexivity).
  assert (HC' := HC). unfold Core in HC'.
  assert (Hd := core_diff _ _ _ _ _ _ _ _ _ HC').
  dcore HC'. assert (HM := M32_pos).
  split; [split; [assumption | lia] |].
  split; [split; [rewrite Hhd | rewrite Htl]; apply Z.mod_pos_bound; assumption |].
  split; [split; lia |].
  split; [apply core_window_holds; assumption |].
  split; [apply core_thief_safe; assumption |].
  split; [apply core_pop_safe; assumption | apply core_push_safe; assumption].
Qed.

(* ------------------------------------------------------------------ *)
(* every non-nil slot is accounted for (all other slots are nil)       *)
(* ------------------------------------------------------------------ *)
Lemma nth_error_upd_other : forall A (l : list A) i j x,
  j <> i -> nth_error (upd l i x) j = nth_error l j.
Proof.
  intros A l. induction l as [| y r IH]; intros i j x Hne; [reflexivity |].
  destruct i, j; cbn [upd nth_error]; try reflexivity; [congruence | apply IH; congruence].
Qed.

Definition accounted (n : Z) (pr : pstate) (ths : list tstate) (g_h g_t : Z) (i : Z) : Prop :=
  (exists p, g_t <= p < g_h /\ i = p mod n) \/
  (exists j s p x, nth_error ths j = Some s /\ towned s = Some (i, p, x)) \/
  (ex pr = 1 /\ i = g_h mod n).

Definition NoneF (n : Z) (vs : list (option V)) (pr : pstate) (ths : list tstate)
                 (g_h g_t : Z) : Prop :=
  forall i y, 0 <= i -> rd vs i = Some y -> accounted n pr ths g_h g_t i.

Definition NoneInv (st : state) : Prop :=
  NoneF (sz st) (vals st) (prod st) (thieves st) (gh st) (gt st).

Lemma none_mono : forall n vs pr ths g_h g_t pr' ths' g_h' g_t',
  NoneF n vs pr ths g_h g_t ->
  (forall i, accounted n pr ths g_h g_t i -> accounted n pr' ths' g_h' g_t' i) ->
  NoneF n vs pr' ths' g_h' g_t'.
Proof.
  intros n vs pr ths g_h g_t pr' ths' g_h' g_t' H Hm i y Hi Hr. apply Hm. eapply H; eassumption.
Qed.

Lemma none_wr : forall n vs pr ths g_h g_t pr' ths' i0 x0,
  NoneF n vs pr ths g_h g_t -> 0 <= i0 < Z.of_nat (length vs) ->
  (forall i, i <> i0 -> accounted n pr ths g_h g_t i -> accounted n pr' ths' g_h g_t i) ->
  (forall y, x0 = Some y -> accounted n pr' ths' g_h g_t i0) ->
  NoneF n (wr vs i0 x0) pr' ths' g_h g_t.
Proof.
  intros n vs pr ths g_h g_t pr' ths' i0 x0 H Hi0 Hm Hnew i y Hi Hr.
  destruct (Z.eq_dec i i0) as [E | E].
  - subst i. rewrite rd_wr_eq in Hr by assumption. eapply Hnew; eassumption.
  - rewrite rd_wr_neq in Hr by lia. apply Hm; [assumption |]. eapply H; eassumption.
Qed.

Lemma none_set_prod : forall n vs pr pr' ths g_h g_t,
  NoneF n vs pr ths g_h g_t -> (ex pr = 1 -> ex pr' = 1) -> NoneF n vs pr' ths g_h g_t.
Proof.
  intros n vs pr pr' ths g_h g_t H He. eapply none_mono; [exact H |].
  intros i [Hw | [Ht | [Hp1 Hp2]]].
  - left. assumption.
  - right. left. assumption.
  - right. right. split; [apply He; assumption | assumption].
Qed.

Lemma none_set_thief : forall n vs pr ths g_h g_t j s s',
  NoneF n vs pr ths g_h g_t -> nth_error ths j = Some s -> towned s' = towned s ->
  NoneF n vs pr (upd ths j s') g_h g_t.
Proof.
  intros n vs pr ths g_h g_t j s s' H Hj Ho. eapply none_mono; [exact H |].
  intros i [Hw | [(j0 & s0 & p & x & Hj0 & Ho0) | Hp]].
  - left. assumption.
  - right. left. destruct (Nat.eq_dec j0 j) as [E | E].
    + subst j0. exists j, s', p, x. split.
      * eapply nth_error_upd_same. exact Hj.
      * rewrite Ho. congruence.
    + exists j0, s0, p, x. split; [| assumption].
      rewrite nth_error_upd_other by assumption. assumption.
  - right. right. assumption.
Qed.

Lemma none_P3 : forall n hv tv vs ths g_h g_t ab v h,
  CoreF n hv tv vs (PP3 v h) ths g_h g_t ab -> NoneF n vs (PP3 v h) ths g_h g_t ->
  NoneF n (wr vs (h mod n) (Some v)) (PP4 v) ths g_h g_t.
Proof.
  intros n hv tv vs ths g_h g_t ab v h HC H. dcore HC. cbn [pinv] in Hpinv.
  destruct Hpinv as [Hh _].
  assert (Hn0 : 0 < n) by lia.
  assert (Hslot : h mod n = g_h mod n).
  { rewrite Hh, Hhd. apply mod_mod_div; assumption. }
  assert (Hr := mod_range n g_h Hn0).
  eapply none_wr; [exact H | lia | |].
  - intros i _ Ha. exact Ha.
  - intros y _. right. right. split; [reflexivity | assumption].
Qed.

Lemma none_P4 : forall n hv tv vs ths g_h g_t ab v,
  CoreF n hv tv vs (PP4 v) ths g_h g_t ab -> NoneF n vs (PP4 v) ths g_h g_t ->
  NoneF n vs PIdle ths (g_h + 1) g_t.
Proof.
  intros n hv tv vs ths g_h g_t ab v HC H. dcore HC.
  eapply none_mono; [exact H |].
  intros i [(p & Hp & Hi) | [Ht | [_ Hi]]].
  - left. exists p. split; [lia | assumption].
  - right. left. assumption.
  - left. exists g_h. split; [lia | assumption].
Qed.

Lemma none_H2_ok : forall n hv tv vs ths g_h g_t ab k x,
  CoreF n hv tv vs (PH2 hv tv) ths g_h g_t ab -> NoneF n vs (PH2 hv tv) ths g_h g_t ->
  NoneF n vs (PH3 (((hv - 1) mod M32) mod n) k x) ths (g_h - 1) g_t.
Proof.
  intros n hv tv vs ths g_h g_t ab k x HC H.
  eapply none_mono; [exact H |].
  intros i [(p & Hp & Hi) | [Ht | [He _]]].
  - destruct (Z.eq_dec p (g_h - 1)) as [E | E].
    + right. right. split; [reflexivity | congruence].
    + left. exists p. split; [lia | assumption].
  - right. left. assumption.
  - cbn [ex] in He. discriminate He.
Qed.

Lemma none_H4 : forall n hv tv vs ths g_h g_t ab i val k x,
  CoreF n hv tv vs (PH4 i val k x) ths g_h g_t ab -> NoneF n vs (PH4 i val k x) ths g_h g_t ->
  NoneF n (wr vs i None) PIdle ths g_h g_t.
Proof.
  intros n hv tv vs ths g_h g_t ab i val k x HC H. dcore HC. cbn [pinv] in Hpinv.
  destruct Hpinv as (Hi & _ & _).
  assert (Hn0 : 0 < n) by lia.
  assert (Hr := mod_range n g_h Hn0).
  eapply none_wr; [exact H | lia | |].
  - intros i' Hne [Hw | [Ht | [_ Hi']]].
    + left. assumption.
    + right. left. assumption.
    + congruence.
  - intros y Hy. discriminate Hy.
Qed.

Lemma none_T2_ok : forall n hv tv vs pr ths g_h g_t ab j k x,
  CoreF n hv tv vs pr ths g_h g_t ab -> nth_error ths j = Some (T2 hv tv) ->
  NoneF n vs pr ths g_h g_t ->
  NoneF n vs pr (upd ths j (T3 (tv mod n) g_t k x)) g_h (g_t + 1).
Proof.
  intros n hv tv vs pr ths g_h g_t ab j k x HC Hj H. dcore HC.
  assert (Hn0 : 0 < n) by lia.
  assert (Hidx : tv mod n = g_t mod n).
  { rewrite Htl. apply mod_mod_div; assumption. }
  eapply none_mono; [exact H |].
  intros i [(p & Hp & Hi) | [(j0 & s0 & p & x0 & Hj0 & Ho0) | Hp]].
  - destruct (Z.eq_dec p g_t) as [E | E].
    + right. left. exists j, (T3 (tv mod n) g_t k x), g_t, x. split.
      * eapply nth_error_upd_same. exact Hj.
      * cbn [towned]. rewrite Hidx. subst p. rewrite Hi. reflexivity.
    + left. exists p. split; [lia | assumption].
  - right. left. destruct (Nat.eq_dec j0 j) as [E | E].
    + subst j0. rewrite Hj in Hj0. inversion Hj0; subst s0. discriminate Ho0.
    + exists j0, s0, p, x0. split; [| assumption].
      rewrite nth_error_upd_other by assumption. assumption.
  - right. right. assumption.
Qed.

Lemma none_T4 : forall n hv tv vs pr ths g_h g_t ab j i val p k x,
  CoreF n hv tv vs pr ths g_h g_t ab -> nth_error ths j = Some (T4 i val p k x) ->
  NoneF n vs pr ths g_h g_t ->
  NoneF n (wr vs i None) pr (upd ths j T1) g_h g_t.
Proof.
  intros n hv tv vs pr ths g_h g_t ab j i val p k x HC Hj H. dcore HC.
  assert (Hn0 : 0 < n) by lia.
  destruct (Htown j _ i p x Hj eq_refl) as (_ & Hpi & _).
  assert (Hir : 0 <= i < n) by (subst i; apply mod_range; assumption).
  eapply none_wr; [exact H | lia | |].
  - intros i' Hne [Hw | [(j0 & s0 & p0 & x0 & Hj0 & Ho0) | Hp]].
    + left. assumption.
    + right. left. destruct (Nat.eq_dec j0 j) as [E | E].
      * subst j0. rewrite Hj in Hj0. inversion Hj0; subst s0.
        cbn [towned] in Ho0. inversion Ho0. congruence.
      * exists j0, s0, p0, x0. split; [| assumption].
        rewrite nth_error_upd_other by assumption. assumption.
    + right. right. assumption.
  - intros y Hy. discriminate Hy.
Qed.

Lemma none_init : forall n T h0, NoneInv (init n T h0).
Proof.
  intros n T h0 i y Hi Hr. unfold init in Hr. sp. exfalso.
  unfold rd in Hr. revert Hr. generalize (Z.to_nat i) as m. generalize (Z.to_nat n) as c.
  induction c as [| c IH]; intros m Hr.
  - destruct m; discriminate Hr.
  - destruct m; cbn [repeat nth] in Hr; [discriminate Hr | eapply IH; exact Hr].
Qed.

Lemma prod_step_none : forall st, Core st -> NoneInv st -> NoneInv (prod_step st).
Proof.
  intros st HC H. unfold Core, NoneInv in *. unfold prod_step.
  destruct st as [n hv tv vs pr ths g_h g_t ab lg tr]. sp.
  destruct pr as [| v | v h | v h | v | | h t | i k x | i val k x]; sp.
  - exact H.
  - destruct ((tv + n) mod M32 =? hv); sp;
      (eapply none_set_prod; [exact H | cbn [ex]; intro E; discriminate E]).
  - destruct (rd vs (h mod n)) eqn:Es; sp;
      (eapply none_set_prod; [exact H | cbn [ex]; intro E; discriminate E]).
  - eapply none_P3; eassumption.
  - eapply none_P4; eassumption.
  - destruct (tv =? hv) eqn:E; sp;
      (eapply none_set_prod; [exact H | cbn [ex]; intro E'; discriminate E']).
  - destruct ((hv =? h) && (tv =? t)) eqn:E; sp.
    + apply andb_true_iff in E. destruct E as [E1 E2].
      apply Z.eqb_eq in E1. apply Z.eqb_eq in E2. subst h t.
      eapply none_H2_ok; eassumption.
    + eapply none_set_prod; [exact H | cbn [ex]; intro E'; discriminate E'].
  - eapply none_set_prod; [exact H | reflexivity].
  - eapply none_H4; eassumption.
Qed.

Lemma thief_step_none : forall st j, Core st -> NoneInv st -> NoneInv (thief_step st j).
Proof.
  intros st j HC H. unfold Core, NoneInv in *. unfold thief_step.
  destruct st as [n hv tv vs pr ths g_h g_t ab lg tr]. sp.
  destruct (nth_error ths j) as [s |] eqn:Ej; [| exact H].
  destruct s as [| h t | i p k x | i val p k x]; sp.
  - destruct (tv =? hv) eqn:E; sp; [exact H |].
    eapply none_set_thief; [exact H | exact Ej | reflexivity].
  - destruct ((hv =? h) && (tv =? t)) eqn:E; sp.
    + apply andb_true_iff in E. destruct E as [E1 E2].
      apply Z.eqb_eq in E1. apply Z.eqb_eq in E2. subst h t.
      eapply none_T2_ok; eassumption.
    + eapply none_set_thief; [exact H | exact Ej | reflexivity].
  - eapply none_set_thief; [exact H | exact Ej | reflexivity].
  - eapply none_T4; eassumption.
Qed.

Lemma step_none : forall st l, Core st -> NoneInv st -> NoneInv (step st l).
Proof.
  intros st l HC H. destruct l as [v | | | j]; unfold step.
  - destruct (prod st) eqn:Ep; try exact H.
    unfold NoneInv in *. destruct st; sp. subst.
    eapply none_set_prod; [exact H | cbn [ex]; intro E; discriminate E].
  - destruct (prod st) eqn:Ep; try exact H.
    unfold NoneInv in *. destruct st; sp. subst.
    eapply none_set_prod; [exact H | cbn [ex]; intro E; discriminate E].
  - apply prod_step_none; assumption.
  - apply thief_step_none; assumption.
Qed.

Lemma none_reach : forall n T h0 sched, good_params n h0 ->
  Core (run (init n T h0) sched) /\ NoneInv (run (init n T h0) sched).
Proof.
  intros n T h0 sched (Hn & Hd & Hh).
  apply (run_invariant (fun st => Core st /\ NoneInv st)).
  - intros st l [HC HN]. split; [apply step_core | apply step_none]; assumption.
  - split; [apply core_init; assumption | apply none_init].
Qed.

(* all slots that are not live, not owned by a thief at T3/T4 and not held by
   the producer (H3/H4, P3/P4) are nil *)
Theorem free_slots_nil : forall n T h0 sched i, good_params n h0 ->
  let st := run (init n T h0) sched in
  0 <= i < n ->
  rd (vals st) i = None \/
  in_window st i \/
  (exists j s p x, nth_error (thieves st) j = Some s /\ towned s = Some (i, p, x)) \/
  (exists x, powned (prod st) = Some (i, x)) \/
  pfilling st = Some i.
Proof.
  intros n T h0 sched i Hg st Hi.
  destruct (none_reach n T h0 sched Hg) as [HC HN]. fold st in HC, HN.
  destruct (rd (vals st) i) as [y |] eqn:Er; [right | left; reflexivity].
  assert (HC' := HC). unfold Core in HC'.
  destruct (HN i y ltac:(lia) Er) as [(p & Hp & Hip) | [Ht | [He Hip]]].
  - left. exists (p - gt st).
    assert (Hd := core_diff _ _ _ _ _ _ _ _ _ HC').
    assert (Hr : 0 <= p - gt st < (head st - tail st) mod M32) by lia.
    split; [exact Hr |].
    destruct (core_window_pos _ _ _ _ _ _ _ _ _ _ HC' Hr) as [_ Hm].
    rewrite Hm, Hip. f_equal. lia.
  - right. left. exact Ht.
  - right. right. dcore HC'. assert (Hn0 : 0 < sz st) by lia.
    unfold pfilling.
    destruct (prod st) eqn:Ep; cbn [ex] in He; try discriminate He; cbn [pinv powned] in *.
    + right. destruct Hpinv as [Hh _]. rewrite Hh, Hhd, mod_mod_div by assumption. congruence.
    + right. rewrite Hhd, mod_mod_div by assumption. congruence.
    + left. destruct Hpinv as [Hi' _]. exists x. congruence.
    + left. destruct Hpinv as [Hi' _]. exists x. congruence.
Qed.

(* pushHead's first test answers "full" exactly when the deque holds n elements *)
Theorem full_test_exact : forall n T h0 sched, good_params n h0 ->
  let st := run (init n T h0) sched in
  ((tail st + sz st) mod M32 =? head st) = true <-> Z.of_nat (length (abs st)) = n.
Proof.
  intros n T h0 sched Hg st.
  destruct (all_reach n T h0 sched Hg) as (HC & _). fold st in HC.
  assert (Hsz : sz st = n) by (unfold st; rewrite sz_run; reflexivity).
  unfold Core in HC. destruct (core_nonneg _ _ _ _ _ _ _ _ _ HC) as [Hr HM]. dcore HC.
  rewrite Z.eqb_eq, Htl, Hhd, Zplus_mod_idemp_l.
  split.
  - intro E. apply (mod_inj M32) in E; [lia | apply M32_pos | lia].
  - intro E. f_equal. lia.
Qed.

(* pushHead's second test (slot not nil) fails only when the deque is full or
   a thief at T3/T4 has not yet released that slot *)
Theorem push_fail_reason : forall n T h0 sched v h y, good_params n h0 ->
  let st := run (init n T h0) sched in
  prod st = PP2 v h -> rd (vals st) (h mod n) = Some y ->
  Z.of_nat (length (abs st)) = n \/
  (exists j s p x, nth_error (thieves st) j = Some s /\ towned s = Some (h mod n, p, x)).
Proof.
  intros n T h0 sched v h y Hg st Ep Er.
  destruct (none_reach n T h0 sched Hg) as [HC HN]. fold st in HC, HN.
  assert (Hsz : sz st = n) by (unfold st; rewrite sz_run; reflexivity).
  assert (HC' := HC). unfold Core in HC'. dcore HC'. rewrite Hsz in *.
  assert (Hn0 : 0 < n) by lia.
  rewrite Ep in Hpinv, Hcap. cbn [pinv ex] in *.
  assert (Hslot : h mod n = gh st mod n).
  { rewrite Hpinv, Hhd. apply mod_mod_div; assumption. }
  assert (Hr := mod_range n (gh st) Hn0).
  unfold NoneInv in HN. rewrite Hsz in HN.
  destruct (HN (h mod n) y ltac:(lia) Er) as [(p & Hp & Hip) | [Ht | [He _]]].
  - left. rewrite Hslot, <- (mod_sub_self n (gh st)) in Hip.
    apply mod_inj in Hip; [lia | assumption | lia].
  - right. exact Ht.
  - rewrite Ep in He. discriminate He.
Qed.

(* ------------------------------------------------------------------ *)
(* live + thief-owned + producer-held slots never exceed n             *)
(* ------------------------------------------------------------------ *)
Definition tpos (s : tstate) : list Z :=
  match towned s with Some (_, p, _) => [p] | None => [] end.

Lemma tpos_In : forall s p, In p (tpos s) -> exists i x, towned s = Some (i, p, x).
Proof.
  intros s p H. unfold tpos in H. destruct (towned s) as [[[i p0] x] |]; [| destruct H].
  destruct H as [E | []]. subst p0. exists i, x. reflexivity.
Qed.

Lemma tpos_tpend_length : forall ths, length (flat_map tpend ths) = length (flat_map tpos ths).
Proof.
  induction ths as [| s r IH]; [reflexivity |].
  cbn [flat_map]. rewrite !app_length, IH. destruct s; reflexivity.
Qed.

Lemma nodup_flat_tpos : forall ths,
  (forall j1 j2 s1 s2 p, nth_error ths j1 = Some s1 -> nth_error ths j2 = Some s2 ->
      In p (tpos s1) -> In p (tpos s2) -> j1 = j2) ->
  NoDup (flat_map tpos ths).
Proof.
  induction ths as [| s r IH]; intros H; [apply NoDup_nil |].
  cbn [flat_map].
  assert (Hr : NoDup (flat_map tpos r)).
  { apply IH. intros j1 j2 s1 s2 p H1 H2 I1 I2.
    assert (E : S j1 = S j2) by (eapply (H (S j1) (S j2)); eassumption).
    congruence. }
  destruct (tpos s) as [| p l] eqn:Es; [exact Hr |].
  assert (El : l = []).
  { unfold tpos in Es. destruct (towned s) as [[[i p0] x] |]; [| discriminate Es]. congruence. }
  subst l. cbn [app]. apply NoDup_cons; [| exact Hr].
  intro Hin. apply in_flat_map in Hin. destruct Hin as (s2 & Hs2 & Hp).
  apply In_nth_error in Hs2. destruct Hs2 as (j2 & Hj2).
  assert (E : 0%nat = S j2).
  { eapply (H 0%nat (S j2) s s2 p); [reflexivity | exact Hj2 | rewrite Es; left; reflexivity | exact Hp]. }
  discriminate E.
Qed.

Lemma nodup_range_length : forall (l : list Z) a b,
  NoDup l -> (forall p, In p l -> a <= p < b) -> Z.of_nat (length l) <= Z.max 0 (b - a).
Proof.
  intros l a b Hnd Hr.
  assert (Hincl : incl l (map (fun k => a + Z.of_nat k) (seq 0 (Z.to_nat (b - a))))).
  { intros p Hp. specialize (Hr p Hp). apply in_map_iff.
    exists (Z.to_nat (p - a)). split; [lia |]. apply in_seq. lia. }
  apply NoDup_incl_length in Hincl; [| exact Hnd].
  rewrite map_length, seq_length in Hincl. lia.
Qed.

Theorem occupancy_bound : forall n T h0 sched, good_params n h0 ->
  let st := run (init n T h0) sched in
  Z.of_nat (length (abs st)) + Z.of_nat (length (flat_map tpend (thieves st))) + ex (prod st) <= n.
Proof.
  intros n T h0 sched Hg st.
  destruct (all_reach n T h0 sched Hg) as (HC & _). fold st in HC.
  assert (Hsz : sz st = n) by (unfold st; rewrite sz_run; reflexivity).
  unfold Core in HC. dcore HC. rewrite Hsz in *.
  rewrite tpos_tpend_length.
  assert (Hnd : NoDup (flat_map tpos (thieves st))).
  { apply nodup_flat_tpos. intros j1 j2 s1 s2 p H1 H2 I1 I2.
    apply tpos_In in I1. destruct I1 as (i1 & x1 & O1).
    apply tpos_In in I2. destruct I2 as (i2 & x2 & O2).
    eapply Htdist; eassumption. }
  assert (Hrange : forall p, In p (flat_map tpos (thieves st)) ->
                     gh st - n + ex (prod st) <= p < gt st).
  { intros p Hp. apply in_flat_map in Hp. destruct Hp as (s & Hs & Hp).
    apply In_nth_error in Hs. destruct Hs as (j & Hj).
    apply tpos_In in Hp. destruct Hp as (i & x & Ho).
    destruct (Htown _ _ _ _ _ Hj Ho) as (Hr & _). exact Hr. }
  assert (Hcount := nodup_range_length _ _ _ Hnd Hrange).
  assert (Hex := ex_range (prod st)). lia.
Qed.

(* ------------------------------------------------------------------ *)
(* ghost erasure: the instrumented machine simulates the ghost-free one *)
(* ------------------------------------------------------------------ *)
Lemma map_upd : forall A B (f : A -> B) (l : list A) j x,
  map f (upd l j x) = upd (map f l) j (f x).
Proof.
  intros A B f l. induction l as [| y r IH]; intros j x; [reflexivity |].
  destruct j; cbn [upd map]; [reflexivity | rewrite IH; reflexivity].
Qed.

Lemma nth_error_map_opt : forall A B (f : A -> B) (l : list A) j,
  nth_error (map f l) j = option_map f (nth_error l j).
Proof.
  intros A B f l. induction l as [| y r IH]; intros j; destruct j; cbn [map nth_error option_map];
    try reflexivity. apply IH.
Qed.

Ltac rsp := cbn [r_sz r_head r_tail r_vals r_prod r_thieves r_trace erase_p erase_t option_map] in *.

Lemma erase_step : forall st l, erase (step st l) = rstep (erase st) l.
Proof.
  intros st l. destruct st as [n hv tv vs pr ths g_h g_t ab lg tr].
  destruct l as [v | | | j]; unfold step, rstep; unfold erase at 2; sp; rsp.
  - destruct pr; unfold erase; sp; rsp; reflexivity.
  - destruct pr; unfold erase; sp; rsp; reflexivity.
  - unfold prod_step, rprod_step. sp. rsp.
    destruct pr as [| v | v h | v h | v | | h t | i k x | i val k x]; rsp.
    + reflexivity.
    + destruct ((tv + n) mod M32 =? hv); unfold erase; sp; rsp; rewrite ?map_app; reflexivity.
    + destruct (rd vs (h mod n)); unfold erase; sp; rsp; rewrite ?map_app; reflexivity.
    + unfold erase; sp; rsp; reflexivity.
    + unfold erase; sp; rsp; rewrite ?map_app; reflexivity.
    + destruct (tv =? hv); unfold erase; sp; rsp; rewrite ?map_app; reflexivity.
    + destruct ((hv =? h) && (tv =? t)); unfold erase; sp; rsp; reflexivity.
    + unfold erase; sp; rsp; reflexivity.
    + unfold erase; sp; rsp; rewrite ?map_app; reflexivity.
  - unfold thief_step, rthief_step. sp. rsp. rewrite nth_error_map_opt.
    destruct (nth_error ths j) as [s |]; rsp; [| reflexivity].
    destruct s as [| h t | i p k x | i val p k x]; rsp.
    + destruct (tv =? hv); unfold erase; sp; rsp; rewrite ?map_app, ?map_upd; reflexivity.
    + destruct ((hv =? h) && (tv =? t)); unfold erase; sp; rsp; rewrite ?map_upd; reflexivity.
    + unfold erase; sp; rsp; rewrite ?map_upd; reflexivity.
    + unfold erase; sp; rsp; rewrite ?map_app, ?map_upd; reflexivity.
Qed.

Lemma erase_init : forall n T h0, erase (init n T h0) = rinit n T h0.
Proof.
  intros n T h0. unfold erase, init, rinit. sp. rsp. f_equal.
  induction T as [| T IH]; [reflexivity | cbn [repeat map erase_t]; rewrite IH; reflexivity].
Qed.

(* every run of the ghost-free machine is the erasure of the instrumented run
   under the same schedule *)
Theorem erase_run : forall sched n T h0,
  rrun (rinit n T h0) sched = erase (run (init n T h0) sched).
Proof.
  intros sched n T h0. rewrite <- erase_init. generalize (init n T h0) as st.
  induction sched as [| l r IH]; intros st; [reflexivity |].
  cbn [rrun run fold_left]. fold (rrun (rstep (erase st) l) r). fold (run (step st l) r).
  rewrite <- erase_step. apply IH.
Qed.

(* ------------------------------------------------------------------ *)
(* examples (run by vm_compute)                                        *)
(* ------------------------------------------------------------------ *)
(* 1. producer and thief race for the last element, the thief wins:
      both load (head,tail) = (1,0); the thief's CAS comes first, the
      producer's CAS fails, it reloads and answers empty. *)
Example race_thief_wins :
  obs (run (init 2 1 0)
         [LPush 7%nat; LProd; LProd; LProd; LProd;
          LPop; LProd; LThief 0; LThief 0; LProd; LProd;
          LThief 0; LThief 0])
  = (1, 1, [None; None],
     [(0%nat, EPush 7%nat true); (0%nat, EPopHead Empty);
      (1%nat, EPopTail (Got (Some 7%nat)))]).
Proof. vm_compute. reflexivity. Qed.

(*    same race, the producer's CAS comes first: the thief's CAS fails, it
      reloads and answers empty. *)
Example race_producer_wins :
  obs (run (init 2 1 0)
         [LPush 7%nat; LProd; LProd; LProd; LProd;
          LPop; LProd; LThief 0; LProd; LThief 0; LThief 0;
          LProd; LProd])
  = (0, 0, [None; None],
     [(0%nat, EPush 7%nat true); (1%nat, EPopTail Empty);
      (0%nat, EPopHead (Got (Some 7%nat)))]).
Proof. vm_compute. reflexivity. Qed.

(* 2. pushHead fails although head - tail = 1 < 2: the thief has moved tail
      past slot 0 but has not yet nil-ed it.  After the thief's T4 the same
      push succeeds. *)
Example push_fails_until_release :
  obs (run (init 2 1 0)
         [LPush 1%nat; LProd; LProd; LProd; LProd;
          LPush 2%nat; LProd; LProd; LProd; LProd;
          LThief 0; LThief 0; LThief 0;
          LPush 3%nat; LProd; LProd;
          LThief 0;
          LPush 3%nat; LProd; LProd; LProd; LProd])
  = (3, 1, [Some 3%nat; Some 2%nat],
     [(0%nat, EPush 1%nat true); (0%nat, EPush 2%nat true);
      (0%nat, EPush 3%nat false);
      (1%nat, EPopTail (Got (Some 1%nat)));
      (0%nat, EPush 3%nat true)]).
Proof. vm_compute. reflexivity. Qed.

(* 3. crossing the 2^32 wrap: start at head = tail = 2^32 - 1. *)
Example wrap_around :
  obs (run (init 4 2 4294967295)
         [LPush 1%nat; LProd; LProd; LProd; LProd;
          LPush 2%nat; LProd; LProd; LProd; LProd;
          LThief 0; LThief 0; LThief 1; LThief 1;
          LThief 1; LThief 1; LThief 0; LThief 0;
          LPop; LProd])
  = (1, 1, [None; None; None; None],
     [(0%nat, EPush 1%nat true); (0%nat, EPush 2%nat true);
      (2%nat, EPopTail (Got (Some 2%nat)));
      (1%nat, EPopTail (Got (Some 1%nat)));
      (0%nat, EPopHead Empty)]).
Proof. vm_compute. reflexivity. Qed.

Print Assumptions linearizable.
Print Assumptions ownership.
Print Assumptions popped_le_pushed.
Print Assumptions safety.
Print Assumptions free_slots_nil.
Print Assumptions full_test_exact.
Print Assumptions push_fail_reason.
Print Assumptions occupancy_bound.
Print Assumptions erase_run.
Print Assumptions add_head_spec.
Print Assumptions unpack_pack.
Print Assumptions pack_unpack.
Print Assumptions pack_inj.
Print Assumptions pow2_good.
Print Assumptions mask_is_mod.
Print Assumptions cas_words.
