(* C13 - poolDequeue (sys/syncx/poolqueue.go) as an executable small-step
   concurrent system.  DEFINITIONS ONLY; all proofs and the examples run by vm_compute are in ProofsDequeue.v.

   Shared memory
     head, tail : the two 32-bit halves of the packed word headTail, kept as
                  a pair of Z in [0,2^32) with wrap-around arithmetic
                  (pack/unpack/add_head below are the bit-level operations of
                  the code; ProofsDequeue.v shows that the pair is a faithful
                  representation of the single 64-bit word).
     vals       : list (option V) of length sz = len(d.vals).  A slot is None
                  when its first word (typ) is nil, Some v when it holds the
                  block pointer v.  The code's
                     [* ( ** block ) ( unsafe.Pointer(slot) ) = val]
                  is a ONE word store into that first word, and the pops read
                  the same word back as the value.
   Threads
     one producer (thread id 0) running pushHead / popHead calls chosen by the
     schedule, and T thieves (thread id S j) each running popTail for ever.
   Ghost state (never inspected by a real branch of the step function)
     gh, gt     : unbounded logical head / tail (head = gh mod 2^32 ...)
     abs        : the abstract deque, front of the list = head end
     glog       : log of (thread, event), appended at the linearization point
     trace      : completed calls (thread, event-with-returned-result, index
                  of the call's linearization point in glog)
     the k, p, x components of the thread states. *)

From Coq Require Import ZArith List Bool.
Import ListNotations.
Open Scope Z_scope.

Definition V := nat.
Definition dflt : V := 0%nat.

Definition M32 : Z := 4294967296.
Definition M64 : Z := 18446744073709551616.
Definition dequeueLimit : Z := 1073741824.   (* (1 << 32) / 4 *)

(* ---- the packed word, exactly as in the code ---- *)
Definition mask32 : Z := Z.ones 32.
Definition pack (h t : Z) : Z := Z.lor (Z.shiftl h 32) (Z.land t mask32).
Definition unpack (w : Z) : Z * Z :=
  (Z.land (Z.shiftr w 32) mask32, Z.land w mask32).
(* atomic.AddUint64(&d.headTail, 1<<dequeueBits) on a uint64 *)
Definition add_head (w : Z) : Z := (w + Z.shiftl 1 32) mod M64.

(* ---- slots ---- *)
Fixpoint upd {A} (l : list A) (i : nat) (x : A) : list A :=
  match l, i with
  | [], _ => []
  | _ :: r, O => x :: r
  | y :: r, S i' => y :: upd r i' x
  end.

Definition rd (l : list (option V)) (i : Z) : option V := nth (Z.to_nat i) l None.
Definition wr (l : list (option V)) (i : Z) (x : option V) : list (option V) :=
  upd l (Z.to_nat i) x.

(* ---- events ---- *)
Inductive popres := Empty | Got (ptr : option V).   (* (nil,false) | (ptr,true) *)
Inductive event :=
| EPush (v : V) (ok : bool)
| EPopHead (r : popres)
| EPopTail (r : popres).

(* ---- thread states ---- *)
Inductive pstate :=
| PIdle
| PP1 (v : V)                       (* pushHead: about to load headTail *)
| PP2 (v : V) (h : Z)               (* about to load slot.typ of slot h mod n *)
| PP3 (v : V) (h : Z)               (* about to store the slot *)
| PP4 (v : V)                       (* about to add 1<<32 to headTail *)
| PH1                               (* popHead: about to load headTail *)
| PH2 (h t : Z)                     (* about to CAS *)
| PH3 (i : Z) (k : nat) (x : V)     (* about to read slot i; ghost k, x *)
| PH4 (i : Z) (val : option V) (k : nat) (x : V).  (* about to zero slot i *)

Inductive tstate :=
| T1                                (* popTail: about to load headTail *)
| T2 (h t : Z)                      (* about to CAS *)
| T3 (i : Z) (p : Z) (k : nat) (x : V)   (* about to read slot i; ghost p k x *)
| T4 (i : Z) (val : option V) (p : Z) (k : nat) (x : V). (* about to nil typ *)

Record state := mk {
  sz : Z;                       (* len(d.vals) *)
  head : Z;
  tail : Z;
  vals : list (option V);
  prod : pstate;
  thieves : list tstate;
  gh : Z;
  gt : Z;
  abs : list V;
  glog : list (nat * event);
  trace : list (nat * event * nat)
}.

Definition with_prod st p :=
  mk (sz st) (head st) (tail st) (vals st) p (thieves st) (gh st) (gt st) (abs st) (glog st) (trace st).
Definition with_thieves st ts :=
  mk (sz st) (head st) (tail st) (vals st) (prod st) ts (gh st) (gt st) (abs st) (glog st) (trace st).
Definition with_vals st vs :=
  mk (sz st) (head st) (tail st) vs (prod st) (thieves st) (gh st) (gt st) (abs st) (glog st) (trace st).
Definition with_head st h g a :=
  mk (sz st) h (tail st) (vals st) (prod st) (thieves st) g (gt st) a (glog st) (trace st).
Definition with_tail st t g a :=
  mk (sz st) (head st) t (vals st) (prod st) (thieves st) (gh st) g a (glog st) (trace st).
Definition do_log st (t : nat) (e : event) :=
  mk (sz st) (head st) (tail st) (vals st) (prod st) (thieves st) (gh st) (gt st) (abs st)
     (glog st ++ [(t, e)]) (trace st).
Definition do_ret st (t : nat) (e : event) (k : nat) :=
  mk (sz st) (head st) (tail st) (vals st) (prod st) (thieves st) (gh st) (gt st) (abs st)
     (glog st) (trace st ++ [(t, e, k)]).
(* linearization point and return in the same step *)
Definition do_lp_ret st (t : nat) (e : event) :=
  do_ret (do_log st t e) t e (length (glog st)).

(* ---- labels ---- *)
Inductive label :=
| LPush (v : V)      (* idle producer starts pushHead(v) *)
| LPop               (* idle producer starts popHead() *)
| LProd              (* producer executes its next atomic step *)
| LThief (j : nat).  (* thief j executes its next atomic step *)

(* ---- producer ---- *)
Definition prod_step (st : state) : state :=
  match prod st with
  | PIdle => st
  | PP1 v =>                                              (* P1 *)
      let h := head st in
      let t := tail st in
      if (t + sz st) mod M32 =? h
      then with_prod (do_lp_ret st 0 (EPush v false)) PIdle
      else with_prod st (PP2 v h)
  | PP2 v h =>                                            (* P2 *)
      match rd (vals st) (h mod sz st) with
      | Some _ => with_prod (do_lp_ret st 0 (EPush v false)) PIdle
      | None => with_prod st (PP3 v h)
      end
  | PP3 v h =>                                            (* P3 *)
      with_prod (with_vals st (wr (vals st) (h mod sz st) (Some v))) (PP4 v)
  | PP4 v =>                                              (* P4 *)
      with_prod
        (do_lp_ret (with_head st ((head st + 1) mod M32) (gh st + 1) (v :: abs st))
                   0 (EPush v true))
        PIdle
  | PH1 =>                                                (* H1 *)
      let h := head st in
      let t := tail st in
      if t =? h
      then with_prod (do_lp_ret st 0 (EPopHead Empty)) PIdle
      else with_prod st (PH2 h t)
  | PH2 h t =>                                            (* H2 *)
      if (head st =? h) && (tail st =? t)
      then
        let h' := (h - 1) mod M32 in
        let x := hd dflt (abs st) in
        with_prod
          (do_log (with_head st h' (gh st - 1) (tl (abs st)))
                  0 (EPopHead (Got (Some x))))
          (PH3 (h' mod sz st) (length (glog st)) x)
      else with_prod st PH1
  | PH3 i k x =>                                          (* H3 *)
      with_prod st (PH4 i (rd (vals st) i) k x)
  | PH4 i val k x =>                                      (* H4 *)
      with_prod
        (do_ret (with_vals st (wr (vals st) i None)) 0 (EPopHead (Got val)) k)
        PIdle
  end.

(* ---- thief j ---- *)
Definition thief_step (st : state) (j : nat) : state :=
  match nth_error (thieves st) j with
  | None => st
  | Some T1 =>                                            (* T1 *)
      let h := head st in
      let t := tail st in
      if t =? h
      then do_lp_ret st (S j) (EPopTail Empty)
      else with_thieves st (upd (thieves st) j (T2 h t))
  | Some (T2 h t) =>                                      (* T2 *)
      if (head st =? h) && (tail st =? t)
      then
        let x := last (abs st) dflt in
        with_thieves
          (do_log (with_tail st ((t + 1) mod M32) (gt st + 1) (removelast (abs st)))
                  (S j) (EPopTail (Got (Some x))))
          (upd (thieves st) j (T3 (t mod sz st) (gt st) (length (glog st)) x))
      else with_thieves st (upd (thieves st) j T1)
  | Some (T3 i p k x) =>                                  (* T3 *)
      with_thieves st (upd (thieves st) j (T4 i (rd (vals st) i) p k x))
  | Some (T4 i val p k x) =>                              (* T4 *)
      with_thieves
        (do_ret (with_vals st (wr (vals st) i None)) (S j) (EPopTail (Got val)) k)
        (upd (thieves st) j T1)
  end.

Definition step (st : state) (l : label) : state :=
  match l with
  | LPush v => match prod st with PIdle => with_prod st (PP1 v) | _ => st end
  | LPop => match prod st with PIdle => with_prod st PH1 | _ => st end
  | LProd => prod_step st
  | LThief j => thief_step st j
  end.

Definition run (st : state) (sched : list label) : state := fold_left step sched st.

Definition init (n : Z) (T : nat) (h0 : Z) : state :=
  mk n h0 h0 (repeat None (Z.to_nat n)) PIdle (repeat T1 T) h0 h0 [] [] [].

(* ---- the sequential specification (front of the list = head end) ---- *)
Inductive seq_step : list V -> event -> list V -> Prop :=
| ss_push : forall q v, seq_step q (EPush v true) (v :: q)
| ss_push_fail : forall q v, seq_step q (EPush v false) q   (* may fail spuriously *)
| ss_pophead : forall q x, seq_step (x :: q) (EPopHead (Got (Some x))) q
| ss_pophead_empty : seq_step [] (EPopHead Empty) []
| ss_poptail : forall q x, seq_step (q ++ [x]) (EPopTail (Got (Some x))) q
| ss_poptail_empty : seq_step [] (EPopTail Empty) [].

Inductive seq_run : list V -> list event -> list V -> Prop :=
| sr_nil : forall q, seq_run q [] q
| sr_cons : forall q e q1 es q2, seq_step q e q1 -> seq_run q1 es q2 -> seq_run q (e :: es) q2.

(* ---- observables used by the theorems ---- *)
Definition ev_pushed (e : event) : list V :=
  match e with EPush v true => [v] | _ => [] end.
Definition ev_popped (e : event) : list V :=
  match e with
  | EPopHead (Got (Some x)) => [x]
  | EPopTail (Got (Some x)) => [x]
  | _ => []
  end.
Definition pushed (tr : list (nat * event * nat)) : list V :=
  flat_map (fun c => ev_pushed (snd (fst c))) tr.
Definition popped (tr : list (nat * event * nat)) : list V :=
  flat_map (fun c => ev_popped (snd (fst c))) tr.

(* values / log indices held by calls that passed their CAS but have not returned *)
Definition ppend (p : pstate) : list V :=
  match p with PH3 _ _ x => [x] | PH4 _ _ _ x => [x] | _ => [] end.
Definition tpend (s : tstate) : list V :=
  match s with T3 _ _ _ x => [x] | T4 _ _ _ _ x => [x] | _ => [] end.
Definition pending (st : state) : list V := ppend (prod st) ++ flat_map tpend (thieves st).

Definition ppend_k (p : pstate) : list nat :=
  match p with PH3 _ k _ => [k] | PH4 _ _ k _ => [k] | _ => [] end.
Definition tpend_k (s : tstate) : list nat :=
  match s with T3 _ _ k _ => [k] | T4 _ _ _ k _ => [k] | _ => [] end.
Definition pending_k (st : state) : list nat :=
  ppend_k (prod st) ++ flat_map tpend_k (thieves st).

(* slot a thread currently owns for reading / clearing, with the value decided
   at its CAS *)
Definition towned (s : tstate) : option (Z * Z * V) :=
  match s with
  | T3 i p _ x => Some (i, p, x)
  | T4 i _ p _ x => Some (i, p, x)
  | _ => None
  end.
Definition powned (p : pstate) : option (Z * V) :=
  match p with
  | PH3 i _ x => Some (i, x)
  | PH4 i _ _ x => Some (i, x)
  | _ => None
  end.
(* slot the producer has checked free and is filling (P2 success .. P4) *)
Definition pfilling (st : state) : option Z :=
  match prod st with
  | PP3 _ h => Some (h mod sz st)
  | PP4 _ => Some (head st mod sz st)
  | _ => None
  end.

(* ---- the same machine WITHOUT any ghost component ----
   ProofsDequeue.v (erase_step, erase_run) shows that erasing the ghost parts
   of the instrumented machine gives exactly this machine, so the ghost state
   never influences head, tail, vals, the real registers or the results. *)
Inductive rpstate :=
| RIdle
| RP1 (v : V)
| RP2 (v : V) (h : Z)
| RP3 (v : V) (h : Z)
| RP4 (v : V)
| RH1
| RH2 (h t : Z)
| RH3 (i : Z)
| RH4 (i : Z) (val : option V).

Inductive rtstate :=
| R1
| R2 (h t : Z)
| R3 (i : Z)
| R4 (i : Z) (val : option V).

Record rstate := rmk {
  r_sz : Z;
  r_head : Z;
  r_tail : Z;
  r_vals : list (option V);
  r_prod : rpstate;
  r_thieves : list rtstate;
  r_trace : list (nat * event)     (* completed calls with their results *)
}.

Definition rprod_step (rs : rstate) : rstate :=
  let n := r_sz rs in
  let hd := r_head rs in
  let tl := r_tail rs in
  let vs := r_vals rs in
  let ths := r_thieves rs in
  let tr := r_trace rs in
  match r_prod rs with
  | RIdle => rs
  | RP1 v =>
      if (tl + n) mod M32 =? hd
      then rmk n hd tl vs RIdle ths (tr ++ [(0%nat, EPush v false)])
      else rmk n hd tl vs (RP2 v hd) ths tr
  | RP2 v h =>
      match rd vs (h mod n) with
      | Some _ => rmk n hd tl vs RIdle ths (tr ++ [(0%nat, EPush v false)])
      | None => rmk n hd tl vs (RP3 v h) ths tr
      end
  | RP3 v h => rmk n hd tl (wr vs (h mod n) (Some v)) (RP4 v) ths tr
  | RP4 v => rmk n ((hd + 1) mod M32) tl vs RIdle ths (tr ++ [(0%nat, EPush v true)])
  | RH1 =>
      if tl =? hd
      then rmk n hd tl vs RIdle ths (tr ++ [(0%nat, EPopHead Empty)])
      else rmk n hd tl vs (RH2 hd tl) ths tr
  | RH2 h t =>
      if (hd =? h) && (tl =? t)
      then rmk n ((h - 1) mod M32) tl vs (RH3 (((h - 1) mod M32) mod n)) ths tr
      else rmk n hd tl vs RH1 ths tr
  | RH3 i => rmk n hd tl vs (RH4 i (rd vs i)) ths tr
  | RH4 i val => rmk n hd tl (wr vs i None) RIdle ths (tr ++ [(0%nat, EPopHead (Got val))])
  end.

Definition rthief_step (rs : rstate) (j : nat) : rstate :=
  let n := r_sz rs in
  let hd := r_head rs in
  let tl := r_tail rs in
  let vs := r_vals rs in
  let pr := r_prod rs in
  let ths := r_thieves rs in
  let tr := r_trace rs in
  match nth_error ths j with
  | None => rs
  | Some R1 =>
      if tl =? hd
      then rmk n hd tl vs pr ths (tr ++ [(S j, EPopTail Empty)])
      else rmk n hd tl vs pr (upd ths j (R2 hd tl)) tr
  | Some (R2 h t) =>
      if (hd =? h) && (tl =? t)
      then rmk n hd ((t + 1) mod M32) vs pr (upd ths j (R3 (t mod n))) tr
      else rmk n hd tl vs pr (upd ths j R1) tr
  | Some (R3 i) => rmk n hd tl vs pr (upd ths j (R4 i (rd vs i))) tr
  | Some (R4 i val) =>
      rmk n hd tl (wr vs i None) pr (upd ths j R1) (tr ++ [(S j, EPopTail (Got val))])
  end.

Definition rstep (rs : rstate) (l : label) : rstate :=
  match l with
  | LPush v =>
      match r_prod rs with
      | RIdle => rmk (r_sz rs) (r_head rs) (r_tail rs) (r_vals rs) (RP1 v) (r_thieves rs) (r_trace rs)
      | _ => rs
      end
  | LPop =>
      match r_prod rs with
      | RIdle => rmk (r_sz rs) (r_head rs) (r_tail rs) (r_vals rs) RH1 (r_thieves rs) (r_trace rs)
      | _ => rs
      end
  | LProd => rprod_step rs
  | LThief j => rthief_step rs j
  end.

Definition rrun (rs : rstate) (sched : list label) : rstate := fold_left rstep sched rs.

Definition rinit (n : Z) (T : nat) (h0 : Z) : rstate :=
  rmk n h0 h0 (repeat None (Z.to_nat n)) RIdle (repeat R1 T) [].

Definition erase_p (p : pstate) : rpstate :=
  match p with
  | PIdle => RIdle
  | PP1 v => RP1 v
  | PP2 v h => RP2 v h
  | PP3 v h => RP3 v h
  | PP4 v => RP4 v
  | PH1 => RH1
  | PH2 h t => RH2 h t
  | PH3 i _ _ => RH3 i
  | PH4 i val _ _ => RH4 i val
  end.

Definition erase_t (s : tstate) : rtstate :=
  match s with
  | T1 => R1
  | T2 h t => R2 h t
  | T3 i _ _ _ => R3 i
  | T4 i val _ _ _ => R4 i val
  end.

Definition erase (st : state) : rstate :=
  rmk (sz st) (head st) (tail st) (vals st) (erase_p (prod st))
      (map erase_t (thieves st)) (map fst (trace st)).

(* ---- what the examples of ProofsDequeue.v observe ---- *)
Definition obs (st : state) :=
  (head st, tail st, vals st, map (fun c => fst c) (trace st)).
