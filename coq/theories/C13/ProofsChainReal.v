(* C13 - poolChain: ghost erasure.  The instrumented machine of Chain.v simulates the ghost-free machine of
   ChainReal.v step by step: cerase (cstep s l) = rcstep (cerase s) l, for every state (no invariant needed). *)
From Coq Require Import ZArith List Bool Lia.
From VF Require Import C13.Dequeue C13.ProofsDequeue C13.Chain C13.ChainReal.
Import ListNotations.
Open Scope Z_scope.

(* ---- outcomes are read from real registers only ---- *)
Lemma push_outcome_erase : forall q, push_outcome q = rpush_outcome (erase q).
Proof.
  intros q. destruct q as [n hv tv vs pr ths g_h g_t ab lg tr]. unfold push_outcome, rpush_outcome, erase. sp. rsp.
  destruct pr; reflexivity.
Qed.
Lemma pop_outcome_erase : forall q, pop_outcome q = rpop_outcome (erase q).
Proof.
  intros q. destruct q as [n hv tv vs pr ths g_h g_t ab lg tr]. unfold pop_outcome, rpop_outcome, erase. sp. rsp.
  destruct pr; reflexivity.
Qed.
Lemma thief_outcome_erase : forall q j, thief_outcome q j = rthief_outcome (erase q) j.
Proof.
  intros q j. destruct q as [n hv tv vs pr ths g_h g_t ab lg tr]. unfold thief_outcome, rthief_outcome, erase. sp. rsp.
  rewrite nth_error_map_opt. destruct (nth_error ths j) as [s |]; [destruct s |]; reflexivity.
Qed.
Lemma sz_erase : forall q, r_sz (erase q) = sz q.
Proof. intros q. reflexivity. Qed.

(* ---- the setters commute with erasure ---- *)
Lemma ce_set_prod : forall s p, cerase (set_prod s p) = rset_prod (cerase s) (erase_cp p). Proof. reflexivity. Qed.
Lemma ce_set_size : forall s z, cerase (set_size s z) = rset_size (cerase s) z. Proof. reflexivity. Qed.
Lemma ce_set_tail : forall s t, cerase (set_tail s t) = rset_tail (cerase s) t. Proof. reflexivity. Qed.
Lemma ce_set_head : forall s h, cerase (set_head s h) = rset_head (cerase s) h. Proof. reflexivity. Qed.
Lemma ce_set_rings : forall s rs, cerase (set_rings s rs) = rset_rings (cerase s) (map erase_ring rs). Proof. reflexivity. Qed.
Lemma ce_c_log : forall s t e, cerase (c_log s t e) = cerase s. Proof. reflexivity. Qed.
Lemma ce_c_ret : forall s t e k, cerase (c_ret s t e k) = rc_ret (cerase s) t e.
Proof. intros. unfold cerase, c_ret, rc_ret. cbn [cn0 rings chead ctail csize cprod cthieves ctrace rc_n0 rc_rings rc_head rc_tail rc_size rc_prod rc_thieves rc_trace]. rewrite map_app. reflexivity. Qed.
Lemma ce_c_lp_ret : forall s t e, cerase (c_lp_ret s t e) = rc_ret (cerase s) t e.
Proof. intros. unfold c_lp_ret. rewrite ce_c_ret, ce_c_log. reflexivity. Qed.
Lemma ce_set_thief : forall s j k, cerase (set_thief s j k) = rset_thief (cerase s) j (erase_ck k).
Proof.
  intros. unfold cerase, set_thief, set_thieves, rset_thief, rset_thieves.
  cbn [cn0 rings chead ctail csize cprod cthieves ctrace rc_n0 rc_rings rc_head rc_tail rc_size rc_prod rc_thieves rc_trace].
  rewrite map_upd. reflexivity.
Qed.

Lemma ce_rings : forall s, rc_rings (cerase s) = map erase_ring (rings s). Proof. reflexivity. Qed.
Lemma ce_nth : forall s d, nth_error (rc_rings (cerase s)) d = option_map erase_ring (nth_error (rings s) d).
Proof. intros. rewrite ce_rings. apply nth_error_map_opt. Qed.
Lemma ce_nth_thief : forall s j, nth_error (rc_thieves (cerase s)) j = option_map erase_ck (nth_error (cthieves s) j).
Proof. intros. unfold cerase. cbn [rc_thieves]. apply nth_error_map_opt. Qed.
Lemma ce_T : forall s, length (rc_thieves (cerase s)) = T_of s.
Proof. intros. unfold cerase, T_of. cbn [rc_thieves]. apply map_length. Qed.
Lemma ce_len : forall s, length (rc_rings (cerase s)) = length (rings s).
Proof. intros. rewrite ce_rings. apply map_length. Qed.

Lemma ce_ring_map : forall s d f g, (forall r, erase_ring (f r) = g (erase_ring r)) ->
  cerase (ring_map s d f) = rring_map (cerase s) d g.
Proof.
  intros s d f g H. unfold ring_map, rring_map. rewrite ce_nth.
  destruct (nth_error (rings s) d) as [r |]; cbn [option_map]; [| reflexivity].
  rewrite ce_set_rings, map_upd, H. reflexivity.
Qed.
Lemma ce_ring_do : forall s d l, cerase (ring_do s d l) = rring_do (cerase s) d l.
Proof.
  intros. unfold ring_do, rring_do. apply ce_ring_map. intros r. unfold erase_ring, on_q, ron_q.
  cbn [rq rnext rprev rrq rrnext rrprev]. rewrite erase_step. reflexivity.
Qed.
Lemma ce_set_next : forall s d x, cerase (set_next s d x) = rset_next (cerase s) d x.
Proof. intros. unfold set_next, rset_next. apply ce_ring_map. intros r. reflexivity. Qed.
Lemma ce_set_prev : forall s d x, cerase (set_prev s d x) = rset_prev (cerase s) d x.
Proof. intros. unfold set_prev, rset_prev. apply ce_ring_map. intros r. reflexivity. Qed.
Lemma ce_new_ring : forall n T h0 pv, erase_ring (new_ring n T h0 pv) = rnew_ring n T h0 pv.
Proof. intros. unfold erase_ring, new_ring, rnew_ring. cbn [rq rnext rprev]. rewrite erase_init. reflexivity. Qed.

Ltac ce := repeat (rewrite ce_set_prod || rewrite ce_set_thief || rewrite ce_c_lp_ret || rewrite ce_c_ret || rewrite ce_c_log
                   || rewrite ce_set_size || rewrite ce_set_tail || rewrite ce_set_head || rewrite ce_ring_do
                   || rewrite ce_set_next || rewrite ce_set_prev).

Lemma ce_fields : forall s,
  rc_prod (cerase s) = erase_cp (cprod s) /\ rc_head (cerase s) = chead s /\ rc_tail (cerase s) = ctail s /\
  rc_size (cerase s) = csize s /\ rc_n0 (cerase s) = cn0 s.
Proof. intros. repeat split; reflexivity. Qed.

Lemma cerase_prod_step : forall s, cerase (cprod_step s) = rcprod_step (cerase s).
Proof.
  intros s. unfold cprod_step, rcprod_step.
  destruct (ce_fields s) as (Ep & Eh & Et & Es & En). rewrite Ep.
  destruct (cprod s) as [| v | v d | v d | v d d2 | v d | v | d ko | d | val k]; cbn [erase_cp].
  - reflexivity.
  - rewrite Eh, Es, En, ce_T. destruct (chead s) as [d |]; ce.
    + reflexivity.
    + rewrite ce_set_rings, map_app. cbn [map]. rewrite ce_new_ring. rewrite <- (ce_len s). reflexivity.
  - ce. reflexivity.
  - rewrite ce_nth. destruct (nth_error (rings s) d) as [r |]; cbn [option_map]; [| reflexivity].
    change (rrq (erase_ring r)) with (erase (rq r)). rewrite <- push_outcome_erase.
    destruct (push_outcome (rq r)) as [[|] |]; ce; try reflexivity.
    rewrite ce_set_rings, map_app. cbn [map]. rewrite ce_new_ring, sz_erase, ce_T.
    rewrite <- (ce_len (ring_do s d LProd)), <- (ce_rings (ring_do s d LProd)), ce_ring_do. reflexivity.
  - ce. reflexivity.
  - rewrite ce_nth. destruct (nth_error (rings s) d) as [r |]; cbn [option_map]; [| reflexivity].
    change (rrq (erase_ring r)) with (erase (rq r)). rewrite <- push_outcome_erase.
    destruct (push_outcome (rq r)) as [[|] |]; ce; reflexivity.
  - reflexivity.
  - rewrite ce_nth. destruct (nth_error (rings s) d) as [r |]; cbn [option_map]; [| reflexivity].
    change (rrq (erase_ring r)) with (erase (rq r)). rewrite <- pop_outcome_erase.
    destruct (match ko with Some _ => None | None => head_lp (rq r) (step (rq r) LProd) end) as [x |];
      destruct (pop_outcome (rq r)) as [[| val] |]; ce; reflexivity.
  - rewrite ce_nth. destruct (nth_error (rings s) d) as [r |]; cbn [option_map]; [| reflexivity].
    change (rrprev (erase_ring r)) with (rprev r). destruct (rprev r); ce; reflexivity.
  - rewrite Es. ce. reflexivity.
Qed.

Lemma cerase_thief_step : forall s j, cerase (cthief_step s j) = rcthief_step (cerase s) j.
Proof.
  intros s j. unfold cthief_step, rcthief_step. rewrite ce_nth_thief.
  destruct (ce_fields s) as (Ep & Eh & Et & Es & En).
  destruct (nth_error (cthieves s) j) as [k |]; cbn [option_map]; [| reflexivity].
  destruct k as [| d | d d2 ko | d d2 | d2 | val kk]; cbn [erase_ck].
  - rewrite Et. destruct (ctail s); ce; reflexivity.
  - rewrite ce_nth. destruct (nth_error (rings s) d) as [r |]; cbn [option_map]; ce; reflexivity.
  - rewrite ce_nth. destruct (nth_error (rings s) d) as [r |]; cbn [option_map]; [| reflexivity].
    change (rrq (erase_ring r)) with (erase (rq r)). rewrite <- thief_outcome_erase.
    destruct (match ko with Some _ => None | None => tail_lp (rq r) (step (rq r) (LThief j)) end) as [x |];
      destruct (thief_outcome (rq r) j) as [[| val] |]; ce; try reflexivity; destruct d2; ce; reflexivity.
  - rewrite Et. destruct (ctail s) as [t |]; [destruct (Nat.eqb t d) |]; ce; reflexivity.
  - ce. reflexivity.
  - rewrite Es. ce. reflexivity.
Qed.

Theorem cerase_step : forall s l, cerase (cstep s l) = rcstep (cerase s) l.
Proof.
  intros s l. destruct l as [v | | | j]; unfold cstep, rcstep.
  - destruct (ce_fields s) as (Ep & _). rewrite Ep. destruct (cprod s); reflexivity.
  - destruct (ce_fields s) as (Ep & Eh & _). rewrite Ep, Eh.
    destruct (cprod s); cbn [erase_cp]; try reflexivity. destruct (chead s); ce; reflexivity.
  - apply cerase_prod_step.
  - apply cerase_thief_step.
Qed.

Lemma map_repeat : forall A B (f : A -> B) a n, map f (repeat a n) = repeat (f a) n.
Proof. intros. induction n as [| n IH]; [reflexivity | cbn [repeat map]; rewrite IH; reflexivity]. Qed.

Lemma cerase_init : forall n0 T, cerase (cinit n0 T) = rcinit n0 T.
Proof. intros. unfold cerase, cinit, rcinit. cbn [cn0 rings chead ctail csize cprod cthieves ctrace map erase_cp]. rewrite map_repeat. reflexivity. Qed.
Lemma cerase_init_at : forall n0 T h0, cerase (cinit_at n0 T h0) = rcinit_at n0 T h0.
Proof.
  intros. unfold cerase, cinit_at, rcinit_at. cbn [cn0 rings chead ctail csize cprod cthieves ctrace map erase_cp].
  rewrite map_repeat, ce_new_ring. reflexivity.
Qed.

Lemma cerase_crun : forall sched s, cerase (crun s sched) = rcrun (cerase s) sched.
Proof.
  induction sched as [| l r IH]; intros s; [reflexivity |].
  cbn [crun rcrun fold_left]. fold (crun (cstep s l) r). fold (rcrun (rcstep (cerase s) l) r).
  rewrite <- cerase_step. apply IH.
Qed.

(* every run of the ghost-free chain machine is the erasure of the instrumented run under the same schedule *)
Theorem cerase_run : forall sched n0 T,
  rcrun (rcinit n0 T) sched = cerase (crun (cinit n0 T) sched).
Proof. intros. rewrite <- cerase_init. symmetry. apply cerase_crun. Qed.
Theorem cerase_run_at : forall sched n0 T h0,
  rcrun (rcinit_at n0 T h0) sched = cerase (crun (cinit_at n0 T h0) sched).
Proof. intros. rewrite <- cerase_init_at. symmetry. apply cerase_crun. Qed.
