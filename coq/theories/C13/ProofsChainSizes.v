(* C13 - poolChain: the sizes of the rings.  The first ring has the initial size, every further ring has size
   grow(previous) = min(2 * previous, 2^30)  (poolChain.pushHead: newSize := len(d.vals) * 2, capped at
   dequeueLimit). *)
From Coq Require Import ZArith List Bool Lia.
From VF Require Import C13.Dequeue C13.ProofsDequeue C13.Chain C13.ProofsChainRing C13.ProofsChain.
Import ListNotations.
Open Scope Z_scope.

Definition szr (r : ring) : Z := sz (rq r).
Definition sizes (s : cstate) : list Z := map szr (rings s).

Definition sizes_ok (n0 : Z) (l : list Z) : Prop :=
  (forall z, nth_error l 0 = Some z -> z = n0) /\
  (forall i a b, nth_error l i = Some a -> nth_error l (S i) = Some b -> b = grow a).

Lemma map_upd_same : forall (R : list ring) d r', (forall r, nth_error R d = Some r -> szr r' = szr r) ->
  map szr (upd R d r') = map szr R.
Proof.
  intros R. induction R as [| x R IH]; intros d r' H; [destruct d; reflexivity |].
  destruct d; cbn [upd map].
  - rewrite (H x eq_refl). reflexivity.
  - f_equal. apply IH. intros r Hr. apply H. exact Hr.
Qed.

Lemma sizes_ring_map : forall s d f, (forall r, szr (f r) = szr r) -> sizes (ring_map s d f) = sizes s.
Proof.
  intros s d f H. unfold sizes, ring_map. destruct (nth_error (rings s) d) as [r |] eqn:E; [| reflexivity].
  cbn [set_rings rings]. apply map_upd_same. intros r0 Hr0. rewrite E in Hr0. injection Hr0 as <-. apply H.
Qed.

Lemma sizes_ring_do : forall s d l, sizes (ring_do s d l) = sizes s.
Proof. intros. unfold ring_do. apply sizes_ring_map. intros r. unfold szr, on_q. cbn [rq]. apply sz_step. Qed.
Lemma sizes_set_next : forall s d x, sizes (set_next s d x) = sizes s.
Proof. intros. unfold set_next. apply sizes_ring_map. intros r. reflexivity. Qed.
Lemma sizes_set_prev : forall s d x, sizes (set_prev s d x) = sizes s.
Proof. intros. unfold set_prev. apply sizes_ring_map. intros r. reflexivity. Qed.

(* how one step changes the list of sizes *)
Definition sizes_shape (s s' : cstate) : Prop :=
  cn0 s' = cn0 s /\
  (sizes s' = sizes s \/
   (rings s = [] /\ sizes s' = [cn0 s]) \/
   (exists d r, S d = length (rings s) /\ nth_error (rings s) d = Some r /\ sizes s' = sizes s ++ [grow (szr r)])).

Ltac szs := repeat (progress (cbn [set_prod set_thief set_thieves set_head set_rings set_tail set_size
                                   c_lp_ret c_ret c_log cn0 rings])
                    || rewrite sizes_ring_do || rewrite sizes_set_next || rewrite sizes_set_prev).
Ltac same := split; [reflexivity | left; unfold sizes; szs; try reflexivity].

Lemma sizes_fold : forall s, map szr (rings s) = sizes s.
Proof. reflexivity. Qed.

Lemma sizes_set_prod : forall s p, sizes (set_prod s p) = sizes s. Proof. reflexivity. Qed.
Lemma sizes_set_thief : forall s j k, sizes (set_thief s j k) = sizes s. Proof. reflexivity. Qed.
Lemma sizes_c_log : forall s t e, sizes (c_log s t e) = sizes s. Proof. reflexivity. Qed.
Lemma sizes_c_lp_ret : forall s t e, sizes (c_lp_ret s t e) = sizes s. Proof. reflexivity. Qed.
Lemma sizes_c_ret : forall s t e k, sizes (c_ret s t e k) = sizes s. Proof. reflexivity. Qed.
Lemma sizes_set_tail : forall s t, sizes (set_tail s t) = sizes s. Proof. reflexivity. Qed.
Lemma sizes_set_size : forall s z, sizes (set_size s z) = sizes s. Proof. reflexivity. Qed.
Lemma cn0_ring_map : forall s d f, cn0 (ring_map s d f) = cn0 s.
Proof. intros. unfold ring_map. destruct (nth_error (rings s) d); reflexivity. Qed.

Ltac szn := repeat (rewrite sizes_set_prod || rewrite sizes_set_thief || rewrite sizes_c_log || rewrite sizes_c_lp_ret
                    || rewrite sizes_c_ret || rewrite sizes_set_tail || rewrite sizes_set_size
                    || rewrite sizes_ring_do || rewrite sizes_set_next || rewrite sizes_set_prev).
Ltac cn := repeat (progress (cbn [set_prod set_thief set_thieves set_head set_rings set_tail set_size
                                  c_lp_ret c_ret c_log cn0]) || (progress unfold ring_do, set_next, set_prev)
                   || rewrite cn0_ring_map).
Ltac keep := split; [cn; reflexivity | left; szn; reflexivity].

Lemma sizes_step : forall s l, CInv s -> sizes_shape s (cstep s l).
Proof.
  intros s l H. unfold sizes_shape. destruct l as [v | | | j]; unfold cstep.
  - destruct (cprod s); keep.
  - destruct (cprod s); try keep. destruct (chead s); keep.
  - unfold cprod_step. destruct (cprod s) as [| v | v d | v d | v d d2 | v d | v | d ko | d | val k] eqn:Ep; try keep.
    + destruct (chead s) as [d |] eqn:Eh; [keep |].
      split; [reflexivity |]. right. left.
      assert (E := ci_head _ _ _ _ _ _ _ _ H). unfold I_head in E. rewrite Eh in E.
      destruct (rings s) as [| x R] eqn:ER; [| discriminate]. split; [reflexivity |].
      unfold sizes. cbn [set_prod set_head set_rings set_size rings]. reflexivity.
    + destruct (nth_error (rings s) d) as [r |] eqn:Hd; [| keep].
      destruct (push_outcome (rq r)) as [[|] |]; try keep.
      split; [cn; reflexivity |]. right. right. exists d, r.
      assert (HP := ci_prod _ _ _ _ _ _ _ _ H). rewrite Ep in HP. destruct HP as [HN _].
      split; [exact HN |]. split; [exact Hd |].
      unfold sizes at 1. cbn [set_prod set_head set_rings rings]. rewrite map_app. cbn [map].
      rewrite sizes_fold, sizes_ring_do. reflexivity.
    + destruct (nth_error (rings s) d) as [r |]; [| keep]. destruct (push_outcome (rq r)) as [[|] |]; keep.
    + destruct (nth_error (rings s) d) as [r |]; [| keep].
      destruct (match ko with Some _ => None | None => head_lp (rq r) (step (rq r) LProd) end) as [x |];
        destruct (pop_outcome (rq r)) as [[| val] |]; keep.
    + destruct (nth_error (rings s) d) as [r |]; [| keep]. destruct (rprev r); keep.
  - unfold cthief_step. destruct (nth_error (cthieves s) j) as [k |]; [| keep].
    destruct k as [| d | d d2 ko | d d2 | d2 | val kk]; try keep.
    + destruct (ctail s); keep.
    + destruct (nth_error (rings s) d); keep.
    + destruct (nth_error (rings s) d) as [r |]; [| keep].
      destruct (match ko with Some _ => None | None => tail_lp (rq r) (step (rq r) (LThief j)) end) as [x |];
        destruct (thief_outcome (rq r) j) as [[| val] |]; try keep; destruct d2; keep.
    + destruct (ctail s) as [t |]; [destruct (Nat.eqb t d) |]; keep.
Qed.

Lemma sizes_ok_step : forall s l, CInv s -> sizes_ok (cn0 s) (sizes s) -> sizes_ok (cn0 (cstep s l)) (sizes (cstep s l)).
Proof.
  intros s l H [H0 HS]. destruct (sizes_step s l H) as [En [E | [[ER E] | (d & r & HN & Hd & E)]]]; rewrite En, E.
  - split; assumption.
  - split.
    + intros z Hz. injection Hz as <-. reflexivity.
    + intros i a b Ha Hb. destruct i; discriminate.
  - assert (Hlen : length (sizes s) = S d) by (unfold sizes; rewrite map_length; lia).
    assert (Hdz : nth_error (sizes s) d = Some (szr r)) by (unfold sizes; rewrite nth_error_map, Hd; reflexivity).
    split.
    + intros z Hz. apply H0. rewrite nth_error_app1 in Hz by lia. exact Hz.
    + intros i a b Ha Hb. destruct (Nat.lt_ge_cases (S i) (length (sizes s))) as [Hlt | Hge].
      * rewrite nth_error_app1 in Ha by lia. rewrite nth_error_app1 in Hb by lia. eapply HS; eassumption.
      * assert (Hb' := Hb). rewrite nth_error_app2 in Hb' by lia.
        destruct (S i - length (sizes s))%nat as [| m] eqn:Em; cbn [nth_error] in Hb'; [| destruct m; discriminate].
        injection Hb' as <-. assert (i = d) by lia. subst i.
        rewrite nth_error_app1 in Ha by lia. rewrite Hdz in Ha. injection Ha as <-. reflexivity.
Qed.

(* for every reachable state: ring 0 has the initial size and ring i+1 has size min(2 * size of ring i, 2^30) *)
Theorem chain_sizes : forall s, creach s ->
  (forall r, nth_error (rings s) 0 = Some r -> sz (rq r) = cn0 s) /\
  (forall i r r', nth_error (rings s) i = Some r -> nth_error (rings s) (S i) = Some r' ->
     sz (rq r') = grow (sz (rq r))).
Proof.
  intros s Hr.
  assert (Hok : CInv s /\ sizes_ok (cn0 s) (sizes s)).
  { destruct Hr as [n0 T sched Hn | n0 T h0 sched Hn Hh].
    - apply (crun_invariant (fun s => CInv s /\ sizes_ok (cn0 s) (sizes s))).
      + intros s0 l [A B]. split; [apply cinv_step; exact A | apply sizes_ok_step; assumption].
      + split; [apply cinv_init; exact Hn |]. split; [intros z Hz; discriminate | intros i a b Ha; destruct i; discriminate].
    - apply (crun_invariant (fun s => CInv s /\ sizes_ok (cn0 s) (sizes s))).
      + intros s0 l [A B]. split; [apply cinv_step; exact A | apply sizes_ok_step; assumption].
      + split; [apply cinv_init_at; assumption |]. split.
        * intros z Hz. injection Hz as <-. reflexivity.
        * intros i a b Ha Hb. destruct i; discriminate. }
  destruct Hok as [_ [H0 HS]]. split.
  - intros r Hr0. apply H0. unfold sizes. rewrite nth_error_map, Hr0. reflexivity.
  - intros i r r' Hi Hi'. apply (HS i (szr r) (szr r')); unfold sizes; rewrite nth_error_map; [rewrite Hi | rewrite Hi']; reflexivity.
Qed.
