(* C13 correspondence checker.
   CPoolHist: a recorded timed Get/Put history of one real syncx.Pool under goroutine storms, GC cycles and
              GOMAXPROCS changes, decided by pool_hist_b (kind 2).
   CPoolSeq : single-goroutine run on one P (GOMAXPROCS 1, NoGC): every Get/Put with its result and the
              P-local counters, against PoolModel (kind 1) and against the sequential reading of the three
              clauses (kind 2).
   CRW      : occupancy counters observed inside syncx.RWMutex critical sections (kind 2 if any overlap).
   CConst   : blockSize of pool.go against the model's (kind 1).
   CDeqSeq  : sequential pushHead/popHead/popTail on real poolDequeue rings (hook poolqueue_verif.go): results and
              head / tail / slots against the Dequeue.v machine under the sequential schedule (kind 1) and against
              the list deque (kind 2).                                         (drivers: DeqCheck.v)
   CChainSeq: the same for real poolChains against the Chain.v machine (rings, links, size counter).
   CDeqLin  : timed histories of concurrent rounds (one producer, k thieves) on a real ring or chain, decided by
              Common/Hist.lin_check instantiated with the list deque (kind 2 when not linearizable). *)
From VF Require Import Common.Base C13.PoolModel C13.PoolHist.
From VF Require C13.Dequeue C13.DeqCheck.

Inductive pstep :=
| SPut (x : nat)
| SGet (r : option nat)                                  (* what Get returned: object id or nil *)
| SSnap (pidx : nat) (has_priv : bool) (nshared nunused : nat).   (* P 0: l.pidx, l.private != nil, chain sizes *)

Inductive case :=
| CPoolHist (has_new : bool) (h : phistory)
| CPoolSeq (has_new : bool) (steps : list pstep)
| CRW (nshards : nat) (reader_writer_overlaps writer_writer_overlaps : Z)
| CConst (block_size : nat)
| CDeqConst (dequeue_limit : Z)
| CDeqSeq (steps : list DeqCheck.dstep)                 (* sequential calls on real poolDequeue rings *)
| CChainSeq (steps : list DeqCheck.kstep)               (* sequential calls on real poolChains *)
| CDeqLin (rounds : list (list DeqCheck.qop)).          (* timed histories of concurrent rounds on a real ring / chain *)

(* sequential reading of the statement: held = objects currently outstanding, puts = ever put, known = ever
   returned (kept as binary integers: membership tests on unary numbers would dominate the run time) *)
Definition zmem (x : Z) (l : list Z) : bool := existsb (Z.eqb x) l.
Fixpoint zremove1 (x : Z) (l : list Z) : list Z :=
  match l with [] => [] | y :: t => if Z.eqb x y then t else y :: zremove1 x t end.

Record seqst := { sw : world; held : list Z; sputs : list Z; sknown : list Z }.

Definition seq_step (hn : bool) (s : seqst) (st : pstep) : seqst * nat :=
  match st with
  | SPut x =>
      let '(w', _) := PoolModel.step blockSize hn (sw s) (Put 0 x None) in
      let z := Z.of_nat x in
      ({| sw := w'; held := zremove1 z (held s); sputs := z :: sputs s; sknown := sknown s |}, 0%nat)
  | SGet r =>
      let '(w', rm) := PoolModel.step blockSize hn (sw s) (Get 0 None) in
      let rz := match r with Some x => Some (Z.of_nat x) | None => None end in
      let prop := match rz with
                  | Some z => negb (zmem z (held s)) && (zmem z (sputs s) || negb (zmem z (sknown s)))
                  | None => negb hn
                  end in
      let agree := option_eqb Nat.eqb r rm in
      ({| sw := w';
          held := match rz with Some z => z :: held s | None => held s end;
          sputs := sputs s;
          sknown := match rz with Some z => z :: sknown s | None => sknown s end |},
       kind_of agree prop)
  | SSnap pidx hp ns nu =>
      let agree := match nth_error (ps (sw s)) 0 with
                   | Some l => Nat.eqb (match priv l with Some b => length b | None => 0 end) pidx
                               && Bool.eqb (match priv l with Some _ => true | None => false end) hp
                               && Nat.eqb (length (shared l)) ns && Nat.eqb (unused l) nu
                   | None => false
                   end in
      (s, if agree then 0%nat else 1%nat)
  end.

Local Open Scope Z_scope.
Definition check_case (c : case) : nat :=
  match c with
  | CPoolHist hn h =>
      if negb (stamps_distinct_b h) then 1%nat          (* malformed recording *)
      else if pool_hist_b hn h then 0%nat else 2%nat
  | CPoolSeq hn steps =>
      scan (seq_step hn) {| sw := pool0 1; held := []; sputs := []; sknown := [] |} steps 0
  | CRW nshards rw ww =>
      if (rw =? 0) && (ww =? 0) then (if Nat.leb 1 nshards then 0%nat else 1%nat) else 2%nat
  | CConst bs => if Nat.eqb bs blockSize then 0%nat else 1%nat
  | CDeqConst l => if l =? Dequeue.dequeueLimit then 0%nat else 1%nat
  | CDeqSeq steps => DeqCheck.check_dseq steps
  | CChainSeq steps => DeqCheck.check_kseq steps
  | CDeqLin rounds => DeqCheck.check_rounds rounds
  end.

Definition mismatches (cs : list case) : list (nat * nat) := find_bad check_case cs.
