(* C13 - poolChain: proofs.  See Chain.v for the model, ProofsChainRing.v for the ring-level facts. *)
From Coq Require Import ZArith Znumtheory List Bool Lia Permutation.
From VF Require Import C13.Dequeue C13.ProofsDequeue C13.Chain C13.ProofsChainRing.
Import ListNotations.
Open Scope Z_scope.

(* ------------------------------------------------------------------ *)
(* lists                                                               *)
(* ------------------------------------------------------------------ *)
Lemma upd_split : forall A (l : list A) d r, nth_error l d = Some r ->
  exists a b, l = a ++ r :: b /\ length a = d /\ forall x, upd l d x = a ++ x :: b.
Proof.
  intros A l. induction l as [| y l IH]; intros d r H; [destruct d; discriminate |].
  destruct d; cbn [nth_error] in H.
  - injection H as ->. exists [], l. repeat split; reflexivity.
  - destruct (IH _ _ H) as (a & b & E & Hl & Hu). exists (y :: a), b. subst l.
    split; [reflexivity |]. split; [cbn [length]; lia |]. intros x. cbn [upd app]. rewrite Hu. reflexivity.
Qed.

Lemma nth_error_app_snoc : forall A (l : list A) x i s, nth_error (l ++ [x]) i = Some s ->
  (nth_error l i = Some s /\ (i < length l)%nat) \/ (i = length l /\ s = x).
Proof.
  intros A l x i s H. destruct (Nat.lt_ge_cases i (length l)) as [Hlt | Hge].
  - left. rewrite nth_error_app1 in H by exact Hlt. split; assumption.
  - right. rewrite nth_error_app2 in H by exact Hge.
    destruct (i - length l)%nat as [| m] eqn:E; cbn [nth_error] in H.
    + split; [lia | congruence].
    + destruct m; discriminate.
Qed.

Lemma nth_error_upd_d : forall A (l : list A) d x, (d < length l)%nat -> nth_error (upd l d x) d = Some x.
Proof.
  intros A l d x H. destruct (nth_error l d) eqn:E; [eapply nth_error_upd_same; exact E |].
  apply nth_error_None in E. lia.
Qed.

Lemma flat_map_nil : forall A B (f : A -> list B) l, (forall x, In x l -> f x = []) -> flat_map f l = [].
Proof.
  intros A B f l. induction l as [| a l IH]; intros H; [reflexivity |].
  cbn [flat_map]. rewrite H by (left; reflexivity). apply IH. intros x Hx. apply H. right. exact Hx.
Qed.

Lemma nth_error_prefix : forall A (l : list A) e k x, nth_error l k = Some x -> nth_error (l ++ [e]) k = Some x.
Proof.
  intros A l e k x H. rewrite nth_error_app1; [exact H |]. apply nth_error_Some. congruence.
Qed.

(* ------------------------------------------------------------------ *)
(* the invariant                                                       *)
(* ------------------------------------------------------------------ *)
Definition absR (R : list ring) : list V := flat_map (fun r => abs (rq r)) (rev R).
Definition rabsR (R : list ring) (i : nat) : list V :=
  match nth_error R i with Some r => abs (rq r) | None => [] end.
(* ring i is drained for good: empty and already followed by a younger ring (so it is not c.head and the
   producer will never push into it again) *)
Definition deadR (R : list ring) (i : nat) : Prop :=
  exists r, nth_error R i = Some r /\ abs (rq r) = [] /\ rnext r <> None.

Definition ploc (p : cpstate) : option nat :=
  match p with CPushIn _ d | CPushIn2 _ d | CPopIn d _ => Some d | _ => None end.
Definition tloc (k : ckstate) : option nat := match k with KIn d _ _ => Some d | _ => None end.

Definition I_ring (R : list ring) (T : nat) : Prop :=
  forall i r, nth_error R i = Some r ->
    Core (rq r) /\ length (thieves (rq r)) = T /\ pow2size (sz (rq r)).
Definition I_head (R : list ring) (hd : option nat) : Prop :=
  hd = match length R with O => None | S m => Some m end.
Definition I_tail (R : list ring) (tl : option nat) (pr : cpstate) : Prop :=
  match tl with
  | Some t => (t < length R)%nat
  | None => length R = 0%nat \/ exists v, pr = CPushInit v 0
  end.
Definition I_next (R : list ring) (pr : cpstate) : Prop :=
  forall i r, nth_error R i = Some r ->
    (rnext r = None \/ rnext r = Some (S i)) /\
    (rnext r <> None -> (S i < length R)%nat) /\
    ((S i < length R)%nat -> rnext r = None -> exists v, pr = CPushLink v i (S i)).
Definition I_prev (R : list ring) (tl : option nat) : Prop :=
  forall i r, nth_error R i = Some r ->
    (rprev r = None \/ exists i', i = S i' /\ rprev r = Some i') /\
    (rprev r = None -> i = 0%nat \/ exists t, tl = Some t /\ (i <= t)%nat).
Definition I_dead (R : list ring) (tl : option nat) : Prop :=
  forall t i, tl = Some t -> (i < t)%nat -> deadR R i.

Definition I_prod (R : list ring) (tl : option nat) (lg : list (nat * event)) (pr : cpstate) : Prop :=
  match pr with
  | CIdle | CPush0 _ => True
  | CLost _ => False
  | CPushInit v d => d = 0%nat /\ length R = 1%nat /\ tl = None /\
                     exists r, nth_error R 0 = Some r /\ virgin (rq r)
  | CPushIn v d => S d = length R /\ exists r, nth_error R d = Some r /\ pph (prod (rq r)) = PhPush v
  | CPushLink v d d2 => d2 = S d /\ S d2 = length R /\
        (exists r, nth_error R d = Some r /\ rnext r = None) /\
        (exists r2, nth_error R d2 = Some r2 /\ virgin (rq r2))
  | CPushIn2 v d => S d = length R /\ exists r, nth_error R d = Some r /\ fresh_ok v (rq r)
  | CPopIn d None => (exists r, nth_error R d = Some r /\ pph (prod (rq r)) = PhSearch) /\
                     (forall i, (d < i)%nat -> rabsR R i = [])
  | CPopIn d (Some k) => exists r x, nth_error R d = Some r /\ pph (prod (rq r)) = PhHold x /\
                     nth_error lg k = Some (0%nat, EPopHead (Got (Some x)))
  | CPopPrev d => (d < length R)%nat /\ (forall i, (d <= i)%nat -> rabsR R i = [])
  | CPopDec val k => exists x, val = Some x /\ nth_error lg k = Some (0%nat, EPopHead (Got (Some x)))
  end.
Definition I_pidle (R : list ring) (pr : cpstate) : Prop :=
  forall i r, nth_error R i = Some r -> ploc pr <> Some i -> prod (rq r) = PIdle.

Definition I_thief (R : list ring) (tl : option nat) (lg : list (nat * event)) (j : nat) (k : ckstate) : Prop :=
  match k with
  | K0 => True
  | KNext d => (d < length R)%nat /\ (forall i, (i < d)%nat -> deadR R i)
  | KIn d d2 ko =>
      (forall i, (i < d)%nat -> deadR R i) /\
      exists r, nth_error R d = Some r /\
        (d2 = None \/ (d2 = Some (S d) /\ rnext r = Some (S d))) /\
        exists ts, nth_error (thieves (rq r)) j = Some ts /\
          match ko with
          | None => tph ts = ThSearch
          | Some kk => exists x, tph ts = ThHold x /\ nth_error lg kk = Some (S j, EPopTail (Got (Some x)))
          end
  | KCas d d2 => d2 = S d /\ (forall i, (i <= d)%nat -> deadR R i)
  | KPrev d2 => (d2 < length R)%nat /\ (forall i, (i < d2)%nat -> deadR R i) /\
                exists t, tl = Some t /\ (d2 <= t)%nat
  | KDec val kk => exists x, val = Some x /\ nth_error lg kk = Some (S j, EPopTail (Got (Some x)))
  end.
Definition I_thieves R tl lg (ths : list ckstate) : Prop :=
  forall j k, nth_error ths j = Some k -> I_thief R tl lg j k.
Definition I_tidle (R : list ring) (ths : list ckstate) : Prop :=
  forall i r j k, nth_error R i = Some r -> nth_error ths j = Some k -> tloc k <> Some i ->
    nth_error (thieves (rq r)) j = Some T1.

Definition I_log (R : list ring) (lg : list (nat * event)) : Prop := cseq_run [] (map snd lg) (absR R).
Definition I_trace (lg : list (nat * event)) (tr : list (nat * event * nat)) : Prop :=
  forall t e k, In (t, e, k) tr -> nth_error lg k = Some (t, e).
Definition I_idx (pr : cpstate) (ths : list ckstate) (lg : list (nat * event)) (tr : list (nat * event * nat)) : Prop :=
  Permutation (cpend_p pr ++ flat_map cpend_k ths ++ map snd tr) (seq 0 (length lg)).

Record CInvF (n0 : Z) (R : list ring) (hd tl : option nat) (pr : cpstate) (ths : list ckstate)
             (lg : list (nat * event)) (tr : list (nat * event * nat)) : Prop := {
  ci_n0 : pow2size n0;
  ci_ring : I_ring R (length ths);
  ci_head : I_head R hd;
  ci_tail : I_tail R tl pr;
  ci_next : I_next R pr;
  ci_prev : I_prev R tl;
  ci_dead : I_dead R tl;
  ci_prod : I_prod R tl lg pr;
  ci_pidle : I_pidle R pr;
  ci_thieves : I_thieves R tl lg ths;
  ci_tidle : I_tidle R ths;
  ci_log : I_log R lg;
  ci_trace : I_trace lg tr;
  ci_idx : I_idx pr ths lg tr
}.
Definition CInv (s : cstate) : Prop :=
  CInvF (cn0 s) (rings s) (chead s) (ctail s) (cprod s) (cthieves s) (clog s) (ctrace s).

(* ------------------------------------------------------------------ *)
(* generic facts about replacing ring d                                *)
(* ------------------------------------------------------------------ *)
Lemma deadR_upd : forall R d r r' i, nth_error R d = Some r ->
  rnext r' = rnext r -> (abs (rq r) = [] -> rnext r <> None -> abs (rq r') = []) ->
  deadR R i -> deadR (upd R d r') i.
Proof.
  intros R d r r' i Hd Hn Ha (x & Hx & Hax & Hnx).
  destruct (Nat.eq_dec i d) as [-> | Hne].
  - rewrite Hd in Hx. injection Hx as <-. exists r'.
    rewrite (nth_error_upd_same _ _ _ _ _ Hd). rewrite Hn.
    split; [reflexivity |]. split; [apply Ha; assumption | assumption].
  - exists x. rewrite nth_error_upd_other by exact Hne. split; [assumption |]. split; assumption.
Qed.

Lemma I_ring_upd : forall R T d r', I_ring R T ->
  Core (rq r') -> length (thieves (rq r')) = T -> pow2size (sz (rq r')) -> I_ring (upd R d r') T.
Proof.
  intros R T d r' H H1 H2 H3 i x Hx.
  apply nth_error_upd in Hx as [[-> ->] | [Hne Hx]]; [split; [assumption | split; assumption] | exact (H _ _ Hx)].
Qed.

Lemma I_ring_step : forall R T d r l, I_ring R T -> nth_error R d = Some r ->
  I_ring (upd R d (on_q (fun q => step q l) r)) T.
Proof.
  intros R T d r l H Hd. destruct (H _ _ Hd) as (HC & HT & HP).
  apply I_ring_upd; [exact H | | |]; cbn [on_q rq].
  - apply step_core. exact HC.
  - rewrite step_thieves_length. exact HT.
  - rewrite sz_step. exact HP.
Qed.

Lemma I_ring_app : forall R T r, I_ring R T ->
  Core (rq r) -> length (thieves (rq r)) = T -> pow2size (sz (rq r)) -> I_ring (R ++ [r]) T.
Proof.
  intros R T r H H1 H2 H3 i x Hx.
  apply nth_error_app_snoc in Hx as [[Hx _] | [_ ->]]; [exact (H _ _ Hx) | split; [assumption | split; assumption]].
Qed.

Lemma I_head_len : forall R R' hd, length R' = length R -> I_head R hd -> I_head R' hd.
Proof. intros R R' hd E H. unfold I_head in *. rewrite E. exact H. Qed.

Lemma I_tail_len : forall R R' tl pr pr', length R' = length R ->
  (forall v, pr = CPushInit v 0 -> pr' = CPushInit v 0) -> I_tail R tl pr -> I_tail R' tl pr'.
Proof.
  intros R R' tl pr pr' E Hp H. unfold I_tail in *. rewrite E. destruct tl; [exact H |].
  destruct H as [H | [v H]]; [left; exact H | right; exists v; apply Hp; exact H].
Qed.

Lemma I_next_upd : forall R pr pr' d r r', I_next R pr -> nth_error R d = Some r ->
  rnext r' = rnext r -> (forall v i, pr = CPushLink v i (S i) -> pr' = CPushLink v i (S i)) ->
  I_next (upd R d r') pr'.
Proof.
  intros R pr pr' d r r' H Hd Hn Hp i x Hx. rewrite upd_length.
  assert (Hy : exists y, nth_error R i = Some y /\ rnext x = rnext y).
  { apply nth_error_upd in Hx as [[-> ->] | [Hne Hx]]; [exists r | exists x]; auto. }
  destruct Hy as (y & Hy & E). rewrite E. destruct (H _ _ Hy) as (H1 & H2 & H3).
  split; [exact H1 |]. split; [exact H2 |]. intros Hl Hnn. destruct (H3 Hl Hnn) as [v Hv].
  exists v. apply Hp. exact Hv.
Qed.

Lemma I_prev_upd : forall R tl d r r', I_prev R tl -> nth_error R d = Some r ->
  rprev r' = rprev r -> I_prev (upd R d r') tl.
Proof.
  intros R tl d r r' H Hd Hn i x Hx.
  assert (Hy : exists y, nth_error R i = Some y /\ rprev x = rprev y).
  { apply nth_error_upd in Hx as [[-> ->] | [Hne Hx]]; [exists r | exists x]; auto. }
  destruct Hy as (y & Hy & E). rewrite E. exact (H _ _ Hy).
Qed.

Lemma I_prev_tail : forall R tl tl', I_prev R tl ->
  (forall t, tl = Some t -> exists t', tl' = Some t' /\ (t <= t')%nat) -> I_prev R tl'.
Proof.
  intros R tl tl' H Ht i x Hx. destruct (H _ _ Hx) as [H1 H2]. split; [exact H1 |].
  intros Hn. destruct (H2 Hn) as [E | (t & Et & Hle)]; [left; exact E | right].
  destruct (Ht _ Et) as (t' & Et' & Hle'). exists t'. split; [exact Et' | lia].
Qed.

Lemma I_dead_upd : forall R tl d r r', I_dead R tl -> nth_error R d = Some r ->
  rnext r' = rnext r -> (abs (rq r) = [] -> rnext r <> None -> abs (rq r') = []) -> I_dead (upd R d r') tl.
Proof.
  intros R tl d r r' H Hd Hn Ha t i Et Hi. eapply deadR_upd; try eassumption. eapply H; eassumption.
Qed.

Lemma I_pidle_upd : forall R pr pr' d r', I_pidle R pr ->
  (ploc pr' <> Some d -> prod (rq r') = PIdle) ->
  (forall i, i <> d -> ploc pr' <> Some i -> ploc pr <> Some i) ->
  I_pidle (upd R d r') pr'.
Proof.
  intros R pr pr' d r' H H1 H2 i x Hx Hl.
  apply nth_error_upd in Hx as [[-> ->] | [Hne Hx]]; [apply H1; exact Hl |].
  eapply H; [exact Hx | apply H2; assumption].
Qed.

Lemma I_tidle_upd : forall R ths ths' d r', I_tidle R ths ->
  (forall j k, nth_error ths' j = Some k -> tloc k <> Some d -> nth_error (thieves (rq r')) j = Some T1) ->
  (forall i j k, i <> d -> nth_error ths' j = Some k -> tloc k <> Some i ->
     exists k0, nth_error ths j = Some k0 /\ tloc k0 <> Some i) ->
  I_tidle (upd R d r') ths'.
Proof.
  intros R ths ths' d r' H H1 H2 i x j k Hx Hk Hl.
  apply nth_error_upd in Hx as [[-> ->] | [Hne Hx]]; [eapply H1; eassumption |].
  destruct (H2 _ _ _ Hne Hk Hl) as (k0 & Hk0 & Hl0). eapply H; eassumption.
Qed.

(* the abstract contents around ring d *)
Lemma rabsR_nth : forall R i x, nth_error R i = Some x -> rabsR R i = abs (rq x).
Proof. intros R i x H. unfold rabsR. rewrite H. reflexivity. Qed.

Lemma absR_upd : forall R d r, nth_error R d = Some r ->
  exists above below,
    absR R = above ++ abs (rq r) ++ below /\
    (forall x, absR (upd R d x) = above ++ abs (rq x) ++ below) /\
    ((forall i, (d < i)%nat -> rabsR R i = []) -> above = []) /\
    ((forall i, (i < d)%nat -> deadR R i) -> below = []).
Proof.
  intros R d r Hd. destruct (upd_split _ _ _ _ Hd) as (a & b & E & Hl & Hu).
  exists (flat_map (fun r => abs (rq r)) (rev b)), (flat_map (fun r => abs (rq r)) (rev a)).
  assert (Hsp : forall x, absR (a ++ x :: b) =
                 flat_map (fun r => abs (rq r)) (rev b) ++ abs (rq x) ++ flat_map (fun r => abs (rq r)) (rev a)).
  { intros x. unfold absR. rewrite rev_app_distr. cbn [rev]. rewrite flat_map_app, flat_map_app.
    cbn [flat_map]. rewrite app_nil_r, <- app_assoc. reflexivity. }
  split; [rewrite E; apply Hsp |]. split; [intros x; rewrite Hu; apply Hsp |]. split.
  - intros H. apply flat_map_nil. intros x Hx. apply in_rev in Hx.
    destruct (In_nth_error _ _ Hx) as [m Hm].
    assert (Hn : nth_error R (S d + m) = Some x).
    { rewrite E. rewrite nth_error_app2 by lia. replace (S d + m - length a)%nat with (S m) by lia. exact Hm. }
    rewrite <- (rabsR_nth _ _ _ Hn). apply H. lia.
  - intros H. apply flat_map_nil. intros x Hx. apply in_rev in Hx.
    destruct (In_nth_error _ _ Hx) as [m Hm].
    assert (Hlt : (m < length a)%nat) by (apply nth_error_Some; congruence).
    assert (Hn : nth_error R m = Some x) by (rewrite E; rewrite nth_error_app1 by exact Hlt; exact Hm).
    destruct (H m ltac:(lia)) as (y & Hy & Hay & _). rewrite Hn in Hy. injection Hy as <-. exact Hay.
Qed.

Lemma absR_app : forall R r, absR (R ++ [r]) = abs (rq r) ++ absR R.
Proof. intros R r. unfold absR. rewrite rev_app_distr. reflexivity. Qed.

Lemma absR_nil_all : forall R, (forall i, rabsR R i = []) -> absR R = [].
Proof.
  intros R H. unfold absR. apply flat_map_nil. intros x Hx. apply in_rev in Hx.
  destruct (In_nth_error _ _ Hx) as [m Hm]. rewrite <- (rabsR_nth _ _ _ Hm). apply H.
Qed.

Lemma cseq_run_snoc : forall q0 es q e q', cseq_run q0 es q -> cseq_step q e q' -> cseq_run q0 (es ++ [e]) q'.
Proof.
  intros q0 es q e q' H. induction H as [q | q a q1 es q2 Hs _ IH]; intros Hst; cbn [app].
  - econstructor; [exact Hst | constructor].
  - econstructor; [exact Hs | apply IH; exact Hst].
Qed.

Lemma I_log_snoc : forall R R' lg t e, I_log R lg -> cseq_step (absR R) e (absR R') -> I_log R' (lg ++ [(t, e)]).
Proof.
  intros R R' lg t e H Hs. unfold I_log in *. rewrite map_app. cbn [map snd].
  eapply cseq_run_snoc; eassumption.
Qed.

Lemma I_log_same : forall R R' lg, I_log R lg -> absR R' = absR R -> I_log R' lg.
Proof. intros R R' lg H E. unfold I_log in *. rewrite E. exact H. Qed.

(* ---- trace / index bookkeeping ---- *)
Lemma I_trace_log : forall lg tr x, I_trace lg tr -> I_trace (lg ++ [x]) tr.
Proof. intros lg tr x H t e k Hin. apply nth_error_prefix. exact (H _ _ _ Hin). Qed.

Lemma I_trace_ret : forall lg tr t e k, I_trace lg tr -> nth_error lg k = Some (t, e) -> I_trace lg (tr ++ [(t, e, k)]).
Proof.
  intros lg tr t e k H Hk t' e' k' Hin. apply in_app_or in Hin as [Hin | [Hin | []]]; [exact (H _ _ _ Hin) |].
  injection Hin as <- <- <-. exact Hk.
Qed.

Lemma I_trace_lp_ret : forall lg tr t e, I_trace lg tr -> I_trace (lg ++ [(t, e)]) (tr ++ [(t, e, length lg)]).
Proof.
  intros lg tr t e H. apply I_trace_ret; [apply I_trace_log; exact H | apply nth_error_snoc_new].
Qed.

Lemma idx_new_front : forall (F M : list nat) n, Permutation (F ++ M) (seq 0 n) ->
  Permutation ([n] ++ F ++ M) (seq 0 (S n)).
Proof.
  intros F M n H. rewrite seq_S. cbn [Nat.add app]. rewrite <- Permutation_cons_append. apply perm_skip. exact H.
Qed.

Lemma idx_ret_front : forall (F M : list nat) k L, Permutation ([k] ++ F ++ M) L -> Permutation (F ++ M ++ [k]) L.
Proof.
  intros F M k L H. etransitivity; [| exact H]. cbn [app]. rewrite app_assoc. symmetry. apply Permutation_cons_append.
Qed.

Lemma I_idx_lp_ret : forall pr ths lg tr t e, I_idx pr ths lg tr -> I_idx pr ths (lg ++ [(t, e)]) (tr ++ [(t, e, length lg)]).
Proof. intros. unfold I_idx in *. apply idx_lp_ret. assumption. Qed.

Lemma I_idx_prod_same : forall pr pr' ths lg tr, cpend_p pr' = cpend_p pr -> I_idx pr ths lg tr -> I_idx pr' ths lg tr.
Proof. intros pr pr' ths lg tr E H. unfold I_idx in *. rewrite E. exact H. Qed.

Lemma I_idx_thief_same : forall pr ths lg tr j k k', nth_error ths j = Some k -> cpend_k k' = cpend_k k ->
  I_idx pr ths lg tr -> I_idx pr (upd ths j k') lg tr.
Proof.
  intros pr ths lg tr j k k' Hj E H. unfold I_idx in *.
  rewrite (flat_map_upd_same _ _ cpend_k _ _ _ _ Hj E). exact H.
Qed.

Lemma I_idx_prod_log : forall pr pr' ths lg tr x, cpend_p pr = [] -> cpend_p pr' = [length lg] ->
  I_idx pr ths lg tr -> I_idx pr' ths (lg ++ [x]) tr.
Proof.
  intros pr pr' ths lg tr x E E' H. unfold I_idx in *. rewrite E in H. rewrite E'.
  rewrite app_length. cbn [length]. rewrite Nat.add_1_r. apply idx_new_front. exact H.
Qed.

Lemma I_idx_prod_ret : forall pr pr' ths lg tr t e k, cpend_p pr = [k] -> cpend_p pr' = [] ->
  I_idx pr ths lg tr -> I_idx pr' ths lg (tr ++ [(t, e, k)]).
Proof.
  intros pr pr' ths lg tr t e k E E' H. unfold I_idx in *. rewrite E in H. rewrite E'.
  rewrite map_app. cbn [map snd app]. rewrite app_assoc. rewrite app_assoc in H.
  rewrite <- app_assoc. apply idx_ret_front. rewrite <- app_assoc in H. exact H.
Qed.

Lemma I_idx_thief_log : forall pr ths lg tr j k k' x, nth_error ths j = Some k ->
  cpend_k k = [] -> cpend_k k' = [length lg] ->
  I_idx pr ths lg tr -> I_idx pr (upd ths j k') (lg ++ [x]) tr.
Proof.
  intros pr ths lg tr j k k' x Hj E E' H. unfold I_idx in *.
  destruct (flat_map_upd _ _ cpend_k ths j k k' Hj) as (l1 & l2 & E1 & E2).
  rewrite E2, E'. rewrite E1, E in H. cbn [app] in H.
  rewrite app_length. cbn [length]. rewrite Nat.add_1_r, seq_S. cbn [Nat.add].
  rewrite <- app_assoc. cbn [app].
  rewrite <- (Permutation_middle l1 (l2 ++ map snd tr) (length lg)).
  rewrite <- (Permutation_middle (cpend_p pr) (l1 ++ l2 ++ map snd tr) (length lg)).
  rewrite <- Permutation_cons_append. apply perm_skip. rewrite <- app_assoc in H. exact H.
Qed.

Lemma I_idx_thief_ret : forall pr ths lg tr j k k' t e kk, nth_error ths j = Some k ->
  cpend_k k = [kk] -> cpend_k k' = [] ->
  I_idx pr ths lg tr -> I_idx pr (upd ths j k') lg (tr ++ [(t, e, kk)]).
Proof.
  intros pr ths lg tr j k k' t e kk Hj E E' H. unfold I_idx in *.
  destruct (flat_map_upd _ _ cpend_k ths j k k' Hj) as (l1 & l2 & E1 & E2).
  rewrite E2, E'. rewrite E1, E in H. cbn [app] in *.
  rewrite map_app. cbn [map snd].
  etransitivity; [| exact H]. apply Permutation_app_head.
  rewrite <- !app_assoc. apply Permutation_app_head. cbn [app].
  rewrite app_assoc. symmetry. apply Permutation_cons_append.
Qed.

(* ------------------------------------------------------------------ *)
(* rely conditions: what a thread's own invariant needs from the steps *)
(* of the other threads                                                *)
(* ------------------------------------------------------------------ *)
Record rely_thief (j : nat) (R : list ring) (tl : option nat) (lg : list (nat * event))
                  (R' : list ring) (tl' : option nat) (lg' : list (nat * event)) : Prop := {
  rt_len : (length R <= length R')%nat;
  rt_ring : forall i r, nth_error R i = Some r -> exists r', nth_error R' i = Some r' /\
              nth_error (thieves (rq r')) j = nth_error (thieves (rq r)) j /\
              (forall x, rnext r = Some x -> rnext r' = Some x);
  rt_dead : forall i, deadR R i -> deadR R' i;
  rt_tail : forall t, tl = Some t -> exists t', tl' = Some t' /\ (t <= t')%nat;
  rt_log : forall k e, nth_error lg k = Some e -> nth_error lg' k = Some e
}.

Lemma I_thief_rely : forall j R tl lg R' tl' lg' k, rely_thief j R tl lg R' tl' lg' ->
  I_thief R tl lg j k -> I_thief R' tl' lg' j k.
Proof.
  intros j R tl lg R' tl' lg' k [Hlen Hring Hdead Htail Hlog] H.
  destruct k as [| d | d d2 ko | d d2 | d2 | val kk]; cbn [I_thief] in *.
  - exact I.
  - destruct H as [H1 H2]. split; [lia | intros i Hi; apply Hdead, H2, Hi].
  - destruct H as [H1 (r & Hr & Hd2 & ts & Hts & Hko)]. split; [intros i Hi; apply Hdead, H1, Hi |].
    destruct (Hring _ _ Hr) as (r' & Hr' & Eth & Hnx). exists r'. split; [exact Hr' |]. split.
    + destruct Hd2 as [E | [E1 E2]]; [left; exact E | right; split; [exact E1 | apply Hnx; exact E2]].
    + exists ts. split; [rewrite Eth; exact Hts |]. destruct ko as [kk |]; [| exact Hko].
      destruct Hko as (x & Hx & Hk). exists x. split; [exact Hx | apply Hlog; exact Hk].
  - destruct H as [H1 H2]. split; [exact H1 | intros i Hi; apply Hdead, H2, Hi].
  - destruct H as (H1 & H2 & t & Ht & Hle). split; [lia |]. split; [intros i Hi; apply Hdead, H2, Hi |].
    destruct (Htail _ Ht) as (t' & Et' & Hle'). exists t'. split; [exact Et' | lia].
  - destruct H as (x & Hx & Hk). exists x. split; [exact Hx | apply Hlog; exact Hk].
Qed.

Lemma rely_thief_upd : forall j R tl lg tl' lg' d r r', nth_error R d = Some r ->
  nth_error (thieves (rq r')) j = nth_error (thieves (rq r)) j ->
  (forall x, rnext r = Some x -> rnext r' = Some x) ->
  (abs (rq r) = [] -> rnext r <> None -> abs (rq r') = []) ->
  (forall t, tl = Some t -> exists t', tl' = Some t' /\ (t <= t')%nat) ->
  (forall k e, nth_error lg k = Some e -> nth_error lg' k = Some e) ->
  rely_thief j R tl lg (upd R d r') tl' lg'.
Proof.
  intros j R tl lg tl' lg' d r r' Hd Hth Hnx Hab Htl Hlg. constructor; try assumption.
  - rewrite upd_length. lia.
  - intros i x Hx. destruct (Nat.eq_dec i d) as [-> | Hne].
    + rewrite Hd in Hx. injection Hx as <-. exists r'. rewrite (nth_error_upd_same _ _ _ _ _ Hd).
      split; [reflexivity |]. split; assumption.
    + exists x. rewrite nth_error_upd_other by exact Hne. split; [exact Hx |]. split; [reflexivity | auto].
  - intros i (x & Hx & Hax & Hnn). destruct (Nat.eq_dec i d) as [-> | Hne].
    + rewrite Hd in Hx. injection Hx as <-. exists r'. rewrite (nth_error_upd_same _ _ _ _ _ Hd).
      split; [reflexivity |]. split; [apply Hab; assumption |].
      destruct (rnext r) as [y |] eqn:E; [rewrite (Hnx y eq_refl); discriminate | congruence].
    + exists x. rewrite nth_error_upd_other by exact Hne. split; [exact Hx |]. split; assumption.
Qed.

Lemma rely_thief_same : forall j R tl lg tl' lg',
  (forall t, tl = Some t -> exists t', tl' = Some t' /\ (t <= t')%nat) ->
  (forall k e, nth_error lg k = Some e -> nth_error lg' k = Some e) ->
  rely_thief j R tl lg R tl' lg'.
Proof.
  intros j R tl lg tl' lg' Htl Hlg. constructor; try assumption; try lia; auto.
  intros i r Hr. exists r. split; [exact Hr |]. split; [reflexivity | auto].
Qed.

Lemma rely_thief_app : forall j R tl lg r, rely_thief j R tl lg (R ++ [r]) tl lg.
Proof.
  intros j R tl lg r. constructor; auto.
  - rewrite app_length. lia.
  - intros i x Hx. exists x. split; [| split; [reflexivity | auto]].
    rewrite nth_error_app1; [exact Hx | apply nth_error_Some; congruence].
  - intros i (x & Hx & H). exists x. split; [| exact H].
    rewrite nth_error_app1; [exact Hx | apply nth_error_Some; congruence].
  - intros t Ht. exists t. split; [exact Ht | lia].
Qed.

Lemma rely_thief_trans : forall j R tl lg R1 tl1 lg1 R2 tl2 lg2,
  rely_thief j R tl lg R1 tl1 lg1 -> rely_thief j R1 tl1 lg1 R2 tl2 lg2 -> rely_thief j R tl lg R2 tl2 lg2.
Proof.
  intros j R tl lg R1 tl1 lg1 R2 tl2 lg2 [A1 A2 A3 A4 A5] [B1 B2 B3 B4 B5]. constructor.
  - lia.
  - intros i r Hr. destruct (A2 _ _ Hr) as (r1 & Hr1 & E1 & N1). destruct (B2 _ _ Hr1) as (r2 & Hr2 & E2 & N2).
    exists r2. split; [exact Hr2 |]. split; [congruence | auto].
  - auto.
  - intros t Ht. destruct (A4 _ Ht) as (t1 & Ht1 & L1). destruct (B4 _ Ht1) as (t2 & Ht2 & L2).
    exists t2. split; [exact Ht2 | lia].
  - auto.
Qed.

Lemma I_thieves_rely : forall R tl lg R' tl' lg' ths,
  (forall j, rely_thief j R tl lg R' tl' lg') -> I_thieves R tl lg ths -> I_thieves R' tl' lg' ths.
Proof. intros R tl lg R' tl' lg' ths Hr H j k Hk. eapply I_thief_rely; [apply Hr | apply H; exact Hk]. Qed.

(* the thieves other than j keep their invariant when thief j moves to k' (whose invariant is given) *)
Lemma I_thieves_upd : forall R tl lg R' tl' lg' ths j k',
  (forall j', j' <> j -> rely_thief j' R tl lg R' tl' lg') -> I_thieves R tl lg ths ->
  I_thief R' tl' lg' j k' -> I_thieves R' tl' lg' (upd ths j k').
Proof.
  intros R tl lg R' tl' lg' ths j k' Hr H Hk' j' k Hk.
  apply nth_error_upd in Hk as [[-> ->] | [Hne Hk]]; [exact Hk' |].
  eapply I_thief_rely; [apply Hr; exact Hne | apply H; exact Hk].
Qed.

Record rely_prod (R : list ring) (tl : option nat) (lg : list (nat * event))
                 (R' : list ring) (tl' : option nat) (lg' : list (nat * event)) : Prop := {
  rp_len : length R' = length R;
  rp_ring : forall i r, nth_error R i = Some r -> exists r', nth_error R' i = Some r' /\
        prod (rq r') = prod (rq r) /\ rnext r' = rnext r /\
        (abs (rq r) = [] -> abs (rq r') = []) /\ (virgin (rq r) -> virgin (rq r')) /\
        (forall v, fresh_ok v (rq r) -> fresh_ok v (rq r'));
  rp_tail : tl = None -> tl' = None;
  rp_log : forall k e, nth_error lg k = Some e -> nth_error lg' k = Some e
}.

Lemma rely_prod_back : forall R tl lg R' tl' lg' i x', rely_prod R tl lg R' tl' lg' ->
  nth_error R' i = Some x' -> exists x, nth_error R i = Some x /\
    prod (rq x') = prod (rq x) /\ rnext x' = rnext x.
Proof.
  intros R tl lg R' tl' lg' i x' [Hlen Hring _ _] Hx'.
  assert (Hlt : (i < length R)%nat) by (rewrite <- Hlen; apply nth_error_Some; congruence).
  destruct (nth_error R i) as [x |] eqn:Ex; [| apply nth_error_None in Ex; lia].
  destruct (Hring _ _ Ex) as (r' & Hr' & Hp & Hn & _). rewrite Hx' in Hr'. injection Hr' as <-.
  exists x. auto.
Qed.

Lemma rabsR_rely : forall R tl lg R' tl' lg' i, rely_prod R tl lg R' tl' lg' -> rabsR R i = [] -> rabsR R' i = [].
Proof.
  intros R tl lg R' tl' lg' i [Hlen Hring _ _] H. unfold rabsR in *.
  destruct (nth_error R i) as [x |] eqn:Ex.
  - destruct (Hring _ _ Ex) as (r' & Hr' & _ & _ & Ha & _). rewrite Hr'. apply Ha. exact H.
  - apply nth_error_None in Ex. rewrite <- Hlen in Ex. apply nth_error_None in Ex. rewrite Ex. reflexivity.
Qed.

Lemma I_prod_rely : forall R tl lg R' tl' lg' pr, rely_prod R tl lg R' tl' lg' ->
  I_prod R tl lg pr -> I_prod R' tl' lg' pr.
Proof.
  intros R tl lg R' tl' lg' pr Hrel H. assert (Hrel' := Hrel). destruct Hrel' as [Hlen Hring Htail Hlog].
  destruct pr as [| v | v d | v d | v d d2 | v d | v | d ko | d | val k]; cbn [I_prod] in *; try exact H.
  - destruct H as (H1 & H2 & H3 & r & Hr & Hv). split; [exact H1 |]. split; [congruence |].
    split; [auto |]. destruct (Hring _ _ Hr) as (r' & Hr' & _ & _ & _ & Hvv & _). exists r'. auto.
  - destruct H as (H1 & r & Hr & Hp). split; [congruence |].
    destruct (Hring _ _ Hr) as (r' & Hr' & Ep & _). exists r'. split; [exact Hr' | rewrite Ep; exact Hp].
  - destruct H as (H1 & H2 & (r & Hr & Hn) & (r2 & Hr2 & Hv)). split; [exact H1 |]. split; [congruence |].
    destruct (Hring _ _ Hr) as (r' & Hr' & _ & En & _).
    destruct (Hring _ _ Hr2) as (r2' & Hr2' & _ & _ & _ & Hvv & _).
    split; [exists r'; split; [exact Hr' | congruence] | exists r2'; auto].
  - destruct H as (H1 & r & Hr & Hf). split; [congruence |].
    destruct (Hring _ _ Hr) as (r' & Hr' & _ & _ & _ & _ & Hff). exists r'. auto.
  - destruct ko as [k |].
    + destruct H as (r & x & Hr & Hp & Hk). destruct (Hring _ _ Hr) as (r' & Hr' & Ep & _).
      exists r', x. split; [exact Hr' |]. split; [rewrite Ep; exact Hp | auto].
    + destruct H as [(r & Hr & Hp) H2]. destruct (Hring _ _ Hr) as (r' & Hr' & Ep & _). split.
      * exists r'. split; [exact Hr' | rewrite Ep; exact Hp].
      * intros i Hi. eapply rabsR_rely; [exact Hrel | apply H2; exact Hi].
  - destruct H as [H1 H2]. split; [congruence |]. intros i Hi. eapply rabsR_rely; [exact Hrel | apply H2; exact Hi].
  - destruct H as (x & Hx & Hk). exists x. auto.
Qed.

Lemma I_pidle_rely : forall R tl lg R' tl' lg' pr, rely_prod R tl lg R' tl' lg' -> I_pidle R pr -> I_pidle R' pr.
Proof.
  intros R tl lg R' tl' lg' pr Hrel H i x' Hx' Hl.
  destruct (rely_prod_back _ _ _ _ _ _ _ _ Hrel Hx') as (x & Hx & Ep & _). rewrite Ep. eapply H; eassumption.
Qed.

Lemma I_next_rely : forall R tl lg R' tl' lg' pr, rely_prod R tl lg R' tl' lg' -> I_next R pr -> I_next R' pr.
Proof.
  intros R tl lg R' tl' lg' pr Hrel H i x' Hx'.
  destruct (rely_prod_back _ _ _ _ _ _ _ _ Hrel Hx') as (x & Hx & _ & En). rewrite En.
  rewrite (rp_len _ _ _ _ _ _ Hrel). exact (H _ _ Hx).
Qed.

Lemma rely_prod_same : forall R tl lg tl' lg', (tl = None -> tl' = None) ->
  (forall k e, nth_error lg k = Some e -> nth_error lg' k = Some e) -> rely_prod R tl lg R tl' lg'.
Proof.
  intros R tl lg tl' lg' Ht Hl. constructor; auto.
  intros i r Hr. exists r. split; [exact Hr |]. split; [reflexivity |]. split; [reflexivity |].
  split; [auto |]. split; auto.
Qed.

Lemma rely_prod_upd : forall R tl lg tl' lg' d r r', nth_error R d = Some r ->
  prod (rq r') = prod (rq r) -> rnext r' = rnext r ->
  (abs (rq r) = [] -> abs (rq r') = []) -> (virgin (rq r) -> virgin (rq r')) ->
  (forall v, fresh_ok v (rq r) -> fresh_ok v (rq r')) ->
  (tl = None -> tl' = None) ->
  (forall k e, nth_error lg k = Some e -> nth_error lg' k = Some e) ->
  rely_prod R tl lg (upd R d r') tl' lg'.
Proof.
  intros R tl lg tl' lg' d r r' Hd H1 H2 H3 H4 H5 Ht Hl. constructor; auto.
  - apply upd_length.
  - intros i x Hx. destruct (Nat.eq_dec i d) as [-> | Hne].
    + rewrite Hd in Hx. injection Hx as <-. exists r'. rewrite (nth_error_upd_same _ _ _ _ _ Hd).
      split; [reflexivity |]. split; [assumption |]. split; [assumption |]. split; [assumption |]. split; assumption.
    + exists x. rewrite nth_error_upd_other by exact Hne. split; [exact Hx |].
      split; [reflexivity |]. split; [reflexivity |]. split; [auto |]. split; auto.
Qed.

Lemma step_thief_abs_nil : forall q j, abs q = [] -> abs (step q (LThief j)) = [].
Proof.
  intros q j H. unfold step, thief_step. destruct q as [n hv tv vs pr ths g_h g_t ab lg tr]. sp. subst ab.
  destruct (nth_error ths j) as [s |]; [| reflexivity].
  destruct s as [| h t | i p k x | i val p k x]; sp; try reflexivity.
  - destruct (tv =? hv); reflexivity.
  - destruct ((hv =? h) && (tv =? t)); reflexivity.
Qed.

Lemma step_prod_abs_nil : forall q, (forall v, pph (prod q) <> PhPush v) -> abs q = [] -> abs (step q LProd) = [].
Proof.
  intros q Hp H. unfold step, prod_step. destruct q as [n hv tv vs pr ths g_h g_t ab lg tr]. sp. subst ab.
  destruct pr as [| v | v h | v h | v | | h t | i k x | i val k x]; sp; try reflexivity;
    try (exfalso; eapply Hp; reflexivity).
  - destruct (tv =? hv); reflexivity.
  - destruct ((hv =? h) && (tv =? t)); reflexivity.
Qed.

(* a thief's step inside ring d, seen by the producer *)
Lemma rely_prod_thief_step : forall R tl lg lg' d r j, nth_error R d = Some r ->
  (forall k e, nth_error lg k = Some e -> nth_error lg' k = Some e) ->
  rely_prod R tl lg (upd R d (on_q (fun q => step q (LThief j)) r)) tl lg'.
Proof.
  intros R tl lg lg' d r j Hd Hl. eapply rely_prod_upd; try eassumption; cbn [on_q rq rnext]; auto.
  - apply step_thief_prod.
  - apply step_thief_abs_nil.
  - apply virgin_thief_step.
  - intros v. apply fresh_thief_step.
Qed.

Lemma I_tidle_same : forall R R' ths,
  (forall i x', nth_error R' i = Some x' -> exists x, nth_error R i = Some x /\ thieves (rq x') = thieves (rq x)) ->
  I_tidle R ths -> I_tidle R' ths.
Proof.
  intros R R' ths Hb H i x' j k Hx' Hk Hl. destruct (Hb _ _ Hx') as (x & Hx & E). rewrite E. eapply H; eassumption.
Qed.

Lemma I_tidle_prod_upd : forall R ths d r r', nth_error R d = Some r -> thieves (rq r') = thieves (rq r) ->
  I_tidle R ths -> I_tidle (upd R d r') ths.
Proof.
  intros R ths d r r' Hd E. apply I_tidle_same. intros i x' Hx'.
  apply nth_error_upd in Hx' as [[-> ->] | [Hne Hx']]; [exists r | exists x']; auto.
Qed.

Lemma nth_error_repeat_lt : forall A (a : A) n j, (j < n)%nat -> nth_error (repeat a n) j = Some a.
Proof.
  intros A a n. induction n as [| n IH]; intros j H; [lia |]. destruct j; cbn [repeat nth_error]; [reflexivity | apply IH; lia].
Qed.

Lemma I_tidle_app : forall R ths r, thieves (rq r) = repeat T1 (length ths) -> I_tidle R ths -> I_tidle (R ++ [r]) ths.
Proof.
  intros R ths r E H i x j k Hx Hk Hl.
  apply nth_error_app_snoc in Hx as [[Hx _] | [_ ->]]; [eapply H; eassumption |].
  rewrite E. apply nth_error_repeat_lt. apply nth_error_Some. congruence.
Qed.

(* ------------------------------------------------------------------ *)
(* steps of the producer                                               *)
(* ------------------------------------------------------------------ *)
Lemma I_tail_weaken : forall R tl pr pr', I_tail R tl pr -> (forall v, pr <> CPushInit v 0) -> I_tail R tl pr'.
Proof.
  intros R tl pr pr' H Hp. unfold I_tail in *. destruct tl; [exact H |].
  destruct H as [H | [v H]]; [left; exact H | exfalso; exact (Hp v H)].
Qed.

Lemma I_next_weaken : forall R pr pr', I_next R pr -> (forall v i, pr <> CPushLink v i (S i)) -> I_next R pr'.
Proof.
  intros R pr pr' H Hp i r Hr. destruct (H _ _ Hr) as (H1 & H2 & H3). split; [exact H1 |]. split; [exact H2 |].
  intros Hl Hn. destruct (H3 Hl Hn) as [v Hv]. exfalso. exact (Hp _ _ Hv).
Qed.

Lemma absR_upd_same : forall R d r r', nth_error R d = Some r -> abs (rq r') = abs (rq r) -> absR (upd R d r') = absR R.
Proof.
  intros R d r r' Hd E. destruct (absR_upd _ _ _ Hd) as (a & b & E1 & E2 & _). rewrite E1, E2, E. reflexivity.
Qed.

(* the producer changes ring d (links, thieves and size of the ring untouched) *)
Lemma prod_ring_update : forall n0 R hd tl pr ths lg tr d r r' pr' lg' tr',
  CInvF n0 R hd tl pr ths lg tr -> nth_error R d = Some r ->
  rnext r' = rnext r -> rprev r' = rprev r -> thieves (rq r') = thieves (rq r) ->
  Core (rq r') -> sz (rq r') = sz (rq r) ->
  (abs (rq r) = [] -> rnext r <> None -> abs (rq r') = []) ->
  (forall v, pr <> CPushInit v 0) -> (forall v i, pr <> CPushLink v i (S i)) ->
  I_prod (upd R d r') tl lg' pr' ->
  (ploc pr' <> Some d -> prod (rq r') = PIdle) ->
  (forall i, i <> d -> ploc pr' <> Some i -> ploc pr <> Some i) ->
  (forall k e, nth_error lg k = Some e -> nth_error lg' k = Some e) ->
  I_log (upd R d r') lg' -> I_trace lg' tr' -> I_idx pr' ths lg' tr' ->
  CInvF n0 (upd R d r') hd tl pr' ths lg' tr'.
Proof.
  intros n0 R hd tl pr ths lg tr d r r' pr' lg' tr' H Hd Hn Hp Hth HC Hsz Hab Hni Hnl HP Hpd Hpo Hlg HL HT HI.
  destruct H as [A0 A1 A2 A3 A4 A5 A6 A7 A8 A9 A10 A11 A12 A13].
  destruct (A1 _ _ Hd) as (_ & HT1 & HP1).
  constructor; try assumption.
  - apply I_ring_upd; [exact A1 | exact HC | rewrite Hth; exact HT1 | rewrite Hsz; exact HP1].
  - eapply I_head_len; [apply upd_length | exact A2].
  - eapply I_tail_len; [apply upd_length | | eapply I_tail_weaken; [exact A3 | exact Hni]]. intros v E. exact E.
  - eapply I_next_upd; [eapply I_next_weaken; [exact A4 | exact Hnl] | exact Hd | exact Hn |]. intros v i E. exact E.
  - eapply I_prev_upd; eassumption.
  - eapply I_dead_upd; eassumption.
  - eapply I_pidle_upd; eassumption.
  - eapply I_thieves_rely; [| exact A9]. intros j. eapply rely_thief_upd; try eassumption.
    + rewrite Hth. reflexivity.
    + intros x E. rewrite Hn. exact E.
    + intros t E. exists t. split; [exact E | lia].
  - eapply I_tidle_prod_upd; eassumption.
Qed.

(* only the producer's control state, the log and the trace change *)
Lemma prod_pc_update : forall n0 R hd tl pr ths lg tr pr' lg' tr',
  CInvF n0 R hd tl pr ths lg tr ->
  (forall v, pr <> CPushInit v 0) -> (forall v i, pr <> CPushLink v i (S i)) ->
  I_prod R tl lg' pr' ->
  (forall i, ploc pr' <> Some i -> ploc pr <> Some i) ->
  (forall k e, nth_error lg k = Some e -> nth_error lg' k = Some e) ->
  I_log R lg' -> I_trace lg' tr' -> I_idx pr' ths lg' tr' ->
  CInvF n0 R hd tl pr' ths lg' tr'.
Proof.
  intros n0 R hd tl pr ths lg tr pr' lg' tr' H Hni Hnl HP Hpo Hlg HL HT HI.
  destruct H as [A0 A1 A2 A3 A4 A5 A6 A7 A8 A9 A10 A11 A12 A13].
  constructor; try assumption.
  - eapply I_tail_weaken; eassumption.
  - eapply I_next_weaken; eassumption.
  - intros i r Hr Hl. eapply A8; [exact Hr | apply Hpo; exact Hl].
  - eapply I_thieves_rely; [| exact A9]. intros j. apply rely_thief_same; [| exact Hlg].
    intros t E. exists t. split; [exact E | lia].
Qed.

Lemma init_thieves : forall n T h0, thieves (init n T h0) = repeat T1 T.
Proof. reflexivity. Qed.

(* the producer allocates a ring and makes it c.head *)
Lemma prod_append : forall n0 R hd tl pr ths lg tr pr' n pv,
  CInvF n0 R hd tl pr ths lg tr ->
  (forall v, pr <> CPushInit v 0) -> (forall v i, pr <> CPushLink v i (S i)) ->
  ploc pr = None -> ploc pr' = None -> cpend_p pr = [] -> cpend_p pr' = [] ->
  pow2size n ->
  pv = match length R with O => None | S m => Some m end ->
  (length R = 0%nat -> exists v, pr' = CPushInit v 0) ->
  (forall m, length R = S m -> exists v, pr' = CPushLink v m (S m)) ->
  I_prod (R ++ [new_ring n (length ths) 0 pv]) tl lg pr' ->
  CInvF n0 (R ++ [new_ring n (length ths) 0 pv]) (Some (length R)) tl pr' ths lg tr.
Proof.
  intros n0 R hd tl pr ths lg tr pr' n pv H Hni Hnl Hl Hl' Hc Hc' Hn Hpv H0 HS HP.
  destruct H as [A0 A1 A2 A3 A4 A5 A6 A7 A8 A9 A10 A11 A12 A13].
  assert (HM : 0 <= 0 < M32) by (split; [lia | apply M32_pos]).
  constructor; try assumption.
  - apply I_ring_app; [exact A1 | | |]; cbn [new_ring rq].
    + apply pow2_core_init; assumption.
    + rewrite init_thieves. apply repeat_length.
    + exact Hn.
  - unfold I_head. rewrite app_length. cbn [length]. rewrite Nat.add_1_r. reflexivity.
  - unfold I_tail in *. rewrite app_length. cbn [length]. destruct tl as [t |]; [lia |].
    destruct A3 as [E | [v E]]; [right; apply H0; exact E | exfalso; exact (Hni v E)].
  - intros i r Hr. rewrite app_length. cbn [length].
    apply nth_error_app_snoc in Hr as [[Hr Hlt] | [-> ->]].
    + destruct (A4 _ _ Hr) as (B1 & B2 & B3). split; [exact B1 |]. split; [intros E; specialize (B2 E); lia |].
      intros Hlt2 En. assert (S i < length R \/ S i = length R)%nat as [Hc1 | Hc2] by lia.
      * destruct (B3 Hc1 En) as [v E]. exfalso. exact (Hnl _ _ E).
      * destruct (HS i (eq_sym Hc2)) as [v E]. exists v. exact E.
    + cbn [new_ring rnext]. split; [left; reflexivity |]. split; [congruence | lia].
  - intros i r Hr. apply nth_error_app_snoc in Hr as [[Hr Hlt] | [-> ->]]; [exact (A5 _ _ Hr) |].
    cbn [new_ring rprev]. rewrite Hpv. destruct (length R) as [| m].
    + split; [left; reflexivity | intros _; left; reflexivity].
    + split; [right; exists m; split; reflexivity | discriminate].
  - intros t i Et Hi. destruct (A6 _ _ Et Hi) as (x & Hx & Hax). exists x. split; [| exact Hax].
    rewrite nth_error_app1; [exact Hx | apply nth_error_Some; congruence].
  - intros i r Hr _. apply nth_error_app_snoc in Hr as [[Hr Hlt] | [-> ->]]; [| reflexivity].
    eapply A8; [exact Hr | rewrite Hl; discriminate].
  - eapply I_thieves_rely; [| exact A9]. intros j. apply rely_thief_app.
  - apply I_tidle_app; [reflexivity | exact A10].
  - eapply I_log_same; [exact A11 |]. rewrite absR_app. reflexivity.
  - unfold I_idx in *. rewrite Hc'. rewrite Hc in A13. exact A13.
Qed.

(* storePoolChainElt(&c.tail, d) of the initialisation branch *)
Lemma prod_set_tail_init : forall n0 R hd pr ths lg tr v v',
  CInvF n0 R hd None pr ths lg tr -> pr = CPushInit v 0 ->
  CInvF n0 R hd (Some 0%nat) (CPush0 v') ths lg tr /\
  (exists r, nth_error R 0 = Some r /\ virgin (rq r)) /\ hd = Some 0%nat.
Proof.
  intros n0 R hd pr ths lg tr v v' H ->.
  destruct H as [A0 A1 A2 A3 A4 A5 A6 A7 A8 A9 A10 A11 A12 A13].
  destruct A7 as (_ & HN & _ & Hv). split; [| split; [exact Hv |]].
  - constructor; try assumption.
    + unfold I_tail. lia.
    + eapply I_next_weaken; [exact A4 | discriminate].
    + eapply I_prev_tail; [exact A5 | discriminate].
    + intros t i E Hi. injection E as <-. lia.
    + exact I.
    + eapply I_thieves_rely; [| exact A9]. intros j. apply rely_thief_same; [discriminate | auto].
  - unfold I_head in A2. rewrite HN in A2. exact A2.
Qed.

(* storePoolChainElt(&d.next, d2) *)
Lemma prod_set_next : forall n0 R hd tl ths lg tr v v' d r,
  CInvF n0 R hd tl (CPushLink v d (S d)) ths lg tr -> nth_error R d = Some r ->
  CInvF n0 (upd R d (mkring (rq r) (Some (S d)) (rprev r))) hd tl (CPush0 v') ths lg tr.
Proof.
  intros n0 R hd tl ths lg tr v v' d r H Hd.
  destruct H as [A0 A1 A2 A3 A4 A5 A6 A7 A8 A9 A10 A11 A12 A13].
  destruct A7 as (_ & HN & (r0 & Hr0 & Hn0) & _). rewrite Hd in Hr0. injection Hr0 as <-.
  constructor; try assumption.
  - destruct (A1 _ _ Hd) as (B1 & B2 & B3). apply I_ring_upd; assumption.
  - eapply I_head_len; [apply upd_length | exact A2].
  - eapply I_tail_len; [apply upd_length | | eapply I_tail_weaken; [exact A3 | discriminate]]. intros w E. exact E.
  - intros i x Hx. rewrite upd_length.
    apply nth_error_upd in Hx as [[-> ->] | [Hne Hx]]; cbn [rnext].
    + split; [right; reflexivity |]. split; [intros _; lia | discriminate].
    + destruct (A4 _ _ Hx) as (B1 & B2 & B3). split; [exact B1 |]. split; [exact B2 |].
      intros Hl En. destruct (B3 Hl En) as [w E]. injection E as _ E _. congruence.
  - eapply I_prev_upd; [exact A5 | exact Hd | reflexivity].
  - intros t i Et Hi. destruct (A6 _ _ Et Hi) as (x & Hx & Hax & Hnx).
    destruct (Nat.eq_dec i d) as [-> | Hne].
    + congruence.
    + exists x. rewrite nth_error_upd_other by exact Hne. split; [exact Hx |]. split; assumption.
  - exact I.
  - eapply I_pidle_upd; [exact A8 | | ]; cbn [rq ploc].
    + intros _. eapply A8; [exact Hd | discriminate].
    + intros i _ _. discriminate.
  - eapply I_thieves_rely; [| exact A9]. intros j. eapply rely_thief_upd; try exact Hd; cbn [rq rnext]; auto.
    + intros x E. congruence.
    + intros t E. exists t. split; [exact E | lia].
  - eapply I_tidle_prod_upd; [exact Hd | reflexivity | exact A10].
  - eapply I_log_same; [exact A11 |]. eapply absR_upd_same; [exact Hd | reflexivity].
Qed.

Ltac csp := cbn [cn0 rings chead ctail csize cprod cthieves clog ctrace set_rings set_head set_tail set_size
                 set_prod set_thieves set_thief c_log c_ret c_lp_ret T_of] in *.

Lemma ring_do_eq : forall s d l r, nth_error (rings s) d = Some r ->
  ring_do s d l = set_rings s (upd (rings s) d (on_q (fun q => step q l) r)).
Proof. intros s d l r H. unfold ring_do, ring_map. rewrite H. reflexivity. Qed.
Lemma set_next_eq : forall s d x r, nth_error (rings s) d = Some r ->
  set_next s d x = set_rings s (upd (rings s) d (mkring (rq r) x (rprev r))).
Proof. intros s d x r H. unfold set_next, ring_map. rewrite H. reflexivity. Qed.
Lemma set_prev_eq : forall s d x r, nth_error (rings s) d = Some r ->
  set_prev s d x = set_rings s (upd (rings s) d (mkring (rq r) (rnext r) x)).
Proof. intros s d x r H. unfold set_prev, ring_map. rewrite H. reflexivity. Qed.

Lemma head_last : forall R d, I_head R (Some d) -> S d = length R.
Proof. intros R d H. unfold I_head in H. destruct (length R); [discriminate | injection H as ->; reflexivity]. Qed.

Lemma last_ring_next : forall R pr d r, I_next R pr -> nth_error R d = Some r -> S d = length R -> rnext r = None.
Proof.
  intros R pr d r H Hd E. destruct (H _ _ Hd) as (_ & H2 & _).
  destruct (rnext r) eqn:En; [| reflexivity]. assert (S d < length R)%nat by (apply H2; discriminate). lia.
Qed.

Lemma rabsR_beyond : forall R i, (length R <= i)%nat -> rabsR R i = [].
Proof. intros R i H. unfold rabsR. apply nth_error_None in H. rewrite H. reflexivity. Qed.

Lemma rabsR_upd_other : forall R d x i, i <> d -> rabsR (upd R d x) i = rabsR R i.
Proof. intros R d x i H. unfold rabsR. rewrite nth_error_upd_other by exact H. reflexivity. Qed.

Lemma rabsR_upd_same : forall R d r x, nth_error R d = Some r -> rabsR (upd R d x) d = abs (rq x).
Proof. intros R d r x H. unfold rabsR. rewrite (nth_error_upd_same _ _ _ _ _ H). reflexivity. Qed.

Lemma fresh_ok_pph : forall v q, fresh_ok v q -> pph (prod q) = PhPush v.
Proof.
  intros v q H. unfold fresh_ok in H. destruct (prod q); try contradiction; cbn [pph].
  - destruct H as [-> _]. reflexivity.
  - destruct H as [-> _]. reflexivity.
  - subst. reflexivity.
  - subst. reflexivity.
Qed.

(* the producer enters d.pushHead(v), d = c.head *)
Lemma leaf_push_enter : forall n0 R hd tl pr ths lg tr v d r,
  CInvF n0 R hd tl pr ths lg tr -> pr = CPush0 v -> hd = Some d -> nth_error R d = Some r ->
  CInvF n0 (upd R d (on_q (fun q => step q (LPush v)) r)) hd tl (CPushIn v d) ths lg tr.
Proof.
  intros n0 R hd tl pr ths lg tr v d r H -> -> Hd.
  assert (Hidle : prod (rq r) = PIdle) by (eapply (ci_pidle _ _ _ _ _ _ _ _ H); [exact Hd | discriminate]).
  destruct (step_push_start (rq r) v Hidle) as (E1 & E2 & E3 & _).
  assert (HN := head_last _ _ (ci_head _ _ _ _ _ _ _ _ H)).
  eapply prod_ring_update; try exact H; try exact Hd; cbn [on_q rq rnext rprev]; try reflexivity; try discriminate.
  - exact E3.
  - apply step_core. exact (proj1 (ci_ring _ _ _ _ _ _ _ _ H _ _ Hd)).
  - apply sz_step.
  - intros Ha _. rewrite E2. exact Ha.
  - cbn [I_prod]. rewrite upd_length. split; [exact HN |]. eexists. split; [eapply nth_error_upd_same; exact Hd |].
    cbn [on_q rq]. rewrite E1. reflexivity.
  - cbn [ploc]. intros C. congruence.
  - auto.
  - eapply I_log_same; [exact (ci_log _ _ _ _ _ _ _ _ H) |]. eapply absR_upd_same; [exact Hd | exact E2].
  - exact (ci_trace _ _ _ _ _ _ _ _ H).
  - exact (ci_idx _ _ _ _ _ _ _ _ H).
Qed.

Lemma virgin_push_start : forall q v, prod q = PIdle -> virgin q -> fresh_ok v (step q (LPush v)).
Proof.
  intros q v Hi (H1 & H2 & H3 & H4). destruct (step_push_start q v Hi) as (E1 & E2 & E3 & E4 & E5 & E6 & E7).
  unfold fresh_ok. rewrite E1. split; [reflexivity |]. unfold virgin. rewrite E4, E5, E6, E7, E2, E3. auto.
Qed.

(* the producer enters d2.pushHead(v) of the ring it has just linked *)
Lemma leaf_push2_enter : forall n0 R hd tl pr ths lg tr v v' d r,
  CInvF n0 R hd tl pr ths lg tr -> pr = CPush0 v' -> S d = length R -> nth_error R d = Some r -> virgin (rq r) ->
  CInvF n0 (upd R d (on_q (fun q => step q (LPush v)) r)) hd tl (CPushIn2 v d) ths lg tr.
Proof.
  intros n0 R hd tl pr ths lg tr v v' d r H -> HN Hd Hv.
  assert (Hidle : prod (rq r) = PIdle) by (eapply (ci_pidle _ _ _ _ _ _ _ _ H); [exact Hd | discriminate]).
  destruct (step_push_start (rq r) v Hidle) as (E1 & E2 & E3 & _).
  eapply prod_ring_update; try exact H; try exact Hd; cbn [on_q rq rnext rprev]; try reflexivity; try discriminate.
  - exact E3.
  - apply step_core. exact (proj1 (ci_ring _ _ _ _ _ _ _ _ H _ _ Hd)).
  - apply sz_step.
  - intros Ha _. rewrite E2. exact Ha.
  - cbn [I_prod]. rewrite upd_length. split; [exact HN |]. eexists. split; [eapply nth_error_upd_same; exact Hd |].
    cbn [on_q rq]. apply virgin_push_start; assumption.
  - cbn [ploc]. intros C. congruence.
  - auto.
  - eapply I_log_same; [exact (ci_log _ _ _ _ _ _ _ _ H) |]. eapply absR_upd_same; [exact Hd | exact E2].
  - exact (ci_trace _ _ _ _ _ _ _ _ H).
  - exact (ci_idx _ _ _ _ _ _ _ _ H).
Qed.

(* one step inside pushHead of the head ring *)
Lemma leaf_push_step : forall n0 R hd tl pr ths lg tr v d r pr',
  CInvF n0 R hd tl pr ths lg tr -> ploc pr = Some d -> S d = length R -> nth_error R d = Some r ->
  pph (prod (rq r)) = PhPush v ->
  (forall v0, pr <> CPushInit v0 0) -> (forall v0 i, pr <> CPushLink v0 i (S i)) -> cpend_p pr = [] ->
  match push_outcome (rq r) with
  | None => ploc pr' = Some d /\ cpend_p pr' = [] /\
            I_prod (upd R d (on_q (fun q => step q LProd) r)) tl lg pr' ->
            CInvF n0 (upd R d (on_q (fun q => step q LProd) r)) hd tl pr' ths lg tr
  | Some true =>
      CInvF n0 (upd R d (on_q (fun q => step q LProd) r)) hd tl CIdle ths
            (lg ++ [(0%nat, EPush v true)]) (tr ++ [(0%nat, EPush v true, length lg)])
  | Some false =>
      CInvF n0 (upd R d (on_q (fun q => step q LProd) r)) hd tl CIdle ths lg tr
  end.
Proof.
  intros n0 R hd tl pr ths lg tr v d r pr' H Hl HN Hd Hph Hni Hnl Hc.
  assert (Hnx : rnext r = None) by (eapply last_ring_next; [exact (ci_next _ _ _ _ _ _ _ _ H) | exact Hd | exact HN]).
  assert (HS := push_step (rq r) v Hph).
  assert (HC' : Core (step (rq r) LProd)) by (apply step_core; exact (proj1 (ci_ring _ _ _ _ _ _ _ _ H _ _ Hd))).
  assert (Hth : thieves (step (rq r) LProd) = thieves (rq r)) by (apply step_thieves_same; discriminate).
  assert (Hsz : sz (step (rq r) LProd) = sz (rq r)) by apply sz_step.
  assert (Hab : abs (rq r) = [] -> rnext r <> None -> abs (step (rq r) LProd) = []) by (intros _ C; congruence).
  destruct (push_outcome (rq r)) as [[|] |].
  - destruct HS as [E1 E2].
    apply (prod_ring_update n0 R hd tl pr ths lg tr d r (on_q (fun q => step q LProd) r) CIdle
             (lg ++ [(0%nat, EPush v true)]) (tr ++ [(0%nat, EPush v true, length lg)]) H Hd
             eq_refl eq_refl Hth HC' Hsz Hab Hni Hnl).
    + exact I.
    + intros _. exact E1.
    + intros i Hne _. rewrite Hl. congruence.
    + intros k e Hk. apply nth_error_prefix. exact Hk.
    + eapply I_log_snoc; [exact (ci_log _ _ _ _ _ _ _ _ H) |].
      destruct (absR_upd _ _ _ Hd) as (a & b & Ea & Eb & Habove & _). rewrite Ea, Eb. cbn [on_q rq]. rewrite E2.
      rewrite Habove by (intros i Hi; apply rabsR_beyond; lia). cbn [app]. apply cs_push.
    + apply I_trace_lp_ret. exact (ci_trace _ _ _ _ _ _ _ _ H).
    + apply I_idx_lp_ret. eapply I_idx_prod_same; [| exact (ci_idx _ _ _ _ _ _ _ _ H)]. rewrite Hc. reflexivity.
  - destruct HS as [E1 E2].
    apply (prod_ring_update n0 R hd tl pr ths lg tr d r (on_q (fun q => step q LProd) r) CIdle lg tr H Hd
             eq_refl eq_refl Hth HC' Hsz Hab Hni Hnl).
    + exact I.
    + intros _. exact E1.
    + intros i Hne _. rewrite Hl. congruence.
    + auto.
    + eapply I_log_same; [exact (ci_log _ _ _ _ _ _ _ _ H) |]. eapply absR_upd_same; [exact Hd | exact E2].
    + exact (ci_trace _ _ _ _ _ _ _ _ H).
    + eapply I_idx_prod_same; [| exact (ci_idx _ _ _ _ _ _ _ _ H)]. rewrite Hc. reflexivity.
  - destruct HS as [E1 E2]. intros (Hl' & Hc' & HP).
    apply (prod_ring_update n0 R hd tl pr ths lg tr d r (on_q (fun q => step q LProd) r) pr' lg tr H Hd
             eq_refl eq_refl Hth HC' Hsz Hab Hni Hnl).
    + exact HP.
    + intros C. congruence.
    + intros i Hne _. rewrite Hl. congruence.
    + auto.
    + eapply I_log_same; [exact (ci_log _ _ _ _ _ _ _ _ H) |]. eapply absR_upd_same; [exact Hd | exact E2].
    + exact (ci_trace _ _ _ _ _ _ _ _ H).
    + eapply I_idx_prod_same; [| exact (ci_idx _ _ _ _ _ _ _ _ H)]. rewrite Hc, Hc'. reflexivity.
Qed.

(* the producer enters d.popHead() *)
Lemma leaf_pop_enter : forall n0 R hd tl pr ths lg tr d r,
  CInvF n0 R hd tl pr ths lg tr -> ploc pr = None -> cpend_p pr = [] ->
  (forall v0, pr <> CPushInit v0 0) -> (forall v0 i, pr <> CPushLink v0 i (S i)) ->
  nth_error R d = Some r -> (forall i, (d < i)%nat -> rabsR R i = []) ->
  CInvF n0 (upd R d (on_q (fun q => step q LPop) r)) hd tl (CPopIn d None) ths lg tr.
Proof.
  intros n0 R hd tl pr ths lg tr d r H Hl Hc Hni Hnl Hd Hab.
  assert (Hidle : prod (rq r) = PIdle) by (eapply (ci_pidle _ _ _ _ _ _ _ _ H); [exact Hd | rewrite Hl; discriminate]).
  destruct (step_pop_start (rq r) Hidle) as (E1 & E2 & E3).
  assert (HC' : Core (step (rq r) LPop)) by (apply step_core; exact (proj1 (ci_ring _ _ _ _ _ _ _ _ H _ _ Hd))).
  apply (prod_ring_update n0 R hd tl pr ths lg tr d r (on_q (fun q => step q LPop) r) (CPopIn d None) lg tr H Hd
           eq_refl eq_refl E3 HC' (sz_step _ _)); try assumption.
  - intros Ha _. cbn [on_q rq]. rewrite E2. exact Ha.
  - cbn [I_prod]. split.
    + eexists. split; [eapply nth_error_upd_same; exact Hd |]. cbn [on_q rq]. rewrite E1. reflexivity.
    + intros i Hi. rewrite rabsR_upd_other by lia. apply Hab. exact Hi.
  - cbn [ploc]. intros C. congruence.
  - intros i _ _. rewrite Hl. discriminate.
  - auto.
  - eapply I_log_same; [exact (ci_log _ _ _ _ _ _ _ _ H) |]. eapply absR_upd_same; [exact Hd | exact E2].
  - exact (ci_trace _ _ _ _ _ _ _ _ H).
  - eapply I_idx_prod_same; [| exact (ci_idx _ _ _ _ _ _ _ _ H)]. rewrite Hc. reflexivity.
Qed.

(* one step inside d.popHead() before its CAS *)
Lemma leaf_pop_search : forall n0 R hd tl ths lg tr d r,
  CInvF n0 R hd tl (CPopIn d None) ths lg tr -> nth_error R d = Some r ->
  let R' := upd R d (on_q (fun q => step q LProd) r) in
  match pop_outcome (rq r), head_lp (rq r) (step (rq r) LProd) with
  | Some Empty, None => CInvF n0 R' hd tl (CPopPrev d) ths lg tr
  | None, None => CInvF n0 R' hd tl (CPopIn d None) ths lg tr
  | None, Some x => CInvF n0 R' hd tl (CPopIn d (Some (length lg))) ths
                          (lg ++ [(0%nat, EPopHead (Got (Some x)))]) tr
  | _, _ => False
  end.
Proof.
  intros n0 R hd tl ths lg tr d r H Hd R'.
  destruct (ci_prod _ _ _ _ _ _ _ _ H) as [(r0 & Hr0 & Hph) Habove]. rewrite Hd in Hr0. injection Hr0 as <-.
  assert (HC : Core (rq r)) by exact (proj1 (ci_ring _ _ _ _ _ _ _ _ H _ _ Hd)).
  assert (HC' : Core (step (rq r) LProd)) by (apply step_core; exact HC).
  assert (Hth : thieves (step (rq r) LProd) = thieves (rq r)) by (apply step_thieves_same; discriminate).
  assert (HS := search_step (rq r) HC Hph).
  assert (Hni : forall v0, CPopIn d None <> CPushInit v0 0) by discriminate.
  assert (Hnl : forall v0 i, CPopIn d None <> CPushLink v0 i (S i)) by discriminate.
  destruct (pop_outcome (rq r)) as [[| val] |].
  - destruct HS as (E1 & E2 & E3 & E4). rewrite E4.
    apply (prod_ring_update n0 R hd tl (CPopIn d None) ths lg tr d r (on_q (fun q => step q LProd) r) (CPopPrev d) lg tr H Hd
             eq_refl eq_refl Hth HC' (sz_step _ _)); try assumption.
    + intros _ _. exact E3.
    + cbn [I_prod]. rewrite upd_length. split; [apply nth_error_Some; congruence |].
      intros i Hi. destruct (Nat.eq_dec i d) as [-> | Hne].
      * rewrite (rabsR_upd_same _ _ _ _ Hd). exact E3.
      * rewrite rabsR_upd_other by exact Hne. apply Habove. lia.
    + intros _. exact E1.
    + intros i Hne _. cbn [ploc]. congruence.
    + auto.
    + eapply I_log_same; [exact (ci_log _ _ _ _ _ _ _ _ H) |]. eapply absR_upd_same; [exact Hd |]. cbn [on_q rq]. congruence.
    + exact (ci_trace _ _ _ _ _ _ _ _ H).
    + exact (ci_idx _ _ _ _ _ _ _ _ H).
  - contradiction.
  - destruct HS as [(E1 & E2 & E3) | (x & E1 & E2 & E3)]; rewrite E3.
    + apply (prod_ring_update n0 R hd tl (CPopIn d None) ths lg tr d r (on_q (fun q => step q LProd) r) (CPopIn d None) lg tr H Hd
               eq_refl eq_refl Hth HC' (sz_step _ _)); try assumption.
      * intros Ha _. cbn [on_q rq]. rewrite E2. exact Ha.
      * cbn [I_prod]. split.
        -- eexists. split; [eapply nth_error_upd_same; exact Hd | exact E1].
        -- intros i Hi. rewrite rabsR_upd_other by lia. apply Habove. exact Hi.
      * cbn [ploc]. intros C. congruence.
      * intros i Hne _. cbn [ploc]. congruence.
      * auto.
      * eapply I_log_same; [exact (ci_log _ _ _ _ _ _ _ _ H) |]. eapply absR_upd_same; [exact Hd | exact E2].
      * exact (ci_trace _ _ _ _ _ _ _ _ H).
      * exact (ci_idx _ _ _ _ _ _ _ _ H).
    + apply (prod_ring_update n0 R hd tl (CPopIn d None) ths lg tr d r (on_q (fun q => step q LProd) r)
               (CPopIn d (Some (length lg))) (lg ++ [(0%nat, EPopHead (Got (Some x)))]) tr H Hd
               eq_refl eq_refl Hth HC' (sz_step _ _)); try assumption.
      * intros Ha _. rewrite E2 in Ha. discriminate.
      * cbn [I_prod]. eexists. exists x. split; [eapply nth_error_upd_same; exact Hd |]. split; [exact E1 |].
        apply nth_error_snoc_new.
      * cbn [ploc]. intros C. congruence.
      * intros i Hne _. cbn [ploc]. congruence.
      * intros k e Hk. apply nth_error_prefix. exact Hk.
      * eapply I_log_snoc; [exact (ci_log _ _ _ _ _ _ _ _ H) |].
        destruct (absR_upd _ _ _ Hd) as (a & b & Ea & Eb & Hab & _). rewrite Ea, Eb. cbn [on_q rq]. rewrite E2.
        rewrite (Hab Habove). cbn [app]. apply cs_pophead.
      * apply I_trace_log. exact (ci_trace _ _ _ _ _ _ _ _ H).
      * eapply I_idx_prod_log; [| | exact (ci_idx _ _ _ _ _ _ _ _ H)]; reflexivity.
Qed.

(* one step inside d.popHead() after its CAS *)
Lemma leaf_pop_hold : forall n0 R hd tl ths lg tr d k r,
  CInvF n0 R hd tl (CPopIn d (Some k)) ths lg tr -> nth_error R d = Some r ->
  let R' := upd R d (on_q (fun q => step q LProd) r) in
  match pop_outcome (rq r) with
  | None => CInvF n0 R' hd tl (CPopIn d (Some k)) ths lg tr
  | Some (Got val) => CInvF n0 R' hd tl (CPopDec val k) ths lg tr
  | Some Empty => False
  end.
Proof.
  intros n0 R hd tl ths lg tr d k r H Hd R'.
  destruct (ci_prod _ _ _ _ _ _ _ _ H) as (r0 & x & Hr0 & Hph & Hk). rewrite Hd in Hr0. injection Hr0 as <-.
  assert (HC : Core (rq r)) by exact (proj1 (ci_ring _ _ _ _ _ _ _ _ H _ _ Hd)).
  assert (HC' : Core (step (rq r) LProd)) by (apply step_core; exact HC).
  assert (Hth : thieves (step (rq r) LProd) = thieves (rq r)) by (apply step_thieves_same; discriminate).
  destruct (hold_step (rq r) x HC Hph) as [Ea HS].
  assert (Hni : forall v0, CPopIn d (Some k) <> CPushInit v0 0) by discriminate.
  assert (Hnl : forall v0 i, CPopIn d (Some k) <> CPushLink v0 i (S i)) by discriminate.
  assert (Hab : abs (rq r) = [] -> rnext r <> None -> abs (rq (on_q (fun q => step q LProd) r)) = [])
    by (intros Ha _; cbn [on_q rq]; rewrite Ea; exact Ha).
  assert (HL : I_log R' lg).
  { eapply I_log_same; [exact (ci_log _ _ _ _ _ _ _ _ H) |]. eapply absR_upd_same; [exact Hd | exact Ea]. }
  destruct (pop_outcome (rq r)) as [[| val] |].
  - contradiction.
  - destruct HS as [-> E1].
    apply (prod_ring_update n0 R hd tl (CPopIn d (Some k)) ths lg tr d r (on_q (fun q => step q LProd) r) (CPopDec (Some x) k) lg tr H Hd
             eq_refl eq_refl Hth HC' (sz_step _ _)); try assumption.
    + cbn [I_prod]. exists x. split; [reflexivity | exact Hk].
    + intros _. exact E1.
    + intros i Hne _. cbn [ploc]. congruence.
    + auto.
    + exact (ci_trace _ _ _ _ _ _ _ _ H).
    + exact (ci_idx _ _ _ _ _ _ _ _ H).
  - apply (prod_ring_update n0 R hd tl (CPopIn d (Some k)) ths lg tr d r (on_q (fun q => step q LProd) r) (CPopIn d (Some k)) lg tr H Hd
             eq_refl eq_refl Hth HC' (sz_step _ _)); try assumption.
    + cbn [I_prod]. eexists. exists x. split; [eapply nth_error_upd_same; exact Hd |]. split; [exact HS | exact Hk].
    + cbn [ploc]. intros C. congruence.
    + intros i Hne _. cbn [ploc]. congruence.
    + auto.
    + exact (ci_trace _ _ _ _ _ _ _ _ H).
    + exact (ci_idx _ _ _ _ _ _ _ _ H).
Qed.

(* the whole chain is empty when the producer loads d.prev = nil *)
Lemma chain_empty_at_prev_nil : forall n0 R hd tl ths lg tr d r,
  CInvF n0 R hd tl (CPopPrev d) ths lg tr -> nth_error R d = Some r -> rprev r = None -> absR R = [].
Proof.
  intros n0 R hd tl ths lg tr d r H Hd Hp. apply absR_nil_all. intros i.
  destruct (ci_prod _ _ _ _ _ _ _ _ H) as [_ Hab].
  destruct (Nat.le_gt_cases d i) as [Hge | Hlt]; [apply Hab; exact Hge |].
  destruct (ci_prev _ _ _ _ _ _ _ _ H _ _ Hd) as [_ H2].
  destruct (H2 Hp) as [-> | (t & Et & Hle)]; [lia |].
  destruct (ci_dead _ _ _ _ _ _ _ _ H t i Et ltac:(lia)) as (x & Hx & Hax & _).
  rewrite (rabsR_nth _ _ _ Hx). exact Hax.
Qed.

Lemma cinv_prod_step : forall s, CInv s -> CInv (cprod_step s).
Proof.
  intros s H. unfold CInv in *. unfold cprod_step.
  destruct s as [n0 R hd tl sz pr ths lg tr]. csp.
  destruct pr as [| v | v d | v d | v d d2 | v d | v | d ko | d | val k]; csp.
  - exact H.
  - (* CPush0 *)
    destruct hd as [d |].
    + assert (HN := head_last _ _ (ci_head _ _ _ _ _ _ _ _ H)).
      destruct (nth_error R d) as [r |] eqn:Hd; [| apply nth_error_None in Hd; lia].
      erewrite ring_do_eq by (csp; exact Hd). csp.
      eapply leaf_push_enter; [exact H | reflexivity | reflexivity | exact Hd].
    + assert (HR : length R = 0%nat).
      { assert (E := ci_head _ _ _ _ _ _ _ _ H). unfold I_head in E. destruct (length R); [reflexivity | discriminate]. }
      apply (prod_append n0 R None tl (CPush0 v) ths lg tr (CPushInit v (length R)) n0 None H); try discriminate;
        try reflexivity.
      * exact (ci_n0 _ _ _ _ _ _ _ _ H).
      * rewrite HR. reflexivity.
      * intros _. exists v. rewrite HR. reflexivity.
      * intros m E. lia.
      * cbn [I_prod]. rewrite app_length, HR. cbn [length].
        assert (Htl : tl = None).
        { assert (E := ci_tail _ _ _ _ _ _ _ _ H). unfold I_tail in E. destruct tl as [t |]; [lia | reflexivity]. }
        destruct R; [| discriminate HR]. cbn [app nth_error].
        repeat split; try reflexivity; try exact Htl. eexists. split; [reflexivity |]. apply virgin_init.
  - (* CPushInit *)
    destruct (ci_prod _ _ _ _ _ _ _ _ H) as (-> & HN & -> & _).
    destruct (prod_set_tail_init n0 R hd (CPushInit v 0) ths lg tr v v H eq_refl) as (H' & (r & Hr & Hv) & ->).
    unfold ring_do, ring_map. csp. rewrite Hr. csp.
    eapply leaf_push_enter; [exact H' | reflexivity | reflexivity | exact Hr].
  - (* CPushIn *)
    destruct (ci_prod _ _ _ _ _ _ _ _ H) as (HN & r & Hr & Hph). rewrite Hr.
    erewrite ring_do_eq by (csp; exact Hr). csp.
    assert (HL := leaf_push_step n0 R hd tl (CPushIn v d) ths lg tr v d r (CPushIn v d) H eq_refl HN Hr Hph
                    ltac:(discriminate) ltac:(discriminate) eq_refl).
    assert (HS := push_step (rq r) v Hph).
    destruct (push_outcome (rq r)) as [[|] |]; csp.
    + exact HL.
    + rewrite upd_length.
      assert (Hhd : hd = Some d).
      { assert (E := ci_head _ _ _ _ _ _ _ _ H). unfold I_head in E. rewrite <- HN in E. exact E. }
      assert (Hnx : rnext r = None) by (eapply last_ring_next; [exact (ci_next _ _ _ _ _ _ _ _ H) | exact Hr | exact HN]).
      set (R1 := upd R d (on_q (fun q => step q LProd) r)) in *.
      assert (HN1 : length R1 = S d) by (unfold R1; rewrite upd_length; lia).
      assert (Hd1 : nth_error R1 d = Some (on_q (fun q => step q LProd) r)) by (unfold R1; eapply nth_error_upd_same; exact Hr).
      replace (length R) with (length R1) by (rewrite HN1; exact HN).
      apply (prod_append n0 R1 hd tl CIdle ths lg tr (CPushLink v d (length R1)) (grow (Dequeue.sz (rq r))) (Some d) HL);
        try discriminate; try reflexivity.
      * apply grow_pow2. exact (proj2 (proj2 (ci_ring _ _ _ _ _ _ _ _ H _ _ Hr))).
      * rewrite HN1. reflexivity.
      * rewrite HN1. discriminate.
      * intros m E. rewrite HN1 in E. injection E as <-. exists v. rewrite HN1. reflexivity.
      * cbn [I_prod]. rewrite app_length, HN1. cbn [length]. split; [reflexivity |]. split; [lia |]. split.
        -- eexists. split; [rewrite nth_error_app1 by lia; exact Hd1 | exact Hnx].
        -- eexists. split; [rewrite nth_error_app2 by lia; rewrite HN1, Nat.sub_diag; reflexivity |].
           apply virgin_init.
    + apply HL. cbn [ploc cpend_p I_prod]. split; [reflexivity |]. split; [reflexivity |].
      rewrite upd_length. split; [exact HN |]. eexists. split; [eapply nth_error_upd_same; exact Hr |].
      exact (proj1 HS).
  - (* CPushLink *)
    destruct (ci_prod _ _ _ _ _ _ _ _ H) as (-> & HN & (r & Hr & Hnx) & (r2 & Hr2 & Hv)).
    erewrite set_next_eq by (csp; exact Hr). csp.
    assert (H1 := prod_set_next n0 R hd tl ths lg tr v v d r H Hr).
    set (R1 := upd R d (mkring (rq r) (Some (S d)) (rprev r))) in *.
    assert (Hr2' : nth_error R1 (S d) = Some r2) by (unfold R1; rewrite nth_error_upd_other by lia; exact Hr2).
    erewrite ring_do_eq by (csp; exact Hr2'). csp.
    eapply leaf_push2_enter; [exact H1 | reflexivity | unfold R1; rewrite upd_length; exact HN | exact Hr2' | exact Hv].
  - (* CPushIn2 *)
    destruct (ci_prod _ _ _ _ _ _ _ _ H) as (HN & r & Hr & Hf). rewrite Hr.
    erewrite ring_do_eq by (csp; exact Hr). csp.
    assert (Hph := fresh_ok_pph _ _ Hf).
    assert (HC : Core (rq r)) by exact (proj1 (ci_ring _ _ _ _ _ _ _ _ H _ _ Hr)).
    destruct (fresh_push_step (rq r) v HC Hf) as [Hnf Hnone].
    assert (HL := leaf_push_step n0 R hd tl (CPushIn2 v d) ths lg tr v d r (CPushIn2 v d) H eq_refl HN Hr Hph
                    ltac:(discriminate) ltac:(discriminate) eq_refl).
    destruct (push_outcome (rq r)) as [[|] |]; csp.
    + exact HL.
    + exfalso. apply Hnf. reflexivity.
    + apply HL. cbn [ploc cpend_p I_prod]. split; [reflexivity |]. split; [reflexivity |].
      rewrite upd_length. split; [exact HN |]. eexists. split; [eapply nth_error_upd_same; exact Hr |].
      apply Hnone. reflexivity.
  - (* CLost *) exact H.
  - (* CPopIn *)
    destruct ko as [k |].
    + destruct (ci_prod _ _ _ _ _ _ _ _ H) as (r & x & Hr & _). rewrite Hr.
      erewrite ring_do_eq by (csp; exact Hr). csp.
      assert (HL := leaf_pop_hold n0 R hd tl ths lg tr d k r H Hr). cbv zeta in HL.
      destruct (pop_outcome (rq r)) as [[| val] |]; csp; [contradiction | exact HL | exact HL].
    + destruct (ci_prod _ _ _ _ _ _ _ _ H) as [(r & Hr & _) _]. rewrite Hr.
      erewrite ring_do_eq by (csp; exact Hr). csp.
      assert (HL := leaf_pop_search n0 R hd tl ths lg tr d r H Hr). cbv zeta in HL.
      destruct (pop_outcome (rq r)) as [[| val] |]; destruct (head_lp (rq r) (step (rq r) LProd)) as [x |]; csp;
        try contradiction; exact HL.
  - (* CPopPrev *)
    destruct (ci_prod _ _ _ _ _ _ _ _ H) as [Hlt Hab].
    destruct (nth_error R d) as [r |] eqn:Hr; [| apply nth_error_None in Hr; lia].
    destruct (rprev r) as [d' |] eqn:Hp; csp.
    + destruct (ci_prev _ _ _ _ _ _ _ _ H _ _ Hr) as [[C | (i' & -> & E)] _]; [congruence |].
      rewrite Hp in E. injection E as ->.
      destruct (nth_error R i') as [r' |] eqn:Hr'; [| apply nth_error_None in Hr'; lia].
      erewrite ring_do_eq by (csp; exact Hr'). csp.
      eapply leaf_pop_enter; try exact H; try reflexivity; try discriminate; [exact Hr' |].
      intros i Hi. apply Hab. lia.
    + assert (HE := chain_empty_at_prev_nil _ _ _ _ _ _ _ _ _ H Hr Hp).
      apply (prod_pc_update n0 R hd tl (CPopPrev d) ths lg tr CIdle (lg ++ [(0%nat, EPopHead Empty)])
               (tr ++ [(0%nat, EPopHead Empty, length lg)]) H); try discriminate.
      * exact I.
      * intros k e Hk. apply nth_error_prefix. exact Hk.
      * eapply I_log_snoc; [exact (ci_log _ _ _ _ _ _ _ _ H) |]. rewrite HE. apply cs_pophead_empty.
      * apply I_trace_lp_ret. exact (ci_trace _ _ _ _ _ _ _ _ H).
      * apply I_idx_lp_ret. exact (ci_idx _ _ _ _ _ _ _ _ H).
  - (* CPopDec *)
    destruct (ci_prod _ _ _ _ _ _ _ _ H) as (x & -> & Hk).
    apply (prod_pc_update n0 R hd tl (CPopDec (Some x) k) ths lg tr CIdle lg
             (tr ++ [(0%nat, EPopHead (Got (Some x)), k)]) H); try discriminate.
    + exact I.
    + auto.
    + exact (ci_log _ _ _ _ _ _ _ _ H).
    + apply I_trace_ret; [exact (ci_trace _ _ _ _ _ _ _ _ H) | exact Hk].
    + eapply I_idx_prod_ret; [| | exact (ci_idx _ _ _ _ _ _ _ _ H)]; reflexivity.
Qed.

(* ------------------------------------------------------------------ *)
(* steps of a thief                                                    *)
(* ------------------------------------------------------------------ *)
Lemma I_ring_ths : forall R (ths : list ckstate) j k, I_ring R (length ths) -> I_ring R (length (upd ths j k)).
Proof. intros. rewrite upd_length. assumption. Qed.

(* thief j changes its control state, possibly c.tail, the log and the trace; the rings are untouched *)
Lemma thief_pc_update : forall n0 R hd tl pr ths lg tr j k k' tl' lg' tr',
  CInvF n0 R hd tl pr ths lg tr -> nth_error ths j = Some k ->
  (forall t, tl = Some t -> exists t', tl' = Some t' /\ (t <= t')%nat) -> (tl = None -> tl' = None) ->
  I_tail R tl' pr -> I_dead R tl' ->
  I_thief R tl' lg' j k' ->
  (forall i, tloc k' <> Some i -> tloc k <> Some i) ->
  (forall kk e, nth_error lg kk = Some e -> nth_error lg' kk = Some e) ->
  I_log R lg' -> I_trace lg' tr' -> I_idx pr (upd ths j k') lg' tr' ->
  CInvF n0 R hd tl' pr (upd ths j k') lg' tr'.
Proof.
  intros n0 R hd tl pr ths lg tr j k k' tl' lg' tr' H Hj Hmono Hnone HT HD Hk' Hloc Hlg HL HTr HI.
  destruct H as [A0 A1 A2 A3 A4 A5 A6 A7 A8 A9 A10 A11 A12 A13].
  constructor; try assumption.
  - apply I_ring_ths. exact A1.
  - eapply I_prev_tail; eassumption.
  - eapply I_prod_rely; [| exact A7]. apply rely_prod_same; assumption.
  - eapply I_thieves_upd; [| exact A9 | exact Hk']. intros j' _. apply rely_thief_same; assumption.
  - intros i r j0 k0 Hr Hk0 Hl. apply nth_error_upd in Hk0 as [[-> ->] | [Hne Hk0]].
    + eapply A10; [exact Hr | exact Hj | apply Hloc; exact Hl].
    + eapply A10; eassumption.
Qed.

(* popTail answers (nil,false): no effect on anything but the log and the trace *)
Lemma cinv_weak_empty : forall n0 R hd tl pr ths lg tr t,
  CInvF n0 R hd tl pr ths lg tr ->
  CInvF n0 R hd tl pr ths (lg ++ [(t, EPopTail Empty)]) (tr ++ [(t, EPopTail Empty, length lg)]).
Proof.
  intros n0 R hd tl pr ths lg tr t H. destruct H as [A0 A1 A2 A3 A4 A5 A6 A7 A8 A9 A10 A11 A12 A13].
  assert (Hlg : forall kk e, nth_error lg kk = Some e -> nth_error (lg ++ [(t, EPopTail Empty)]) kk = Some e)
    by (intros kk e Hk; apply nth_error_prefix; exact Hk).
  constructor; try assumption.
  - eapply I_prod_rely; [| exact A7]. apply rely_prod_same; auto.
  - eapply I_thieves_rely; [| exact A9]. intros j. apply rely_thief_same; [| exact Hlg].
    intros t0 E. exists t0. split; [exact E | lia].
  - eapply I_log_snoc; [exact A11 |]. apply cs_poptail_fail.
  - apply I_trace_lp_ret. exact A12.
  - apply I_idx_lp_ret. exact A13.
Qed.

(* thief j takes one step inside d.popTail() *)
Lemma thief_ring_update : forall n0 R hd tl pr ths lg tr j k k' d r lg' tr',
  CInvF n0 R hd tl pr ths lg tr -> nth_error ths j = Some k -> tloc k = Some d -> nth_error R d = Some r ->
  let r' := on_q (fun q => step q (LThief j)) r in
  I_thief (upd R d r') tl lg' j k' ->
  (tloc k' <> Some d -> nth_error (thieves (rq r')) j = Some T1) ->
  (forall kk e, nth_error lg kk = Some e -> nth_error lg' kk = Some e) ->
  I_log (upd R d r') lg' -> I_trace lg' tr' -> I_idx pr (upd ths j k') lg' tr' ->
  CInvF n0 (upd R d r') hd tl pr (upd ths j k') lg' tr'.
Proof.
  intros n0 R hd tl pr ths lg tr j k k' d r lg' tr' H Hj Hloc Hd r' Hk' Hidle Hlg HL HTr HI.
  destruct H as [A0 A1 A2 A3 A4 A5 A6 A7 A8 A9 A10 A11 A12 A13].
  assert (Hrel : rely_prod R tl lg (upd R d r') tl lg') by (apply rely_prod_thief_step; assumption).
  constructor; try assumption.
  - apply I_ring_ths. apply I_ring_step; assumption.
  - eapply I_head_len; [apply upd_length | exact A2].
  - eapply I_tail_len; [apply upd_length | | exact A3]. auto.
  - eapply I_next_rely; eassumption.
  - eapply I_prev_upd; [exact A5 | exact Hd | reflexivity].
  - eapply I_dead_upd; [exact A6 | exact Hd | reflexivity |]. intros Ha _. unfold r'. cbn [on_q rq]. apply step_thief_abs_nil. exact Ha.
  - eapply I_prod_rely; eassumption.
  - eapply I_pidle_rely; eassumption.
  - eapply I_thieves_upd; [| exact A9 | exact Hk']. intros j' Hne.
    eapply rely_thief_upd; try exact Hd; auto.
    + unfold r'. cbn [on_q rq]. apply step_thief_others. exact Hne.
    + intros Ha _. unfold r'. cbn [on_q rq]. apply step_thief_abs_nil. exact Ha.
    + intros t E. exists t. split; [exact E | lia].
  - eapply I_tidle_upd; [exact A10 | |].
    + intros j0 k0 Hk0 Hl. apply nth_error_upd in Hk0 as [[-> ->] | [Hne Hk0]]; [apply Hidle; exact Hl |].
      unfold r'. cbn [on_q rq]. rewrite step_thief_others by exact Hne. eapply A10; eassumption.
    + intros i j0 k0 Hne Hk0 Hl. apply nth_error_upd in Hk0 as [[-> ->] | [Hnj Hk0]].
      * exists k. split; [exact Hj | rewrite Hloc; congruence].
      * exists k0. split; assumption.
Qed.

(* storePoolChainElt(&d2.prev, nil) *)
Lemma thief_set_prev : forall n0 R hd tl pr ths lg tr j d2 r,
  CInvF n0 R hd tl pr ths lg tr -> nth_error ths j = Some (KPrev d2) -> nth_error R d2 = Some r ->
  CInvF n0 (upd R d2 (mkring (rq r) (rnext r) None)) hd tl pr (upd ths j (KNext d2)) lg tr.
Proof.
  intros n0 R hd tl pr ths lg tr j d2 r H Hj Hd.
  destruct H as [A0 A1 A2 A3 A4 A5 A6 A7 A8 A9 A10 A11 A12 A13].
  assert (Hk := A9 _ _ Hj). cbn [I_thief] in Hk. destruct Hk as (Hlt & Hdead & t & Et & Hle).
  set (r' := mkring (rq r) (rnext r) None).
  assert (Hrel : rely_prod R tl lg (upd R d2 r') tl lg) by (eapply rely_prod_upd; try exact Hd; auto).
  assert (Hrt : forall j', rely_thief j' R tl lg (upd R d2 r') tl lg).
  { intros j'. eapply rely_thief_upd; try exact Hd; auto. intros t0 E. exists t0. split; [exact E | lia]. }
  constructor; try assumption.
  - apply I_ring_ths. destruct (A1 _ _ Hd) as (B1 & B2 & B3). apply I_ring_upd; assumption.
  - eapply I_head_len; [apply upd_length | exact A2].
  - eapply I_tail_len; [apply upd_length | | exact A3]. auto.
  - eapply I_next_rely; eassumption.
  - intros i x Hx. apply nth_error_upd in Hx as [[-> ->] | [Hne Hx]]; [| exact (A5 _ _ Hx)].
    cbn [rprev]. split; [left; reflexivity |]. intros _. right. exists t. split; [exact Et | exact Hle].
  - eapply I_dead_upd; [exact A6 | exact Hd | reflexivity | auto].
  - eapply I_prod_rely; eassumption.
  - eapply I_pidle_rely; eassumption.
  - eapply I_thieves_upd; [intros j' _; apply Hrt | exact A9 |]. cbn [I_thief]. rewrite upd_length.
    split; [exact Hlt |]. intros i Hi. apply (rt_dead _ _ _ _ _ _ _ (Hrt j)). apply Hdead. exact Hi.
  - intros i x j0 k0 Hx Hk0 Hl.
    assert (Hy : exists y, nth_error R i = Some y /\ thieves (rq x) = thieves (rq y)).
    { apply nth_error_upd in Hx as [[-> ->] | [Hne Hx]]; [exists r | exists x]; auto. }
    destruct Hy as (y & Hy & E). rewrite E.
    apply nth_error_upd in Hk0 as [[-> ->] | [Hnj Hk0]].
    + eapply A10; [exact Hy | exact Hj | discriminate].
    + eapply A10; eassumption.
  - eapply I_log_same; [exact A11 |]. eapply absR_upd_same; [exact Hd | reflexivity].
  - eapply I_idx_thief_same; [exact Hj | reflexivity | exact A13].
Qed.

Lemma dead_next_lt : forall R pr d, I_next R pr -> deadR R d -> (S d < length R)%nat.
Proof. intros R pr d H (r & Hr & _ & Hn). destruct (H _ _ Hr) as (_ & H2 & _). apply H2. exact Hn. Qed.

Lemma deadR_upd_thief : forall R d r j i, nth_error R d = Some r -> deadR R i ->
  deadR (upd R d (on_q (fun q => step q (LThief j)) r)) i.
Proof.
  intros R d r j i Hd H. eapply deadR_upd; [exact Hd | reflexivity | | exact H].
  intros Ha _. cbn [on_q rq]. apply step_thief_abs_nil. exact Ha.
Qed.

(* one step inside d.popTail() before its CAS *)
Lemma leaf_thief_search : forall n0 R hd tl pr ths lg tr j d d2 r,
  CInvF n0 R hd tl pr ths lg tr -> nth_error ths j = Some (KIn d d2 None) -> nth_error R d = Some r ->
  let R' := upd R d (on_q (fun q => step q (LThief j)) r) in
  match thief_outcome (rq r) j, tail_lp (rq r) (step (rq r) (LThief j)) with
  | Some Empty, None =>
      match d2 with
      | None => CInvF n0 R' hd tl pr (upd ths j K0) (lg ++ [(S j, EPopTail Empty)])
                      (tr ++ [(S j, EPopTail Empty, length lg)])
      | Some e => CInvF n0 R' hd tl pr (upd ths j (KCas d e)) lg tr
      end
  | None, None => CInvF n0 R' hd tl pr (upd ths j (KIn d d2 None)) lg tr
  | None, Some x => CInvF n0 R' hd tl pr (upd ths j (KIn d d2 (Some (length lg))))
                          (lg ++ [(S j, EPopTail (Got (Some x)))]) tr
  | _, _ => False
  end.
Proof.
  intros n0 R hd tl pr ths lg tr j d d2 r H Hj Hd R'.
  assert (Hk := ci_thieves _ _ _ _ _ _ _ _ H _ _ Hj). cbn [I_thief] in Hk.
  destruct Hk as (Hdead & r0 & Hr0 & Hd2 & ts & Hts & Hph). rewrite Hd in Hr0. injection Hr0 as <-.
  assert (HC : Core (rq r)) by exact (proj1 (ci_ring _ _ _ _ _ _ _ _ H _ _ Hd)).
  assert (HS := tsearch_step (rq r) j ts HC Hts Hph).
  assert (Hd' : nth_error R' d = Some (on_q (fun q => step q (LThief j)) r)) by (eapply nth_error_upd_same; exact Hd).
  assert (Hdead' : forall i, (i < d)%nat -> deadR R' i) by (intros i Hi; apply deadR_upd_thief; [exact Hd | apply Hdead; exact Hi]).
  destruct (thief_outcome (rq r) j) as [[| val] |].
  - destruct HS as (E1 & E2 & E3 & E4). rewrite E4. destruct d2 as [e |].
    + apply (thief_ring_update n0 R hd tl pr ths lg tr j _ (KCas d e) d r lg tr H Hj eq_refl Hd).
      * cbn [I_thief]. destruct Hd2 as [C | [E5 E6]]; [discriminate |]. injection E5 as ->. split; [reflexivity |].
        intros i Hi. assert (i < d \/ i = d)%nat as [Hlt | ->] by lia; [apply Hdead'; exact Hlt |].
        eexists. split; [exact Hd' |]. cbn [on_q rq rnext]. split; [exact E3 | congruence].
      * intros _. exact E1.
      * auto.
      * eapply I_log_same; [exact (ci_log _ _ _ _ _ _ _ _ H) |]. eapply absR_upd_same; [exact Hd |]. cbn [on_q rq]. congruence.
      * exact (ci_trace _ _ _ _ _ _ _ _ H).
      * eapply I_idx_thief_same; [exact Hj | reflexivity | exact (ci_idx _ _ _ _ _ _ _ _ H)].
    + apply cinv_weak_empty.
      apply (thief_ring_update n0 R hd tl pr ths lg tr j _ K0 d r lg tr H Hj eq_refl Hd).
      * exact I.
      * intros _. exact E1.
      * auto.
      * eapply I_log_same; [exact (ci_log _ _ _ _ _ _ _ _ H) |]. eapply absR_upd_same; [exact Hd |]. cbn [on_q rq]. congruence.
      * exact (ci_trace _ _ _ _ _ _ _ _ H).
      * eapply I_idx_thief_same; [exact Hj | reflexivity | exact (ci_idx _ _ _ _ _ _ _ _ H)].
  - contradiction.
  - destruct HS as [(s' & E1 & E2 & E3 & E4) | (x & s' & E1 & E2 & E3 & E4)]; rewrite E4.
    + apply (thief_ring_update n0 R hd tl pr ths lg tr j _ (KIn d d2 None) d r lg tr H Hj eq_refl Hd).
      * cbn [I_thief]. split; [exact Hdead' |]. eexists. split; [exact Hd' |]. cbn [on_q rq rnext].
        split; [exact Hd2 |]. exists s'. split; [exact E1 | exact E2].
      * cbn [tloc]. intros C. congruence.
      * auto.
      * eapply I_log_same; [exact (ci_log _ _ _ _ _ _ _ _ H) |]. eapply absR_upd_same; [exact Hd | exact E3].
      * exact (ci_trace _ _ _ _ _ _ _ _ H).
      * eapply I_idx_thief_same; [exact Hj | reflexivity | exact (ci_idx _ _ _ _ _ _ _ _ H)].
    + apply (thief_ring_update n0 R hd tl pr ths lg tr j _ (KIn d d2 (Some (length lg))) d r
               (lg ++ [(S j, EPopTail (Got (Some x)))]) tr H Hj eq_refl Hd).
      * cbn [I_thief]. split; [exact Hdead' |]. eexists. split; [exact Hd' |]. cbn [on_q rq rnext].
        split; [exact Hd2 |]. exists s'. split; [exact E1 |]. exists x. split; [exact E2 | apply nth_error_snoc_new].
      * cbn [tloc]. intros C. congruence.
      * intros kk e Hk. apply nth_error_prefix. exact Hk.
      * eapply I_log_snoc; [exact (ci_log _ _ _ _ _ _ _ _ H) |].
        destruct (absR_upd _ _ _ Hd) as (a & b & Ea & Eb & _ & Hbelow). rewrite Ea, Eb. cbn [on_q rq]. rewrite E3.
        rewrite (Hbelow Hdead). rewrite !app_nil_r, app_assoc. apply cs_poptail.
      * apply I_trace_log. exact (ci_trace _ _ _ _ _ _ _ _ H).
      * eapply I_idx_thief_log; [exact Hj | reflexivity | reflexivity | exact (ci_idx _ _ _ _ _ _ _ _ H)].
Qed.

(* one step inside d.popTail() after its CAS *)
Lemma leaf_thief_hold : forall n0 R hd tl pr ths lg tr j d d2 kk r,
  CInvF n0 R hd tl pr ths lg tr -> nth_error ths j = Some (KIn d d2 (Some kk)) -> nth_error R d = Some r ->
  let R' := upd R d (on_q (fun q => step q (LThief j)) r) in
  match thief_outcome (rq r) j with
  | None => CInvF n0 R' hd tl pr (upd ths j (KIn d d2 (Some kk))) lg tr
  | Some (Got val) => CInvF n0 R' hd tl pr (upd ths j (KDec val kk)) lg tr
  | Some Empty => False
  end.
Proof.
  intros n0 R hd tl pr ths lg tr j d d2 kk r H Hj Hd R'.
  assert (Hk := ci_thieves _ _ _ _ _ _ _ _ H _ _ Hj). cbn [I_thief] in Hk.
  destruct Hk as (Hdead & r0 & Hr0 & Hd2 & ts & Hts & x & Hph & Hlog). rewrite Hd in Hr0. injection Hr0 as <-.
  assert (HC : Core (rq r)) by exact (proj1 (ci_ring _ _ _ _ _ _ _ _ H _ _ Hd)).
  destruct (thold_step (rq r) j ts x HC Hts Hph) as [Ea HS].
  assert (Hd' : nth_error R' d = Some (on_q (fun q => step q (LThief j)) r)) by (eapply nth_error_upd_same; exact Hd).
  assert (Hdead' : forall i, (i < d)%nat -> deadR R' i) by (intros i Hi; apply deadR_upd_thief; [exact Hd | apply Hdead; exact Hi]).
  assert (HL : I_log R' lg).
  { eapply I_log_same; [exact (ci_log _ _ _ _ _ _ _ _ H) |]. eapply absR_upd_same; [exact Hd | exact Ea]. }
  destruct (thief_outcome (rq r) j) as [[| val] |].
  - contradiction.
  - destruct HS as [-> E1].
    apply (thief_ring_update n0 R hd tl pr ths lg tr j _ (KDec (Some x) kk) d r lg tr H Hj eq_refl Hd).
    + cbn [I_thief]. exists x. split; [reflexivity | exact Hlog].
    + intros _. exact E1.
    + auto.
    + exact HL.
    + exact (ci_trace _ _ _ _ _ _ _ _ H).
    + eapply I_idx_thief_same; [exact Hj | reflexivity | exact (ci_idx _ _ _ _ _ _ _ _ H)].
  - destruct HS as (s' & E1 & E2).
    apply (thief_ring_update n0 R hd tl pr ths lg tr j _ (KIn d d2 (Some kk)) d r lg tr H Hj eq_refl Hd).
    + cbn [I_thief]. split; [exact Hdead' |]. eexists. split; [exact Hd' |]. cbn [on_q rq rnext].
      split; [exact Hd2 |]. exists s'. split; [exact E1 |]. exists x. split; [exact E2 | exact Hlog].
    + cbn [tloc]. intros C. congruence.
    + auto.
    + exact HL.
    + exact (ci_trace _ _ _ _ _ _ _ _ H).
    + eapply I_idx_thief_same; [exact Hj | reflexivity | exact (ci_idx _ _ _ _ _ _ _ _ H)].
Qed.

Lemma cinv_thief_step : forall s j, CInv s -> CInv (cthief_step s j).
Proof.
  intros s j H. unfold CInv in *. unfold cthief_step.
  destruct s as [n0 R hd tl sz pr ths lg tr]. csp.
  destruct (nth_error ths j) as [k |] eqn:Hj; [| exact H].
  assert (Hk := ci_thieves _ _ _ _ _ _ _ _ H _ _ Hj).
  assert (Hmono : forall t, tl = Some t -> exists t', tl = Some t' /\ (t <= t')%nat)
    by (intros t E; exists t; split; [exact E | lia]).
  destruct k as [| d | d d2 ko | d d2 | d2 | val kk]; cbn [I_thief] in Hk; csp.
  - (* K0 *)
    destruct tl as [d |]; csp.
    + apply (thief_pc_update n0 R hd (Some d) pr ths lg tr j K0 (KNext d) (Some d) lg tr H Hj Hmono); auto.
      * exact (ci_tail _ _ _ _ _ _ _ _ H).
      * exact (ci_dead _ _ _ _ _ _ _ _ H).
      * cbn [I_thief]. split; [exact (ci_tail _ _ _ _ _ _ _ _ H) |].
        intros i Hi. exact (ci_dead _ _ _ _ _ _ _ _ H d i eq_refl Hi).
      * exact (ci_log _ _ _ _ _ _ _ _ H).
      * exact (ci_trace _ _ _ _ _ _ _ _ H).
      * eapply I_idx_thief_same; [exact Hj | reflexivity | exact (ci_idx _ _ _ _ _ _ _ _ H)].
    + apply cinv_weak_empty. exact H.
  - (* KNext *)
    destruct Hk as [Hlt Hdead].
    destruct (nth_error R d) as [r |] eqn:Hd; [| apply nth_error_None in Hd; lia]. csp.
    apply (thief_pc_update n0 R hd tl pr ths lg tr j (KNext d) (KIn d (rnext r) None) tl lg tr H Hj Hmono); auto.
    + exact (ci_tail _ _ _ _ _ _ _ _ H).
    + exact (ci_dead _ _ _ _ _ _ _ _ H).
    + cbn [I_thief]. split; [exact Hdead |]. exists r. split; [exact Hd |]. split.
      * destruct (ci_next _ _ _ _ _ _ _ _ H _ _ Hd) as ([E | E] & _); [left; exact E | right; split; exact E].
      * exists T1. split; [| reflexivity]. eapply (ci_tidle _ _ _ _ _ _ _ _ H); [exact Hd | exact Hj | discriminate].
    + intros i _. discriminate.
    + exact (ci_log _ _ _ _ _ _ _ _ H).
    + exact (ci_trace _ _ _ _ _ _ _ _ H).
    + eapply I_idx_thief_same; [exact Hj | reflexivity | exact (ci_idx _ _ _ _ _ _ _ _ H)].
  - (* KIn *)
    destruct Hk as (_ & r & Hr & _). rewrite Hr.
    erewrite ring_do_eq by (csp; exact Hr). csp.
    destruct ko as [kk |].
    + assert (HL := leaf_thief_hold n0 R hd tl pr ths lg tr j d d2 kk r H Hj Hr). cbv zeta in HL.
      destruct (thief_outcome (rq r) j) as [[| val] |]; csp; [contradiction | exact HL | exact HL].
    + assert (HL := leaf_thief_search n0 R hd tl pr ths lg tr j d d2 r H Hj Hr). cbv zeta in HL.
      destruct (thief_outcome (rq r) j) as [[| val] |];
        destruct (tail_lp (rq r) (step (rq r) (LThief j))) as [x |]; csp; try contradiction; try exact HL.
      destruct d2 as [e |]; csp; exact HL.
  - (* KCas *)
    destruct Hk as [-> Hdead].
    assert (Hlt : (S d < length R)%nat) by (eapply dead_next_lt; [exact (ci_next _ _ _ _ _ _ _ _ H) | apply Hdead; lia]).
    assert (Hfail : CInvF n0 R hd tl pr (upd ths j (KNext (S d))) lg tr).
    { apply (thief_pc_update n0 R hd tl pr ths lg tr j (KCas d (S d)) (KNext (S d)) tl lg tr H Hj Hmono); auto.
      - exact (ci_tail _ _ _ _ _ _ _ _ H).
      - exact (ci_dead _ _ _ _ _ _ _ _ H).
      - cbn [I_thief]. split; [exact Hlt |]. intros i Hi. apply Hdead. lia.
      - exact (ci_log _ _ _ _ _ _ _ _ H).
      - exact (ci_trace _ _ _ _ _ _ _ _ H).
      - eapply I_idx_thief_same; [exact Hj | reflexivity | exact (ci_idx _ _ _ _ _ _ _ _ H)]. }
    destruct tl as [t |]; csp; [| exact Hfail].
    destruct (Nat.eqb t d) eqn:E; csp; [| exact Hfail]. apply Nat.eqb_eq in E. subst t.
    apply (thief_pc_update n0 R hd (Some d) pr ths lg tr j (KCas d (S d)) (KPrev (S d)) (Some (S d)) lg tr H Hj).
    + intros t E. injection E as <-. exists (S d). split; [reflexivity | lia].
    + discriminate.
    + unfold I_tail. exact Hlt.
    + intros t i E Hi. injection E as <-. apply Hdead. lia.
    + cbn [I_thief]. split; [exact Hlt |]. split; [intros i Hi; apply Hdead; lia |]. exists (S d). split; [reflexivity | lia].
    + intros i _. discriminate.
    + auto.
    + exact (ci_log _ _ _ _ _ _ _ _ H).
    + exact (ci_trace _ _ _ _ _ _ _ _ H).
    + eapply I_idx_thief_same; [exact Hj | reflexivity | exact (ci_idx _ _ _ _ _ _ _ _ H)].
  - (* KPrev *)
    destruct Hk as (Hlt & _).
    destruct (nth_error R d2) as [r |] eqn:Hd; [| apply nth_error_None in Hd; lia].
    erewrite set_prev_eq by (csp; exact Hd). csp.
    apply thief_set_prev; assumption.
  - (* KDec *)
    destruct Hk as (x & -> & Hlog).
    apply (thief_pc_update n0 R hd tl pr ths lg tr j (KDec (Some x) kk) K0 tl lg
             (tr ++ [(S j, EPopTail (Got (Some x)), kk)]) H Hj Hmono); auto.
    + exact (ci_tail _ _ _ _ _ _ _ _ H).
    + exact (ci_dead _ _ _ _ _ _ _ _ H).
    + exact I.
    + exact (ci_log _ _ _ _ _ _ _ _ H).
    + apply I_trace_ret; [exact (ci_trace _ _ _ _ _ _ _ _ H) | exact Hlog].
    + eapply I_idx_thief_ret; [exact Hj | reflexivity | reflexivity | exact (ci_idx _ _ _ _ _ _ _ _ H)].
Qed.

(* ------------------------------------------------------------------ *)
(* all steps, initial states, reachable states                         *)
(* ------------------------------------------------------------------ *)
Lemma cinv_step : forall s l, CInv s -> CInv (cstep s l).
Proof.
  intros s l H. destruct l as [v | | | j]; unfold cstep.
  - destruct (cprod s) eqn:Ep; try exact H.
    unfold CInv in *. destruct s as [n0 R hd tl sz pr ths lg tr]. csp. subst pr.
    apply (prod_pc_update n0 R hd tl CIdle ths lg tr (CPush0 v) lg tr H); try discriminate; auto.
    + exact I.
    + exact (ci_log _ _ _ _ _ _ _ _ H).
    + exact (ci_trace _ _ _ _ _ _ _ _ H).
    + exact (ci_idx _ _ _ _ _ _ _ _ H).
  - destruct (cprod s) eqn:Ep; try exact H.
    unfold CInv in *. destruct s as [n0 R hd tl sz pr ths lg tr]. csp. subst pr.
    destruct hd as [d |]; csp.
    + assert (HN := head_last _ _ (ci_head _ _ _ _ _ _ _ _ H)).
      destruct (nth_error R d) as [r |] eqn:Hd; [| apply nth_error_None in Hd; lia].
      erewrite ring_do_eq by (csp; exact Hd). csp.
      eapply leaf_pop_enter; try exact H; try reflexivity; try discriminate; [exact Hd |].
      intros i Hi. apply rabsR_beyond. lia.
    + assert (HR : R = []).
      { assert (E := ci_head _ _ _ _ _ _ _ _ H). unfold I_head in E. destruct R; [reflexivity | discriminate]. }
      apply (prod_pc_update n0 R None tl CIdle ths lg tr CIdle (lg ++ [(0%nat, EPopHead Empty)])
               (tr ++ [(0%nat, EPopHead Empty, length lg)]) H); try discriminate; auto.
      * exact I.
      * intros k e Hk. apply nth_error_prefix. exact Hk.
      * eapply I_log_snoc; [exact (ci_log _ _ _ _ _ _ _ _ H) |]. rewrite HR. apply cs_pophead_empty.
      * apply I_trace_lp_ret. exact (ci_trace _ _ _ _ _ _ _ _ H).
      * apply I_idx_lp_ret. exact (ci_idx _ _ _ _ _ _ _ _ H).
  - apply cinv_prod_step. exact H.
  - apply cinv_thief_step. exact H.
Qed.

Lemma flat_map_repeat_nil : forall A B (f : A -> list B) a n, f a = [] -> flat_map f (repeat a n) = [].
Proof. intros A B f a n E. induction n as [| n IH]; [reflexivity | cbn [repeat flat_map]; rewrite E, IH; reflexivity]. Qed.

Lemma cinv_init : forall n0 T, pow2size n0 -> CInv (cinit n0 T).
Proof.
  intros n0 T Hn. unfold CInv, cinit. csp. constructor; try exact Hn.
  - intros i r Hr. destruct i; discriminate.
  - reflexivity.
  - left. reflexivity.
  - intros i r Hr. destruct i; discriminate.
  - intros i r Hr. destruct i; discriminate.
  - intros t i E. discriminate.
  - exact I.
  - intros i r Hr. destruct i; discriminate.
  - intros j k Hk. apply nth_error_repeat in Hk. subst k. exact I.
  - intros i r j k Hr. destruct i; discriminate.
  - constructor.
  - intros t e k [].
  - unfold I_idx. cbn [cpend_p map app length seq]. rewrite flat_map_repeat_nil by reflexivity. constructor.
Qed.

Lemma cinv_init_at : forall n0 T h0, pow2size n0 -> 0 <= h0 < M32 -> CInv (cinit_at n0 T h0).
Proof.
  intros n0 T h0 Hn Hh. unfold CInv, cinit_at. csp.
  assert (Hone : forall (i : nat) (r : ring), nth_error [new_ring n0 T h0 None] i = Some r -> i = 0%nat /\ r = new_ring n0 T h0 None).
  { intros i r Hr. destruct i; [injection Hr as <-; auto | destruct i; discriminate]. }
  constructor; try exact Hn.
  - intros i r Hr. destruct (Hone _ _ Hr) as [-> ->]. cbn [new_ring rq].
    split; [apply pow2_core_init; assumption |]. split; [rewrite init_thieves, !repeat_length; reflexivity | exact Hn].
  - reflexivity.
  - cbn [I_tail length]. lia.
  - intros i r Hr. destruct (Hone _ _ Hr) as [-> ->]. cbn [new_ring rnext length].
    split; [left; reflexivity |]. split; [congruence | lia].
  - intros i r Hr. destruct (Hone _ _ Hr) as [-> ->]. cbn [new_ring rprev].
    split; [left; reflexivity | intros _; left; reflexivity].
  - intros t i E Hi. injection E as <-. lia.
  - exact I.
  - intros i r Hr _. destruct (Hone _ _ Hr) as [-> ->]. reflexivity.
  - intros j k Hk. apply nth_error_repeat in Hk. subst k. exact I.
  - intros i r j k Hr Hk _. destruct (Hone _ _ Hr) as [-> ->]. cbn [new_ring rq]. rewrite init_thieves.
    apply nth_error_repeat_lt. rewrite <- (repeat_length K0 T). apply nth_error_Some. congruence.
  - constructor.
  - intros t e k [].
  - unfold I_idx. cbn [cpend_p map app length seq]. rewrite flat_map_repeat_nil by reflexivity. constructor.
Qed.

Lemma crun_invariant : forall (P : cstate -> Prop),
  (forall s l, P s -> P (cstep s l)) -> forall sched s, P s -> P (crun s sched).
Proof.
  intros P HP sched. induction sched as [| l r IH]; intros s H; [exact H |].
  cbn [crun fold_left]. apply IH. apply HP. exact H.
Qed.

Lemma cinv_reach : forall n0 T sched, pow2size n0 -> CInv (crun (cinit n0 T) sched).
Proof. intros n0 T sched Hn. apply crun_invariant; [apply cinv_step | apply cinv_init; exact Hn]. Qed.

Lemma cinv_reach_at : forall n0 T h0 sched, pow2size n0 -> 0 <= h0 < M32 -> CInv (crun (cinit_at n0 T h0) sched).
Proof. intros n0 T h0 sched Hn Hh. apply crun_invariant; [apply cinv_step | apply cinv_init_at; assumption]. Qed.

(* the states the theorems speak about: reachable from the zero chain, or from a chain whose first ring was
   allocated with arbitrary start indexes (covers the 2^32 wrap of the first ring) *)
Inductive creach : cstate -> Prop :=
| cr_zero : forall n0 T sched, pow2size n0 -> creach (crun (cinit n0 T) sched)
| cr_at : forall n0 T h0 sched, pow2size n0 -> 0 <= h0 < M32 -> creach (crun (cinit_at n0 T h0) sched).

Lemma creach_inv : forall s, creach s -> CInv s.
Proof. intros s H. destruct H; [apply cinv_reach | apply cinv_reach_at]; assumption. Qed.

(* ------------------------------------------------------------------ *)
(* (A) linearizability                                                 *)
(* ------------------------------------------------------------------ *)
(* pending pops are logged with the value they are going to return *)
Definition cpending_logged (s : cstate) : Prop :=
  (forall d k, cprod s = CPopIn d (Some k) -> exists x, nth_error (clog s) k = Some (0%nat, EPopHead (Got (Some x)))) /\
  (forall val k, cprod s = CPopDec val k ->
     exists x, val = Some x /\ nth_error (clog s) k = Some (0%nat, EPopHead (Got (Some x)))) /\
  (forall j d d2 k, nth_error (cthieves s) j = Some (KIn d d2 (Some k)) ->
     exists x, nth_error (clog s) k = Some (S j, EPopTail (Got (Some x)))) /\
  (forall j val k, nth_error (cthieves s) j = Some (KDec val k) ->
     exists x, val = Some x /\ nth_error (clog s) k = Some (S j, EPopTail (Got (Some x)))).

Theorem chain_linearizable : forall s, creach s ->
  cseq_run [] (map snd (clog s)) (cabs s) /\
  (forall t e k, In (t, e, k) (ctrace s) -> nth_error (clog s) k = Some (t, e)) /\
  Permutation (map snd (ctrace s) ++ cpending_k s) (seq 0 (length (clog s))) /\
  NoDup (map snd (ctrace s)) /\
  cpending_logged s.
Proof.
  intros s Hr. assert (H := creach_inv s Hr). unfold CInv in H.
  assert (Hperm : Permutation (map snd (ctrace s) ++ cpending_k s) (seq 0 (length (clog s)))).
  { assert (HI := ci_idx _ _ _ _ _ _ _ _ H). unfold I_idx in HI. unfold cpending_k.
    etransitivity; [| exact HI]. rewrite (app_assoc (cpend_p (cprod s))). apply Permutation_app_comm. }
  split; [exact (ci_log _ _ _ _ _ _ _ _ H) |]. split; [exact (ci_trace _ _ _ _ _ _ _ _ H) |].
  split; [exact Hperm |]. split.
  { assert (Hnd : NoDup (map snd (ctrace s) ++ cpending_k s))
      by (eapply Permutation_NoDup; [symmetry; exact Hperm | apply seq_NoDup]).
    apply NoDup_app_l in Hnd. exact Hnd. }
  unfold cpending_logged. split; [| split; [| split]].
  - intros d k E. assert (HP := ci_prod _ _ _ _ _ _ _ _ H). rewrite E in HP. cbn [I_prod] in HP.
    destruct HP as (r & x & _ & _ & Hk). exists x. exact Hk.
  - intros val k E. assert (HP := ci_prod _ _ _ _ _ _ _ _ H). rewrite E in HP. exact HP.
  - intros j d d2 k E. assert (HT := ci_thieves _ _ _ _ _ _ _ _ H _ _ E). cbn [I_thief] in HT.
    destruct HT as (_ & r & _ & _ & ts & _ & x & _ & Hk). exists x. exact Hk.
  - intros j val k E. exact (ci_thieves _ _ _ _ _ _ _ _ H _ _ E).
Qed.

(* the log is append-only and a step only appends entries of the thread that takes it: the linearization
   point of every call lies between its invocation and its response *)
Definition thread_of (l : label) : nat := match l with LThief j => S j | _ => 0%nat end.

Lemma clog_ring_map : forall s d f, clog (ring_map s d f) = clog s.
Proof. intros s d f. unfold ring_map. destruct (nth_error (rings s) d); reflexivity. Qed.

Ltac clg := repeat (progress (cbn [set_prod set_thief set_thieves set_head set_rings set_tail set_size
                                   c_lp_ret c_ret c_log clog])
                    || (progress unfold ring_do, set_next, set_prev) || rewrite clog_ring_map).
Ltac clog_fin :=
  clg;
  first [ exists []; split; [rewrite app_nil_r; reflexivity | constructor]
        | eexists [_]; split; [reflexivity | repeat constructor]
        | eexists [_; _]; split; [rewrite <- app_assoc; reflexivity | repeat constructor] ].

Lemma clog_step : forall s l,
  exists es, clog (cstep s l) = clog s ++ es /\ Forall (fun te => fst te = thread_of l) es.
Proof.
  intros s l. destruct l as [v | | | j]; unfold cstep; cbn [thread_of].
  - destruct (cprod s); clog_fin.
  - destruct (cprod s); try clog_fin. destruct (chead s); clog_fin.
  - unfold cprod_step. destruct (cprod s) as [| v | v d | v d | v d d2 | v d | v | d ko | d | val k]; try clog_fin.
    + destruct (chead s); clog_fin.
    + destruct (nth_error (rings s) d); [| clog_fin]. destruct (push_outcome (rq r)) as [[|] |]; clog_fin.
    + destruct (nth_error (rings s) d); [| clog_fin]. destruct (push_outcome (rq r)) as [[|] |]; clog_fin.
    + destruct (nth_error (rings s) d); [| clog_fin].
      destruct (match ko with Some _ => None | None => head_lp (rq r) (step (rq r) LProd) end) as [x |];
        destruct (pop_outcome (rq r)) as [[| val] |]; clog_fin.
    + destruct (nth_error (rings s) d); [| clog_fin]. destruct (rprev r); clog_fin.
  - unfold cthief_step. destruct (nth_error (cthieves s) j) as [k |]; [| clog_fin].
    destruct k as [| d | d d2 ko | d d2 | d2 | val kk]; try clog_fin.
    + destruct (ctail s); clog_fin.
    + destruct (nth_error (rings s) d); clog_fin.
    + destruct (nth_error (rings s) d); [| clog_fin].
      destruct (match ko with Some _ => None | None => tail_lp (rq r) (step (rq r) (LThief j)) end) as [x |];
        destruct (thief_outcome (rq r) j) as [[| val] |]; try clog_fin; destruct d2; clog_fin.
    + destruct (ctail s) as [t |]; [destruct (Nat.eqb t d) |]; clog_fin.
Qed.

(* ------------------------------------------------------------------ *)
(* (B) ownership: nothing is popped twice, invented or lost            *)
(* ------------------------------------------------------------------ *)
Definition ev_pushes (es : list event) : list V := flat_map ev_pushed es.
Definition ev_pops (es : list event) : list V := flat_map ev_popped es.

Lemma cseq_run_perm : forall q0 es q, cseq_run q0 es q -> Permutation (ev_pops es ++ q) (ev_pushes es ++ q0).
Proof.
  intros q0 es q H. induction H as [q | q e q1 es q2 Hs _ IH]; [reflexivity |].
  unfold ev_pops, ev_pushes in *. cbn [flat_map]. rewrite <- !app_assoc.
  etransitivity; [apply Permutation_app_head; exact IH |].
  destruct Hs; cbn [ev_popped ev_pushed app].
  - symmetry. apply Permutation_middle.
  - apply Permutation_middle.
  - reflexivity.
  - rewrite app_assoc. apply Permutation_cons_append.
  - reflexivity.
Qed.

(* the values of the pops that are linearized but have not returned yet *)
Definition cpending_vals (s : cstate) : list V :=
  flat_map (fun k => match nth_error (clog s) k with Some (_, e) => ev_popped e | None => [] end) (cpending_k s).

Lemma flat_map_ext_in' : forall A B (f g : A -> list B) l, (forall x, In x l -> f x = g x) -> flat_map f l = flat_map g l.
Proof.
  intros A B f g l H. induction l as [| a l IH]; [reflexivity |]. cbn [flat_map].
  rewrite H by (left; reflexivity). f_equal. apply IH. intros x Hx. apply H. right. exact Hx.
Qed.

Lemma flat_map_nth_seq : forall A B (f : option A -> list B) (l : list A),
  flat_map (fun k => f (nth_error l k)) (seq 0 (length l)) = flat_map (fun x => f (Some x)) l.
Proof.
  intros A B f l. induction l as [| a l IH] using rev_ind; [reflexivity |].
  rewrite app_length. cbn [length]. rewrite Nat.add_1_r, seq_S, !flat_map_app. cbn [Nat.add flat_map].
  rewrite nth_error_snoc_new. f_equal. rewrite <- IH. apply flat_map_ext_in'.
  intros k Hk. apply in_seq in Hk. rewrite nth_error_app1 by lia. reflexivity.
Qed.

Definition ent_pops (o : option (nat * event)) : list V := match o with Some (_, e) => ev_popped e | None => [] end.
Definition ent_pushes (o : option (nat * event)) : list V := match o with Some (_, e) => ev_pushed e | None => [] end.

Lemma flat_map_perm : forall A B (f : A -> list B) l1 l2, Permutation l1 l2 -> Permutation (flat_map f l1) (flat_map f l2).
Proof.
  intros A B f l1 l2 H. induction H; cbn [flat_map].
  - reflexivity.
  - apply Permutation_app_head. assumption.
  - rewrite !app_assoc. apply Permutation_app_tail. apply Permutation_app_comm.
  - etransitivity; eassumption.
Qed.

Lemma flat_map_trace : forall (lg : list (nat * event)) (f : option (nat * event) -> list V) (tr : list (nat * event * nat)),
  (forall c, In c tr -> nth_error lg (snd c) = Some (fst c)) ->
  flat_map (fun k => f (nth_error lg k)) (map snd tr) = flat_map (fun c => f (Some (fst c))) tr.
Proof.
  intros lg f tr. induction tr as [| c tr IH]; intros Hall; [reflexivity |]. cbn [map flat_map].
  rewrite (Hall c) by (left; reflexivity). f_equal. apply IH. intros c' Hc'. apply Hall. right. exact Hc'.
Qed.

Theorem chain_ownership : forall s, creach s ->
  Permutation (popped (ctrace s) ++ cpending_vals s ++ cabs s) (pushed (ctrace s)).
Proof.
  intros s Hr. destruct (chain_linearizable s Hr) as (Hlog & Htr & Hperm & _ & Hpl).
  assert (H1 := cseq_run_perm _ _ _ Hlog). rewrite app_nil_r in H1.
  (* the log entries, through the index bijection *)
  assert (H2 : forall f : option (nat * event) -> list V,
             Permutation (flat_map (fun k => f (nth_error (clog s) k)) (map snd (ctrace s)) ++
                          flat_map (fun k => f (nth_error (clog s) k)) (cpending_k s))
                         (flat_map (fun te => f (Some te)) (clog s))).
  { intros f. rewrite <- flat_map_app.
    etransitivity; [apply flat_map_perm; exact Hperm |].
    rewrite flat_map_nth_seq. reflexivity. }
  assert (H3 : forall f : option (nat * event) -> list V,
             flat_map (fun k => f (nth_error (clog s) k)) (map snd (ctrace s)) =
             flat_map (fun c => f (Some (fst c))) (ctrace s)).
  { intros f. apply flat_map_trace. intros [[t e] k] Hin. apply Htr. exact Hin. }
  assert (Hpops := H2 ent_pops). rewrite (H3 ent_pops) in Hpops.
  assert (Hpush := H2 ent_pushes). rewrite (H3 ent_pushes) in Hpush.
  (* pending entries are pops *)
  assert (Hpend : flat_map (fun k => ent_pushes (nth_error (clog s) k)) (cpending_k s) = []).
  { apply flat_map_nil. intros k Hk. unfold cpending_k in Hk. destruct Hpl as (P1 & P2 & P3 & P4).
    apply in_app_or in Hk as [Hk | Hk].
    - destruct (cprod s) as [| | | | | | | d [k0 |] | | val k0] eqn:Ep; cbn [cpend_p] in Hk; try contradiction.
      + destruct Hk as [<- | []]. destruct (P1 _ _ eq_refl) as (x & E). rewrite E. reflexivity.
      + destruct Hk as [<- | []]. destruct (P2 _ _ eq_refl) as (x & _ & E). rewrite E. reflexivity.
    - apply in_flat_map in Hk as (c & Hc & Hk). destruct (In_nth_error _ _ Hc) as [j Hj].
      destruct c as [| | d d2 [k0 |] | | | val k0]; cbn [cpend_k] in Hk; try contradiction.
      + destruct Hk as [<- | []]. destruct (P3 _ _ _ _ Hj) as (x & E). rewrite E. reflexivity.
      + destruct Hk as [<- | []]. destruct (P4 _ _ _ Hj) as (x & _ & E). rewrite E. reflexivity. }
  rewrite Hpend, app_nil_r in Hpush.
  assert (Epops : flat_map (fun te : nat * event => ent_pops (Some te)) (clog s) = ev_pops (map snd (clog s))).
  { unfold ev_pops. rewrite !flat_map_concat_map, map_map. f_equal. apply map_ext. intros [t e]. reflexivity. }
  assert (Epush : flat_map (fun te : nat * event => ent_pushes (Some te)) (clog s) = ev_pushes (map snd (clog s))).
  { unfold ev_pushes. rewrite !flat_map_concat_map, map_map. f_equal. apply map_ext. intros [t e]. reflexivity. }
  rewrite Epops in Hpops. rewrite Epush in Hpush.
  assert (Etp : flat_map (fun c : nat * event * nat => ent_pops (Some (fst c))) (ctrace s) = popped (ctrace s)).
  { unfold popped. apply flat_map_ext. intros [[t e] k]. reflexivity. }
  assert (Etq : flat_map (fun c : nat * event * nat => ent_pushes (Some (fst c))) (ctrace s) = pushed (ctrace s)).
  { unfold pushed. apply flat_map_ext. intros [[t e] k]. reflexivity. }
  rewrite Etp in Hpops. rewrite Etq in Hpush.
  rewrite app_assoc. etransitivity; [apply Permutation_app_tail; exact Hpops |].
  etransitivity; [exact H1 |]. symmetry. exact Hpush.
Qed.

(* a value is handed out at most as often as it was pushed *)
Corollary chain_popped_le_pushed : forall s x, creach s ->
  (count_occ Nat.eq_dec (popped (ctrace s)) x + count_occ Nat.eq_dec (cpending_vals s) x
   + count_occ Nat.eq_dec (cabs s) x = count_occ Nat.eq_dec (pushed (ctrace s)) x)%nat.
Proof.
  intros s x Hr. assert (H := chain_ownership s Hr).
  rewrite (Permutation_count_occ Nat.eq_dec) in H. rewrite <- H.
  rewrite !count_occ_app. symmetry. apply Nat.add_assoc.
Qed.

(* ------------------------------------------------------------------ *)
(* (C) dropping rings, growing the chain                               *)
(* ------------------------------------------------------------------ *)
(* ring i is drained for good and is not the head ring *)
Definition droppable (s : cstate) (i : nat) : Prop :=
  exists r, nth_error (rings s) i = Some r /\ abs (rq r) = [] /\ rnext r = Some (S i) /\
            (S i < length (rings s))%nat /\ chead s <> Some i.

Lemma dead_droppable : forall s i, CInv s -> deadR (rings s) i -> droppable s i.
Proof.
  intros s i H (r & Hr & Ha & Hn). unfold CInv in H.
  destruct (ci_next _ _ _ _ _ _ _ _ H _ _ Hr) as ([E | E] & H2 & _); [congruence |].
  assert (Hlt := H2 Hn). exists r. repeat split; try assumption.
  assert (Eh := ci_head _ _ _ _ _ _ _ _ H). unfold I_head in Eh. rewrite Eh.
  destruct (length (rings s)) as [| m]; [discriminate |]. intros C. injection C as ->. lia.
Qed.

(* every ring that c.tail has been moved past, and the ring a thief is about to move c.tail past with its CAS,
   is empty for good (its contents can only shrink and it is empty), already has a successor and is not
   c.head: no value is lost by dropping a ring.  The links are those of a list: next of ring i is ring i+1. *)
Theorem chain_drop_safe : forall s, creach s ->
  (forall t i, ctail s = Some t -> (i < t)%nat -> droppable s i) /\
  (forall j d d2, nth_error (cthieves s) j = Some (KCas d d2) -> d2 = S d /\ droppable s d) /\
  (forall t, ctail s = Some t -> (t < length (rings s))%nat) /\
  chead s = match length (rings s) with O => None | S m => Some m end.
Proof.
  intros s Hr. assert (H := creach_inv s Hr). assert (H' := H). unfold CInv in H'.
  split; [| split; [| split]].
  - intros t i Et Hi. apply dead_droppable; [exact H |]. exact (ci_dead _ _ _ _ _ _ _ _ H' t i Et Hi).
  - intros j d d2 Hj. assert (Hk := ci_thieves _ _ _ _ _ _ _ _ H' _ _ Hj). cbn [I_thief] in Hk.
    destruct Hk as [E Hd]. split; [exact E |]. apply dead_droppable; [exact H | apply Hd; lia].
  - intros t Et. assert (HT := ci_tail _ _ _ _ _ _ _ _ H'). unfold I_tail in HT. rewrite Et in HT. exact HT.
  - exact (ci_head _ _ _ _ _ _ _ _ H').
Qed.

(* poolChain.pushHead never drops its argument: the push into the freshly linked ring always succeeds *)
Theorem chain_push_never_lost : forall s v, creach s -> cprod s <> CLost v.
Proof.
  intros s v Hr E. assert (H := creach_inv s Hr). unfold CInv in H.
  assert (HP := ci_prod _ _ _ _ _ _ _ _ H). rewrite E in HP. exact HP.
Qed.

(* every ring of the chain is a poolDequeue machine in a state satisfying the ring invariant of
   ProofsDequeue.v (slot ownership, no overflow ...), of a size 2^k <= 2^30 *)
Theorem chain_rings_are_dequeues : forall s i r, creach s -> nth_error (rings s) i = Some r ->
  Core (rq r) /\ pow2size (sz (rq r)) /\ length (thieves (rq r)) = length (cthieves s) /\
  (rnext r = None \/ rnext r = Some (S i)) /\ (rprev r = None \/ exists i', i = S i' /\ rprev r = Some i').
Proof.
  intros s i r Hr Hi. assert (H := creach_inv s Hr). unfold CInv in H.
  destruct (ci_ring _ _ _ _ _ _ _ _ H _ _ Hi) as (H1 & H2 & H3).
  split; [exact H1 |]. split; [exact H3 |]. split; [exact H2 |].
  split; [exact (proj1 (ci_next _ _ _ _ _ _ _ _ H _ _ Hi)) | exact (proj1 (ci_prev _ _ _ _ _ _ _ _ H _ _ Hi))].
Qed.

(* ------------------------------------------------------------------ *)
(* popTail's empty answer is NOT exact                                 *)
(* ------------------------------------------------------------------ *)
(* A run (first ring of 1 slot, two thieves): thief 0 loads d = c.tail = ring 0 and d.next = nil while ring 0
   holds 7; the producer pushes 8 (ring 0 is full: ring 1 is allocated, linked, 8 goes into ring 1); thief 1
   pops 7 from ring 0; thief 0 now finds ring 0 empty and, because the next pointer it loaded was nil,
   returns (nil,false) - although the chain held 7 or 8 at every moment of its call.  So the chain does not
   linearize to a deque whose popTail answers "empty" only when it is empty; it linearizes to the deque of
   Chain.cseq_step, where popTail may fail spuriously (chain_linearizable). *)
Definition nx_setup : list label := [LPush 7%nat; LProd; LProd; LProd; LProd; LProd].
Definition nx_call : list label :=
  [LThief 0; LThief 0] ++
  [LPush 8%nat; LProd; LProd; LProd; LProd; LProd; LProd; LProd] ++
  [LThief 1; LThief 1; LThief 1; LThief 1; LThief 1; LThief 1; LThief 1] ++
  [LThief 0].

Theorem chain_poptail_empty_not_exact :
  exists s1 call,
    creach s1 /\ nth_error (cthieves s1) 0 = Some K0 /\ ctrace s1 = [(0%nat, EPush 7%nat true, 0%nat)] /\
    Forall (fun m => cabs (crun s1 (firstn m call)) <> []) (seq 0 (S (length call))) /\
    (forall m, (S m < length call)%nat -> nth_error (cthieves (crun s1 (firstn (S m) call))) 0 <> Some K0) /\
    nth_error (cthieves (crun s1 call)) 0 = Some K0 /\
    map (fun c => fst c) (ctrace (crun s1 call)) =
      [(0%nat, EPush 7%nat true); (0%nat, EPush 8%nat true); (2%nat, EPopTail (Got (Some 7%nat))); (1%nat, EPopTail Empty)].
Proof.
  exists (crun (cinit_at 1 2 0) nx_setup), nx_call.
  split; [apply cr_at; [exists 0; split; [lia | reflexivity] | rewrite M32_val; lia] |].
  split; [vm_compute; reflexivity |]. split; [vm_compute; reflexivity |].
  split.
  { apply Forall_forall. intros m Hm. apply in_seq in Hm. cbn [nx_call app length] in Hm.
    do 19 (destruct m as [| m]; [vm_compute; discriminate |]). lia. }
  split; [| split; vm_compute; reflexivity].
  intros m Hm. cbn [nx_call app length] in Hm.
  do 17 (destruct m as [| m]; [vm_compute; discriminate |]). lia.
Qed.
