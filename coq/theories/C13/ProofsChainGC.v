(* C13 - poolChain under Pool.gc(): the collection step preserves everything.  After GGC the chain is exactly
   the zero chain (so every later state is again a reachable state of Chain.v and all chain theorems apply to
   it), and every closed epoch is a complete linearizable history whose pushed values are the popped ones plus
   the ones dropped by the collection. *)
From Coq Require Import ZArith List Bool Lia Permutation.
From VF Require Import C13.Dequeue C13.ProofsDequeue C13.Chain C13.ProofsChainRing C13.ProofsChain
                       C13.ProofsChainCounter C13.ChainReal C13.ProofsChainReal C13.ChainGC.
Import ListNotations.
Open Scope Z_scope.

Lemma crun_snoc : forall s sched l, crun s (sched ++ [l]) = cstep (crun s sched) l.
Proof. intros. unfold crun. rewrite fold_left_app. reflexivity. Qed.

Lemma creach_step : forall s l, creach s -> creach (cstep s l).
Proof.
  intros s l H. destruct H as [n0 T sched Hn | n0 T h0 sched Hn Hh]; rewrite <- crun_snoc; constructor; assumption.
Qed.

Lemma forallb_idle_repeat : forall ths, forallb idle_k ths = true -> ths = repeat K0 (length ths).
Proof.
  induction ths as [| k ths IH]; intros H; [reflexivity |]. cbn [forallb] in H. apply andb_true_iff in H.
  destruct H as [H1 H2]. destruct k; try discriminate. cbn [length repeat]. f_equal. apply IH. exact H2.
Qed.

Lemma quiescentb_spec : forall s, quiescentb s = true <-> quiescent s.
Proof.
  intros s. unfold quiescentb, quiescent. split.
  - intros H. destruct (cprod s); try discriminate. split; [reflexivity |].
    intros j k Hk. rewrite forallb_forall in H. apply nth_error_In in Hk. specialize (H _ Hk).
    destruct k; try discriminate. reflexivity.
  - intros [Hp Ht]. rewrite Hp. apply forallb_forall. intros k Hk.
    destruct (In_nth_error _ _ Hk) as [j Hj]. rewrite (Ht _ _ Hj). reflexivity.
Qed.

(* the collected chain IS the zero chain *)
Lemma gc_reset_is_init : forall s, quiescentb s = true -> gc_reset s = cinit (cn0 s) (length (cthieves s)).
Proof.
  intros s H. unfold quiescentb in H. unfold gc_reset, cinit.
  destruct (cprod s); try discriminate. rewrite <- (forallb_idle_repeat _ H). reflexivity.
Qed.

Lemma creach_n0 : forall s, creach s -> pow2size (cn0 s).
Proof. intros s H. apply creach_inv in H. exact (ci_n0 _ _ _ _ _ _ _ _ H). Qed.

Lemma creach_gc : forall s, creach s -> quiescentb s = true -> creach (gc_reset s).
Proof.
  intros s Hr Hq. rewrite (gc_reset_is_init s Hq).
  exact (cr_zero (cn0 s) (length (cthieves s)) [] (creach_n0 s Hr)).
Qed.

(* a closed epoch: a complete (no pending call) linearizable history; pushed = popped + dropped *)
Definition epoch_ok (e : epoch) : Prop :=
  cseq_run [] (map snd (ep_log e)) (ep_dropped e) /\
  (forall t ev k, In (t, ev, k) (ep_trace e) -> nth_error (ep_log e) k = Some (t, ev)) /\
  Permutation (map snd (ep_trace e)) (seq 0 (length (ep_log e))) /\
  Permutation (popped (ep_trace e) ++ ep_dropped e) (pushed (ep_trace e)).

Lemma quiescent_no_pending : forall s, quiescent s -> cpending_k s = [].
Proof.
  intros s [Hp Ht]. unfold cpending_k. rewrite Hp. cbn [cpend_p app]. apply flat_map_nil.
  intros k Hk. destruct (In_nth_error _ _ Hk) as [j Hj]. rewrite (Ht _ _ Hj). reflexivity.
Qed.

Lemma epoch_closed_ok : forall s, creach s -> quiescent s -> epoch_ok (mkepoch (clog s) (ctrace s) (cabs s)).
Proof.
  intros s Hr Hq. destruct (chain_linearizable s Hr) as (H1 & H2 & H3 & _).
  assert (Ho := chain_ownership s Hr). assert (E := quiescent_no_pending s Hq).
  unfold epoch_ok. cbn [ep_log ep_trace ep_dropped].
  split; [exact H1 |]. split; [exact H2 |]. split.
  - rewrite E, app_nil_r in H3. exact H3.
  - unfold cpending_vals in Ho. rewrite E in Ho. cbn [flat_map app] in Ho. exact Ho.
Qed.

Definition GInv (g : gstate) : Prop := creach (g_cur g) /\ Forall epoch_ok (g_past g).

Lemma ginv_step : forall g gl, GInv g -> GInv (gstep g gl).
Proof.
  intros g gl [Hr Hp]. destruct gl as [l |]; unfold gstep.
  - split; [apply creach_step; exact Hr | exact Hp].
  - destruct (quiescentb (g_cur g)) eqn:Hq; [| split; assumption].
    split; cbn [g_cur g_past].
    + apply creach_gc; assumption.
    + constructor; [| exact Hp]. apply epoch_closed_ok; [exact Hr | apply quiescentb_spec; exact Hq].
Qed.

Lemma grun_invariant : forall (P : gstate -> Prop),
  (forall g gl, P g -> P (gstep g gl)) -> forall gs g, P g -> P (grun g gs).
Proof.
  intros P HP gs. induction gs as [| gl r IH]; intros g H; [exact H |].
  cbn [grun fold_left]. apply IH. apply HP. exact H.
Qed.

(* (E) collections: for every start state reachable in Chain.v and every schedule of calls and collections *)
Theorem chain_gc_preserves : forall s0 gs, creach s0 ->
  let g := grun (gmk s0 []) gs in
  creach (g_cur g) /\ CInv (g_cur g) /\ Forall epoch_ok (g_past g).
Proof.
  intros s0 gs Hr g.
  assert (H : GInv g).
  { apply grun_invariant; [apply ginv_step | split; [exact Hr | constructor]]. }
  destruct H as [H1 H2]. split; [exact H1 |]. split; [apply creach_inv; exact H1 | exact H2].
Qed.

(* the collection itself: enabled exactly in quiescent states, and the result is the zero chain, whose size
   counter (0) is again the number of stored values *)
Theorem chain_gc_step : forall g, creach (g_cur g) ->
  (quiescentb (g_cur g) = false -> gstep g GGC = g) /\
  (quiescentb (g_cur g) = true ->
     g_cur (gstep g GGC) = cinit (cn0 (g_cur g)) (length (cthieves (g_cur g))) /\
     csize (g_cur g) = Z.of_nat (length (cabs (g_cur g))) /\
     g_past (gstep g GGC) = mkepoch (clog (g_cur g)) (ctrace (g_cur g)) (cabs (g_cur g)) :: g_past g).
Proof.
  intros g Hr. unfold gstep. split; intros Hq; rewrite Hq; [reflexivity |]. cbn [g_cur g_past].
  split; [apply gc_reset_is_init; exact Hq |]. split; [| reflexivity].
  apply chain_size_quiescent; [exact Hr | apply quiescentb_spec; exact Hq].
Qed.

(* ---- ghost erasure with collections ---- *)
Lemma forallb_map : forall A B (f : A -> B) (p : B -> bool) l, forallb p (map f l) = forallb (fun x => p (f x)) l.
Proof. intros. induction l as [| a l IH]; [reflexivity | cbn [map forallb]; rewrite IH; reflexivity]. Qed.

Lemma rquiescentb_erase : forall s, rquiescentb (cerase s) = quiescentb s.
Proof.
  intros s. unfold rquiescentb, quiescentb, cerase. cbn [rc_prod rc_thieves].
  destruct (cprod s); cbn [erase_cp]; try reflexivity.
  rewrite forallb_map. induction (cthieves s) as [| k l IH]; [reflexivity |]. cbn [forallb]. rewrite IH. destruct k; reflexivity.
Qed.

Lemma gerase_step : forall g gl, gerase (gstep g gl) = rgstep (gerase g) gl.
Proof.
  intros g gl. destruct gl as [l |]; unfold gstep, rgstep.
  - unfold gerase. cbn [g_cur g_past rg_cur rg_past]. rewrite cerase_step. reflexivity.
  - unfold gerase at 2. cbn [rg_cur rg_past]. rewrite rquiescentb_erase.
    destruct (quiescentb (g_cur g)); reflexivity.
Qed.

Theorem gerase_run : forall gs g, gerase (grun g gs) = rgrun (gerase g) gs.
Proof.
  induction gs as [| gl r IH]; intros g; [reflexivity |].
  cbn [grun rgrun fold_left]. fold (grun (gstep g gl) r). fold (rgrun (rgstep (gerase g) gl) r).
  rewrite <- gerase_step. apply IH.
Qed.
