(* C13 property theorems, second part (poolChain: ghost erasure, the size counter, Pool.gc()).
   Nothing but statements closed by [exact] and Print Assumptions. *)
From Coq Require Import ZArith List Bool Permutation.
Import ListNotations.
From VF Require C13.Dequeue C13.Chain C13.ChainReal C13.ChainGC.
From VF Require C13.ProofsChainRing C13.ProofsChain C13.ProofsChainReal C13.ProofsChainCounter C13.ProofsChainGC.

(* ghost erasure: ChainReal.v is the chain machine WITHOUT any ghost component (ghost-free rings, control states
   without log indexes, no log; the trace lists completed calls with their results).  Projecting the instrumented
   machine of Chain.v onto its real fields (cerase: rings erased by Dequeue.erase, links, c.head, c.tail, c.size,
   the real registers, the results) commutes with every step, from every state, and hence for every schedule the
   erased run of the instrumented machine IS the run of the ghost-free machine: the ghost log / trace / indexes
   never influence the real fields, and C13_chain_atomic & co. speak about the machine that corresponds to the code *)
Theorem C13_chain_ghost_free_step : forall s l,
  ChainReal.cerase (Chain.cstep s l) = ChainReal.rcstep (ChainReal.cerase s) l.
Proof. exact ProofsChainReal.cerase_step. Qed.
Theorem C13_chain_ghost_free : forall sched n0 T,
  ChainReal.rcrun (ChainReal.rcinit n0 T) sched = ChainReal.cerase (Chain.crun (Chain.cinit n0 T) sched).
Proof. exact ProofsChainReal.cerase_run. Qed.
Theorem C13_chain_ghost_free_at : forall sched n0 T h0,
  ChainReal.rcrun (ChainReal.rcinit_at n0 T h0) sched = ChainReal.cerase (Chain.crun (Chain.cinit_at n0 T h0) sched).
Proof. exact ProofsChainReal.cerase_run_at. Qed.

(* the size counter: pushHead adds 1 before the ring push, the pops subtract 1 after the ring pop; in EVERY
   reachable state  c.size = stored values + pops that hold a value but have not decremented yet
                             + (1 if a pushHead has incremented but its value is not in a ring yet) *)
Theorem C13_chain_size : forall s, ProofsChain.creach s ->
  Chain.csize s = (Z.of_nat (length (Chain.cabs s)) + Z.of_nat (length (Chain.cpending_k s))
                   + ProofsChainCounter.inflight (Chain.cprod s))%Z.
Proof. exact ProofsChainCounter.chain_size_counter. Qed.
(* with no call in flight c.size is exactly the number of stored values *)
Theorem C13_chain_size_quiescent : forall s, ProofsChain.creach s -> ProofsChainCounter.quiescent s ->
  Chain.csize s = Z.of_nat (length (Chain.cabs s)).
Proof. exact ProofsChainCounter.chain_size_quiescent. Qed.
(* in general c.size is at least the stored count and exceeds it by at most the number of calls in flight *)
Theorem C13_chain_size_bounds : forall s, ProofsChain.creach s ->
  (Z.of_nat (length (Chain.cabs s)) <= Chain.csize s <=
   Z.of_nat (length (Chain.cabs s)) + Z.of_nat (ProofsChainCounter.calls_in_flight s))%Z.
Proof. exact ProofsChainCounter.chain_size_bounds. Qed.

(* Pool.gc(): size, head, tail = 0, nil, nil with the world stopped, as a step GGC enabled only when no call is in
   flight.  For every start state reachable in Chain.v and every schedule of chain steps and collections: the
   current chain is again a reachable state of Chain.v (after a collection it IS the zero chain), so the invariant
   and every chain theorem above hold in every epoch; every closed epoch is a complete history (no pending call)
   that linearizes to the sequential deque ending in the contents dropped by the collection, and its pushed
   values are its popped values plus the dropped ones - dropped values are never handed out afterwards *)
Theorem C13_chain_gc_preserves : forall s0 gs, ProofsChain.creach s0 ->
  let g := ChainGC.grun (ChainGC.gmk s0 []) gs in
  ProofsChain.creach (ChainGC.g_cur g) /\ ProofsChain.CInv (ChainGC.g_cur g) /\
  Forall ProofsChainGC.epoch_ok (ChainGC.g_past g).
Proof. exact ProofsChainGC.chain_gc_preserves. Qed.
Theorem C13_chain_gc_step : forall g, ProofsChain.creach (ChainGC.g_cur g) ->
  (ChainGC.quiescentb (ChainGC.g_cur g) = false -> ChainGC.gstep g ChainGC.GGC = g) /\
  (ChainGC.quiescentb (ChainGC.g_cur g) = true ->
     ChainGC.g_cur (ChainGC.gstep g ChainGC.GGC) =
       Chain.cinit (Chain.cn0 (ChainGC.g_cur g)) (length (Chain.cthieves (ChainGC.g_cur g))) /\
     Chain.csize (ChainGC.g_cur g) = Z.of_nat (length (Chain.cabs (ChainGC.g_cur g))) /\
     ChainGC.g_past (ChainGC.gstep g ChainGC.GGC) =
       ChainGC.mkepoch (Chain.clog (ChainGC.g_cur g)) (Chain.ctrace (ChainGC.g_cur g)) (Chain.cabs (ChainGC.g_cur g))
       :: ChainGC.g_past g).
Proof. exact ProofsChainGC.chain_gc_step. Qed.
(* the ghost erasure extends to runs with collections *)
Theorem C13_chain_gc_ghost_free : forall gs g,
  ChainGC.gerase (ChainGC.grun g gs) = ChainGC.rgrun (ChainGC.gerase g) gs.
Proof. exact ProofsChainGC.gerase_run. Qed.

(* non-vacuity: on rings of 2 and 4 slots: three pushes (the third overflows), one steal, then a collection (the
   state is quiescent: it happens), then a push and a popHead in the new epoch; a collection attempted while the
   producer is inside pushHead does nothing.  The closed epoch dropped [3; 2]; the counter was 2 at the collection *)
Example C13_chain_gc_nonvacuous :
  let L := ChainGC.GL in
  let P := Dequeue.LProd in
  let push v := [L (Dequeue.LPush v); L P; L P; L P; L P; L P; L P; L P; L P; L P; L P; L P] in
  let steal := [L (Dequeue.LThief 0); L (Dequeue.LThief 0); L (Dequeue.LThief 0); L (Dequeue.LThief 0);
                L (Dequeue.LThief 0); L (Dequeue.LThief 0); L (Dequeue.LThief 0)] in
  let g1 := ChainGC.grun (ChainGC.gmk (Chain.cinit 2 1) []) (push 1 ++ push 2 ++ push 3 ++ steal) in
  let g2 := ChainGC.gstep g1 ChainGC.GGC in
  let g3 := ChainGC.grun g2 (push 4 ++ [L Dequeue.LPop; L P; L P; L P; L P; L P]) in
  let g4 := ChainGC.grun g3 [L (Dequeue.LPush 5); L P] in
  ProofsChain.creach (Chain.cinit 2 1) /\
  ChainGC.quiescentb (ChainGC.g_cur g1) = true /\ Chain.csize (ChainGC.g_cur g1) = 2%Z /\
  Chain.cabs (ChainGC.g_cur g1) = [3; 2] /\ length (Chain.rings (ChainGC.g_cur g1)) = 2 /\
  ChainGC.g_cur g2 = Chain.cinit 2 1 /\ map ChainGC.ep_dropped (ChainGC.g_past g2) = [[3; 2]] /\
  map (fun c => snd (fst c)) (Chain.ctrace (ChainGC.g_cur g3)) =
    [Dequeue.EPush 4 true; Dequeue.EPopHead (Dequeue.Got (Some 4))] /\
  Chain.csize (ChainGC.g_cur g3) = 0%Z /\
  ChainGC.quiescentb (ChainGC.g_cur g4) = false /\ ChainGC.gstep g4 ChainGC.GGC = g4 /\
  ChainReal.rc_size (ChainGC.rg_cur (ChainGC.gerase g4)) = 1%Z.
Proof.
  cbv zeta. assert (H2 : ProofsChainRing.pow2size 2) by (exists 1%Z; repeat split; easy).
  split; [exact (ProofsChain.cr_zero 2 1 [] H2)|].
  vm_compute. repeat split; reflexivity.
Qed.

Print Assumptions C13_chain_ghost_free_step.
Print Assumptions C13_chain_ghost_free.
Print Assumptions C13_chain_ghost_free_at.
Print Assumptions C13_chain_size.
Print Assumptions C13_chain_size_quiescent.
Print Assumptions C13_chain_size_bounds.
Print Assumptions C13_chain_gc_preserves.
Print Assumptions C13_chain_gc_step.
Print Assumptions C13_chain_gc_ghost_free.
