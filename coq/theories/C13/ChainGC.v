(* C13 - poolChain under Pool.gc().  DEFINITIONS ONLY (proofs in ProofsChainGC.v).
   pool.go, gc():   l.shared[i].size, l.shared[i].head, l.shared[i].tail = 0, nil, nil
   runs with the world stopped: no Get/Put - hence no poolChain call - is in flight.  The step GGC is therefore
   enabled only in quiescent states (producer idle, every thief between two popTail calls); it makes all rings
   unreachable (the model forgets them: ring indexes restart at 0), resets head, tail and size, and closes the
   current epoch of the ghost history: the epoch's log, its trace and the values still stored (dropped by the
   collection, they are never handed out again) are recorded in g_past, and a new, empty log starts. *)
From Coq Require Import ZArith List Bool.
From VF Require Import C13.Dequeue C13.Chain C13.ChainReal.
Import ListNotations.
Open Scope Z_scope.

Inductive glabel := GL (l : label) | GGC.

Definition idle_k (k : ckstate) : bool := match k with K0 => true | _ => false end.
Definition quiescentb (s : cstate) : bool :=
  match cprod s with CIdle => forallb idle_k (cthieves s) | _ => false end.

Definition gc_reset (s : cstate) : cstate := cmk (cn0 s) [] None None 0 (cprod s) (cthieves s) [] [].

Record epoch := mkepoch {
  ep_log : list (nat * event);          (* calls of the epoch in the order of their linearization points *)
  ep_trace : list (nat * event * nat);  (* completed calls of the epoch *)
  ep_dropped : list V                   (* contents at the collection *)
}.
Record gstate := gmk { g_cur : cstate; g_past : list epoch }.

Definition gstep (g : gstate) (gl : glabel) : gstate :=
  match gl with
  | GL l => gmk (cstep (g_cur g) l) (g_past g)
  | GGC => if quiescentb (g_cur g)
           then gmk (gc_reset (g_cur g))
                    (mkepoch (clog (g_cur g)) (ctrace (g_cur g)) (cabs (g_cur g)) :: g_past g)
           else g
  end.
Definition grun (g : gstate) (gs : list glabel) : gstate := fold_left gstep gs g.

(* ---- the same on the ghost-free machine ---- *)
Definition ridle_k (k : rckstate) : bool := match k with RK0 => true | _ => false end.
Definition rquiescentb (s : rcstate) : bool :=
  match rc_prod s with RCIdle => forallb ridle_k (rc_thieves s) | _ => false end.
Definition rgc_reset (s : rcstate) : rcstate := rcmk (rc_n0 s) [] None None 0 (rc_prod s) (rc_thieves s) [].
Record rgstate := rgmk { rg_cur : rcstate; rg_past : list (list (nat * event)) }.
Definition rgstep (g : rgstate) (gl : glabel) : rgstate :=
  match gl with
  | GL l => rgmk (rcstep (rg_cur g) l) (rg_past g)
  | GGC => if rquiescentb (rg_cur g)
           then rgmk (rgc_reset (rg_cur g)) (rc_trace (rg_cur g) :: rg_past g)
           else g
  end.
Definition rgrun (g : rgstate) (gs : list glabel) : rgstate := fold_left rgstep gs g.
Definition gerase (g : gstate) : rgstate :=
  rgmk (cerase (g_cur g)) (map (fun e => map (fun c => fst c) (ep_trace e)) (g_past g)).
