(* C13 proofs, part 2: pool ownership for every schedule of the modelled steps;
   part 3: the pool history checker decides its Prop. *)
From VF Require Import Common.Base C13.PoolModel C13.PoolHist.

(* ---- counting occurrences ---- *)
Fixpoint cnt (y : nat) (l : list nat) : nat :=
  match l with [] => 0 | x :: t => (if y =? x then 1 else 0) + cnt y t end.

Lemma cnt_app y a b : cnt y (a ++ b) = cnt y a + cnt y b.
Proof. induction a as [|x a IH]; simpl; [reflexivity|]. rewrite IH. lia. Qed.
Lemma cnt_In y l : In y l <-> 0 < cnt y l.
Proof.
  induction l as [|x l IH]; simpl; [split; [tauto|lia]|].
  destruct (Nat.eqb_spec y x) as [->|Hne]; split; intros H; try lia; auto.
  - destruct H as [H|H]; [congruence|]. apply IH in H. lia.
  - right. apply IH. lia.
Qed.
Lemma cnt_NoDup l : NoDup l <-> forall y, cnt y l <= 1.
Proof.
  induction l as [|x l IH]; simpl.
  - split; [intros _ y; lia|constructor].
  - split.
    + intros H y. inversion H as [|? ? Hn Hd]; subst. pose proof (proj1 IH Hd y) as Hd'.
      destruct (Nat.eqb_spec y x) as [->|Hne]; [|lia].
      assert (cnt x l = 0); [|lia]. destruct (cnt x l) eqn:E; auto. exfalso. apply Hn. apply cnt_In. lia.
    + intros H. constructor.
      * intros Hin. apply cnt_In in Hin. specialize (H x). rewrite Nat.eqb_refl in H. lia.
      * apply (proj2 IH). intros y. specialize (H y). destruct (y =? x); lia.
Qed.
Lemma cnt_remove y x l : cnt y (remove Nat.eq_dec x l) = if y =? x then 0 else cnt y l.
Proof.
  induction l as [|a l IH]; simpl; [destruct (y =? x); reflexivity|].
  destruct (Nat.eq_dec x a) as [->|Hne].
  - rewrite IH. destruct (Nat.eqb_spec y a); lia.
  - simpl. rewrite IH. destruct (Nat.eqb_spec y x) as [->|]; [|reflexivity].
    destruct (Nat.eqb_spec x a); [congruence|reflexivity].
Qed.

Lemma nth_error_upd_same {A} (l : list A) i x y : nth_error l i = Some y -> nth_error (upd l i x) i = Some x.
Proof. revert i. induction l as [|a l IH]; intros [|i]; simpl; try discriminate; auto. Qed.
Lemma nth_error_upd_other {A} (l : list A) i j x : i <> j -> nth_error (upd l i x) j = nth_error l j.
Proof. revert i j. induction l as [|a l IH]; intros [|i] [|j] H; simpl; auto; try congruence. Qed.

Lemma split_last_spec {A} (l : list A) i z : split_last l = Some (i, z) -> l = i ++ [z].
Proof.
  revert i z. induction l as [|a l IH]; intros i z; simpl; [discriminate|].
  destruct (split_last l) as [[i' z']|] eqn:E.
  - intros H. inversion H; subst. simpl. f_equal. now apply IH.
  - intros H. inversion H; subst. destruct l as [|b l]; [reflexivity|].
    simpl in E. destruct (split_last l) as [[? ?]|]; discriminate.
Qed.

Lemma cnt_concat_upd (g : plocal -> list nat) y : forall l0 p l l',
  nth_error l0 p = Some l ->
  cnt y (concat (map g (upd l0 p l'))) + cnt y (g l) = cnt y (concat (map g l0)) + cnt y (g l').
Proof.
  induction l0 as [|a l0 IH]; intros [|p] l l' H; simpl in *; try discriminate.
  - inversion H; subst. rewrite !cnt_app. lia.
  - rewrite !cnt_app. specialize (IH p l l' H). lia.
Qed.

Lemma stored_repeat n : concat (map stored_p (repeat pl0 n)) = [].
Proof. induction n; simpl; auto. Qed.

Section Own.
Variable B : nat.
Variable has_new : bool.
Notation step := (step B has_new).
Notation run := (run B has_new).
Notation disciplined := (disciplined B has_new).
Notation trace_ok := (trace_ok has_new).

Lemma stored_set w p l l' y :
  nth_error (ps w) p = Some l ->
  cnt y (stored (set_local w p l')) + cnt y (stored_p l) = cnt y (stored w) + cnt y (stored_p l').
Proof. intros H. unfold stored, set_local. simpl. now apply cnt_concat_upd. Qed.

(* every object the pool or a caller holds is distinct and below the New counter; stored objects were put;
   everything ever returned is below the New counter *)
Record PInv (w : world) (puts known : list obj) : Prop := {
  pi_nodup : forall y, cnt y (stored w) + cnt y (out w) <= 1;
  pi_fresh : forall y, 0 < cnt y (stored w) + cnt y (out w) -> y < fresh w;
  pi_puts : forall y, 0 < cnt y (stored w) -> In y puts;
  pi_known : forall y, In y known -> y < fresh w
}.

Definition ev_ok (puts known : list obj) (a : act) (r : option obj) : Prop :=
  match a, r with
  | Get _ _, Some x => In x puts \/ ~ In x known
  | Get _ _, None => has_new = false
  | _, _ => True
  end.
Definition puts_after (puts : list obj) (a : act) : list obj :=
  match a with Put _ x _ => x :: puts | _ => puts end.
Definition known_after (known : list obj) (a : act) (r : option obj) : list obj :=
  match a, r with Get _ _, Some x => x :: known | _, _ => known end.

Lemma new_obj_inv w puts known p st :
  PInv w puts known ->
  let '(w', r) := new_obj has_new w in
  PInv w' puts (known_after known (Get p st) r) /\ ev_ok puts known (Get p st) r.
Proof.
  intros [Hn Hf Hp Hk]. unfold new_obj. destruct has_new eqn:Eh.
  - split.
    + constructor; cbn [ps out fresh stored]; unfold stored in *; cbn [ps].
      * intros y. simpl. specialize (Hn y). specialize (Hf y).
        destruct (Nat.eqb_spec y (fresh w)) as [->|]; lia.
      * intros y. simpl. specialize (Hf y). destruct (Nat.eqb_spec y (fresh w)) as [->|]; lia.
      * exact Hp.
      * intros y [<-|Hy]; [lia|]. specialize (Hk y Hy). lia.
    + simpl. right. intros Hin. specialize (Hk _ Hin). lia.
  - split; [constructor; auto|simpl; auto].
Qed.

(* taking x out of the pool *)
Lemma take_inv w w' x puts known :
  PInv w puts known -> fresh w' = fresh w -> out w' = x :: out w ->
  (forall y, cnt y (stored w') + (if y =? x then 1 else 0) = cnt y (stored w)) ->
  PInv w' puts (x :: known) /\ (In x puts \/ ~ In x known).
Proof.
  intros [Hn Hf Hp Hk] Hfr Ho Hs. split.
  - constructor; rewrite ?Hfr, ?Ho.
    + intros y. simpl. specialize (Hs y). specialize (Hn y). lia.
    + intros y. simpl. specialize (Hs y). specialize (Hf y). lia.
    + intros y Hy. apply Hp. specialize (Hs y). lia.
    + intros y [Hy|Hy]; [subst y|auto]. apply Hf. specialize (Hs x). rewrite Nat.eqb_refl in Hs. lia.
  - left. apply Hp. specialize (Hs x). rewrite Nat.eqb_refl in Hs. lia.
Qed.

Theorem step_inv w a puts known :
  PInv w puts known -> (match a with Put _ x _ => In x (out w) | _ => True end) ->
  let '(w', r) := step w a in
  PInv w' (puts_after puts a) (known_after known a r) /\ ev_ok puts known a r.
Proof.
  intros HI Hdisc. destruct a as [p x st|p st|p|n]; cbn [PoolModel.step].
  - (* Put *)
    destruct (nth_error (ps w) p) as [l|] eqn:El.
    2:{ split; [|exact I]. destruct HI as [Hn Hf Hp Hk]. constructor; auto. intros y Hy. right. now apply Hp. }
    destruct HI as [Hn Hf Hp Hk].
    assert (Hx1 : cnt x (out w) = 1 /\ cnt x (stored w) = 0).
    { apply cnt_In in Hdisc. specialize (Hn x). lia. }
    set (w0 := {| ps := ps w; out := remove Nat.eq_dec x (out w); fresh := fresh w |}).
    assert (El0 : nth_error (ps w0) p = Some l) by exact El.
    (* whatever the branch, the result is: p's local gets x on top, other counts unchanged *)
    assert (Hgoal : forall w', fresh w' = fresh w -> out w' = remove Nat.eq_dec x (out w) ->
              (forall y, cnt y (stored w') = cnt y (stored w) + (if y =? x then 1 else 0)) ->
              PInv w' (x :: puts) known /\ True).
    { intros w' Hfr Ho Hs. split; [|exact I]. constructor; rewrite ?Hfr, ?Ho.
      - intros y. rewrite cnt_remove, Hs. specialize (Hn y). destruct (Nat.eqb_spec y x) as [->|]; lia.
      - intros y. rewrite cnt_remove, Hs. specialize (Hf y). destruct (Nat.eqb_spec y x) as [->|]; lia.
      - intros y. rewrite Hs. destruct (Nat.eqb_spec y x) as [Hyx|Hyx]; intros Hy; [left; congruence|right; apply Hp; lia].
      - exact Hk. }
    set (l1 := match priv l with
               | Some b => if B <=? length b then {| priv := None; shared := b :: shared l; unused := unused l |} else l
               | None => l end).
    assert (Hl1 : forall y, cnt y (stored_p l1) = cnt y (stored_p l)).
    { intros y. unfold l1. destruct (priv l) as [b|] eqn:Ep; [|reflexivity].
      destruct (B <=? length b); [|reflexivity]. unfold stored_p. rewrite Ep. simpl. rewrite !cnt_app. lia. }
    destruct (priv l1) as [b|] eqn:Ep1.
    + apply Hgoal; cbn [set_local fresh out w0]; auto.
      intros y. pose proof (stored_set w0 p l {| priv := Some (x :: b); shared := shared l1; unused := unused l1 |} y El0) as H.
      unfold stored_p at 2 in H. cbn [priv shared] in H. simpl in H.
      specialize (Hl1 y). unfold stored_p at 1 in Hl1. rewrite Ep1 in Hl1.
      change (stored w0) with (stored w) in H. lia.
    + destruct (0 <? unused l1).
      * apply Hgoal; cbn [set_local fresh out w0]; auto.
        intros y. pose proof (stored_set w0 p l {| priv := Some [x]; shared := shared l1; unused := unused l1 - 1 |} y El0) as H.
        unfold stored_p at 2 in H. cbn [priv shared] in H. simpl in H.
        specialize (Hl1 y). unfold stored_p at 1 in Hl1. rewrite Ep1 in Hl1. simpl in Hl1.
        change (stored w0) with (stored w) in H. lia.
      * (* possibly an empty block stolen from q: q's objects unchanged *)
        set (w1 := match st with
                   | Some q => match nth_error (ps w0) q with
                               | Some lq => if (0 <? unused lq) && negb (q =? p)
                                            then set_local w0 q {| priv := priv lq; shared := shared lq; unused := unused lq - 1 |}
                                            else w0
                               | None => w0 end
                   | None => w0 end).
        assert (Hw1 : fresh w1 = fresh w /\ out w1 = remove Nat.eq_dec x (out w) /\
                      nth_error (ps w1) p = Some l /\ forall y, cnt y (stored w1) = cnt y (stored w)).
        { unfold w1. destruct st as [q|]; [|repeat split; auto].
          destruct (nth_error (ps w0) q) as [lq|] eqn:Eq; [|repeat split; auto].
          destruct ((0 <? unused lq) && negb (q =? p)) eqn:Ec; [|repeat split; auto].
          apply andb_true_iff in Ec as [_ Ec]. apply negb_true_iff in Ec. apply Nat.eqb_neq in Ec.
          repeat split; auto.
          - cbn [set_local ps]. rewrite nth_error_upd_other by auto. exact El.
          - intros y. pose proof (stored_set w0 q lq {| priv := priv lq; shared := shared lq; unused := unused lq - 1 |} y Eq) as H.
            unfold stored_p in H. cbn [priv shared] in H. change (stored w0) with (stored w) in H. lia. }
        destruct Hw1 as (Hf1 & Ho1 & Ep & Hs1).
        apply Hgoal; cbn [set_local fresh out]; auto.
        intros y. pose proof (stored_set w1 p l {| priv := Some [x]; shared := shared l1; unused := unused l1 |} y Ep) as H.
        unfold stored_p at 2 in H. cbn [priv shared] in H. simpl in H.
        specialize (Hl1 y). unfold stored_p at 1 in Hl1. rewrite Ep1 in Hl1. simpl in Hl1.
        rewrite Hs1 in H. lia.
  - (* Get *)
    destruct (nth_error (ps w) p) as [l|] eqn:El; [|apply new_obj_inv; exact HI].
    assert (Htake : forall w' x, fresh w' = fresh w -> out w' = x :: out w ->
              (forall y, cnt y (stored w') + (if y =? x then 1 else 0) = cnt y (stored w)) ->
              PInv w' puts (x :: known) /\ (In x puts \/ ~ In x known)).
    { intros w' x. apply take_inv. exact HI. }
    destruct (priv l) as [[|x b]|] eqn:Ep.
    + (* private block empty *)
      destruct (shared l) as [|[|x b] rest] eqn:Es.
      * destruct st as [q|]; [|apply new_obj_inv; exact HI].
        destruct (nth_error (ps w) q) as [lq|] eqn:Eq; [|apply new_obj_inv; exact HI].
        destruct (split_last (shared lq)) as [[rest [|x b]]|] eqn:Esl; try (apply new_obj_inv; exact HI).
        assert (Hqp : q <> p).
        { intros ->. rewrite El in Eq. inversion Eq; subst lq. rewrite Es in Esl. discriminate. }
        apply split_last_spec in Esl.
        cbn [known_after ev_ok]. apply Htake; cbn [fresh out]; auto.
        intros y.
        set (w1 := set_local w q {| priv := priv lq; shared := rest; unused := unused lq |}).
        assert (Ep1 : nth_error (ps w1) p = Some l) by (cbn [w1 set_local ps]; rewrite nth_error_upd_other by auto; exact El).
        pose proof (stored_set w q lq {| priv := priv lq; shared := rest; unused := unused lq |} y Eq) as H1.
        pose proof (stored_set w1 p l {| priv := Some b; shared := []; unused := S (unused l) |} y Ep1) as H2.
        unfold stored_p in H1, H2. cbn [priv shared] in H1, H2. rewrite Ep, Es in H2. rewrite Esl in H1.
        rewrite concat_app in H1. simpl in H1, H2. rewrite ?cnt_app in H1. simpl in H1. rewrite ?cnt_app in H1. simpl in H1.
        rewrite ?cnt_app in H2. simpl in H2.
        change (stored (set_local w1 p {| priv := Some b; shared := []; unused := S (unused l) |}))
          with (stored {| ps := upd (ps w1) p {| priv := Some b; shared := []; unused := S (unused l) |}; out := x :: out w; fresh := fresh w |}) in H2.
        fold w1 in H1. lia.
      * (* an empty block in the chain *)
        set (w1 := set_local w p {| priv := Some []; shared := rest; unused := S (unused l) |}).
        assert (HI1 : PInv w1 puts known).
        { destruct HI as [Hn Hf Hp Hk].
          assert (Hs : forall y, cnt y (stored w1) = cnt y (stored w)).
          { intros y. pose proof (stored_set w p l {| priv := Some []; shared := rest; unused := S (unused l) |} y El) as H.
            unfold stored_p in H. cbn [priv shared] in H. rewrite Ep, Es in H. simpl in H. fold w1 in H. lia. }
          constructor; cbn [w1 set_local out fresh]; fold w1; auto.
          - intros y. rewrite Hs. apply Hn.
          - intros y. rewrite Hs. apply Hf.
          - intros y. rewrite Hs. apply Hp. }
        apply new_obj_inv. exact HI1.
      * cbn [known_after ev_ok]. apply Htake; cbn [fresh out]; auto.
        intros y. pose proof (stored_set w p l {| priv := Some b; shared := rest; unused := S (unused l) |} y El) as H.
        unfold stored_p in H. cbn [priv shared] in H. rewrite Ep, Es in H. simpl in H. rewrite ?cnt_app in H. simpl in H. rewrite ?cnt_app in H.
        change (stored (set_local w p {| priv := Some b; shared := rest; unused := S (unused l) |}))
          with (stored {| ps := upd (ps w) p {| priv := Some b; shared := rest; unused := S (unused l) |}; out := x :: out w; fresh := fresh w |}) in H.
        lia.
    + (* top of the private stack *)
      cbn [known_after ev_ok]. apply Htake; cbn [fresh out]; auto.
      intros y. pose proof (stored_set w p l {| priv := Some b; shared := shared l; unused := unused l |} y El) as H.
      unfold stored_p in H. cbn [priv shared] in H. rewrite Ep in H. simpl in H. rewrite ?cnt_app in H.
      change (stored (set_local w p {| priv := Some b; shared := shared l; unused := unused l |}))
        with (stored {| ps := upd (ps w) p {| priv := Some b; shared := shared l; unused := unused l |}; out := x :: out w; fresh := fresh w |}) in H.
      lia.
    + (* private == nil *)
      destruct (shared l) as [|[|x b] rest] eqn:Es.
      * destruct st as [q|]; [|apply new_obj_inv; exact HI].
        destruct (nth_error (ps w) q) as [lq|] eqn:Eq; [|apply new_obj_inv; exact HI].
        destruct (split_last (shared lq)) as [[rest [|x b]]|] eqn:Esl; try (apply new_obj_inv; exact HI).
        assert (Hqp : q <> p).
        { intros ->. rewrite El in Eq. inversion Eq; subst lq. rewrite Es in Esl. discriminate. }
        apply split_last_spec in Esl.
        cbn [known_after ev_ok]. apply Htake; cbn [fresh out]; auto.
        intros y.
        set (w1 := set_local w q {| priv := priv lq; shared := rest; unused := unused lq |}).
        assert (Ep1 : nth_error (ps w1) p = Some l) by (cbn [w1 set_local ps]; rewrite nth_error_upd_other by auto; exact El).
        pose proof (stored_set w q lq {| priv := priv lq; shared := rest; unused := unused lq |} y Eq) as H1.
        pose proof (stored_set w1 p l {| priv := Some b; shared := []; unused := unused l |} y Ep1) as H2.
        unfold stored_p in H1, H2. cbn [priv shared] in H1, H2. rewrite Ep, Es in H2. rewrite Esl in H1.
        rewrite concat_app in H1. simpl in H1, H2. rewrite ?cnt_app in H1. simpl in H1. rewrite ?cnt_app in H1. simpl in H1.
        rewrite ?cnt_app in H2. simpl in H2.
        change (stored (set_local w1 p {| priv := Some b; shared := []; unused := unused l |}))
          with (stored {| ps := upd (ps w1) p {| priv := Some b; shared := []; unused := unused l |}; out := x :: out w; fresh := fresh w |}) in H2.
        fold w1 in H1. lia.
      * set (w1 := set_local w p {| priv := Some []; shared := rest; unused := unused l |}).
        assert (HI1 : PInv w1 puts known).
        { destruct HI as [Hn Hf Hp Hk].
          assert (Hs : forall y, cnt y (stored w1) = cnt y (stored w)).
          { intros y. pose proof (stored_set w p l {| priv := Some []; shared := rest; unused := unused l |} y El) as H.
            unfold stored_p in H. cbn [priv shared] in H. rewrite Ep, Es in H. simpl in H. fold w1 in H. lia. }
          constructor; cbn [w1 set_local out fresh]; fold w1; auto.
          - intros y. rewrite Hs. apply Hn.
          - intros y. rewrite Hs. apply Hf.
          - intros y. rewrite Hs. apply Hp. }
        apply new_obj_inv. exact HI1.
      * cbn [known_after ev_ok]. apply Htake; cbn [fresh out]; auto.
        intros y. pose proof (stored_set w p l {| priv := Some b; shared := rest; unused := unused l |} y El) as H.
        unfold stored_p in H. cbn [priv shared] in H. rewrite Ep, Es in H. simpl in H. rewrite ?cnt_app in H. simpl in H. rewrite ?cnt_app in H.
        change (stored (set_local w p {| priv := Some b; shared := rest; unused := unused l |}))
          with (stored {| ps := upd (ps w) p {| priv := Some b; shared := rest; unused := unused l |}; out := x :: out w; fresh := fresh w |}) in H.
        lia.
  - (* GC *)
    destruct (nth_error (ps w) p) as [l|] eqn:El; [|split; [exact HI|exact I]].
    split; [|exact I]. destruct HI as [Hn Hf Hp Hk].
    assert (Hs : forall y, cnt y (stored (set_local w p {| priv := priv l; shared := []; unused := 0 |})) <= cnt y (stored w)).
    { intros y. pose proof (stored_set w p l {| priv := priv l; shared := []; unused := 0 |} y El) as H.
      unfold stored_p in H. cbn [priv shared] in H. simpl in H. rewrite ?cnt_app in H. simpl in H. lia. }
    constructor; cbn [set_local out fresh]; auto.
    + intros y. specialize (Hs y). specialize (Hn y). cbn [set_local] in Hs. lia.
    + intros y Hy. apply Hf. specialize (Hs y). cbn [set_local] in Hs. lia.
    + intros y Hy. apply Hp. specialize (Hs y). cbn [set_local] in Hs. lia.
  - (* Resize *)
    split; [|exact I]. destruct HI as [Hn Hf Hp Hk].
    constructor; unfold stored; cbn [ps out fresh]; rewrite ?stored_repeat; simpl; auto.
    + intros y. specialize (Hn y). lia.
    + intros y Hy. apply Hf. lia.
    + intros y Hy. lia.
Qed.

Lemma pool0_inv procs : PInv (pool0 procs) [] [].
Proof.
  constructor; unfold pool0, stored; cbn [ps out fresh]; rewrite ?stored_repeat; simpl; intros; try lia; tauto.
Qed.

Lemma run_inv : forall sched w puts known,
  PInv w puts known -> disciplined w sched ->
  exists puts' known', PInv (fst (run w sched)) puts' known' /\ trace_ok puts known (snd (run w sched)).
Proof.
  induction sched as [|a sched IH]; intros w puts known HI Hd; cbn [PoolModel.run].
  - exists puts, known. split; [exact HI|exact I].
  - cbn [PoolModel.disciplined] in Hd. destruct Hd as [Ha Hd].
    pose proof (step_inv w a puts known HI Ha) as Hs.
    destruct (step w a) as [w1 r] eqn:Est. destruct Hs as [HI1 Hev]. cbn [fst] in Hd.
    destruct (IH w1 _ _ HI1 Hd) as (puts' & known' & HI2 & Htr).
    destruct (run w1 sched) as [w2 tr]. cbn [fst snd] in *.
    exists puts', known'. split; [exact HI2|].
    destruct a as [p x st|p st|p|n]; cbn [PoolModel.trace_ok puts_after known_after ev_ok] in *; auto.
    destruct r as [x|]; cbn [known_after] in *; auto.
Qed.

Theorem pool_ownership_proof procs sched :
  disciplined (pool0 procs) sched ->
  let w := fst (run (pool0 procs) sched) in
  let tr := snd (run (pool0 procs) sched) in
  NoDup (stored w ++ out w) /\ trace_ok [] [] tr /\
  (has_new = true -> forall a, In (a, None) tr -> match a with Get _ _ => False | _ => True end).
Proof.
  intros Hd. destruct (run_inv sched (pool0 procs) [] [] (pool0_inv procs) Hd) as (puts' & known' & HI & Htr).
  cbv zeta. split; [|split; [exact Htr|]].
  - apply cnt_NoDup. intros y. rewrite cnt_app. apply (pi_nodup _ _ _ HI).
  - intros Hn. clear HI. revert Htr. generalize (snd (run (pool0 procs) sched)). generalize (@nil obj) at 1. generalize (@nil obj).
    intros kn pu tr. revert kn pu. induction tr as [|[a r] tr IH]; intros kn pu Htr a0 Hin; [destruct Hin|].
    destruct Hin as [Hin|Hin].
    + inversion Hin; subst a r. destruct a0; auto. cbn [PoolModel.trace_ok] in Htr. destruct Htr as [Hf _]. congruence.
    + destruct a as [p x st|p st|p|n]; cbn [PoolModel.trace_ok] in Htr; try (eapply IH; eauto; fail).
      destruct r as [x|]; destruct Htr as [_ Htr]; eapply IH; eauto.
Qed.

End Own.

(* ---- part 3: the history checker ---- *)
Local Open Scope Z_scope.

Lemma is_put_b_ok x e : is_put_b x e = true <-> is_put x e.
Proof.
  unfold is_put_b, is_put. destruct (pwhat e); try (split; [discriminate|congruence]).
  rewrite Z.eqb_eq. split; congruence.
Qed.

Theorem exclusive_ok h : exclusive_b h = true <-> Exclusive h.
Proof.
  unfold exclusive_b, Exclusive. split.
  - intros H g1 g2 x H1 H2 [b1 E1] [b2 E2] Hlt.
    rewrite forallb_forall in H. specialize (H g1 H1). rewrite E1 in H.
    rewrite forallb_forall in H. specialize (H g2 H2). rewrite E2 in H.
    rewrite Z.eqb_refl in H. apply Z.ltb_lt in Hlt. rewrite Hlt in H. simpl in H.
    apply existsb_exists in H as (p & Hp & Hc). apply andb_true_iff in Hc as [Hc H3]. apply andb_true_iff in Hc as [Hc1 Hc2].
    exists p. repeat split; auto; [now apply is_put_b_ok|now apply Z.ltb_lt|now apply Z.ltb_lt].
  - intros H. apply forallb_forall. intros g1 H1. destruct (pwhat g1) as [[x|] b1|] eqn:E1; auto.
    apply forallb_forall. intros g2 H2. destruct (pwhat g2) as [[y|] b2|] eqn:E2; auto.
    destruct ((x =? y) && (presp g1 <? presp g2)) eqn:Ec; auto.
    apply andb_true_iff in Ec as [Exy Hlt]. apply Z.eqb_eq in Exy. subst y. apply Z.ltb_lt in Hlt.
    destruct (H g1 g2 x H1 H2 (ex_intro _ b1 E1) (ex_intro _ b2 E2) Hlt) as (p & Hp & Pp & Ha & Hb).
    apply existsb_exists. exists p. split; auto.
    apply andb_true_iff. split; [apply andb_true_iff; split|]; [now apply is_put_b_ok|now apply Z.ltb_lt|now apply Z.ltb_lt].
Qed.

Theorem putornew_ok h : putornew_b h = true <-> PutOrNew h.
Proof.
  unfold putornew_b, PutOrNew. rewrite forallb_forall. split.
  - intros H g x b Hg Eg. specialize (H g Hg). rewrite Eg in H. apply orb_true_iff in H as [H|H].
    + left. apply existsb_exists in H as (p & Hp & Hc). apply andb_true_iff in Hc as [Hc1 Hc2].
      exists p. repeat split; auto; [now apply is_put_b_ok|now apply Z.ltb_lt].
    + right. apply andb_true_iff in H as [Ha Hb]. apply Z.ltb_lt in Ha. apply Z.ltb_lt in Hb. lia.
  - intros H g Hg. destruct (pwhat g) as [[x|] b|] eqn:Eg; auto.
    apply orb_true_iff. destruct (H g x b Hg Eg) as [(p & Hp & Pp & Hlt)|[Ha Hb]].
    + left. apply existsb_exists. exists p. split; auto. apply andb_true_iff. split; [now apply is_put_b_ok|now apply Z.ltb_lt].
    + right. apply andb_true_iff. split; now apply Z.ltb_lt.
Qed.

Theorem nevernil_ok hn h : nevernil_b hn h = true <-> NeverNil hn h.
Proof.
  unfold nevernil_b, NeverNil. destruct hn; simpl.
  - rewrite forallb_forall. split.
    + intros H _ g b Hg Eg. specialize (H g Hg). rewrite Eg in H. discriminate.
    + intros H g Hg. destruct (pwhat g) as [[x|] b|] eqn:Eg; auto. exfalso. exact (H eq_refl g b Hg Eg).
  - split; [intros _ Hf; discriminate|reflexivity].
Qed.

Theorem pool_hist_b_ok_proof hn h : pool_hist_b hn h = true <-> PoolHistOK hn h.
Proof.
  unfold pool_hist_b, PoolHistOK. rewrite !andb_true_iff, exclusive_ok, putornew_ok, nevernil_ok. tauto.
Qed.

Lemma znodup_b_ok l : znodup_b l = true <-> NoDup l.
Proof.
  induction l as [|x l IH]; simpl.
  - split; [constructor|reflexivity].
  - rewrite andb_true_iff, negb_true_iff, IH. split.
    + intros [H1 H2]. constructor; auto. intros Hin.
      assert (existsb (Z.eqb x) l = true) by (apply existsb_exists; exists x; split; auto; apply Z.eqb_refl).
      congruence.
    + intros H. inversion H as [|? ? Hn Hd]; subst. split; auto.
      destruct (existsb (Z.eqb x) l) eqn:E; auto. apply existsb_exists in E as (y & Hy & Ey).
      apply Z.eqb_eq in Ey. subst. contradiction.
Qed.
Theorem stamps_distinct_ok h : stamps_distinct_b h = true <-> StampsDistinct h.
Proof. apply znodup_b_ok. Qed.

Print Assumptions pool_ownership_proof.
Print Assumptions pool_hist_b_ok_proof.
