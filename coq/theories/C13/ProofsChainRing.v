(* C13 - poolChain: what one step of a ring's own machine (Dequeue.step) does, seen from the chain:
   the phase of the producer / of a thief inside the ring, the outcome functions of Chain.v, the abstract
   contents and the ghost linearization marker.  Used by ProofsChain.v. *)
From Coq Require Import ZArith Znumtheory List Bool Lia.
From VF Require Import C13.Dequeue C13.ProofsDequeue C13.Chain.
Import ListNotations.
Open Scope Z_scope.

Inductive pphase := PhIdle | PhPush (v : V) | PhSearch | PhHold (x : V).
Definition pph (p : pstate) : pphase :=
  match p with
  | PIdle => PhIdle
  | PP1 v | PP2 v _ | PP3 v _ | PP4 v => PhPush v
  | PH1 | PH2 _ _ => PhSearch
  | PH3 _ _ x | PH4 _ _ _ x => PhHold x
  end.
Inductive tphase := ThSearch | ThHold (x : V).
Definition tph (s : tstate) : tphase :=
  match s with T1 | T2 _ _ => ThSearch | T3 _ _ _ x | T4 _ _ _ _ x => ThHold x end.

Lemma nth_error_len_none : forall A (l : list A), nth_error l (length l) = None.
Proof. intros. apply nth_error_None. lia. Qed.

(* ---- frame ---- *)
Lemma step_thieves_same : forall q l, (forall j, l <> LThief j) -> thieves (step q l) = thieves q.
Proof.
  intros q l H. destruct l as [v | | | j]; unfold step.
  - destruct (prod q); reflexivity.
  - destruct (prod q); reflexivity.
  - unfold prod_step. destruct q as [n hv tv vs pr ths g_h g_t ab lg tr]. sp.
    destruct pr as [| v | v h | v h | v | | h t | i k x | i val k x]; sp; try reflexivity.
    + destruct ((tv + n) mod M32 =? hv); reflexivity.
    + destruct (rd vs (h mod n)); reflexivity.
    + destruct (tv =? hv); reflexivity.
    + destruct ((hv =? h) && (tv =? t)); reflexivity.
  - exfalso. apply (H j). reflexivity.
Qed.

Lemma step_thief_prod : forall q j, prod (step q (LThief j)) = prod q.
Proof.
  intros q j. unfold step, thief_step. destruct q as [n hv tv vs pr ths g_h g_t ab lg tr]. sp.
  destruct (nth_error ths j) as [s |]; [| reflexivity].
  destruct s as [| h t | i p k x | i val p k x]; sp; try reflexivity.
  - destruct (tv =? hv); reflexivity.
  - destruct ((hv =? h) && (tv =? t)); reflexivity.
Qed.

Lemma step_thief_thieves : forall q j,
  thieves (step q (LThief j)) = thieves q \/ exists s', thieves (step q (LThief j)) = upd (thieves q) j s'.
Proof.
  intros q j. unfold step, thief_step. destruct q as [n hv tv vs pr ths g_h g_t ab lg tr]. sp.
  destruct (nth_error ths j) as [s |]; [| left; reflexivity].
  destruct s as [| h t | i p k x | i val p k x]; sp.
  - destruct (tv =? hv); sp; [left; reflexivity | right; eexists; reflexivity].
  - destruct ((hv =? h) && (tv =? t)); sp; right; eexists; reflexivity.
  - right; eexists; reflexivity.
  - right; eexists; reflexivity.
Qed.

Lemma nth_error_upd_ne : forall A (l : list A) i j x, i <> j -> nth_error (upd l i x) j = nth_error l j.
Proof.
  intros A l. induction l as [| a l IH]; intros i j x H; [destruct i; reflexivity |].
  destruct i, j; cbn [upd nth_error]; try reflexivity; [congruence | apply IH; congruence].
Qed.

Lemma step_thief_others : forall q j j', j' <> j ->
  nth_error (thieves (step q (LThief j))) j' = nth_error (thieves q) j'.
Proof.
  intros q j j' H. destruct (step_thief_thieves q j) as [E | [s' E]]; rewrite E; [reflexivity |].
  apply nth_error_upd_ne. congruence.
Qed.

Lemma step_thieves_length : forall q l, length (thieves (step q l)) = length (thieves q).
Proof.
  intros q l. destruct l as [v | | | j].
  - rewrite step_thieves_same; [reflexivity | discriminate].
  - rewrite step_thieves_same; [reflexivity | discriminate].
  - rewrite step_thieves_same; [reflexivity | discriminate].
  - destruct (step_thief_thieves q j) as [E | [s' E]]; rewrite E; [reflexivity | apply upd_length].
Qed.

Lemma step_push_start : forall q v, prod q = PIdle ->
  prod (step q (LPush v)) = PP1 v /\ abs (step q (LPush v)) = abs q /\ thieves (step q (LPush v)) = thieves q /\
  head (step q (LPush v)) = head q /\ tail (step q (LPush v)) = tail q /\ vals (step q (LPush v)) = vals q /\
  sz (step q (LPush v)) = sz q.
Proof. intros q v H. unfold step. rewrite H. destruct q; sp. repeat split; reflexivity. Qed.

Lemma step_pop_start : forall q, prod q = PIdle ->
  prod (step q LPop) = PH1 /\ abs (step q LPop) = abs q /\ thieves (step q LPop) = thieves q.
Proof. intros q H. unfold step. rewrite H. destruct q; sp. repeat split; reflexivity. Qed.

(* ---- the producer inside pushHead ---- *)
Lemma push_step : forall q v, pph (prod q) = PhPush v ->
  match push_outcome q with
  | None => pph (prod (step q LProd)) = PhPush v /\ abs (step q LProd) = abs q
  | Some true => prod (step q LProd) = PIdle /\ abs (step q LProd) = v :: abs q
  | Some false => prod (step q LProd) = PIdle /\ abs (step q LProd) = abs q
  end.
Proof.
  intros q v H. unfold push_outcome, step, prod_step.
  destruct q as [n hv tv vs pr ths g_h g_t ab lg tr]. sp.
  destruct pr as [| w | w h | w h | w | | h t | i k x | i val k x]; cbn [pph] in H; try discriminate;
    injection H as ->; sp.
  - destruct ((tv + n) mod M32 =? hv); sp; split; reflexivity.
  - destruct (rd vs (h mod n)); sp; split; reflexivity.
  - split; reflexivity.
  - split; reflexivity.
Qed.

(* ---- the producer inside popHead, before its CAS ---- *)
Lemma search_step : forall q, Core q -> pph (prod q) = PhSearch ->
  match pop_outcome q with
  | Some Empty => prod (step q LProd) = PIdle /\ abs q = [] /\ abs (step q LProd) = [] /\ head_lp q (step q LProd) = None
  | Some (Got _) => False
  | None => (pph (prod (step q LProd)) = PhSearch /\ abs (step q LProd) = abs q /\ head_lp q (step q LProd) = None) \/
            (exists x, pph (prod (step q LProd)) = PhHold x /\ abs q = x :: abs (step q LProd) /\
                       head_lp q (step q LProd) = Some x)
  end.
Proof.
  intros q HC H. unfold pop_outcome, head_lp, new_lp, step, prod_step. unfold Core in HC.
  destruct q as [n hv tv vs pr ths g_h g_t ab lg tr]. sp.
  destruct pr as [| w | w h | w h | w | | h t | i k x | i val k x]; cbn [pph] in H; try discriminate; sp.
  - destruct (tv =? hv) eqn:E; sp.
    + apply Z.eqb_eq in E. apply (core_empty_iff _ _ _ _ _ _ _ _ _ HC) in E. subst ab.
      rewrite nth_error_snoc_new. repeat split; reflexivity.
    + left. rewrite nth_error_len_none. repeat split; reflexivity.
  - destruct ((hv =? h) && (tv =? t)) eqn:E; sp.
    + right. apply andb_true_iff in E. destruct E as [E1 E2].
      apply Z.eqb_eq in E1. apply Z.eqb_eq in E2. subst h t.
      assert (Hne : ab <> []).
      { intro E. apply (core_empty_iff _ _ _ _ _ _ _ _ _ HC) in E.
        apply (c_pinv _ _ _ _ _ _ _ _ _ HC). congruence. }
      destruct ab as [| x r]; [congruence |]. cbn [hd tl].
      exists x. rewrite nth_error_snoc_new. repeat split; reflexivity.
    + left. rewrite nth_error_len_none. repeat split; reflexivity.
Qed.

(* ---- the producer inside popHead, after its CAS ---- *)
Lemma hold_step : forall q x, Core q -> pph (prod q) = PhHold x ->
  abs (step q LProd) = abs q /\
  match pop_outcome q with
  | None => pph (prod (step q LProd)) = PhHold x
  | Some (Got val) => val = Some x /\ prod (step q LProd) = PIdle
  | Some Empty => False
  end.
Proof.
  intros q x HC H. unfold pop_outcome, step, prod_step. unfold Core in HC.
  destruct q as [n hv tv vs pr ths g_h g_t ab lg tr]. sp.
  destruct pr as [| w | w h | w h | w | | h t | i k y | i val k y]; cbn [pph] in H; try discriminate;
    injection H as ->; sp.
  - split; reflexivity.
  - split; [reflexivity |]. split; [| reflexivity].
    destruct (c_pinv _ _ _ _ _ _ _ _ _ HC) as (_ & _ & Hv). exact Hv.
Qed.

(* ---- a thief inside popTail, before its CAS ---- *)
Lemma tsearch_step : forall q j s, Core q -> nth_error (thieves q) j = Some s -> tph s = ThSearch ->
  match thief_outcome q j with
  | Some Empty => nth_error (thieves (step q (LThief j))) j = Some T1 /\ abs q = [] /\
                  abs (step q (LThief j)) = [] /\ tail_lp q (step q (LThief j)) = None
  | Some (Got _) => False
  | None => (exists s', nth_error (thieves (step q (LThief j))) j = Some s' /\ tph s' = ThSearch /\
                        abs (step q (LThief j)) = abs q /\ tail_lp q (step q (LThief j)) = None) \/
            (exists x s', nth_error (thieves (step q (LThief j))) j = Some s' /\ tph s' = ThHold x /\
                          abs q = abs (step q (LThief j)) ++ [x] /\ tail_lp q (step q (LThief j)) = Some x)
  end.
Proof.
  intros q j s HC Hj H. unfold thief_outcome, tail_lp, new_lp, step, thief_step. unfold Core in HC.
  destruct q as [n hv tv vs pr ths g_h g_t ab lg tr]. sp. rewrite Hj.
  assert (Hlt : (j < length ths)%nat) by (apply nth_error_Some; congruence).
  destruct s as [| h t | i p k x | i val p k x]; cbn [tph] in H; try discriminate; sp.
  - destruct (tv =? hv) eqn:E; sp.
    + apply Z.eqb_eq in E. apply (core_empty_iff _ _ _ _ _ _ _ _ _ HC) in E. subst ab.
      rewrite nth_error_snoc_new. repeat split; try reflexivity. exact Hj.
    + left. exists (T2 hv tv). rewrite nth_error_len_none.
      rewrite (nth_error_upd_same _ _ _ _ _ Hj). repeat split; reflexivity.
  - destruct ((hv =? h) && (tv =? t)) eqn:E; sp.
    + right. apply andb_true_iff in E. destruct E as [E1 E2].
      apply Z.eqb_eq in E1. apply Z.eqb_eq in E2. subst h t.
      assert (Hne : ab <> []).
      { intro E. apply (core_empty_iff _ _ _ _ _ _ _ _ _ HC) in E.
        apply (c_tinv _ _ _ _ _ _ _ _ _ HC _ _ Hj). congruence. }
      destruct (exists_last Hne) as (r & x & E). subst ab.
      rewrite removelast_last, last_last.
      exists x. eexists. rewrite nth_error_snoc_new.
      rewrite (nth_error_upd_same _ _ _ _ _ Hj). repeat split; reflexivity.
    + left. exists T1. rewrite nth_error_len_none.
      rewrite (nth_error_upd_same _ _ _ _ _ Hj). repeat split; reflexivity.
Qed.

(* ---- a thief inside popTail, after its CAS ---- *)
Lemma thold_step : forall q j s x, Core q -> nth_error (thieves q) j = Some s -> tph s = ThHold x ->
  abs (step q (LThief j)) = abs q /\
  match thief_outcome q j with
  | None => exists s', nth_error (thieves (step q (LThief j))) j = Some s' /\ tph s' = ThHold x
  | Some (Got val) => val = Some x /\ nth_error (thieves (step q (LThief j))) j = Some T1
  | Some Empty => False
  end.
Proof.
  intros q j s x HC Hj H. unfold thief_outcome, step, thief_step. unfold Core in HC.
  destruct q as [n hv tv vs pr ths g_h g_t ab lg tr]. sp. rewrite Hj.
  destruct s as [| h t | i p k y | i val p k y]; cbn [tph] in H; try discriminate; injection H as ->; sp.
  - split; [reflexivity |]. eexists. rewrite (nth_error_upd_same _ _ _ _ _ Hj). split; reflexivity.
  - split; [reflexivity |]. split.
    + exact (c_tinv _ _ _ _ _ _ _ _ _ HC _ _ Hj).
    + apply (nth_error_upd_same _ _ _ _ _ Hj).
Qed.

(* a thief that is not inside the ring (state T1) and is not scheduled there keeps T1; a thief whose index is
   beyond the list does nothing *)

(* ---- a ring nobody has pushed to yet ---- *)
Definition virgin (q : state) : Prop :=
  head q = tail q /\ vals q = repeat None (Z.to_nat (sz q)) /\ abs q = [] /\
  (forall j s, nth_error (thieves q) j = Some s -> s = T1).
(* the first pushHead(v) into such a ring *)
Definition fresh_ok (v : V) (q : state) : Prop :=
  match prod q with
  | PP1 w => w = v /\ virgin q
  | PP2 w h => w = v /\ h = head q /\ virgin q
  | PP3 w _ | PP4 w => w = v
  | _ => False
  end.

Lemma virgin_init : forall n T h0, virgin (init n T h0).
Proof.
  intros n T h0. unfold virgin, init. sp. repeat split; try reflexivity.
  intros j s H. eapply nth_error_repeat. exact H.
Qed.

Lemma rd_repeat_none : forall k i, rd (repeat None k) i = None.
Proof.
  intros k i. unfold rd. generalize (Z.to_nat i). intro m. revert m.
  induction k as [| k IH]; intros m; cbn [repeat]; destruct m; cbn [nth]; try reflexivity. apply IH.
Qed.

Lemma virgin_thief_step : forall q j, virgin q -> virgin (step q (LThief j)).
Proof.
  intros q j (Hht & Hv & Ha & Hth). unfold step, thief_step.
  destruct q as [n hv tv vs pr ths g_h g_t ab lg tr]. sp.
  destruct (nth_error ths j) as [s |] eqn:Ej; [| repeat split; assumption].
  rewrite (Hth _ _ Ej). subst tv. rewrite Z.eqb_refl. sp. repeat split; assumption.
Qed.

Lemma fresh_thief_step : forall q j v, fresh_ok v q -> fresh_ok v (step q (LThief j)).
Proof.
  intros q j v H. unfold fresh_ok in *. rewrite step_thief_prod.
  destruct (prod q) eqn:Ep; try exact H.
  - destruct H as [H1 H2]. split; [exact H1 | apply virgin_thief_step; exact H2].
  - destruct H as (H1 & H2 & H3). split; [exact H1 |]. split; [| apply virgin_thief_step; exact H3].
    rewrite H2. clear - H3. destruct H3 as (Hht & _ & _ & Hth). unfold step, thief_step.
    destruct q as [n hv tv vs pr ths g_h g_t ab lg tr]. sp.
    destruct (nth_error ths j) as [s |] eqn:Ej; [| reflexivity].
    rewrite (Hth _ _ Ej). subst tv. rewrite Z.eqb_refl. reflexivity.
Qed.

Lemma fresh_push_step : forall q v, Core q -> fresh_ok v q ->
  push_outcome q <> Some false /\ (push_outcome q = None -> fresh_ok v (step q LProd)).
Proof.
  intros q v HC H. unfold fresh_ok, push_outcome, step, prod_step, virgin in *. unfold Core in HC.
  destruct q as [n hv tv vs pr ths g_h g_t ab lg tr]. sp.
  destruct pr as [| w | w h | w h | w | | h t | i k x | i val k x]; try contradiction; sp.
  - destruct H as (-> & Hht & Hv & Ha & Hth). subst hv.
    assert (Hn1 := c_n1 _ _ _ _ _ _ _ _ _ HC). assert (Hn2 := c_n2 _ _ _ _ _ _ _ _ _ HC).
    assert (Ht := c_tl _ _ _ _ _ _ _ _ _ HC). assert (HM := limit_lt_M32). assert (Hp := M32_pos).
    assert (Hr : 0 <= tv < M32) by (rewrite Ht; apply Z.mod_pos_bound; exact Hp).
    assert (E : ((tv + n) mod M32 =? tv) = false).
    { apply Z.eqb_neq. intro E.
      assert (E2 : (tv + n) mod M32 = tv mod M32) by (rewrite E; symmetry; apply Z.mod_small; exact Hr).
      apply (mod_inj M32) in E2; [lia | exact Hp | lia]. }
    rewrite E. sp. split; [discriminate |]. intros _. repeat split; try assumption; reflexivity.
  - destruct H as (-> & -> & Hht & Hv & Ha & Hth). rewrite Hv, rd_repeat_none. sp.
    split; [discriminate |]. intros _. reflexivity.
  - subst w. split; [discriminate |]. intros _. reflexivity.
  - subst w. split; [discriminate |]. intros E. discriminate E.
Qed.

(* ---- sizes ---- *)
Definition pow2size (n : Z) : Prop := exists k, 0 <= k <= 30 /\ n = 2 ^ k.

Lemma grow_pow2 : forall n, pow2size n -> pow2size (grow n).
Proof.
  intros n (k & Hk & ->). unfold grow. rewrite limit_pow.
  destruct (2 * 2 ^ k >=? 2 ^ 30) eqn:E.
  - exists 30. split; [lia | reflexivity].
  - exists (k + 1). rewrite Z.pow_add_r by lia. split; [| change (2 ^ 1) with 2; lia].
    rewrite Z.geb_leb in E. apply Z.leb_gt in E.
    assert (k < 29 \/ 29 <= k) as [Hlt | Hge] by lia; [lia |].
    exfalso. assert (2 ^ 29 <= 2 ^ k) by (apply Z.pow_le_mono_r; lia).
    change (2 ^ 30) with (2 * 2 ^ 29) in E. lia.
Qed.

Lemma pow2_core_init : forall n T h0, pow2size n -> 0 <= h0 < M32 -> Core (init n T h0).
Proof.
  intros n T h0 (k & Hk & ->) Hh. destruct (pow2_good k h0 Hk Hh) as (Hn & Hd & Hh0).
  apply core_init; assumption.
Qed.
