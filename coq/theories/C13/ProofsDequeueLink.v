(* C13: the sequential deque that poolDequeue is proved to implement atomically (Dequeue.seq_step,
   ProofsDequeue.linearizable) performs exactly the list operations that PoolModel uses for a P's
   chains of blocks: pushHead = cons, popHead = take the first element, popTail = split_last.
   (V = nat stands for the block pointer stored in a slot.) *)
From Coq Require Import ZArith List Bool.
Import ListNotations.
From VF Require C13.PoolModel.
From VF Require Import C13.Dequeue.
From VF Require C13.ProofsDequeue.

Lemma split_last_snoc {A} (q : list A) x : PoolModel.split_last (q ++ [x]) = Some (q, x).
Proof.
  induction q as [|a q IH]; [reflexivity|].
  cbn [app PoolModel.split_last]. rewrite IH. reflexivity.
Qed.

Definition poolmodel_op (q : list V) (e : event) (q' : list V) : Prop :=
  match e with
  | EPush v true => q' = v :: q                                  (* Put: b :: shared l *)
  | EPush v false => q' = q                                      (* no effect; poolChain.pushHead then allocates the next ring *)
  | EPopHead (Got (Some x)) => q = x :: q'                       (* Get: shared l = b :: rest *)
  | EPopHead Empty => q = [] /\ q' = []
  | EPopTail (Got (Some x)) => PoolModel.split_last q = Some (q', x)   (* getSlow: split_last (shared lq) *)
  | EPopTail Empty => PoolModel.split_last q = None /\ q' = q
  | _ => False                                                   (* a pop never returns (nil, true) *)
  end.

Lemma seq_step_poolmodel q e q' : seq_step q e q' -> poolmodel_op q e q'.
Proof.
  intros H. destruct H; cbn [poolmodel_op]; auto.
  apply split_last_snoc.
Qed.

Fixpoint poolmodel_run (q : list V) (es : list event) (q' : list V) : Prop :=
  match es with
  | [] => q' = q
  | e :: es' => exists q1, poolmodel_op q e q1 /\ poolmodel_run q1 es' q'
  end.

Lemma seq_run_poolmodel q es q' : seq_run q es q' -> poolmodel_run q es q'.
Proof.
  induction 1 as [q|q e q1 es q2 Hs _ IH]; [reflexivity|].
  exists q1. split; [now apply seq_step_poolmodel|exact IH].
Qed.

(* the ghost log of every reachable state of the concurrent machine is a run of PoolModel's list operations *)
Theorem dequeue_refines_poolmodel_list : forall n T h0 sched, ProofsDequeue.good_params n h0 ->
  let st := run (init n T h0) sched in
  poolmodel_run [] (map snd (glog st)) (abs st).
Proof.
  intros n T h0 sched Hg st. apply seq_run_poolmodel.
  exact (proj1 (ProofsDequeue.linearizable n T h0 sched Hg)).
Qed.

Print Assumptions dequeue_refines_poolmodel_list.
