(* C13 - poolChain WITHOUT any ghost component: the machine that corresponds to the Go code.
   DEFINITIONS ONLY.  Every ring is the ghost-free ring machine of Dequeue.v (rstate / rstep); the control states
   carry no log index; there is no log; the trace only lists completed calls with their results.
   ProofsChainReal.v shows that erasing the ghost parts of the instrumented machine of Chain.v (cerase) gives
   exactly this machine, step by step and for every schedule, so the ghost log / trace / indices of Chain.v never
   influence c.head, c.tail, c.size, the rings, the links, the real registers or the results. *)
From Coq Require Import ZArith List Bool.
From VF Require Import C13.Dequeue C13.Chain.
Import ListNotations.
Open Scope Z_scope.

Record rring := mkrring { rrq : rstate; rrnext : option nat; rrprev : option nat }.

Inductive rcpstate :=
| RCIdle
| RCPush0 (v : V)
| RCPushInit (v : V) (d : nat)
| RCPushIn (v : V) (d : nat)
| RCPushLink (v : V) (d d2 : nat)
| RCPushIn2 (v : V) (d2 : nat)
| RCLost (v : V)
| RCPopIn (d : nat)
| RCPopPrev (d : nat)
| RCPopDec (val : option V).

Inductive rckstate :=
| RK0
| RKNext (d : nat)
| RKIn (d : nat) (d2 : option nat)
| RKCas (d d2 : nat)
| RKPrev (d2 : nat)
| RKDec (val : option V).

Record rcstate := rcmk {
  rc_n0 : Z;
  rc_rings : list rring;
  rc_head : option nat;
  rc_tail : option nat;
  rc_size : Z;
  rc_prod : rcpstate;
  rc_thieves : list rckstate;
  rc_trace : list (nat * event)
}.

Definition rset_rings s rs := rcmk (rc_n0 s) rs (rc_head s) (rc_tail s) (rc_size s) (rc_prod s) (rc_thieves s) (rc_trace s).
Definition rset_head s h := rcmk (rc_n0 s) (rc_rings s) h (rc_tail s) (rc_size s) (rc_prod s) (rc_thieves s) (rc_trace s).
Definition rset_tail s t := rcmk (rc_n0 s) (rc_rings s) (rc_head s) t (rc_size s) (rc_prod s) (rc_thieves s) (rc_trace s).
Definition rset_size s z := rcmk (rc_n0 s) (rc_rings s) (rc_head s) (rc_tail s) z (rc_prod s) (rc_thieves s) (rc_trace s).
Definition rset_prod s p := rcmk (rc_n0 s) (rc_rings s) (rc_head s) (rc_tail s) (rc_size s) p (rc_thieves s) (rc_trace s).
Definition rset_thieves s ts := rcmk (rc_n0 s) (rc_rings s) (rc_head s) (rc_tail s) (rc_size s) (rc_prod s) ts (rc_trace s).
Definition rset_thief s j k := rset_thieves s (upd (rc_thieves s) j k).
Definition rc_ret s (t : nat) (e : event) :=
  rcmk (rc_n0 s) (rc_rings s) (rc_head s) (rc_tail s) (rc_size s) (rc_prod s) (rc_thieves s) (rc_trace s ++ [(t, e)]).

Definition rnew_ring (n : Z) (T : nat) (h0 : Z) (pv : option nat) : rring := mkrring (rinit n T h0) None pv.
Definition ron_q (f : rstate -> rstate) (r : rring) : rring := mkrring (f (rrq r)) (rrnext r) (rrprev r).
Definition rring_map (s : rcstate) (d : nat) (f : rring -> rring) : rcstate :=
  match nth_error (rc_rings s) d with
  | Some r => rset_rings s (upd (rc_rings s) d (f r))
  | None => s
  end.
Definition rring_do (s : rcstate) (d : nat) (l : label) : rcstate := rring_map s d (ron_q (fun q => rstep q l)).
Definition rset_next (s : rcstate) (d : nat) (x : option nat) : rcstate :=
  rring_map s d (fun r => mkrring (rrq r) x (rrprev r)).
Definition rset_prev (s : rcstate) (d : nat) (x : option nat) : rcstate :=
  rring_map s d (fun r => mkrring (rrq r) (rrnext r) x).

Definition rpush_outcome (q : rstate) : option bool :=
  match r_prod q with
  | RP1 _ => if (r_tail q + r_sz q) mod M32 =? r_head q then Some false else None
  | RP2 _ h => match rd (r_vals q) (h mod r_sz q) with Some _ => Some false | None => None end
  | RP4 _ => Some true
  | _ => None
  end.
Definition rpop_outcome (q : rstate) : option popres :=
  match r_prod q with
  | RH1 => if r_tail q =? r_head q then Some Empty else None
  | RH4 _ val => Some (Got val)
  | _ => None
  end.
Definition rthief_outcome (q : rstate) (j : nat) : option popres :=
  match nth_error (r_thieves q) j with
  | Some R1 => if r_tail q =? r_head q then Some Empty else None
  | Some (R4 _ val) => Some (Got val)
  | _ => None
  end.

Definition rcprod_step (s : rcstate) : rcstate :=
  match rc_prod s with
  | RCIdle => s
  | RCLost _ => s
  | RCPush0 v =>
      let s1 := rset_size s (rc_size s + 1) in
      match rc_head s with
      | None =>
          let d := length (rc_rings s) in
          rset_prod (rset_head (rset_rings s1 (rc_rings s ++ [rnew_ring (rc_n0 s) (length (rc_thieves s)) 0 None])) (Some d))
                    (RCPushInit v d)
      | Some d => rset_prod (rring_do s1 d (LPush v)) (RCPushIn v d)
      end
  | RCPushInit v d => rset_prod (rring_do (rset_tail s (Some d)) d (LPush v)) (RCPushIn v d)
  | RCPushIn v d =>
      match nth_error (rc_rings s) d with
      | None => s
      | Some r =>
          let s1 := rring_do s d LProd in
          match rpush_outcome (rrq r) with
          | None => s1
          | Some true => rset_prod (rc_ret s1 0 (EPush v true)) RCIdle
          | Some false =>
              let d2 := length (rc_rings s1) in
              rset_prod (rset_head (rset_rings s1 (rc_rings s1 ++
                           [rnew_ring (grow (r_sz (rrq r))) (length (rc_thieves s)) 0 (Some d)])) (Some d2))
                        (RCPushLink v d d2)
          end
      end
  | RCPushLink v d d2 => rset_prod (rring_do (rset_next s d (Some d2)) d2 (LPush v)) (RCPushIn2 v d2)
  | RCPushIn2 v d2 =>
      match nth_error (rc_rings s) d2 with
      | None => s
      | Some r =>
          let s1 := rring_do s d2 LProd in
          match rpush_outcome (rrq r) with
          | None => s1
          | Some true => rset_prod (rc_ret s1 0 (EPush v true)) RCIdle
          | Some false => rset_prod s1 (RCLost v)
          end
      end
  | RCPopIn d =>
      match nth_error (rc_rings s) d with
      | None => s
      | Some r =>
          let s1 := rring_do s d LProd in
          match rpop_outcome (rrq r) with
          | None => rset_prod s1 (RCPopIn d)
          | Some Empty => rset_prod s1 (RCPopPrev d)
          | Some (Got val) => rset_prod s1 (RCPopDec val)
          end
      end
  | RCPopPrev d =>
      match nth_error (rc_rings s) d with
      | None => s
      | Some r =>
          match rrprev r with
          | None => rset_prod (rc_ret s 0 (EPopHead Empty)) RCIdle
          | Some d' => rset_prod (rring_do s d' LPop) (RCPopIn d')
          end
      end
  | RCPopDec val => rset_prod (rc_ret (rset_size s (rc_size s - 1)) 0 (EPopHead (Got val))) RCIdle
  end.

Definition rcthief_step (s : rcstate) (j : nat) : rcstate :=
  match nth_error (rc_thieves s) j with
  | None => s
  | Some RK0 =>
      match rc_tail s with
      | None => rc_ret s (S j) (EPopTail Empty)
      | Some d => rset_thief s j (RKNext d)
      end
  | Some (RKNext d) =>
      match nth_error (rc_rings s) d with
      | None => s
      | Some r => rset_thief s j (RKIn d (rrnext r))
      end
  | Some (RKIn d d2) =>
      match nth_error (rc_rings s) d with
      | None => s
      | Some r =>
          let s1 := rring_do s d (LThief j) in
          match rthief_outcome (rrq r) j with
          | None => rset_thief s1 j (RKIn d d2)
          | Some (Got val) => rset_thief s1 j (RKDec val)
          | Some Empty =>
              match d2 with
              | None => rset_thief (rc_ret s1 (S j) (EPopTail Empty)) j RK0
              | Some e => rset_thief s1 j (RKCas d e)
              end
          end
      end
  | Some (RKCas d d2) =>
      match rc_tail s with
      | Some t => if Nat.eqb t d then rset_thief (rset_tail s (Some d2)) j (RKPrev d2)
                  else rset_thief s j (RKNext d2)
      | None => rset_thief s j (RKNext d2)
      end
  | Some (RKPrev d2) => rset_thief (rset_prev s d2 None) j (RKNext d2)
  | Some (RKDec val) => rset_thief (rc_ret (rset_size s (rc_size s - 1)) (S j) (EPopTail (Got val))) j RK0
  end.

Definition rcstep (s : rcstate) (l : label) : rcstate :=
  match l with
  | LPush v => match rc_prod s with RCIdle => rset_prod s (RCPush0 v) | _ => s end
  | LPop =>
      match rc_prod s with
      | RCIdle =>
          match rc_head s with
          | None => rc_ret s 0 (EPopHead Empty)
          | Some d => rset_prod (rring_do s d LPop) (RCPopIn d)
          end
      | _ => s
      end
  | LProd => rcprod_step s
  | LThief j => rcthief_step s j
  end.

Definition rcrun (s : rcstate) (sched : list label) : rcstate := fold_left rcstep sched s.

Definition rcinit (n0 : Z) (T : nat) : rcstate := rcmk n0 [] None None 0 RCIdle (repeat RK0 T) [].
Definition rcinit_at (n0 : Z) (T : nat) (h0 : Z) : rcstate :=
  rcmk n0 [rnew_ring n0 T h0 None] (Some 0%nat) (Some 0%nat) 0 RCIdle (repeat RK0 T) [].

(* ---- erasing the ghost parts of the instrumented machine ---- *)
Definition erase_ring (r : ring) : rring := mkrring (erase (rq r)) (rnext r) (rprev r).
Definition erase_cp (p : cpstate) : rcpstate :=
  match p with
  | CIdle => RCIdle
  | CPush0 v => RCPush0 v
  | CPushInit v d => RCPushInit v d
  | CPushIn v d => RCPushIn v d
  | CPushLink v d d2 => RCPushLink v d d2
  | CPushIn2 v d => RCPushIn2 v d
  | CLost v => RCLost v
  | CPopIn d _ => RCPopIn d
  | CPopPrev d => RCPopPrev d
  | CPopDec val _ => RCPopDec val
  end.
Definition erase_ck (k : ckstate) : rckstate :=
  match k with
  | K0 => RK0
  | KNext d => RKNext d
  | KIn d d2 _ => RKIn d d2
  | KCas d d2 => RKCas d d2
  | KPrev d => RKPrev d
  | KDec val _ => RKDec val
  end.
Definition cerase (s : cstate) : rcstate :=
  rcmk (cn0 s) (map erase_ring (rings s)) (chead s) (ctail s) (csize s) (erase_cp (cprod s))
       (map erase_ck (cthieves s)) (map (fun c => fst c) (ctrace s)).
