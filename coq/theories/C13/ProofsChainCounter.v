(* C13 - poolChain: the size counter c.size.
   pushHead adds 1 BEFORE the ring push, the pops subtract 1 AFTER the ring pop, so in every reachable state
     c.size = (number of stored values) + (pops that have taken their value but not yet decremented)
              + (1 if a pushHead has incremented but not yet pushed),
   in particular c.size = number of stored values whenever no call is in flight, and c.size is never smaller
   than the stored count and exceeds it by at most the number of calls in flight. *)
From Coq Require Import ZArith List Bool Lia Permutation.
From VF Require Import C13.Dequeue C13.ProofsDequeue C13.Chain C13.ProofsChainRing C13.ProofsChain.
Import ListNotations.
Open Scope Z_scope.

Definition npush (lg : list (nat * event)) : Z := Z.of_nat (length (flat_map (fun te => ev_pushed (snd te)) lg)).
Definition npop (lg : list (nat * event)) : Z := Z.of_nat (length (flat_map (fun te => ev_popped (snd te)) lg)).
(* 1 while poolChain.pushHead has done its AddInt32(&c.size, 1) but the value is not in a ring yet *)
Definition inflight (p : cpstate) : Z :=
  match p with CPushInit _ _ | CPushIn _ _ | CPushLink _ _ _ | CPushIn2 _ _ | CLost _ => 1 | _ => 0 end.
Definition npend (s : cstate) : Z := Z.of_nat (length (cpending_k s)).

Definition SzEq (s : cstate) : Prop :=
  csize s + npop (clog s) = npush (clog s) + npend s + inflight (cprod s).

Lemma npush_snoc : forall lg x, npush (lg ++ [x]) = npush lg + Z.of_nat (length (ev_pushed (snd x))).
Proof. intros. unfold npush. rewrite flat_map_app, app_length. cbn [flat_map]. rewrite app_nil_r. lia. Qed.
Lemma npop_snoc : forall lg x, npop (lg ++ [x]) = npop lg + Z.of_nat (length (ev_popped (snd x))).
Proof. intros. unfold npop. rewrite flat_map_app, app_length. cbn [flat_map]. rewrite app_nil_r. lia. Qed.

Lemma csize_ring_map : forall s d f, csize (ring_map s d f) = csize s.
Proof. intros. unfold ring_map. destruct (nth_error (rings s) d); reflexivity. Qed.
Lemma cprod_ring_map : forall s d f, cprod (ring_map s d f) = cprod s.
Proof. intros. unfold ring_map. destruct (nth_error (rings s) d); reflexivity. Qed.
Lemma cthieves_ring_map : forall s d f, cthieves (ring_map s d f) = cthieves s.
Proof. intros. unfold ring_map. destruct (nth_error (rings s) d); reflexivity. Qed.

Lemma pend_upd : forall ths j k k', nth_error ths j = Some k ->
  Z.of_nat (length (flat_map cpend_k (upd ths j k'))) =
  Z.of_nat (length (flat_map cpend_k ths)) - Z.of_nat (length (cpend_k k)) + Z.of_nat (length (cpend_k k')).
Proof.
  intros ths j k k' H. destruct (flat_map_upd _ _ cpend_k ths j k k' H) as (l1 & l2 & E1 & E2).
  rewrite E1, E2, !app_length. lia.
Qed.

Ltac prj := repeat (progress cbn [set_prod set_thief set_thieves set_head set_rings set_tail set_size
                                  c_lp_ret c_ret c_log csize clog cprod cthieves]
                    || (progress unfold ring_do, set_next, set_prev)
                    || rewrite csize_ring_map || rewrite clog_ring_map || rewrite cprod_ring_map
                    || rewrite cthieves_ring_map).
Ltac szgoal := unfold SzEq, npend, cpending_k in *; prj; rewrite ?app_length, ?Nat2Z.inj_add in *.
Ltac szfin := szgoal; rewrite ?npush_snoc, ?npop_snoc;
              cbn [cpend_p cpend_k length inflight snd ev_pushed ev_popped] in *; lia.
Ltac szfin_t Hj := szgoal; rewrite (pend_upd _ _ _ _ Hj); rewrite ?npush_snoc, ?npop_snoc;
              cbn [cpend_p cpend_k length inflight snd ev_pushed ev_popped] in *; lia.

Lemma szeq_prod_step : forall s, CInv s -> SzEq s -> SzEq (cprod_step s).
Proof.
  intros s HI H. unfold cprod_step. unfold CInv in HI.
  assert (HP := ci_prod _ _ _ _ _ _ _ _ HI).
  unfold SzEq, npend, cpending_k in H.
  destruct (cprod s) as [| v | v d | v d | v d d2 | v d | v | d ko | d | val k] eqn:Ep; cbn [I_prod] in HP.
  - unfold SzEq, npend, cpending_k. rewrite Ep. exact H.
  - destruct (chead s); szfin.
  - szfin.
  - destruct (nth_error (rings s) d) as [r |]; [| unfold SzEq, npend, cpending_k; rewrite Ep; exact H].
    destruct (push_outcome (rq r)) as [[|] |]; cbv beta iota zeta; try szfin.
    szgoal. rewrite Ep. cbn [cpend_p cpend_k length inflight] in *. lia.
  - szfin.
  - destruct (nth_error (rings s) d) as [r |]; [| unfold SzEq, npend, cpending_k; rewrite Ep; exact H].
    destruct (push_outcome (rq r)) as [[|] |]; cbv beta iota zeta; try szfin.
    szgoal. rewrite Ep. cbn [cpend_p cpend_k length inflight] in *. lia.
  - contradiction.
  - destruct ko as [k |].
    + destruct HP as (r & x & Hr & Hph & _). rewrite Hr.
      assert (HC : Core (rq r)) by exact (proj1 (ci_ring _ _ _ _ _ _ _ _ HI _ _ Hr)).
      destruct (hold_step (rq r) x HC Hph) as [_ HS].
      destruct (pop_outcome (rq r)) as [[| val] |]; cbv beta iota zeta; [contradiction | szfin | szfin].
    + destruct HP as [(r & Hr & Hph) _]. rewrite Hr.
      assert (HC : Core (rq r)) by exact (proj1 (ci_ring _ _ _ _ _ _ _ _ HI _ _ Hr)).
      assert (HS := search_step (rq r) HC Hph).
      destruct (pop_outcome (rq r)) as [[| val] |]; cbv beta iota zeta.
      * destruct HS as (_ & _ & _ & E). rewrite E. szfin.
      * contradiction.
      * destruct HS as [(_ & _ & E) | (x & _ & _ & E)]; rewrite E; szfin.
  - destruct (nth_error (rings s) d) as [r |]; [| unfold SzEq, npend, cpending_k; rewrite Ep; exact H].
    destruct (rprev r); szfin.
  - szfin.
Qed.

Lemma szeq_thief_step : forall s j, CInv s -> SzEq s -> SzEq (cthief_step s j).
Proof.
  intros s j HI H. unfold cthief_step. unfold CInv in HI.
  destruct (nth_error (cthieves s) j) as [k |] eqn:Hj; [| exact H].
  assert (HT := ci_thieves _ _ _ _ _ _ _ _ HI _ _ Hj).
  destruct k as [| d | d d2 ko | d d2 | d2 | val kk]; cbn [I_thief] in HT.
  - destruct (ctail s); [szfin_t Hj | szfin].
  - destruct (nth_error (rings s) d); [szfin_t Hj | exact H].
  - destruct HT as (_ & r & Hr & _ & ts & Hts & Hko). rewrite Hr.
    assert (HC : Core (rq r)) by exact (proj1 (ci_ring _ _ _ _ _ _ _ _ HI _ _ Hr)).
    destruct ko as [kk |].
    + destruct Hko as (x & Hph & _). destruct (thold_step (rq r) j ts x HC Hts Hph) as [_ HS].
      destruct (thief_outcome (rq r) j) as [[| val] |]; cbv beta iota zeta; [contradiction | szfin_t Hj | szfin_t Hj].
    + assert (HS := tsearch_step (rq r) j ts HC Hts Hko).
      destruct (thief_outcome (rq r) j) as [[| val] |]; cbv beta iota zeta.
      * destruct HS as (_ & _ & _ & E). rewrite E. destruct d2; szfin_t Hj.
      * contradiction.
      * destruct HS as [(s' & _ & _ & _ & E) | (x & s' & _ & _ & _ & E)]; rewrite E; szfin_t Hj.
  - destruct (ctail s) as [t |]; [destruct (Nat.eqb t d) |]; szfin_t Hj.
  - szfin_t Hj.
  - szfin_t Hj.
Qed.

Lemma szeq_step : forall s l, CInv s -> SzEq s -> SzEq (cstep s l).
Proof.
  intros s l HI H. destruct l as [v | | | j]; unfold cstep.
  - destruct (cprod s) eqn:Ep; try exact H. unfold SzEq, npend, cpending_k in H. rewrite Ep in H. szfin.
  - destruct (cprod s) eqn:Ep; try exact H. unfold SzEq, npend, cpending_k in H. rewrite Ep in H. destruct (chead s); szgoal; rewrite ?Ep; szfin.
  - apply szeq_prod_step; assumption.
  - apply szeq_thief_step; assumption.
Qed.

Lemma flat_map_repeat_K0 : forall T, flat_map cpend_k (repeat K0 T) = [].
Proof. intros. apply flat_map_repeat_nil. reflexivity. Qed.

Lemma szeq_reach : forall s, creach s -> SzEq s.
Proof.
  intros s Hr.
  assert (H : CInv s /\ SzEq s).
  { destruct Hr as [n0 T sched Hn | n0 T h0 sched Hn Hh];
      apply (crun_invariant (fun s => CInv s /\ SzEq s));
      try (intros s0 l [A B]; split; [apply cinv_step; exact A | apply szeq_step; assumption]).
    - split; [apply cinv_init; exact Hn |]. unfold SzEq, npend, cpending_k, cinit.
      cbn [csize clog cprod cthieves cpend_p inflight]. rewrite flat_map_repeat_K0. reflexivity.
    - split; [apply cinv_init_at; assumption |]. unfold SzEq, npend, cpending_k, cinit_at.
      cbn [csize clog cprod cthieves cpend_p inflight]. rewrite flat_map_repeat_K0. reflexivity. }
  exact (proj2 H).
Qed.

(* the stored count is (pushes - pops) of the log *)
Lemma cseq_run_count : forall q0 es q, cseq_run q0 es q ->
  Z.of_nat (length q) + Z.of_nat (length (flat_map ev_popped es)) =
  Z.of_nat (length q0) + Z.of_nat (length (flat_map ev_pushed es)).
Proof.
  intros q0 es q H. assert (P := cseq_run_perm _ _ _ H). apply Permutation_length in P.
  unfold ev_pops, ev_pushes in P. rewrite !app_length in P. lia.
Qed.

(* (D) the size counter *)
Theorem chain_size_counter : forall s, creach s ->
  csize s = Z.of_nat (length (cabs s)) + Z.of_nat (length (cpending_k s)) + inflight (cprod s).
Proof.
  intros s Hr. assert (H := szeq_reach s Hr). destruct (chain_linearizable s Hr) as (Hlog & _).
  assert (C := cseq_run_count _ _ _ Hlog). cbn [length] in C.
  unfold SzEq, npend, npush, npop in H.
  assert (E1 : flat_map (fun te : nat * event => ev_popped (snd te)) (clog s) = flat_map ev_popped (map snd (clog s))).
  { rewrite !flat_map_concat_map, map_map. reflexivity. }
  assert (E2 : flat_map (fun te : nat * event => ev_pushed (snd te)) (clog s) = flat_map ev_pushed (map snd (clog s))).
  { rewrite !flat_map_concat_map, map_map. reflexivity. }
  rewrite E1, E2 in H. lia.
Qed.

(* no call in flight: the producer is idle and every thief is between two popTail calls *)
Definition quiescent (s : cstate) : Prop := cprod s = CIdle /\ forall j k, nth_error (cthieves s) j = Some k -> k = K0.
(* number of threads inside a call *)
Definition busy_p (p : cpstate) : nat := match p with CIdle => 0 | _ => 1 end.
Definition busy_k (k : ckstate) : nat := match k with K0 => 0 | _ => 1 end.
Definition calls_in_flight (s : cstate) : nat := busy_p (cprod s) + list_sum (map busy_k (cthieves s)).

Lemma pend_le_busy : forall ths, (length (flat_map cpend_k ths) <= list_sum (map busy_k ths))%nat.
Proof.
  induction ths as [| k ths IH]; [cbn; lia |]. change (list_sum (map busy_k (k :: ths))) with (busy_k k + list_sum (map busy_k ths))%nat.
  cbn [flat_map]. rewrite app_length.
  assert (length (cpend_k k) <= busy_k k)%nat by (destruct k as [| | ? ? [?|] | | |]; cbn; lia). lia.
Qed.

Theorem chain_size_quiescent : forall s, creach s -> quiescent s -> csize s = Z.of_nat (length (cabs s)).
Proof.
  intros s Hr [Hp Ht]. rewrite (chain_size_counter s Hr).
  assert (E : cpending_k s = []).
  { unfold cpending_k. rewrite Hp. cbn [cpend_p app]. apply flat_map_nil.
    intros k Hk. destruct (In_nth_error _ _ Hk) as [j Hj]. rewrite (Ht _ _ Hj). reflexivity. }
  rewrite E, Hp. cbn [length inflight]. lia.
Qed.

Theorem chain_size_bounds : forall s, creach s ->
  Z.of_nat (length (cabs s)) <= csize s <= Z.of_nat (length (cabs s)) + Z.of_nat (calls_in_flight s).
Proof.
  intros s Hr. rewrite (chain_size_counter s Hr). unfold cpending_k, calls_in_flight. rewrite app_length.
  assert (H1 := pend_le_busy (cthieves s)).
  assert (H2 : Z.of_nat (length (cpend_p (cprod s))) + inflight (cprod s) <= Z.of_nat (busy_p (cprod s))
               /\ 0 <= inflight (cprod s)).
  { destruct (cprod s) as [| | | | | | | ? [?|] | |]; cbn; lia. }
  lia.
Qed.
