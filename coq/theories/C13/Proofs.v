(* C13 proofs.  Part 1: sharded RWMutex exclusion for every number of shards, every number of threads
   and every schedule (ported from notes/spikes/ShardRW_exclusion_spike.v).  Parts 2 and 3 (pool ownership,
   pool history checker) are in ProofsPool.v. *)
From VF Require Import Common.Base C13.ShardRW.

Arguments Nat.leb : simpl never.
Arguments Nat.ltb : simpl never.

Section RW.
Variable k : nat.
Notation step := (ShardRW.step k).
Notation wholds := (ShardRW.wholds k).
Notation init := (ShardRW.init k).
Notation run := (ShardRW.run k).

Record Inv (w : world) : Prop := {
  inv_len : length (shards w) = k;
  (* per-shard RWMutex exclusion *)
  inv_rw : forall i s, nth_error (shards w) i = Some s -> writer s <> None -> readers s = [];
  (* a write-held shard names its holder, and vice versa *)
  inv_w1 : forall t p i, nth_error (pcs w) t = Some p -> wholds p i = true ->
           exists s, nth_error (shards w) i = Some s /\ writer s = Some t;
  inv_w2 : forall i s t, nth_error (shards w) i = Some s -> writer s = Some t ->
           exists p, nth_error (pcs w) t = Some p /\ wholds p i = true;
  (* a reader in its critical section is registered on its shard *)
  inv_r : forall t i, nth_error (pcs w) t = Some (RHold i) ->
          exists s, nth_error (shards w) i = Some s /\ In t (readers s)
}.

Lemma nth_error_upd_same {A} (l : list A) i x y : nth_error l i = Some y -> nth_error (updl l i x) i = Some x.
Proof. unfold updl. revert l. induction i as [|i IH]; intros [|a l]; simpl; try discriminate; auto. Qed.
Lemma nth_error_upd_other {A} (l : list A) i j x : i <> j -> nth_error (updl l i x) j = nth_error l j.
Proof.
  unfold updl. revert l j. induction i as [|i IH]; intros l j H.
  - destruct l as [|a l]; simpl; auto. destruct j; [congruence|reflexivity].
  - destruct l as [|a l]; simpl; auto. destruct j; [reflexivity|]. simpl. apply IH. congruence.
Qed.
Lemma length_upd {A} (l : list A) i x : length (updl l i x) = length l.
Proof.
  unfold updl. rewrite app_length, firstn_length.
  destruct (skipn i l) eqn:E; simpl.
  - assert (length (skipn i l) = 0) by now rewrite E. rewrite skipn_length in H. lia.
  - assert (length (skipn i l) = S (length l0)) by now rewrite E. rewrite skipn_length in H. lia.
Qed.

(* look up position j in a list updated at i *)
Ltac upd_cases i j :=
  let Heq := fresh "Heq" in
  destruct (Nat.eq_dec i j) as [Heq|?];
  [first [subst i | subst j]; repeat match goal with
          | H : nth_error ?l ?i = Some _, H' : context [nth_error (updl ?l ?i _) ?i] |- _ =>
            rewrite (nth_error_upd_same _ _ _ _ H) in H'
          | H : nth_error ?l ?i = Some _ |- context [nth_error (updl ?l ?i _) ?i] =>
            rewrite (nth_error_upd_same _ _ _ _ H)
          end
  |repeat match goal with
          | H' : context [nth_error (updl _ i _) j] |- _ => rewrite nth_error_upd_other in H' by assumption
          | |- context [nth_error (updl _ i _) j] => rewrite nth_error_upd_other by assumption
          end].

Theorem exclusion w :
  Inv w -> 1 <= k ->
  forall tw tr i, nth_error (pcs w) tw = Some WHold -> nth_error (pcs w) tr = Some (RHold i) -> False.
Proof.
  intros HI Hk tw tr i Hw Hr.
  destruct (inv_r w HI tr i Hr) as (s & Hs & Hin).
  assert (Hi : i < k). { rewrite <- (inv_len w HI). apply nth_error_Some. congruence. }
  destruct (inv_w1 w HI tw WHold i Hw) as (s' & Hs' & Hws'). { simpl. now apply Nat.ltb_lt. }
  rewrite Hs in Hs'. inversion Hs'; subst s'.
  assert (readers s = []) by (eapply inv_rw; eauto; congruence).
  rewrite H in Hin. destruct Hin.
Qed.

Lemma wholds_false_RHold i j : wholds (RHold i) j = false. Proof. reflexivity. Qed.

Theorem step_inv w ta : Inv w -> Inv (step w ta).
Proof.
  intros HI. destruct ta as [t a]. unfold step.
  destruct (nth_error (pcs w) t) as [p|] eqn:Ep; [|exact HI].
  destruct HI as [Hlen Hrw Hw1 Hw2 Hr].
  destruct p as [|i|next| |next]; destruct a as [i0| |]; try (constructor; assumption).
  all: try rename i0 into i.
  - (* Idle, RLock i *)
    destruct (nth_error (shards w) i) as [s|] eqn:Es; [|constructor; assumption].
    destruct (writer s) eqn:Ews; [constructor; assumption|].
    constructor; cbn [shards pcs].
    + now rewrite length_upd.
    + intros i' s' Hs' Hne. upd_cases i i'.
      * inversion Hs'; subst s'. simpl in Hne. congruence.
      * eauto.
    + intros t' p' i' Hp' Hh. upd_cases t t'.
      * inversion Hp'; subst p'. discriminate.
      * destruct (Hw1 _ _ _ Hp' Hh) as (s' & Hs' & Hws').
        upd_cases i i'; [rewrite Es in Hs'; inversion Hs'; subst; congruence|eauto].
    + intros i' s' t' Hs' Hws'. upd_cases i i'.
      * inversion Hs'; subst s'. simpl in Hws'. discriminate.
      * destruct (Hw2 _ _ _ Hs' Hws') as (p' & Hp' & Hh).
        upd_cases t t'; [rewrite Ep in Hp'; inversion Hp'; subst; discriminate|eauto].
    + intros t' i' Hp'. upd_cases t t'.
      * inversion Hp'; subst i'. rewrite (nth_error_upd_same _ _ _ _ Es). eexists; split; eauto. simpl; auto.
      * destruct (Hr _ _ Hp') as (s' & Hs' & Hin). upd_cases i i'.
        -- rewrite Es in Hs'. inversion Hs'; subst s'. eexists; split; eauto. simpl; auto.
        -- eauto.
  - (* Idle, WStep: start locking *)
    constructor; cbn [shards pcs]; auto.
    + intros t' p' i' Hp' Hh. upd_cases t t'; [inversion Hp'; subst; discriminate|eauto].
    + intros i' s' t' Hs' Hws'. destruct (Hw2 _ _ _ Hs' Hws') as (p' & Hp' & Hh).
      upd_cases t t'; [rewrite Ep in Hp'; inversion Hp'; subst; discriminate|eauto].
    + intros t' i' Hp'. upd_cases t t'; [discriminate|eauto].
  - (* RHold i, RUnlock *)
    destruct (nth_error (shards w) i) as [s|] eqn:Es; [|constructor; assumption].
    constructor; cbn [shards pcs].
    + now rewrite length_upd.
    + intros i' s' Hs' Hne. upd_cases i i'.
      * inversion Hs'; subst s'. simpl in *. rewrite (Hrw _ _ Es Hne). reflexivity.
      * eauto.
    + intros t' p' i' Hp' Hh. upd_cases t t'.
      * inversion Hp'; subst p'. discriminate.
      * destruct (Hw1 _ _ _ Hp' Hh) as (s' & Hs' & Hws').
        upd_cases i i'; [rewrite Es in Hs'; inversion Hs'; subst; eexists; split; eauto|eauto].
    + intros i' s' t' Hs' Hws'. upd_cases i i'.
      * inversion Hs'; subst s'. simpl in Hws'.
        destruct (Hw2 _ _ _ Es Hws') as (p' & Hp' & Hh).
        upd_cases t t'; [rewrite Ep in Hp'; inversion Hp'; subst; discriminate|eauto].
      * destruct (Hw2 _ _ _ Hs' Hws') as (p' & Hp' & Hh).
        upd_cases t t'; [rewrite Ep in Hp'; inversion Hp'; subst; discriminate|eauto].
    + intros t' i' Hp'. upd_cases t t'; [discriminate|].
      destruct (Hr _ _ Hp') as (s' & Hs' & Hin). upd_cases i i'.
      * rewrite Es in Hs'. inversion Hs'; subst s'. eexists; split; eauto. simpl.
        apply in_in_remove; auto.
      * eauto.
  - (* WLocking next *)
    destruct (next =? k) eqn:Ek.
    + apply Nat.eqb_eq in Ek. subst next.
      constructor; cbn [shards pcs]; auto.
      * intros t' p' i' Hp' Hh. upd_cases t t'; [inversion Hp'; subst p'; apply (Hw1 _ _ _ Ep); exact Hh|eauto].
      * intros i' s' t' Hs' Hws'. destruct (Hw2 _ _ _ Hs' Hws') as (p' & Hp' & Hh).
        upd_cases t t'; [rewrite Ep in Hp'; inversion Hp'; subst; eexists; split; eauto|eauto].
      * intros t' i' Hp'. upd_cases t t'; [discriminate|eauto].
    + apply Nat.eqb_neq in Ek.
      destruct (nth_error (shards w) next) as [s|] eqn:Es; [|constructor; assumption].
      destruct (writer s) eqn:Ews; [constructor; assumption|].
      destruct (readers s) eqn:Ers; [|constructor; assumption].
      constructor; cbn [shards pcs].
      * now rewrite length_upd.
      * intros i' s' Hs' Hne. upd_cases next i'; [inversion Hs'; subst; reflexivity|eauto].
      * intros t' p' i' Hp' Hh. upd_cases t t'.
        -- inversion Hp'; subst p'. simpl in Hh. apply Nat.ltb_lt in Hh.
           upd_cases next i'; [eexists; split; eauto|].
           apply (Hw1 _ _ _ Ep). simpl. apply Nat.ltb_lt. lia.
        -- destruct (Hw1 _ _ _ Hp' Hh) as (s' & Hs' & Hws').
           upd_cases next i'; [rewrite Es in Hs'; inversion Hs'; subst; congruence|eauto].
      * intros i' s' t' Hs' Hws'. upd_cases next i'.
        -- inversion Hs'; subst s'. simpl in Hws'. inversion Hws'; subst t'.
           rewrite (nth_error_upd_same _ _ _ _ Ep). eexists; split; eauto. simpl. apply Nat.ltb_lt. lia.
        -- destruct (Hw2 _ _ _ Hs' Hws') as (p' & Hp' & Hh).
           upd_cases t t'.
           ++ rewrite Ep in Hp'. inversion Hp'; subst p'. eexists; split; eauto.
              simpl in *. apply Nat.ltb_lt in Hh. apply Nat.ltb_lt. lia.
           ++ eauto.
      * intros t' i' Hp'. upd_cases t t'; [discriminate|].
        destruct (Hr _ _ Hp') as (s' & Hs' & Hin).
        upd_cases next i'; [rewrite Es in Hs'; inversion Hs'; subst; rewrite Ers in Hin; destruct Hin|eauto].
  - (* WHold, WStep: start unlocking *)
    constructor; cbn [shards pcs]; auto.
    + intros t' p' i' Hp' Hh. upd_cases t t'; [inversion Hp'; subst p'; apply (Hw1 _ _ _ Ep); simpl in *; exact Hh|eauto].
    + intros i' s' t' Hs' Hws'. destruct (Hw2 _ _ _ Hs' Hws') as (p' & Hp' & Hh).
      upd_cases t t'; [rewrite Ep in Hp'; inversion Hp'; subst; eexists; split; eauto|eauto].
    + intros t' i' Hp'. upd_cases t t'; [discriminate|eauto].
  - (* WUnlocking next *)
    destruct (next =? k) eqn:Ek.
    + apply Nat.eqb_eq in Ek. subst next.
      constructor; cbn [shards pcs]; auto.
      * intros t' p' i' Hp' Hh. upd_cases t t'; [inversion Hp'; subst; discriminate|eauto].
      * intros i' s' t' Hs' Hws'. destruct (Hw2 _ _ _ Hs' Hws') as (p' & Hp' & Hh).
        upd_cases t t'; [|eauto].
        rewrite Ep in Hp'. inversion Hp'; subst p'. simpl in Hh.
        apply andb_true_iff in Hh. destruct Hh as [H1 H2]. apply Nat.leb_le in H1. apply Nat.ltb_lt in H2. lia.
      * intros t' i' Hp'. upd_cases t t'; [discriminate|eauto].
    + apply Nat.eqb_neq in Ek.
      destruct (nth_error (shards w) next) as [s|] eqn:Es; [|constructor; assumption].
      constructor; cbn [shards pcs].
      * now rewrite length_upd.
      * intros i' s' Hs' Hne. upd_cases next i'; [inversion Hs'; subst; simpl in Hne; congruence|eauto].
      * intros t' p' i' Hp' Hh. upd_cases t t'.
        -- inversion Hp'; subst p'. simpl in Hh. apply andb_true_iff in Hh. destruct Hh as [H1 H2].
           apply Nat.leb_le in H1. apply Nat.ltb_lt in H2.
           upd_cases next i'; [lia|].
           apply (Hw1 _ _ _ Ep). simpl. apply andb_true_iff. split; [apply Nat.leb_le; lia|apply Nat.ltb_lt; lia].
        -- destruct (Hw1 _ _ _ Hp' Hh) as (s' & Hs' & Hws').
           upd_cases next i'; [|eauto].
           (* shard next is held by t, not by t' *)
           rewrite Es in Hs'. inversion Hs'; subst s'.
           assert (Hn : i' < k) by (rewrite <- Hlen; apply nth_error_Some; congruence).
           destruct (Hw1 t (WUnlocking i') i' Ep) as (s2 & Hs2 & Hws2).
           { simpl. apply andb_true_iff. split; [apply Nat.leb_le; lia|apply Nat.ltb_lt; lia]. }
           rewrite Es in Hs2. inversion Hs2; subst s2. congruence.
      * intros i' s' t' Hs' Hws'. upd_cases next i'; [inversion Hs'; subst; discriminate|].
        destruct (Hw2 _ _ _ Hs' Hws') as (p' & Hp' & Hh).
        upd_cases t t'; [|eauto].
        rewrite Ep in Hp'. inversion Hp'; subst p'. eexists; split; eauto.
        simpl in *. apply andb_true_iff in Hh. destruct Hh as [H1 H2]. apply Nat.leb_le in H1.
        apply andb_true_iff. split; [apply Nat.leb_le; lia|exact H2].
      * intros t' i' Hp'. upd_cases t t'; [discriminate|].
        destruct (Hr _ _ Hp') as (s' & Hs' & Hin).
        upd_cases next i'; [rewrite Es in Hs'; inversion Hs'; subst; eexists; split; eauto|eauto].
Qed.

Lemma init_inv nthreads : Inv (init nthreads).
Proof.
  constructor; simpl.
  - apply repeat_length.
  - intros i s Hs Hne. apply nth_error_In in Hs. apply repeat_spec in Hs. subst. simpl in Hne. congruence.
  - intros t p i Hp Hh. apply nth_error_In in Hp. apply repeat_spec in Hp. subst. discriminate.
  - intros i s t Hs Hw. apply nth_error_In in Hs. apply repeat_spec in Hs. subst. discriminate.
  - intros t i Hp. apply nth_error_In in Hp. apply repeat_spec in Hp. discriminate.
Qed.

Theorem rw_exclusion nthreads sched :
  1 <= k ->
  let w := run (init nthreads) sched in
  forall tw tr i, nth_error (pcs w) tw = Some WHold -> nth_error (pcs w) tr = Some (RHold i) -> False.
Proof.
  intros Hk w. apply exclusion; auto. subst w.
  assert (H : Inv (init nthreads)) by apply init_inv.
  revert H. generalize (init nthreads). induction sched as [|a sched IH]; simpl; intros w0 H; auto.
  apply IH. now apply step_inv.
Qed.


(* a writer blocked in Lock() waits only for a writer that is strictly ahead in the acquisition order
   (or already releasing): two writers never wait for each other *)
Theorem writers_no_cycle w t1 t2 j1 j2 s1 s2 :
  Inv w ->
  nth_error (pcs w) t1 = Some (WLocking j1) -> nth_error (pcs w) t2 = Some (WLocking j2) ->
  nth_error (shards w) j1 = Some s1 -> writer s1 = Some t2 ->
  nth_error (shards w) j2 = Some s2 -> writer s2 = Some t1 -> False.
Proof.
  intros HI H1 H2 Hs1 Hw1 Hs2 Hw2.
  destruct (inv_w2 w HI j1 s1 t2 Hs1 Hw1) as (p2 & Hp2 & Hh2). rewrite H2 in Hp2. inversion Hp2; subst p2.
  destruct (inv_w2 w HI j2 s2 t1 Hs2 Hw2) as (p1 & Hp1 & Hh1). rewrite H1 in Hp1. inversion Hp1; subst p1.
  simpl in Hh1, Hh2. apply Nat.ltb_lt in Hh1. apply Nat.ltb_lt in Hh2. lia.
Qed.

Lemma run_inv nthreads sched : Inv (run (init nthreads) sched).
Proof.
  unfold ShardRW.run.
  assert (H : Inv (init nthreads)) by apply init_inv.
  revert H. generalize (init nthreads). induction sched as [|a sched IH]; simpl; intros w0 H; auto.
  apply IH. now apply step_inv.
Qed.

End RW.
