(* C13 model of sys/syncx/rwmutex.go: RWMutex = k sync.RWMutex shards.  Lock() write-locks the shards
   one after another in index order (one shard per step, so other threads interleave between two
   acquisitions), Unlock() releases them in the same order; RLocker() is the read side of ONE shard
   (chosen by the P the caller happens to run on: an arbitrary index here).  Each shard is an abstract
   reader/writer lock: a write acquisition needs no writer and no reader, a read acquisition needs no
   writer (Go's writer preference only removes behaviours).  NO proofs in this file. *)
From Coq Require Import List Arith Lia Bool.
Import ListNotations.

Section ShardRW.
Variable k : nat.                       (* number of shards = GOMAXPROCS at init *)

Record shard := { writer : option nat; readers : list nat }.

Inductive pc :=
| Idle
| RHold (i : nat)                       (* reader holds shard i *)
| WLocking (next : nat)                 (* inside Lock(): shards < next are held *)
| WHold                                 (* Lock() returned *)
| WUnlocking (next : nat).              (* inside Unlock(): shards < next already released *)

Record world := { shards : list shard; pcs : list pc }.

Definition updl {A} (l : list A) (i : nat) (x : A) : list A :=
  firstn i l ++ match skipn i l with [] => [] | _ :: t => x :: t end.

Inductive action := RLock (i : nat) | RUnlock | WStep.   (* what the scheduled thread tries next *)

Definition step (w : world) (ta : nat * action) : world :=
  let '(t, a) := ta in
  match nth_error (pcs w) t, a with
  | Some Idle, RLock i =>
    match nth_error (shards w) i with
    | Some s => match writer s with
                | None => {| shards := updl (shards w) i {| writer := None; readers := t :: readers s |};
                             pcs := updl (pcs w) t (RHold i) |}
                | Some _ => w
                end
    | None => w
    end
  | Some (RHold i), RUnlock =>
    match nth_error (shards w) i with
    | Some s => {| shards := updl (shards w) i {| writer := writer s; readers := remove Nat.eq_dec t (readers s) |};
                   pcs := updl (pcs w) t Idle |}
    | None => w
    end
  | Some Idle, WStep => {| shards := shards w; pcs := updl (pcs w) t (WLocking 0) |}
  | Some (WLocking j), WStep =>
    if j =? k then {| shards := shards w; pcs := updl (pcs w) t WHold |}
    else match nth_error (shards w) j with
         | Some s => match writer s, readers s with
                     | None, [] => {| shards := updl (shards w) j {| writer := Some t; readers := [] |};
                                      pcs := updl (pcs w) t (WLocking (S j)) |}
                     | _, _ => w
                     end
         | None => w
         end
  | Some WHold, WStep => {| shards := shards w; pcs := updl (pcs w) t (WUnlocking 0) |}
  | Some (WUnlocking j), WStep =>
    if j =? k then {| shards := shards w; pcs := updl (pcs w) t Idle |}
    else match nth_error (shards w) j with
         | Some s => {| shards := updl (shards w) j {| writer := None; readers := readers s |};
                        pcs := updl (pcs w) t (WUnlocking (S j)) |}
         | None => w
         end
  | _, _ => w
  end.

Definition run (w : world) (sched : list (nat * action)) : world := fold_left step sched w.

Definition init (nthreads : nat) : world :=
  {| shards := repeat {| writer := None; readers := [] |} k; pcs := repeat Idle nthreads |}.

(* which shards a thread in state p holds for writing *)
Definition wholds (p : pc) (i : nat) : bool :=
  match p with
  | WLocking j => i <? j
  | WHold => i <? k
  | WUnlocking j => (j <=? i) && (i <? k)
  | _ => false
  end.

Definition writer_inside (w : world) : Prop := exists t, nth_error (pcs w) t = Some WHold.
Definition reader_inside (w : world) : Prop := exists t i, nth_error (pcs w) t = Some (RHold i).

End ShardRW.
