(* C13: executable drivers that tie poolDequeue / poolChain runs of the real code (through the hook
   sys/syncx/poolqueue_verif.go) to the models Dequeue.v / Chain.v and to the list-deque specification.
   Definitions only (DeqLin_correct below is the instantiation of Common/Hist.lin_check_correct).

   Sequential runs: the harness calls the real methods one after the other; the model machine is run under the
   sequential schedule (each call to completion) and must return the same results and end in the same
   head / tail / slots (kind 1); independently the results must be those of the list deque (kind 2).
   Concurrent rounds: complete timed histories of one producer and k thieves on one real ring / chain, decided
   by the verified lin_check of Common/Hist.v instantiated with the list deque (kind 2). *)
From Coq Require Import ZArith List Bool Lia.
From VF Require Import Common.Base Common.Hist.
From VF Require Import C13.Dequeue C13.Chain.
Import ListNotations.
Local Open Scope Z_scope.

Definition popres_eqb (a b : popres) : bool :=
  match a, b with
  | Empty, Empty => true
  | Got x, Got y => option_eqb Nat.eqb x y
  | _, _ => false
  end.
Definition event_eqb (a b : event) : bool :=
  match a, b with
  | EPush v o, EPush w p => Nat.eqb v w && Bool.eqb o p
  | EPopHead r, EPopHead q => popres_eqb r q
  | EPopTail r, EPopTail q => popres_eqb r q
  | _, _ => false
  end.
Definition slots_eqb : list (option nat) -> list (option nat) -> bool := list_eqb (option_eqb Nat.eqb).
Definition onat_eqb : option nat -> option nat -> bool := option_eqb Nat.eqb.

Fixpoint last_opt {A} (l : list A) : option A :=
  match l with [] => None | [x] => Some x | _ :: t => last_opt t end.

(* ---- the list deque (front = head end): the judge of kind 2 ---- *)
Fixpoint split_last (l : list nat) : option (list nat * nat) :=
  match l with
  | [] => None
  | a :: t => match split_last t with None => Some ([], a) | Some (i, z) => Some (a :: i, z) end
  end.
(* is the observed result r what the list deque q allows, and the contents afterwards *)
Definition spec_pophead (q : list nat) (r : popres) : bool * list nat :=
  match r, q with
  | Empty, [] => (true, [])
  | Got (Some x), y :: q' => (Nat.eqb x y, q')
  | _, _ => (false, q)
  end.
Definition spec_poptail (q : list nat) (r : popres) : bool * list nat :=
  match r, split_last q with
  | Empty, None => (true, [])
  | Got (Some x), Some (q', y) => (Nat.eqb x y, q')
  | _, _ => (false, q)
  end.

(* ================= one ring, sequential ================= *)
Inductive dstep :=
| DReset (n h0 : Z)                          (* a fresh ring of n slots with head = tail = h0 *)
| DPush (v : nat) (ok : bool)                (* pushHead(v) returned ok *)
| DPopHead (r : popres)
| DPopTail (r : popres)
| DSnap (h t : Z) (slots : list (option nat)).   (* the two halves of headTail, the slots (nil / block) *)

Fixpoint settle_p (fuel : nat) (rs : rstate) : rstate :=
  match fuel with
  | O => rs
  | S f => match r_prod rs with RIdle => rs | _ => settle_p f (rstep rs LProd) end
  end.
Fixpoint settle_t (fuel : nat) (rs : rstate) : rstate :=
  match fuel with
  | O => rs
  | S f => match nth_error (r_thieves rs) 0 with Some R1 => rs | _ => settle_t f (rstep rs (LThief 0)) end
  end.
Definition r_last (rs : rstate) : option event := option_map snd (last_opt (r_trace rs)).
Definition r_clear (rs : rstate) : rstate :=
  rmk (r_sz rs) (r_head rs) (r_tail rs) (r_vals rs) (r_prod rs) (r_thieves rs) [].

Record dst := { d_m : rstate; d_q : list nat }.

Definition d_step (s : dst) (x : dstep) : dst * nat :=
  match x with
  | DReset n h0 => ({| d_m := rinit n 1 h0; d_q := [] |}, 0%nat)
  | DPush v ok =>
      let m := settle_p 8 (rstep (r_clear (d_m s)) (LPush v)) in
      let agree := match r_last m with Some e => event_eqb e (EPush v ok) | None => false end in
      ({| d_m := m; d_q := if ok then v :: d_q s else d_q s |}, kind_of agree true)
  | DPopHead r =>
      let m := settle_p 8 (rstep (r_clear (d_m s)) LPop) in
      let agree := match r_last m with Some e => event_eqb e (EPopHead r) | None => false end in
      let '(ok, q') := spec_pophead (d_q s) r in
      ({| d_m := m; d_q := q' |}, kind_of agree ok)
  | DPopTail r =>
      let m := settle_t 8 (rstep (r_clear (d_m s)) (LThief 0)) in
      let agree := match r_last m with Some e => event_eqb e (EPopTail r) | None => false end in
      let '(ok, q') := spec_poptail (d_q s) r in
      ({| d_m := m; d_q := q' |}, kind_of agree ok)
  | DSnap h t sl =>
      let m := d_m s in
      (s, if (r_head m =? h) && (r_tail m =? t) && slots_eqb (r_vals m) sl then 0%nat else 1%nat)
  end.

Definition check_dseq (steps : list dstep) : nat :=
  scan d_step {| d_m := rinit 1 1 0; d_q := [] |} steps 0.

(* ================= the chain, sequential ================= *)
Inductive kstep :=
| KReset (at0 : option Z)                    (* None: the zero poolChain; Some h0: one empty ring started at h0 *)
| KPush (v : nat)
| KPopHead (r : popres)
| KPopTail (r : popres)
(* size counter, the rings reached from c.tail following next as (head, tail, slots, next != nil, prev != nil),
   whether c.head is the last of them, and how many rings are reached from c.head following prev *)
| KSnap (size : Z) (rs : list (Z * Z * list (option nat) * bool * bool)) (head_last : bool) (back : nat).

Fixpoint csettle_p (fuel : nat) (s : cstate) : cstate :=
  match fuel with
  | O => s
  | S f => match cprod s with CIdle => s | _ => csettle_p f (cstep s LProd) end
  end.
Fixpoint csettle_t (fuel : nat) (s : cstate) : cstate :=
  match fuel with
  | O => s
  | S f => match nth_error (cthieves s) 0 with Some K0 => s | _ => csettle_t f (cstep s (LThief 0)) end
  end.
Definition c_last (s : cstate) : option event := option_map (fun c => snd (fst c)) (last_opt (ctrace s)).
Definition c_clear (s : cstate) : cstate :=
  cmk (cn0 s) (rings s) (chead s) (ctail s) (csize s) (cprod s) (cthieves s) [] [].

Definition isSome {A} (o : option A) : bool := match o with Some _ => true | None => false end.
(* the walk of the hook's Snapshot on the model *)
Fixpoint walk_next (fuel : nat) (s : cstate) (d : option nat) : list (nat * ring) :=
  match fuel, d with
  | S f, Some i => match nth_error (rings s) i with
                   | Some r => (i, r) :: walk_next f s (rnext r)
                   | None => []
                   end
  | _, _ => []
  end.
Fixpoint walk_prev (fuel : nat) (s : cstate) (d : option nat) : nat :=
  match fuel, d with
  | S f, Some i => match nth_error (rings s) i with
                   | Some r => S (walk_prev f s (rprev r))
                   | None => O
                   end
  | _, _ => O
  end.
Definition ring_snap_eqb (r : ring) (x : Z * Z * list (option nat) * bool * bool) : bool :=
  let '(h, t, sl, nx, pv) := x in
  (head (rq r) =? h) && (tail (rq r) =? t) && slots_eqb (vals (rq r)) sl
  && Bool.eqb (isSome (rnext r)) nx && Bool.eqb (isSome (rprev r)) pv.

Fixpoint all2 {A B} (f : A -> B -> bool) (l1 : list A) (l2 : list B) : bool :=
  match l1, l2 with
  | [], [] => true
  | a :: t1, b :: t2 => f a b && all2 f t1 t2
  | _, _ => false
  end.

Record kst := { k_m : cstate; k_q : list nat }.

Definition k_step (s : kst) (x : kstep) : kst * nat :=
  match x with
  | KReset None => ({| k_m := cinit 8 1; k_q := [] |}, 0%nat)
  | KReset (Some h0) => ({| k_m := cinit_at 8 1 h0; k_q := [] |}, 0%nat)
  | KPush v =>
      let m := csettle_p 64 (cstep (c_clear (k_m s)) (LPush v)) in
      let agree := match c_last m with Some e => event_eqb e (EPush v true) | None => false end in
      ({| k_m := m; k_q := v :: k_q s |}, kind_of agree true)
  | KPopHead r =>
      let m := csettle_p 400 (cstep (c_clear (k_m s)) LPop) in
      let agree := match c_last m with Some e => event_eqb e (EPopHead r) | None => false end in
      let '(ok, q') := spec_pophead (k_q s) r in
      ({| k_m := m; k_q := q' |}, kind_of agree ok)
  | KPopTail r =>
      let m := csettle_t 400 (cstep (c_clear (k_m s)) (LThief 0)) in
      let agree := match c_last m with Some e => event_eqb e (EPopTail r) | None => false end in
      let '(ok, q') := spec_poptail (k_q s) r in
      ({| k_m := m; k_q := q' |}, kind_of agree ok)
  | KSnap size rs head_last back =>
      let m := k_m s in
      let w := walk_next 70 m (ctail m) in
      let hl := match last_opt w, chead m with
                | Some (i, _), Some h => Nat.eqb i h
                | None, None => true
                | _, _ => false
                end in
      let ok := (csize m =? size) && all2 (fun p x => ring_snap_eqb (snd p) x) w rs
                && Bool.eqb hl head_last && Nat.eqb (walk_prev 70 m (chead m)) back in
      (s, if ok then 0%nat else 1%nat)
  end.

Definition check_kseq (steps : list kstep) : nat :=
  scan k_step {| k_m := cinit 8 1; k_q := [] |} steps 0.

(* ================= concurrent rounds: linearizability w.r.t. the list deque ================= *)
(* calls: a pushHead carries its own boolean result (a refused push has no effect, Dequeue.ss_push_fail);
   QTailWeak is a poolChain.popTail that answered (nil,false): it has no effect and is allowed in every state
   (Chain.cs_poptail_fail); on a single ring the empty answer is exact and is recorded as QPopTail/Empty *)
Inductive qcall := QPush (v : nat) (ok : bool) | QPopHead | QPopTail | QTailWeak.
Inductive qret := QUnit | QRes (r : popres).

Definition q_step (q : list nat) (c : qcall) : list nat * qret :=
  match c with
  | QPush v true => (v :: q, QUnit)
  | QPush v false => (q, QUnit)
  | QPopHead => match q with [] => ([], QRes Empty) | x :: q' => (q', QRes (Got (Some x))) end
  | QPopTail => match split_last q with None => ([], QRes Empty) | Some (q', x) => (q', QRes (Got (Some x))) end
  | QTailWeak => (q, QUnit)
  end.

Definition qcall_eqb (a b : qcall) : bool :=
  match a, b with
  | QPush v o, QPush w p => Nat.eqb v w && Bool.eqb o p
  | QPopHead, QPopHead | QPopTail, QPopTail | QTailWeak, QTailWeak => true
  | _, _ => false
  end.
Definition qret_eqb (a b : qret) : bool :=
  match a, b with
  | QUnit, QUnit => true
  | QRes r, QRes s => popres_eqb r s
  | _, _ => false
  end.
Definition qstate_eqb : list nat -> list nat -> bool := list_eqb Nat.eqb.

Definition qop := Hist.op qcall qret.
Definition mkop (i r : N) (c : qcall) (x : qret) : qop := Hist.Build_op i r c x.

Definition deque_linearizable (h : list qop) : Prop := linearizable (list nat) qcall qret q_step [] h.
Definition deque_lin_check (h : list qop) : bool :=
  lin_check (list nat) qcall qret q_step qret_eqb qcall_eqb qstate_eqb [] h.

(* a recording is well formed when every call is invoked before it returns and all stamps differ *)
Definition stamps (h : list qop) : list N := flat_map (fun o => [Hist.inv o; Hist.resp o]) h.
Fixpoint nnodup_b (l : list N) : bool :=
  match l with [] => true | x :: t => negb (existsb (N.eqb x) t) && nnodup_b t end.
Definition wellformed_b (h : list qop) : bool :=
  forallb (fun o => (Hist.inv o <? Hist.resp o)%N) h && nnodup_b (stamps h).

(* one round: 0 = linearizable, 1 = malformed recording, 2 = not linearizable *)
Definition round_code (h : list qop) : nat :=
  if negb (wellformed_b h) then 1%nat else if deque_lin_check h then 0%nat else 2%nat.
Definition check_rounds (rounds : list (list qop)) : nat :=
  scan (fun (_ : unit) h => (tt, round_code h)) tt rounds 0.

(* ---- correctness of the instantiation ---- *)
Lemma popres_eqb_spec a b : popres_eqb a b = true <-> a = b.
Proof.
  destruct a as [|[x|]], b as [|[y|]]; cbn; split; intros H; try congruence; try discriminate; try reflexivity.
  - apply Nat.eqb_eq in H. congruence.
  - inversion H. apply Nat.eqb_refl.
Qed.
Lemma qret_eqb_spec a b : qret_eqb a b = true <-> a = b.
Proof.
  destruct a as [|r], b as [|s]; cbn; split; intros H; try congruence; try discriminate; try reflexivity.
  - apply popres_eqb_spec in H. congruence.
  - inversion H. apply popres_eqb_spec. reflexivity.
Qed.
Lemma qcall_eqb_spec a b : qcall_eqb a b = true <-> a = b.
Proof.
  destruct a as [v o| | |], b as [w p| | |]; cbn; split; intros H; try congruence; try discriminate; try reflexivity.
  - apply andb_true_iff in H. destruct H as [H1 H2]. apply Nat.eqb_eq in H1. apply eqb_prop in H2. congruence.
  - inversion H. rewrite Nat.eqb_refl, eqb_reflx. reflexivity.
Qed.
Lemma qstate_eqb_spec a b : qstate_eqb a b = true <-> a = b.
Proof.
  unfold qstate_eqb. revert b. induction a as [|x a IH]; destruct b as [|y b]; cbn; split; intros H;
    try congruence; try discriminate; try reflexivity.
  - apply andb_true_iff in H. destruct H as [H1 H2]. apply Nat.eqb_eq in H1. apply IH in H2. congruence.
  - inversion H. subst. rewrite Nat.eqb_refl. apply IH. reflexivity.
Qed.

Theorem deque_lin_check_correct h : deque_lin_check h = true <-> deque_linearizable h.
Proof.
  unfold deque_lin_check, deque_linearizable.
  apply lin_check_correct; [exact qret_eqb_spec | exact qcall_eqb_spec | exact qstate_eqb_spec].
Qed.
