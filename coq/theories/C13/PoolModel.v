(* C13 model of sys/syncx/pool.go + poolqueue.go (the !race implementation).
   Get/Put run pinned to a P (procPin), so two calls on the same P never interleave and the only effect
   one call has on another P is one atomic popTail of a whole block from that P's chain.  A call is ONE
   atomic step; the victim of getSlow's scan is chosen by an oracle (failed attempts have no effect, so
   every timing of the scan is one of the oracle's choices).  poolChain/poolDequeue are lists of blocks
   (head of the list = head of the chain); a block and the private stack are lists of objects with the
   top of the stack first.  NO proofs in this file. *)
From Coq Require Import List Arith Lia Bool.
Import ListNotations.

Section Pool.
Variable B : nat.                    (* blockSize (256 in pool.go) *)
Variable has_new : bool.             (* p.New != nil *)

Definition obj := nat.
Definition block := list obj.        (* private[0..pidx), most recently stored first *)

(* poolLocalInternal: private block (None = nil pointer; Some [] = an empty block, pidx = 0),
   shared[shared] chain of full blocks, number of empty blocks in the shared[unused] chain *)
Record plocal := { priv : option block; shared : list block; unused : nat }.
Definition pl0 : plocal := {| priv := None; shared := []; unused := 0 |}.

Record world := {
  ps : list plocal;                  (* p.local, length = p.localSize *)
  out : list obj;                    (* objects currently held by callers *)
  fresh : nat                        (* next object New() will produce *)
}.

Definition pool0 (procs : nat) : world := {| ps := repeat pl0 procs; out := []; fresh := 0 |}.

Fixpoint upd {A} (l : list A) (i : nat) (x : A) : list A :=
  match l, i with [] , _ => [] | _ :: t, O => x :: t | a :: t, S i' => a :: upd t i' x end.

(* chain.popTail: the oldest block *)
Fixpoint split_last {A} (l : list A) : option (list A * A) :=
  match l with
  | [] => None
  | a :: t => match split_last t with
              | None => Some ([], a)
              | Some (i, z) => Some (a :: i, z)
              end
  end.

Inductive act :=
| Put (p : nat) (x : obj) (st : option nat)   (* st: which P getSlow(pid, unused) finds an empty block on *)
| Get (p : nat) (st : option nat)             (* st: which P getSlow(pid, shared) finds a full block on *)
| GC (p : nat)                                (* gc() drops P's two chains (world stopped) *)
| Resize (n : nat).                           (* pinSlow after GOMAXPROCS changed: a new, empty local array *)

Definition set_local (w : world) (p : nat) (l : plocal) : world :=
  {| ps := upd (ps w) p l; out := out w; fresh := fresh w |}.

(* Get's fallback: New() or nil *)
Definition new_obj (w : world) : world * option obj :=
  if has_new then ({| ps := ps w; out := fresh w :: out w; fresh := S (fresh w) |}, Some (fresh w))
  else (w, None).

Definition step (w : world) (a : act) : world * option obj :=
  match a with
  | Put p x st =>
    match nth_error (ps w) p with
    | None => (w, None)
    | Some l =>
      let w0 := {| ps := ps w; out := remove Nat.eq_dec x (out w); fresh := fresh w |} in
      (* if l.pidx >= blockSize: pushHead(private) on the shared chain, private = nil *)
      let l1 := match priv l with
                | Some b => if B <=? length b then {| priv := None; shared := b :: shared l; unused := unused l |} else l
                | None => l
                end in
      match priv l1 with
      | Some b => (set_local w0 p {| priv := Some (x :: b); shared := shared l1; unused := unused l1 |}, None)
      | None =>
        (* private == nil: own unused chain, else steal an empty block, else allocate *)
        if 0 <? unused l1 then
          (set_local w0 p {| priv := Some [x]; shared := shared l1; unused := unused l1 - 1 |}, None)
        else
          let w1 := match st with
                    | Some q => match nth_error (ps w0) q with
                                | Some lq => if (0 <? unused lq) && negb (q =? p)
                                             then set_local w0 q {| priv := priv lq; shared := shared lq; unused := unused lq - 1 |}
                                             else w0
                                | None => w0
                                end
                    | None => w0
                    end in
          (set_local w1 p {| priv := Some [x]; shared := shared l1; unused := unused l1 |}, None)
      end
    end
  | Get p st =>
    match nth_error (ps w) p with
    | None => new_obj w                       (* not reached with a valid pid *)
    | Some l =>
      match priv l with
      | Some (x :: b) =>
        ({| ps := upd (ps w) p {| priv := Some b; shared := shared l; unused := unused l |};
            out := x :: out w; fresh := fresh w |}, Some x)
      | pv =>
        (* private empty or nil: popHead of the own chain, else getSlow, else New *)
        let un := match pv with Some _ => S (unused l) | None => unused l end in   (* old private goes to unused *)
        match shared l with
        | (x :: b) :: rest =>
          ({| ps := upd (ps w) p {| priv := Some b; shared := rest; unused := un |};
              out := x :: out w; fresh := fresh w |}, Some x)
        | [] :: rest =>                       (* an empty block in the chain: not produced by Put *)
          new_obj (set_local w p {| priv := Some []; shared := rest; unused := un |})
        | [] =>
          match st with
          | Some q =>
            match nth_error (ps w) q with
            | Some lq =>
              match split_last (shared lq) with
              | Some (rest, x :: b) =>
                let w1 := set_local w q {| priv := priv lq; shared := rest; unused := unused lq |} in
                ({| ps := upd (ps w1) p {| priv := Some b; shared := []; unused := un |};
                    out := x :: out w; fresh := fresh w |}, Some x)
              | _ => new_obj w
              end
            | None => new_obj w
            end
          | None => new_obj w
          end
        end
      end
    end
  | GC p =>
    match nth_error (ps w) p with
    | None => (w, None)
    | Some l => (set_local w p {| priv := priv l; shared := []; unused := 0 |}, None)
    end
  | Resize n => ({| ps := repeat pl0 n; out := out w; fresh := fresh w |}, None)
  end.

Fixpoint run (w : world) (sched : list act) : world * list (act * option obj) :=
  match sched with
  | [] => (w, [])
  | a :: t => let '(w1, r) := step w a in
              let '(w2, tr) := run w1 t in (w2, (a, r) :: tr)
  end.

(* every Put x is issued by the current owner of x *)
Fixpoint disciplined (w : world) (sched : list act) : Prop :=
  match sched with
  | [] => True
  | a :: t => match a with Put _ x _ => In x (out w) | _ => True end /\ disciplined (fst (step w a)) t
  end.

Definition stored_p (l : plocal) : list obj :=
  match priv l with Some b => b | None => [] end ++ concat (shared l).
Definition stored (w : world) : list obj := concat (map stored_p (ps w)).

(* trace clauses: every Get result was put before or has never been seen (fresh from New);
   Get is never nil when New is set.  puts / known accumulate the objects put / ever returned so far *)
Fixpoint trace_ok (puts known : list obj) (tr : list (act * option obj)) : Prop :=
  match tr with
  | [] => True
  | (Put _ x _, _) :: t => trace_ok (x :: puts) known t
  | (Get _ _, Some x) :: t => (In x puts \/ ~ In x known) /\ trace_ok puts (x :: known) t
  | (Get _ _, None) :: t => has_new = false /\ trace_ok puts known t
  | _ :: t => trace_ok puts known t
  end.

End Pool.

(* the constant of pool.go (compared with the package's value on every run) *)
Definition blockSize : nat := 256.
