(* C13 - poolChain (sys/syncx/poolqueue.go): the doubly linked list of poolDequeue rings of doubling size,
   as an executable small-step concurrent system with the same granularity as Dequeue.v.
   DEFINITIONS ONLY; the proofs are in ProofsChain.v.

   Shared memory
     rings   : every poolChainElt ever allocated, in allocation order (ring i is the i-th allocation; a ring
               is never removed from this list - "dropping" a ring is what happens to the pointers).  Each
               element is one complete machine of Dequeue.v (packed headTail word, slots, the producer's and
               every thief's registers INSIDE that ring, and that ring's ghost state) plus the two link
               fields next / prev (None = nil, Some i = pointer to ring i).
     chead   : c.head  (only the producer reads and writes it: plain accesses, merged into the neighbouring
               atomic step, as are allocations - memory no other thread can reach yet)
     ctail   : c.tail  (atomic loads, one atomic store at initialisation, CAS by the thieves)
     csize   : c.size  (atomic adds; never read by the chain itself)
   Threads
     one producer (thread 0) running poolChain.pushHead / popHead calls chosen by the schedule, and T thieves
     (thread S j) each running poolChain.popTail for ever.
   Steps
     every atomic load / store / CAS / add of poolChain is one step; while a thread is inside
     d.pushHead / d.popHead / d.popTail of ring d, each of its steps is one step of ring d's Dequeue.v
     machine (Dequeue.step with LProd / LThief j), so every ring evolves by Dequeue.step only.
   Ghost state (never inspected by a real branch)
     clog    : chain calls in the order of their linearization points
     ctrace  : completed chain calls (thread, event with the returned result, index into clog)
     the k components of the control states (log index of a pop that has passed its linearization point).
   Events are Dequeue.event:  EPush v true = pushHead(v) (poolChain.pushHead returns nothing),
   EPopHead / EPopTail with Empty = (nil,false), Got p = (p,true). *)
From Coq Require Import ZArith List Bool.
From VF Require Import C13.Dequeue.
Import ListNotations.
Open Scope Z_scope.

Record ring := mkring { rq : state; rnext : option nat; rprev : option nat }.

(* ---- control states ---- *)
Inductive cpstate :=
| CIdle
| CPush0 (v : V)                       (* pushHead(v): about to AddInt32(&c.size, 1) *)
| CPushInit (v : V) (d : nat)          (* c.head was nil: ring d allocated, c.head = d; about to store c.tail = d *)
| CPushIn (v : V) (d : nat)            (* inside d.pushHead(v), d = c.head *)
| CPushLink (v : V) (d d2 : nat)       (* d was full: d2 allocated with prev = d, c.head = d2; about to store d.next = d2 *)
| CPushIn2 (v : V) (d2 : nat)          (* inside d2.pushHead(v); the code ignores the result *)
| CLost (v : V)                        (* d2.pushHead(v) returned false: v is dropped (proved unreachable) *)
| CPopIn (d : nat) (k : option nat)    (* inside d.popHead() *)
| CPopPrev (d : nat)                   (* d.popHead() said empty: about to load d.prev *)
| CPopDec (val : option V) (k : nat).  (* d.popHead() returned val: about to AddInt32(&c.size, -1) and return *)

Inductive ckstate :=
| K0                                                (* popTail: about to load c.tail *)
| KNext (d : nat)                                   (* about to load d.next *)
| KIn (d : nat) (d2 : option nat) (k : option nat)  (* inside d.popTail(); d2 = the value loaded from d.next *)
| KCas (d d2 : nat)                                 (* d drained for good: about to CAS(&c.tail, d, d2) *)
| KPrev (d2 : nat)                                  (* won the CAS: about to store d2.prev = nil *)
| KDec (val : option V) (k : nat).                  (* d.popTail() returned val: about to AddInt32(&c.size, -1) and return *)

Record cstate := cmk {
  cn0 : Z;                          (* initSize (8 in the code) *)
  rings : list ring;
  chead : option nat;
  ctail : option nat;
  csize : Z;
  cprod : cpstate;
  cthieves : list ckstate;
  clog : list (nat * event);
  ctrace : list (nat * event * nat)
}.

Definition set_rings s rs := cmk (cn0 s) rs (chead s) (ctail s) (csize s) (cprod s) (cthieves s) (clog s) (ctrace s).
Definition set_head s h := cmk (cn0 s) (rings s) h (ctail s) (csize s) (cprod s) (cthieves s) (clog s) (ctrace s).
Definition set_tail s t := cmk (cn0 s) (rings s) (chead s) t (csize s) (cprod s) (cthieves s) (clog s) (ctrace s).
Definition set_size s z := cmk (cn0 s) (rings s) (chead s) (ctail s) z (cprod s) (cthieves s) (clog s) (ctrace s).
Definition set_prod s p := cmk (cn0 s) (rings s) (chead s) (ctail s) (csize s) p (cthieves s) (clog s) (ctrace s).
Definition set_thieves s ts := cmk (cn0 s) (rings s) (chead s) (ctail s) (csize s) (cprod s) ts (clog s) (ctrace s).
Definition set_thief s j k := set_thieves s (upd (cthieves s) j k).
Definition c_log s (t : nat) (e : event) :=
  cmk (cn0 s) (rings s) (chead s) (ctail s) (csize s) (cprod s) (cthieves s) (clog s ++ [(t, e)]) (ctrace s).
Definition c_ret s (t : nat) (e : event) (k : nat) :=
  cmk (cn0 s) (rings s) (chead s) (ctail s) (csize s) (cprod s) (cthieves s) (clog s) (ctrace s ++ [(t, e, k)]).
Definition c_lp_ret s (t : nat) (e : event) := c_ret (c_log s t e) t e (length (clog s)).

(* ---- rings ---- *)
Definition T_of (s : cstate) : nat := length (cthieves s).
(* d = new(poolChainElt); d.vals = make([]eface, n)   (and prev, for the second allocation site) *)
Definition new_ring (n : Z) (T : nat) (h0 : Z) (pv : option nat) : ring := mkring (init n T h0) None pv.
(* newSize := len(d.vals) * 2; if newSize >= dequeueLimit { newSize = dequeueLimit } *)
Definition grow (n : Z) : Z := if 2 * n >=? dequeueLimit then dequeueLimit else 2 * n.

Definition on_q (f : state -> state) (r : ring) : ring := mkring (f (rq r)) (rnext r) (rprev r).
Definition ring_map (s : cstate) (d : nat) (f : ring -> ring) : cstate :=
  match nth_error (rings s) d with
  | Some r => set_rings s (upd (rings s) d (f r))
  | None => s
  end.
(* one step of ring d's own machine *)
Definition ring_do (s : cstate) (d : nat) (l : label) : cstate := ring_map s d (on_q (fun q => step q l)).
Definition set_next (s : cstate) (d : nat) (x : option nat) : cstate :=
  ring_map s d (fun r => mkring (rq r) x (rprev r)).
Definition set_prev (s : cstate) (d : nat) (x : option nat) : cstate :=
  ring_map s d (fun r => mkring (rq r) (rnext r) x).

(* ---- what the next step of a thread inside a ring returns, if that step completes the call
        (read from real registers / memory only) ---- *)
Definition push_outcome (q : state) : option bool :=
  match prod q with
  | PP1 _ => if (tail q + sz q) mod M32 =? head q then Some false else None
  | PP2 _ h => match rd (vals q) (h mod sz q) with Some _ => Some false | None => None end
  | PP4 _ => Some true
  | _ => None
  end.
Definition pop_outcome (q : state) : option popres :=
  match prod q with
  | PH1 => if tail q =? head q then Some Empty else None
  | PH4 _ val _ _ => Some (Got val)
  | _ => None
  end.
Definition thief_outcome (q : state) (j : nat) : option popres :=
  match nth_error (thieves q) j with
  | Some T1 => if tail q =? head q then Some Empty else None
  | Some (T4 _ val _ _ _) => Some (Got val)
  | _ => None
  end.

(* ghost: the value a pop of ring d has just been linearized with (the ring's log grew by a successful pop) *)
Definition new_lp (q q' : state) : option (nat * event) := nth_error (glog q') (length (glog q)).
Definition head_lp (q q' : state) : option V :=
  match new_lp q q' with Some (_, EPopHead (Got (Some x))) => Some x | _ => None end.
Definition tail_lp (q q' : state) : option V :=
  match new_lp q q' with Some (_, EPopTail (Got (Some x))) => Some x | _ => None end.
Definition k_or0 (k : option nat) : nat := match k with Some n => n | None => O end.

(* ---- producer ---- *)
Definition cprod_step (s : cstate) : cstate :=
  match cprod s with
  | CIdle => s
  | CLost _ => s
  | CPush0 v =>
      let s1 := set_size s (csize s + 1) in
      match chead s with
      | None =>                    (* d = new ring of initSize; c.head = d (private) *)
          let d := length (rings s) in
          set_prod (set_head (set_rings s1 (rings s ++ [new_ring (cn0 s) (T_of s) 0 None])) (Some d)) (CPushInit v d)
      | Some d => set_prod (ring_do s1 d (LPush v)) (CPushIn v d)
      end
  | CPushInit v d =>               (* storePoolChainElt(&c.tail, d); then d.pushHead(val) starts *)
      set_prod (ring_do (set_tail s (Some d)) d (LPush v)) (CPushIn v d)
  | CPushIn v d =>
      match nth_error (rings s) d with
      | None => s
      | Some r =>
          let s1 := ring_do s d LProd in
          match push_outcome (rq r) with
          | None => s1
          | Some true => set_prod (c_lp_ret s1 0 (EPush v true)) CIdle
          | Some false =>          (* d2 := &poolChainElt{prev: d}; d2.vals = make(newSize); c.head = d2 (private) *)
              let d2 := length (rings s1) in
              set_prod (set_head (set_rings s1 (rings s1 ++ [new_ring (grow (sz (rq r))) (T_of s) 0 (Some d)]))
                                 (Some d2))
                       (CPushLink v d d2)
          end
      end
  | CPushLink v d d2 =>            (* storePoolChainElt(&d.next, d2); then d2.pushHead(val) starts *)
      set_prod (ring_do (set_next s d (Some d2)) d2 (LPush v)) (CPushIn2 v d2)
  | CPushIn2 v d2 =>
      match nth_error (rings s) d2 with
      | None => s
      | Some r =>
          let s1 := ring_do s d2 LProd in
          match push_outcome (rq r) with
          | None => s1
          | Some true => set_prod (c_lp_ret s1 0 (EPush v true)) CIdle
          | Some false => set_prod s1 (CLost v)
          end
      end
  | CPopIn d k =>
      match nth_error (rings s) d with
      | None => s
      | Some r =>
          let q' := step (rq r) LProd in
          let s1 := ring_do s d LProd in
          let lp := match k with None => head_lp (rq r) q' | Some _ => None end in
          let s2 := match lp with Some x => c_log s1 0 (EPopHead (Got (Some x))) | None => s1 end in
          let k' := match lp with Some _ => Some (length (clog s)) | None => k end in
          match pop_outcome (rq r) with
          | None => set_prod s2 (CPopIn d k')
          | Some Empty => set_prod s2 (CPopPrev d)
          | Some (Got val) => set_prod s2 (CPopDec val (k_or0 k'))
          end
      end
  | CPopPrev d =>                  (* d = loadPoolChainElt(&d.prev) *)
      match nth_error (rings s) d with
      | None => s
      | Some r =>
          match rprev r with
          | None => set_prod (c_lp_ret s 0 (EPopHead Empty)) CIdle
          | Some d' => set_prod (ring_do s d' LPop) (CPopIn d' None)
          end
      end
  | CPopDec val k =>               (* atomic.AddInt32(&c.size, -1); return val, true *)
      set_prod (c_ret (set_size s (csize s - 1)) 0 (EPopHead (Got val)) k) CIdle
  end.

(* ---- thief j ---- *)
Definition cthief_step (s : cstate) (j : nat) : cstate :=
  match nth_error (cthieves s) j with
  | None => s
  | Some K0 =>                     (* d := loadPoolChainElt(&c.tail); if d == nil return nil,false *)
      match ctail s with
      | None => c_lp_ret s (S j) (EPopTail Empty)
      | Some d => set_thief s j (KNext d)
      end
  | Some (KNext d) =>              (* d2 := loadPoolChainElt(&d.next); then d.popTail() starts *)
      match nth_error (rings s) d with
      | None => s
      | Some r => set_thief s j (KIn d (rnext r) None)
      end
  | Some (KIn d d2 k) =>
      match nth_error (rings s) d with
      | None => s
      | Some r =>
          let q' := step (rq r) (LThief j) in
          let s1 := ring_do s d (LThief j) in
          let lp := match k with None => tail_lp (rq r) q' | Some _ => None end in
          let s2 := match lp with Some x => c_log s1 (S j) (EPopTail (Got (Some x))) | None => s1 end in
          let k' := match lp with Some _ => Some (length (clog s)) | None => k end in
          match thief_outcome (rq r) j with
          | None => set_thief s2 j (KIn d d2 k')
          | Some (Got val) => set_thief s2 j (KDec val (k_or0 k'))
          | Some Empty =>
              match d2 with
              | None => set_thief (c_lp_ret s2 (S j) (EPopTail Empty)) j K0   (* if d2 == nil return nil,false *)
              | Some e => set_thief s2 j (KCas d e)
              end
          end
      end
  | Some (KCas d d2) =>            (* CompareAndSwapPointer(&c.tail, d, d2); on success go on to clear d2.prev; d = d2 *)
      match ctail s with
      | Some t => if Nat.eqb t d then set_thief (set_tail s (Some d2)) j (KPrev d2)
                  else set_thief s j (KNext d2)
      | None => set_thief s j (KNext d2)
      end
  | Some (KPrev d2) =>             (* storePoolChainElt(&d2.prev, nil); d = d2 *)
      set_thief (set_prev s d2 None) j (KNext d2)
  | Some (KDec val k) =>           (* atomic.AddInt32(&c.size, -1); return val, true *)
      set_thief (c_ret (set_size s (csize s - 1)) (S j) (EPopTail (Got val)) k) j K0
  end.

Definition cstep (s : cstate) (l : label) : cstate :=
  match l with
  | LPush v => match cprod s with CIdle => set_prod s (CPush0 v) | _ => s end
  | LPop =>
      match cprod s with
      | CIdle =>                   (* d := c.head (private); for d != nil { d.popHead() ... } return nil,false *)
          match chead s with
          | None => c_lp_ret s 0 (EPopHead Empty)
          | Some d => set_prod (ring_do s d LPop) (CPopIn d None)
          end
      | _ => s
      end
  | LProd => cprod_step s
  | LThief j => cthief_step s j
  end.

Definition crun (s : cstate) (sched : list label) : cstate := fold_left cstep sched s.

(* the zero poolChain *)
Definition cinit (n0 : Z) (T : nat) : cstate := cmk n0 [] None None 0 CIdle (repeat K0 T) [] [].
(* the chain right after pushHead's initialisation branch (one empty ring, head = tail = ring 0), with the
   ring's indexes started at h0 (the code starts them at 0) *)
Definition cinit_at (n0 : Z) (T : nat) (h0 : Z) : cstate :=
  cmk n0 [new_ring n0 T h0 None] (Some 0%nat) (Some 0%nat) 0 CIdle (repeat K0 T) [] [].

(* ---- the abstract contents: ring contents concatenated, youngest ring first (front = head end) ---- *)
Definition cabs (s : cstate) : list V := flat_map (fun r => abs (rq r)) (rev (rings s)).

(* ---- the sequential specification of the chain.  poolChain.popTail may answer (nil,false) although the
        chain is not empty (ProofsChain.poptail_empty_not_exact), so the specification lets popTail fail
        spuriously, exactly as Dequeue.seq_step lets pushHead fail; popHead's empty answer is exact ---- *)
Inductive cseq_step : list V -> event -> list V -> Prop :=
| cs_push : forall q v, cseq_step q (EPush v true) (v :: q)
| cs_pophead : forall q x, cseq_step (x :: q) (EPopHead (Got (Some x))) q
| cs_pophead_empty : cseq_step [] (EPopHead Empty) []
| cs_poptail : forall q x, cseq_step (q ++ [x]) (EPopTail (Got (Some x))) q
| cs_poptail_fail : forall q, cseq_step q (EPopTail Empty) q.

Inductive cseq_run : list V -> list event -> list V -> Prop :=
| csr_nil : forall q, cseq_run q [] q
| csr_cons : forall q e q1 es q2, cseq_step q e q1 -> cseq_run q1 es q2 -> cseq_run q (e :: es) q2.

(* ---- observables ---- *)
Definition cpend_p (p : cpstate) : list nat :=
  match p with CPopIn _ (Some k) => [k] | CPopDec _ k => [k] | _ => [] end.
Definition cpend_k (t : ckstate) : list nat :=
  match t with KIn _ _ (Some k) => [k] | KDec _ k => [k] | _ => [] end.
Definition cpending_k (s : cstate) : list nat := cpend_p (cprod s) ++ flat_map cpend_k (cthieves s).

(* what the sequential driver of Check.v and the examples observe of one ring / of the chain *)
Definition ring_obs (r : ring) := (head (rq r), tail (rq r), vals (rq r), rnext r, rprev r).
Definition cobs (s : cstate) := (chead s, ctail s, csize s, map ring_obs (rings s), map (fun c => fst c) (ctrace s)).
