(* C13: the sequential chain specification that poolChain is proved to implement atomically (Chain.cseq_step,
   ProofsChain.chain_linearizable) performs exactly the list operations PoolModel uses for a P's chains of blocks:
   pushHead = cons, popHead = take the first element (empty answer only on the empty list), popTail = split_last;
   a popTail that answers (nil,false) has no effect - in PoolModel that is getSlow finding nothing on that P
   (the steal oracle choosing no victim), which PoolModel allows in every state. *)
From Coq Require Import ZArith List Bool.
Import ListNotations.
From VF Require C13.PoolModel.
From VF Require Import C13.Dequeue C13.Chain.
From VF Require C13.ProofsChain C13.ProofsDequeueLink.

Definition chain_poolmodel_op (q : list V) (e : event) (q' : list V) : Prop :=
  match e with
  | EPush v true => q' = v :: q                                        (* Put: b :: shared l *)
  | EPopHead (Got (Some x)) => q = x :: q'                             (* Get: shared l = b :: rest *)
  | EPopHead Empty => q = [] /\ q' = []                                (* Get: shared l = [] *)
  | EPopTail (Got (Some x)) => PoolModel.split_last q = Some (q', x)   (* getSlow: split_last (shared lq) *)
  | EPopTail Empty => q' = q                                           (* getSlow finds nothing there *)
  | _ => False                                 (* poolChain.pushHead has no failure; a pop never returns (nil,true) *)
  end.

Lemma cseq_step_poolmodel q e q' : cseq_step q e q' -> chain_poolmodel_op q e q'.
Proof.
  intros H. destruct H; cbn [chain_poolmodel_op]; auto.
  apply ProofsDequeueLink.split_last_snoc.
Qed.

Fixpoint chain_poolmodel_run (q : list V) (es : list event) (q' : list V) : Prop :=
  match es with
  | [] => q' = q
  | e :: es' => exists q1, chain_poolmodel_op q e q1 /\ chain_poolmodel_run q1 es' q'
  end.

Lemma cseq_run_poolmodel q es q' : cseq_run q es q' -> chain_poolmodel_run q es q'.
Proof.
  induction 1 as [q|q e q1 es q2 Hs _ IH]; [reflexivity|].
  exists q1. split; [now apply cseq_step_poolmodel|exact IH].
Qed.

(* the order-of-linearization-points log of every reachable chain state is a run of PoolModel's list operations
   ending in the chain's abstract contents *)
Theorem chain_refines_poolmodel_list : forall s, ProofsChain.creach s ->
  chain_poolmodel_run [] (map snd (clog s)) (cabs s).
Proof.
  intros s Hr. apply cseq_run_poolmodel. exact (proj1 (ProofsChain.chain_linearizable s Hr)).
Qed.

Print Assumptions chain_refines_poolmodel_list.
