(* C13 property theorems. Nothing but statements closed by [exact]/projection and Print Assumptions. *)
From VF Require Import Common.Base.
From VF Require C13.ShardRW C13.Proofs C13.PoolModel C13.PoolHist C13.ProofsPool C13.Check.
From VF Require C13.Dequeue C13.ProofsDequeue C13.ProofsDequeueLink.
From VF Require C13.Chain C13.ProofsChainRing C13.ProofsChain C13.ProofsChainSizes C13.ProofsChainLink C13.DeqCheck Common.Hist.

(* syncx.RWMutex: for every number k >= 1 of shards, every number of threads and every schedule of the
   per-shard acquisition / release steps: never a writer past its last acquire together with a reader
   holding a read lock *)
Theorem C13_rw_exclusion : forall k, 1 <= k -> forall nthreads sched,
  let w := ShardRW.run k (ShardRW.init k nthreads) sched in
  ~ (ShardRW.writer_inside w /\ ShardRW.reader_inside w).
Proof.
  intros k Hk nthreads sched w [[tw Hw] [tr [i Hr]]].
  exact (Proofs.rw_exclusion k nthreads sched Hk tw tr i Hw Hr).
Qed.
(* two writers inside Lock() never wait for each other (same acquisition order) *)
Theorem C13_rw_writers_no_cycle : forall k nthreads sched,
  let w := ShardRW.run k (ShardRW.init k nthreads) sched in
  forall t1 t2 j1 j2 s1 s2,
  nth_error (ShardRW.pcs w) t1 = Some (ShardRW.WLocking j1) -> nth_error (ShardRW.pcs w) t2 = Some (ShardRW.WLocking j2) ->
  nth_error (ShardRW.shards w) j1 = Some s1 -> ShardRW.writer s1 = Some t2 ->
  nth_error (ShardRW.shards w) j2 = Some s2 -> ShardRW.writer s2 = Some t1 -> False.
Proof.
  intros k nthreads sched w t1 t2 j1 j2 s1 s2.
  exact (Proofs.writers_no_cycle k w t1 t2 j1 j2 s1 s2 (Proofs.run_inv k nthreads sched)).
Qed.

Import PoolModel PoolHist.
(* syncx.Pool: for every block size, every number of Ps and every schedule of Get / Put / gc / re-allocation
   steps (every choice of steal victims) in which each Put x is issued by the current owner of x:
   all objects stored anywhere in the pool plus all outstanding ones are pairwise distinct; every Get result
   was put before or had never been seen (fresh from New); Get is never nil when New is set *)
Theorem C13_pool_ownership : forall B has_new procs sched,
  disciplined B has_new (pool0 procs) sched ->
  let w := fst (run B has_new (pool0 procs) sched) in
  let tr := snd (run B has_new (pool0 procs) sched) in
  NoDup (stored w ++ out w) /\ trace_ok has_new [] [] tr /\
  (has_new = true -> forall a, In (a, None) tr -> match a with Get _ _ => False | _ => True end).
Proof. exact ProofsPool.pool_ownership_proof. Qed.

(* the history checker decides exactly the three clauses *)
Theorem C13_pool_hist_b_ok : forall has_new h, pool_hist_b has_new h = true <-> PoolHistOK has_new h.
Proof. exact ProofsPool.pool_hist_b_ok_proof. Qed.
Theorem C13_stamps_distinct_b_ok : forall h, stamps_distinct_b h = true <-> StampsDistinct h.
Proof. exact ProofsPool.stamps_distinct_ok. Qed.

(* poolDequeue (poolqueue.go): the lock-free ring behind a P's chains, as a small-step system - shared
   head/tail (the two halves of the packed word, arithmetic mod 2^32), slots (nil / block pointer), ONE
   producer running pushHead / popHead calls and T thieves running popTail, every atomic load, CAS,
   fetch-add, slot read, slot store a separate step - for EVERY ring size n (1 <= n <= 2^30, n | 2^32: every
   power of two the code can allocate), every T, every initial index h0 (so the 2^32 wrap is covered) and
   EVERY schedule:
   (A) atomicity: the calls in the order of their linearization points (pushHead: the fetch-add; popHead /
   popTail: the successful CAS, or the load that sees head = tail) form a legal history of the sequential
   list deque ending in the abstract contents [abs]; a completed call returned exactly what was decided at
   its linearization point (the slot read happens later); every step is abstractly silent or exactly one
   sequential deque operation.  pushHead may fail spuriously (logged with no effect). *)
Theorem C13_dequeue_atomic : forall n T h0 sched, ProofsDequeue.good_params n h0 ->
  let st := Dequeue.run (Dequeue.init n T h0) sched in
  Dequeue.seq_run [] (map snd (Dequeue.glog st)) (Dequeue.abs st) /\
  (forall t e k, In (t, e, k) (Dequeue.trace st) -> nth_error (Dequeue.glog st) k = Some (t, e)) /\
  Permutation (map snd (Dequeue.trace st) ++ Dequeue.pending_k st) (seq 0 (length (Dequeue.glog st))) /\
  NoDup (map snd (Dequeue.trace st)) /\
  ProofsDequeue.pending_logged st /\
  (forall l, ProofsDequeue.lin_step st l).
Proof. exact ProofsDequeue.linearizable. Qed.
(* (B) ownership: values returned by completed pops + values held by pops past their CAS + the contents
   are a permutation of the values of the completed pushes: a block pushed once is popped at most once,
   by exactly one of popHead / popTail; nothing is invented or lost *)
Theorem C13_dequeue_ownership : forall n T h0 sched, ProofsDequeue.good_params n h0 ->
  let st := Dequeue.run (Dequeue.init n T h0) sched in
  Permutation (Dequeue.popped (Dequeue.trace st) ++ Dequeue.pending st ++ Dequeue.abs st)
              (Dequeue.pushed (Dequeue.trace st)).
Proof. exact ProofsDequeue.ownership. Qed.
(* (C) slot ownership: head - tail (mod 2^32) is the number of stored blocks and never exceeds n (no
   overflow, together with the slots thieves still hold: C13_dequeue_occupancy); the live slots hold the
   contents; a thief between its CAS and its nil store owns its slot exclusively (the slot still holds
   the block decided at the CAS, lies outside the live window, no other thief and not the producer -
   neither popping nor filling - is on it); the producer stores only into a nil slot outside the window *)
Theorem C13_dequeue_safety : forall n T h0 sched, ProofsDequeue.good_params n h0 ->
  let st := Dequeue.run (Dequeue.init n T h0) sched in
  (Dequeue.sz st = n /\ Z.of_nat (length (Dequeue.vals st)) = n) /\
  (0 <= Dequeue.head st < Dequeue.M32 /\ 0 <= Dequeue.tail st < Dequeue.M32)%Z /\
  (((Dequeue.head st - Dequeue.tail st) mod Dequeue.M32 = Z.of_nat (length (Dequeue.abs st)))%Z /\
   (Z.of_nat (length (Dequeue.abs st)) + ProofsDequeue.ex (Dequeue.prod st) <= n)%Z) /\
  ProofsDequeue.window_holds st /\ ProofsDequeue.thief_safe st /\ ProofsDequeue.pop_safe st /\ ProofsDequeue.push_safe st.
Proof. exact ProofsDequeue.safety. Qed.
Theorem C13_dequeue_occupancy : forall n T h0 sched, ProofsDequeue.good_params n h0 ->
  let st := Dequeue.run (Dequeue.init n T h0) sched in
  (Z.of_nat (length (Dequeue.abs st)) + Z.of_nat (length (flat_map Dequeue.tpend (Dequeue.thieves st)))
   + ProofsDequeue.ex (Dequeue.prod st) <= n)%Z.
Proof. exact ProofsDequeue.occupancy_bound. Qed.
(* pushHead's second check fails only when the ring is full or a thief has not released that slot yet *)
Theorem C13_dequeue_push_fail_reason : forall n T h0 sched v h y, ProofsDequeue.good_params n h0 ->
  let st := Dequeue.run (Dequeue.init n T h0) sched in
  Dequeue.prod st = Dequeue.PP2 v h -> Dequeue.rd (Dequeue.vals st) (h mod n)%Z = Some y ->
  Z.of_nat (length (Dequeue.abs st)) = n \/
  (exists j s p x, nth_error (Dequeue.thieves st) j = Some s /\ Dequeue.towned s = Some ((h mod n)%Z, p, x)).
Proof. exact ProofsDequeue.push_fail_reason. Qed.
(* the ghost components (abstract contents, log, unbounded indices) never influence memory, registers or
   results: erasing them gives the run of the ghost-free machine *)
Theorem C13_dequeue_ghost_free : forall sched n T h0,
  Dequeue.rrun (Dequeue.rinit n T h0) sched = Dequeue.erase (Dequeue.run (Dequeue.init n T h0) sched).
Proof. exact ProofsDequeue.erase_run. Qed.
(* the pair (head, tail) is the packed 64-bit word of the code: round trip, the fetch-add of 1<<32, the
   two CAS words; 2^k sizes are admissible and `& (2^k - 1)` is `mod 2^k` *)
Theorem C13_dequeue_word :
  (forall h t, (0 <= h < Dequeue.M32)%Z -> (0 <= t < Dequeue.M32)%Z -> Dequeue.unpack (Dequeue.pack h t) = (h, t)) /\
  (forall w, (0 <= w < Dequeue.M64)%Z ->
     Dequeue.pack (fst (Dequeue.unpack w)) (snd (Dequeue.unpack w)) = w /\
     (0 <= fst (Dequeue.unpack w) < Dequeue.M32)%Z /\ (0 <= snd (Dequeue.unpack w) < Dequeue.M32)%Z) /\
  (forall h t, (0 <= h < Dequeue.M32)%Z -> (0 <= t < Dequeue.M32)%Z ->
     Dequeue.add_head (Dequeue.pack h t) = Dequeue.pack ((h + 1) mod Dequeue.M32)%Z t) /\
  (forall h t, (0 <= h < Dequeue.M32)%Z -> (0 <= t < Dequeue.M32)%Z ->
     Dequeue.unpack (Dequeue.pack ((h - 1) mod Dequeue.M32)%Z t) = (((h - 1) mod Dequeue.M32)%Z, t) /\
     Dequeue.unpack (Dequeue.pack h ((t + 1) mod Dequeue.M32)%Z) = (h, ((t + 1) mod Dequeue.M32)%Z)) /\
  (forall k h0, (0 <= k <= 30)%Z -> (0 <= h0 < Dequeue.M32)%Z -> ProofsDequeue.good_params (2 ^ k)%Z h0) /\
  (forall h k, (0 <= k)%Z -> Z.land h (2 ^ k - 1) = (h mod 2 ^ k)%Z).
Proof.
  exact (conj ProofsDequeue.unpack_pack (conj ProofsDequeue.pack_unpack (conj ProofsDequeue.add_head_spec
        (conj ProofsDequeue.cas_words (conj ProofsDequeue.pow2_good ProofsDequeue.mask_is_mod))))).
Qed.
(* link to PoolModel: the sequential deque steps are PoolModel's list operations on a chain of blocks
   (pushHead = cons, popHead = first element, popTail = split_last), so the order-of-linearization-points
   log of every reachable state is a run of those list operations ending in the abstract contents *)
Theorem C13_dequeue_poolmodel : forall n T h0 sched, ProofsDequeue.good_params n h0 ->
  let st := Dequeue.run (Dequeue.init n T h0) sched in
  ProofsDequeueLink.poolmodel_run [] (map snd (Dequeue.glog st)) (Dequeue.abs st).
Proof. exact ProofsDequeueLink.dequeue_refines_poolmodel_list. Qed.

(* poolChain (poolqueue.go): the doubly linked list of poolDequeue rings of doubling size, as a small-step system
   with the same granularity - every ring is one complete Dequeue.v machine that evolves by Dequeue.step only;
   c.tail, the next / prev links and the size counter are shared words, every atomic load / store / CAS / add of
   poolChain.pushHead (initialisation, growing: the ring of size min(2n, 2^30) is linked before anything is
   pushed into it), popHead (walking back along prev) and popTail (load next BEFORE popping, CAS tail forward
   when the ring is drained for good, clear prev) is one step - for EVERY initial ring size 2^k (k <= 30), every
   number of thieves, every start index of the first ring and EVERY schedule of one producer and the thieves
   ([creach]: reachable from the zero chain or from a chain whose first ring exists):
   (A) atomicity: the chain calls in the order of their linearization points (pushHead: the fetch-add of the
   ring push; popHead/popTail: the successful ring CAS; popHead's empty answer: the load of d.prev = nil, or the
   call itself when c.head is nil) form a legal history of the sequential deque Chain.cseq_step ending in the
   abstract contents cabs = the rings' contents concatenated; every completed call returned what was decided at
   its linearization point and owns a distinct log entry; pending pops are logged with the value they will return.
   In Chain.cseq_step pushHead always succeeds, popHead answers empty only on the empty deque, and popTail MAY
   answer empty spuriously (no effect): C13_chain_poptail_empty_refuted shows that the strict reading is false. *)
Theorem C13_chain_atomic : forall s, ProofsChain.creach s ->
  Chain.cseq_run [] (map snd (Chain.clog s)) (Chain.cabs s) /\
  (forall t e k, In (t, e, k) (Chain.ctrace s) -> nth_error (Chain.clog s) k = Some (t, e)) /\
  Permutation (map snd (Chain.ctrace s) ++ Chain.cpending_k s) (seq 0 (length (Chain.clog s))) /\
  NoDup (map snd (Chain.ctrace s)) /\
  ProofsChain.cpending_logged s.
Proof. exact ProofsChain.chain_linearizable. Qed.
(* the log is append-only and a step only appends entries naming the thread that takes it, so every
   linearization point lies between the invocation and the response of its call (no invariant needed) *)
Theorem C13_chain_lp_inside_call : forall s l,
  exists es, Chain.clog (Chain.cstep s l) = Chain.clog s ++ es /\
             Forall (fun te => fst te = ProofsChain.thread_of l) es.
Proof. exact ProofsChain.clog_step. Qed.
(* (B) ownership: values returned by completed pops + values of pops past their linearization point + the contents
   are a permutation of the values of the completed pushes: every pushed value is popped at most once (by
   exactly one of popHead / popTail, from whichever ring), no value is invented, none is lost *)
Theorem C13_chain_ownership : forall s, ProofsChain.creach s ->
  Permutation (Dequeue.popped (Chain.ctrace s) ++ ProofsChain.cpending_vals s ++ Chain.cabs s)
              (Dequeue.pushed (Chain.ctrace s)).
Proof. exact ProofsChain.chain_ownership. Qed.
(* (C) dropping: every ring c.tail has been moved past, and the ring a thief is about to move c.tail past with its
   CAS, is empty, already linked to its successor (so it is not c.head and is never pushed to again: it stays
   empty) - no value is lost by dropping; c.tail points into the list, c.head is the youngest ring *)
Theorem C13_chain_drop_safe : forall s, ProofsChain.creach s ->
  (forall t i, Chain.ctail s = Some t -> i < t -> ProofsChain.droppable s i) /\
  (forall j d d2, nth_error (Chain.cthieves s) j = Some (Chain.KCas d d2) -> d2 = S d /\ ProofsChain.droppable s d) /\
  (forall t, Chain.ctail s = Some t -> t < length (Chain.rings s)) /\
  Chain.chead s = match length (Chain.rings s) with O => None | S m => Some m end.
Proof. exact ProofsChain.chain_drop_safe. Qed.
(* growing: the push into the freshly linked ring (whose boolean result the code ignores) never fails *)
Theorem C13_chain_push_never_lost : forall s v, ProofsChain.creach s -> Chain.cprod s <> Chain.CLost v.
Proof. exact ProofsChain.chain_push_never_lost. Qed.
(* every ring of the chain satisfies the ring invariant of ProofsDequeue.v (slot ownership, no overflow, live
   window ...), has a size 2^k <= 2^30, and its links are those of a list *)
Theorem C13_chain_rings_are_dequeues : forall s i r, ProofsChain.creach s -> nth_error (Chain.rings s) i = Some r ->
  ProofsDequeue.Core (Chain.rq r) /\ ProofsChainRing.pow2size (Dequeue.sz (Chain.rq r)) /\
  length (Dequeue.thieves (Chain.rq r)) = length (Chain.cthieves s) /\
  (Chain.rnext r = None \/ Chain.rnext r = Some (S i)) /\
  (Chain.rprev r = None \/ exists i', i = S i' /\ Chain.rprev r = Some i').
Proof. exact ProofsChain.chain_rings_are_dequeues. Qed.
(* sizes: ring 0 has the initial size (8 in the code), ring i+1 has Chain.grow (size of ring i) = min(2 * size, 2^30) *)
Theorem C13_chain_sizes : forall s, ProofsChain.creach s ->
  (forall r, nth_error (Chain.rings s) 0 = Some r -> Dequeue.sz (Chain.rq r) = Chain.cn0 s) /\
  (forall i r r', nth_error (Chain.rings s) i = Some r -> nth_error (Chain.rings s) (S i) = Some r' ->
     Dequeue.sz (Chain.rq r') = Chain.grow (Dequeue.sz (Chain.rq r))).
Proof. exact ProofsChainSizes.chain_sizes. Qed.
(* the strict specification (popTail answers empty only when the chain is empty) is FALSE of the faithful model:
   a reachable state s1 with thief 0 idle and a continuation [call] during which thief 0 runs exactly one
   popTail (it is not idle at any proper prefix), the chain is non-empty after every prefix, and that popTail
   returns (nil,false) *)
Theorem C13_chain_poptail_empty_refuted :
  exists s1 call,
    ProofsChain.creach s1 /\ nth_error (Chain.cthieves s1) 0 = Some Chain.K0 /\
    Chain.ctrace s1 = [(0, Dequeue.EPush 7 true, 0)] /\
    Forall (fun m => Chain.cabs (Chain.crun s1 (firstn m call)) <> []) (seq 0 (S (length call))) /\
    (forall m, S m < length call -> nth_error (Chain.cthieves (Chain.crun s1 (firstn (S m) call))) 0 <> Some Chain.K0) /\
    nth_error (Chain.cthieves (Chain.crun s1 call)) 0 = Some Chain.K0 /\
    map (fun c => fst c) (Chain.ctrace (Chain.crun s1 call)) =
      [(0, Dequeue.EPush 7 true); (0, Dequeue.EPush 8 true); (2, Dequeue.EPopTail (Dequeue.Got (Some 7)));
       (1, Dequeue.EPopTail Dequeue.Empty)].
Proof. exact ProofsChain.chain_poptail_empty_not_exact. Qed.
(* link to PoolModel: the chain's sequential steps are PoolModel's list operations on a chain of blocks; a popTail
   that answers empty is a steal attempt that finds nothing (allowed by PoolModel's oracle in every state) *)
Theorem C13_chain_poolmodel : forall s, ProofsChain.creach s ->
  ProofsChainLink.chain_poolmodel_run [] (map snd (Chain.clog s)) (Chain.cabs s).
Proof. exact ProofsChainLink.chain_refines_poolmodel_list. Qed.
(* the checker that judges the recorded concurrent rounds decides linearizability w.r.t. the list deque *)
Theorem C13_deque_lin_check_ok : forall h, DeqCheck.deque_lin_check h = true <->
  Hist.linearizable (list nat) DeqCheck.qcall DeqCheck.qret DeqCheck.q_step [] h.
Proof. exact DeqCheck.deque_lin_check_correct. Qed.

(* non-vacuity of the chain theorems: reachable states exist for the code's initial size 8 and for a first ring
   started just below 2^32; a run on rings of 2 and 4 slots in which the third push overflows into a second ring,
   thieves drain the first ring, the next popTail drops it (c.tail moves to ring 1, prev is cleared) and takes 3
   from the second ring, and popHead then finds the chain empty *)
Example C13_chain_nonvacuous :
  ProofsChain.creach (Chain.cinit 8 3) /\ ProofsChain.creach (Chain.cinit_at 8 2 4294967295) /\
  (let push v s := DeqCheck.csettle_p 64 (Chain.cstep s (Dequeue.LPush v)) in
   let steal s := DeqCheck.csettle_t 64 (Chain.cstep s (Dequeue.LThief 0)) in
   let pop s := DeqCheck.csettle_p 64 (Chain.cstep s Dequeue.LPop) in
   let s := pop (steal (steal (steal (push 3 (push 2 (push 1 (Chain.cinit 2 1))))))) in
   map (fun c => snd (fst c)) (Chain.ctrace s) =
     [Dequeue.EPush 1 true; Dequeue.EPush 2 true; Dequeue.EPush 3 true;
      Dequeue.EPopTail (Dequeue.Got (Some 1)); Dequeue.EPopTail (Dequeue.Got (Some 2));
      Dequeue.EPopTail (Dequeue.Got (Some 3)); Dequeue.EPopHead Dequeue.Empty] /\
   map (fun r => Dequeue.sz (Chain.rq r)) (Chain.rings s) = [2; 4]%Z /\
   Chain.ctail s = Some 1 /\ Chain.chead s = Some 1 /\ Chain.cabs s = [] /\ Chain.csize s = 0%Z /\
   map Chain.rprev (Chain.rings s) = [None; None] /\ map Chain.rnext (Chain.rings s) = [Some 1; None]).
Proof.
  assert (H8 : ProofsChainRing.pow2size 8) by (exists 3%Z; repeat split; easy).
  split; [exact (ProofsChain.cr_zero 8 3 [] H8)|].
  split; [refine (ProofsChain.cr_at 8 2 4294967295 [] H8 _); rewrite ProofsDequeue.M32_val; split; easy|].
  vm_compute. repeat split; reflexivity.
Qed.

(* non-vacuity of the dequeue theorems: a ring of 2 whose last block producer and thief race for (one
   wins, the other answers empty), a push that fails until the thief releases the slot, and a run across
   the 2^32 wrap are the Examples at the end of ProofsDequeue.v; here: admissible parameters exist *)
Example C13_dequeue_nonvacuous :
  ProofsDequeue.good_params 8 0 /\ ProofsDequeue.good_params 1073741824 4294967295 /\
  (let st := Dequeue.run (Dequeue.init 2 1 4294967295)
       [Dequeue.LPush 7; Dequeue.LProd; Dequeue.LProd; Dequeue.LProd; Dequeue.LProd;
        Dequeue.LPop; Dequeue.LProd; Dequeue.LThief 0; Dequeue.LThief 0; Dequeue.LProd; Dequeue.LProd;
        Dequeue.LThief 0; Dequeue.LThief 0] in
   map snd (Dequeue.glog st) = [Dequeue.EPush 7 true; Dequeue.EPopTail (Dequeue.Got (Some 7)); Dequeue.EPopHead Dequeue.Empty]
   /\ Dequeue.abs st = [] /\ Dequeue.head st = 0%Z /\ Dequeue.tail st = 0%Z).
Proof.
  split; [exact (ProofsDequeue.pow2_good 3 0 ltac:(lia) ltac:(rewrite ProofsDequeue.M32_val; lia))|].
  split; [exact (ProofsDequeue.pow2_good 30 4294967295 ltac:(lia) ltac:(rewrite ProofsDequeue.M32_val; lia))|].
  vm_compute. repeat split; reflexivity.
Qed.

(* non-vacuity: a disciplined schedule with an overflowing block, a steal, a gc and a re-allocation;
   a history satisfying the clauses and three violating one clause each; a reachable writer-inside state *)
Example C13_nonvacuous :
  (let sched := [Get 0 None; Get 0 None; Get 0 None; Put 0 0 None; Put 0 1 None; Put 0 2 None;
                 Get 1 (Some 0); GC 0; Get 0 None; Put 1 1 None; Resize 3; Get 2 (Some 1)] in
   disciplined 2 true (pool0 2) sched /\
   map snd (snd (run 2 true (pool0 2) sched)) =
     [Some 0; Some 1; Some 2; None; None; None; Some 1; None; Some 2; None; None; Some 3]%nat) /\
  (let e a b w k := {| pinv := a; presp := b; pwho := w; pwhat := k |} in
   pool_hist_b true [e 1 4 1 (PGet (Some 7) 2); e 5 6 1 (PPut 7); e 7 8 2 (PGet (Some 7) 2)]%Z = true /\
   pool_hist_b true [e 1 4 1 (PGet (Some 7) 2); e 7 8 2 (PGet (Some 7) 2); e 9 10 1 (PPut 7)]%Z = false /\
   pool_hist_b true [e 1 4 1 (PGet (Some 7) 0)]%Z = false /\
   pool_hist_b true [e 1 4 1 (PGet None 0)]%Z = false) /\
  ShardRW.writer_inside (ShardRW.run 2 (ShardRW.init 2 2) [(0, ShardRW.WStep); (0, ShardRW.WStep); (0, ShardRW.WStep); (0, ShardRW.WStep)]).
Proof.
  split; [|split].
  - cbv zeta. split; [vm_compute; intuition|vm_compute; reflexivity].
  - cbv zeta. repeat split; vm_compute; reflexivity.
  - exists 0. vm_compute. reflexivity.
Qed.

Print Assumptions C13_rw_exclusion.
Print Assumptions C13_rw_writers_no_cycle.
Print Assumptions C13_pool_ownership.
Print Assumptions C13_pool_hist_b_ok.
Print Assumptions C13_stamps_distinct_b_ok.
Print Assumptions C13_dequeue_atomic.
Print Assumptions C13_dequeue_ownership.
Print Assumptions C13_dequeue_safety.
Print Assumptions C13_dequeue_occupancy.
Print Assumptions C13_dequeue_push_fail_reason.
Print Assumptions C13_dequeue_ghost_free.
Print Assumptions C13_dequeue_word.
Print Assumptions C13_dequeue_poolmodel.
Print Assumptions C13_chain_atomic.
Print Assumptions C13_chain_lp_inside_call.
Print Assumptions C13_chain_ownership.
Print Assumptions C13_chain_drop_safe.
Print Assumptions C13_chain_push_never_lost.
Print Assumptions C13_chain_rings_are_dequeues.
Print Assumptions C13_chain_sizes.
Print Assumptions C13_chain_poptail_empty_refuted.
Print Assumptions C13_chain_poolmodel.
Print Assumptions C13_deque_lin_check_ok.
