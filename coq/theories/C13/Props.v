(* C13 property theorems. Nothing but statements closed by [exact]/projection and Print Assumptions. *)
From VF Require Import Common.Base.
From VF Require C13.ShardRW C13.Proofs C13.PoolModel C13.PoolHist C13.ProofsPool C13.Check.
From VF Require C13.Dequeue C13.ProofsDequeue C13.ProofsDequeueLink.

(* syncx.RWMutex: for every number k >= 1 of shards, every number of threads and every schedule of the
   per-shard acquisition / release steps: never a writer past its last acquire together with a reader
   holding a read lock *)
Theorem C13_rw_exclusion : forall k, 1 <= k -> forall nthreads sched,
  let w := ShardRW.run k (ShardRW.init k nthreads) sched in
  ~ (ShardRW.writer_inside w /\ ShardRW.reader_inside w).
Proof.
  intros k Hk nthreads sched w [[tw Hw] [tr [i Hr]]].
  exact (Proofs.rw_exclusion k nthreads sched Hk tw tr i Hw Hr).
Qed.
(* two writers inside Lock() never wait for each other (same acquisition order) *)
Theorem C13_rw_writers_no_cycle : forall k nthreads sched,
  let w := ShardRW.run k (ShardRW.init k nthreads) sched in
  forall t1 t2 j1 j2 s1 s2,
  nth_error (ShardRW.pcs w) t1 = Some (ShardRW.WLocking j1) -> nth_error (ShardRW.pcs w) t2 = Some (ShardRW.WLocking j2) ->
  nth_error (ShardRW.shards w) j1 = Some s1 -> ShardRW.writer s1 = Some t2 ->
  nth_error (ShardRW.shards w) j2 = Some s2 -> ShardRW.writer s2 = Some t1 -> False.
Proof.
  intros k nthreads sched w t1 t2 j1 j2 s1 s2.
  exact (Proofs.writers_no_cycle k w t1 t2 j1 j2 s1 s2 (Proofs.run_inv k nthreads sched)).
Qed.

Import PoolModel PoolHist.
(* syncx.Pool: for every block size, every number of Ps and every schedule of Get / Put / gc / re-allocation
   steps (every choice of steal victims) in which each Put x is issued by the current owner of x:
   all objects stored anywhere in the pool plus all outstanding ones are pairwise distinct; every Get result
   was put before or had never been seen (fresh from New); Get is never nil when New is set *)
Theorem C13_pool_ownership : forall B has_new procs sched,
  disciplined B has_new (pool0 procs) sched ->
  let w := fst (run B has_new (pool0 procs) sched) in
  let tr := snd (run B has_new (pool0 procs) sched) in
  NoDup (stored w ++ out w) /\ trace_ok has_new [] [] tr /\
  (has_new = true -> forall a, In (a, None) tr -> match a with Get _ _ => False | _ => True end).
Proof. exact ProofsPool.pool_ownership_proof. Qed.

(* the history checker decides exactly the three clauses *)
Theorem C13_pool_hist_b_ok : forall has_new h, pool_hist_b has_new h = true <-> PoolHistOK has_new h.
Proof. exact ProofsPool.pool_hist_b_ok_proof. Qed.
Theorem C13_stamps_distinct_b_ok : forall h, stamps_distinct_b h = true <-> StampsDistinct h.
Proof. exact ProofsPool.stamps_distinct_ok. Qed.

(* poolDequeue (poolqueue.go): the lock-free ring behind a P's chains, as a small-step system - shared
   head/tail (the two halves of the packed word, arithmetic mod 2^32), slots (nil / block pointer), ONE
   producer running pushHead / popHead calls and T thieves running popTail, every atomic load, CAS,
   fetch-add, slot read, slot store a separate step - for EVERY ring size n (1 <= n <= 2^30, n | 2^32: every
   power of two the code can allocate), every T, every initial index h0 (so the 2^32 wrap is covered) and
   EVERY schedule:
   (A) atomicity: the calls in the order of their linearization points (pushHead: the fetch-add; popHead /
   popTail: the successful CAS, or the load that sees head = tail) form a legal history of the sequential
   list deque ending in the abstract contents [abs]; a completed call returned exactly what was decided at
   its linearization point (the slot read happens later); every step is abstractly silent or exactly one
   sequential deque operation.  pushHead may fail spuriously (logged with no effect). *)
Theorem C13_dequeue_atomic : forall n T h0 sched, ProofsDequeue.good_params n h0 ->
  let st := Dequeue.run (Dequeue.init n T h0) sched in
  Dequeue.seq_run [] (map snd (Dequeue.glog st)) (Dequeue.abs st) /\
  (forall t e k, In (t, e, k) (Dequeue.trace st) -> nth_error (Dequeue.glog st) k = Some (t, e)) /\
  Permutation (map snd (Dequeue.trace st) ++ Dequeue.pending_k st) (seq 0 (length (Dequeue.glog st))) /\
  NoDup (map snd (Dequeue.trace st)) /\
  ProofsDequeue.pending_logged st /\
  (forall l, ProofsDequeue.lin_step st l).
Proof. exact ProofsDequeue.linearizable. Qed.
(* (B) ownership: values returned by completed pops + values held by pops past their CAS + the contents
   are a permutation of the values of the completed pushes: a block pushed once is popped at most once,
   by exactly one of popHead / popTail; nothing is invented or lost *)
Theorem C13_dequeue_ownership : forall n T h0 sched, ProofsDequeue.good_params n h0 ->
  let st := Dequeue.run (Dequeue.init n T h0) sched in
  Permutation (Dequeue.popped (Dequeue.trace st) ++ Dequeue.pending st ++ Dequeue.abs st)
              (Dequeue.pushed (Dequeue.trace st)).
Proof. exact ProofsDequeue.ownership. Qed.
(* (C) slot ownership: head - tail (mod 2^32) is the number of stored blocks and never exceeds n (no
   overflow, together with the slots thieves still hold: C13_dequeue_occupancy); the live slots hold the
   contents; a thief between its CAS and its nil store owns its slot exclusively (the slot still holds
   the block decided at the CAS, lies outside the live window, no other thief and not the producer -
   neither popping nor filling - is on it); the producer stores only into a nil slot outside the window *)
Theorem C13_dequeue_safety : forall n T h0 sched, ProofsDequeue.good_params n h0 ->
  let st := Dequeue.run (Dequeue.init n T h0) sched in
  (Dequeue.sz st = n /\ Z.of_nat (length (Dequeue.vals st)) = n) /\
  (0 <= Dequeue.head st < Dequeue.M32 /\ 0 <= Dequeue.tail st < Dequeue.M32)%Z /\
  (((Dequeue.head st - Dequeue.tail st) mod Dequeue.M32 = Z.of_nat (length (Dequeue.abs st)))%Z /\
   (Z.of_nat (length (Dequeue.abs st)) + ProofsDequeue.ex (Dequeue.prod st) <= n)%Z) /\
  ProofsDequeue.window_holds st /\ ProofsDequeue.thief_safe st /\ ProofsDequeue.pop_safe st /\ ProofsDequeue.push_safe st.
Proof. exact ProofsDequeue.safety. Qed.
Theorem C13_dequeue_occupancy : forall n T h0 sched, ProofsDequeue.good_params n h0 ->
  let st := Dequeue.run (Dequeue.init n T h0) sched in
  (Z.of_nat (length (Dequeue.abs st)) + Z.of_nat (length (flat_map Dequeue.tpend (Dequeue.thieves st)))
   + ProofsDequeue.ex (Dequeue.prod st) <= n)%Z.
Proof. exact ProofsDequeue.occupancy_bound. Qed.
(* pushHead's second check fails only when the ring is full or a thief has not released that slot yet *)
Theorem C13_dequeue_push_fail_reason : forall n T h0 sched v h y, ProofsDequeue.good_params n h0 ->
  let st := Dequeue.run (Dequeue.init n T h0) sched in
  Dequeue.prod st = Dequeue.PP2 v h -> Dequeue.rd (Dequeue.vals st) (h mod n)%Z = Some y ->
  Z.of_nat (length (Dequeue.abs st)) = n \/
  (exists j s p x, nth_error (Dequeue.thieves st) j = Some s /\ Dequeue.towned s = Some ((h mod n)%Z, p, x)).
Proof. exact ProofsDequeue.push_fail_reason. Qed.
(* the ghost components (abstract contents, log, unbounded indices) never influence memory, registers or
   results: erasing them gives the run of the ghost-free machine *)
Theorem C13_dequeue_ghost_free : forall sched n T h0,
  Dequeue.rrun (Dequeue.rinit n T h0) sched = Dequeue.erase (Dequeue.run (Dequeue.init n T h0) sched).
Proof. exact ProofsDequeue.erase_run. Qed.
(* the pair (head, tail) is the packed 64-bit word of the code: round trip, the fetch-add of 1<<32, the
   two CAS words; 2^k sizes are admissible and `& (2^k - 1)` is `mod 2^k` *)
Theorem C13_dequeue_word :
  (forall h t, (0 <= h < Dequeue.M32)%Z -> (0 <= t < Dequeue.M32)%Z -> Dequeue.unpack (Dequeue.pack h t) = (h, t)) /\
  (forall w, (0 <= w < Dequeue.M64)%Z ->
     Dequeue.pack (fst (Dequeue.unpack w)) (snd (Dequeue.unpack w)) = w /\
     (0 <= fst (Dequeue.unpack w) < Dequeue.M32)%Z /\ (0 <= snd (Dequeue.unpack w) < Dequeue.M32)%Z) /\
  (forall h t, (0 <= h < Dequeue.M32)%Z -> (0 <= t < Dequeue.M32)%Z ->
     Dequeue.add_head (Dequeue.pack h t) = Dequeue.pack ((h + 1) mod Dequeue.M32)%Z t) /\
  (forall h t, (0 <= h < Dequeue.M32)%Z -> (0 <= t < Dequeue.M32)%Z ->
     Dequeue.unpack (Dequeue.pack ((h - 1) mod Dequeue.M32)%Z t) = (((h - 1) mod Dequeue.M32)%Z, t) /\
     Dequeue.unpack (Dequeue.pack h ((t + 1) mod Dequeue.M32)%Z) = (h, ((t + 1) mod Dequeue.M32)%Z)) /\
  (forall k h0, (0 <= k <= 30)%Z -> (0 <= h0 < Dequeue.M32)%Z -> ProofsDequeue.good_params (2 ^ k)%Z h0) /\
  (forall h k, (0 <= k)%Z -> Z.land h (2 ^ k - 1) = (h mod 2 ^ k)%Z).
Proof.
  exact (conj ProofsDequeue.unpack_pack (conj ProofsDequeue.pack_unpack (conj ProofsDequeue.add_head_spec
        (conj ProofsDequeue.cas_words (conj ProofsDequeue.pow2_good ProofsDequeue.mask_is_mod))))).
Qed.
(* link to PoolModel: the sequential deque steps are PoolModel's list operations on a chain of blocks
   (pushHead = cons, popHead = first element, popTail = split_last), so the order-of-linearization-points
   log of every reachable state is a run of those list operations ending in the abstract contents *)
Theorem C13_dequeue_poolmodel : forall n T h0 sched, ProofsDequeue.good_params n h0 ->
  let st := Dequeue.run (Dequeue.init n T h0) sched in
  ProofsDequeueLink.poolmodel_run [] (map snd (Dequeue.glog st)) (Dequeue.abs st).
Proof. exact ProofsDequeueLink.dequeue_refines_poolmodel_list. Qed.

(* non-vacuity of the dequeue theorems: a ring of 2 whose last block producer and thief race for (one
   wins, the other answers empty), a push that fails until the thief releases the slot, and a run across
   the 2^32 wrap are the Examples at the end of ProofsDequeue.v; here: admissible parameters exist *)
Example C13_dequeue_nonvacuous :
  ProofsDequeue.good_params 8 0 /\ ProofsDequeue.good_params 1073741824 4294967295 /\
  (let st := Dequeue.run (Dequeue.init 2 1 4294967295)
       [Dequeue.LPush 7; Dequeue.LProd; Dequeue.LProd; Dequeue.LProd; Dequeue.LProd;
        Dequeue.LPop; Dequeue.LProd; Dequeue.LThief 0; Dequeue.LThief 0; Dequeue.LProd; Dequeue.LProd;
        Dequeue.LThief 0; Dequeue.LThief 0] in
   map snd (Dequeue.glog st) = [Dequeue.EPush 7 true; Dequeue.EPopTail (Dequeue.Got (Some 7)); Dequeue.EPopHead Dequeue.Empty]
   /\ Dequeue.abs st = [] /\ Dequeue.head st = 0%Z /\ Dequeue.tail st = 0%Z).
Proof.
  split; [exact (ProofsDequeue.pow2_good 3 0 ltac:(lia) ltac:(rewrite ProofsDequeue.M32_val; lia))|].
  split; [exact (ProofsDequeue.pow2_good 30 4294967295 ltac:(lia) ltac:(rewrite ProofsDequeue.M32_val; lia))|].
  vm_compute. repeat split; reflexivity.
Qed.

(* non-vacuity: a disciplined schedule with an overflowing block, a steal, a gc and a re-allocation;
   a history satisfying the clauses and three violating one clause each; a reachable writer-inside state *)
Example C13_nonvacuous :
  (let sched := [Get 0 None; Get 0 None; Get 0 None; Put 0 0 None; Put 0 1 None; Put 0 2 None;
                 Get 1 (Some 0); GC 0; Get 0 None; Put 1 1 None; Resize 3; Get 2 (Some 1)] in
   disciplined 2 true (pool0 2) sched /\
   map snd (snd (run 2 true (pool0 2) sched)) =
     [Some 0; Some 1; Some 2; None; None; None; Some 1; None; Some 2; None; None; Some 3]%nat) /\
  (let e a b w k := {| pinv := a; presp := b; pwho := w; pwhat := k |} in
   pool_hist_b true [e 1 4 1 (PGet (Some 7) 2); e 5 6 1 (PPut 7); e 7 8 2 (PGet (Some 7) 2)]%Z = true /\
   pool_hist_b true [e 1 4 1 (PGet (Some 7) 2); e 7 8 2 (PGet (Some 7) 2); e 9 10 1 (PPut 7)]%Z = false /\
   pool_hist_b true [e 1 4 1 (PGet (Some 7) 0)]%Z = false /\
   pool_hist_b true [e 1 4 1 (PGet None 0)]%Z = false) /\
  ShardRW.writer_inside (ShardRW.run 2 (ShardRW.init 2 2) [(0, ShardRW.WStep); (0, ShardRW.WStep); (0, ShardRW.WStep); (0, ShardRW.WStep)]).
Proof.
  split; [|split].
  - cbv zeta. split; [vm_compute; intuition|vm_compute; reflexivity].
  - cbv zeta. repeat split; vm_compute; reflexivity.
  - exists 0. vm_compute. reflexivity.
Qed.

Print Assumptions C13_rw_exclusion.
Print Assumptions C13_rw_writers_no_cycle.
Print Assumptions C13_pool_ownership.
Print Assumptions C13_pool_hist_b_ok.
Print Assumptions C13_stamps_distinct_b_ok.
Print Assumptions C13_dequeue_atomic.
Print Assumptions C13_dequeue_ownership.
Print Assumptions C13_dequeue_safety.
Print Assumptions C13_dequeue_occupancy.
Print Assumptions C13_dequeue_push_fail_reason.
Print Assumptions C13_dequeue_ghost_free.
Print Assumptions C13_dequeue_word.
Print Assumptions C13_dequeue_poolmodel.
