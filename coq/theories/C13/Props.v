(* C13 property theorems. Nothing but statements closed by [exact]/projection and Print Assumptions. *)
From VF Require Import Common.Base.
From VF Require C13.ShardRW C13.Proofs C13.PoolModel C13.PoolHist C13.ProofsPool C13.Check.

(* syncx.RWMutex: for every number k >= 1 of shards, every number of threads and every schedule of the
   per-shard acquisition / release steps: never a writer past its last acquire together with a reader
   holding a read lock *)
Theorem C13_rw_exclusion : forall k, 1 <= k -> forall nthreads sched,
  let w := ShardRW.run k (ShardRW.init k nthreads) sched in
  ~ (ShardRW.writer_inside w /\ ShardRW.reader_inside w).
Proof.
  intros k Hk nthreads sched w [[tw Hw] [tr [i Hr]]].
  exact (Proofs.rw_exclusion k nthreads sched Hk tw tr i Hw Hr).
Qed.
(* two writers inside Lock() never wait for each other (same acquisition order) *)
Theorem C13_rw_writers_no_cycle : forall k nthreads sched,
  let w := ShardRW.run k (ShardRW.init k nthreads) sched in
  forall t1 t2 j1 j2 s1 s2,
  nth_error (ShardRW.pcs w) t1 = Some (ShardRW.WLocking j1) -> nth_error (ShardRW.pcs w) t2 = Some (ShardRW.WLocking j2) ->
  nth_error (ShardRW.shards w) j1 = Some s1 -> ShardRW.writer s1 = Some t2 ->
  nth_error (ShardRW.shards w) j2 = Some s2 -> ShardRW.writer s2 = Some t1 -> False.
Proof.
  intros k nthreads sched w t1 t2 j1 j2 s1 s2.
  exact (Proofs.writers_no_cycle k w t1 t2 j1 j2 s1 s2 (Proofs.run_inv k nthreads sched)).
Qed.

Import PoolModel PoolHist.
(* syncx.Pool: for every block size, every number of Ps and every schedule of Get / Put / gc / re-allocation
   steps (every choice of steal victims) in which each Put x is issued by the current owner of x:
   all objects stored anywhere in the pool plus all outstanding ones are pairwise distinct; every Get result
   was put before or had never been seen (fresh from New); Get is never nil when New is set *)
Theorem C13_pool_ownership : forall B has_new procs sched,
  disciplined B has_new (pool0 procs) sched ->
  let w := fst (run B has_new (pool0 procs) sched) in
  let tr := snd (run B has_new (pool0 procs) sched) in
  NoDup (stored w ++ out w) /\ trace_ok has_new [] [] tr /\
  (has_new = true -> forall a, In (a, None) tr -> match a with Get _ _ => False | _ => True end).
Proof. exact ProofsPool.pool_ownership_proof. Qed.

(* the history checker decides exactly the three clauses *)
Theorem C13_pool_hist_b_ok : forall has_new h, pool_hist_b has_new h = true <-> PoolHistOK has_new h.
Proof. exact ProofsPool.pool_hist_b_ok_proof. Qed.
Theorem C13_stamps_distinct_b_ok : forall h, stamps_distinct_b h = true <-> StampsDistinct h.
Proof. exact ProofsPool.stamps_distinct_ok. Qed.

(* non-vacuity: a disciplined schedule with an overflowing block, a steal, a gc and a re-allocation;
   a history satisfying the clauses and three violating one clause each; a reachable writer-inside state *)
Example C13_nonvacuous :
  (let sched := [Get 0 None; Get 0 None; Get 0 None; Put 0 0 None; Put 0 1 None; Put 0 2 None;
                 Get 1 (Some 0); GC 0; Get 0 None; Put 1 1 None; Resize 3; Get 2 (Some 1)] in
   disciplined 2 true (pool0 2) sched /\
   map snd (snd (run 2 true (pool0 2) sched)) =
     [Some 0; Some 1; Some 2; None; None; None; Some 1; None; Some 2; None; None; Some 3]%nat) /\
  (let e a b w k := {| pinv := a; presp := b; pwho := w; pwhat := k |} in
   pool_hist_b true [e 1 4 1 (PGet (Some 7) 2); e 5 6 1 (PPut 7); e 7 8 2 (PGet (Some 7) 2)]%Z = true /\
   pool_hist_b true [e 1 4 1 (PGet (Some 7) 2); e 7 8 2 (PGet (Some 7) 2); e 9 10 1 (PPut 7)]%Z = false /\
   pool_hist_b true [e 1 4 1 (PGet (Some 7) 0)]%Z = false /\
   pool_hist_b true [e 1 4 1 (PGet None 0)]%Z = false) /\
  ShardRW.writer_inside (ShardRW.run 2 (ShardRW.init 2 2) [(0, ShardRW.WStep); (0, ShardRW.WStep); (0, ShardRW.WStep); (0, ShardRW.WStep)]).
Proof.
  split; [|split].
  - cbv zeta. split; [vm_compute; intuition|vm_compute; reflexivity].
  - cbv zeta. repeat split; vm_compute; reflexivity.
  - exists 0. vm_compute. reflexivity.
Qed.

Print Assumptions C13_rw_exclusion.
Print Assumptions C13_rw_writers_no_cycle.
Print Assumptions C13_pool_ownership.
Print Assumptions C13_pool_hist_b_ok.
Print Assumptions C13_stamps_distinct_b_ok.
