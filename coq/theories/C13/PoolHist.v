(* C13: the three clauses of the Pool statement over recorded timed histories, and the executable
   checker.  Definitions only (equivalence in Proofs.v).
   An event is one completed call with its invocation / response stamps (one atomic counter).
   Objects are numbered; every object carries the stamp drawn inside New() when it was created
   ([born]; objects not made by New carry a stamp outside every call). *)
From VF Require Import Common.Base.
Local Open Scope Z_scope.

Inductive pkind := PGet (r : option Z) (born : Z) | PPut (x : Z).
Record pevent := { pinv : Z; presp : Z; pwho : Z; pwhat : pkind }.
Definition phistory := list pevent.

Definition is_get (x : Z) (e : pevent) : Prop := exists b, pwhat e = PGet (Some x) b.
Definition is_put (x : Z) (e : pevent) : Prop := pwhat e = PPut x.

(* 1. no two outstanding Gets hold the same object: between two hand-outs of x there is a Put of x,
      invoked after the first Get returned and before the second Get returned *)
Definition Exclusive (h : phistory) : Prop :=
  forall g1 g2 x, In g1 h -> In g2 h -> is_get x g1 -> is_get x g2 -> presp g1 < presp g2 ->
    exists p, In p h /\ is_put x p /\ presp g1 < pinv p /\ pinv p < presp g2.
(* 2. every returned object was previously Put, or was produced by New during this very call *)
Definition PutOrNew (h : phistory) : Prop :=
  forall g x b, In g h -> pwhat g = PGet (Some x) b ->
    (exists p, In p h /\ is_put x p /\ pinv p < presp g) \/ (pinv g < b < presp g).
(* 3. Get never returns nil when New is set *)
Definition NeverNil (has_new : bool) (h : phistory) : Prop :=
  has_new = true -> forall g b, In g h -> pwhat g <> PGet None b.

Definition PoolHistOK (has_new : bool) (h : phistory) : Prop := Exclusive h /\ PutOrNew h /\ NeverNil has_new h.

(* stamps of distinct events differ (they come from one atomic counter): makes "presp g1 < presp g2"
   cover every pair of distinct Gets *)
Definition StampsDistinct (h : phistory) : Prop := NoDup (map presp h).

(* ---- executable twins ---- *)
Definition is_put_b (x : Z) (e : pevent) : bool := match pwhat e with PPut y => x =? y | _ => false end.

Definition exclusive_b (h : phistory) : bool :=
  forallb (fun g1 =>
    match pwhat g1 with
    | PGet (Some x) _ =>
      forallb (fun g2 =>
        match pwhat g2 with
        | PGet (Some y) _ =>
          if (x =? y) && (presp g1 <? presp g2)
          then existsb (fun p => is_put_b x p && (presp g1 <? pinv p) && (pinv p <? presp g2)) h
          else true
        | _ => true
        end) h
    | _ => true
    end) h.

Definition putornew_b (h : phistory) : bool :=
  forallb (fun g =>
    match pwhat g with
    | PGet (Some x) b => existsb (fun p => is_put_b x p && (pinv p <? presp g)) h || ((pinv g <? b) && (b <? presp g))
    | _ => true
    end) h.

Definition nevernil_b (has_new : bool) (h : phistory) : bool :=
  negb has_new || forallb (fun g => match pwhat g with PGet None _ => false | _ => true end) h.

Definition pool_hist_b (has_new : bool) (h : phistory) : bool := exclusive_b h && putornew_b h && nevernil_b has_new h.

Fixpoint znodup_b (l : list Z) : bool :=
  match l with [] => true | x :: t => negb (existsb (Z.eqb x) t) && znodup_b t end.
Definition stamps_distinct_b (h : phistory) : bool := znodup_b (map presp h).
