(* C10 lemmas: the output checkers of Spec.v decide what they are named after. *)
From VF Require Import C10.SortModel C10.Spec.
From Coq Require Import Sorted Mergesort Orders ZifyBool.
Ltac Zify.zify_post_hook ::= Z.to_euclidean_division_equations.
Local Open Scope Z_scope.

(* ---------- adjacent check = StronglySorted, for a transitive "not greater" ---------- *)
Section Adj.
  Variable less : Z -> Z -> bool.
  Hypothesis le_trans : forall a b c, less b a = false -> less c b = false -> less c a = false.

  Lemma sorted_adj_b_sound : forall l, sorted_adj_b less l = true -> SortedBy less l.
  Proof.
    unfold SortedBy. induction l as [|x t IH]; intros H; [constructor|].
    cbn [sorted_adj_b] in H. destruct t as [|y t'].
    - constructor; constructor.
    - apply andb_true_iff in H as [H1 H2]. apply negb_true_iff in H1. specialize (IH H2).
      constructor; [exact IH|]. inversion IH as [|? ? Hss Hall]; subst.
      constructor; [exact H1|]. eapply Forall_impl; [|exact Hall]. intros z Hz. unfold le_of in *.
      eapply le_trans; eassumption.
  Qed.

  Lemma sorted_adj_b_complete : forall l, SortedBy less l -> sorted_adj_b less l = true.
  Proof.
    unfold SortedBy. induction l as [|x t IH]; intros H; [reflexivity|].
    inversion H as [|? ? Hss Hall]; subst. cbn [sorted_adj_b]. destruct t as [|y t']; [reflexivity|].
    inversion Hall as [|? ? Hxy _]; subst. unfold le_of in Hxy. rewrite Hxy. cbn [negb andb]. now apply IH.
  Qed.
End Adj.

Lemma lt_full_trans a b c : lt_full b a = false -> lt_full c b = false -> lt_full c a = false.
Proof. unfold lt_full. lia. Qed.
Lemma lt_key_trans a b c : lt_key b a = false -> lt_key c b = false -> lt_key c a = false.
Proof. unfold lt_key. lia. Qed.

Lemma StronglySorted_impl_in {A} (R R' : A -> A -> Prop) : forall l,
  (forall a b, In a l -> In b l -> R a b -> R' a b) -> StronglySorted R l -> StronglySorted R' l.
Proof.
  induction l as [|x t IH]; intros Himp H; [constructor|]. inversion H as [|? ? Hs Ha]; subst.
  constructor.
  - apply IH; [|assumption]. intros a b Ia Ib. apply Himp; now right.
  - rewrite Forall_forall in *. intros y Hy. apply Himp; [now left|now right|now apply Ha].
Qed.
Lemma StronglySorted_impl' {A} (R R' : A -> A -> Prop) l :
  (forall a b, R a b -> R' a b) -> StronglySorted R l -> StronglySorted R' l.
Proof. intros H. apply StronglySorted_impl_in. intros a b _ _. apply H. Qed.

(* ---------- permutation = equal after sorting ---------- *)
Lemma leb_trans : Transitive (fun x y => is_true (ZLe.leb x y)).
Proof. intros x y z. unfold ZLe.leb, is_true. lia. Qed.

Lemma sorted_perm_unique : forall l1 l2,
  StronglySorted Z.le l1 -> StronglySorted Z.le l2 -> Permutation l1 l2 -> l1 = l2.
Proof.
  induction l1 as [|a t1 IH]; intros l2 S1 S2 P.
  - apply Permutation_nil in P. now subst.
  - destruct l2 as [|b t2]; [apply Permutation_sym, Permutation_nil in P; discriminate|].
    inversion S1 as [|? ? S1' A1]; subst. inversion S2 as [|? ? S2' A2]; subst.
    assert (a = b).
    { assert (In b (a :: t1)) as [E|Hin] by (eapply Permutation_in; [apply Permutation_sym; exact P|now left]); [assumption|].
      assert (In a (b :: t2)) as [E|Hin2] by (eapply Permutation_in; [exact P|now left]); [now symmetry|].
      rewrite Forall_forall in A1, A2. specialize (A1 b Hin). specialize (A2 a Hin2). lia. }
    subst b. f_equal. apply IH; auto. eapply Permutation_cons_inv; exact P.
Qed.

Lemma sort_sorted l : StronglySorted Z.le (ZSort.sort l).
Proof.
  pose proof (ZSort.StronglySorted_sort l leb_trans) as H.
  eapply StronglySorted_impl'; [|exact H].
  intros x y. unfold ZLe.leb, is_true. lia.
Qed.

Lemma zlist_eqb_eq a b : zlist_eqb a b = true <-> a = b.
Proof. apply list_eqb_eq. intros x y. apply Z.eqb_eq. Qed.

Lemma perm_sort_b_ok xs ys : perm_sort_b xs ys = true <-> Permutation xs ys.
Proof.
  unfold perm_sort_b. rewrite zlist_eqb_eq. split.
  - intros E. eapply perm_trans; [apply ZSort.Permuted_sort|]. rewrite E. apply Permutation_sym, ZSort.Permuted_sort.
  - intros P. apply sorted_perm_unique; try apply sort_sorted.
    eapply perm_trans; [apply Permutation_sym, ZSort.Permuted_sort|].
    eapply perm_trans; [exact P|apply ZSort.Permuted_sort].
Qed.

(* the checker of the sorts: sorted w.r.t. less and a permutation *)
Lemma sorted_perm_b_ok less xs ys :
  (forall a b c, less b a = false -> less c b = false -> less c a = false) ->
  (sorted_perm_b less xs ys = true <-> SortedBy less ys /\ Permutation xs ys).
Proof.
  intros Htr. unfold sorted_perm_b. rewrite andb_true_iff, perm_sort_b_ok. split; intros [H1 H2]; split; auto.
  - now apply sorted_adj_b_sound.
  - now apply sorted_adj_b_complete.
Qed.

(* ---------- stability ---------- *)
Lemma tag_key_decompose x : x = key x * 2 ^ 20 + tag x /\ 0 <= tag x < 2 ^ 20.
Proof.
  unfold key, tag. rewrite Z.shiftr_div_pow2 by lia.
  change (2 ^ 20 - 1) with (Z.ones 20). rewrite Z.land_ones by lia.
  pose proof (Z.mod_pos_bound x (2 ^ 20) ltac:(lia)). pose proof (Z.div_mod x (2 ^ 20) ltac:(lia)). lia.
Qed.

Lemma key_mono x y : x <= y -> key x <= key y.
Proof. intros H. unfold key. rewrite !Z.shiftr_div_pow2 by lia. apply Z.div_le_mono; lia. Qed.

Lemma same_key_order x y : key x = key y -> tag x < tag y -> x < y.
Proof.
  intros Hk Ht. pose proof (tag_key_decompose x) as [Ex _]. pose proof (tag_key_decompose y) as [Ey _].
  rewrite Ex, Ey, Hk. lia.
Qed.

Lemma filter_StronglySorted {A} (R : A -> A -> Prop) (f : A -> bool) : forall l,
  StronglySorted R l -> StronglySorted R (filter f l).
Proof.
  induction l as [|x t IH]; intros H; [constructor|]. inversion H as [|? ? Hs Ha]; subst. cbn [filter].
  destruct (f x); [|now apply IH]. constructor; [now apply IH|].
  rewrite Forall_forall in *. intros y Hy. apply filter_In in Hy as [Hy _]. now apply Ha.
Qed.

Lemma filter_Permutation {A} (f : A -> bool) : forall l1 l2, Permutation l1 l2 -> Permutation (filter f l1) (filter f l2).
Proof.
  induction 1 as [|x l1 l2 P IH|x y l|l1 l2 l3 P1 IH1 P2 IH2]; cbn [filter].
  - constructor.
  - destruct (f x); [now constructor|assumption].
  - destruct (f x), (f y); try reflexivity. apply perm_swap.
  - eapply perm_trans; eassumption.
Qed.

Lemma tags_increasing_sound xs : tags_increasing_b xs = true -> StronglySorted (fun a b => tag a < tag b) xs.
Proof.
  intros H. unfold tags_increasing_b in H.
  apply sorted_adj_b_sound in H; [|intros a b c; lia].
  eapply StronglySorted_impl'; [|exact H]. intros a b. unfold le_of. lia.
Qed.

(* ys = xs sorted by whole value, the tags of xs increasing: ys is sorted by key and stable *)
Lemma stable_sorted_b_sound xs ys :
  tags_increasing_b xs = true -> stable_sorted_b xs ys = true ->
  SortedBy lt_key ys /\ Stable xs ys.
Proof.
  intros Ht Hs. unfold stable_sorted_b in Hs. apply zlist_eqb_eq in Hs. subst ys.
  pose proof (sort_sorted xs) as Hsorted. pose proof (ZSort.Permuted_sort xs) as Hperm.
  split; [|split; [exact Hperm|]].
  - unfold SortedBy. eapply StronglySorted_impl'; [|exact Hsorted].
    intros a b Hab. unfold le_of, lt_key. pose proof (key_mono a b Hab). fold (key a) (key b). lia.
  - intros k. apply sorted_perm_unique.
    + now apply filter_StronglySorted.
    + apply tags_increasing_sound in Ht.
      apply (filter_StronglySorted _ (fun x => key x =? k)) in Ht.
      eapply StronglySorted_impl_in; [|exact Ht]. intros a b Ia Ib Hab.
      apply filter_In in Ia as [_ Ka]. apply filter_In in Ib as [_ Kb].
      apply Z.eqb_eq in Ka, Kb. cbv beta in Hab.
      assert (a < b) by (apply same_key_order; [congruence|exact Hab]). lia.
    + apply filter_Permutation, Permutation_sym, Hperm.
Qed.
