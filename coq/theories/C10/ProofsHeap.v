(* C10 lemmas: heapSort(data, a, b) of SortModel.v sorts data[a:b] for any strict weak order, leaves the rest
   alone and never indexes out of range. siftDown restores the heap property below a root whose subtrees are
   heaps (loop invariant: heap everywhere except at the current root, whose children are below its parent). *)
From VF Require Import C10.SortModel C10.ProofsPerm C10.ProofsInsertion.
From Coq Require Import ZifyNat.
Ltac Zify.zify_post_hook ::= Z.to_euclidean_division_equations.
Local Open Scope nat_scope.

Definition hv (d : list Z) (first k : nat) : Z := getd d (first + k).

Lemma hv_swap d first i j k : first + i < length d -> first + j < length d ->
  hv (swap 0%Z d (first + i) (first + j)) first k =
  if k =? i then hv d first j else if k =? j then hv d first i else hv d first k.
Proof.
  intros Hi Hj. unfold hv. rewrite getd_swap by assumption.
  destruct (Nat.eqb_spec (first + k) (first + i)); destruct (Nat.eqb_spec k i); try lia; try reflexivity.
  destruct (Nat.eqb_spec (first + k) (first + j)); destruct (Nat.eqb_spec k j); try lia; reflexivity.
Qed.

Ltac sp5 := split; [|split; [|split; [|split]]].
Ltac sp4 := split; [|split; [|split]].

Section Heap.
Variable less : Z -> Z -> bool.
Hypothesis less_asym : forall a b, less a b = true -> less b a = false.
Hypothesis le_trans : forall a b c, less b a = false -> less c b = false -> less c a = false.
Notation le := (le less).
Let le_refl := le_refl less less_asym.
Let le_tr : forall a b c, le a b -> le b c -> le a c := le_trans.

Definition child_ok (d : list Z) (first hi k : nat) : Prop :=
  (2 * k + 1 < hi -> le (hv d first (2 * k + 1)) (hv d first k)) /\
  (2 * k + 2 < hi -> le (hv d first (2 * k + 2)) (hv d first k)).
Definition heap (d : list Z) (first lo hi : nat) : Prop := forall k, lo <= k -> k < hi -> child_ok d first hi k.
Definition heap_except (d : list Z) (first lo hi r : nat) : Prop :=
  forall k, lo <= k -> k < hi -> k <> r -> child_ok d first hi k.
Definition gp_ok (d : list Z) (first lo hi r : nat) : Prop :=
  forall p c, lo <= p -> (r = 2 * p + 1 \/ r = 2 * p + 2) -> (c = 2 * r + 1 \/ c = 2 * r + 2) -> c < hi ->
  le (hv d first c) (hv d first p).

Lemma child_ok_alt d first hi k :
  child_ok d first hi k <-> (forall c, (c = 2 * k + 1 \/ c = 2 * k + 2) -> c < hi -> le (hv d first c) (hv d first k)).
Proof.
  unfold child_ok. split.
  - intros [H1 H2] c [->| ->] Hc; auto.
  - intros H. split; intros Hc; apply H; auto.
Qed.

Lemma sift_down_spec : forall fuel s r hi first lo,
  hi - r < fuel -> lo <= r -> first + hi <= length (sd s) ->
  heap_except (sd s) first lo hi r -> gp_ok (sd s) first lo hi r ->
  let s' := sift_down less fuel s r hi first in
  heap (sd s') first lo hi /\ length (sd s') = length (sd s) /\
  (forall x, (x < first + r \/ first + hi <= x) -> getd (sd s') x = getd (sd s) x) /\
  (forall k, r <= k -> k < hi -> exists k', r <= k' /\ k' < hi /\ hv (sd s') first k = hv (sd s) first k') /\
  sbad s' = sbad s.
Proof.
  induction fuel as [|f IH]; intros s r hi first lo Hfuel Hlo Hlen Hex Hgp; [lia|].
  cbn [sift_down]. set (d := sd s) in *.
  destruct (Nat.leb_spec hi (2 * r + 1)) as [Hc|Hc].
  { (* no child in range *)
    fold d. sp5; auto.
    - intros k Hk1 Hk2. destruct (Nat.eq_dec k r) as [->|Hne]; [|now apply Hex].
      split; intros; lia.
    - intros k Hk1 Hk2. exists k. auto. }
  (* pick the larger child *)
  set (child := 2 * r + 1) in *.
  assert (Hpick : exists c1 s1, (if child + 1 <? hi then lessAt less s (first + child) (first + child + 1) else (false, s)) = (c1, s1)
                   /\ sd s1 = d /\ sbad s1 = sbad s
                   /\ (let child' := if c1 then child + 1 else child in
                       child' < hi /\ (child' = child \/ child' = child + 1) /\
                       forall c, (c = child \/ c = child + 1) -> c < hi -> le (hv d first c) (hv d first child'))).
  { destruct (Nat.ltb_spec (child + 1) hi) as [H2|H2].
    - rewrite lessAt_in by (fold d; lia). fold d.
      replace (first + child + 1) with (first + (child + 1)) by lia.
      fold (hv d first child) (hv d first (child + 1)).
      destruct (less (hv d first child) (hv d first (child + 1))) eqn:El.
      + eexists; eexists. split; [reflexivity|]. split; [reflexivity|]. split; [reflexivity|]. cbv zeta.
        split; [lia|]. split; [now right|]. intros c [->| ->] Hc'; [|apply le_refl]. unfold C10.ProofsInsertion.le. now apply less_asym.
      + eexists; eexists. split; [reflexivity|]. split; [reflexivity|]. split; [reflexivity|]. cbv zeta.
        split; [lia|]. split; [now left|]. intros c [->| ->] Hc'; [apply le_refl|exact El].
    - eexists; eexists. split; [reflexivity|]. split; [reflexivity|]. split; [reflexivity|]. cbv zeta.
      split; [lia|]. split; [now left|]. intros c [->| ->] Hc'; [apply le_refl|lia]. }
  destruct Hpick as (c1 & s1 & -> & Hd1 & Hb1 & Hch). cbv zeta in Hch.
  set (child' := if c1 then child + 1 else child) in *. destruct Hch as (Hc'hi & Hc'eq & Hbig).
  rewrite lessAt_in by (rewrite Hd1; lia). rewrite Hd1.
  fold (hv d first r) (hv d first child').
  set (s2 := logc s1 (hv d first r) (hv d first child')).
  assert (Hd2 : sd s2 = d) by (unfold s2; cbn [sd logc]; exact Hd1).
  assert (Hb2 : sbad s2 = sbad s) by (unfold s2; cbn [sbad logc]; exact Hb1).
  destruct (less (hv d first r) (hv d first child')) eqn:El; cbn [negb].
  - (* swap and continue below *)
    rewrite (swapAt_swap s2) by (rewrite Hd2; lia). rewrite Hd2.
    set (d' := swap 0%Z d (first + r) (first + child')).
    set (s3 := setd s2 d').
    assert (Hlen' : length d' = length d) by apply swap_length.
    assert (Hhv : forall k, hv d' first k = if k =? r then hv d first child' else if k =? child' then hv d first r else hv d first k).
    { intros k. unfold d'. apply hv_swap; lia. }
    assert (Hrc : le (hv d first r) (hv d first child')) by (unfold C10.ProofsInsertion.le; now apply less_asym).
    destruct (IH s3 child' hi first lo) as (I1 & I2 & I3 & I4 & I5); try (cbn [sd setd s3]; lia).
    { (* heap_except for the new root *)
      cbn [sd setd s3]. intros k Hk1 Hk2 Hkc. apply child_ok_alt. intros c Hcc Hchi. rewrite !Hhv.
      destruct (Nat.eqb_spec k r) as [->|Hkr].
      - (* k = r: its children are child, child + 1 *)
        destruct (Nat.eqb_spec c r) as [E|_]; [lia|].
        destruct (Nat.eqb_spec c child') as [->|Hcc'].
        + exact Hrc.
        + apply Hbig; [unfold child; lia|assumption].
      - destruct (Nat.eqb_spec k child') as [E|_]; [contradiction|].
        destruct (Nat.eqb_spec c child') as [E|_]; [unfold child in *; lia|].
        destruct (Nat.eqb_spec c r) as [->|Hcr].
        + (* k is the parent of r *) apply (Hgp k child'); auto; unfold child in *; lia.
        + apply (proj1 (child_ok_alt d first hi k)); auto. }
    { (* grandparent condition *)
      cbn [sd setd s3]. intros p c Hp Hpr Hcc Hchi. assert (p = r) by (unfold child in *; lia). subst p.
      rewrite !Hhv. rewrite Nat.eqb_refl.
      destruct (Nat.eqb_spec c r) as [E|_]; [unfold child in *; lia|].
      destruct (Nat.eqb_spec c child') as [E|_]; [lia|].
      apply (proj1 (child_ok_alt d first hi child')); auto.
      apply Hex; unfold child in *; lia. }
    cbn [sd setd s3] in I2, I3, I4. sp5.
    + exact I1.
    + lia.
    + intros x Hx. rewrite I3 by (unfold child in *; lia).
      unfold d'. rewrite getd_swap by lia.
      destruct (Nat.eqb_spec x (first + r)); [lia|]. destruct (Nat.eqb_spec x (first + child')); [unfold child in *; lia|]. reflexivity.
    + intros k Hk1 Hk2. destruct (Nat.lt_ge_cases k child') as [Hlt|Hge].
      * assert (E : hv (sd (sift_down less f s3 child' hi first)) first k = hv d' first k) by (unfold hv; apply I3; lia).
        rewrite E, Hhv. destruct (Nat.eqb_spec k r); [exists child'; unfold child in *; lia|].
        destruct (Nat.eqb_spec k child'); [lia|]. exists k. auto.
      * destruct (I4 k Hge Hk2) as (k' & Hk'1 & Hk'2 & E). rewrite E, Hhv.
        destruct (Nat.eqb_spec k' r); [unfold child in *; lia|].
        destruct (Nat.eqb_spec k' child'); [exists r; lia|]. exists k'. unfold child in *. lia.
    + rewrite I5. cbn [sbad setd s3]. exact Hb2.
  - (* the root is not smaller than its larger child: done *)
    rewrite Hd2. sp5; auto.
    + intros k Hk1 Hk2. destruct (Nat.eq_dec k r) as [->|Hne]; [|now apply Hex].
      apply child_ok_alt. intros c Hcc Hchi.
      apply (le_tr _ (hv d first child')); [apply Hbig; [unfold child; lia|assumption]|exact El].
    + intros k Hk1 Hk2. exists k. auto.
Qed.

Lemma heap_root_max d first n : heap d first 0 n -> forall k, k < n -> le (hv d first k) (hv d first 0).
Proof.
  intros H k. induction k as [k IHk] using lt_wf_ind. intros Hk.
  destruct k as [|k']; [apply le_refl|].
  set (p := k' / 2).
  assert (Hp : S k' = 2 * p + 1 \/ S k' = 2 * p + 2) by (unfold p; lia).
  apply (le_tr _ (hv d first p)); [|apply IHk; unfold p; lia].
  apply (proj1 (child_ok_alt d first n p)); auto. apply H; unfold p; lia.
Qed.

Lemma heap_build_spec : forall k s hi first,
  first + hi <= length (sd s) -> heap (sd s) first k hi ->
  let s' := heap_build less k s hi first in
  heap (sd s') first 0 hi /\ length (sd s') = length (sd s) /\
  (forall x, (x < first \/ first + hi <= x) -> getd (sd s') x = getd (sd s) x) /\
  (forall j, j < hi -> exists j', j' < hi /\ hv (sd s') first j = hv (sd s) first j') /\
  sbad s' = sbad s.
Proof.
  induction k as [|i IH]; intros s hi first Hlen Hheap; cbn [heap_build].
  - sp5; auto. intros j Hj. exists j. auto.
  - destruct (sift_down_spec (S hi) s i hi first i) as (S1 & S2 & S3 & S4 & S5); try lia.
    { intros k Hk1 Hk2 Hne. apply Hheap; lia. }
    { intros p c Hp Hr. lia. }
    destruct (IH (sift_down less (S hi) s i hi first) hi first) as (T1 & T2 & T3 & T4 & T5); try lia; auto.
    sp5.
    + exact T1.
    + lia.
    + intros x Hx. rewrite T3 by lia. apply S3. lia.
    + intros j Hj. destruct (T4 j Hj) as (j1 & Hj1 & E1). rewrite E1.
      destruct (Nat.lt_ge_cases j1 i) as [Hlt|Hge].
      * exists j1. split; [assumption|]. unfold hv. apply S3. lia.
      * destruct (S4 j1 Hge Hj1) as (j2 & _ & Hj2 & E2). exists j2. split; [assumption|exact E2].
    + congruence.
Qed.

(* heap on [0, k), the tail [k, hi0) sorted and not below anything in the heap *)
Definition pop_inv (d : list Z) (first k hi0 : nat) : Prop :=
  heap d first 0 k /\ sorted_range less d (first + k) (first + hi0) /\
  (forall i j, i < k -> k <= j -> j < hi0 -> le (hv d first i) (hv d first j)).

Lemma heap_pop_spec hi0 : forall k s first,
  k <= hi0 -> first + hi0 <= length (sd s) -> pop_inv (sd s) first k hi0 ->
  let s' := heap_pop less k s first in
  sorted_range less (sd s') first (first + hi0) /\ length (sd s') = length (sd s) /\
  (forall x, (x < first \/ first + hi0 <= x) -> getd (sd s') x = getd (sd s) x) /\ sbad s' = sbad s.
Proof.
  induction k as [|i IH]; intros s first Hk Hlen (Hheap & Hsorted & Hsep); cbn [heap_pop].
  - rewrite Nat.add_0_r in Hsorted. sp4; auto.
  - set (d := sd s) in *.
    assert (Esw : swapAt s first (first + i) = setd s (swap 0%Z d (first + 0) (first + i))).
    { unfold d. rewrite <- (swapAt_swap s (first + 0) (first + i)) by (fold d; lia). now rewrite Nat.add_0_r. }
    rewrite Esw.
    set (d1 := swap 0%Z d (first + 0) (first + i)). set (s1 := setd s d1).
    assert (Hlen1 : length d1 = length d) by apply swap_length.
    assert (Hhv : forall k, hv d1 first k = if k =? 0 then hv d first i else if k =? i then hv d first 0 else hv d first k).
    { intros k. unfold d1. apply hv_swap; lia. }
    destruct (sift_down_spec (S i) s1 0 i first 0) as (S1 & S2 & S3 & S4 & S5); try (cbn [sd setd s1]; lia).
    { cbn [sd setd s1]. intros k Hk1 Hk2 Hne. apply child_ok_alt. intros c Hcc Hci. rewrite !Hhv.
      destruct (Nat.eqb_spec c 0); [lia|]. destruct (Nat.eqb_spec c i); [lia|].
      destruct (Nat.eqb_spec k 0); [lia|]. destruct (Nat.eqb_spec k i); [lia|].
      apply (proj1 (child_ok_alt d first (S i) k)); [apply Hheap; lia|assumption|lia]. }
    { intros p c Hp Hr. lia. }
    cbn [sd setd s1] in S2, S3, S4.
    set (s2 := sift_down less (S i) s1 0 i first) in *.
    assert (Hd2_hi : forall j, i <= j -> hv (sd s2) first j = hv d1 first j) by (intros j Hj; unfold hv; apply S3; lia).
    destruct (IH s2 first) as (T1 & T2 & T3 & T4); try lia.
    { split; [exact S1|]. split.
      - (* the tail [i, hi0) is sorted *)
        intros p q Hp Hpq Hq.
        replace p with (first + (p - first)) by lia. replace q with (first + (q - first)) by lia.
        fold (hv (sd s2) first (p - first)) (hv (sd s2) first (q - first)).
        rewrite !Hd2_hi, !Hhv by lia.
        destruct (Nat.eqb_spec (p - first) 0) as [E0|Hp0].
        + (* i = 0 and p = first *) assert (i = 0) by lia. subst i.
          destruct (Nat.eqb_spec (q - first) 0) as [_|Hq0]; [apply le_refl|].
          apply Hsep; lia.
        + destruct (Nat.eqb_spec (q - first) 0) as [E0|_]; [lia|].
          destruct (Nat.eqb_spec (p - first) i) as [Ep|Hpi].
          * destruct (Nat.eqb_spec (q - first) i) as [_|Hqi]; [apply le_refl|]. apply Hsep; lia.
          * destruct (Nat.eqb_spec (q - first) i) as [Eq|Hqi]; [lia|].
            unfold hv. apply Hsorted; lia.
      - (* everything left in the heap is below the tail *)
        intros a j Ha Hij Hj. destruct (S4 a ltac:(lia) Ha) as (a' & _ & Ha' & E). rewrite E.
        rewrite Hd2_hi by lia. rewrite !Hhv.
        assert (Hold : exists a'', a'' <= i /\ (if a' =? 0 then hv d first i else if a' =? i then hv d first 0 else hv d first a') = hv d first a'').
        { destruct (Nat.eqb_spec a' 0); [exists i; auto|]. destruct (Nat.eqb_spec a' i); [lia|]. exists a'. split; [lia|reflexivity]. }
        destruct Hold as (a'' & Ha'' & ->).
        destruct (Nat.eqb_spec j 0) as [->|Hj0].
        + assert (i = 0) by lia. lia.
        + destruct (Nat.eqb_spec j i) as [->|Hji].
          * apply heap_root_max with (n := S i); [exact Hheap|lia].
          * apply Hsep; lia. }
    sp4.
    + exact T1.
    + etransitivity; [exact T2|]. etransitivity; [exact S2|exact Hlen1].
    + intros x Hx. etransitivity; [apply T3; lia|]. etransitivity; [apply S3; lia|].
      unfold d1. rewrite getd_swap by lia.
      destruct (Nat.eqb_spec x (first + 0)); [lia|]. destruct (Nat.eqb_spec x (first + i)); [lia|]. reflexivity.
    + etransitivity; [exact T4|]. etransitivity; [exact S5|reflexivity].
Qed.

Theorem heap_sort_sorted s a b :
  a <= b <= length (sd s) ->
  let s' := heap_sort less s a b in
  sorted_range less (sd s') a b /\ length (sd s') = length (sd s) /\
  (forall x, (x < a \/ b <= x) -> getd (sd s') x = getd (sd s) x) /\ sbad s' = sbad s.
Proof.
  intros Hab. unfold heap_sort. set (hi := b - a).
  destruct (heap_build_spec (S ((hi - 1) / 2)) s hi a) as (B1 & B2 & B3 & B4 & B5); try (unfold hi; lia).
  { intros k Hk1 Hk2. split; intros; lia. }
  set (s1 := heap_build less (S ((hi - 1) / 2)) s hi a) in *.
  destruct (heap_pop_spec hi hi s1 a) as (P1 & P2 & P3 & P4); try (unfold hi in *; lia).
  { split; [exact B1|]. split.
    - intros i j Hi Hij Hj. lia.
    - intros i j Hi Hij Hj. lia. }
  replace (a + hi) with b in * by (unfold hi; lia).
  sp4.
  - exact P1.
  - lia.
  - intros x Hx. rewrite P3 by lia. apply B3. lia.
  - congruence.
Qed.

End Heap.
