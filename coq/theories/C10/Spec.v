(* C10 specification: what "sorted permutation", "stable", "lowest insertion position" etc. mean, and the
   executable checkers that decide them on observed outputs (proved equivalent in ProofsSpec.v). *)
From VF Require Export Common.Base.
From Coq Require Import Sorted Mergesort Orders.
Local Open Scope Z_scope.

(* the sign function every comparator must return *)
Definition sign3 (c : comparison) : Z := match c with Lt => -1 | Eq => 0 | Gt => 1 end.
Fixpoint lex_compare (a b : list Z) : comparison :=
  match a, b with
  | [], [] => Eq
  | [], _ :: _ => Lt
  | _ :: _, [] => Gt
  | x :: a', y :: b' => match x ?= y with Eq => lex_compare a' b' | c => c end
  end.
Definition b2z (b : bool) : Z := if b then 1 else 0.

(* a Go comparator, used only through its sign *)
Record TotalPreorder {T} (cmp : T -> T -> Z) : Prop := {
  tp_refl : forall a, cmp a a = 0;
  tp_antisym : forall a b, Z.sgn (cmp b a) = - Z.sgn (cmp a b);
  tp_trans : forall a b c, cmp a b <= 0 -> cmp b c <= 0 -> cmp a c <= 0
}.

Section Order.
  Variable less : Z -> Z -> bool.
  (* non-decreasing for a strict order [less]: no element is less than an earlier one *)
  Definition le_of (a b : Z) : Prop := less b a = false.
  Definition SortedBy (l : list Z) : Prop := StronglySorted le_of l.

  (* adjacent check (equivalent to StronglySorted when le_of is transitive) *)
  Fixpoint sorted_adj_b (l : list Z) : bool :=
    match l with
    | [] => true
    | x :: t => match t with [] => true | y :: _ => negb (less y x) && sorted_adj_b t end
    end.

  (* strict weak order, phrased on le_of *)
  Record StrictWeak : Prop := {
    sw_total : forall a b, less a b = true -> less b a = false;
    sw_trans : forall a b c, less b a = false -> less c b = false -> less c a = false
  }.

  (* position and membership for BinarySearch *)
  Fixpoint count_while (p : Z -> bool) (l : list Z) : Z :=
    match l with [] => 0 | x :: t => if p x then 1 + count_while p t else 0 end.
End Order.

(* ---------- sorting the observation with the verified library mergesort ---------- *)
Module ZLe <: TotalLeBool.
  Definition t := Z.
  Definition leb := Z.leb.
  Theorem leb_total : forall a1 a2, leb a1 a2 = true \/ leb a2 a1 = true.
  Proof. intros a b. unfold leb. destruct (Z.leb_spec a b); [now left|right]. apply Z.leb_le. lia. Qed.
End ZLe.
Module ZSort := Sort ZLe.

Definition zlist_eqb := list_eqb Z.eqb.

(* ys is a permutation of xs: both sort to the same list *)
Definition perm_sort_b (xs ys : list Z) : bool := zlist_eqb (ZSort.sort xs) (ZSort.sort ys).

(* ys is a sorted (w.r.t. less) permutation of xs *)
Definition sorted_perm_b (less : Z -> Z -> bool) (xs ys : list Z) : bool :=
  sorted_adj_b less ys && perm_sort_b xs ys.

(* stability on tagged elements key * 2^20 + tag, where the tags increase along the input: ys must be xs sorted
   by the whole value (key first, then input position) *)
Definition key (x : Z) : Z := Z.shiftr x 20.
Definition tag (x : Z) : Z := Z.land x (2 ^ 20 - 1).
Definition tags_increasing_b (xs : list Z) : bool := sorted_adj_b (fun a b => tag a <=? tag b) xs.
Definition stable_sorted_b (xs ys : list Z) : bool := zlist_eqb ys (ZSort.sort xs).

(* the definition of stability: ys is sorted by key, and for every key the elements with that key appear in ys in
   the same order as in xs *)
Definition Stable (xs ys : list Z) : Prop :=
  Permutation xs ys /\ forall k, filter (fun x => key x =? k) ys = filter (fun x => key x =? k) xs.
