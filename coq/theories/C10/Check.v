(* C10 correspondence checker. One case = one call of the real code, with its input slice [k_in] and what
   it returned. prop_ok judges the observation by the definitions in Spec.v (kind 2); model_ok compares it with
   the transcribed models (kind 1), including count and rolling hash of the less(x, y) call sequence for the
   sorts that take a less function. *)
From VF Require Import C10.Model C10.SortModel C10.Spec C10.CmpSel.
From Coq Require Import QArith Qabs.
Local Open Scope Z_scope.

Inductive order := OFull | OKey.       (* less on the whole value / on key = value >> 20 *)
Definition less_of (o : order) : Z -> Z -> bool := match o with OFull => lt_full | OKey => lt_key end.
Definition proj_of (o : order) (x : Z) : Z := match o with OFull => x | OKey => key x end.
Definition cmp_of (o : order) (e t : Z) : Z := ordered_cmp (proj_of o e) t.

Inductive itype := TInt | TInt8 | TInt16 | TInt32 | TInt64 | TUint | TUint8 | TUint16 | TUint32 | TUint64.

Inductive call :=
| KSortFunc (o : order)                 (* bslice.SortFunc, recording less: replayed through pdqsort *)
| KSortOrdered                          (* bslice.Sort (zsortordered.go): output compared with the model's *)
| KSortStable (o : order)               (* bslice.SortStableFunc, recording less: replayed through stable *)
| KSortLib (o : order)                  (* bcomparator.Sort, SortComparator, list.Sort, GetSortedValues (stdlib sort.Sort) *)
| KSortBig (o : order)                  (* SortFunc / Sort on long inputs: output checker only *)
| KStableBig                            (* SortStableFunc on long inputs: output checker only *)
| KBinarySearch (target : Z)
| KBinarySearchFunc (o : order) (target : Z)
| KIsSorted | KIsSortedFunc (o : order)
| KCompare (s2 : list Z) | KCompareFunc (o : order) (s2 : list Z)
| KEqual (s2 : list Z) | KEqualFunc (o : order) (s2 : list Z)
| KIndex (v : Z) | KContains (v : Z)
| KCmpInt (t : itype) (rev : bool) (a b : Z)          (* XxxComparator / OrderedComparator, optionally under ReverseComparator *)
| KCmpStr (ordered rev : bool) (a b : list Z)         (* OrderedComparator[string] or StringComparator *)
| KCmpBool (rev : bool) (a b : bool)
| KCmpFloat (f32 : bool) (ma ea mb eb mt et : Z)      (* operands and tolerance as m * 2^e *)
| KCompareFuncSel (c : cmpsel) (s2 : list Z)           (* CompareFunc with a comparison of shape c; calls recorded *)
| KEqualFuncSel (p : predsel) (s2 : list Z)            (* EqualFunc with a (possibly asymmetric) predicate; calls recorded *)
| KBinarySearchFuncSel (c : cmpsel) (target : Z)
| KReverseSel (c : cmpsel) (a b : Z)                   (* ReverseComparator(shape c)(a, b) *)
| KSortCmp (c : cmpsel)                                (* the comparator-taking sorts with a comparator of shape c *)
| KEqualEl (e : elsel) (s2 : list Z) | KCompareEl (e : elsel) (s2 : list Z)   (* Equal / Compare on element class codes *)
| KIndexEl (e : elsel) (v : Z) | KContainsEl (e : elsel) (v : Z) | KIsSortedEl (e : elsel)
| KDiffOrdered (same : bool).                         (* zsortordered.go == zsortfunc.go up to `less` *)

Inductive obs :=
| OList (l : list Z) (cnt hash : Z)     (* resulting slice; less calls: count and rolling hash (0 0 when not recorded) *)
| OInt (v : Z)
| OBool (b : bool)
| OPos (i : Z) (found : bool)
| OIntCalls (v : Z) (calls : list (Z * Z))     (* result and the (first argument, second argument) of every call of the user function *)
| OBoolCalls (b : bool) (calls : list (Z * Z))
| ONone
| OPanic.

Record case := { k_call : call; k_in : list Z; k_obs : obs }.

Definition dy (m e : Z) : Q :=
  if 0 <=? e then inject_Z (m * 2 ^ e) else Qmake m (Z.to_pos (2 ^ (- e))).
Definition qsgn (x : Q) : Z := Z.sgn (Qnum x).

Definition index_ok_b (s : list Z) (v r : Z) : bool :=
  if r =? -1 then negb (existsb (Z.eqb v) s)
  else (0 <=? r) && (r <? Z.of_nat (length s)) && (nth (Z.to_nat r) s 0 =? v)
       && negb (existsb (Z.eqb v) (firstn (Z.to_nat r) s)).

Definition pair_eqb (p q : Z * Z) : bool := (fst p =? fst q) && (snd p =? snd q).
Definition calls_eqb := list_eqb pair_eqb.
(* every recorded call is on some (s1[i], s2[i]), first argument from s1 *)
Definition calls_oriented (xs s2 : list Z) (calls : list (Z * Z)) : bool :=
  forallb (fun p => existsb (pair_eqb p) (combine xs s2)) calls.
Definition less_of_cmp (c : cmpsel) (a b : Z) : bool := zcmp_of c a b <? 0.

Definition in3 (r : Z) : bool := (r =? -1) || (r =? 0) || (r =? 1).
Definition flip (rev : bool) (r : Z) : Z := if rev then - r else r.

(* the property, on the observation alone *)
Definition prop_ok (c : case) : bool :=
  let xs := k_in c in
  match k_call c, k_obs c with
  | (KSortFunc o | KSortLib o | KSortBig o), OList ys _ _ => sorted_perm_b (less_of o) xs ys
  | KSortOrdered, OList ys _ _ => sorted_perm_b lt_full xs ys
  | KSortStable o, OList ys _ _ =>
      sorted_perm_b (less_of o) xs ys &&
      match o with OKey => if tags_increasing_b xs then stable_sorted_b xs ys else true | OFull => true end
  | KStableBig, OList ys _ _ =>
      sorted_perm_b lt_key xs ys && (if tags_increasing_b xs then stable_sorted_b xs ys else true)
  | KBinarySearch t, OPos i f =>
      if sorted_adj_b lt_full xs then (i =? count_while (fun e => e <? t) xs) && Bool.eqb f (existsb (fun e => e =? t) xs) else true
  | KBinarySearchFunc o t, OPos i f =>
      if sorted_adj_b (less_of o) xs
      then (i =? count_while (fun e => cmp_of o e t <? 0) xs) && Bool.eqb f (existsb (fun e => cmp_of o e t =? 0) xs)
      else true
  | KIsSorted, OBool b => Bool.eqb b (sorted_adj_b lt_full xs)
  | KIsSortedFunc o, OBool b => Bool.eqb b (sorted_adj_b (less_of o) xs)
  | KCompare s2, OInt r => r =? sign3 (lex_compare xs s2)
  | KCompareFunc o s2, OInt r => r =? sign3 (lex_compare (map (proj_of o) xs) (map (proj_of o) s2))
  | KEqual s2, OBool b => Bool.eqb b (zlist_eqb xs s2)
  | KEqualFunc o s2, OBool b => Bool.eqb b (zlist_eqb (map (proj_of o) xs) (map (proj_of o) s2))
  | KIndex v, OInt r => index_ok_b xs v r
  | KContains v, OBool b => Bool.eqb b (existsb (Z.eqb v) xs)
  | KCmpInt _ rev a b, OInt r => r =? flip rev (Z.sgn (a - b))
  | KCmpStr _ rev a b, OInt r => r =? flip rev (sign3 (lex_compare a b))
  | KCmpBool rev a b, OInt r => r =? flip rev (Z.sgn (b2z a - b2z b))
  | KCmpFloat _ ma ea mb eb mt et, OInt r =>
      let d := (dy ma ea - dy mb eb)%Q in
      in3 r && (if Qltb (dy mt et) (Qabs d) then r =? qsgn d else true)
  | KCompareFuncSel c s2, OIntCalls r calls => (r =? spec_compare_func (zcmp_of c) xs s2) && calls_oriented xs s2 calls
  | KEqualFuncSel p s2, OBoolCalls b calls => Bool.eqb b (spec_equal_func (pred_of p) xs s2) && calls_oriented xs s2 calls
  | KBinarySearchFuncSel c t, OPos i f =>
      if sorted_adj_b (less_of_cmp c) xs
      then (i =? count_while (fun e => zcmp_of c e t <? 0) xs) && Bool.eqb f (existsb (fun e => zcmp_of c e t =? 0) xs)
      else true
  | KReverseSel c a b, OInt r => r =? - zcmp_of c a b
  | KSortCmp c, OList ys _ _ => sorted_perm_b (less_of_cmp c) xs ys
  | KEqualEl e s2, OBool b => Bool.eqb b (spec_equal_func (eq_of e) xs s2)
  | KCompareEl e s2, OInt r => r =? spec_compare_func (cmp3_by (lt_of e)) xs s2
  | KIndexEl e v, OInt r => r =? spec_index (eq_of e) xs v
  | KContainsEl e v, OBool b => Bool.eqb b (existsb (eq_of e v) xs)
  | KIsSortedEl e, OBool b => Bool.eqb b (sorted_adj_b (lt_of e) xs)
  | KDiffOrdered _, ONone => true
  | _, _ => false
  end.

Definition st_matches (s : st) (ys : list Z) (cnt hash : Z) (recorded : bool) : bool :=
  negb (sbad s) && zlist_eqb (sd s) ys && (if recorded then (sc s =? cnt) && (sh s =? hash) else true).

Definition model_ok (c : case) : bool :=
  let xs := k_in c in
  match k_call c, k_obs c with
  | KSortFunc o, OList ys cnt h => st_matches (sort_func (less_of o) xs) ys cnt h true
  | KSortFunc o, OPanic => sbad (sort_func (less_of o) xs)
  | KSortOrdered, OList ys _ _ => st_matches (sort_func lt_full xs) ys 0 0 false
  | KSortStable o, OList ys cnt h => st_matches (sort_stable_func (less_of o) xs) ys cnt h true
  | KSortStable o, OPanic => sbad (sort_stable_func (less_of o) xs)
  | (KSortLib _ | KSortBig _ | KStableBig), OList _ _ _ => true          (* no model: output checker only *)
  | KBinarySearch t, OPos i f => let '(i', f') := binary_search xs t in (i =? i') && Bool.eqb f f'
  | KBinarySearchFunc o t, OPos i f => let '(i', f') := binary_search_func (cmp_of o) xs t in (i =? i') && Bool.eqb f f'
  | KIsSorted, OBool b => Bool.eqb b (is_sorted_func lt_full xs)
  | KIsSortedFunc o, OBool b => Bool.eqb b (is_sorted_func (less_of o) xs)
  | KCompare s2, OInt r => r =? compare_ord xs s2
  | KCompareFunc o s2, OInt r => r =? compare_func (fun a b => ordered_cmp (proj_of o a) (proj_of o b)) xs s2
  | KEqual s2, OBool b => Bool.eqb b (equal_func Z.eqb xs s2)
  | KEqualFunc o s2, OBool b => Bool.eqb b (equal_func (fun a b => proj_of o a =? proj_of o b) xs s2)
  | KIndex v, OInt r => r =? index xs v
  | KContains v, OBool b => Bool.eqb b (contains xs v)
  | KCmpInt _ rev a b, OInt r => r =? (if rev then reverse_cmp ordered_cmp a b else ordered_cmp a b)
  | KCmpStr ord rev a b, OInt r =>
      let f := if ord then ordered_cmp_str else strings_compare in
      r =? (if rev then reverse_cmp f a b else f a b)
  | KCmpBool rev a b, OInt r => r =? (if rev then reverse_cmp bool_cmp a b else bool_cmp a b)
  | KCmpFloat _ ma ea mb eb mt et, OInt r =>
      (* the rounding is abstract: below tol/2 the result is 0, above tol the sign (ProofsCmp.v); in between either *)
      let d := (dy ma ea - dy mb eb)%Q in
      let t := dy mt et in
      if Qltb (Qabs d) (t / 2)%Q then r =? 0
      else if Qltb t (Qabs d) then r =? qsgn d
      else (r =? 0) || (r =? qsgn d)
  | KCompareFuncSel c s2, OIntCalls r calls =>
      let '(r', calls') := compare_func_tr (zcmp_of c) xs s2 in (r =? r') && calls_eqb calls calls'
  | KEqualFuncSel p s2, OBoolCalls b calls =>
      let '(b', calls') := equal_func_tr (pred_of p) xs s2 in Bool.eqb b b' && calls_eqb calls calls'
  | KBinarySearchFuncSel c t, OPos i f => let '(i', f') := binary_search_func (zcmp_of c) xs t in (i =? i') && Bool.eqb f f'
  | KReverseSel c a b, OInt r => r =? reverse_cmp (zcmp_of c) a b
  | KSortCmp _, OList _ _ _ => true                                      (* stdlib sort.Sort: output checker only *)
  | KEqualEl e s2, OBool b => Bool.eqb b (equal_func (eq_of e) xs s2)
  | KCompareEl e s2, OInt r => r =? compare_func (cmp3_by (lt_of e)) xs s2
  | KIndexEl e v, OInt r => r =? index_by (eq_of e) xs v
  | KContainsEl e v, OBool b => Bool.eqb b (contains_by (eq_of e) xs v)
  | KIsSortedEl e, OBool b => Bool.eqb b (is_sorted_func (lt_of e) xs)
  | KDiffOrdered same, ONone => same
  | _, _ => false
  end.

Definition check_case (c : case) : nat := kind_of (model_ok c) (prop_ok c).
Definition mismatches (cs : list case) : list (nat * nat) := find_bad check_case cs.

(* evidence only: which branches of pdqsort / stable a sorting case drives the model through (bit set, see SortModel.v) *)
Definition paths_of (c : case) : Z :=
  match k_call c with
  | KSortFunc o => spath (sort_func (less_of o) (k_in c))
  | KSortOrdered => spath (sort_func lt_full (k_in c))
  | KSortStable o => spath (sort_stable_func (less_of o) (k_in c))
  | _ => 0
  end.
Definition paths_union (cs : list case) : Z := fold_left (fun acc c => Z.lor acc (paths_of c)) cs 0.
