(* C10 lemmas for the stable sort: what stability means for an arbitrary strict weak order, the block rotation
   [Rot d d' s m e] (data[s:m] and data[m:e] exchanged in place) in pointwise and in list form, the fact that a
   rotation whose right block is strictly below its left block keeps every class of equivalent elements in order,
   and stability of insertionSort (every swap it makes is such a rotation of two adjacent cells). *)
From VF Require Import C10.SortModel C10.ProofsPerm C10.ProofsInsertion C10.ProofsFrame.
Local Open Scope nat_scope.

(* x and y are equivalent (incomparable) for less *)
Definition eqv (less : Z -> Z -> bool) (x y : Z) : bool := negb (less x y) && negb (less y x).
(* every class of equivalent elements appears in d' in the same order as in d *)
Definition StablePerm (less : Z -> Z -> bool) (d d' : list Z) : Prop :=
  forall x, filter (eqv less x) d' = filter (eqv less x) d.

Lemma SP_refl less d : StablePerm less d d.
Proof. intros x. reflexivity. Qed.
Lemma SP_trans less d1 d2 d3 : StablePerm less d1 d2 -> StablePerm less d2 d3 -> StablePerm less d1 d3.
Proof. intros H1 H2 x. now rewrite H2, H1. Qed.

(* ---------- rotations ---------- *)
Definition Rot (d d' : list Z) (s m e : nat) : Prop :=
  length d' = length d /\
  (forall x, x < s \/ e <= x -> getd d' x = getd d x) /\
  (forall x, s <= x -> x < s + (e - m) -> getd d' x = getd d (x + (m - s))) /\
  (forall x, s + (e - m) <= x -> x < e -> getd d' x = getd d (x - (e - m))).

Lemma Rot_len d d' s m e : Rot d d' s m e -> length d' = length d. Proof. now intros (L & _). Qed.
Lemma Rot_out d d' s m e : Rot d d' s m e -> forall x, x < s \/ e <= x -> getd d' x = getd d x.
Proof. now intros (_ & O & _). Qed.
Lemma Rot_lo d d' s m e : Rot d d' s m e -> forall x, s <= x -> x < s + (e - m) -> getd d' x = getd d (x + (m - s)).
Proof. now intros (_ & _ & A & _). Qed.
Lemma Rot_hi d d' s m e : Rot d d' s m e -> forall x, s + (e - m) <= x -> x < e -> getd d' x = getd d (x - (e - m)).
Proof. now intros (_ & _ & _ & B). Qed.

Lemma Rot_triv d s m e : (s = m \/ m = e) -> s <= m -> m <= e -> Rot d d s m e.
Proof.
  intros H Hsm Hme. split; [reflexivity|]. split; [reflexivity|]. split; intros x H1 H2; f_equal; lia.
Qed.

Lemma nth_app4 (l1 l2 l3 l4 : list Z) x :
  nth x (l1 ++ l2 ++ l3 ++ l4) 0%Z =
  if x <? length l1 then nth x l1 0%Z
  else if x <? length l1 + length l2 then nth (x - length l1) l2 0%Z
  else if x <? length l1 + length l2 + length l3 then nth (x - length l1 - length l2) l3 0%Z
  else nth (x - length l1 - length l2 - length l3) l4 0%Z.
Proof.
  destruct (Nat.ltb_spec x (length l1)); [now rewrite app_nth1|]. rewrite app_nth2 by lia.
  destruct (Nat.ltb_spec x (length l1 + length l2)); [now rewrite app_nth1 by lia|]. rewrite app_nth2 by lia.
  destruct (Nat.ltb_spec x (length l1 + length l2 + length l3)); [rewrite app_nth1 by lia; f_equal; lia|].
  rewrite app_nth2 by lia. f_equal; lia.
Qed.

Lemma Rot_lists d d' s m e : s <= m -> m <= e -> e <= length d -> Rot d d' s m e ->
  d = firstn s d ++ seg d s m ++ seg d m e ++ skipn e d /\
  d' = firstn s d ++ seg d m e ++ seg d s m ++ skipn e d.
Proof.
  intros Hsm Hme He R.
  assert (Lf : length (firstn s d) = s) by (rewrite firstn_length; lia).
  assert (Lk : length (skipn e d) = length d - e) by apply skipn_length.
  assert (L1 : length (seg d s m) = m - s) by (apply seg_length; lia).
  assert (L2 : length (seg d m e) = e - m) by (apply seg_length; lia).
  split.
  - apply (nth_ext _ _ 0%Z 0%Z); [rewrite !app_length, Lf, Lk, L1, L2; lia|].
    intros x Hx. rewrite nth_app4, Lf, L1, L2.
    destruct (Nat.ltb_spec x s); [now rewrite nth_firstn'|].
    destruct (Nat.ltb_spec x (s + (m - s))); [rewrite seg_nth by lia; unfold getd; f_equal; lia|].
    destruct (Nat.ltb_spec x (s + (m - s) + (e - m))); [rewrite seg_nth by lia; unfold getd; f_equal; lia|].
    rewrite nth_skipn'. f_equal; lia.
  - apply (nth_ext _ _ 0%Z 0%Z); [rewrite (Rot_len _ _ _ _ _ R), !app_length, Lf, Lk, L1, L2; lia|].
    intros x Hx. rewrite nth_app4, Lf, L1, L2. change (nth x d' 0%Z) with (getd d' x).
    destruct (Nat.ltb_spec x s); [rewrite nth_firstn' by lia; apply (Rot_out _ _ _ _ _ R); lia|].
    destruct (Nat.ltb_spec x (s + (e - m))).
    { rewrite seg_nth by lia. rewrite (Rot_lo _ _ _ _ _ R) by lia. f_equal; lia. }
    destruct (Nat.ltb_spec x (s + (e - m) + (m - s))).
    { rewrite seg_nth by lia. rewrite (Rot_hi _ _ _ _ _ R) by lia. f_equal; lia. }
    rewrite nth_skipn'. rewrite (Rot_out _ _ _ _ _ R) by lia. unfold getd. f_equal; lia.
Qed.

Lemma filter_nil {A} (f : A -> bool) l : (forall y, In y l -> f y = false) -> filter f l = [].
Proof.
  induction l as [|a l IH]; intros H; [reflexivity|]. cbn [filter].
  rewrite (H a (or_introl eq_refl)). apply IH. intros y Hy. apply H. now right.
Qed.

Section Stab.
Variable less : Z -> Z -> bool.
Hypothesis less_asym : forall a b, less a b = true -> less b a = false.
Hypothesis le_trans : forall a b c, less b a = false -> less c b = false -> less c a = false.
Notation SP := (StablePerm less).

(* mixed transitivity *)
Lemma lt_le_trans a b c : less a b = true -> less c b = false -> less a c = true.
Proof.
  intros H1 H2. destruct (less a c) eqn:E; [reflexivity|]. exfalso.
  (* le c a, le b c -> le b a *)
  pose proof (le_trans b c a H2 E) as C. congruence.
Qed.
Lemma le_lt_trans a b c : less b a = false -> less b c = true -> less a c = true.
Proof.
  intros H1 H2. destruct (less a c) eqn:E; [reflexivity|]. exfalso.
  pose proof (le_trans c a b E H1) as C. congruence.
Qed.

Lemma SP_swap_blocks l1 X Y l2 :
  (forall x y, In x X -> In y Y -> less y x = true) -> SP (l1 ++ X ++ Y ++ l2) (l1 ++ Y ++ X ++ l2).
Proof.
  intros H c. rewrite !filter_app. f_equal. rewrite !app_assoc. f_equal.
  destruct (filter (eqv less c) X) as [|z t] eqn:EX; [now rewrite app_nil_r|].
  assert (Hz : In z (filter (eqv less c) X)) by (rewrite EX; now left).
  apply filter_In in Hz as (HzX & Hcz).
  rewrite (filter_nil (eqv less c) Y); [now rewrite app_nil_r|].
  intros y Hy. destruct (eqv less c y) eqn:Ecy; [exfalso|reflexivity].
  unfold eqv in *. apply andb_prop in Hcz as (C1 & C2). apply andb_prop in Ecy as (C3 & C4).
  apply Bool.negb_true_iff in C1, C2, C3, C4.
  pose proof (H z y HzX Hy) as Hlt. pose proof (le_trans z c y C1 C4) as C. congruence.
Qed.

Lemma Rot_SP d d' s m e : s <= m -> m <= e -> e <= length d -> Rot d d' s m e ->
  (forall x y, s <= x -> x < m -> m <= y -> y < e -> less (getd d y) (getd d x) = true) -> SP d d'.
Proof.
  intros Hsm Hme He R H. destruct (Rot_lists d d' s m e Hsm Hme He R) as (E1 & E2).
  rewrite E1 at 1. rewrite E2. apply SP_swap_blocks.
  intros x y Hx Hy. apply (In_nth _ _ 0%Z) in Hx as (i & Hi & <-). apply (In_nth _ _ 0%Z) in Hy as (j & Hj & <-).
  rewrite seg_length in Hi, Hj by lia. rewrite !seg_nth by lia. apply H; lia.
Qed.

(* a swap of two adjacent cells is a rotation *)
Lemma Rot_swap_adj d j : S j < length d -> Rot d (swap 0%Z d (S j) j) j (S j) (S (S j)).
Proof.
  intros Hj. split; [apply swap_length|]. split; [|split]; intros x H1; [|intros H2..]; rewrite getd_swap by lia.
  - destruct (Nat.eqb_spec x (S j)); [lia|]. destruct (Nat.eqb_spec x j); [lia|]. reflexivity.
  - assert (x = j) by lia. subst x. destruct (Nat.eqb_spec j (S j)); [lia|]. rewrite Nat.eqb_refl. f_equal; lia.
  - assert (x = S j) by lia. subst x. rewrite Nat.eqb_refl. f_equal; lia.
Qed.
Lemma SP_swap_adj d j : S j < length d -> less (getd d (S j)) (getd d j) = true -> SP d (swap 0%Z d (S j) j).
Proof.
  intros Hj Hlt. apply (Rot_SP d _ j (S j) (S (S j))); try lia; [now apply Rot_swap_adj|].
  intros x y Hx1 Hx2 Hy1 Hy2. assert (x = j) by lia. assert (y = S j) by lia. subst. exact Hlt.
Qed.

(* ---------- insertionSort is stable (no order hypothesis needed beyond the laws used by SP_swap_blocks) ---------- *)
Lemma SP_ins_inner a : forall j s, j < length (sd s) -> SP (sd s) (sd (ins_inner less a j s)).
Proof.
  induction j as [|j IH]; intros s Hj; cbn [ins_inner]; [apply SP_refl|].
  destruct (a <? S j); [|apply SP_refl]. rewrite lessAt_in by lia.
  destruct (less (getd (sd s) (S j)) (getd (sd s) j)) eqn:El; [|apply SP_refl].
  set (s1 := logc s _ _). rewrite (swapAt_swap s1 (S j) j) by (cbn [sd s1 logc]; lia).
  eapply SP_trans; [|apply IH; cbn [sd setd s1 logc]; rewrite swap_length; lia].
  cbn [sd setd s1 logc]. now apply SP_swap_adj.
Qed.
Lemma SP_ins_outer a : forall k i s, i + k <= length (sd s) -> SP (sd s) (sd (ins_outer less a i k s)).
Proof.
  induction k as [|k IH]; intros i s Hk; cbn [ins_outer]; [apply SP_refl|].
  eapply SP_trans; [apply (SP_ins_inner a i s); lia|]. apply IH.
  rewrite <- (Permutation_length (Pm_ins_inner less a i s)). lia.
Qed.
Lemma SP_insertion_sort s a b : b <= length (sd s) -> SP (sd s) (sd (insertion_sort less s a b)).
Proof.
  intros Hb. unfold insertion_sort. destruct (Nat.lt_ge_cases a b).
  - apply SP_ins_outer. lia.
  - replace (b - S a) with 0 by lia. apply SP_refl.
Qed.

End Stab.
