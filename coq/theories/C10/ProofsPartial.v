(* C10 lemmas: partialInsertionSort(data, a, b) of SortModel.v. It returns true only when data[a:b] is sorted, and
   in every case data[a:b] is permuted in place (nothing outside touched, no index panic) PROVIDED the pdqsort
   invariant Pre holds: the shift-left loop runs `for j := i-1; j >= 1; j--` (not j > a), so it stays inside
   [a, b) only because data[a-1] <= everything in data[a:b]. *)
From VF Require Import C10.SortModel C10.ProofsPerm C10.ProofsInsertion C10.ProofsFrame.
Local Open Scope nat_scope.

Section Partial.
Variable less : Z -> Z -> bool.
Hypothesis less_asym : forall a b, less a b = true -> less b a = false.
Hypothesis le_trans : forall a b c, less b a = false -> less c b = false -> less c a = false.
Notation le := (le less).
Notation sorted_range := (sorted_range less).
Notation almost := (almost less).
Let le_refl := le_refl less less_asym.
Let le_tr : forall a b c, le a b -> le b c -> le a c := le_trans.

(* adjacent order extends a sorted prefix *)
Lemma sorted_extend d a : forall n i, a < i -> sorted_range d a i ->
  (forall x, i <= x -> x < i + n -> le (getd d (x - 1)) (getd d x)) -> sorted_range d a (i + n).
Proof.
  induction n as [|n IH]; intros i Hai Hs Hadj; [now rewrite Nat.add_0_r|].
  replace (i + S n) with (S i + n) by lia. apply IH; [lia| |intros x Hx1 Hx2; apply Hadj; lia].
  intros p q Hp Hpq Hq.
  destruct (Nat.eq_dec q i) as [->|Hqi]; [|apply Hs; lia].
  destruct (Nat.eq_dec p i) as [->|Hpi]; [apply le_refl|].
  apply (le_tr _ (getd d (i - 1))); [apply Hs; lia|apply Hadj; lia].
Qed.

Lemma pis_scan_spec : forall k s i b, b - i < k -> 1 <= i -> b <= length (sd s) ->
  let r := pis_scan less k s i b in let d := sd s in
  sd (snd r) = d /\ sbad (snd r) = sbad s /\ i <= fst r /\ (i <= b -> fst r <= b) /\
  (forall x, i <= x -> x < fst r -> le (getd d (x - 1)) (getd d x)) /\
  (fst r < b -> less (getd d (fst r)) (getd d (fst r - 1)) = true).
Proof.
  induction k as [|k IH]; intros s i b Hk Hi Hb; [lia|]. cbn [pis_scan].
  destruct (Nat.ltb_spec i b) as [Hib|Hib].
  - rewrite nlessAt_in by lia. replace (Nat.pred i) with (i - 1) by lia.
    set (s1 := logc s (getd (sd s) i) (getd (sd s) (i - 1))).
    destruct (less (getd (sd s) i) (getd (sd s) (i - 1))) eqn:El; cbn [negb].
    + cbn [fst snd]. repeat split; auto; try lia.
    + destruct (IH s1 (S i) b) as (R1 & R2 & R3 & R4 & R5 & R6); try (cbn [sd s1 logc]; lia).
      cbn [sd s1 logc sbad] in *. repeat split; auto; try lia.
      intros x Hx1 Hx2. destruct (Nat.eq_dec x i) as [->|]; [exact El|apply R5; lia].
  - cbn [fst snd]. repeat split; auto; try lia.
Qed.

Lemma almost_base d a i : almost d a a i -> sorted_range d a (S i).
Proof.
  intros [H1 H2] p q Hp Hpq Hq.
  destruct (Nat.eq_dec p a) as [->|Hpa]; [|apply H1; lia].
  destruct (Nat.eq_dec q a) as [->|Hqa]; [apply le_refl|apply H2; lia].
Qed.

(* shift the smaller one to the left: insertion of data[j] into the sorted data[a:j], stopping at a because of Pre *)
Lemma pis_left_spec a : forall j s i,
  a <= j -> j <= i -> i < length (sd s) -> almost (sd s) a j i ->
  (0 < a -> le (getd (sd s) (a - 1)) (getd (sd s) j)) ->
  let s' := pis_left less j s in
  sorted_range (sd s') a (S i) /\ Fr a (S i) s s'.
Proof.
  induction j as [|j IH]; intros s i Ha Hji Hi Hal Hpre.
  - cbn [pis_left]. assert (a = 0) by lia. subst a. split; [now apply almost_base|apply Fr_refl].
  - cbn [pis_left]. destruct (Nat.eq_dec a (S j)) as [Eaj|Naj].
    + (* at the left end of the range: data[a] is not less than data[a-1] *)
      subst a. rewrite nlessAt_in by lia.
      assert (E : less (getd (sd s) (S j)) (getd (sd s) j) = false).
      { replace j with (S j - 1) at 2 by lia. apply Hpre. lia. }
      rewrite E. cbn [negb]. split; [now apply almost_base|now apply Fr_same].
    + rewrite nlessAt_in by lia. set (d := sd s) in *.
      destruct Hal as [H1 H2].
      destruct (less (getd d (S j)) (getd d j)) eqn:El; cbn [negb].
      * set (s1 := logc s (getd d (S j)) (getd d j)).
        assert (Hd1 : sd s1 = d) by reflexivity.
        assert (F1 : Fr a (S i) s (swapAt s1 (S j) j)).
        { apply (Fr_trans _ _ _ s1); [now apply Fr_same|]. apply Fr_swapAt; rewrite ?Hd1; lia. }
        assert (Hd2 : sd (swapAt s1 (S j) j) = swap 0%Z d (S j) j) by (rewrite swapAt_swap by (rewrite Hd1; lia); reflexivity).
        set (s2 := swapAt s1 (S j) j) in *.
        assert (Hlt : le (getd d (S j)) (getd d j)) by (unfold ProofsInsertion.le; now apply less_asym).
        destruct (IH s2 i) as (S1 & S2); try lia.
        { rewrite (Fr_len _ _ _ _ F1). fold d. lia. }
        { split.
          - intros p q Hp Hpq Hq Hpj Hqj. rewrite Hd2, !getd_swap by lia.
            destruct (Nat.eqb_spec p (S j)) as [->|E1].
            + destruct (Nat.eqb_spec q (S j)) as [->|E2]; [apply le_refl|].
              destruct (Nat.eqb_spec q j); [lia|]. apply H1; lia.
            + destruct (Nat.eqb_spec p j); [lia|].
              destruct (Nat.eqb_spec q (S j)) as [->|E2]; [apply H1; lia|].
              destruct (Nat.eqb_spec q j); [lia|]. apply H1; lia.
          - intros q Hq Hqi. rewrite Hd2, !getd_swap by lia. rewrite Nat.eqb_refl.
            destruct (Nat.eqb_spec j (S j)); [lia|].
            destruct (Nat.eqb_spec q (S j)) as [->|E2]; [exact Hlt|].
            destruct (Nat.eqb_spec q j); [lia|]. apply H2; lia. }
        { intros Ha0. rewrite Hd2, !getd_swap by lia. rewrite Nat.eqb_refl.
          destruct (Nat.eqb_spec (a - 1) (S j)); [lia|]. destruct (Nat.eqb_spec (a - 1) j); [lia|].
          destruct (Nat.eqb_spec j (S j)); [lia|]. now apply Hpre. }
        split; [exact S1|]. apply (Fr_trans _ _ _ s2); assumption.
      * split; [|now apply Fr_same]. cbn [sd logc]. fold d.
        intros p q Hp Hpq Hq.
        destruct (Nat.eq_dec p (S j)) as [->|Hpj].
        { destruct (Nat.eq_dec q (S j)) as [->|]; [apply le_refl|apply H2; lia]. }
        destruct (Nat.eq_dec q (S j)) as [->|Hqj]; [|apply H1; lia].
        destruct (Nat.eq_dec p j) as [->|]; [exact El|].
        apply (le_tr _ (getd d j)); [apply H1; lia|exact El].
Qed.

(* shift the greater one to the right: only in-range adjacent swaps *)
Lemma pis_right_Fr lo b : forall k j s, lo < j -> j + k <= b -> b <= length (sd s) ->
  Fr lo b s (pis_right less k j s).
Proof.
  induction k as [|k IH]; intros j s Hj Hk Hb; cbn [pis_right]; [apply Fr_refl|].
  rewrite nlessAt_in by lia. set (s1 := logc s _ _).
  destruct (less (getd (sd s) j) (getd (sd s) (Nat.pred j))); cbn [negb]; [|now apply Fr_same].
  assert (F1 : Fr lo b s (swapAt s1 j (Nat.pred j))).
  { apply (Fr_trans _ _ _ s1); [now apply Fr_same|]. apply Fr_swapAt; cbn [sd s1 logc]; lia. }
  apply (Fr_trans _ _ _ _ _ F1). apply IH; [lia|lia|]. rewrite (Fr_len _ _ _ _ F1). lia.
Qed.

Lemma pis_loop_spec : forall steps s a b i,
  a < i -> i <= b -> b <= length (sd s) -> sorted_range (sd s) a i -> Pre less (sd s) a b ->
  let r := pis_loop less steps s a b i in
  Fr a b s (snd r) /\ (fst r = true -> sorted_range (sd (snd r)) a b).
Proof.
  induction steps as [|steps IH]; intros s a b i Hai Hib Hb Hs Hpre; cbn [pis_loop].
  { cbn [fst snd]. split; [apply Fr_refl|discriminate]. }
  pose proof (pis_scan_spec (S (b - i)) s i b ltac:(lia) ltac:(lia) Hb) as Hsc. cbv zeta in Hsc.
  destruct (pis_scan less (S (b - i)) s i b) as [i1 s1]. cbn [fst snd] in Hsc.
  destruct Hsc as (E1 & B1 & Hi1 & Hi1b & Hadj & Hstop). specialize (Hi1b Hib).
  assert (Hs1 : sorted_range (sd s) a i1).
  { replace i1 with (i + (i1 - i)) by lia. apply sorted_extend; auto. intros x Hx1 Hx2. apply Hadj; lia. }
  assert (F01 : Fr a b s s1) by now apply Fr_same.
  destruct (Nat.eqb_spec i1 b) as [->|Hne].
  { cbn [fst snd]. split; [exact F01|]. intros _. now rewrite E1. }
  destruct (b - a <? 50); [cbn [fst snd]; split; [exact F01|discriminate]|].
  assert (Hlt : i1 < b) by lia. specialize (Hstop Hlt).
  replace (Nat.pred i1) with (i1 - 1) by lia.
  set (s2 := mark P_partial_shift (swapAt s1 i1 (i1 - 1))).
  assert (F12 : Fr a b s1 s2).
  { unfold s2. apply (Fr_trans _ _ _ (swapAt s1 i1 (i1 - 1))); [apply Fr_swapAt; rewrite ?E1; lia|apply Fr_mark]. }
  set (d := sd s) in *.
  assert (Hd2 : sd s2 = swap 0%Z d i1 (i1 - 1)).
  { unfold s2. rewrite sd_mark, swapAt_swap by (rewrite E1; fold d; lia). cbn [sd setd]. now rewrite E1. }
  assert (L2 : length (sd s2) = length d) by (rewrite Hd2; apply swap_length).
  set (s3 := if 2 <=? i1 - a then pis_left less (i1 - 1) s2 else s2).
  assert (H3 : sorted_range (sd s3) a (S i1) /\ Fr a (S i1) s2 s3).
  { assert (Hal : almost (sd s2) a (i1 - 1) i1).
    { split.
      - intros p q Hp Hpq Hq Hpj Hqj. rewrite Hd2, !getd_swap by lia.
        destruct (Nat.eqb_spec p i1) as [->|E3].
        + destruct (Nat.eqb_spec q i1) as [->|]; [apply le_refl|lia].
        + destruct (Nat.eqb_spec p (i1 - 1)); [lia|].
          destruct (Nat.eqb_spec q i1) as [->|E4]; [apply Hs1; lia|].
          destruct (Nat.eqb_spec q (i1 - 1)); [lia|]. apply Hs1; lia.
      - intros q Hq1 Hq2. assert (q = i1) by lia. subst q. rewrite Hd2, !getd_swap by lia.
        rewrite Nat.eqb_refl. destruct (Nat.eqb_spec (i1 - 1) i1); [lia|]. rewrite Nat.eqb_refl.
        unfold ProofsInsertion.le. now apply less_asym. }
    unfold s3. destruct (Nat.leb_spec 2 (i1 - a)) as [H2|H2].
    - apply pis_left_spec; try lia; [exact Hal|].
      intros Ha0. rewrite Hd2, !getd_swap by lia.
      destruct (Nat.eqb_spec (a - 1) i1); [lia|]. destruct (Nat.eqb_spec (a - 1) (i1 - 1)); [lia|].
      rewrite Nat.eqb_refl. destruct (Nat.eqb_spec (i1 - 1) i1); [lia|]. apply Hpre; lia.
    - assert (i1 - 1 = a) by lia. split; [|apply Fr_refl]. apply almost_base. now rewrite <- H at 2. }
  destruct H3 as (S3 & F23).
  assert (L3 : length (sd s3) = length d) by (rewrite (Fr_len _ _ _ _ F23); exact L2).
  set (s4 := if 2 <=? b - i1 then pis_right less (b - (i1 + 1)) (i1 + 1) s3 else s3).
  assert (F34 : Fr i1 b s3 s4).
  { unfold s4. destruct (2 <=? b - i1); [|apply Fr_refl]. apply pis_right_Fr; lia. }
  assert (F04 : Fr a b s s4).
  { apply (Fr_trans _ _ _ s1 _ F01). apply (Fr_trans _ _ _ s2 _ F12).
    apply (Fr_trans _ _ _ s3); [apply (Fr_mono a (S i1)); [lia|lia|exact F23]|apply (Fr_mono i1 b); [lia|lia|exact F34]]. }
  destruct (IH s4 a b i1) as (R1 & R2); try lia.
  - rewrite (Fr_len _ _ _ _ F04). fold d. lia.
  - apply (Fr_sorted_out less i1 b s3 s4 a i1 F34); [lia|]. intros p q Hp Hpq Hq. apply S3; lia.
  - apply (Pre_Fr less a b s s4 F04); auto; lia.
  - split; [|exact R2]. apply (Fr_trans _ _ _ s4); assumption.
Qed.

Theorem partial_insertion_sort_spec s a b :
  a < b -> b <= length (sd s) -> Pre less (sd s) a b ->
  let r := partial_insertion_sort less s a b in
  Fr a b s (snd r) /\ (fst r = true -> sorted_range (sd (snd r)) a b).
Proof.
  intros Hab Hb Hpre. unfold partial_insertion_sort. apply pis_loop_spec; try lia; auto.
  intros p q Hp Hpq Hq. assert (p = q) by lia. subst. apply le_refl.
Qed.

End Partial.
