(* C10 main theorem: pdqsort of SortModel.v sorts data[a:b] for every strict weak order, every input and every
   value of limit / wasBalanced / wasPartitioned: no index panic, fuel (S n) suffices, nothing outside [a, b) is
   touched. Loop invariant: Pre (data[a-1] <= everything in data[a:b], which is what makes the partitionEqual
   shortcut and partialInsertionSort's unguarded shift-left sound); induction on the fuel with b - a < fuel. *)
From VF Require Import C10.SortModel C10.ProofsPerm C10.ProofsInsertion C10.ProofsHeap C10.ProofsPartition
  C10.ProofsFrame C10.ProofsPartial C10.ProofsPivot.
From Coq Require Import Sorted.
Local Open Scope nat_scope.

Section Main.
Variable less : Z -> Z -> bool.
Hypothesis less_asym : forall a b, less a b = true -> less b a = false.
Hypothesis le_trans : forall a b c, less b a = false -> less c b = false -> less c a = false.
Notation le := (le less).
Notation sorted_range := (sorted_range less).
Notation Pre := (Pre less).
Let le_refl := le_refl less less_asym.

Lemma less_irrefl x : less x x = false.
Proof. apply le_refl. Qed.

(* the state after partition: data[a:mid] < p = data[mid] <= data[mid+1:b] *)
Definition PartOK (d : list Z) (a mid b : nat) (p : Z) : Prop :=
  (forall x, a <= x -> x < mid -> less (getd d x) p = true) /\ getd d mid = p /\
  (forall x, mid < x -> x < b -> less (getd d x) p = false).

Lemma PartOK_left a mid b p s s' : Fr a mid s s' -> a <= mid -> mid <= length (sd s) ->
  PartOK (sd s) a mid b p -> PartOK (sd s') a mid b p.
Proof.
  intros F Ham Hm (H1 & H2 & H3). split; [|split].
  - apply (Fr_all a mid s s' (fun v => less v p = true) F Ham Hm H1).
  - rewrite (Fr_out _ _ _ _ F) by lia. exact H2.
  - intros x Hx1 Hx2. rewrite (Fr_out _ _ _ _ F) by lia. now apply H3.
Qed.
Lemma PartOK_right a mid b p s s' : Fr (mid + 1) b s s' -> mid + 1 <= b -> b <= length (sd s) ->
  PartOK (sd s) a mid b p -> PartOK (sd s') a mid b p.
Proof.
  intros F Hmb Hb (H1 & H2 & H3). split; [|split].
  - intros x Hx1 Hx2. rewrite (Fr_out _ _ _ _ F) by lia. now apply H1.
  - rewrite (Fr_out _ _ _ _ F) by lia. exact H2.
  - intros x Hx1 Hx2.
    apply (Fr_all (mid + 1) b s s' (fun v => less v p = false) F Hmb Hb); try lia. intros y Hy1 Hy2. apply H3; lia.
Qed.

Lemma glue d a mid b p : PartOK d a mid b p -> sorted_range d a mid -> sorted_range d (mid + 1) b ->
  sorted_range d a b.
Proof.
  intros (H1 & H2 & H3) SL SR i j Hi Hij Hj.
  assert (LP : forall x, a <= x -> x < mid -> le (getd d x) p).
  { intros x Hx1 Hx2. unfold ProofsInsertion.le. apply less_asym. now apply H1. }
  destruct (Nat.lt_trichotomy i mid) as [Him|[->|Him]]; destruct (Nat.lt_trichotomy j mid) as [Hjm|[->|Hjm]];
    try lia.
  - apply SL; lia.
  - rewrite H2. now apply LP.
  - apply (le_trans _ p); [apply LP; lia|apply H3; lia].
  - apply le_refl.
  - rewrite H2. apply H3; lia.
  - apply SR; lia.
Qed.

Lemma Pre_below a b' s s' lo hi : Fr lo hi s s' -> b' <= lo -> Pre (sd s) a b' -> Pre (sd s') a b'.
Proof.
  intros F Hlo H Ha x Hx1 Hx2. rewrite !(Fr_out _ _ _ _ F) by lia. now apply H.
Qed.
Lemma Pre_right d a mid b p : PartOK d a mid b p -> Pre d (mid + 1) b.
Proof.
  intros (_ & H2 & H3) _ x Hx1 Hx2. replace (mid + 1 - 1) with mid by lia. rewrite H2. apply H3; lia.
Qed.

Theorem pdqsort_spec : forall fuel s a b limit wb wp,
  b - a < fuel -> a <= b -> b <= length (sd s) -> Pre (sd s) a b ->
  let s' := pdqsort less fuel s a b limit wb wp in
  sorted_range (sd s') a b /\ Fr a b s s'.
Proof.
  induction fuel as [|fu IH]; intros s a b limit wb wp Hfu Hab Hb Hpre; [lia|]. cbn [pdqsort].
  destruct (Nat.leb_spec (b - a) 12) as [H12|H12].
  { pose proof (insertion_sort_sorted less less_asym le_trans (mark P_insertion s) a b Hb) as (S1 & S2 & S3 & S4).
    split; [exact S1|]. apply Fr_make; auto. apply (Pm_trans _ (mark P_insertion s)); [apply Pm_mark|apply Pm_insertion_sort]. }
  destruct (Nat.eqb_spec limit 0) as [Hl0|Hl0].
  { pose proof (heap_sort_sorted less less_asym le_trans (mark P_heapsort s) a b (conj Hab Hb)) as (S1 & S2 & S3 & S4).
    split; [exact S1|]. apply Fr_make; auto. apply (Pm_trans _ (mark P_heapsort s)); [apply Pm_mark|apply Pm_heap_sort]. }
  (* breakPatterns *)
  set (r1 := if negb wb then (break_patterns (mark P_breakpatterns s) a b, Nat.pred limit) else (s, limit)).
  assert (F1 : Fr a b s (fst r1)).
  { unfold r1. destruct (negb wb); cbn [fst]; [|apply Fr_refl].
    apply (Fr_trans _ _ _ (mark P_breakpatterns s)); [apply Fr_mark|now apply break_patterns_Fr]. }
  destruct r1 as [s1 limit1]. cbn [fst] in F1. cbv beta iota.
  assert (L1 : b <= length (sd s1)) by (rewrite (Fr_len _ _ _ _ F1); exact Hb).
  (* choosePivot *)
  pose proof (choose_pivot_spec less s1 a b ltac:(lia) L1) as CP. cbv zeta in CP.
  destruct (choose_pivot less s1 a b) as [[pivot hnt] s2]. cbn [fst snd] in CP. destruct CP as (E2 & B2 & Hp1 & Hp2).
  assert (F2 : Fr a b s s2) by (apply (Fr_trans _ _ _ s1 _ F1); now apply Fr_same).
  assert (L2 : b <= length (sd s2)) by (rewrite (Fr_len _ _ _ _ F2); exact Hb).
  (* reverseRange *)
  set (r3 := if is_decreasing hnt then (reverse_range (mark P_reverse s2) a b, (b - 1 - (pivot - a)), IncreasingHint)
             else (s2, pivot, hnt)).
  assert (F3 : Fr a b s (fst (fst r3)) /\ a <= snd (fst r3) /\ snd (fst r3) < b).
  { unfold r3. destruct (is_decreasing hnt); cbn [fst snd]; [|auto]. split; [|lia].
    apply (Fr_trans _ _ _ s2 _ F2). apply (Fr_trans _ _ _ (mark P_reverse s2)); [apply Fr_mark|].
    apply reverse_range_Fr; [lia|exact L2]. }
  destruct r3 as [[s3 pivot1] hnt1]. cbn [fst snd] in F3. destruct F3 as (F3 & Hq1 & Hq2). cbv beta iota.
  assert (L3 : b <= length (sd s3)) by (rewrite (Fr_len _ _ _ _ F3); exact Hb).
  assert (Pre3 : Pre (sd s3) a b) by (apply (Pre_Fr less a b s s3 F3); auto).
  (* partialInsertionSort *)
  set (r4 := if wb && wp && is_increasing hnt1
             then let '(r, s') := partial_insertion_sort less s3 a b in (r, mark (if r then P_partial_true else P_partial_false) s')
             else (false, s3)).
  assert (H4 : Fr a b s3 (snd r4) /\ (fst r4 = true -> sorted_range (sd (snd r4)) a b)).
  { unfold r4. destruct (wb && wp && is_increasing hnt1); [|cbn [fst snd]; split; [apply Fr_refl|discriminate]].
    pose proof (partial_insertion_sort_spec less less_asym le_trans s3 a b ltac:(lia) L3 Pre3) as PS. cbv zeta in PS.
    destruct (partial_insertion_sort less s3 a b) as [r s']. cbn [fst snd] in *. destruct PS as (PF & PSo).
    split; [apply (Fr_trans _ _ _ s' _ PF); apply Fr_mark|exact PSo]. }
  destruct r4 as [done s4]. cbn [fst snd] in H4. destruct H4 as (F34 & Hdone). cbv beta iota.
  assert (F4 : Fr a b s s4) by (apply (Fr_trans _ _ _ s3); assumption).
  destruct done; [split; [now apply Hdone|exact F4]|]. clear Hdone.
  assert (L4 : b <= length (sd s4)) by (rewrite (Fr_len _ _ _ _ F4); exact Hb).
  (* a > 0 && !less(data[a-1], data[pivot]) *)
  set (r5 := if 0 <? a then nlessAt less s4 (a - 1) pivot1 else (false, s4)).
  assert (H5 : sd (snd r5) = sd s4 /\ sbad (snd r5) = sbad s4 /\
               (fst r5 = true -> 0 < a /\ less (getd (sd s4) (a - 1)) (getd (sd s4) pivot1) = false)).
  { unfold r5. destruct (Nat.ltb_spec 0 a) as [Ha0|Ha0]; [|cbn [fst snd]; repeat split; discriminate].
    rewrite nlessAt_in by lia. cbn [fst snd sd sbad logc]. split; [reflexivity|]. split; [reflexivity|].
    intros Hn. split; [exact Ha0|]. destruct (less (getd (sd s4) (a - 1)) (getd (sd s4) pivot1)); [discriminate|reflexivity]. }
  destruct r5 as [peq s5]. cbn [fst snd] in H5. destruct H5 as (E5 & B5 & Hpeq). cbv beta iota.
  assert (F5 : Fr a b s s5) by (apply (Fr_trans _ _ _ s4 _ F4); now apply Fr_same).
  assert (L5 : b <= length (sd s5)) by (rewrite (Fr_len _ _ _ _ F5); exact Hb).
  assert (Pre5 : Pre (sd s5) a b) by (apply (Pre_Fr less a b s s5 F5); auto).
  destruct peq.
  - (* partitionEqual, then continue with [mid, b) *)
    destruct (Hpeq eq_refl) as (Ha0 & Hle). clear Hpeq. rewrite <- E5 in Hle.
    pose proof (partition_equal_post less (mark P_partition_equal s5) a b pivot1 Hq1 Hq2 L5 (less_irrefl _)) as PE.
    cbv zeta in PE. cbn [sd mark sbad] in PE.
    pose proof (Pm_partition_equal less (mark P_partition_equal s5) a b pivot1) as PmE.
    destruct (partition_equal less (mark P_partition_equal s5) a b pivot1) as [mid s6]. cbn [fst snd] in PE, PmE.
    destruct PE as (M1 & M2 & M3 & M4 & M5 & M6 & M7 & M8).
    set (p := getd (sd s5) pivot1) in *.
    assert (F56 : Fr a b s5 s6).
    { apply Fr_make; auto. }
    assert (F6 : Fr a b s s6) by (apply (Fr_trans _ _ _ s5); assumption).
    assert (L6 : b <= length (sd s6)) by (rewrite (Fr_len _ _ _ _ F6); exact Hb).
    assert (Pre6 : Pre (sd s6) a b) by (apply (Pre_Fr less a b s s6 F6); auto).
    assert (Hpp : le p (getd (sd s6) (a - 1))).
    { rewrite (Fr_out _ _ _ _ F56) by lia. exact Hle. }
    destruct (IH s6 mid b limit1 wb wp) as (S7 & F7); try lia.
    { intros _ x Hx1 Hx2. unfold ProofsInsertion.le.
      apply (le_trans _ p); [apply M4; lia|]. apply less_asym. apply M5; lia. }
    set (s7 := pdqsort less fu s6 mid b limit1 wb wp) in *.
    split.
    + intros i j Hi Hij Hj.
      destruct (Nat.lt_ge_cases i mid) as [Him|Him]; [|apply S7; lia].
      rewrite (Fr_out _ _ _ _ F7 i) by lia.
      assert (Hip : le (getd (sd s6) i) p) by (apply M4; lia).
      destruct (Nat.lt_ge_cases j mid) as [Hjm|Hjm].
      * rewrite (Fr_out _ _ _ _ F7 j) by lia.
        apply (le_trans _ p); [exact Hip|]. apply (le_trans _ (getd (sd s6) (a - 1))); [exact Hpp|].
        apply Pre6; lia.
      * apply (le_trans _ p); [exact Hip|]. unfold ProofsInsertion.le. apply less_asym.
        apply (Fr_all mid b s6 s7 (fun v => less p v = true) F7); try lia. intros y Hy1 Hy2. apply M5; lia.
    + apply (Fr_trans _ _ _ s6 _ F6). apply (Fr_mono mid b); [lia|lia|exact F7].
  - (* partition, recurse into the smaller side, continue with the larger *)
    clear Hpeq.
    pose proof (partition_post less s5 a b pivot1 Hq1 Hq2 L5) as PP. cbv zeta in PP.
    pose proof (Pm_partition less s5 a b pivot1) as PmP.
    destruct (partition less s5 a b pivot1) as [[mid already] s6]. cbn [fst snd] in PP, PmP.
    destruct PP as (M1 & M2 & M3 & M4 & M5 & M6 & M7 & M8).
    set (p := getd (sd s5) pivot1) in *.
    assert (F56 : Fr a b s5 s6) by (apply Fr_make; auto).
    assert (F6 : Fr a b s s6) by (apply (Fr_trans _ _ _ s5); assumption).
    assert (L6 : b <= length (sd s6)) by (rewrite (Fr_len _ _ _ _ F6); exact Hb).
    assert (Pre6 : Pre (sd s6) a b) by (apply (Pre_Fr less a b s s6 F6); auto).
    assert (PO6 : PartOK (sd s6) a mid b p) by (split; [exact M4|split; [exact M3|exact M5]]).
    (* the marks do not change the data *)
    assert (Hmk : forall t : st, sd t = sd s6 -> sbad t = sbad s6 ->
                  Fr a b s t /\ b <= length (sd t) /\ Pre (sd t) a b /\ PartOK (sd t) a mid b p).
    { intros t Et Bt. split; [apply (Fr_trans _ _ _ s6 _ F6); now apply Fr_same|].
      rewrite Et. split; [exact L6|]. split; [exact Pre6|exact PO6]. }
    set (s6' := if already then mark P_already_partitioned s6 else s6).
    assert (E6' : sd s6' = sd s6 /\ sbad s6' = sbad s6) by (unfold s6'; destruct already; split; reflexivity).
    destruct E6' as (E6' & B6').
    destruct (mid - a <? b - mid).
    + set (t := if (b - a) / 8 <=? mid - a then s6' else mark P_unbalanced s6').
      assert (Et : sd t = sd s6 /\ sbad t = sbad s6) by (unfold t; destruct ((b - a) / 8 <=? mid - a); split; assumption).
      destruct Et as (Et & Bt). destruct (Hmk t Et Bt) as (Ft & Lt & Pret & POt).
      destruct (IH t a mid limit1 true true) as (S7 & F7); try lia. { apply (Pre_sub less _ a b); [lia|exact Pret]. }
      set (s7 := pdqsort less fu t a mid limit1 true true) in *.
      assert (PO7 : PartOK (sd s7) a mid b p) by (apply (PartOK_left a mid b p t s7 F7); auto; lia).
      assert (L7 : b <= length (sd s7)) by (rewrite (Fr_len _ _ _ _ F7); exact Lt).
      destruct (IH s7 (mid + 1) b limit1 ((b - a) / 8 <=? mid - a) already) as (S8 & F8); try lia.
      { now apply (Pre_right _ a mid b p). }
      set (s8 := pdqsort less fu s7 (mid + 1) b limit1 ((b - a) / 8 <=? mid - a) already) in *.
      split.
      * apply (glue _ a mid b p); [apply (PartOK_right a mid b p s7 s8 F8); auto; lia| |exact S8].
        apply (Fr_sorted_out less (mid + 1) b s7 s8 a mid F8); [lia|exact S7].
      * apply (Fr_trans _ _ _ t _ Ft). apply (Fr_trans _ _ _ s7).
        -- apply (Fr_mono a mid); [lia|lia|exact F7].
        -- apply (Fr_mono (mid + 1) b); [lia|lia|exact F8].
    + set (t := if (b - a) / 8 <=? b - mid then s6' else mark P_unbalanced s6').
      assert (Et : sd t = sd s6 /\ sbad t = sbad s6) by (unfold t; destruct ((b - a) / 8 <=? b - mid); split; assumption).
      destruct Et as (Et & Bt). destruct (Hmk t Et Bt) as (Ft & Lt & Pret & POt).
      destruct (IH t (mid + 1) b limit1 true true) as (S7 & F7); try lia. { now apply (Pre_right _ a mid b p). }
      set (s7 := pdqsort less fu t (mid + 1) b limit1 true true) in *.
      assert (PO7 : PartOK (sd s7) a mid b p) by (apply (PartOK_right a mid b p t s7 F7); auto; lia).
      assert (L7 : b <= length (sd s7)) by (rewrite (Fr_len _ _ _ _ F7); exact Lt).
      destruct (IH s7 a mid limit1 ((b - a) / 8 <=? b - mid) already) as (S8 & F8); try lia.
      { apply (Pre_below a mid t s7 (mid + 1) b F7); [lia|]. apply (Pre_sub less _ a b); [lia|exact Pret]. }
      set (s8 := pdqsort less fu s7 a mid limit1 ((b - a) / 8 <=? b - mid) already) in *.
      split.
      * apply (glue _ a mid b p); [apply (PartOK_left a mid b p s7 s8 F8); auto; lia|exact S8|].
        apply (Fr_sorted_out less a mid s7 s8 (mid + 1) b F8); [lia|exact S7].
      * apply (Fr_trans _ _ _ t _ Ft). apply (Fr_trans _ _ _ s7).
        -- apply (Fr_mono (mid + 1) b); [lia|lia|exact F7].
        -- apply (Fr_mono a mid); [lia|lia|exact F8].
Qed.

(* SortFunc / Sort on every input: no panic, fuel suffices, sorted, permutation *)
Theorem sort_func_sorted l :
  let s := sort_func less l in
  sbad s = false /\ StronglySorted le (sd s) /\ Permutation l (sd s) /\
  (forall i j, i < j -> j < length l -> less (getd (sd s) j) (getd (sd s) i) = false).
Proof.
  cbv zeta. unfold sort_func.
  destruct (pdqsort_spec (S (length l)) (init l) 0 (length l) (Z.to_nat (bits_len (Z.of_nat (length l)))) true true)
    as (S1 & F1); try (cbn [sd init]; lia).
  { intros H. lia. }
  set (s := pdqsort less _ _ _ _ _ _ _) in *.
  pose proof (Fr_len _ _ _ _ F1) as L. cbn [sd init] in L.
  split; [rewrite (Fr_bad _ _ _ _ F1); reflexivity|]. split; [|split].
  - apply (sorted_range_all less). rewrite L. exact S1.
  - apply (Fr_pm _ _ _ _ F1).
  - intros i j Hij Hj. apply S1; lia.
Qed.

End Main.
