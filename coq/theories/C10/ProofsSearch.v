(* C10 lemmas: BinarySearch(Func) loop invariant, IsSorted(Func), Compare(Func), Equal(Func), Index, Contains. *)
From VF Require Import C10.Model C10.Spec C10.ProofsCmp.
From Coq Require Import Sorted ZifyBool.
Local Open Scope Z_scope.

Lemma pow64_pos : 0 < 2 ^ 64. Proof. reflexivity. Qed.
Lemma pow64_double : 2 ^ 64 = 2 * 2 ^ 63. Proof. reflexivity. Qed.

(* h := int(uint(i+j) >> 1) does not overflow below 2^63 *)
Lemma midpoint_ok i j : 0 <= i -> i <= j -> j < 2 ^ 63 -> midpoint i j = (i + j) / 2.
Proof.
  intros Hi Hij Hj. unfold midpoint. rewrite Z.mod_small; [reflexivity|]. rewrite pow64_double. lia.
Qed.

Lemma at_cons x t k : 0 <= k -> at_ (x :: t) (k + 1) = at_ t k.
Proof. intros Hk. unfold at_. replace (Z.to_nat (k + 1)) with (S (Z.to_nat k)) by lia. reflexivity. Qed.

Section BS.
  Variable xs : list Z.
  Variable p : Z -> bool.
  Let n := Z.of_nat (length xs).
  (* the slice is "sorted for p": p holds on a prefix *)
  Definition prefix_closed := forall a b, 0 <= a -> a <= b -> b < n -> p (at_ xs b) = true -> p (at_ xs a) = true.

  Lemma bsearch_loop_spec fuel : forall i j,
    n < 2 ^ 63 -> prefix_closed -> 0 <= i <= j -> j <= n -> j - i < Z.of_nat fuel ->
    (forall k, 0 <= k < i -> p (at_ xs k) = true) ->
    (forall k, j <= k < n -> p (at_ xs k) = false) ->
    let r := bsearch_loop p xs fuel i j in
    i <= r <= j /\ (forall k, 0 <= k < r -> p (at_ xs k) = true) /\ (forall k, r <= k < n -> p (at_ xs k) = false).
  Proof.
    induction fuel as [|f IH]; intros i j Hn Hs Hij Hj Hf Hlo Hhi; [lia|].
    cbn [bsearch_loop]. destruct (i <? j) eqn:E.
    - rewrite midpoint_ok by lia. set (h := (i + j) / 2).
      assert (Hh : i <= h < j) by (unfold h; split; [apply Z.div_le_lower_bound|apply Z.div_lt_upper_bound]; lia).
      destruct (p (at_ xs h)) eqn:E2.
      + destruct (IH (h + 1) j) as (R1 & R2 & R3); auto; try lia.
        * intros k Hk. destruct (Z_lt_le_dec k i); [apply Hlo; lia|]. apply (Hs k h); auto; lia.
        * repeat split; auto; lia.
      + destruct (IH i h) as (R1 & R2 & R3); auto; try lia.
        * intros k Hk. destruct (Z_lt_le_dec k j); [|apply Hhi; lia].
          destruct (p (at_ xs k)) eqn:E3; [|reflexivity].
          assert (p (at_ xs h) = true) by (apply (Hs h k); auto; lia). congruence.
        * repeat split; auto; lia.
    - assert (i = j) by lia. subst. repeat split; auto; lia.
  Qed.

End BS.

(* a position r that separates p-true from p-false is the length of the p-prefix *)
Lemma count_while_char p : forall xs r, 0 <= r <= Z.of_nat (length xs) ->
  (forall k, 0 <= k < r -> p (at_ xs k) = true) ->
  (forall k, r <= k < Z.of_nat (length xs) -> p (at_ xs k) = false) ->
  count_while p xs = r.
Proof.
  induction xs as [|x t IH]; intros r Hr Hlo Hhi; cbn [count_while length] in *.
  - lia.
  - destruct (Z.eq_dec r 0) as [->|Hr0].
    + specialize (Hhi 0). unfold at_ in Hhi. cbn in Hhi. rewrite Hhi by lia. reflexivity.
    + pose proof (Hlo 0) as H0. unfold at_ in H0. cbn in H0. rewrite H0 by lia.
      rewrite (IH (r - 1)); try lia.
      * intros k Hk. rewrite <- (at_cons x t k) by lia. apply Hlo. lia.
      * intros k Hk. rewrite <- (at_cons x t k) by lia. apply Hhi. lia.
Qed.

Lemma existsb_at (f : Z -> bool) xs : existsb f xs = true <-> exists k, 0 <= k < Z.of_nat (length xs) /\ f (at_ xs k) = true.
Proof.
  rewrite existsb_exists. split.
  - intros (x & Hin & Hf). apply (In_nth _ _ 0) in Hin as (i & Hi & E).
    exists (Z.of_nat i). split; [lia|]. unfold at_. now rewrite Nat2Z.id, E.
  - intros (k & Hk & Hf). exists (at_ xs k). split; [|assumption]. unfold at_. apply nth_In. lia.
Qed.

(* the shape shared by BinarySearch and BinarySearchFunc: p = "element is below the target", q = "element matches" *)
Lemma bsearch_generic (p q : Z -> bool) xs :
  Z.of_nat (length xs) < 2 ^ 63 ->
  prefix_closed xs p ->
  (forall a b, 0 <= a -> a <= b -> b < Z.of_nat (length xs) ->
     q (at_ xs b) = true -> p (at_ xs a) = false -> q (at_ xs a) = true) ->
  (forall k, q (at_ xs k) = true -> p (at_ xs k) = false) ->
  let n := Z.of_nat (length xs) in
  let i := bsearch_loop p xs (S (length xs)) 0 n in
  (i, (i <? n) && q (at_ xs i)) = (count_while p xs, existsb q xs).
Proof.
  intros Hn Hs Hq Hqp n i.
  destruct (bsearch_loop_spec xs p (S (length xs)) 0 n) as (R1 & R2 & R3);
    auto; try (fold n; lia); try (intros; lia).
  fold i in R1, R2, R3.
  rewrite (count_while_char p xs i) by (auto; fold n; lia). f_equal.
  apply eq_true_iff_eq. rewrite existsb_at, andb_true_iff. fold n. split.
  - intros [H1 H2]. exists i. split; [lia|assumption].
  - intros (k & Hk & Hz). assert (i <= k).
    { destruct (Z_lt_le_dec k i) as [L|L]; [|assumption]. specialize (R2 k ltac:(lia)). rewrite (Hqp k Hz) in R2. discriminate. }
    split; [lia|]. apply (Hq i k); auto; try lia. apply R3. lia.
Qed.

(* BinarySearchFunc: lowest insertion position and found flag, for any cmp(element, target) whose sign is
   non-decreasing along the slice *)
Lemma binary_search_func_ok cmp xs t :
  Z.of_nat (length xs) < 2 ^ 63 ->
  prefix_closed xs (fun e => cmp e t <? 0) -> prefix_closed xs (fun e => cmp e t <=? 0) ->
  binary_search_func cmp xs t =
    (count_while (fun e => cmp e t <? 0) xs, existsb (fun e => cmp e t =? 0) xs).
Proof.
  intros Hn Hs1 Hs2. unfold binary_search_func.
  apply (bsearch_generic (fun e => cmp e t <? 0) (fun e => cmp e t =? 0) xs Hn Hs1).
  - intros a b Ha Hab Hb Hz Hp. cbv beta in *.
    assert (cmp (at_ xs a) t <=? 0 = true) by (apply (Hs2 a b); auto; cbv beta; lia). lia.
  - intros k Hz. cbv beta in *. lia.
Qed.

(* BinarySearch on a non-decreasing slice of integers *)
Definition nondecreasing (xs : list Z) := forall a b, 0 <= a -> a <= b -> b < Z.of_nat (length xs) -> at_ xs a <= at_ xs b.

Lemma binary_search_ok xs t :
  Z.of_nat (length xs) < 2 ^ 63 -> nondecreasing xs ->
  binary_search xs t = (count_while (fun e => e <? t) xs, existsb (fun e => e =? t) xs).
Proof.
  intros Hn Hs. unfold binary_search.
  apply (bsearch_generic (fun e => e <? t) (fun e => e =? t) xs Hn).
  - intros a b Ha Hab Hb Hp. cbv beta in *. specialize (Hs a b Ha Hab Hb). lia.
  - intros a b Ha Hab Hb Hz Hp. cbv beta in *. specialize (Hs a b Ha Hab Hb). lia.
  - intros k Hz. cbv beta in *. lia.
Qed.

(* ---------- IsSorted / IsSortedFunc ---------- *)
Lemma is_sorted_loop_spec less xs : forall i,
  is_sorted_loop less xs i = true <-> (forall k, (k < i)%nat -> less (nth (S k) xs 0) (nth k xs 0) = false).
Proof.
  induction i as [|i IH]; cbn [is_sorted_loop].
  - split; [intros _ k Hk; lia|reflexivity].
  - destruct (less (nth (S i) xs 0) (nth i xs 0)) eqn:E.
    + split; [discriminate|]. intros H. rewrite (H i) in E by lia. discriminate.
    + rewrite IH. split.
      * intros H k Hk. destruct (Nat.eq_dec k i) as [->|]; [assumption|apply H; lia].
      * intros H k Hk. apply H. lia.
Qed.

Lemma sorted_adj_b_spec less : forall xs,
  sorted_adj_b less xs = true <-> (forall k, (S k < length xs)%nat -> less (nth (S k) xs 0) (nth k xs 0) = false).
Proof.
  induction xs as [|x t IH]; cbn [sorted_adj_b].
  - split; [intros _ k Hk; cbn in Hk; lia|reflexivity].
  - destruct t as [|y t'].
    + split; [intros _ k Hk; cbn in Hk; lia|reflexivity].
    + rewrite andb_true_iff, negb_true_iff, IH. split.
      * intros [H1 H2] k Hk. destruct k as [|k]; [exact H1|]. apply (H2 k). cbn [length] in *. lia.
      * intros H. split; [apply (H 0%nat); cbn; lia|]. intros k Hk. apply (H (S k)). cbn [length] in *. lia.
Qed.

Lemma is_sorted_func_ok less xs : is_sorted_func less xs = sorted_adj_b less xs.
Proof.
  apply eq_true_iff_eq. unfold is_sorted_func. rewrite is_sorted_loop_spec, sorted_adj_b_spec.
  split; intros H k Hk; apply H; lia.
Qed.

(* ---------- Equal / Compare / Index / Contains ---------- *)
Lemma equal_func_ok s1 : forall s2, equal_func Z.eqb s1 s2 = true <-> s1 = s2.
Proof.
  unfold equal_func. induction s1 as [|a t IH]; intros [|b u]; cbn [length Nat.eqb negb equal_loop];
    try (split; congruence).
  specialize (IH u). destruct (Nat.eqb (length t) (length u)) eqn:El; cbn [negb] in *.
  - destruct (Z.eqb_spec a b) as [->|Hne]; cbn [negb].
    + rewrite IH. split; congruence.
    + split; [discriminate|]. intros E. inversion E. contradiction.
  - split; [discriminate|]. intros E. inversion E; subst. rewrite Nat.eqb_refl in El. discriminate.
Qed.

Lemma equal_func_proj (f : Z -> Z) s1 : forall s2,
  equal_func (fun a b => f a =? f b) s1 s2 = true <-> map f s1 = map f s2.
Proof.
  unfold equal_func. induction s1 as [|a t IH]; intros [|b u]; cbn [length Nat.eqb negb equal_loop map];
    try (split; congruence).
  specialize (IH u). destruct (Nat.eqb (length t) (length u)) eqn:El; cbn [negb] in *.
  - destruct (Z.eqb_spec (f a) (f b)) as [E|Hne]; cbn [negb].
    + rewrite IH, E. split; congruence.
    + split; [discriminate|]. intros E. inversion E. contradiction.
  - split; [discriminate|]. intros E. inversion E as [[E1 E2]].
    apply (f_equal (@length Z)) in E2. rewrite !map_length in E2. rewrite E2, Nat.eqb_refl in El. discriminate.
Qed.

Lemma compare_ord_ok s1 : forall s2, compare_ord s1 s2 = sign3 (lex_compare s1 s2).
Proof.
  unfold compare_ord. induction s1 as [|a t IH]; intros [|b u]; cbn [compare_func lex_compare sign3]; try reflexivity.
  unfold cmp3. destruct (Z.compare_spec a b) as [->|H|H].
  - rewrite Z.ltb_irrefl, Z.gtb_ltb, Z.ltb_irrefl. cbn. apply IH.
  - replace (a <? b) with true by lia. reflexivity.
  - replace (a <? b) with false by lia. replace (a >? b) with true by lia. reflexivity.
Qed.

Lemma compare_func_proj (f : Z -> Z) s1 : forall s2,
  compare_func (fun a b => ordered_cmp (f a) (f b)) s1 s2 = sign3 (lex_compare (map f s1) (map f s2)).
Proof.
  induction s1 as [|a t IH]; intros [|b u]; cbn [compare_func lex_compare sign3 map]; try reflexivity.
  rewrite ordered_cmp_sgn. destruct (Z.compare_spec (f a) (f b)) as [E|H|H].
  - rewrite E, Z.sub_diag. cbn. apply IH.
  - rewrite Z.sgn_neg by lia. reflexivity.
  - rewrite Z.sgn_pos by lia. reflexivity.
Qed.

Lemma index_from_spec v : forall s i, 0 <= i ->
  let r := index_from s v i in
  (r = -1 /\ ~ In v s) \/ (i <= r < i + Z.of_nat (length s) /\ nth (Z.to_nat (r - i)) s 0 = v /\ ~ In v (firstn (Z.to_nat (r - i)) s)).
Proof.
  induction s as [|x t IH]; intros i Hi; cbn [index_from].
  - left. split; [reflexivity|intros []].
  - destruct (Z.eqb_spec v x) as [->|Hne].
    + right. rewrite Z.sub_diag. cbn. split; [lia|]. split; [reflexivity|intros []].
    + destruct (IH (i + 1) ltac:(lia)) as [[E Hnot]|(Hr & Hn & Hf)].
      * left. split; [exact E|]. intros [E'|E']; [congruence|contradiction].
      * right. cbn [length]. split; [lia|].
        replace (Z.to_nat (index_from t v (i + 1) - i)) with (S (Z.to_nat (index_from t v (i + 1) - (i + 1)))) by lia.
        cbn [nth firstn]. split; [exact Hn|]. intros [E'|E']; [congruence|contradiction].
Qed.

Lemma index_ok s v :
  let r := index s v in
  (r = -1 /\ ~ In v s) \/ (0 <= r < Z.of_nat (length s) /\ nth (Z.to_nat r) s 0 = v /\ ~ In v (firstn (Z.to_nat r) s)).
Proof.
  cbv zeta. unfold index. pose proof (index_from_spec v s 0 ltac:(lia)) as H. cbv zeta in H.
  rewrite Z.sub_0_r, Z.add_0_l in H. exact H.
Qed.

Lemma contains_ok s v : contains s v = true <-> In v s.
Proof.
  unfold contains. destruct (index_ok s v) as [[E Hn]|(Hr & Hnth & _)].
  - fold (index s v) in E. rewrite E. split; [discriminate|contradiction].
  - split; [intros _|intros _; lia]. rewrite <- Hnth. apply nth_In. lia.
Qed.
