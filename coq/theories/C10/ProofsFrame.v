(* C10 lemmas: the frame relation [Fr a b s s'] ("s' is s with data[a:b] permuted in place: same length, nothing
   outside [a, b) touched, no new panic") used to compose the range procedures of SortModel.v, and the strict weak
   order laws in the textbook form (irreflexive, transitive, incomparability transitive). *)
From VF Require Import C10.SortModel C10.ProofsPerm C10.ProofsInsertion.
Local Open Scope nat_scope.

(* ---------- strict weak orders ---------- *)
Record StrictWeakOrder (less : Z -> Z -> bool) : Prop := {
  swo_irrefl : forall x, less x x = false;
  swo_trans : forall x y z, less x y = true -> less y z = true -> less x z = true;
  swo_incomp : forall x y z, less x y = false -> less y x = false -> less y z = false -> less z y = false ->
                             less x z = false /\ less z x = false
}.

Lemma swo_asym less : StrictWeakOrder less -> forall a b, less a b = true -> less b a = false.
Proof.
  intros [Hi Ht _] a b H. destruct (less b a) eqn:E; [|reflexivity].
  pose proof (Ht _ _ _ H E) as C. rewrite Hi in C. discriminate.
Qed.
Lemma swo_negtrans less : StrictWeakOrder less ->
  forall a b c, less b a = false -> less c b = false -> less c a = false.
Proof.
  intros [Hi Ht Hc] a b c H1 H2. destruct (less c a) eqn:E; [|reflexivity]. exfalso.
  destruct (less a b) eqn:E1.
  - pose proof (Ht _ _ _ E E1) as C. congruence.
  - destruct (less b c) eqn:E2.
    + pose proof (Ht _ _ _ E2 E) as C. congruence.
    + destruct (Hc a b c E1 H1 E2 H2) as [_ C]. congruence.
Qed.

(* ---------- list segments ---------- *)
Lemma nth_skipn' {A} (d : list A) a k x : nth k (skipn a d) x = nth (a + k) d x.
Proof.
  revert d; induction a as [|a IH]; intros [|y d]; cbn [skipn Nat.add nth]; auto.
  destruct k; reflexivity.
Qed.
Lemma nth_firstn' {A} (d : list A) n k x : k < n -> nth k (firstn n d) x = nth k d x.
Proof.
  revert d k; induction n as [|n IH]; intros d k H; [lia|].
  destruct d as [|y d]; [reflexivity|]. destruct k; cbn [firstn nth]; [reflexivity|apply IH; lia].
Qed.
Lemma firstn_ext' {A} (x0 : A) n : forall d d', length d = length d' ->
  (forall k, k < n -> nth k d x0 = nth k d' x0) -> firstn n d = firstn n d'.
Proof.
  induction n as [|n IH]; intros d d' L H; [reflexivity|].
  destruct d as [|y d], d' as [|y' d']; try discriminate; [reflexivity|]. cbn [firstn]. f_equal.
  - apply (H 0); lia.
  - apply IH; [cbn [length] in L; lia|]. intros k Hk. apply (H (S k)); lia.
Qed.
Lemma skipn_ext' {A} (x0 : A) n : forall d d', length d = length d' ->
  (forall k, n <= k -> nth k d x0 = nth k d' x0) -> skipn n d = skipn n d'.
Proof.
  induction n as [|n IH]; intros d d' L H.
  - cbn [skipn]. apply (nth_ext _ _ x0 x0); auto. intros; apply H; lia.
  - destruct d as [|y d], d' as [|y' d']; try discriminate; [reflexivity|]. cbn [skipn].
    apply IH; [cbn [length] in L; lia|]. intros k Hk. apply (H (S k)); lia.
Qed.

Definition seg (d : list Z) (a b : nat) : list Z := firstn (b - a) (skipn a d).
Lemma seg_length d a b : b <= length d -> length (seg d a b) = b - a.
Proof. intros H. unfold seg. rewrite firstn_length, skipn_length. lia. Qed.
Lemma seg_nth d a b k : k < b - a -> nth k (seg d a b) 0%Z = getd d (a + k).
Proof. intros H. unfold seg, getd. rewrite nth_firstn' by lia. apply nth_skipn'. Qed.

Lemma perm_mid d d' a b : a <= b -> length d' = length d ->
  (forall x, x < a \/ b <= x -> getd d' x = getd d x) -> Permutation d d' ->
  Permutation (seg d a b) (seg d' a b).
Proof.
  intros Hab L Ho P. unfold seg.
  assert (Ef : firstn a d' = firstn a d).
  { apply (firstn_ext' 0%Z); [exact L|]. intros k Hk. apply Ho. lia. }
  assert (Et : skipn (b - a) (skipn a d') = skipn (b - a) (skipn a d)).
  { apply (skipn_ext' 0%Z); [rewrite !skipn_length; lia|]. intros k Hk. rewrite !nth_skipn'. apply Ho. lia. }
  cut (Permutation (firstn a d ++ firstn (b - a) (skipn a d) ++ skipn (b - a) (skipn a d))
                   (firstn a d' ++ firstn (b - a) (skipn a d') ++ skipn (b - a) (skipn a d'))).
  - rewrite Ef, Et. intros H. apply Permutation_app_inv_l in H. apply Permutation_app_inv_r in H. exact H.
  - rewrite !firstn_skipn. exact P.
Qed.

Lemma perm_range_in d d' a b : a <= b -> b <= length d -> length d' = length d ->
  (forall x, x < a \/ b <= x -> getd d' x = getd d x) -> Permutation d d' ->
  forall k, a <= k -> k < b -> exists k', a <= k' /\ k' < b /\ getd d' k = getd d k'.
Proof.
  intros Hab Hb L Ho P k Hk1 Hk2. pose proof (perm_mid d d' a b Hab L Ho P) as Pm.
  assert (Hin : In (getd d' k) (seg d' a b)).
  { replace (getd d' k) with (nth (k - a) (seg d' a b) 0%Z).
    - apply nth_In. rewrite seg_length by lia. lia.
    - rewrite seg_nth by lia. f_equal. lia. }
  apply (Permutation_in _ (Permutation_sym Pm)) in Hin. apply (In_nth _ _ 0%Z) in Hin as (j & Hj & Ej).
  rewrite seg_length in Hj by lia. exists (a + j). split; [lia|]. split; [lia|].
  rewrite <- Ej. now rewrite seg_nth by lia.
Qed.

(* ---------- the frame relation ---------- *)
Definition Fr (a b : nat) (s s' : st) : Prop :=
  length (sd s') = length (sd s) /\
  (forall x, x < a \/ b <= x -> getd (sd s') x = getd (sd s) x) /\
  sbad s' = sbad s /\ Permutation (sd s) (sd s').

Lemma Fr_refl a b s : Fr a b s s.
Proof. repeat split; auto. Qed.
Lemma Fr_trans a b s1 s2 s3 : Fr a b s1 s2 -> Fr a b s2 s3 -> Fr a b s1 s3.
Proof.
  intros (L1 & O1 & B1 & P1) (L2 & O2 & B2 & P2). repeat split; try congruence.
  - intros x Hx. rewrite O2, O1 by assumption. reflexivity.
  - eapply perm_trans; eassumption.
Qed.
Lemma Fr_mono a b a' b' s s' : a' <= a -> b <= b' -> Fr a b s s' -> Fr a' b' s s'.
Proof. intros Ha Hb (L & O & B & P). repeat split; auto. intros x Hx. apply O. lia. Qed.
Lemma Fr_same a b s s' : sd s' = sd s -> sbad s' = sbad s -> Fr a b s s'.
Proof. intros E B. repeat split; auto; rewrite E; auto. Qed.
Lemma Fr_mark a b k s : Fr a b s (mark k s).
Proof. now apply Fr_same. Qed.
Lemma Fr_make a b s s' : length (sd s') = length (sd s) ->
  (forall x, x < a \/ b <= x -> getd (sd s') x = getd (sd s) x) -> sbad s' = sbad s -> Pm s s' -> Fr a b s s'.
Proof. intros. repeat split; auto. Qed.

Lemma Fr_swapAt a b s i j : a <= i -> i < b -> a <= j -> j < b -> b <= length (sd s) -> Fr a b s (swapAt s i j).
Proof.
  intros Hi1 Hi2 Hj1 Hj2 Hb. apply Fr_make; [| | |apply Pm_swapAt]; rewrite swapAt_swap by lia; cbn [sd setd sbad].
  - apply swap_length.
  - intros x Hx. rewrite getd_swap by lia.
    destruct (Nat.eqb_spec x i); [lia|]. destruct (Nat.eqb_spec x j); [lia|]. reflexivity.
  - reflexivity.
Qed.

Lemma Fr_range_in a b s s' : Fr a b s s' -> a <= b -> b <= length (sd s) ->
  forall k, a <= k -> k < b -> exists k', a <= k' /\ k' < b /\ getd (sd s') k = getd (sd s) k'.
Proof. intros (L & O & B & P) Hab Hb. now apply perm_range_in. Qed.

(* a property of all elements of a sub-range [lo, hi) of the frame survives *)
Lemma Fr_all a b s s' (P : Z -> Prop) : Fr a b s s' -> a <= b -> b <= length (sd s) ->
  (forall x, a <= x -> x < b -> P (getd (sd s) x)) -> forall x, a <= x -> x < b -> P (getd (sd s') x).
Proof.
  intros F Hab Hb H x Hx1 Hx2. destruct (Fr_range_in a b s s' F Hab Hb x Hx1 Hx2) as (k & Hk1 & Hk2 & ->). now apply H.
Qed.
Lemma Fr_len a b s s' : Fr a b s s' -> length (sd s') = length (sd s).
Proof. now intros (L & _). Qed.
Lemma Fr_out a b s s' : Fr a b s s' -> forall x, x < a \/ b <= x -> getd (sd s') x = getd (sd s) x.
Proof. now intros (_ & O & _). Qed.
Lemma Fr_bad a b s s' : Fr a b s s' -> sbad s' = sbad s.
Proof. now intros (_ & _ & B & _). Qed.
Lemma Fr_pm a b s s' : Fr a b s s' -> Pm s s'.
Proof. now intros (_ & _ & _ & P). Qed.

(* sortedness of a range disjoint from the frame survives *)
Lemma Fr_sorted_out less a b s s' lo hi : Fr a b s s' -> (hi <= a \/ b <= lo) ->
  sorted_range less (sd s) lo hi -> sorted_range less (sd s') lo hi.
Proof.
  intros F Hd H i j Hi Hij Hj. rewrite !(Fr_out _ _ _ _ F) by lia. now apply H.
Qed.

(* the pdqsort loop invariant on the left neighbour: data[a-1] is a former pivot, <= everything in [a, b) *)
Definition Pre (less : Z -> Z -> bool) (d : list Z) (a b : nat) : Prop :=
  0 < a -> forall x, a <= x -> x < b -> le less (getd d (a - 1)) (getd d x).
Lemma Pre_Fr less a b s s' : Fr a b s s' -> a <= b -> b <= length (sd s) ->
  Pre less (sd s) a b -> Pre less (sd s') a b.
Proof.
  intros F Hab Hb H Ha x Hx1 Hx2. rewrite (Fr_out _ _ _ _ F) by lia.
  apply (Fr_all a b s s' (fun v => le less (getd (sd s) (a - 1)) v) F Hab Hb); auto.
Qed.
Lemma Pre_sub less d a b b' : b' <= b -> Pre less d a b -> Pre less d a b'.
Proof. intros Hb H Ha x Hx1 Hx2. apply H; lia. Qed.

(* in-range comparisons *)
Lemma nlessAt_in less s i j : i < length (sd s) -> j < length (sd s) ->
  nlessAt less s i j = (negb (less (getd (sd s) i) (getd (sd s) j)), logc s (getd (sd s) i) (getd (sd s) j)).
Proof. intros Hi Hj. unfold nlessAt. now rewrite lessAt_in. Qed.
