(* C10 model, part 1: base/bcomparator/comparator.go, the searches and predicates of base/bslice/sort.go and
   the comparison helpers of base/bslice/bslice.go. (The sorts are in SortModel.v.)
   Integers of every width are Z restricted to the type's range by the callers; strings are byte lists
   (Go compares strings bytewise); bool is bool; floats are rationals with the machine subtraction as an
   abstract rounding [rnd] (Section variable, hypotheses in ProofsCmp.v). *)
From VF Require Export Common.Base.
From Coq Require Import QArith Qabs.
Local Open Scope Z_scope.

(* bternaryexpr.TernaryExpr(c, x, y) *)
Definition ternary {T} (c : bool) (x y : T) : T := if c then x else y.

(* OrderedComparator[T] for an integer type: TernaryExpr(a == b, 0, TernaryExpr(a > b, 1, -1)) *)
Definition ordered_cmp (a b : Z) : Z := ternary (a =? b) 0 (ternary (a >? b) 1 (-1)).

(* strings: ==, > and strings.Compare on byte lists *)
Fixpoint str_eqb (a b : list Z) : bool :=
  match a, b with
  | [], [] => true
  | x :: a', y :: b' => (x =? y) && str_eqb a' b'
  | _, _ => false
  end.
Fixpoint str_gtb (a b : list Z) : bool :=          (* a > b *)
  match a, b with
  | [], _ => false
  | _ :: _, [] => true
  | x :: a', y :: b' => if x >? y then true else if x <? y then false else str_gtb a' b'
  end.
Definition ordered_cmp_str (a b : list Z) : Z := ternary (str_eqb a b) 0 (ternary (str_gtb a b) 1 (-1)).
(* strings.Compare: if a == b {0} else if a < b {-1} else {+1} *)
Definition strings_compare (a b : list Z) : Z := if str_eqb a b then 0 else if str_gtb b a then -1 else 1.

(* BoolComparator: TernaryExpr(a == b, 0, TernaryExpr(!a && b, -1, 1)) *)
Definition bool_cmp (a b : bool) : Z := ternary (Bool.eqb a b) 0 (ternary (negb a && b) (-1) 1).

(* ReverseComparator(c)(a, b) = c(a, b) * -1 *)
Definition reverse_cmp {T} (c : T -> T -> Z) (a b : T) : Z := c a b * -1.

(* Float32/Float64Comparator: TernaryExpr(Abs(a-b) < tol, 0, TernaryExpr(a > b, 1, -1)); Abs(x) = if x > 0 {x} else {-x} *)
Section Float.
  Variable rnd : Q -> Q.          (* result of the machine subtraction a - b, as the rounding of the exact difference *)
  Variable tol : Q.               (* the constant 0.0000001 as the double it denotes *)
  Definition Qltb (x y : Q) : bool := negb (Qle_bool y x).
  Definition fabs (x : Q) : Q := if Qltb 0 x then x else (- x)%Q.
  Definition float_cmp (a b : Q) : Z := ternary (Qltb (fabs (rnd (a - b)%Q)) tol) 0 (ternary (Qltb b a) 1 (-1)).
End Float.

(* ---------- base/bslice/sort.go ---------- *)
Section Search.
  Variable less : Z -> Z -> bool.
  Variable cmp : Z -> Z -> Z.          (* BinarySearchFunc's cmp(element, target) *)

  Definition at_ (xs : list Z) (k : Z) : Z := nth (Z.to_nat k) xs 0.

  (* for i := len(x)-1; i > 0; i-- { if less(x[i], x[i-1]) { return false } }; return true *)
  Fixpoint is_sorted_loop (xs : list Z) (i : nat) : bool :=
    match i with
    | O => true
    | S i' => if less (nth i xs 0) (nth i' xs 0) then false else is_sorted_loop xs i'
    end.
  Definition is_sorted_func (xs : list Z) : bool := is_sorted_loop xs (length xs - 1).

  (* h := int(uint(i+j) >> 1) on 64-bit words *)
  Definition midpoint (i j : Z) : Z := ((i + j) mod 2 ^ 64) / 2.

  (* for i < j { h := ...; if p(x[h]) { i = h + 1 } else { j = h } } *)
  Fixpoint bsearch_loop (p : Z -> bool) (xs : list Z) (fuel : nat) (i j : Z) : Z :=
    match fuel with
    | O => i
    | S f => if i <? j then
               let h := midpoint i j in
               if p (at_ xs h) then bsearch_loop p xs f (h + 1) j else bsearch_loop p xs f i h
             else i
    end.

  (* BinarySearch: x[h] < target; found = i < n && x[i] == target *)
  Definition binary_search (xs : list Z) (target : Z) : Z * bool :=
    let n := Z.of_nat (length xs) in
    let i := bsearch_loop (fun e => e <? target) xs (S (length xs)) 0 n in
    (i, (i <? n) && (at_ xs i =? target)).
  (* BinarySearchFunc: cmp(x[h], target) < 0; found = i < n && cmp(x[i], target) == 0 *)
  Definition binary_search_func (xs : list Z) (target : Z) : Z * bool :=
    let n := Z.of_nat (length xs) in
    let i := bsearch_loop (fun e => cmp e target <? 0) xs (S (length xs)) 0 n in
    (i, (i <? n) && (cmp (at_ xs i) target =? 0)).
End Search.

(* ---------- base/bslice/bslice.go ---------- *)
(* Equal / EqualFunc: lengths, then elementwise until the first difference *)
Fixpoint equal_loop (eq : Z -> Z -> bool) (s1 s2 : list Z) : bool :=
  match s1, s2 with
  | [], _ => true
  | v1 :: t1, v2 :: t2 => if negb (eq v1 v2) then false else equal_loop eq t1 t2
  | _ :: _, [] => false            (* s2[i] out of range: unreachable after the length test *)
  end.
Definition equal_func (eq : Z -> Z -> bool) (s1 s2 : list Z) : bool :=
  if negb (Nat.eqb (length s1) (length s2)) then false else equal_loop eq s1 s2.

(* CompareFunc: for i, v1 := range s1 { if i >= len(s2) {return +1}; if c := cmp(v1, s2[i]); c != 0 {return c} };
   if len(s1) < len(s2) {return -1}; return 0.   Compare is the instance cmp = (v1 < v2 ? -1 : v1 > v2 ? +1 : 0) *)
Fixpoint compare_func (cmp : Z -> Z -> Z) (s1 s2 : list Z) : Z :=
  match s1, s2 with
  | [], [] => 0
  | [], _ :: _ => -1
  | _ :: _, [] => 1
  | v1 :: t1, v2 :: t2 => let c := cmp v1 v2 in if negb (c =? 0) then c else compare_func cmp t1 t2
  end.
Definition cmp3 (v1 v2 : Z) : Z := if v1 <? v2 then -1 else if v1 >? v2 then 1 else 0.
Definition compare_ord (s1 s2 : list Z) : Z := compare_func cmp3 s1 s2.

(* Index: for i := range s { if v == s[i] { return i } }; return -1 *)
Fixpoint index_from (s : list Z) (v : Z) (i : Z) : Z :=
  match s with [] => -1 | x :: t => if v =? x then i else index_from t v (i + 1) end.
Definition index (s : list Z) (v : Z) : Z := index_from s v 0.
Definition contains (s : list Z) (v : Z) : bool := index s v >=? 0.
