(* C10 lemmas: symMerge(data, a, m, b) of SortModel.v merges the two sorted runs data[a:m] and data[m:b] in place,
   stably, for every strict weak order; indexes stay in range; fuel f suffices when b - a <= 2^f (the model uses 64).
   The binary searches are specified without assuming monotonicity: only the two boundary facts of the returned
   index are used (predicate true just before it, false at it). *)
From VF Require Import C10.SortModel C10.ProofsPerm C10.ProofsInsertion C10.ProofsFrame C10.ProofsStableBase C10.ProofsRotate.
Local Open Scope nat_scope.

Lemma half_bounds x : 2 * (x / 2) <= x /\ x <= 2 * (x / 2) + 1.
Proof.
  pose proof (Nat.div_mod x 2 ltac:(lia)). pose proof (Nat.mod_upper_bound x 2 ltac:(lia)). lia.
Qed.

(* ---------- the binary search loop ---------- *)
Section BS.
Variable p : st -> nat -> bool * st.
Variable P : nat -> bool.
Variable d : list Z.
Variable lo0 hi0 : nat.
Hypothesis p_ok : forall s h, sd s = d -> lo0 <= h -> h < hi0 ->
  exists s', p s h = (P h, s') /\ sd s' = d /\ sbad s' = sbad s.

Lemma bs_loop_spec : forall k s i j, j - i < k -> lo0 <= i -> i <= j -> j <= hi0 -> sd s = d ->
  (lo0 < i -> P (i - 1) = true) -> (j < hi0 -> P j = false) ->
  let r := bs_loop k p s i j in
  sd (snd r) = d /\ sbad (snd r) = sbad s /\ lo0 <= fst r /\ fst r <= hi0 /\
  (lo0 < fst r -> P (fst r - 1) = true) /\ (fst r < hi0 -> P (fst r) = false).
Proof.
  induction k as [|k IH]; intros s i j Hk Hi Hij Hj Hd Hlo Hhi; [lia|]. cbn [bs_loop].
  destruct (Nat.ltb_spec i j) as [Hlt|Hge].
  - set (h := (i + j) / 2). assert (Hh : i <= h /\ h < j) by (pose proof (half_bounds (i + j)); fold h in H; lia).
    destruct (p_ok s h Hd ltac:(lia) ltac:(lia)) as (s' & -> & Hd' & Hb').
    destruct (P h) eqn:EP.
    + destruct (IH s' (h + 1) j) as (R1 & R2 & R3 & R4 & R5 & R6); try lia; auto.
      { intros _. replace (h + 1 - 1) with h by lia. exact EP. }
      repeat split; auto; congruence.
    + destruct (IH s' i h) as (R1 & R2 & R3 & R4 & R5 & R6); try lia; auto.
      repeat split; auto; congruence.
  - assert (i = j) by lia. subst j. cbn [fst snd]. repeat split; auto.
Qed.
End BS.

Section Sym.
Variable less : Z -> Z -> bool.
Hypothesis less_asym : forall a b, less a b = true -> less b a = false.
Hypothesis le_trans : forall a b c, less b a = false -> less c b = false -> less c a = false.
Notation le := (le less).
Notation sorted_range := (sorted_range less).
Notation SP := (StablePerm less).
Let le_refl := le_refl less less_asym.
Let lt_le := lt_le_trans less le_trans.
Let le_lt := le_lt_trans less le_trans.

(* a goal [le (getd d' x) (getd d' y)] about a rotation, from facts about d *)
Ltac rot_le R Hsm Hme HL HR HK1 HK2 :=
  rewrite !(Rot_fun _ _ _ _ _ Hsm Hme R); unfold rotf; brk;
  first [apply HL; lia | apply HR; lia | apply HK1; lia | apply HK2; lia].

(* the whole of [a, b) after one rotation, when nothing is left to merge *)
Lemma Rot_sorted_full d d' a s m e b : Rot d d' s m e -> a <= s -> s <= m -> m <= e -> e <= b ->
  sorted_range d a m -> sorted_range d m b ->
  (forall x y, a <= x -> x < s -> m <= y -> y < e -> le (getd d x) (getd d y)) ->
  (forall x y, s <= x -> x < m -> m <= y -> y < e -> le (getd d y) (getd d x)) ->
  (forall x y, s <= x -> x < m -> e <= y -> y < b -> le (getd d x) (getd d y)) ->
  (forall x y, a <= x -> x < s -> e <= y -> y < b -> le (getd d x) (getd d y)) ->
  sorted_range d' a b.
Proof.
  intros R Has Hsm Hme Heb HL HR AY YX XB AB i j Hi Hij Hj.
  rewrite !(Rot_fun _ _ _ _ _ Hsm Hme R); unfold rotf; brk;
  first [apply HL; lia | apply HR; lia | apply AY; lia | apply YX; lia | apply XB; lia | apply AB; lia].
Qed.

(* after the rotation of the general case: four sorted runs, and the left half is below the right half *)
Lemma Rot_merge_facts d d' a s m e b mid : Rot d d' s m e -> a <= s -> s <= m -> m <= e -> e <= b ->
  s + (e - m) = mid ->
  sorted_range d a m -> sorted_range d m b ->
  (forall x y, a <= x -> x < s -> e <= y -> y < b -> le (getd d x) (getd d y)) ->
  (forall x y, m <= x -> x < e -> s <= y -> y < m -> le (getd d x) (getd d y)) ->
  sorted_range d' a s /\ sorted_range d' s mid /\ sorted_range d' mid e /\ sorted_range d' e b /\
  (forall x y, a <= x -> x < mid -> mid <= y -> y < b -> le (getd d' x) (getd d' y)).
Proof.
  intros R Has Hsm Hme Heb Hmid HL HR K1 K2w.
  split; [|split; [|split; [|split]]]; intros i j Hi Hij Hj; [| | | |intros Hj2]; rot_le R Hsm Hme HL HR K1 K2w.
Qed.

Theorem sym_merge_spec : forall fuel s a m b,
  (Z.of_nat (b - a) <= 2 ^ Z.of_nat fuel)%Z -> a < m -> m < b -> b <= length (sd s) ->
  sorted_range (sd s) a m -> sorted_range (sd s) m b ->
  let s' := sym_merge less fuel s a m b in
  sorted_range (sd s') a b /\ Fr a b s s' /\ SP (sd s) (sd s').
Proof.
  induction fuel as [|f IH]; intros s a m b Hfuel Ham Hmb Hb HsL HsR.
  { change (2 ^ Z.of_nat 0)%Z with 1%Z in Hfuel. lia. }
  rewrite Nat2Z.inj_succ, Z.pow_succ_r in Hfuel by lia. set (P2 := (2 ^ Z.of_nat f)%Z) in *.
  cbn [sym_merge]. set (d := sd s) in *.
  destruct (Nat.eqb_spec (m - a) 1) as [Hma|Hma].
  { (* one element on the left: binary-search its place in the right run, shift it up *)
    assert (pok : forall s0 h, sd s0 = d -> m <= h -> h < b ->
              exists s', lessAt less s0 h a = (less (getd d h) (getd d a), s') /\ sd s' = d /\ sbad s' = sbad s0).
    { intros s0 h Hd H1 H2. rewrite lessAt_in by (rewrite Hd; fold d; lia). rewrite Hd. eexists. split; [reflexivity|]. now split. }
    pose proof (bs_loop_spec (fun s h => lessAt less s h a) (fun h => less (getd d h) (getd d a)) d m b pok
                  (S (b - m)) s m b ltac:(lia) ltac:(lia) ltac:(lia) ltac:(lia) eq_refl ltac:(lia) ltac:(lia)) as BS.
    cbv zeta in BS. destruct (bs_loop (S (b - m)) (fun s h => lessAt less s h a) s m b) as [i s1].
    cbn [fst snd] in BS. destruct BS as (E1 & B1 & Hi1 & Hi2 & Hlo & Hhi). cbv beta iota.
    destruct (shift_up_Rot s1 a i) as (R & F); try (rewrite ?E1; fold d; lia).
    set (s' := shift_up (i - 1 - a) s1 a) in *. rewrite E1 in R.
    assert (YX : forall x y, a <= x -> x < a + 1 -> a + 1 <= y -> y < i -> less (getd d y) (getd d x) = true).
    { intros x y Hx1 Hx2 Hy1 Hy2. assert (x = a) by lia. subst x.
      apply (le_lt _ (getd d (i - 1))); [apply HsR; lia|apply Hlo; lia]. }
    split; [|split].
    - apply (Rot_sorted_full d _ a a (a + 1) i b R); try lia.
      + replace (a + 1) with m by lia. exact HsL.
      + replace (a + 1) with m by lia. exact HsR.
      + intros x y Hx1 Hx2 Hy1 Hy2. unfold ProofsInsertion.le. apply less_asym. now apply YX.
      + intros x y Hx1 Hx2 Hy1 Hy2. assert (x = a) by lia. subst x.
        apply (le_trans _ (getd d i)); [apply Hhi; lia|apply HsR; lia].
    - apply (Fr_trans _ _ _ s1); [now apply Fr_same|]. apply (Fr_mono a i); [lia|lia|exact F].
    - apply (Rot_SP less le_trans d _ a (a + 1) i); try (fold d; lia); [exact R|exact YX]. }
  destruct (Nat.eqb_spec (b - m) 1) as [Hbm|Hbm].
  { (* one element on the right: binary-search its place in the left run, shift it down *)
    assert (pok : forall s0 h, sd s0 = d -> a <= h -> h < m ->
              exists s', nlessAt less s0 m h = (negb (less (getd d m) (getd d h)), s') /\ sd s' = d /\ sbad s' = sbad s0).
    { intros s0 h Hd H1 H2. rewrite nlessAt_in by (rewrite Hd; fold d; lia). rewrite Hd. eexists. split; [reflexivity|]. now split. }
    pose proof (bs_loop_spec (fun s h => nlessAt less s m h) (fun h => negb (less (getd d m) (getd d h))) d a m pok
                  (S (m - a)) s a m ltac:(lia) ltac:(lia) ltac:(lia) ltac:(lia) eq_refl ltac:(lia) ltac:(lia)) as BS.
    cbv zeta in BS. destruct (bs_loop (S (m - a)) (fun s h => nlessAt less s m h) s a m) as [i s1].
    cbn [fst snd] in BS. destruct BS as (E1 & B1 & Hi1 & Hi2 & Hlo & Hhi). cbv beta iota.
    destruct (shift_down_Rot s1 i m) as (R & F); try (rewrite ?E1; fold d; lia).
    set (s' := shift_down (m - i) s1 m) in *. rewrite E1 in R.
    assert (YX : forall x y, i <= x -> x < m -> m <= y -> y < m + 1 -> less (getd d y) (getd d x) = true).
    { intros x y Hx1 Hx2 Hy1 Hy2. assert (y = m) by lia. subst y.
      apply (lt_le _ (getd d i)); [|apply HsL; lia].
      specialize (Hhi ltac:(lia)). now apply Bool.negb_false_iff in Hhi. }
    split; [|split].
    - replace b with (m + 1) by lia. apply (Rot_sorted_full d _ a i m (m + 1) (m + 1) R); try lia.
      + exact HsL.
      + replace (m + 1) with b by lia. exact HsR.
      + intros x y Hx1 Hx2 Hy1 Hy2. assert (y = m) by lia. subst y.
        apply (le_trans _ (getd d (i - 1))); [apply HsL; lia|].
        specialize (Hlo ltac:(lia)). now apply Bool.negb_true_iff in Hlo.
      + intros x y Hx1 Hx2 Hy1 Hy2. unfold ProofsInsertion.le. apply less_asym. now apply YX.
    - apply (Fr_trans _ _ _ s1); [now apply Fr_same|]. apply (Fr_mono i (m + 1)); [lia|lia|exact F].
    - apply (Rot_SP less le_trans d _ i m (m + 1)); try (fold d; lia); [exact R|exact YX]. }
  (* general case *)
  set (mid := (a + b) / 2). set (n := mid + m).
  assert (Hmid : a < mid /\ mid < b /\ 2 * mid <= a + b /\ a + b <= 2 * mid + 1) by (pose proof (half_bounds (a + b)) as Hhb; fold mid in Hhb; lia).
  clearbody mid. assert (En : n = mid + m) by reflexivity. clearbody n.
  set (sr := if mid <? m then (n - b, mid) else (a, m)).
  assert (Hsr : a <= fst sr /\ fst sr <= snd sr /\ snd sr <= m /\ snd sr <= mid /\
                (forall c, fst sr <= c -> c < snd sr -> m <= n - 1 - c /\ n - 1 - c < b) /\
                ((fst sr = n - b /\ snd sr = mid /\ mid < m) \/ (fst sr = a /\ snd sr = m /\ m <= mid))).
  { unfold sr. destruct (Nat.ltb_spec mid m); cbn [fst snd]; repeat split; try lia. }
  destruct sr as [start0 r0]. cbn [fst snd] in Hsr. destruct Hsr as (Hs1 & Hs2 & Hs3 & Hs4 & Hs5 & Hcase).
  cbv beta iota.
  assert (pok : forall s0 c, sd s0 = d -> start0 <= c -> c < r0 ->
            exists s', nlessAt less s0 (n - 1 - c) c = (negb (less (getd d (n - 1 - c)) (getd d c)), s') /\
                       sd s' = d /\ sbad s' = sbad s0).
  { intros s0 c Hd H1 H2. destruct (Hs5 c H1 H2). rewrite nlessAt_in by (rewrite Hd; fold d; lia).
    rewrite Hd. eexists. split; [reflexivity|]. now split. }
  pose proof (bs_loop_spec (fun s c => nlessAt less s (n - 1 - c) c) (fun c => negb (less (getd d (n - 1 - c)) (getd d c)))
                d start0 r0 pok (S (r0 - start0)) s start0 r0 ltac:(lia) ltac:(lia) ltac:(lia) ltac:(lia) eq_refl
                ltac:(lia) ltac:(lia)) as BS.
  cbv zeta in BS. destruct (bs_loop (S (r0 - start0)) (fun s c => nlessAt less s (n - 1 - c) c) s start0 r0) as [start s1].
  cbn [fst snd] in BS. destruct BS as (E1 & B1 & Hst1 & Hst2 & Hlo & Hhi). cbv beta iota.
  set (end_ := n - start).
  assert (Hend : m <= end_ /\ end_ <= b /\ mid <= end_ /\ start + (end_ - m) = mid /\ start <= mid /\ start <= m /\
                 end_ = n - start)
    by (unfold end_; lia).
  clearbody end_. destruct Hend as (He1 & He2 & He3 & He4 & He5 & He6 & Ee).
  assert (F01 : Fr a b s s1) by now apply Fr_same.
  (* the two order facts the binary search delivers *)
  assert (K1 : forall x y, a <= x -> x < start -> end_ <= y -> y < b -> le (getd d x) (getd d y)).
  { intros x y Hx1 Hx2 Hy1 Hy2.
    assert (Hgt : start0 < start) by lia.
    specialize (Hlo Hgt). apply Bool.negb_true_iff in Hlo.
    replace (n - 1 - (start - 1)) with end_ in Hlo by (clear - Ee Hgt He6 En; lia).
    apply (le_trans _ (getd d (start - 1))); [apply HsL; lia|].
    apply (le_trans _ (getd d end_)); [exact Hlo|apply HsR; lia]. }
  assert (K2 : forall x y, start <= x -> x < m -> m <= y -> y < end_ -> less (getd d y) (getd d x) = true).
  { intros x y Hx1 Hx2 Hy1 Hy2.
    assert (Hlt : start < r0) by lia.
    specialize (Hhi Hlt). apply Bool.negb_false_iff in Hhi.
    replace (n - 1 - start) with (end_ - 1) in Hhi by (clear - Ee; lia).
    apply (lt_le _ (getd d start)); [|apply HsL; lia].
    apply (le_lt _ (getd d (end_ - 1))); [apply HsR; lia|exact Hhi]. }
  assert (K2w : forall x y, m <= x -> x < end_ -> start <= y -> y < m -> le (getd d x) (getd d y)).
  { intros x y Hx1 Hx2 Hy1 Hy2. unfold ProofsInsertion.le. apply less_asym. now apply K2. }
  (* rotate *)
  set (s2 := if (start <? m) && (m <? end_) then rotate (mark P_symmerge_rotate s1) start m end_ else s1).
  assert (H2 : Rot d (sd s2) start m end_ /\ Fr start end_ s1 s2).
  { unfold s2. destruct (Nat.ltb_spec start m) as [H1|H1]; destruct (Nat.ltb_spec m end_) as [H2|H2]; cbn [andb];
      try (split; [rewrite E1; apply Rot_triv; lia|apply Fr_refl]).
    destruct (rotate_spec (mark P_symmerge_rotate s1) start m end_) as (R & F); try (cbn [sd mark]; rewrite ?E1; fold d; lia).
    cbn [sd mark] in R. rewrite E1 in R. split; [exact R|].
    apply (Fr_trans _ _ _ (mark P_symmerge_rotate s1)); [apply Fr_mark|exact F]. }
  destruct H2 as (R & F12).
  assert (SP2 : SP d (sd s2)) by (apply (Rot_SP less le_trans d _ start m end_); try (fold d; lia); [exact R|exact K2]).
  assert (L2 : length (sd s2) = length d) by apply (Rot_len _ _ _ _ _ R).
  destruct (Rot_merge_facts d (sd s2) a start m end_ b mid R ltac:(lia) He6 He1 He2 He4 HsL HsR K1 K2w)
    as (S1 & S2 & S3 & S4 & CX).
  (* merge the left half *)
  set (s3 := if (a <? start) && (start <? mid) then sym_merge less f s2 a start mid else s2).
  assert (H3 : sorted_range (sd s3) a mid /\ Fr a mid s2 s3 /\ SP (sd s2) (sd s3)).
  { unfold s3. destruct (Nat.ltb_spec a start) as [H1|H1]; destruct (Nat.ltb_spec start mid) as [H2|H2]; cbn [andb];
      try (split; [|split; [apply Fr_refl|apply SP_refl]]).
    - apply IH; auto; try lia.
    - intros i j Hi Hij Hj. apply S1; lia.
    - intros i j Hi Hij Hj. apply S2; lia.
    - intros i j Hi Hij Hj. apply S2; lia. }
  destruct H3 as (SL3 & F23 & SP3).
  assert (L3 : length (sd s3) = length d) by (rewrite (Fr_len _ _ _ _ F23); exact L2).
  assert (S3' : sorted_range (sd s3) mid end_) by (apply (Fr_sorted_out less a mid s2 s3 mid end_ F23); [lia|exact S3]).
  assert (S4' : sorted_range (sd s3) end_ b) by (apply (Fr_sorted_out less a mid s2 s3 end_ b F23); [lia|exact S4]).
  assert (CX3 : forall x y, a <= x -> x < mid -> mid <= y -> y < b -> le (getd (sd s3) x) (getd (sd s3) y)).
  { intros x y Hx1 Hx2 Hy1 Hy2. rewrite (Fr_out _ _ _ _ F23 y) by lia.
    apply (Fr_all a mid s2 s3 (fun v => le v (getd (sd s2) y)) F23); try lia. intros z Hz1 Hz2. apply CX; lia. }
  (* merge the right half *)
  set (s4 := if (mid <? end_) && (end_ <? b) then sym_merge less f s3 mid end_ b else s3).
  assert (H4 : sorted_range (sd s4) mid b /\ Fr mid b s3 s4 /\ SP (sd s3) (sd s4)).
  { unfold s4. destruct (Nat.ltb_spec mid end_) as [H1|H1]; destruct (Nat.ltb_spec end_ b) as [H2|H2]; cbn [andb];
      try (split; [|split; [apply Fr_refl|apply SP_refl]]).
    - apply IH; auto; try lia.
    - intros i j Hi Hij Hj. apply S3'; lia.
    - intros i j Hi Hij Hj. apply S4'; lia.
    - intros i j Hi Hij Hj. apply S4'; lia. }
  destruct H4 as (SR4 & F34 & SP4).
  split; [|split].
  - intros i j Hi Hij Hj.
    destruct (Nat.lt_ge_cases j mid) as [Hjm|Hjm].
    + rewrite !(Fr_out _ _ _ _ F34) by lia. apply SL3; lia.
    + destruct (Nat.lt_ge_cases i mid) as [Him|Him]; [|apply SR4; lia].
      rewrite (Fr_out _ _ _ _ F34 i) by lia.
      apply (Fr_all mid b s3 s4 (fun v => le (getd (sd s3) i) v) F34); try lia. intros z Hz1 Hz2. apply CX3; lia.
  - apply (Fr_trans _ _ _ s1 _ F01). apply (Fr_trans _ _ _ s2); [apply (Fr_mono start end_); [lia|lia|exact F12]|].
    apply (Fr_trans _ _ _ s3); [apply (Fr_mono a mid); [lia|lia|exact F23]|apply (Fr_mono mid b); [lia|lia|exact F34]].
  - apply (SP_trans _ _ (sd s2)); [exact SP2|]. apply (SP_trans _ _ (sd s3)); assumption.
Qed.

End Sym.
