(* C10 lemmas about CmpSel.v: the traced models return the model's result, the specified result and the specified calls. *)
From VF Require Import C10.Model C10.Spec C10.CmpSel C10.ProofsCmp.
From Coq Require Import ZifyBool.
Local Open Scope Z_scope.

(* ---------- lemmas ---------- *)
Lemma compare_func_tr_fst cmp : forall s1 s2, fst (compare_func_tr cmp s1 s2) = compare_func cmp s1 s2.
Proof.
  induction s1 as [|a t IH]; intros [|b u]; cbn [compare_func_tr compare_func fst]; try reflexivity.
  destruct (negb (cmp a b =? 0)); [reflexivity|]. specialize (IH u). destruct (compare_func_tr cmp t u). exact IH.
Qed.

Lemma compare_func_spec cmp : forall s1 s2, compare_func cmp s1 s2 = spec_compare_func cmp s1 s2.
Proof.
  unfold spec_compare_func. induction s1 as [|a t IH]; intros [|b u]; cbn [compare_func combine find length fst snd].
  - reflexivity.
  - rewrite Z.sgn_neg by lia. reflexivity.
  - rewrite Z.sgn_pos by lia. reflexivity.
  - destruct (negb (cmp a b =? 0)); [reflexivity|]. rewrite IH.
    destruct (find _ (combine t u)); [reflexivity|]. f_equal. lia.
Qed.

Lemma compare_func_tr_calls cmp : forall s1 s2, snd (compare_func_tr cmp s1 s2) = spec_compare_calls cmp s1 s2.
Proof.
  unfold spec_compare_calls. induction s1 as [|a t IH]; intros [|b u]; cbn [compare_func_tr combine take_until snd fst]; try reflexivity.
  destruct (negb (cmp a b =? 0)); [reflexivity|]. specialize (IH u). destruct (compare_func_tr cmp t u). cbn [snd] in *. now rewrite IH.
Qed.

Lemma equal_loop_tr_fst eq : forall s1 s2, fst (equal_loop_tr eq s1 s2) = equal_loop eq s1 s2.
Proof.
  induction s1 as [|a t IH]; intros [|b u]; cbn [equal_loop_tr equal_loop fst]; try reflexivity.
  destruct (negb (eq a b)); [reflexivity|]. specialize (IH u). destruct (equal_loop_tr eq t u). exact IH.
Qed.
Lemma equal_func_tr_fst eq s1 s2 : fst (equal_func_tr eq s1 s2) = equal_func eq s1 s2.
Proof. unfold equal_func_tr, equal_func. destruct (negb _); [reflexivity|apply equal_loop_tr_fst]. Qed.

Lemma equal_func_spec eq s1 s2 : equal_func eq s1 s2 = spec_equal_func eq s1 s2.
Proof.
  unfold equal_func, spec_equal_func. destruct (Nat.eqb (length s1) (length s2)) eqn:El; cbn [negb andb]; [|reflexivity].
  apply Nat.eqb_eq in El. revert s2 El. induction s1 as [|a t IH]; intros [|b u] El; cbn [length] in El; try discriminate; try reflexivity.
  cbn [equal_loop combine forallb fst snd]. destruct (eq a b); cbn [negb andb]; [apply IH; lia|reflexivity].
Qed.

Lemma equal_func_tr_calls eq s1 s2 : snd (equal_func_tr eq s1 s2) = spec_equal_calls eq s1 s2.
Proof.
  unfold equal_func_tr, spec_equal_calls. destruct (Nat.eqb (length s1) (length s2)) eqn:El; cbn [negb]; [|reflexivity].
  apply Nat.eqb_eq in El. revert s2 El. induction s1 as [|a t IH]; intros [|b u] El; cbn [length] in El; try discriminate; try reflexivity.
  cbn [equal_loop_tr combine take_until fst snd]. destruct (eq a b); cbn [negb]; [|reflexivity].
  specialize (IH u ltac:(lia)). destruct (equal_loop_tr eq t u). cbn [snd] in *. now rewrite IH.
Qed.

(* every call is on a pair (s1[i], s2[i]), in that orientation *)
Lemma take_until_incl {A} (stop : A -> bool) : forall l x, In x (take_until stop l) -> In x l.
Proof.
  induction l as [|y t IH]; intros x H; cbn [take_until] in H; [destruct H|].
  destruct (stop y); [destruct H as [<-|[]]; now left|destruct H as [<-|H]; [now left|right; now apply IH]].
Qed.
Lemma spec_calls_oriented cmp eq s1 s2 p :
  (In p (spec_compare_calls cmp s1 s2) -> In p (combine s1 s2)) /\ (In p (spec_equal_calls eq s1 s2) -> In p (combine s1 s2)).
Proof.
  split; [apply take_until_incl|]. unfold spec_equal_calls. destruct (Nat.eqb _ _); [apply take_until_incl|intros []].
Qed.

(* every shape is a comparator in the sense of Spec.TotalPreorder; ReverseComparator of any shape is its negation *)
Lemma zcmp_of_preorder c : TotalPreorder (zcmp_of c).
Proof.
  destruct c; cbn [zcmp_of]; [exact ordered_cmp_preorder| | | | |]; constructor; intros; lia.
Qed.

(* "cmp < 0" of every shape is a legitimate less for the sortedness checker (negatively transitive) *)
Lemma zcmp_less_trans c a b d :
  (zcmp_of c b a <? 0) = false -> (zcmp_of c d b <? 0) = false -> (zcmp_of c d a <? 0) = false.
Proof. destruct c; cbn [zcmp_of]; rewrite ?ordered_cmp_sgn; lia. Qed.

(* the sign of cmp(e, t) is monotone in e along a slice sorted by "cmp < 0": BinarySearchFunc's precondition *)
Lemma zcmp_sign_monotone c a b t : (zcmp_of c b a <? 0) = false ->
  ((zcmp_of c b t <? 0) = true -> (zcmp_of c a t <? 0) = true) /\ ((zcmp_of c b t <=? 0) = true -> (zcmp_of c a t <=? 0) = true).
Proof. destruct c; cbn [zcmp_of]; rewrite ?ordered_cmp_sgn; lia. Qed.

(* ---------- Index / Contains for an arbitrary element equality ---------- *)
Lemma count_while_bounds p : forall s, 0 <= count_while p s <= Z.of_nat (length s).
Proof. induction s as [|x t IH]; cbn [count_while length]; [lia|]. destruct (p x); lia. Qed.

Lemma index_from_by_spec eq v : forall s i,
  index_from_by eq s v i =
  (let k := count_while (fun x => negb (eq v x)) s in if k <? Z.of_nat (length s) then i + k else -1).
Proof.
  induction s as [|x t IH]; intros i; cbn [index_from_by count_while length]; [reflexivity|].
  destruct (eq v x); cbn [negb].
  - cbv zeta. destruct (Z.ltb_spec 0 (Z.of_nat (S (length t)))); lia.
  - rewrite IH. cbv zeta. pose proof (count_while_bounds (fun x => negb (eq v x)) t).
    set (k := count_while (fun x0 => negb (eq v x0)) t) in *.
    destruct (Z.ltb_spec k (Z.of_nat (length t))); destruct (Z.ltb_spec (1 + k) (Z.of_nat (S (length t)))); lia.
Qed.

Lemma index_by_spec eq s v : index_by eq s v = spec_index eq s v.
Proof. unfold index_by, spec_index. rewrite index_from_by_spec. cbv zeta. destruct (_ <? _); lia. Qed.

Lemma contains_by_spec eq s v : contains_by eq s v = existsb (eq v) s.
Proof.
  unfold contains_by. rewrite index_by_spec. unfold spec_index. cbv zeta.
  induction s as [|x t IH]; cbn [count_while existsb length]; [reflexivity|].
  pose proof (count_while_bounds (fun x => negb (eq v x)) t).
  destruct (eq v x); cbn [negb orb].
  - destruct (Z.ltb_spec 0 (Z.of_nat (S (length t)))); [reflexivity|lia].
  - rewrite <- IH. set (k := count_while (fun x0 => negb (eq v x0)) t) in *.
    destruct (Z.ltb_spec k (Z.of_nat (length t))); destruct (Z.ltb_spec (1 + k) (Z.of_nat (S (length t)))); try lia;
    destruct (Z.geb_spec k 0); destruct (Z.geb_spec (1 + k) 0); try lia; reflexivity.
Qed.

(* the native instance is the model of Model.v *)
Lemma index_by_native s v : index_by Z.eqb s v = index s v.
Proof.
  unfold index_by, index. generalize 0. induction s as [|x t IH]; intros i; cbn [index_from_by index_from]; [reflexivity|].
  destruct (v =? x); [reflexivity|apply IH].
Qed.
(* the partial relation: the NaN code equals nothing and is neither below nor above anything *)
Lemma partial_nan a : eq_of EPartial nan_code a = false /\ eq_of EPartial a nan_code = false /\
  lt_of EPartial nan_code a = false /\ lt_of EPartial a nan_code = false /\ cmp3_by (lt_of EPartial) a nan_code = 0.
Proof.
  unfold eq_of, lt_of, cmp3_by, nan_code. repeat split; try lia.
  simpl (-1 =? -1). cbn [negb]. rewrite !andb_false_r. destruct (a <? -1); reflexivity.
Qed.

