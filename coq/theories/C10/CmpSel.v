(* C10: shapes of user-supplied comparison functions and predicates that the correspondence runs hand to the real
   code (CompareFunc, BinarySearchFunc, EqualFunc, ReverseComparator, bcomparator.Sort and their wrapper methods),
   the specifications of the two-sequence helpers for an ARBITRARY comparison / predicate, and traced variants of
   the models that also return the sequence of (first argument, second argument) pairs the function was called on.
   A Go comparator may return any int: CompareFunc must return that very value, the searches and sorts may use only
   its sign. Values in the runs stay far below 2^40 so the Go ints do not overflow. *)
From VF Require Import C10.Model C10.Spec.
Local Open Scope Z_scope.

Inductive cmpsel :=
| CUnit        (* bcomparator.Int64Comparator: -1 / 0 / +1 *)
| CSub         (* a - b *)
| CDesc        (* b - a : descending order *)
| CScale10     (* 10 * sign (a - b) *)
| CDescBig     (* (b - a) * 1000003 *)
| CClamp.      (* a - b clamped to [-3, 3] *)

Definition zcmp_of (c : cmpsel) : Z -> Z -> Z :=
  match c with
  | CUnit => ordered_cmp
  | CSub => fun a b => a - b
  | CDesc => fun a b => b - a
  | CScale10 => fun a b => 10 * Z.sgn (a - b)
  | CDescBig => fun a b => (b - a) * 1000003
  | CClamp => fun a b => Z.max (-3) (Z.min 3 (a - b))
  end.

(* two-argument predicates; the last three are NOT symmetric *)
Inductive predsel :=
| PEq          (* a == b *)
| PKeyEq       (* a >> 20 == b >> 20 *)
| PSucc        (* a == b + 1 *)
| PLe          (* a <= b *)
| PDivides.    (* a != 0 && b % a == 0 *)

Definition pred_of (p : predsel) : Z -> Z -> bool :=
  match p with
  | PEq => Z.eqb
  | PKeyEq => fun a b => key a =? key b
  | PSucc => fun a b => a =? b + 1
  | PLe => Z.leb
  | PDivides => fun a b => negb (a =? 0) && (Z.rem b a =? 0)
  end.

(* ---------- specifications, for any cmp / eq ---------- *)
(* CompareFunc: the first non-zero cmp(s1[i], s2[i]); if there is none, the comparison of the lengths *)
Definition spec_compare_func (cmp : Z -> Z -> Z) (s1 s2 : list Z) : Z :=
  match find (fun p => negb (cmp (fst p) (snd p) =? 0)) (combine s1 s2) with
  | Some p => cmp (fst p) (snd p)
  | None => Z.sgn (Z.of_nat (length s1) - Z.of_nat (length s2))
  end.
(* EqualFunc: same length and eq(s1[i], s2[i]) for every i *)
Definition spec_equal_func (eq : Z -> Z -> bool) (s1 s2 : list Z) : bool :=
  Nat.eqb (length s1) (length s2) && forallb (fun p => eq (fst p) (snd p)) (combine s1 s2).

(* the calls: pairs (s1[i], s2[i]) in increasing i up to and including the first one that decides *)
Fixpoint take_until {A} (stop : A -> bool) (l : list A) : list A :=
  match l with [] => [] | x :: t => if stop x then [x] else x :: take_until stop t end.
Definition spec_compare_calls (cmp : Z -> Z -> Z) (s1 s2 : list Z) : list (Z * Z) :=
  take_until (fun p => negb (cmp (fst p) (snd p) =? 0)) (combine s1 s2).
Definition spec_equal_calls (eq : Z -> Z -> bool) (s1 s2 : list Z) : list (Z * Z) :=
  if Nat.eqb (length s1) (length s2) then take_until (fun p => negb (eq (fst p) (snd p))) (combine s1 s2) else [].

(* ---------- traced models (same recursion as Model.compare_func / equal_loop) ---------- *)
Fixpoint compare_func_tr (cmp : Z -> Z -> Z) (s1 s2 : list Z) : Z * list (Z * Z) :=
  match s1, s2 with
  | [], [] => (0, [])
  | [], _ :: _ => (-1, [])
  | _ :: _, [] => (1, [])
  | v1 :: t1, v2 :: t2 =>
      let c := cmp v1 v2 in
      if negb (c =? 0) then (c, [(v1, v2)])
      else let '(r, tr) := compare_func_tr cmp t1 t2 in (r, (v1, v2) :: tr)
  end.
Fixpoint equal_loop_tr (eq : Z -> Z -> bool) (s1 s2 : list Z) : bool * list (Z * Z) :=
  match s1, s2 with
  | [], _ => (true, [])
  | v1 :: t1, v2 :: t2 =>
      if negb (eq v1 v2) then (false, [(v1, v2)])
      else let '(r, tr) := equal_loop_tr eq t1 t2 in (r, (v1, v2) :: tr)
  | _ :: _, [] => (false, [])
  end.
Definition equal_func_tr (eq : Z -> Z -> bool) (s1 s2 : list Z) : bool * list (Z * Z) :=
  if negb (Nat.eqb (length s1) (length s2)) then (false, []) else equal_loop_tr eq s1 s2.

(* ---------- element types whose == is not reflexive ----------
   Equal / Compare / Index / Contains / IsSorted are defined element-wise through the element type's == and <.
   The runs also use float64 / float32 slices (NaN, +0 / -0, infinities), interfaces holding floats and structs
   with float fields. Their elements are sent as class codes: values that are == get the same code, codes of an
   ordered type increase with the native <, and every element that is not == to itself (NaN, a struct or interface
   holding NaN) gets the code -1. The element relations are then data: *)
Inductive elsel :=
| ENative      (* == and < are those of Z (integers, strings as ranks) *)
| EPartial.    (* code -1 is unequal to everything including itself and incomparable with everything (NaN) *)

Definition nan_code : Z := -1.
Definition eq_of (e : elsel) (a b : Z) : bool :=
  match e with ENative => a =? b | EPartial => (a =? b) && negb (a =? nan_code) end.
Definition lt_of (e : elsel) (a b : Z) : bool :=
  match e with ENative => a <? b | EPartial => (a <? b) && negb (a =? nan_code) && negb (b =? nan_code) end.

(* Compare's switch { case v1 < v2: -1; case v1 > v2: +1 } for a given < *)
Definition cmp3_by (lt : Z -> Z -> bool) (v1 v2 : Z) : Z := if lt v1 v2 then -1 else if lt v2 v1 then 1 else 0.
(* Index / Contains for a given ==  (for i := range s { if v == s[i] { return i } }; return -1) *)
Fixpoint index_from_by (eq : Z -> Z -> bool) (s : list Z) (v : Z) (i : Z) : Z :=
  match s with [] => -1 | x :: t => if eq v x then i else index_from_by eq t v (i + 1) end.
Definition index_by (eq : Z -> Z -> bool) (s : list Z) (v : Z) : Z := index_from_by eq s v 0.
Definition contains_by (eq : Z -> Z -> bool) (s : list Z) (v : Z) : bool := index_by eq s v >=? 0.

(* specification of Index: the number of leading elements that are not == v, or -1 when that is all of them *)
Definition spec_index (eq : Z -> Z -> bool) (s : list Z) (v : Z) : Z :=
  let k := count_while (fun x => negb (eq v x)) s in
  if k <? Z.of_nat (length s) then k else -1.

