(* C10 lemmas: swapRange, rotate (Gries-Mills block swap) and the two single-element shifts of symMerge realise the
   block rotation Rot of ProofsStableBase.v; indexes stay in range, the model's fuel S (b - a) suffices.
   Everything is proved on index maps: data'[x] = data[f x]. *)
From VF Require Import C10.SortModel C10.ProofsPerm C10.ProofsInsertion C10.ProofsFrame C10.ProofsStableBase.
Local Open Scope nat_scope.

(* index maps *)
Definition swp (a b y : nat) : nat := if y =? a then b else if y =? b then a else y.
Definition swf (a b k y : nat) : nat :=
  if y <? a then y else if y <? a + k then y + (b - a) else if y <? b then y else if y <? b + k then y - (b - a) else y.
Definition rotf (s m e x : nat) : nat :=
  if x <? s then x else if x <? s + (e - m) then x + (m - s) else if x <? e then x - (e - m) else x.

Ltac brk := repeat (match goal with
  | |- context [if (?x <? ?y) then _ else _] => destruct (Nat.ltb_spec x y)
  | |- context [if (?x =? ?y) then _ else _] => destruct (Nat.eqb_spec x y)
  end; try lia).

Lemma getd_swap_f d i j k : i < length d -> j < length d -> getd (swap 0%Z d i j) k = getd d (swp i j k).
Proof. intros Hi Hj. rewrite getd_swap by assumption. unfold swp. brk; reflexivity. Qed.

Lemma Rot_of_fun d d' s m e : s <= m -> m <= e ->
  length d' = length d -> (forall x, getd d' x = getd d (rotf s m e x)) -> Rot d d' s m e.
Proof.
  intros Hsm Hme L H. split; [exact L|]. split; [|split]; intros x H1; [|intros H2..]; rewrite H; unfold rotf; brk; reflexivity.
Qed.
Lemma Rot_fun d d' s m e : s <= m -> m <= e -> Rot d d' s m e -> forall x, getd d' x = getd d (rotf s m e x).
Proof.
  intros Hsm Hme R x. unfold rotf. brk.
  - apply (Rot_out _ _ _ _ _ R); lia.
  - apply (Rot_lo _ _ _ _ _ R); lia.
  - apply (Rot_hi _ _ _ _ _ R); lia.
  - apply (Rot_out _ _ _ _ _ R); lia.
Qed.

Lemma Rot_Fr s s' st m e : Rot (sd s) (sd s') st m e -> sbad s' = sbad s -> Pm s s' -> Fr st e s s'.
Proof. intros R B P. apply Fr_make; auto; [apply (Rot_len _ _ _ _ _ R)|apply (Rot_out _ _ _ _ _ R)]. Qed.

(* ---------- swapRange ---------- *)
Lemma swap_range_spec : forall k s a b, a + k <= b -> b + k <= length (sd s) ->
  let s' := swap_range k s a b in
  length (sd s') = length (sd s) /\ sbad s' = sbad s /\ (forall x, getd (sd s') x = getd (sd s) (swf a b k x)).
Proof.
  induction k as [|k IH]; intros s a b Hab Hb; cbn [swap_range].
  - split; [reflexivity|]. split; [reflexivity|]. intros x. f_equal. unfold swf. brk.
  - rewrite (swapAt_swap s a b) by lia. set (s1 := setd s (swap 0%Z (sd s) a b)).
    assert (L1 : length (sd s1) = length (sd s)) by apply swap_length.
    destruct (IH s1 (S a) (S b)) as (L & B & G); try lia.
    split; [lia|]. split; [exact B|]. intros x. rewrite G. cbn [sd s1 setd]. rewrite getd_swap_f by lia.
    f_equal. unfold swp, swf. brk.
Qed.

(* ---------- rotate ---------- *)
Lemma rotate_loop_spec : forall fuel s m i j,
  i + j <= fuel -> 1 <= i -> 1 <= j -> i <= m -> m + j <= length (sd s) ->
  let s' := rotate_loop fuel s m i j in
  length (sd s') = length (sd s) /\ sbad s' = sbad s /\
  (forall x, getd (sd s') x = getd (sd s) (rotf (m - i) m (m + j) x)).
Proof.
  induction fuel as [|f IH]; intros s m i j Hf Hi Hj Him Hlen; [lia|]. cbn [rotate_loop].
  destruct (Nat.eqb_spec i j) as [->|Hne].
  - destruct (swap_range_spec j s (m - j) m) as (L & B & G); try lia.
    split; [exact L|]. split; [exact B|]. intros x. rewrite G. f_equal. unfold swf, rotf. brk.
  - destruct (Nat.ltb_spec j i) as [Hji|Hji].
    + destruct (swap_range_spec j s (m - i) m) as (L1 & B1 & G1); try lia.
      set (s1 := swap_range j s (m - i) m) in *.
      destruct (IH s1 m (i - j) j) as (L & B & G); try lia.
      split; [lia|]. split; [congruence|]. intros x. rewrite G, G1. f_equal. unfold swf, rotf. brk.
    + destruct (swap_range_spec i s (m - i) (m + j - i)) as (L1 & B1 & G1); try lia.
      set (s1 := swap_range i s (m - i) (m + j - i)) in *.
      destruct (IH s1 m i (j - i)) as (L & B & G); try lia.
      split; [lia|]. split; [congruence|]. intros x. rewrite G, G1. f_equal. unfold swf, rotf. brk.
Qed.

Theorem rotate_spec s a m b : a < m -> m < b -> b <= length (sd s) ->
  let s' := rotate s a m b in Rot (sd s) (sd s') a m b /\ Fr a b s s'.
Proof.
  intros Ham Hmb Hb. unfold rotate.
  destruct (rotate_loop_spec (S (b - a)) s m (m - a) (b - m)) as (L & B & G); try lia.
  replace (m - (m - a)) with a in G by lia. replace (m + (b - m)) with b in G by lia.
  assert (R : Rot (sd s) (sd (rotate_loop (S (b - a)) s m (m - a) (b - m))) a m b) by (apply Rot_of_fun; auto; lia).
  split; [exact R|]. apply (Rot_Fr _ _ a m b R B). apply Pm_rotate_loop.
Qed.

(* ---------- the single-element shifts of symMerge ---------- *)
Lemma shift_up_spec : forall n s k, k + n < length (sd s) ->
  let s' := shift_up n s k in
  length (sd s') = length (sd s) /\ sbad s' = sbad s /\
  (forall x, getd (sd s') x = getd (sd s) (rotf k (k + 1) (k + n + 1) x)).
Proof.
  induction n as [|n IH]; intros s k Hk; cbn [shift_up].
  - split; [reflexivity|]. split; [reflexivity|]. intros x. f_equal. unfold rotf. brk.
  - rewrite (swapAt_swap s k (S k)) by lia. set (s1 := setd s (swap 0%Z (sd s) k (S k))).
    assert (L1 : length (sd s1) = length (sd s)) by apply swap_length.
    destruct (IH s1 (S k)) as (L & B & G); try lia.
    split; [lia|]. split; [exact B|]. intros x. rewrite G. cbn [sd s1 setd]. rewrite getd_swap_f by lia.
    f_equal. unfold swp, rotf. brk.
Qed.

Lemma shift_down_spec : forall n s k, n <= k -> k < length (sd s) ->
  let s' := shift_down n s k in
  length (sd s') = length (sd s) /\ sbad s' = sbad s /\
  (forall x, getd (sd s') x = getd (sd s) (rotf (k - n) k (k + 1) x)).
Proof.
  induction n as [|n IH]; intros s k Hn Hk; cbn [shift_down].
  - split; [reflexivity|]. split; [reflexivity|]. intros x. f_equal. unfold rotf. brk.
  - rewrite (swapAt_swap s k (Nat.pred k)) by lia. set (s1 := setd s (swap 0%Z (sd s) k (Nat.pred k))).
    assert (L1 : length (sd s1) = length (sd s)) by apply swap_length.
    destruct (IH s1 (Nat.pred k)) as (L & B & G); try lia.
    split; [lia|]. split; [exact B|]. intros x. rewrite G. cbn [sd s1 setd]. rewrite getd_swap_f by lia.
    f_equal. unfold swp, rotf. brk.
Qed.

Theorem shift_up_Rot s a i : a < i -> i <= length (sd s) ->
  let s' := shift_up (i - 1 - a) s a in Rot (sd s) (sd s') a (a + 1) i /\ Fr a i s s'.
Proof.
  intros Hai Hi. destruct (shift_up_spec (i - 1 - a) s a) as (L & B & G); try lia.
  replace (a + (i - 1 - a) + 1) with i in G by lia.
  assert (R : Rot (sd s) (sd (shift_up (i - 1 - a) s a)) a (a + 1) i) by (apply Rot_of_fun; auto; lia).
  split; [exact R|]. apply (Rot_Fr _ _ a (a + 1) i R B). apply Pm_shift_up.
Qed.
Theorem shift_down_Rot s i m : i <= m -> m < length (sd s) ->
  let s' := shift_down (m - i) s m in Rot (sd s) (sd s') i m (m + 1) /\ Fr i (m + 1) s s'.
Proof.
  intros Him Hm. destruct (shift_down_spec (m - i) s m) as (L & B & G); try lia.
  replace (m - (m - i)) with i in G by lia.
  assert (R : Rot (sd s) (sd (shift_down (m - i) s m)) i m (m + 1)) by (apply Rot_of_fun; auto; lia).
  split; [exact R|]. apply (Rot_Fr _ _ i m (m + 1) R B). apply Pm_shift_down.
Qed.
