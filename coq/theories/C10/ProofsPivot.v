(* C10 lemmas: choosePivot / median / medianAdjacent / order2 only compare in-range elements and return an index of
   the range; breakPatterns and reverseRange permute data[a:b] in place (indexes in range, nothing outside touched). *)
From VF Require Import C10.SortModel C10.ProofsPerm C10.ProofsInsertion C10.ProofsFrame.
From Coq Require Import ZifyNat.
Ltac Zify.zify_post_hook ::= Z.to_euclidean_division_equations.
Local Open Scope nat_scope.

Section Pivot.
Variable less : Z -> Z -> bool.

Lemma order2_spec s a b sw : a < length (sd s) -> b < length (sd s) ->
  let r := order2 less s a b sw in
  sd (snd r) = sd s /\ sbad (snd r) = sbad s /\
  ((fst (fst (fst r)) = a /\ snd (fst (fst r)) = b) \/ (fst (fst (fst r)) = b /\ snd (fst (fst r)) = a)).
Proof.
  intros Ha Hb. unfold order2. rewrite lessAt_in by assumption.
  destruct (less (getd (sd s) b) (getd (sd s) a)); cbn [fst snd sd sbad logc]; auto.
Qed.

Lemma median_spec s a b c sw : a < length (sd s) -> b < length (sd s) -> c < length (sd s) ->
  let r := median less s a b c sw in
  sd (snd r) = sd s /\ sbad (snd r) = sbad s /\ (fst (fst r) = a \/ fst (fst r) = b \/ fst (fst r) = c).
Proof.
  intros Ha Hb Hc. unfold median.
  pose proof (order2_spec s a b sw Ha Hb) as H1. destruct (order2 less s a b sw) as [[[a1 b1] sw1] s1].
  cbn [fst snd] in H1. destruct H1 as (E1 & B1 & O1).
  assert (Hb1 : b1 < length (sd s1)) by (rewrite E1; lia). assert (Hc1 : c < length (sd s1)) by (rewrite E1; lia).
  pose proof (order2_spec s1 b1 c sw1 Hb1 Hc1) as H2. destruct (order2 less s1 b1 c sw1) as [[[b2 c2] sw2] s2].
  cbn [fst snd] in H2. destruct H2 as (E2 & B2 & O2).
  assert (Ha1 : a1 < length (sd s2)) by (rewrite E2, E1; lia). assert (Hb2 : b2 < length (sd s2)) by (rewrite E2, E1; lia).
  pose proof (order2_spec s2 a1 b2 sw2 Ha1 Hb2) as H3. destruct (order2 less s2 a1 b2 sw2) as [[[a3 b3] sw3] s3].
  cbn [fst snd] in H3. destruct H3 as (E3 & B3 & O3). cbn [fst snd].
  split; [congruence|]. split; [congruence|]. lia.
Qed.

Theorem choose_pivot_spec s a b : a < b -> b <= length (sd s) ->
  let r := choose_pivot less s a b in
  sd (snd r) = sd s /\ sbad (snd r) = sbad s /\ a <= fst (fst r) /\ fst (fst r) < b.
Proof.
  intros Hab Hb. unfold choose_pivot.
  set (l := b - a). set (i := a + l / 4 * 1). set (j := a + l / 4 * 2). set (k := a + l / 4 * 3).
  match goal with |- context [let '(_, _) := ?e in _] => set (r := e) end.
  assert (E : sd (snd r) = sd s /\ sbad (snd r) = sbad s /\ a <= fst (fst r) /\ fst (fst r) < b).
  { unfold r. destruct (Nat.leb_spec 8 l) as [H8|H8]; [|cbn [fst snd]; unfold j, l; repeat split; lia].
    destruct (Nat.leb_spec 50 l) as [H50|H50].
    - unfold median_adjacent.
      assert (Hi : i + 1 < length (sd s) /\ 1 <= i) by (unfold i, l in *; lia).
      pose proof (median_spec (mark P_ninther s) (i - 1) i (i + 1) 0) as M1. cbn [sd mark] in M1.
      specialize (M1 ltac:(lia) ltac:(lia) ltac:(lia)).
      destruct (median less (mark P_ninther s) (i - 1) i (i + 1) 0) as [[i1 sw1] s1]. cbn [fst snd sbad mark] in M1.
      destruct M1 as (E1 & B1 & O1).
      assert (Hj : j + 1 < length (sd s) /\ 1 <= j) by (unfold j, l in *; lia).
      pose proof (median_spec s1 (j - 1) j (j + 1) sw1) as M2. rewrite E1 in M2.
      specialize (M2 ltac:(lia) ltac:(lia) ltac:(lia)).
      destruct (median less s1 (j - 1) j (j + 1) sw1) as [[j1 sw2] s2]. cbn [fst snd] in M2.
      destruct M2 as (E2 & B2 & O2).
      assert (Hk : k + 1 < length (sd s) /\ 1 <= k) by (unfold k, l in *; lia).
      pose proof (median_spec s2 (k - 1) k (k + 1) sw2) as M3. rewrite E2 in M3.
      specialize (M3 ltac:(lia) ltac:(lia) ltac:(lia)).
      destruct (median less s2 (k - 1) k (k + 1) sw2) as [[k1 sw3] s3]. cbn [fst snd] in M3.
      destruct M3 as (E3 & B3 & O3).
      pose proof (median_spec s3 i1 j1 k1 sw3) as M4. rewrite E3 in M4.
      specialize (M4 ltac:(lia) ltac:(lia) ltac:(lia)). cbv zeta in M4.
      destruct M4 as (E4 & B4 & O4).
      split; [congruence|]. split; [congruence|]. unfold i, j, k, l in *. lia.
    - pose proof (median_spec s i j k 0) as M4.
      specialize (M4 ltac:(unfold i, l in *; lia) ltac:(unfold j, l in *; lia) ltac:(unfold k, l in *; lia)).
      cbv zeta in M4. destruct M4 as (E4 & B4 & O4).
      split; [congruence|]. split; [congruence|]. unfold i, j, k, l in *. lia. }
  destruct r as [[j' swaps] s']. cbn [fst snd] in E. cbv beta iota.
  destruct (swaps =? 0); [exact E|]. destruct (swaps =? 12); exact E.
Qed.

End Pivot.

(* ---------- breakPatterns ---------- *)
Lemma bp_other_bound random e len :
  (0 <= e)%Z -> (0 < len)%Z -> (2 ^ e <= 2 * len)%Z ->
  let other := Z.land random (2 ^ e - 1) in
  let other' := if (other >=? len)%Z then (other - len)%Z else other in
  (0 <= other' < len)%Z.
Proof.
  intros He Hl Hp. cbv zeta.
  replace (2 ^ e - 1)%Z with (Z.ones e) by (rewrite Z.ones_equiv; lia).
  rewrite Z.land_ones by assumption.
  assert (H2 : (0 < 2 ^ e)%Z) by (apply Z.pow_pos_nonneg; lia).
  pose proof (Z.mod_pos_bound random (2 ^ e)%Z H2) as Hm.
  set (m := (random mod 2 ^ e)%Z) in *. clearbody m.
  destruct (Z.geb_spec m len); lia.
Qed.

Lemma bp_loop_Fr a b e len : (0 <= e)%Z -> len = Z.of_nat (b - a) -> (0 < len)%Z -> (2 ^ e <= 2 * len)%Z ->
  forall k s idx random, a <= idx -> idx + k <= b -> b <= length (sd s) ->
  Fr a b s (bp_loop k s a idx len (2 ^ e)%Z random).
Proof.
  intros He Hlen Hl Hp. induction k as [|k IH]; intros s idx random Hi Hk Hb; cbn [bp_loop]; [apply Fr_refl|].
  pose proof (bp_other_bound (xorshift_next random) e len He Hl Hp) as Ho. cbv zeta in Ho.
  set (o := if (Z.land (xorshift_next random) (2 ^ e - 1) >=? len)%Z
            then (Z.land (xorshift_next random) (2 ^ e - 1) - len)%Z else Z.land (xorshift_next random) (2 ^ e - 1)) in *.
  clearbody o.
  assert (F1 : Fr a b s (swapAt s idx (a + Z.to_nat o))) by (apply Fr_swapAt; lia).
  apply (Fr_trans _ _ _ _ _ F1). apply IH; try lia. rewrite (Fr_len _ _ _ _ F1). lia.
Qed.

Lemma next_pow2_bound n : (0 < n)%Z -> exists e, (0 <= e)%Z /\ next_pow2 n = (2 ^ e)%Z /\ (2 ^ e <= 2 * n)%Z.
Proof.
  intros Hn. unfold next_pow2, bits_len. destruct (Z.leb_spec n 0); [lia|].
  exists (Z.log2 n + 1)%Z. pose proof (Z.log2_nonneg n). split; [lia|]. split; [reflexivity|].
  rewrite Z.pow_add_r by lia. pose proof (Z.log2_spec n Hn). lia.
Qed.

Theorem break_patterns_Fr s a b : b <= length (sd s) -> Fr a b s (break_patterns s a b).
Proof.
  intros Hb. unfold break_patterns. destruct (Nat.leb_spec 8 (b - a)) as [H8|H8]; [|apply Fr_refl].
  destruct (next_pow2_bound (Z.of_nat (b - a)) ltac:(lia)) as (e & He & -> & Hp).
  apply (bp_loop_Fr a b e); auto; lia.
Qed.

(* ---------- reverseRange ---------- *)
Lemma rev_loop_Fr a b : forall k s i j, a <= i -> j < b -> b <= length (sd s) -> Fr a b s (rev_loop k s i j).
Proof.
  induction k as [|k IH]; intros s i j Hi Hj Hb; cbn [rev_loop]; [apply Fr_refl|].
  destruct (Nat.ltb_spec i j) as [Hij|Hij]; [|apply Fr_refl].
  assert (F1 : Fr a b s (swapAt s i j)) by (apply Fr_swapAt; lia).
  apply (Fr_trans _ _ _ _ _ F1). apply IH; try lia. rewrite (Fr_len _ _ _ _ F1). lia.
Qed.
Theorem reverse_range_Fr s a b : a < b -> b <= length (sd s) -> Fr a b s (reverse_range s a b).
Proof. intros Hab Hb. unfold reverse_range. apply rev_loop_Fr; lia. Qed.
