(* C10 main theorem for the stable sort: stable(data, n) of SortModel.v (insertionSort on blocks of 20, then rounds
   of symMerge on neighbouring blocks of doubling size) sorts every input for every strict weak order, without index
   panic, with the model's own fuel (S n per loop, 64 doublings, symMerge depth 64) for every n < 2^63, and is STABLE:
   every class of equivalent elements keeps its input order. *)
From VF Require Import C10.SortModel C10.ProofsPerm C10.ProofsInsertion C10.ProofsFrame C10.ProofsStableBase
  C10.ProofsRotate C10.ProofsSymMerge C10.Spec.
From Coq Require Import Sorted.
Local Open Scope nat_scope.

Section Stable.
Variable less : Z -> Z -> bool.
Hypothesis less_asym : forall a b, less a b = true -> less b a = false.
Hypothesis le_trans : forall a b c, less b a = false -> less c b = false -> less c a = false.
Notation le := (le less).
Notation sorted_range := (sorted_range less).
Notation SP := (StablePerm less).

(* data[lo:n] is tiled by sorted blocks of width w (the last one may be shorter) *)
Inductive Blocks (d : list Z) (w n : nat) : nat -> Prop :=
| B_end lo : n <= lo -> Blocks d w n lo
| B_step lo : lo < n -> sorted_range d lo (Nat.min (lo + w) n) -> Blocks d w n (lo + w) -> Blocks d w n lo.

Lemma Blocks_out w n s s' a b : Fr a b s s' -> forall lo, Blocks (sd s) w n lo -> b <= lo -> Blocks (sd s') w n lo.
Proof.
  intros F lo H. induction H as [lo Hlo|lo Hlo Hs Hb IH]; intros Hb'.
  - now apply B_end.
  - apply B_step; [exact Hlo| |apply IH; lia].
    apply (Fr_sorted_out less a b s s' _ _ F); [lia|exact Hs].
Qed.

Lemma sorted_empty d lo hi : hi <= lo -> sorted_range d lo hi.
Proof. intros H i j Hi Hij Hj. lia. Qed.

(* result of a range procedure: sorted blocks from [lo] on, frame, stability *)
Definition Good (w n lo : nat) (s s' : st) : Prop :=
  Blocks (sd s') w n lo /\ Fr lo n s s' /\ SP (sd s) (sd s').

Lemma ins_sort_spec s a b : a <= b -> b <= length (sd s) ->
  let s' := insertion_sort less s a b in
  sorted_range (sd s') a b /\ Fr a b s s' /\ SP (sd s) (sd s').
Proof.
  intros Hab Hb. pose proof (insertion_sort_sorted less less_asym le_trans s a b Hb) as (S1 & S2 & S3 & S4).
  split; [exact S1|]. split; [apply Fr_make; auto; apply Pm_insertion_sort|].
  now apply (SP_insertion_sort less le_trans).
Qed.

(* insertion-sort the blocks of width w from a on, then the remainder *)
Lemma st_blocks_spec w n : 0 < w -> forall fuel s a, n - a < fuel -> a <= n -> n <= length (sd s) ->
  let r := st_blocks less fuel s a (a + w) n w in
  let s' := insertion_sort less (snd r) (fst r) n in
  Good w n a s s'.
Proof.
  intros Hw. induction fuel as [|f IH]; intros s a Hf Han Hn; [lia|]. cbn [st_blocks].
  destruct (Nat.leb_spec (a + w) n) as [Hb|Hb].
  - destruct (ins_sort_spec s a (a + w) ltac:(lia) ltac:(lia)) as (S1 & F1 & P1).
    set (s1 := insertion_sort less s a (a + w)) in *.
    destruct (IH s1 (a + w)) as (B2 & F2 & P2); try lia. { rewrite (Fr_len _ _ _ _ F1). lia. }
    cbv zeta. set (s' := insertion_sort less _ _ n) in *.
    split; [|split].
    + apply B_step; [lia| |exact B2]. replace (Nat.min (a + w) n) with (a + w) by lia.
      apply (Fr_sorted_out less (a + w) n s1 s' _ _ F2); [lia|exact S1].
    + apply (Fr_trans _ _ _ s1); [apply (Fr_mono a (a + w)); [lia|lia|exact F1]|apply (Fr_mono (a + w) n); [lia|lia|exact F2]].
    + apply (SP_trans _ _ (sd s1)); assumption.
  - cbn [fst snd]. destruct (ins_sort_spec s a n Han Hn) as (S1 & F1 & P1).
    split; [|split; assumption].
    destruct (Nat.eq_dec a n) as [->|Hne]; [now apply B_end|].
    apply B_step; [lia| |apply B_end; lia]. replace (Nat.min (a + w) n) with n by lia. exact S1.
Qed.

(* one round: merge neighbouring blocks of width w from a on, then the leftover pair *)
Lemma st_pass_spec w n : 0 < w -> (Z.of_nat n < 2 ^ 63)%Z ->
  forall fuel s a, n - a < fuel -> a <= n -> n <= length (sd s) -> Blocks (sd s) w n a ->
  let r := st_merge_pass less fuel s a (a + 2 * w) n w in
  let s' := if fst r + w <? n then sym_merge less 64 (snd r) (fst r) (fst r + w) n else snd r in
  Good (2 * w) n a s s'.
Proof.
  intros Hw Hn63.
  assert (H64 : forall x, x <= n -> (Z.of_nat x <= 2 ^ Z.of_nat 64)%Z).
  { intros x Hx. change (Z.of_nat 64) with 64%Z. assert (2 ^ 63 < 2 ^ 64)%Z by reflexivity. lia. }
  induction fuel as [|f IH]; intros s a Hf Han Hn HB; [lia|]. cbn [st_merge_pass].
  destruct (Nat.leb_spec (a + 2 * w) n) as [Hb|Hb].
  - (* two full blocks: merge them and go on *)
    inversion HB as [lo Hlo|lo Hlo Hs1 HB1]; subst; [lia|].
    inversion HB1 as [lo Hlo'|lo Hlo' Hs2 HB2]; subst; [lia|].
    replace (Nat.min (a + w) n) with (a + w) in Hs1 by lia.
    replace (Nat.min (a + w + w) n) with (a + 2 * w) in Hs2 by lia.
    replace (a + w + w) with (a + 2 * w) in HB2 by lia.
    destruct (sym_merge_spec less less_asym le_trans 64 s a (a + w) (a + 2 * w)) as (S1 & F1 & P1); try lia; auto; try (apply H64; lia).
    set (s1 := sym_merge less 64 s a (a + w) (a + 2 * w)) in *.
    destruct (IH s1 (a + 2 * w)) as (B2 & F2 & P2); try lia.
    { rewrite (Fr_len _ _ _ _ F1). lia. }
    { apply (Blocks_out w n s s1 a (a + 2 * w) F1); [exact HB2|lia]. }
    cbv zeta. set (s' := if _ <? n then _ else _) in *.
    split; [|split].
    + apply B_step; [lia| |exact B2]. replace (Nat.min (a + 2 * w) n) with (a + 2 * w) by lia.
      apply (Fr_sorted_out less (a + 2 * w) n s1 s' _ _ F2); [lia|exact S1].
    + apply (Fr_trans _ _ _ s1); [apply (Fr_mono a (a + 2 * w)); [lia|lia|exact F1]|apply (Fr_mono (a + 2 * w) n); [lia|lia|exact F2]].
    + apply (SP_trans _ _ (sd s1)); assumption.
  - (* fewer than two full blocks left *)
    cbn [fst snd]. destruct (Nat.ltb_spec (a + w) n) as [Hm|Hm].
    + inversion HB as [lo Hlo|lo Hlo Hs1 HB1]; subst; [lia|].
      inversion HB1 as [lo Hlo'|lo Hlo' Hs2 HB2]; subst; [lia|].
      replace (Nat.min (a + w) n) with (a + w) in Hs1 by lia.
      replace (Nat.min (a + w + w) n) with n in Hs2 by lia.
      destruct (sym_merge_spec less less_asym le_trans 64 s a (a + w) n) as (S1 & F1 & P1); try lia; auto; try (apply H64; lia).
      split; [|split; assumption].
      apply B_step; [lia| |apply B_end; lia]. replace (Nat.min (a + 2 * w) n) with n by lia. exact S1.
    + split; [|split; [apply Fr_refl|apply SP_refl]].
      inversion HB as [lo Hlo|lo Hlo Hs1 HB1]; subst; [now apply B_end|].
      replace (Nat.min (a + w) n) with n in Hs1 by lia.
      apply B_step; [lia| |apply B_end; lia]. replace (Nat.min (a + 2 * w) n) with n by lia. exact Hs1.
Qed.

(* the rounds: fuel f + 1 suffices when n <= w * 2^f *)
Lemma st_passes_spec n : (Z.of_nat n < 2 ^ 63)%Z ->
  forall fuel s w, 0 < w -> (Z.of_nat n <= Z.of_nat w * 2 ^ Z.of_nat fuel)%Z -> n <= length (sd s) -> Blocks (sd s) w n 0 ->
  let s' := st_passes less (S fuel) s n w in
  sorted_range (sd s') 0 n /\ Fr 0 n s s' /\ SP (sd s) (sd s').
Proof.
  intros Hn63. induction fuel as [|f IH]; intros s w Hw Hf Hn HB; cbn [st_passes].
  - change (2 ^ Z.of_nat 0)%Z with 1%Z in Hf. destruct (Nat.ltb_spec w n) as [H|H]; [lia|].
    split; [|split; [apply Fr_refl|apply SP_refl]].
    inversion HB as [lo Hlo|lo Hlo Hs1 HB1]; subst; [now apply sorted_empty|].
    replace (Nat.min (0 + w) n) with n in Hs1 by lia. exact Hs1.
  - destruct (Nat.ltb_spec w n) as [H|H].
    + pose proof (st_pass_spec w n Hw Hn63 (S n) s 0 ltac:(lia) ltac:(lia) Hn HB) as HP. cbv zeta in HP.
      change (0 + 2 * w) with (2 * w) in HP.
      destruct (st_merge_pass less (S n) s 0 (2 * w) n w) as [a s1]. cbn [fst snd] in HP.
      destruct HP as (B1 & F1 & P1).
      set (s2 := if a + w <? n then sym_merge less 64 s1 a (a + w) n else s1) in *.
      rewrite Nat2Z.inj_succ, Z.pow_succ_r in Hf by lia.
      destruct (IH s2 (w * 2)) as (S3 & F3 & P3); try lia.
      { rewrite (Fr_len _ _ _ _ F1). exact Hn. }
      { replace (w * 2) with (2 * w) by lia. exact B1. }
      split; [exact S3|]. split; [apply (Fr_trans _ _ _ s2); assumption|apply (SP_trans _ _ (sd s2)); assumption].
    + split; [|split; [apply Fr_refl|apply SP_refl]].
      inversion HB as [lo Hlo|lo Hlo Hs1 HB1]; subst; [now apply sorted_empty|].
      replace (Nat.min (0 + w) n) with n in Hs1 by lia. exact Hs1.
Qed.

Theorem stable_spec s n : (Z.of_nat n < 2 ^ 63)%Z -> n <= length (sd s) ->
  let s' := stable less s n in
  sorted_range (sd s') 0 n /\ Fr 0 n s s' /\ SP (sd s) (sd s').
Proof.
  intros Hn63 Hn. unfold stable.
  pose proof (st_blocks_spec 20 n ltac:(lia) (S n) s 0 ltac:(lia) ltac:(lia) Hn) as HB. cbv zeta in HB.
  change (0 + 20) with 20 in HB.
  destruct (st_blocks less (S n) s 0 20 n 20) as [a s1]. cbn [fst snd] in HB. destruct HB as (B1 & F1 & P1).
  set (s2 := insertion_sort less s1 a n) in *.
  assert (Hf : (Z.of_nat (length (sd s)) >= 0)%Z) by lia.
  assert (H20 : (Z.of_nat n <= Z.of_nat 20 * 2 ^ Z.of_nat 63)%Z).
  { change (Z.of_nat 63) with 63%Z. change (Z.of_nat 20) with 20%Z. assert (0 < 2 ^ 63)%Z by reflexivity. lia. }
  assert (Hn2 : n <= length (sd s2)) by (rewrite (Fr_len _ _ _ _ F1); exact Hn).
  destruct (st_passes_spec n Hn63 63 s2 20 ltac:(lia) H20 Hn2 B1) as (S3 & F3 & P3).
  split; [exact S3|]. split; [apply (Fr_trans _ _ _ s2); assumption|apply (SP_trans _ _ (sd s2)); assumption].
Qed.

(* SortStableFunc on every input below 2^63 elements *)
Theorem sort_stable_func_sorted l : (Z.of_nat (length l) < 2 ^ 63)%Z ->
  let s := sort_stable_func less l in
  sbad s = false /\ StronglySorted le (sd s) /\ Permutation l (sd s) /\ StablePerm less l (sd s).
Proof.
  intros Hn. cbv zeta. unfold sort_stable_func.
  destruct (stable_spec (init l) (length l) Hn (le_n _)) as (S1 & F1 & P1).
  set (s := stable less (init l) (length l)) in *.
  pose proof (Fr_len _ _ _ _ F1) as L. cbn [sd init] in L.
  split; [rewrite (Fr_bad _ _ _ _ F1); reflexivity|]. split; [|split].
  - apply (sorted_range_all less). rewrite L. exact S1.
  - apply (Fr_pm _ _ _ _ F1).
  - exact P1.
Qed.

End Stable.

(* stability in the sense of Spec.Stable for the harness's key order *)
Lemma key_shiftl k : key (Z.shiftl k 20) = k.
Proof. unfold key. rewrite Z.shiftr_shiftl_l by lia. apply Z.shiftl_0_r. Qed.

Lemma StablePerm_key xs ys : Permutation xs ys -> StablePerm lt_key xs ys -> Stable xs ys.
Proof.
  intros P H. split; [exact P|]. intros k. specialize (H (Z.shiftl k 20)).
  assert (E : forall l, filter (eqv lt_key (Z.shiftl k 20)) l = filter (fun x => (key x =? k)%Z) l).
  { intros l. apply filter_ext. intros y. unfold eqv, lt_key. fold (key (Z.shiftl k 20)). fold (key y). rewrite key_shiftl.
    destruct (Z.ltb_spec k (key y)); destruct (Z.ltb_spec (key y) k); destruct (Z.eqb_spec (key y) k); cbn; try reflexivity; lia. }
  now rewrite <- !E.
Qed.
