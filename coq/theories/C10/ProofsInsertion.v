(* C10 lemmas: insertionSort(data, a, b) of SortModel.v sorts data[a:b] for any strict weak order, leaves the
   rest of the slice alone and never indexes out of range (b <= len). Port of notes/spikes/InsertionSort_spike.v
   to the state-passing model with a generic less. *)
From VF Require Import C10.SortModel C10.ProofsPerm.
From Coq Require Import Sorted.
Local Open Scope nat_scope.

Definition getd (d : list Z) (i : nat) : Z := nth i d 0%Z.

Lemma getd_swap d i j k : i < length d -> j < length d ->
  getd (swap 0%Z d i j) k = if k =? i then getd d j else if k =? j then getd d i else getd d k.
Proof.
  intros Hi Hj. unfold getd, swap.
  destruct (k =? j) eqn:Ej; [apply Nat.eqb_eq in Ej; subst|apply Nat.eqb_neq in Ej].
  - rewrite nth_upd_same by (rewrite upd_length; auto).
    destruct (j =? i) eqn:E; [apply Nat.eqb_eq in E; subst|]; reflexivity.
  - rewrite nth_upd_other by auto.
    destruct (k =? i) eqn:Ei; [apply Nat.eqb_eq in Ei; subst; now rewrite nth_upd_same|apply Nat.eqb_neq in Ei].
    now rewrite nth_upd_other by auto.
Qed.

Section Ins.
Variable less : Z -> Z -> bool.
Definition le (x y : Z) : Prop := less y x = false.
Hypothesis less_asym : forall a b, less a b = true -> less b a = false.
Hypothesis le_trans : forall a b c, le a b -> le b c -> le a c.

Lemma le_refl x : le x x.
Proof. unfold le. destruct (less x x) eqn:E; [|reflexivity]. pose proof (less_asym _ _ E). congruence. Qed.

(* in-range primitives *)
Lemma lessAt_in s i j : i < length (sd s) -> j < length (sd s) ->
  lessAt less s i j = (less (getd (sd s) i) (getd (sd s) j), logc s (getd (sd s) i) (getd (sd s) j)).
Proof.
  intros Hi Hj. unfold lessAt, getd.
  destruct (nth_error (sd s) i) as [x|] eqn:Ei; [|apply nth_error_None in Ei; lia].
  destruct (nth_error (sd s) j) as [y|] eqn:Ej; [|apply nth_error_None in Ej; lia].
  apply (nth_error_nth' _ _ _ 0%Z) in Ei as [Ei _]. apply (nth_error_nth' _ _ _ 0%Z) in Ej as [Ej _].
  now rewrite Ei, Ej.
Qed.

Definition sorted_range (d : list Z) (a b : nat) : Prop :=
  forall i j, a <= i -> i <= j -> j < b -> le (getd d i) (getd d j).

(* sorted on [a, i] except that position j may be too small for what is left of it *)
Definition almost (d : list Z) (a j i : nat) : Prop :=
  (forall p q, a <= p -> p <= q -> q <= i -> p <> j -> q <> j -> le (getd d p) (getd d q)) /\
  (forall q, j < q -> q <= i -> le (getd d j) (getd d q)).

Lemma ins_inner_spec a : forall j s i,
  a <= j -> j <= i -> i < length (sd s) -> almost (sd s) a j i ->
  let s' := ins_inner less a j s in
  sorted_range (sd s') a (S i) /\ length (sd s') = length (sd s) /\
  (forall k, (k < a \/ i < k) -> getd (sd s') k = getd (sd s) k) /\ sbad s' = sbad s.
Proof.
  induction j as [|j IH]; intros s i Ha Hji Hi [H1 H2].
  - cbn [ins_inner]. repeat split; auto. intros p q Hp Hpq Hq.
    destruct (Nat.eq_dec p 0) as [->|Hp0].
    + destruct (Nat.eq_dec q 0) as [->|Hq0]; [apply le_refl|apply H2; lia].
    + apply H1; lia.
  - cbn [ins_inner].
    destruct (a <? S j) eqn:Ea; [apply Nat.ltb_lt in Ea|apply Nat.ltb_ge in Ea].
    + rewrite lessAt_in by lia.
      set (d := sd s) in *.
      destruct (less (getd d (S j)) (getd d j)) eqn:El.
      * (* swap and continue *)
        set (s1 := logc s (getd d (S j)) (getd d j)).
        assert (Hd1 : sd s1 = d) by reflexivity.
        rewrite (swapAt_swap s1 (S j) j) by (rewrite Hd1; lia).
        set (s2 := setd s1 (swap 0%Z (sd s1) (S j) j)).
        assert (Hd2 : sd s2 = swap 0%Z d (S j) j) by reflexivity.
        assert (Hlen2 : length (sd s2) = length d) by (rewrite Hd2; apply swap_length).
        assert (Hlt : le (getd d (S j)) (getd d j)) by (unfold le; now apply less_asym).
        destruct (IH s2 i) as (S1 & S2 & S3 & S4); try lia.
        { split.
          - intros p q Hp Hpq Hq Hpj Hqj. rewrite Hd2, !getd_swap by lia.
            destruct (p =? S j) eqn:E1; [apply Nat.eqb_eq in E1; subst p|apply Nat.eqb_neq in E1].
            + destruct (q =? S j) eqn:E2; [apply le_refl|apply Nat.eqb_neq in E2].
              destruct (q =? j) eqn:E3; [apply Nat.eqb_eq in E3; lia|].
              apply H1; lia.
            + destruct (p =? j) eqn:E4; [apply Nat.eqb_eq in E4; lia|apply Nat.eqb_neq in E4].
              destruct (q =? S j) eqn:E2; [apply Nat.eqb_eq in E2; subst q; apply H1; lia|apply Nat.eqb_neq in E2].
              destruct (q =? j) eqn:E3; [apply Nat.eqb_eq in E3; lia|].
              apply H1; lia.
          - intros q Hq Hqi. rewrite Hd2, !getd_swap by lia. rewrite Nat.eqb_refl.
            assert (Ejs : (j =? S j) = false) by (apply Nat.eqb_neq; lia). rewrite Ejs.
            destruct (q =? S j) eqn:E2; [apply Nat.eqb_eq in E2; subst q; exact Hlt|apply Nat.eqb_neq in E2].
            assert (Eqj : (q =? j) = false) by (apply Nat.eqb_neq; lia). rewrite Eqj.
            apply H2; lia. }
        repeat split.
        -- exact S1.
        -- rewrite S2. exact Hlen2.
        -- intros k Hk. rewrite S3 by auto. rewrite Hd2, getd_swap by lia.
           assert (Ek1 : (k =? S j) = false) by (apply Nat.eqb_neq; lia).
           assert (Ek2 : (k =? j) = false) by (apply Nat.eqb_neq; lia). now rewrite Ek1, Ek2.
        -- rewrite S4. reflexivity.
      * (* already in place *)
        cbn [sd logc sbad]. fold d. repeat split; auto. intros p q Hp Hpq Hq.
        destruct (Nat.eq_dec p (S j)) as [->|Hpj].
        { destruct (Nat.eq_dec q (S j)) as [->|]; [apply le_refl|apply H2; lia]. }
        destruct (Nat.eq_dec q (S j)) as [->|Hqj]; [|apply H1; lia].
        destruct (Nat.eq_dec p j) as [->|]; [exact El|].
        apply (le_trans _ (getd d j)); [apply H1; lia|exact El].
    + (* j + 1 = a: nothing to the left *)
      assert (a = S j) by lia. subst a.
      repeat split; auto. intros p q Hp Hpq Hq.
      destruct (Nat.eq_dec p (S j)) as [->|]; [destruct (Nat.eq_dec q (S j)) as [->|]; [apply le_refl|apply H2; lia]|].
      apply H1; lia.
Qed.

Lemma ins_outer_spec a : forall k i s,
  a < i -> i + k <= length (sd s) -> sorted_range (sd s) a i ->
  let s' := ins_outer less a i k s in
  sorted_range (sd s') a (i + k) /\ length (sd s') = length (sd s) /\
  (forall x, (x < a \/ i + k <= x) -> getd (sd s') x = getd (sd s) x) /\ sbad s' = sbad s.
Proof.
  induction k as [|k IH]; intros i s Hai Hlen Hs.
  - cbn [ins_outer]. rewrite Nat.add_0_r. auto.
  - cbn [ins_outer].
    destruct (ins_inner_spec a i s i) as (S1 & S2 & S3 & S4); try lia.
    { split.
      - intros p q Hp Hpq Hq Hpi Hqi. apply Hs; lia.
      - intros q Hq Hqi. lia. }
    destruct (IH (S i) (ins_inner less a i s)) as (T1 & T2 & T3 & T4); try lia; auto.
    repeat split.
    + replace (i + S k) with (S i + k) by lia. exact T1.
    + lia.
    + intros x Hx. rewrite T3 by lia. apply S3. lia.
    + congruence.
Qed.

Theorem insertion_sort_sorted s a b :
  b <= length (sd s) ->
  let s' := insertion_sort less s a b in
  sorted_range (sd s') a b /\ length (sd s') = length (sd s) /\
  (forall x, (x < a \/ b <= x) -> getd (sd s') x = getd (sd s) x) /\ sbad s' = sbad s.
Proof.
  intros Hb. unfold insertion_sort.
  destruct (Nat.lt_ge_cases a b) as [Hab|Hab].
  - destruct (ins_outer_spec a (b - S a) (S a) s) as (S1 & S2 & S3 & S4); try lia.
    { intros i j Hi Hij Hj. assert (i = j) by lia. subst. apply le_refl. }
    replace (S a + (b - S a)) with b in * by lia. auto.
  - replace (b - S a) with 0 by lia. cbn [ins_outer]. repeat split; auto. intros i j Hi Hij Hj. lia.
Qed.

(* pointwise sortedness of a whole list is StronglySorted *)
Lemma sorted_range_all d : sorted_range d 0 (length d) -> StronglySorted le d.
Proof.
  induction d as [|x t IH]; intros H; [constructor|]. constructor.
  - apply IH. intros i j Hi Hij Hj. apply (H (S i) (S j)); cbn [length]; lia.
  - rewrite Forall_forall. intros y Hy. apply (In_nth _ _ 0%Z) in Hy as (k & Hk & <-).
    apply (H 0 (S k)); cbn [length]; lia.
Qed.

(* the short-input path of SortFunc / Sort: n <= 12 goes straight to insertion sort *)
Theorem sort_func_short_sorted l : length l <= 12 ->
  StronglySorted le (sd (sort_func less l)) /\ sbad (sort_func less l) = false.
Proof.
  intros Hn. unfold sort_func. cbn [pdqsort]. rewrite Nat.sub_0_r.
  replace (length l <=? 12) with true by (symmetry; now apply Nat.leb_le).
  pose proof (insertion_sort_sorted (mark P_insertion (init l)) 0 (length l) (le_n _)) as (S1 & S2 & _ & S4).
  cbv zeta in *. split; [|exact S4].
  apply sorted_range_all. cbn [sd mark init] in S2. rewrite S2. exact S1.
Qed.

End Ins.
