(* C10 lemmas: every function of SortModel.v leaves the slice a permutation of what it was, for every
   input, every less (no order hypothesis), every index argument and every amount of fuel: the only
   operation that writes the slice is swapAt on two in-range indexes. *)
From VF Require Import C10.SortModel.
Local Open Scope Z_scope.

Definition Pm (s s' : st) : Prop := Permutation (sd s) (sd s').
Lemma Pm_refl s : Pm s s. Proof. apply Permutation_refl. Qed.
Lemma Pm_trans s1 s2 s3 : Pm s1 s2 -> Pm s2 s3 -> Pm s1 s3. Proof. apply perm_trans. Qed.
Lemma Pm_eq s s' : sd s' = sd s -> Pm s s'. Proof. unfold Pm. intros ->. reflexivity. Qed.

Lemma sd_bad s : sd (bad s) = sd s. Proof. reflexivity. Qed.
Lemma sd_mark k s : sd (mark k s) = sd s. Proof. reflexivity. Qed.
Lemma sd_logc s x y : sd (logc s x y) = sd s. Proof. reflexivity. Qed.
Lemma Pm_mark k s : Pm s (mark k s). Proof. now apply Pm_eq. Qed.
Lemma Pm_bad s : Pm s (bad s). Proof. now apply Pm_eq. Qed.

Lemma nth_error_nth' {A} (l : list A) i x d : nth_error l i = Some x -> nth i l d = x /\ (i < length l)%nat.
Proof.
  revert i; induction l as [|a l IH]; intros [|i] H; cbn in *; try discriminate.
  - inversion H; subst. split; [reflexivity|lia].
  - destruct (IH i H). split; [assumption|lia].
Qed.

Section Perm.
Variable less : Z -> Z -> bool.

Lemma sd_lessAt s i j : sd (snd (lessAt less s i j)) = sd s.
Proof. unfold lessAt. destruct (nth_error (sd s) i), (nth_error (sd s) j); reflexivity. Qed.
Lemma sd_nlessAt s i j : sd (snd (nlessAt less s i j)) = sd s.
Proof. unfold nlessAt. pose proof (sd_lessAt s i j). destruct (lessAt less s i j). exact H. Qed.

Lemma swapAt_swap s i j : (i < length (sd s))%nat -> (j < length (sd s))%nat ->
  swapAt s i j = setd s (swap 0 (sd s) i j).
Proof.
  intros Hi Hj. unfold swapAt.
  destruct (nth_error (sd s) i) as [x|] eqn:Ei; [|apply nth_error_None in Ei; lia].
  destruct (nth_error (sd s) j) as [y|] eqn:Ej; [|apply nth_error_None in Ej; lia].
  apply (nth_error_nth' _ _ _ 0) in Ei as [Ei _]. apply (nth_error_nth' _ _ _ 0) in Ej as [Ej _].
  unfold swap. now rewrite Ei, Ej.
Qed.

Lemma Pm_swapAt s i j : Pm s (swapAt s i j).
Proof.
  unfold Pm, swapAt.
  destruct (nth_error (sd s) i) as [x|] eqn:Ei; [|reflexivity].
  destruct (nth_error (sd s) j) as [y|] eqn:Ej; [|reflexivity].
  apply (nth_error_nth' _ _ _ 0) in Ei as [Ei Hi]. apply (nth_error_nth' _ _ _ 0) in Ej as [Ej Hj].
  cbn [sd setd]. apply Permutation_sym. rewrite <- Ei, <- Ej. apply (swap_perm 0); assumption.
Qed.

Ltac pm_trans := eapply Pm_trans.

(* a test is a function that may log but does not write the slice *)
Definition is_test (f : st -> nat -> bool * st) := forall s i, sd (snd (f s i)) = sd s.
Lemma test_lessAt_l a : is_test (fun s i => lessAt less s i a). Proof. intros s i. apply sd_lessAt. Qed.
Lemma test_lessAt_r a : is_test (fun s i => lessAt less s a i). Proof. intros s i. apply sd_lessAt. Qed.
Lemma test_nlessAt_l a : is_test (fun s i => nlessAt less s i a). Proof. intros s i. apply sd_nlessAt. Qed.
Lemma test_nlessAt_r a : is_test (fun s i => nlessAt less s a i). Proof. intros s i. apply sd_nlessAt. Qed.

(* ---------- insertion sort ---------- *)
Lemma Pm_ins_inner a : forall j s, Pm s (ins_inner less a j s).
Proof.
  induction j as [|j IH]; intros s; cbn [ins_inner]; [apply Pm_refl|].
  destruct (a <? S j)%nat; [|apply Pm_refl].
  pose proof (sd_lessAt s (S j) j) as E. destruct (lessAt less s (S j) j) as [c s1]. cbn [snd] in E.
  destruct c; [|now apply Pm_eq].
  pm_trans; [apply Pm_eq; exact E|]. pm_trans; [apply Pm_swapAt|apply IH].
Qed.
Lemma Pm_ins_outer a : forall k i s, Pm s (ins_outer less a i k s).
Proof.
  induction k as [|k IH]; intros i s; cbn [ins_outer]; [apply Pm_refl|].
  pm_trans; [apply Pm_ins_inner|apply IH].
Qed.
Lemma Pm_insertion_sort s a b : Pm s (insertion_sort less s a b).
Proof. apply Pm_ins_outer. Qed.

(* ---------- heap sort ---------- *)
Lemma Pm_sift_down : forall fuel s root hi first, Pm s (sift_down less fuel s root hi first).
Proof.
  induction fuel as [|f IH]; intros s root hi first; cbn [sift_down]; [apply Pm_bad|].
  destruct (hi <=? 2 * root + 1)%nat; [apply Pm_refl|].
  set (r1 := if (2 * root + 1 + 1 <? hi)%nat then lessAt less s (first + (2 * root + 1)) (first + (2 * root + 1) + 1) else (false, s)).
  assert (E1 : sd (snd r1) = sd s) by (unfold r1; destruct (2 * root + 1 + 1 <? hi)%nat; [apply sd_lessAt|reflexivity]).
  destruct r1 as [c1 s1]. cbn [snd] in E1. cbv beta iota.
  set (child' := if c1 then (2 * root + 1 + 1)%nat else (2 * root + 1)%nat).
  pose proof (sd_lessAt s1 (first + root) (first + child')) as E2.
  destruct (lessAt less s1 (first + root) (first + child')) as [c2 s2]. cbn [snd] in E2.
  destruct c2; cbn [negb].
  - apply (Pm_trans _ s2); [apply Pm_eq; congruence|]. pm_trans; [apply Pm_swapAt|apply IH].
  - apply Pm_eq. congruence.
Qed.
Lemma Pm_heap_build : forall k s hi first, Pm s (heap_build less k s hi first).
Proof.
  induction k as [|k IH]; intros s hi first; cbn [heap_build]; [apply Pm_refl|].
  pm_trans; [apply Pm_sift_down|apply IH].
Qed.
Lemma Pm_heap_pop : forall k s first, Pm s (heap_pop less k s first).
Proof.
  induction k as [|k IH]; intros s first; cbn [heap_pop]; [apply Pm_refl|].
  pm_trans; [apply Pm_swapAt|]. pm_trans; [apply Pm_sift_down|apply IH].
Qed.
Lemma Pm_heap_sort s a b : Pm s (heap_sort less s a b).
Proof. unfold heap_sort. pm_trans; [apply Pm_heap_build|apply Pm_heap_pop]. Qed.

(* ---------- partitions ---------- *)
Lemma sd_scan_i f : is_test f -> forall k s i j, sd (snd (scan_i k f s i j)) = sd s.
Proof.
  intros Hf. induction k as [|k IH]; intros s i j; cbn [scan_i]; [reflexivity|].
  destruct (i <=? j)%nat; [|reflexivity].
  pose proof (Hf s i) as E. destruct (f s i) as [c s1]. cbn [snd] in E.
  destruct c; [rewrite IH|]; exact E.
Qed.
Lemma sd_scan_j g : is_test g -> forall k s i j, sd (snd (scan_j k g s i j)) = sd s.
Proof.
  intros Hg. induction k as [|k IH]; intros s i j; cbn [scan_j]; [reflexivity|].
  destruct (i <=? j)%nat; [|reflexivity].
  pose proof (Hg s j) as E. destruct (g s j) as [c s1]. cbn [snd] in E.
  destruct c; [rewrite IH|]; exact E.
Qed.

Lemma Pm_part_loop f g : is_test f -> is_test g -> forall fuel s i j, Pm s (snd (part_loop fuel f g s i j)).
Proof.
  intros Hf Hg. induction fuel as [|fu IH]; intros s i j; cbn [part_loop]; [apply Pm_bad|].
  pose proof (sd_scan_i f Hf (span i j) s i j) as E1. destruct (scan_i (span i j) f s i j) as [i1 s1]. cbn [snd] in E1.
  pose proof (sd_scan_j g Hg (span i1 j) s1 i1 j) as E2. destruct (scan_j (span i1 j) g s1 i1 j) as [j1 s2]. cbn [snd] in E2.
  destruct (j1 <? i1)%nat.
  - cbn [snd]. apply Pm_eq. congruence.
  - apply (Pm_trans _ s2); [apply Pm_eq; congruence|]. pm_trans; [apply Pm_swapAt|apply IH].
Qed.

Lemma Pm_partition s a b pivot : Pm s (snd (partition less s a b pivot)).
Proof.
  unfold partition.
  set (f := fun s i => lessAt less s i a). set (g := fun s j => nlessAt less s j a).
  assert (Hf : is_test f) by apply test_lessAt_l. assert (Hg : is_test g) by apply test_nlessAt_l.
  set (s0 := swapAt s a pivot).
  pose proof (sd_scan_i f Hf (span (a + 1) (b - 1)) s0 (a + 1) (b - 1)) as E1.
  destruct (scan_i (span (a + 1) (b - 1)) f s0 (a + 1) (b - 1)) as [i1 s1]. cbn [snd] in E1.
  pose proof (sd_scan_j g Hg (span i1 (b - 1)) s1 i1 (b - 1)) as E2.
  destruct (scan_j (span i1 (b - 1)) g s1 i1 (b - 1)) as [j1 s2]. cbn [snd] in E2.
  assert (P2 : Pm s s2) by (apply (Pm_trans _ s0); [apply Pm_swapAt|apply Pm_eq; congruence]).
  destruct (j1 <? i1)%nat.
  - cbn [snd]. pm_trans; [exact P2|apply Pm_swapAt].
  - pose proof (Pm_part_loop f g Hf Hg (S (b - a)) (swapAt s2 i1 j1) (S i1) (pred j1)) as P3.
    destruct (part_loop (S (b - a)) f g (swapAt s2 i1 j1) (S i1) (pred j1)) as [[i2 j2] s4]. cbn [snd] in *.
    pm_trans; [exact P2|]. pm_trans; [apply Pm_swapAt|]. pm_trans; [exact P3|apply Pm_swapAt].
Qed.

Lemma Pm_partition_equal s a b pivot : Pm s (snd (partition_equal less s a b pivot)).
Proof.
  unfold partition_equal.
  set (f := fun s i => nlessAt less s a i). set (g := fun s j => lessAt less s a j).
  assert (Hf : is_test f) by apply test_nlessAt_r. assert (Hg : is_test g) by apply test_lessAt_r.
  pose proof (Pm_part_loop f g Hf Hg (S (b - a)) (swapAt s a pivot) (a + 1) (b - 1)) as P.
  destruct (part_loop (S (b - a)) f g (swapAt s a pivot) (a + 1) (b - 1)) as [[i1 j1] s1]. cbn [snd] in *.
  pm_trans; [apply Pm_swapAt|exact P].
Qed.

(* ---------- partial insertion sort ---------- *)
Lemma sd_pis_scan : forall k s i b, sd (snd (pis_scan less k s i b)) = sd s.
Proof.
  induction k as [|k IH]; intros s i b; cbn [pis_scan]; [reflexivity|].
  destruct (i <? b)%nat; [|reflexivity].
  pose proof (sd_nlessAt s i (pred i)) as E. destruct (nlessAt less s i (pred i)) as [c s1]. cbn [snd] in E.
  destruct c; [rewrite IH|]; exact E.
Qed.
Lemma Pm_pis_left : forall j s, Pm s (pis_left less j s).
Proof.
  induction j as [|j IH]; intros s; cbn [pis_left]; [apply Pm_refl|].
  pose proof (sd_nlessAt s (S j) j) as E. destruct (nlessAt less s (S j) j) as [c s1]. cbn [snd] in E.
  destruct c; [now apply Pm_eq|]. pm_trans; [apply Pm_eq; exact E|]. pm_trans; [apply Pm_swapAt|apply IH].
Qed.
Lemma Pm_pis_right : forall k j s, Pm s (pis_right less k j s).
Proof.
  induction k as [|k IH]; intros j s; cbn [pis_right]; [apply Pm_refl|].
  pose proof (sd_nlessAt s j (pred j)) as E. destruct (nlessAt less s j (pred j)) as [c s1]. cbn [snd] in E.
  destruct c; [now apply Pm_eq|]. pm_trans; [apply Pm_eq; exact E|]. pm_trans; [apply Pm_swapAt|apply IH].
Qed.
Lemma Pm_pis_loop : forall steps s a b i, Pm s (snd (pis_loop less steps s a b i)).
Proof.
  induction steps as [|st IH]; intros s a b i; cbn [pis_loop]; [apply Pm_refl|].
  pose proof (sd_pis_scan (S (b - i)) s i b) as E. destruct (pis_scan less (S (b - i)) s i b) as [i1 s1]. cbn [snd] in E.
  destruct (i1 =? b)%nat; [now apply Pm_eq|]. destruct (b - a <? 50)%nat; [now apply Pm_eq|].
  pm_trans; [apply Pm_eq; exact E|]. pm_trans; [|apply IH].
  set (s2 := mark P_partial_shift (swapAt s1 i1 (pred i1))).
  assert (P2 : Pm s1 s2) by (unfold s2; pm_trans; [apply Pm_swapAt|apply Pm_mark]).
  set (s3 := if (2 <=? i1 - a)%nat then pis_left less (i1 - 1) s2 else s2).
  assert (P3 : Pm s2 s3) by (unfold s3; destruct (2 <=? i1 - a)%nat; [apply Pm_pis_left|apply Pm_refl]).
  pm_trans; [exact P2|]. pm_trans; [exact P3|].
  destruct (2 <=? b - i1)%nat; [apply Pm_pis_right|apply Pm_refl].
Qed.
Lemma Pm_partial_insertion_sort s a b : Pm s (snd (partial_insertion_sort less s a b)).
Proof. apply Pm_pis_loop. Qed.

(* ---------- break patterns, choose pivot, reverse ---------- *)
Lemma Pm_bp_loop : forall k s a idx length modulus random, Pm s (bp_loop k s a idx length modulus random).
Proof.
  induction k as [|k IH]; intros; cbn [bp_loop]; [apply Pm_refl|]. pm_trans; [apply Pm_swapAt|apply IH].
Qed.
Lemma Pm_break_patterns s a b : Pm s (break_patterns s a b).
Proof. unfold break_patterns. destruct (8 <=? b - a)%nat; [apply Pm_bp_loop|apply Pm_refl]. Qed.

Lemma sd_order2 s a b sw : sd (snd (order2 less s a b sw)) = sd s.
Proof.
  unfold order2. pose proof (sd_lessAt s b a) as E. destruct (lessAt less s b a) as [c s1]. cbn [snd] in E.
  now destruct c.
Qed.
Lemma sd_median s a b c sw : sd (snd (median less s a b c sw)) = sd s.
Proof.
  unfold median.
  pose proof (sd_order2 s a b sw) as E1. destruct (order2 less s a b sw) as [[[a1 b1] sw1] s1]. cbn [snd] in E1.
  pose proof (sd_order2 s1 b1 c sw1) as E2. destruct (order2 less s1 b1 c sw1) as [[[b2 c2] sw2] s2]. cbn [snd] in E2.
  pose proof (sd_order2 s2 a1 b2 sw2) as E3. destruct (order2 less s2 a1 b2 sw2) as [[[a3 b3] sw3] s3]. cbn [snd] in *.
  congruence.
Qed.
Lemma sd_choose_pivot s a b : sd (snd (choose_pivot less s a b)) = sd s.
Proof.
  unfold choose_pivot.
  set (l := (b - a)%nat). set (i := (a + l / 4 * 1)%nat). set (j := (a + l / 4 * 2)%nat). set (k := (a + l / 4 * 3)%nat).
  match goal with |- context [let '(_, _) := ?e in _] => set (r := e) end.
  assert (E : sd (snd r) = sd s).
  { unfold r. destruct (8 <=? l)%nat; [|reflexivity].
    destruct (50 <=? l)%nat.
    - unfold median_adjacent.
      pose proof (sd_median (mark P_ninther s) (i - 1) i (i + 1) 0) as E1.
      destruct (median less (mark P_ninther s) (i - 1) i (i + 1) 0) as [[i1 sw1] s1]. cbn [snd] in E1.
      pose proof (sd_median s1 (j - 1) j (j + 1) sw1) as E2.
      destruct (median less s1 (j - 1) j (j + 1) sw1) as [[j1 sw2] s2]. cbn [snd] in E2.
      pose proof (sd_median s2 (k - 1) k (k + 1) sw2) as E3.
      destruct (median less s2 (k - 1) k (k + 1) sw2) as [[k1 sw3] s3]. cbn [snd] in E3.
      rewrite sd_median. rewrite E3, E2, E1. reflexivity.
    - apply sd_median. }
  destruct r as [[j' swaps] s']. cbn [snd] in E. cbv beta iota.
  destruct (swaps =? 0)%nat; [exact E|]. destruct (swaps =? 12)%nat; exact E.
Qed.

Lemma Pm_rev_loop : forall k s i j, Pm s (rev_loop k s i j).
Proof.
  induction k as [|k IH]; intros; cbn [rev_loop]; [apply Pm_refl|].
  destruct (i <? j)%nat; [|apply Pm_refl]. pm_trans; [apply Pm_swapAt|apply IH].
Qed.
Lemma Pm_reverse_range s a b : Pm s (reverse_range s a b).
Proof. apply Pm_rev_loop. Qed.

(* ---------- pdqsort ---------- *)
Lemma Pm_pdqsort : forall fuel s a b limit wb wp, Pm s (pdqsort less fuel s a b limit wb wp).
Proof.
  induction fuel as [|fu IH]; intros s a b limit wb wp; cbn [pdqsort]; [apply Pm_bad|].
  destruct (b - a <=? 12)%nat; [pm_trans; [apply Pm_mark|apply Pm_insertion_sort]|].
  destruct (limit =? 0)%nat; [pm_trans; [apply Pm_mark|apply Pm_heap_sort]|].
  set (r1 := if negb wb then (break_patterns (mark P_breakpatterns s) a b, pred limit) else (s, limit)).
  assert (P1 : Pm s (fst r1)).
  { unfold r1. destruct (negb wb); cbn [fst]; [|apply Pm_refl]. pm_trans; [apply Pm_mark|apply Pm_break_patterns]. }
  destruct r1 as [s1 limit1]. cbn [fst] in P1. cbv beta iota.
  pose proof (sd_choose_pivot s1 a b) as E2. destruct (choose_pivot less s1 a b) as [[pivot hnt] s2]. cbn [snd] in E2.
  set (r3 := if is_decreasing hnt then (reverse_range (mark P_reverse s2) a b, (b - 1 - (pivot - a))%nat, IncreasingHint) else (s2, pivot, hnt)).
  assert (P3 : Pm s2 (fst (fst r3))).
  { unfold r3. destruct (is_decreasing hnt); cbn [fst]; [|apply Pm_refl]. pm_trans; [apply Pm_mark|apply Pm_reverse_range]. }
  destruct r3 as [[s3 pivot1] hnt1]. cbn [fst] in P3. cbv beta iota.
  set (r4 := if wb && wp && is_increasing hnt1
             then let '(r, s') := partial_insertion_sort less s3 a b in (r, mark (if r then P_partial_true else P_partial_false) s')
             else (false, s3)).
  assert (P4 : Pm s3 (snd r4)).
  { unfold r4. destruct (wb && wp && is_increasing hnt1); [|apply Pm_refl].
    pose proof (Pm_partial_insertion_sort s3 a b) as P. destruct (partial_insertion_sort less s3 a b) as [r s']. cbn [snd] in *.
    pm_trans; [exact P|apply Pm_mark]. }
  destruct r4 as [done s4]. cbn [snd] in P4. cbv beta iota.
  assert (P04 : Pm s s4).
  { pm_trans; [exact P1|]. pm_trans; [apply Pm_eq; exact E2|]. pm_trans; [exact P3|exact P4]. }
  destruct done; [exact P04|].
  set (r5 := if (0 <? a)%nat then nlessAt less s4 (a - 1) pivot1 else (false, s4)).
  assert (E5 : sd (snd r5) = sd s4) by (unfold r5; destruct (0 <? a)%nat; [apply sd_nlessAt|reflexivity]).
  destruct r5 as [peq s5]. cbn [snd] in E5. cbv beta iota.
  assert (P05 : Pm s s5) by (pm_trans; [exact P04|now apply Pm_eq]).
  destruct peq.
  - pose proof (Pm_partition_equal (mark P_partition_equal s5) a b pivot1) as P6.
    destruct (partition_equal less (mark P_partition_equal s5) a b pivot1) as [mid s6]. cbn [snd] in P6.
    pm_trans; [exact P05|]. pm_trans; [apply Pm_mark|]. pm_trans; [exact P6|apply IH].
  - pose proof (Pm_partition s5 a b pivot1) as P6.
    destruct (partition less s5 a b pivot1) as [[mid already] s6]. cbn [snd] in P6.
    set (s6' := if already then mark P_already_partitioned s6 else s6).
    assert (P6' : Pm s6 s6') by (unfold s6'; destruct already; [apply Pm_mark|apply Pm_refl]).
    assert (P06 : Pm s s6') by (pm_trans; [exact P05|]; pm_trans; [exact P6|exact P6']).
    destruct (mid - a <? b - mid)%nat.
    + pm_trans; [exact P06|]. pm_trans; [|apply IH]. pm_trans; [|apply IH].
      destruct ((b - a) / 8 <=? mid - a)%nat; [apply Pm_refl|apply Pm_mark].
    + pm_trans; [exact P06|]. pm_trans; [|apply IH]. pm_trans; [|apply IH].
      destruct ((b - a) / 8 <=? b - mid)%nat; [apply Pm_refl|apply Pm_mark].
Qed.

Lemma sort_func_perm l : Permutation l (sd (sort_func less l)).
Proof. unfold sort_func. apply (Pm_pdqsort _ (init l)). Qed.

(* ---------- stable ---------- *)
Lemma Pm_swap_range : forall k s a b, Pm s (swap_range k s a b).
Proof. induction k as [|k IH]; intros; cbn [swap_range]; [apply Pm_refl|]. pm_trans; [apply Pm_swapAt|apply IH]. Qed.
Lemma Pm_rotate_loop : forall fuel s m i j, Pm s (rotate_loop fuel s m i j).
Proof.
  induction fuel as [|f IH]; intros; cbn [rotate_loop]; [apply Pm_bad|].
  destruct (i =? j)%nat; [apply Pm_swap_range|].
  destruct (j <? i)%nat; (pm_trans; [apply Pm_swap_range|apply IH]).
Qed.
Lemma Pm_rotate s a m b : Pm s (rotate s a m b). Proof. apply Pm_rotate_loop. Qed.

Lemma sd_bs_loop p : is_test p -> forall k s i j, sd (snd (bs_loop k p s i j)) = sd s.
Proof.
  intros Hp. induction k as [|k IH]; intros s i j; cbn [bs_loop]; [reflexivity|].
  destruct (i <? j)%nat; [|reflexivity].
  pose proof (Hp s ((i + j) / 2)%nat) as E. destruct (p s ((i + j) / 2)%nat) as [c s1]. cbn [snd] in E.
  destruct c; rewrite IH; exact E.
Qed.
Lemma Pm_shift_up : forall n s k, Pm s (shift_up n s k).
Proof. induction n as [|n IH]; intros; cbn [shift_up]; [apply Pm_refl|]. pm_trans; [apply Pm_swapAt|apply IH]. Qed.
Lemma Pm_shift_down : forall n s k, Pm s (shift_down n s k).
Proof. induction n as [|n IH]; intros; cbn [shift_down]; [apply Pm_refl|]. pm_trans; [apply Pm_swapAt|apply IH]. Qed.

Lemma Pm_sym_merge : forall fuel s a m b, Pm s (sym_merge less fuel s a m b).
Proof.
  induction fuel as [|f IH]; intros s a m b; cbn [sym_merge]; [apply Pm_bad|].
  destruct (m - a =? 1)%nat.
  { pose proof (sd_bs_loop (fun s h => lessAt less s h a) (test_lessAt_l a) (S (b - m)) s m b) as E.
    destruct (bs_loop (S (b - m)) (fun s h => lessAt less s h a) s m b) as [i s1]. cbn [snd] in E.
    pm_trans; [apply Pm_eq; exact E|apply Pm_shift_up]. }
  destruct (b - m =? 1)%nat.
  { pose proof (sd_bs_loop (fun s h => nlessAt less s m h) (test_nlessAt_r m) (S (m - a)) s a m) as E.
    destruct (bs_loop (S (m - a)) (fun s h => nlessAt less s m h) s a m) as [i s1]. cbn [snd] in E.
    pm_trans; [apply Pm_eq; exact E|apply Pm_shift_down]. }
  set (mid := ((a + b) / 2)%nat). set (n := (mid + m)%nat).
  destruct (if (mid <? m)%nat then ((n - b)%nat, mid) else (a, m)) as [start r]. cbv beta iota.
  assert (Ht : is_test (fun s c => nlessAt less s (n - 1 - c) c)) by (intros s0 c; apply sd_nlessAt).
  pose proof (sd_bs_loop _ Ht (S (r - start)) s start r) as E.
  destruct (bs_loop (S (r - start)) (fun s c => nlessAt less s (n - 1 - c) c) s start r) as [start1 s1]. cbn [snd] in E.
  set (end_ := (n - start1)%nat).
  set (s2 := if (start1 <? m)%nat && (m <? end_)%nat then rotate (mark P_symmerge_rotate s1) start1 m end_ else s1).
  assert (P2 : Pm s1 s2).
  { unfold s2. destruct ((start1 <? m)%nat && (m <? end_)%nat); [|apply Pm_refl]. pm_trans; [apply Pm_mark|apply Pm_rotate]. }
  set (s3 := if (a <? start1)%nat && (start1 <? mid)%nat then sym_merge less f s2 a start1 mid else s2).
  assert (P3 : Pm s2 s3) by (unfold s3; destruct ((a <? start1)%nat && (start1 <? mid)%nat); [apply IH|apply Pm_refl]).
  pm_trans; [apply Pm_eq; exact E|]. pm_trans; [exact P2|]. pm_trans; [exact P3|].
  destruct ((mid <? end_)%nat && (end_ <? b)%nat); [apply IH|apply Pm_refl].
Qed.

Lemma Pm_st_blocks : forall fuel s a b n bs, Pm s (snd (st_blocks less fuel s a b n bs)).
Proof.
  induction fuel as [|f IH]; intros; cbn [st_blocks]; [apply Pm_bad|].
  destruct (b <=? n)%nat; [|apply Pm_refl]. pm_trans; [apply Pm_insertion_sort|apply IH].
Qed.
Lemma Pm_st_merge_pass : forall fuel s a b n bs, Pm s (snd (st_merge_pass less fuel s a b n bs)).
Proof.
  induction fuel as [|f IH]; intros; cbn [st_merge_pass]; [apply Pm_bad|].
  destruct (b <=? n)%nat; [|apply Pm_refl]. pm_trans; [apply Pm_sym_merge|apply IH].
Qed.
Lemma Pm_st_passes : forall fuel s n bs, Pm s (st_passes less fuel s n bs).
Proof.
  induction fuel as [|f IH]; intros s n bs; cbn [st_passes]; [apply Pm_bad|].
  destruct (bs <? n)%nat; [|apply Pm_refl].
  pose proof (Pm_st_merge_pass (S n) s 0 (2 * bs) n bs) as P1.
  destruct (st_merge_pass less (S n) s 0 (2 * bs) n bs) as [a s1]. cbn [snd] in P1.
  pm_trans; [exact P1|]. pm_trans; [|apply IH].
  destruct (a + bs <? n)%nat; [apply Pm_sym_merge|apply Pm_refl].
Qed.
Lemma Pm_stable s n : Pm s (stable less s n).
Proof.
  unfold stable. pose proof (Pm_st_blocks (S n) s 0 20 n 20) as P1.
  destruct (st_blocks less (S n) s 0 20 n 20) as [a s1]. cbn [snd] in P1.
  pm_trans; [exact P1|]. pm_trans; [apply Pm_insertion_sort|apply Pm_st_passes].
Qed.
Lemma sort_stable_func_perm l : Permutation l (sd (sort_stable_func less l)).
Proof. unfold sort_stable_func. apply (Pm_stable (init l)). Qed.

End Perm.
