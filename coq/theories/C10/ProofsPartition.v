(* C10 lemmas: post-conditions of partition and partitionEqual of SortModel.v (Hoare-style loop invariant of the
   two inward scans), for any less; no index panic when a <= pivot < b <= len. *)
From VF Require Import C10.SortModel C10.ProofsPerm C10.ProofsInsertion.
Local Open Scope nat_scope.

Ltac sp3 := split; [|split].
Ltac sp6 := split; [|split; [|split; [|split; [|split]]]].

Section Part.
Variable F : Z -> Z -> bool.             (* F x p: "x belongs to the left part w.r.t. pivot value p" *)
Variable f g : st -> nat -> bool * st.   (* the two loop tests, on (state, index); the pivot sits at index a *)
Variable a : nat.
Hypothesis f_ok : forall s i, i < length (sd s) -> a < length (sd s) ->
  exists s', f s i = (F (getd (sd s) i) (getd (sd s) a), s') /\ sd s' = sd s /\ sbad s' = sbad s.
Hypothesis g_ok : forall s i, i < length (sd s) -> a < length (sd s) ->
  exists s', g s i = (negb (F (getd (sd s) i) (getd (sd s) a)), s') /\ sd s' = sd s /\ sbad s' = sbad s.

Lemma scan_i_spec : forall k s i j,
  S j - i < k -> j < length (sd s) -> a < length (sd s) ->
  let r := scan_i k f s i j in
  sd (snd r) = sd s /\ sbad (snd r) = sbad s /\ i <= fst r /\ (i <= S j -> fst r <= S j) /\
  (forall x, i <= x -> x < fst r -> F (getd (sd s) x) (getd (sd s) a) = true) /\
  (fst r <= j -> F (getd (sd s) (fst r)) (getd (sd s) a) = false).
Proof.
  induction k as [|k IH]; intros s i j Hk Hj Ha; [lia|]. cbn [scan_i].
  destruct (Nat.leb_spec i j) as [Hij|Hij].
  - destruct (f_ok s i ltac:(lia) Ha) as (s' & -> & Hd & Hb).
    destruct (F (getd (sd s) i) (getd (sd s) a)) eqn:EF.
    + destruct (IH s' (S i) j) as (R1 & R2 & R3 & R4 & R5 & R6); try (rewrite ?Hd; lia).
      rewrite Hd in *. sp6; auto; try congruence; try lia.
      * intros x Hx1 Hx2. destruct (Nat.eq_dec x i) as [->|]; [exact EF|apply R5; lia].
    + cbn [fst snd]. sp6; auto; try lia.
  - cbn [fst snd]. sp6; auto; try lia.
Qed.

Lemma scan_j_spec : forall k s i j,
  S j - i < k -> j < length (sd s) -> a < length (sd s) -> 1 <= i ->
  let r := scan_j k g s i j in
  sd (snd r) = sd s /\ sbad (snd r) = sbad s /\ fst r <= j /\ (i <= S j -> i <= S (fst r)) /\
  (forall x, fst r < x -> x <= j -> F (getd (sd s) x) (getd (sd s) a) = false) /\
  (i <= fst r -> F (getd (sd s) (fst r)) (getd (sd s) a) = true).
Proof.
  induction k as [|k IH]; intros s i j Hk Hj Ha Hi; [lia|]. cbn [scan_j].
  destruct (Nat.leb_spec i j) as [Hij|Hij].
  - destruct (g_ok s j Hj Ha) as (s' & -> & Hd & Hb).
    destruct (F (getd (sd s) j) (getd (sd s) a)) eqn:EF; cbn [negb].
    + cbn [fst snd]. sp6; auto; try lia.
    + destruct (IH s' i (pred j)) as (R1 & R2 & R3 & R4 & R5 & R6); try (rewrite ?Hd; lia).
      rewrite Hd in *. sp6; auto; try congruence; try lia.
      * intros x Hx1 Hx2. destruct (Nat.eq_dec x j) as [->|]; [exact EF|apply R5; lia].
  - cbn [fst snd]. sp6; auto; try lia.
Qed.

(* the main loop: only positions in [i, j] are written; at exit the two cursors have just crossed *)
Lemma part_loop_spec : forall fuel s i j,
  S j - i < fuel -> a < i -> i <= S j -> j < length (sd s) ->
  let r := part_loop fuel f g s i j in
  let i' := fst (fst r) in let j' := snd (fst r) in let d := sd s in let d' := sd (snd r) in
  let p := getd d a in
  length d' = length d /\ sbad (snd r) = sbad s /\
  (forall x, (x < i \/ j < x) -> getd d' x = getd d x) /\
  (i' = S j' /\ i <= i' /\ j' <= j) /\
  (forall x, i <= x -> x < i' -> F (getd d' x) p = true) /\
  (forall x, j' < x -> x <= j -> F (getd d' x) p = false).
Proof.
  induction fuel as [|fu IH]; intros s i j Hfu Hai Hij Hj; [lia|]. cbn [part_loop].
  assert (Ha : a < length (sd s)) by lia.
  pose proof (scan_i_spec (span i j) s i j ltac:(unfold span; lia) Hj Ha) as Hsi. cbv zeta in Hsi.
  destruct (scan_i (span i j) f s i j) as [i1 s1]. cbn [fst snd] in Hsi.
  destruct Hsi as (D1 & B1 & I1 & I2 & I3 & I4).
  pose proof (scan_j_spec (span i1 j) s1 i1 j ltac:(unfold span; lia) ltac:(rewrite D1; lia) ltac:(rewrite D1; lia) ltac:(lia)) as Hsj.
  cbv zeta in Hsj. destruct (scan_j (span i1 j) g s1 i1 j) as [j1 s2]. cbn [fst snd] in Hsj.
  rewrite D1 in Hsj. destruct Hsj as (D2 & B2 & J1 & J2 & J3 & J4).
  set (d := sd s) in *. set (p := getd d a) in *.
  destruct (Nat.ltb_spec j1 i1) as [Hc|Hc].
  - (* crossed *)
    cbn [fst snd]. cbv zeta. rewrite D2. sp6; auto; try lia; try congruence.
  - (* exchange and continue *)
    assert (Hne : i1 < j1).
    { destruct (Nat.eq_dec i1 j1) as [E|]; [|lia]. rewrite <- E in J4. rewrite I4 in J4 by lia. specialize (J4 (le_n _)). discriminate. }
    rewrite (swapAt_swap s2 i1 j1) by (rewrite D2; fold d; lia). rewrite D2. fold d.
    set (d1 := swap 0%Z d i1 j1). set (s3 := setd s2 d1).
    assert (L1 : length d1 = length d) by apply swap_length.
    assert (Hg : forall x, getd d1 x = if x =? i1 then getd d j1 else if x =? j1 then getd d i1 else getd d x)
      by (intros x; unfold d1; apply getd_swap; lia).
    destruct (IH s3 (S i1) (pred j1)) as (R1 & R2 & R3 & (R4a & R4b & R4c) & R5 & R6); try (cbn [sd setd s3]; lia).
    cbn [sd setd s3] in R1, R3, R5, R6. cbv zeta.
    set (r := part_loop fu f g s3 (S i1) (pred j1)) in *.
    assert (Hpa : getd d1 a = p) by (rewrite Hg; destruct (Nat.eqb_spec a i1); [lia|]; destruct (Nat.eqb_spec a j1); [lia|reflexivity]).
    rewrite Hpa in R5, R6.
    sp6.
    + lia.
    + rewrite R2. cbn [sbad setd s3]. congruence.
    + intros x Hx. rewrite R3 by lia. rewrite Hg.
      destruct (Nat.eqb_spec x i1); [lia|]. destruct (Nat.eqb_spec x j1); [lia|]. reflexivity.
    + lia.
    + intros x Hx1 Hx2. destruct (Nat.le_gt_cases x i1) as [Hle|Hgt].
      * rewrite R3 by lia. rewrite Hg. destruct (Nat.eqb_spec x i1) as [->|Hxi].
        -- apply J4. lia.
        -- destruct (Nat.eqb_spec x j1); [lia|]. apply I3; lia.
      * apply R5; lia.
    + intros x Hx1 Hx2. destruct (Nat.le_gt_cases j1 x) as [Hge|Hlt].
      * rewrite R3 by lia. rewrite Hg. destruct (Nat.eqb_spec x i1); [lia|].
        destruct (Nat.eqb_spec x j1) as [->|Hxj].
        -- apply I4. lia.
        -- apply J3; lia.
      * apply R6; lia.
Qed.
End Part.

Section Partition.
Variable less : Z -> Z -> bool.

Lemma lessAt_l_ok a : forall s i, i < length (sd s) -> a < length (sd s) ->
  exists s', lessAt less s i a = (less (getd (sd s) i) (getd (sd s) a), s') /\ sd s' = sd s /\ sbad s' = sbad s.
Proof. intros s i Hi Ha. rewrite (lessAt_in less) by assumption. eexists. split; [reflexivity|]. split; reflexivity. Qed.
Lemma nlessAt_l_ok a : forall s i, i < length (sd s) -> a < length (sd s) ->
  exists s', nlessAt less s i a = (negb (less (getd (sd s) i) (getd (sd s) a)), s') /\ sd s' = sd s /\ sbad s' = sbad s.
Proof. intros s i Hi Ha. unfold nlessAt. rewrite (lessAt_in less) by assumption. eexists. split; [reflexivity|]. split; reflexivity. Qed.
Lemma nlessAt_r_ok a : forall s i, i < length (sd s) -> a < length (sd s) ->
  exists s', nlessAt less s a i = (negb (less (getd (sd s) a) (getd (sd s) i)), s') /\ sd s' = sd s /\ sbad s' = sbad s.
Proof. intros s i Hi Ha. unfold nlessAt. rewrite (lessAt_in less) by assumption. eexists. split; [reflexivity|]. split; reflexivity. Qed.
Lemma lessAt_r_ok a : forall s i, i < length (sd s) -> a < length (sd s) ->
  exists s', lessAt less s a i = (negb (negb (less (getd (sd s) a) (getd (sd s) i))), s') /\ sd s' = sd s /\ sbad s' = sbad s.
Proof. intros s i Hi Ha. rewrite (lessAt_in less) by assumption. rewrite negb_involutive. eexists. split; [reflexivity|]. split; reflexivity. Qed.

(* partition(data, a, b, pivot): data[a:mid] < p, data[mid] = p, data[mid+1:b] >= p *)
Theorem partition_post s a b pivot :
  a <= pivot -> pivot < b -> b <= length (sd s) ->
  let r := partition less s a b pivot in
  let mid := fst (fst r) in let d := sd s in let d' := sd (snd r) in let p := getd d pivot in
  a <= mid /\ mid < b /\ getd d' mid = p /\
  (forall x, a <= x -> x < mid -> less (getd d' x) p = true) /\
  (forall x, mid < x -> x < b -> less (getd d' x) p = false) /\
  length d' = length d /\ (forall x, (x < a \/ b <= x) -> getd d' x = getd d x) /\ sbad (snd r) = sbad s.
Proof.
  intros Hap Hpb Hb. unfold partition.
  rewrite (swapAt_swap s a pivot) by lia.
  set (d := sd s) in *. set (d0 := swap 0%Z d a pivot). set (s0 := setd s d0).
  assert (L0 : length d0 = length d) by apply swap_length.
  assert (G0 : forall x, getd d0 x = if x =? a then getd d pivot else if x =? pivot then getd d a else getd d x)
    by (intros x; unfold d0; apply getd_swap; lia).
  set (p := getd d pivot).
  assert (Hp0 : getd d0 a = p) by (rewrite G0, Nat.eqb_refl; reflexivity).
  set (f := fun s i => lessAt less s i a). set (g := fun s j => nlessAt less s j a).
  pose proof (scan_i_spec less f a (lessAt_l_ok a) (span (a + 1) (b - 1)) s0 (a + 1) (b - 1)
                ltac:(unfold span; lia) ltac:(cbn [sd setd s0]; lia) ltac:(cbn [sd setd s0]; lia)) as Hsi.
  cbv zeta in Hsi. destruct (scan_i (span (a + 1) (b - 1)) f s0 (a + 1) (b - 1)) as [i1 s1]. cbn [fst snd sd setd s0] in Hsi.
  destruct Hsi as (D1 & B1 & I1 & I2 & I3 & I4). rewrite Hp0 in I3, I4.
  pose proof (scan_j_spec less g a (nlessAt_l_ok a) (span i1 (b - 1)) s1 i1 (b - 1)
                ltac:(unfold span; lia) ltac:(rewrite D1; lia) ltac:(rewrite D1; lia) ltac:(lia)) as Hsj.
  cbv zeta in Hsj. destruct (scan_j (span i1 (b - 1)) g s1 i1 (b - 1)) as [j1 s2]. cbn [fst snd] in Hsj.
  rewrite D1 in Hsj. destruct Hsj as (D2 & B2 & J1 & J2 & J3 & J4). rewrite Hp0 in J3, J4.
  destruct (Nat.ltb_spec j1 i1) as [Hc|Hc].
  - (* already partitioned *)
    cbn [fst snd]. cbv zeta. rewrite (swapAt_swap s2 j1 a) by (rewrite D2; lia). cbn [sd setd sbad]. rewrite D2.
    assert (Gf : forall x, getd (swap 0%Z d0 j1 a) x = if x =? j1 then p else if x =? a then getd d0 j1 else getd d0 x).
    { intros x. rewrite getd_swap by lia. rewrite Hp0. reflexivity. }
    split; [lia|]. split; [lia|]. split; [rewrite Gf, Nat.eqb_refl; reflexivity|].
    split; [|split; [|split; [rewrite swap_length; exact L0|split]]].
    + intros x Hx1 Hx2. rewrite Gf. destruct (Nat.eqb_spec x j1); [lia|].
      destruct (Nat.eqb_spec x a) as [->|Hxa]; apply I3; lia.
    + intros x Hx1 Hx2. rewrite Gf. destruct (Nat.eqb_spec x j1); [lia|]. destruct (Nat.eqb_spec x a); [lia|].
      apply J3; lia.
    + intros x Hx. rewrite Gf. destruct (Nat.eqb_spec x j1); [lia|]. destruct (Nat.eqb_spec x a); [lia|].
      rewrite G0. destruct (Nat.eqb_spec x a); [lia|]. destruct (Nat.eqb_spec x pivot); [lia|]. reflexivity.
    + cbn [sbad setd s0] in B1. congruence.
  - (* exchange, then the main loop *)
    assert (Hne : i1 < j1).
    { destruct (Nat.eq_dec i1 j1) as [E|]; [|lia]. rewrite <- E in J4. rewrite I4 in J4 by lia. specialize (J4 (le_n _)). discriminate. }
    rewrite (swapAt_swap s2 i1 j1) by (rewrite D2; lia). rewrite D2.
    set (d1 := swap 0%Z d0 i1 j1). set (s3 := setd s2 d1).
    assert (L1 : length d1 = length d0) by apply swap_length.
    assert (G1 : forall x, getd d1 x = if x =? i1 then getd d0 j1 else if x =? j1 then getd d0 i1 else getd d0 x)
      by (intros x; unfold d1; apply getd_swap; lia).
    assert (Hp1 : getd d1 a = p) by (rewrite G1; destruct (Nat.eqb_spec a i1); [lia|]; destruct (Nat.eqb_spec a j1); [lia|exact Hp0]).
    pose proof (part_loop_spec less f g a (lessAt_l_ok a) (nlessAt_l_ok a) (S (b - a)) s3 (S i1) (pred j1)
                  ltac:(lia) ltac:(lia) ltac:(lia) ltac:(cbn [sd setd s3]; lia)) as Hpl.
    cbv zeta in Hpl. destruct (part_loop (S (b - a)) f g s3 (S i1) (pred j1)) as [[i2 j2] s4].
    cbn [fst snd sd setd s3] in Hpl. rewrite Hp1 in Hpl.
    destruct Hpl as (R1 & R2 & R3 & (R4a & R4b & R4c) & R5 & R6).
    cbn [fst snd]. cbv zeta. rewrite (swapAt_swap s4 j2 a) by lia. cbn [sd setd sbad].
    set (d4 := sd s4) in *.
    assert (Hp4 : getd d4 a = p) by (rewrite R3 by lia; exact Hp1).
    assert (Gf : forall x, getd (swap 0%Z d4 j2 a) x = if x =? j2 then p else if x =? a then getd d4 j2 else getd d4 x).
    { intros x. rewrite getd_swap by lia. rewrite Hp4. reflexivity. }
    (* everything in [a+1, S i1) is "less" in d4, everything in [j1, b) is "not less" *)
    assert (Hlow : forall x, a < x -> x <= i1 -> less (getd d4 x) p = true).
    { intros x Hx1 Hx2. rewrite R3 by lia. rewrite G1. destruct (Nat.eqb_spec x i1) as [->|Hxi]; [apply J4; lia|].
      destruct (Nat.eqb_spec x j1); [lia|]. apply I3; lia. }
    assert (Hhigh : forall x, j1 <= x -> x < b -> less (getd d4 x) p = false).
    { intros x Hx1 Hx2. rewrite R3 by lia. rewrite G1. destruct (Nat.eqb_spec x i1); [lia|].
      destruct (Nat.eqb_spec x j1) as [->|Hxj]; [apply I4; lia|]. apply J3; lia. }
    split; [lia|]. split; [lia|]. split; [rewrite Gf, Nat.eqb_refl; reflexivity|].
    split; [|split; [|split; [|split]]].
    + intros x Hx1 Hx2. rewrite Gf. destruct (Nat.eqb_spec x j2); [lia|].
      assert (Hin : forall y, a < y -> y <= j2 -> less (getd d4 y) p = true).
      { intros y Hy1 Hy2. destruct (Nat.le_gt_cases y i1); [apply Hlow; lia|apply R5; lia]. }
      destruct (Nat.eqb_spec x a) as [->|Hxa]; apply Hin; lia.
    + intros x Hx1 Hx2. rewrite Gf. destruct (Nat.eqb_spec x j2); [lia|]. destruct (Nat.eqb_spec x a); [lia|].
      destruct (Nat.le_gt_cases j1 x); [apply Hhigh; lia|apply R6; lia].
    + rewrite swap_length. lia.
    + intros x Hx. rewrite Gf. destruct (Nat.eqb_spec x j2); [lia|]. destruct (Nat.eqb_spec x a); [lia|].
      rewrite R3 by lia. rewrite G1. destruct (Nat.eqb_spec x i1); [lia|]. destruct (Nat.eqb_spec x j1); [lia|].
      rewrite G0. destruct (Nat.eqb_spec x a); [lia|]. destruct (Nat.eqb_spec x pivot); [lia|]. reflexivity.
    + cbn [sbad setd s3 s0] in *. congruence.
Qed.

(* partitionEqual(data, a, b, pivot): data[a:mid] are not greater than p (p itself is at a), data[mid:b] > p *)
Theorem partition_equal_post s a b pivot :
  a <= pivot -> pivot < b -> b <= length (sd s) -> less (getd (sd s) pivot) (getd (sd s) pivot) = false ->
  let r := partition_equal less s a b pivot in
  let mid := fst r in let d := sd s in let d' := sd (snd r) in let p := getd d pivot in
  a < mid /\ mid <= b /\ getd d' a = p /\
  (forall x, a <= x -> x < mid -> less p (getd d' x) = false) /\
  (forall x, mid <= x -> x < b -> less p (getd d' x) = true) /\
  length d' = length d /\ (forall x, (x < a \/ b <= x) -> getd d' x = getd d x) /\ sbad (snd r) = sbad s.
Proof.
  intros Hap Hpb Hb Hirr. unfold partition_equal.
  rewrite (swapAt_swap s a pivot) by lia.
  set (d := sd s) in *. set (d0 := swap 0%Z d a pivot). set (s0 := setd s d0).
  assert (L0 : length d0 = length d) by apply swap_length.
  assert (G0 : forall x, getd d0 x = if x =? a then getd d pivot else if x =? pivot then getd d a else getd d x)
    by (intros x; unfold d0; apply getd_swap; lia).
  set (p := getd d pivot) in *.
  assert (Hp0 : getd d0 a = p) by (rewrite G0, Nat.eqb_refl; reflexivity).
  set (F := fun x q : Z => negb (less q x)).
  pose proof (part_loop_spec F (fun s i => nlessAt less s a i) (fun s j => lessAt less s a j) a
                (nlessAt_r_ok a) (lessAt_r_ok a) (S (b - a)) s0 (a + 1) (b - 1)
                ltac:(lia) ltac:(lia) ltac:(lia) ltac:(cbn [sd setd s0]; lia)) as Hpl.
  cbv zeta in Hpl.
  destruct (part_loop (S (b - a)) (fun s i => nlessAt less s a i) (fun s j => lessAt less s a j) s0 (a + 1) (b - 1)) as [[i1 j1] s1].
  cbn [fst snd sd setd s0] in Hpl. rewrite Hp0 in Hpl. destruct Hpl as (R1 & R2 & R3 & (R4a & R4b & R4c) & R5 & R6).
  cbn [fst snd]. cbv zeta. unfold F in R5, R6.
  assert (Hpa : getd (sd s1) a = p) by (rewrite R3 by lia; exact Hp0).
  split; [lia|]. split; [lia|]. split; [exact Hpa|].
  split; [|split; [|split; [|split]]].
  - intros x Hx1 Hx2. destruct (Nat.eq_dec x a) as [->|Hxa]; [rewrite Hpa; exact Hirr|].
    specialize (R5 x ltac:(lia) ltac:(lia)). now apply negb_true_iff in R5.
  - intros x Hx1 Hx2. specialize (R6 x ltac:(lia) ltac:(lia)). now apply negb_false_iff in R6.
  - lia.
  - intros x Hx. rewrite R3 by lia. rewrite G0. destruct (Nat.eqb_spec x a); [lia|]. destruct (Nat.eqb_spec x pivot); [lia|]. reflexivity.
  - cbn [sbad setd s0] in R2. exact R2.
Qed.

End Partition.
