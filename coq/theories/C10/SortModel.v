(* C10 sorting model: base/bslice/zsortfunc.go (pdqsortLessFunc, stableLessFunc and everything they call)
   transcribed on a list with nth/swap. zsortordered.go is the same text with `less(x, y)` replaced by
   `x < y` (the harness re-checks that mechanically on every run), so one model serves both.

   State: the slice contents [sd], a rolling hash [sh] and a count [sc] of the less(x, y) calls in the
   order they are made (this is what ties the control flow to the code: the harness records the same hash
   with a recording `less`), a sticky flag [sbad] that is set when Go would panic with an index out of
   range (or a loop runs out of fuel, which the theorems exclude), and a bit set [spath] of the branches
   taken (evidence only). The ONLY operations that touch [sd] are [swapAt] on two in-range indexes, so the
   contents are a permutation of the input by construction.
   Elements are Z (the harness encodes tagged pairs as key * 2^20 + tag); [less] is a parameter.
   Indexes are nat: every Go int below is non-negative at the point where it is used (a-1 is guarded by
   a > 0, (hi-1)/2 for hi = 0 is 0 in Go as well, j-- happens only after i <= j with i >= 1). *)
From VF Require Export Common.Base.
Local Open Scope Z_scope.

Definition HP : Z := 1000003.
Definition HM : Z := 2 ^ 31 - 1.

Record st := { sd : list Z; sh : Z; sc : Z; sbad : bool; spath : Z }.

Definition init (l : list Z) : st := {| sd := l; sh := 0; sc := 0; sbad := false; spath := 0 |}.
Definition bad (s : st) : st := {| sd := sd s; sh := sh s; sc := sc s; sbad := true; spath := spath s |}.
Definition mark (k : Z) (s : st) : st :=
  {| sd := sd s; sh := sh s; sc := sc s; sbad := sbad s; spath := Z.lor (spath s) (2 ^ k) |}.
Definition logc (s : st) (x y : Z) : st :=
  {| sd := sd s; sh := (sh s * HP + (x mod HM) * 31 + (y mod HM) + 7) mod HM; sc := sc s + 1;
     sbad := sbad s; spath := spath s |}.
Definition setd (s : st) (l : list Z) : st :=
  {| sd := l; sh := sh s; sc := sc s; sbad := sbad s; spath := spath s |}.

(* branch identifiers for [spath] *)
Definition P_insertion := 0. Definition P_heapsort := 1. Definition P_breakpatterns := 2.
Definition P_reverse := 3. Definition P_partial_true := 4. Definition P_partial_false := 5.
Definition P_partition_equal := 6. Definition P_already_partitioned := 7. Definition P_ninther := 8.
Definition P_partial_shift := 9. Definition P_symmerge_rotate := 10. Definition P_unbalanced := 11.

Section Sort.
Variable less : Z -> Z -> bool.

(* less(data[i], data[j]) *)
Definition lessAt (s : st) (i j : nat) : bool * st :=
  match nth_error (sd s) i, nth_error (sd s) j with
  | Some x, Some y => (less x y, logc s x y)
  | _, _ => (false, bad s)
  end.
Definition nlessAt (s : st) (i j : nat) : bool * st := let '(c, s1) := lessAt s i j in (negb c, s1).

(* data[i], data[j] = data[j], data[i] *)
Definition swapAt (s : st) (i j : nat) : st :=
  match nth_error (sd s) i, nth_error (sd s) j with
  | Some x, Some y => setd s (upd (upd (sd s) i y) j x)
  | _, _ => bad s
  end.

(* ---------- insertionSort ---------- *)
(* for j := i; j > a && less(data[j], data[j-1]); j-- { swap(j, j-1) } *)
Fixpoint ins_inner (a j : nat) (s : st) : st :=
  match j with
  | O => s
  | S j' => if (a <? j)%nat then
              let '(c, s1) := lessAt s j j' in
              if c then ins_inner a j' (swapAt s1 j j') else s1
            else s
  end.
(* for i := a + 1; i < b; i++ : k iterations left *)
Fixpoint ins_outer (a i k : nat) (s : st) : st :=
  match k with O => s | S k' => ins_outer a (S i) k' (ins_inner a i s) end.
Definition insertion_sort (s : st) (a b : nat) : st := ins_outer a (S a) (b - S a) s.

(* ---------- siftDown / heapSort ---------- *)
Fixpoint sift_down (fuel : nat) (s : st) (root hi first : nat) : st :=
  match fuel with
  | O => bad s
  | S f =>
    let child := (2 * root + 1)%nat in
    if (hi <=? child)%nat then s else
    let '(c1, s1) := if (child + 1 <? hi)%nat then lessAt s (first + child) (first + child + 1) else (false, s) in
    let child' := if c1 then (child + 1)%nat else child in
    let '(c2, s2) := lessAt s1 (first + root) (first + child') in
    if negb c2 then s2 else sift_down f (swapAt s2 (first + root) (first + child')) child' hi first
  end.

(* for i := (hi-1)/2; i >= 0; i-- { siftDown(data, i, hi, first) } : k = i + 1 *)
Fixpoint heap_build (k : nat) (s : st) (hi first : nat) : st :=
  match k with O => s | S i => heap_build i (sift_down (S hi) s i hi first) hi first end.
(* for i := hi-1; i >= 0; i-- { swap(first, first+i); siftDown(data, lo, i, first) } : k = i + 1 *)
Fixpoint heap_pop (k : nat) (s : st) (first : nat) : st :=
  match k with O => s | S i => heap_pop i (sift_down (S i) (swapAt s first (first + i)) 0 i first) first end.
Definition heap_sort (s : st) (a b : nat) : st :=
  let hi := (b - a)%nat in
  heap_pop hi (heap_build (S ((hi - 1) / 2)) s hi a) a.

(* ---------- partition / partitionEqual ---------- *)
(* for i <= j && f(i) { i++ } *)
Fixpoint scan_i (k : nat) (f : st -> nat -> bool * st) (s : st) (i j : nat) : nat * st :=
  match k with
  | O => (i, bad s)
  | S k' => if (i <=? j)%nat then
              let '(c, s1) := f s i in if c then scan_i k' f s1 (S i) j else (i, s1)
            else (i, s)
  end.
(* for i <= j && g(j) { j-- } *)
Fixpoint scan_j (k : nat) (g : st -> nat -> bool * st) (s : st) (i j : nat) : nat * st :=
  match k with
  | O => (j, bad s)
  | S k' => if (i <=? j)%nat then
              let '(c, s1) := g s j in if c then scan_j k' g s1 i (pred j) else (j, s1)
            else (j, s)
  end.
Definition span (i j : nat) : nat := S (S (S j - i)).

(* the `for { scan; scan; if i > j {break}; swap; i++; j-- }` loop shared by partition and partitionEqual *)
Fixpoint part_loop (fuel : nat) (f g : st -> nat -> bool * st) (s : st) (i j : nat) : (nat * nat) * st :=
  match fuel with
  | O => ((i, j), bad s)
  | S fu =>
    let '(i1, s1) := scan_i (span i j) f s i j in
    let '(j1, s2) := scan_j (span i1 j) g s1 i1 j in
    if (j1 <? i1)%nat then ((i1, j1), s2)
    else part_loop fu f g (swapAt s2 i1 j1) (S i1) (pred j1)
  end.

Definition partition (s : st) (a b pivot : nat) : (nat * bool) * st :=
  let s0 := swapAt s a pivot in
  let f := fun s i => lessAt s i a in
  let g := fun s j => nlessAt s j a in
  let i := (a + 1)%nat in let j := (b - 1)%nat in
  let '(i1, s1) := scan_i (span i j) f s0 i j in
  let '(j1, s2) := scan_j (span i1 j) g s1 i1 j in
  if (j1 <? i1)%nat then ((j1, true), swapAt s2 j1 a) else
  let s3 := swapAt s2 i1 j1 in
  let '((i2, j2), s4) := part_loop (S (b - a)) f g s3 (S i1) (pred j1) in
  ((j2, false), swapAt s4 j2 a).

Definition partition_equal (s : st) (a b pivot : nat) : nat * st :=
  let s0 := swapAt s a pivot in
  let f := fun s i => nlessAt s a i in
  let g := fun s j => lessAt s a j in
  let '((i1, j1), s1) := part_loop (S (b - a)) f g s0 (a + 1)%nat (b - 1)%nat in
  (i1, s1).

(* ---------- partialInsertionSort ---------- *)
(* for i < b && !less(data[i], data[i-1]) { i++ } *)
Fixpoint pis_scan (k : nat) (s : st) (i b : nat) : nat * st :=
  match k with
  | O => (i, bad s)
  | S k' => if (i <? b)%nat then
              let '(c, s1) := nlessAt s i (pred i) in if c then pis_scan k' s1 (S i) b else (i, s1)
            else (i, s)
  end.
(* for j := i-1; j >= 1; j-- { if !less(data[j], data[j-1]) {break}; swap(j, j-1) } *)
Fixpoint pis_left (j : nat) (s : st) : st :=
  match j with
  | O => s
  | S j' => let '(c, s1) := nlessAt s j j' in if c then s1 else pis_left j' (swapAt s1 j j')
  end.
(* for j := i+1; j < b; j++ { if !less(data[j], data[j-1]) {break}; swap(j, j-1) } *)
Fixpoint pis_right (k : nat) (j : nat) (s : st) : st :=
  match k with
  | O => s
  | S k' => let '(c, s1) := nlessAt s j (pred j) in if c then s1 else pis_right k' (S j) (swapAt s1 j (pred j))
  end.
(* for j := 0; j < maxSteps; j++ { ... } : steps left *)
Fixpoint pis_loop (steps : nat) (s : st) (a b i : nat) : bool * st :=
  match steps with
  | O => (false, s)
  | S steps' =>
    let '(i1, s1) := pis_scan (S (b - i)) s i b in
    if (i1 =? b)%nat then (true, s1) else
    if (b - a <? 50)%nat then (false, s1) else
    let s2 := mark P_partial_shift (swapAt s1 i1 (pred i1)) in
    let s3 := if (2 <=? i1 - a)%nat then pis_left (i1 - 1) s2 else s2 in
    let s4 := if (2 <=? b - i1)%nat then pis_right (b - (i1 + 1)) (i1 + 1) s3 else s3 in
    pis_loop steps' s4 a b i1
  end.
Definition partial_insertion_sort (s : st) (a b : nat) : bool * st := pis_loop 5 s a b (a + 1).

(* ---------- breakPatterns ---------- *)
Definition M64 : Z := 2 ^ 64.
Definition xorshift_next (r : Z) : Z :=
  let r1 := Z.lxor r ((r * 2 ^ 13) mod M64) in
  let r2 := Z.lxor r1 (r1 / 2 ^ 17) in
  Z.lxor r2 ((r2 * 2 ^ 5) mod M64).
Definition bits_len (n : Z) : Z := if n <=? 0 then 0 else Z.log2 n + 1.
Definition next_pow2 (n : Z) : Z := 2 ^ bits_len n.

(* for idx := a + (length/4)*2 - 1; idx <= a + (length/4)*2 + 1; idx++ : 3 iterations *)
Fixpoint bp_loop (k : nat) (s : st) (a idx : nat) (length modulus random : Z) : st :=
  match k with
  | O => s
  | S k' =>
    let random' := xorshift_next random in
    let other := Z.land random' (modulus - 1) in
    let other' := if other >=? length then other - length else other in
    bp_loop k' (swapAt s idx (a + Z.to_nat other')) a (S idx) length modulus random'
  end.
Definition break_patterns (s : st) (a b : nat) : st :=
  let length := (b - a)%nat in
  if (8 <=? length)%nat then
    bp_loop 3 s a (a + (length / 4) * 2 - 1) (Z.of_nat length) (next_pow2 (Z.of_nat length)) (Z.of_nat length)
  else s.

(* ---------- choosePivot ---------- *)
Inductive hint := UnknownHint | IncreasingHint | DecreasingHint.

(* order2(data, a, b, &swaps) *)
Definition order2 (s : st) (a b swaps : nat) : (nat * nat * nat) * st :=
  let '(c, s1) := lessAt s b a in
  if c then ((b, a, S swaps), s1) else ((a, b, swaps), s1).
Definition median (s : st) (a b c swaps : nat) : (nat * nat) * st :=
  let '((a1, b1, sw1), s1) := order2 s a b swaps in
  let '((b2, c2, sw2), s2) := order2 s1 b1 c sw1 in
  let '((a3, b3, sw3), s3) := order2 s2 a1 b2 sw2 in
  ((b3, sw3), s3).
Definition median_adjacent (s : st) (a swaps : nat) : (nat * nat) * st := median s (a - 1) a (a + 1) swaps.

Definition choose_pivot (s : st) (a b : nat) : (nat * hint) * st :=
  let l := (b - a)%nat in
  let i := (a + l / 4 * 1)%nat in
  let j := (a + l / 4 * 2)%nat in
  let k := (a + l / 4 * 3)%nat in
  let '((j', swaps), s') :=
    if (8 <=? l)%nat then
      let '((i1, j1, k1, sw1), s1) :=
        if (50 <=? l)%nat then
          let '((i1, sw1), s1) := median_adjacent (mark P_ninther s) i 0 in
          let '((j1, sw2), s2) := median_adjacent s1 j sw1 in
          let '((k1, sw3), s3) := median_adjacent s2 k sw2 in
          ((i1, j1, k1, sw3), s3)
        else ((i, j, k, 0%nat), s) in
      median s1 i1 j1 k1 sw1
    else ((j, 0%nat), s) in
  if (swaps =? 0)%nat then ((j', IncreasingHint), s')
  else if (swaps =? 12)%nat then ((j', DecreasingHint), s')
  else ((j', UnknownHint), s').

(* ---------- reverseRange ---------- *)
Fixpoint rev_loop (k : nat) (s : st) (i j : nat) : st :=
  match k with
  | O => s
  | S k' => if (i <? j)%nat then rev_loop k' (swapAt s i j) (S i) (pred j) else s
  end.
Definition reverse_range (s : st) (a b : nat) : st := rev_loop (S (b - a)) s a (b - 1).

(* ---------- pdqsort ---------- *)
Definition is_increasing (h : hint) : bool := match h with IncreasingHint => true | _ => false end.
Definition is_decreasing (h : hint) : bool := match h with DecreasingHint => true | _ => false end.

(* one unit of fuel per loop iteration / recursive call; every iteration shortens [a, b) by at least one.
   A recursive call starts with wasBalanced = wasPartitioned = true (they are locals of the Go function). *)
Fixpoint pdqsort (fuel : nat) (s : st) (a b : nat) (limit : nat) (wasBalanced wasPartitioned : bool) : st :=
  match fuel with
  | O => bad s
  | S fu =>
    let length := (b - a)%nat in
    if (length <=? 12)%nat then insertion_sort (mark P_insertion s) a b else
    if (limit =? 0)%nat then heap_sort (mark P_heapsort s) a b else
    let '(s1, limit1) := if negb wasBalanced then (break_patterns (mark P_breakpatterns s) a b, pred limit) else (s, limit) in
    let '((pivot, hnt), s2) := choose_pivot s1 a b in
    let '(s3, pivot1, hnt1) :=
      if is_decreasing hnt then (reverse_range (mark P_reverse s2) a b, ((b - 1) - (pivot - a))%nat, IncreasingHint)
      else (s2, pivot, hnt) in
    let '(done, s4) :=
      if wasBalanced && wasPartitioned && is_increasing hnt1 then
        let '(r, s') := partial_insertion_sort s3 a b in
        (r, mark (if r then P_partial_true else P_partial_false) s')
      else (false, s3) in
    if done then s4 else
    let '(peq, s5) := if (0 <? a)%nat then nlessAt s4 (a - 1) pivot1 else (false, s4) in
    if peq then
      let '(mid, s6) := partition_equal (mark P_partition_equal s5) a b pivot1 in
      pdqsort fu s6 mid b limit1 wasBalanced wasPartitioned
    else
      let '((mid, already), s6) := partition s5 a b pivot1 in
      let s6 := if already then mark P_already_partitioned s6 else s6 in
      let leftLen := (mid - a)%nat in let rightLen := (b - mid)%nat in
      let balanceThreshold := (length / 8)%nat in
      if (leftLen <? rightLen)%nat then
        let wb := (balanceThreshold <=? leftLen)%nat in
        let s7 := pdqsort fu (if wb then s6 else mark P_unbalanced s6) a mid limit1 true true in
        pdqsort fu s7 (mid + 1) b limit1 wb already
      else
        let wb := (balanceThreshold <=? rightLen)%nat in
        let s7 := pdqsort fu (if wb then s6 else mark P_unbalanced s6) (mid + 1) b limit1 true true in
        pdqsort fu s7 a mid limit1 wb already
  end.

(* SortFunc(x, less) / Sort(x): pdqsort(x, 0, n, bits.Len(uint(n))) *)
Definition sort_func (l : list Z) : st :=
  let n := length l in
  pdqsort (S n) (init l) 0 n (Z.to_nat (bits_len (Z.of_nat n))) true true.

(* ---------- stable sort ---------- *)
(* for i := 0; i < n; i++ { swap(a+i, b+i) } *)
Fixpoint swap_range (k : nat) (s : st) (a b : nat) : st :=
  match k with O => s | S k' => swap_range k' (swapAt s a b) (S a) (S b) end.

(* for i != j { if i > j { swapRange(m-i, m, j); i -= j } else { swapRange(m-i, m+j-i, i); j -= i } } ; swapRange(m-i, m, i) *)
Fixpoint rotate_loop (fuel : nat) (s : st) (m i j : nat) : st :=
  match fuel with
  | O => bad s
  | S f =>
    if (i =? j)%nat then swap_range i s (m - i) m
    else if (j <? i)%nat then rotate_loop f (swap_range j s (m - i) m) m (i - j) j
    else rotate_loop f (swap_range i s (m - i) (m + j - i)) m i (j - i)
  end.
Definition rotate (s : st) (a m b : nat) : st := rotate_loop (S (b - a)) s m (m - a) (b - m).

(* for i < j { h := (i+j)/2; if pred(h) { i = h+1 } else { j = h } } *)
Fixpoint bs_loop (k : nat) (p : st -> nat -> bool * st) (s : st) (i j : nat) : nat * st :=
  match k with
  | O => (i, bad s)
  | S k' => if (i <? j)%nat then
              let h := ((i + j) / 2)%nat in
              let '(c, s1) := p s h in
              if c then bs_loop k' p s1 (h + 1) j else bs_loop k' p s1 i h
            else (i, s)
  end.
(* for k := a; k < i-1; k++ { swap(k, k+1) } *)
Fixpoint shift_up (n : nat) (s : st) (k : nat) : st :=
  match n with O => s | S n' => shift_up n' (swapAt s k (S k)) (S k) end.
(* for k := m; k > i; k-- { swap(k, k-1) } *)
Fixpoint shift_down (n : nat) (s : st) (k : nat) : st :=
  match n with O => s | S n' => shift_down n' (swapAt s k (pred k)) (pred k) end.

Fixpoint sym_merge (fuel : nat) (s : st) (a m b : nat) : st :=
  match fuel with
  | O => bad s
  | S f =>
    if (m - a =? 1)%nat then
      let '(i, s1) := bs_loop (S (b - m)) (fun s h => lessAt s h a) s m b in
      shift_up (i - 1 - a) s1 a
    else if (b - m =? 1)%nat then
      let '(i, s1) := bs_loop (S (m - a)) (fun s h => nlessAt s m h) s a m in
      shift_down (m - i) s1 m
    else
      let mid := ((a + b) / 2)%nat in
      let n := (mid + m)%nat in
      let '(start, r) := if (mid <? m)%nat then ((n - b)%nat, mid) else (a, m) in
      let p := (n - 1)%nat in
      let '(start1, s1) := bs_loop (S (r - start)) (fun s c => nlessAt s (p - c) c) s start r in
      let end_ := (n - start1)%nat in
      let s2 := if (start1 <? m)%nat && (m <? end_)%nat then rotate (mark P_symmerge_rotate s1) start1 m end_ else s1 in
      let s3 := if (a <? start1)%nat && (start1 <? mid)%nat then sym_merge f s2 a start1 mid else s2 in
      if (mid <? end_)%nat && (end_ <? b)%nat then sym_merge f s3 mid end_ b else s3
  end.

(* for b <= n { insertionSort(a, b); a = b; b += blockSize } *)
Fixpoint st_blocks (fuel : nat) (s : st) (a b n blockSize : nat) : nat * st :=
  match fuel with
  | O => (a, bad s)
  | S f => if (b <=? n)%nat then st_blocks f (insertion_sort s a b) b (b + blockSize) n blockSize else (a, s)
  end.
(* for b <= n { symMerge(a, a+blockSize, b); a = b; b += 2*blockSize } *)
Fixpoint st_merge_pass (fuel : nat) (s : st) (a b n blockSize : nat) : nat * st :=
  match fuel with
  | O => (a, bad s)
  | S f => if (b <=? n)%nat then st_merge_pass f (sym_merge 64 s a (a + blockSize) b) b (b + 2 * blockSize) n blockSize
           else (a, s)
  end.
(* for blockSize < n { pass; tail; blockSize *= 2 } *)
Fixpoint st_passes (fuel : nat) (s : st) (n blockSize : nat) : st :=
  match fuel with
  | O => bad s
  | S f =>
    if (blockSize <? n)%nat then
      let '(a, s1) := st_merge_pass (S n) s 0 (2 * blockSize) n blockSize in
      let m := (a + blockSize)%nat in
      let s2 := if (m <? n)%nat then sym_merge 64 s1 a m n else s1 in
      st_passes f s2 n (blockSize * 2)
    else s
  end.
Definition stable (s : st) (n : nat) : st :=
  let '(a, s1) := st_blocks (S n) s 0 20 n 20 in
  let s2 := insertion_sort s1 a n in
  st_passes 64 s2 n 20.
Definition sort_stable_func (l : list Z) : st := stable (init l) (length l).

End Sort.

(* the two orders the harness uses: whole value, and key = value >> 20 (elements are key * 2^20 + tag) *)
Definition lt_full (x y : Z) : bool := x <? y.
Definition lt_key (x y : Z) : bool := Z.shiftr x 20 <? Z.shiftr y 20.
