(* C10 lemmas about the comparators. *)
From VF Require Import C10.Model C10.Spec.
From Coq Require Import QArith Qabs.
Local Open Scope Z_scope.

(* ---------- integers ---------- *)
Lemma ordered_cmp_sgn a b : ordered_cmp a b = Z.sgn (a - b).
Proof.
  unfold ordered_cmp, ternary. destruct (Z.eqb_spec a b) as [->|Hne].
  - now rewrite Z.sub_diag.
  - destruct (a >? b) eqn:E.
    + rewrite Z.sgn_pos; lia.
    + rewrite Z.sgn_neg; lia.
Qed.

Lemma ordered_cmp_values a b : ordered_cmp a b = -1 \/ ordered_cmp a b = 0 \/ ordered_cmp a b = 1.
Proof. rewrite ordered_cmp_sgn. destruct (Z.sgn_spec (a - b)) as [[_ ->]|[[_ ->]|[_ ->]]]; auto. Qed.

Lemma ordered_cmp_zero a b : ordered_cmp a b = 0 <-> a = b.
Proof. rewrite ordered_cmp_sgn, Z.sgn_null_iff. lia. Qed.

Lemma ordered_cmp_preorder : TotalPreorder ordered_cmp.
Proof.
  split.
  - intros a. rewrite ordered_cmp_sgn, Z.sub_diag. reflexivity.
  - intros a b. rewrite !ordered_cmp_sgn, !Z.sgn_sgn. replace (b - a) with (- (a - b)) by lia. apply Z.sgn_opp.
  - intros a b c. rewrite !ordered_cmp_sgn. intros H1 H2.
    apply Z.sgn_nonpos in H1. apply Z.sgn_nonpos in H2. apply Z.sgn_nonpos. lia.
Qed.

(* ReverseComparator negates (for any comparator) and keeps the laws *)
Lemma reverse_cmp_neg {T} (c : T -> T -> Z) a b : reverse_cmp c a b = - c a b.
Proof. unfold reverse_cmp. lia. Qed.

Lemma reverse_cmp_preorder {T} (c : T -> T -> Z) : TotalPreorder c -> TotalPreorder (reverse_cmp c).
Proof.
  intros [R A Tr]. split.
  - intros a. rewrite reverse_cmp_neg, R. reflexivity.
  - intros a b. rewrite !reverse_cmp_neg, !Z.sgn_opp, A. lia.
  - intros a b c0. rewrite !reverse_cmp_neg. intros H1 H2.
    assert (Hba : c b a <= 0).
    { pose proof (A a b) as E. destruct (Z.sgn_spec (c a b)) as [[? S1]|[[? S1]|[? S1]]];
      destruct (Z.sgn_spec (c b a)) as [[? S2]|[[? S2]|[? S2]]]; lia. }
    assert (Hcb : c c0 b <= 0).
    { pose proof (A b c0) as E. destruct (Z.sgn_spec (c b c0)) as [[? S1]|[[? S1]|[? S1]]];
      destruct (Z.sgn_spec (c c0 b)) as [[? S2]|[[? S2]|[? S2]]]; lia. }
    pose proof (Tr c0 b a Hcb Hba) as Hca.
    pose proof (A a c0) as E. destruct (Z.sgn_spec (c a c0)) as [[? S1]|[[? S1]|[? S1]]];
      destruct (Z.sgn_spec (c c0 a)) as [[? S2]|[[? S2]|[? S2]]]; lia.
Qed.

(* ---------- strings (byte lists) ---------- *)
Lemma str_eqb_lex a : forall b, str_eqb a b = true <-> lex_compare a b = Eq.
Proof.
  induction a as [|x a IH]; intros [|y b]; cbn [str_eqb lex_compare]; try (split; congruence).
  rewrite andb_true_iff, IH. destruct (Z.compare_spec x y) as [->|H|H].
  - rewrite Z.eqb_refl. tauto.
  - split; [intros [E _]; apply Z.eqb_eq in E; lia|discriminate].
  - split; [intros [E _]; apply Z.eqb_eq in E; lia|discriminate].
Qed.

Lemma str_gtb_lex a : forall b, str_gtb a b = true <-> lex_compare a b = Gt.
Proof.
  induction a as [|x a IH]; intros [|y b]; cbn [str_gtb lex_compare]; try (split; congruence).
  destruct (Z.compare_spec x y) as [->|H|H].
  - rewrite Z.gtb_ltb, Z.ltb_irrefl. apply IH.
  - replace (x >? y) with false by lia. replace (x <? y) with true by lia. split; discriminate.
  - replace (x >? y) with true by lia. tauto.
Qed.

Lemma lex_compare_eq a : forall b, lex_compare a b = Eq <-> a = b.
Proof.
  induction a as [|x a IH]; intros [|y b]; cbn [lex_compare]; try (split; congruence).
  destruct (Z.compare_spec x y) as [->|H|H].
  - rewrite IH. split; congruence.
  - split; [discriminate|]. intros E. inversion E. lia.
  - split; [discriminate|]. intros E. inversion E. lia.
Qed.

Lemma lex_compare_antisym a : forall b, lex_compare b a = CompOpp (lex_compare a b).
Proof.
  induction a as [|x a IH]; intros [|y b]; cbn [lex_compare]; try reflexivity.
  rewrite (Z.compare_antisym x y). destruct (x ?= y); cbn [CompOpp]; auto.
Qed.

Lemma ordered_cmp_str_sign a b : ordered_cmp_str a b = sign3 (lex_compare a b).
Proof.
  unfold ordered_cmp_str, ternary. pose proof (str_eqb_lex a b) as He. pose proof (str_gtb_lex a b) as Hg.
  destruct (lex_compare a b); destruct (str_eqb a b); destruct (str_gtb a b); cbn [sign3]; try reflexivity;
  try (destruct He as [He1 He2]; (discriminate (He1 eq_refl) || discriminate (He2 eq_refl)));
  try (destruct Hg as [Hg1 Hg2]; (discriminate (Hg1 eq_refl) || discriminate (Hg2 eq_refl))).
Qed.

Lemma strings_compare_sign a b : strings_compare a b = sign3 (lex_compare a b).
Proof.
  unfold strings_compare. pose proof (str_eqb_lex a b) as He. pose proof (str_gtb_lex b a) as Hg.
  rewrite (lex_compare_antisym a b) in Hg.
  destruct (lex_compare a b); destruct (str_eqb a b); destruct (str_gtb b a); cbn [sign3 CompOpp] in *; try reflexivity;
  try (destruct He as [He1 He2]; (discriminate (He1 eq_refl) || discriminate (He2 eq_refl)));
  try (destruct Hg as [Hg1 Hg2]; (discriminate (Hg1 eq_refl) || discriminate (Hg2 eq_refl))).
Qed.

Lemma lex_le_trans a : forall b c, lex_compare a b <> Gt -> lex_compare b c <> Gt -> lex_compare a c <> Gt.
Proof.
  induction a as [|x a IH]; intros [|y b] [|z c]; cbn [lex_compare]; try congruence.
  destruct (Z.compare_spec x y) as [E1|E1|E1]; destruct (Z.compare_spec y z) as [E2|E2|E2];
  destruct (Z.compare_spec x z) as [E3|E3|E3]; try congruence; try (exfalso; lia).
  apply IH.
Qed.

Lemma sign3_sgn c : Z.sgn (sign3 c) = sign3 c. Proof. now destruct c. Qed.
Lemma sign3_opp c : sign3 (CompOpp c) = - sign3 c. Proof. now destruct c. Qed.
Lemma sign3_nonpos c : sign3 c <= 0 <-> c <> Gt. Proof. destruct c; cbn; split; intros; (lia || congruence). Qed.

Lemma str_cmp_preorder : TotalPreorder ordered_cmp_str /\ TotalPreorder strings_compare.
Proof.
  assert (P : TotalPreorder (fun a b => sign3 (lex_compare a b))).
  { split.
    - intros a. now replace (lex_compare a a) with Eq by (symmetry; now apply lex_compare_eq).
    - intros a b. rewrite (lex_compare_antisym a b), sign3_opp, Z.sgn_opp, !sign3_sgn. reflexivity.
    - intros a b c. rewrite !sign3_nonpos. apply lex_le_trans. }
  destruct P as [R A T]. cbv beta in R, A, T.
  split; split; intros; rewrite ?ordered_cmp_str_sign, ?strings_compare_sign in *;
  first [apply R | apply A | eapply T; eassumption].
Qed.

(* ---------- bool ---------- *)
Lemma bool_cmp_sgn a b : bool_cmp a b = Z.sgn (b2z a - b2z b).
Proof. destruct a, b; reflexivity. Qed.
Lemma bool_cmp_preorder : TotalPreorder bool_cmp.
Proof. split; intros; repeat match goal with x : bool |- _ => destruct x end; cbn in *; lia. Qed.

(* ---------- floats ---------- *)
Section Float.
  Variable rnd : Q -> Q.
  Variable tol : Q.
  (* the assumed IEEE-754 behaviour of the machine subtraction: the correctly rounded exact difference, for a
     rounding that is monotone, symmetric under negation, and the identity on representable values *)
  Hypothesis rnd_mono : forall x y, (x <= y)%Q -> (rnd x <= rnd y)%Q.
  Hypothesis rnd_opp : forall x, (rnd (- x) == - rnd x)%Q.
  Variable representable : Q -> Prop.
  Hypothesis rnd_fix : forall x, representable x -> (rnd x == x)%Q.
  Hypothesis tol_repr : representable tol.
  Hypothesis tol_pos : (0 < tol)%Q.

  Lemma Qltb_lt x y : Qltb x y = true <-> (x < y)%Q.
  Proof.
    unfold Qltb. rewrite negb_true_iff. split.
    - intros H. apply Qnot_le_lt. intros L. apply Qle_bool_iff in L. congruence.
    - intros H. destruct (Qle_bool y x) eqn:E; [|reflexivity]. apply Qle_bool_iff in E.
      exfalso. eapply Qlt_not_le; eassumption.
  Qed.

  Lemma fabs_Qabs x : (fabs x == Qabs x)%Q.
  Proof.
    unfold fabs. destruct (Qltb 0 x) eqn:E.
    - apply Qltb_lt in E. symmetry. apply Qabs_pos. now apply Qlt_le_weak.
    - assert (x <= 0)%Q.
      { apply Qnot_lt_le. intros L. apply Qltb_lt in L. congruence. }
      symmetry. now apply Qabs_neg.
  Qed.

  (* more than the tolerance apart: the sign of the exact difference *)
  Lemma float_cmp_far a b : (tol < Qabs (a - b))%Q ->
    float_cmp rnd tol a b = (if Qlt_le_dec b a then 1 else -1).
  Proof.
    intros H. unfold float_cmp, ternary.
    assert (Hge : (tol <= Qabs (rnd (a - b)))%Q).
    { destruct (Qlt_le_dec 0 (a - b)) as [Hp|Hn].
      - rewrite Qabs_pos in H by now apply Qlt_le_weak.
        assert (L : (tol <= rnd (a - b))%Q) by (rewrite <- (rnd_fix tol tol_repr); apply rnd_mono; now apply Qlt_le_weak).
        eapply Qle_trans; [exact L|apply Qle_Qabs].
      - rewrite Qabs_neg in H by assumption.
        assert (L : (tol <= rnd (- (a - b)))%Q) by (rewrite <- (rnd_fix tol tol_repr); apply rnd_mono; now apply Qlt_le_weak).
        rewrite rnd_opp in L. eapply Qle_trans; [exact L|]. rewrite <- Qabs_opp. apply Qle_Qabs. }
    destruct (Qltb (fabs (rnd (a - b))) tol) eqn:E.
    - apply Qltb_lt in E. rewrite fabs_Qabs in E. exfalso. eapply Qlt_not_le; eassumption.
    - destruct (Qlt_le_dec b a) as [L|L].
      + replace (Qltb b a) with true by (symmetry; now apply Qltb_lt). reflexivity.
      + destruct (Qltb b a) eqn:E2; [|reflexivity]. apply Qltb_lt in E2. exfalso. eapply Qlt_not_le; eassumption.
  Qed.

  (* ... and that sign is the native order: 1 iff a > b, -1 iff a < b (a = b is excluded by the premise) *)
  Lemma float_cmp_far_order a b : (tol < Qabs (a - b))%Q ->
    (float_cmp rnd tol a b = 1 /\ (b < a)%Q) \/ (float_cmp rnd tol a b = -1 /\ (a < b)%Q).
  Proof.
    intros H. rewrite (float_cmp_far a b H). destruct (Qlt_le_dec b a) as [L|L]; [now left|right].
    split; [reflexivity|]. apply Qle_lt_or_eq in L as [L|E]; [assumption|].
    exfalso. assert (Z0 : (a - b == 0)%Q) by (rewrite E; ring). rewrite Z0 in H. cbn in H.
    eapply Qlt_not_le; [exact H|]. now apply Qlt_le_weak.
  Qed.

  (* within a representable bound below the tolerance: zero *)
  Lemma float_cmp_near a b t : representable t -> (t < tol)%Q -> (Qabs (a - b) <= t)%Q -> float_cmp rnd tol a b = 0.
  Proof.
    intros Ht Hlt H. unfold float_cmp, ternary.
    assert (Hle : (Qabs (rnd (a - b)) <= t)%Q).
    { apply Qabs_Qle_condition in H as [H1 H2]. apply Qabs_Qle_condition. split.
      - assert (L : (rnd (- t) <= rnd (a - b))%Q) by now apply rnd_mono.
        rewrite rnd_opp, (rnd_fix t Ht) in L. exact L.
      - rewrite <- (rnd_fix t Ht). now apply rnd_mono. }
    replace (Qltb (fabs (rnd (a - b))) tol) with true; [reflexivity|].
    symmetry. apply Qltb_lt. rewrite fabs_Qabs. eapply Qle_lt_trans; eassumption.
  Qed.

  Lemma float_cmp_values a b : float_cmp rnd tol a b = -1 \/ float_cmp rnd tol a b = 0 \/ float_cmp rnd tol a b = 1.
  Proof. unfold float_cmp, ternary. destruct (Qltb _ tol); destruct (Qltb b a); auto. Qed.
End Float.
