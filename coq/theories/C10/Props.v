(* C10 property theorems: statements closed by lemmas of the Proofs*.v files, a non-vacuity Example, Print Assumptions.
   Elements are Z (every Go integer type is a sub-range; the comparator theorems hold on all of Z), strings are
   byte lists, [less] is an arbitrary boolean relation unless hypotheses are stated. *)
From VF Require Import C10.Model C10.SortModel C10.Spec C10.CmpSel C10.ProofsCmpSel C10.ProofsCmp C10.ProofsSearch C10.ProofsSpec C10.ProofsPerm
  C10.ProofsInsertion C10.ProofsHeap C10.ProofsPartition C10.ProofsFrame C10.ProofsPartial C10.ProofsPivot C10.ProofsMain
  C10.ProofsStableBase C10.ProofsRotate C10.ProofsSymMerge C10.ProofsStable C10.Check.
From Coq Require Import QArith Qabs Sorted.
Local Open Scope Z_scope.

(* ---------- comparators ---------- *)
Theorem C10_cmp_int : forall a b,
  ordered_cmp a b = Z.sgn (a - b) /\ (ordered_cmp a b = 0 <-> a = b) /\
  (ordered_cmp a b = -1 \/ ordered_cmp a b = 0 \/ ordered_cmp a b = 1).
Proof. intros a b. split; [apply ordered_cmp_sgn|split; [apply ordered_cmp_zero|apply ordered_cmp_values]]. Qed.
Theorem C10_cmp_int_laws : TotalPreorder ordered_cmp.
Proof. exact ordered_cmp_preorder. Qed.
Theorem C10_cmp_string : forall a b,
  ordered_cmp_str a b = sign3 (lex_compare a b) /\ strings_compare a b = sign3 (lex_compare a b) /\
  (lex_compare a b = Eq <-> a = b).
Proof. intros a b. split; [apply ordered_cmp_str_sign|split; [apply strings_compare_sign|apply lex_compare_eq]]. Qed.
Theorem C10_cmp_string_laws : TotalPreorder ordered_cmp_str /\ TotalPreorder strings_compare.
Proof. exact str_cmp_preorder. Qed.
Theorem C10_cmp_bool : (forall a b, bool_cmp a b = Z.sgn (b2z a - b2z b)) /\ TotalPreorder bool_cmp.
Proof. split; [exact bool_cmp_sgn|exact bool_cmp_preorder]. Qed.
Theorem C10_cmp_reverse : forall (T : Type) (c : T -> T -> Z),
  (forall a b, reverse_cmp c a b = - c a b) /\ (TotalPreorder c -> TotalPreorder (reverse_cmp c)).
Proof. intros T c. split; [apply reverse_cmp_neg|apply reverse_cmp_preorder]. Qed.
(* floats: rnd = the machine subtraction as a rounding of the exact difference; assumed monotone, odd, identity on
   representable values; tol representable and positive *)
Theorem C10_cmp_float : forall (rnd : Q -> Q) (tol : Q) (representable : Q -> Prop),
  (forall x y, (x <= y)%Q -> (rnd x <= rnd y)%Q) -> (forall x, (rnd (- x) == - rnd x)%Q) ->
  (forall x, representable x -> (rnd x == x)%Q) -> representable tol -> (0 < tol)%Q ->
  forall a b,
  ((tol < Qabs (a - b))%Q ->
     (float_cmp rnd tol a b = 1 /\ (b < a)%Q) \/ (float_cmp rnd tol a b = -1 /\ (a < b)%Q)) /\
  (forall t, representable t -> (t < tol)%Q -> (Qabs (a - b) <= t)%Q -> float_cmp rnd tol a b = 0) /\
  (float_cmp rnd tol a b = -1 \/ float_cmp rnd tol a b = 0 \/ float_cmp rnd tol a b = 1).
Proof.
  intros rnd tol repr Hm Ho Hf Ht Hp a b. split; [|split].
  - now apply (float_cmp_far_order rnd tol Hm Ho repr Hf Ht).
  - intros t. now apply (float_cmp_near rnd tol Hm Ho repr Hf).
  - apply float_cmp_values.
Qed.

(* ---------- searches and predicates ---------- *)
Theorem C10_binary_search : forall xs t,
  Z.of_nat (length xs) < 2 ^ 63 -> nondecreasing xs ->
  binary_search xs t = (count_while (fun e => e <? t) xs, existsb (fun e => e =? t) xs).
Proof. exact binary_search_ok. Qed.
Theorem C10_binary_search_func : forall cmp xs t,
  Z.of_nat (length xs) < 2 ^ 63 ->
  prefix_closed xs (fun e => cmp e t <? 0) -> prefix_closed xs (fun e => cmp e t <=? 0) ->
  binary_search_func cmp xs t = (count_while (fun e => cmp e t <? 0) xs, existsb (fun e => cmp e t =? 0) xs).
Proof. exact binary_search_func_ok. Qed.
Theorem C10_is_sorted : forall less xs,
  is_sorted_func less xs = sorted_adj_b less xs /\
  ((forall a b c, less b a = false -> less c b = false -> less c a = false) ->
   (sorted_adj_b less xs = true <-> SortedBy less xs)).
Proof.
  intros less xs. split; [apply is_sorted_func_ok|]. intros Htr.
  split; [now apply sorted_adj_b_sound|now apply sorted_adj_b_complete].
Qed.
Theorem C10_compare_equal : forall s1 s2 (f : Z -> Z),
  compare_ord s1 s2 = sign3 (lex_compare s1 s2) /\
  compare_func (fun a b => ordered_cmp (f a) (f b)) s1 s2 = sign3 (lex_compare (map f s1) (map f s2)) /\
  (equal_func Z.eqb s1 s2 = true <-> s1 = s2) /\
  (equal_func (fun a b => f a =? f b) s1 s2 = true <-> map f s1 = map f s2).
Proof.
  intros. split; [apply compare_ord_ok|split; [apply compare_func_proj|split; [apply equal_func_ok|apply equal_func_proj]]].
Qed.
Theorem C10_index_contains : forall s v,
  ((index s v = -1 /\ ~ In v s) \/
   (0 <= index s v < Z.of_nat (length s) /\ nth (Z.to_nat (index s v)) s 0 = v /\ ~ In v (firstn (Z.to_nat (index s v)) s)))
  /\ (contains s v = true <-> In v s).
Proof. intros s v. split; [apply index_ok|apply contains_ok]. Qed.

(* ---------- sorts ---------- *)
(* the result is a permutation of the input: all inputs, any less (no order hypothesis), including runs that panic *)
Theorem C10_sort_perm : forall less l,
  Permutation l (sd (sort_func less l)) /\ Permutation l (sd (sort_stable_func less l)).
Proof. intros. split; [apply sort_func_perm|apply sort_stable_func_perm]. Qed.
(* insertionSort(data, a, b): sorted range, rest untouched, no index panic *)
Theorem C10_insertion_sorted : forall less,
  (forall a b, less a b = true -> less b a = false) ->
  (forall a b c, less b a = false -> less c b = false -> less c a = false) ->
  forall s a b, (b <= length (sd s))%nat ->
  let s' := insertion_sort less s a b in
  sorted_range less (sd s') a b /\ length (sd s') = length (sd s) /\
  (forall x, (x < a \/ b <= x)%nat -> getd (sd s') x = getd (sd s) x) /\ sbad s' = sbad s.
Proof. intros less Ha Ht. exact (insertion_sort_sorted less Ha Ht). Qed.
(* heapSort(data, a, b): the same for the heapsort fallback *)
Theorem C10_heapsort_sorted : forall less,
  (forall a b, less a b = true -> less b a = false) ->
  (forall a b c, less b a = false -> less c b = false -> less c a = false) ->
  forall s a b, (a <= b <= length (sd s))%nat ->
  let s' := heap_sort less s a b in
  sorted_range less (sd s') a b /\ length (sd s') = length (sd s) /\
  (forall x, (x < a \/ b <= x)%nat -> getd (sd s') x = getd (sd s) x) /\ sbad s' = sbad s.
Proof. intros less Ha Ht. exact (heap_sort_sorted less Ha Ht). Qed.
(* partition(data, a, b, pivot) and partitionEqual: post-conditions for ANY less, no index panic *)
Theorem C10_partition_post : forall less s a b pivot,
  (a <= pivot)%nat -> (pivot < b)%nat -> (b <= length (sd s))%nat ->
  let r := SortModel.partition less s a b pivot in
  let mid := fst (fst r) in let d := sd s in let d' := sd (snd r) in let p := getd d pivot in
  (a <= mid)%nat /\ (mid < b)%nat /\ getd d' mid = p /\
  (forall x, (a <= x)%nat -> (x < mid)%nat -> less (getd d' x) p = true) /\
  (forall x, (mid < x)%nat -> (x < b)%nat -> less (getd d' x) p = false) /\
  length d' = length d /\ (forall x, (x < a \/ b <= x)%nat -> getd d' x = getd d x) /\ sbad (snd r) = sbad s.
Proof. exact partition_post. Qed.
Theorem C10_partition_equal_post : forall less s a b pivot,
  (a <= pivot)%nat -> (pivot < b)%nat -> (b <= length (sd s))%nat -> less (getd (sd s) pivot) (getd (sd s) pivot) = false ->
  let r := partition_equal less s a b pivot in
  let mid := fst r in let d := sd s in let d' := sd (snd r) in let p := getd d pivot in
  (a < mid)%nat /\ (mid <= b)%nat /\ getd d' a = p /\
  (forall x, (a <= x)%nat -> (x < mid)%nat -> less p (getd d' x) = false) /\
  (forall x, (mid <= x)%nat -> (x < b)%nat -> less p (getd d' x) = true) /\
  length d' = length d /\ (forall x, (x < a \/ b <= x)%nat -> getd d' x = getd d x) /\ sbad (snd r) = sbad s.
Proof. exact partition_equal_post. Qed.
(* historical partial statement, kept: the inputs that pdqsort hands to insertion sort directly (n <= 12);
   subsumed by C10_sort_sorted below *)
Theorem C10_sort_sorted_partial : forall less,
  (forall a b, less a b = true -> less b a = false) ->
  (forall a b c, less b a = false -> less c b = false -> less c a = false) ->
  forall l, (length l <= 12)%nat ->
  StronglySorted (le less) (sd (sort_func less l)) /\ sbad (sort_func less l) = false.
Proof. intros less Ha Ht. exact (sort_func_short_sorted less Ha Ht). Qed.

(* FULL STATEMENT for SortFunc / Sort (pdqsort): for every strict weak order (irreflexive, transitive, incomparability
   transitive) and EVERY input list the model finishes without index panic with its own fuel (S n), and the
   result is sorted (no inversion) and a permutation of the input. *)
Theorem C10_sort_sorted : forall less, StrictWeakOrder less -> forall l,
  let s := sort_func less l in
  sbad s = false /\ SortedBy less (sd s) /\ Permutation l (sd s) /\
  (forall i j, (i < j)%nat -> (j < length l)%nat -> less (nth j (sd s) 0) (nth i (sd s) 0) = false).
Proof. intros less H l. exact (sort_func_sorted less (swo_asym less H) (swo_negtrans less H) l). Qed.
(* the recursive worker on any sub-range, any limit / wasBalanced / wasPartitioned (so also the heapsort fallback
   and breakPatterns paths), under the loop invariant Pre: data[a-1] <= data[a:b] *)
Theorem C10_pdqsort_range : forall less, StrictWeakOrder less ->
  forall fuel s a b limit wb wp,
  (b - a < fuel)%nat -> (a <= b)%nat -> (b <= length (sd s))%nat -> Pre less (sd s) a b ->
  let s' := pdqsort less fuel s a b limit wb wp in
  sorted_range less (sd s') a b /\ length (sd s') = length (sd s) /\
  (forall x, (x < a \/ b <= x)%nat -> getd (sd s') x = getd (sd s) x) /\ sbad s' = sbad s /\
  Permutation (sd s) (sd s').
Proof. intros less H. exact (pdqsort_spec less (swo_asym less H) (swo_negtrans less H)). Qed.
(* partialInsertionSort: true only on a sorted range; always an in-place permutation of the range (under Pre) *)
Theorem C10_partial_insertion : forall less, StrictWeakOrder less ->
  forall s a b, (a < b)%nat -> (b <= length (sd s))%nat -> Pre less (sd s) a b ->
  let r := partial_insertion_sort less s a b in
  Fr a b s (snd r) /\ (fst r = true -> sorted_range less (sd (snd r)) a b).
Proof. intros less H. exact (partial_insertion_sort_spec less (swo_asym less H) (swo_negtrans less H)). Qed.
(* choosePivot returns an index of the range and writes nothing; breakPatterns / reverseRange permute in place *)
Theorem C10_pivot_in_range : forall less s a b, (a < b)%nat -> (b <= length (sd s))%nat ->
  (let r := choose_pivot less s a b in
   sd (snd r) = sd s /\ sbad (snd r) = sbad s /\ (a <= fst (fst r))%nat /\ (fst (fst r) < b)%nat) /\
  Fr a b s (break_patterns s a b) /\ Fr a b s (reverse_range s a b).
Proof.
  intros less s a b Hab Hb. split; [now apply choose_pivot_spec|]. split; [now apply break_patterns_Fr|now apply reverse_range_Fr].
Qed.

(* FULL STATEMENT for SortStableFunc (insertionSort blocks of 20 + symMerge rounds): for every strict weak order and
   EVERY input list shorter than 2^63 (Go's int; the model's doubling / recursion-depth fuel is 64) the model finishes
   without index panic, the result is sorted, a permutation of the input, and STABLE: for every element x the
   elements equivalent to x (neither less than the other) appear in the output in their input order. *)
Theorem C10_stable_sorted : forall less, StrictWeakOrder less -> forall l,
  Z.of_nat (length l) < 2 ^ 63 ->
  let s := sort_stable_func less l in
  sbad s = false /\ SortedBy less (sd s) /\ Permutation l (sd s) /\
  (forall x, filter (eqv less x) (sd s) = filter (eqv less x) l).
Proof. intros less H l. exact (sort_stable_func_sorted less (swo_asym less H) (swo_negtrans less H) l). Qed.
(* the same in the vocabulary of the verified checker C10_stable_checker (order on key = value >> 20): the model's
   output satisfies Spec.Stable for every input, not only inputs whose tags increase *)
Theorem C10_stable_key : forall l, Z.of_nat (length l) < 2 ^ 63 ->
  let s := sort_stable_func lt_key l in
  sbad s = false /\ SortedBy lt_key (sd s) /\ Stable l (sd s).
Proof.
  intros l Hl. assert (H : StrictWeakOrder lt_key).
  { constructor; unfold lt_key; intros; rewrite ?Z.ltb_lt, ?Z.ltb_ge in *; lia. }
  destruct (sort_stable_func_sorted lt_key (swo_asym _ H) (swo_negtrans _ H) l Hl) as (B & S & P & St).
  split; [exact B|]. split; [exact S|]. now apply StablePerm_key.
Qed.
(* symMerge on any two adjacent sorted runs: sorted, in place, stable, no panic, fuel f enough for b - a <= 2^f *)
Theorem C10_symmerge : forall less, StrictWeakOrder less -> forall fuel s a m b,
  Z.of_nat (b - a) <= 2 ^ Z.of_nat fuel -> (a < m)%nat -> (m < b)%nat -> (b <= length (sd s))%nat ->
  sorted_range less (sd s) a m -> sorted_range less (sd s) m b ->
  let s' := sym_merge less fuel s a m b in
  sorted_range less (sd s') a b /\ Fr a b s s' /\ StablePerm less (sd s) (sd s').
Proof. intros less H. exact (sym_merge_spec less (swo_asym less H) (swo_negtrans less H)). Qed.
(* rotate (swapRange block swap): data[a:m] and data[m:b] exchanged, nothing else touched, no panic, fuel suffices *)
Theorem C10_rotate : forall s a m b, (a < m)%nat -> (m < b)%nat -> (b <= length (sd s))%nat ->
  let s' := rotate s a m b in Rot (sd s) (sd s') a m b /\ Fr a b s s'.
Proof. exact rotate_spec. Qed.

(* ---------- the verified output checkers that decide every observed sort result ---------- *)
Theorem C10_sorted_perm_checker : forall less xs ys,
  (forall a b c, less b a = false -> less c b = false -> less c a = false) ->
  (sorted_perm_b less xs ys = true <-> SortedBy less ys /\ Permutation xs ys).
Proof. exact sorted_perm_b_ok. Qed.
Theorem C10_checker_orders :
  (forall a b c, lt_full b a = false -> lt_full c b = false -> lt_full c a = false) /\
  (forall a b c, lt_key b a = false -> lt_key c b = false -> lt_key c a = false).
Proof. split; [exact lt_full_trans|exact lt_key_trans]. Qed.
Theorem C10_stable_checker : forall xs ys,
  tags_increasing_b xs = true -> stable_sorted_b xs ys = true -> SortedBy lt_key ys /\ Stable xs ys.
Proof. exact stable_sorted_b_sound. Qed.

(* CompareFunc / EqualFunc for an ARBITRARY user comparison / predicate: the exact returned value (the first non-zero
   cmp result, else the comparison of the lengths; same length and eq on every pair) and the exact calls: pairs
   (s1[i], s2[i]) with the first argument from s1, in increasing i, up to the first one that decides *)
Theorem C10_compare_func_spec : forall cmp s1 s2,
  compare_func cmp s1 s2 = spec_compare_func cmp s1 s2 /\
  compare_func_tr cmp s1 s2 = (compare_func cmp s1 s2, spec_compare_calls cmp s1 s2) /\
  (forall p, In p (spec_compare_calls cmp s1 s2) -> In p (combine s1 s2)).
Proof.
  intros. split; [apply compare_func_spec|split].
  - rewrite <- compare_func_tr_fst, <- compare_func_tr_calls. now destruct (compare_func_tr cmp s1 s2).
  - intros p. apply (spec_calls_oriented cmp (fun _ _ => true) s1 s2 p).
Qed.
Theorem C10_equal_func_spec : forall eq s1 s2,
  equal_func eq s1 s2 = spec_equal_func eq s1 s2 /\
  equal_func_tr eq s1 s2 = (equal_func eq s1 s2, spec_equal_calls eq s1 s2) /\
  (forall p, In p (spec_equal_calls eq s1 s2) -> In p (combine s1 s2)).
Proof.
  intros. split; [apply equal_func_spec|split].
  - rewrite <- equal_func_tr_fst, <- equal_func_tr_calls. now destruct (equal_func_tr eq s1 s2).
  - intros p. apply (spec_calls_oriented (fun _ _ => 0) eq s1 s2 p).
Qed.
(* the comparison shapes of the runs are comparators; "cmp < 0" is a legitimate less for the output checker and
   makes the sign of cmp(e, target) monotone along a sorted slice (BinarySearchFunc's precondition);
   ReverseComparator returns exactly the negated value *)
Theorem C10_cmpsel_laws : forall c,
  TotalPreorder (zcmp_of c) /\
  (forall a b d, (zcmp_of c b a <? 0) = false -> (zcmp_of c d b <? 0) = false -> (zcmp_of c d a <? 0) = false) /\
  (forall a b t, (zcmp_of c b a <? 0) = false ->
     ((zcmp_of c b t <? 0) = true -> (zcmp_of c a t <? 0) = true) /\ ((zcmp_of c b t <=? 0) = true -> (zcmp_of c a t <=? 0) = true)) /\
  (forall a b, reverse_cmp (zcmp_of c) a b = - zcmp_of c a b).
Proof.
  intros c. split; [apply zcmp_of_preorder|split; [apply zcmp_less_trans|split; [apply zcmp_sign_monotone|]]].
  intros a b. apply reverse_cmp_neg.
Qed.

(* Index / Contains for an ARBITRARY element equality (float NaN is not == to itself: relation EPartial of CmpSel.v);
   Equal / Compare for such elements are C10_equal_func_spec / C10_compare_func_spec at eq_of e / cmp3_by (lt_of e) *)
Theorem C10_element_relations : forall eq s v,
  index_by eq s v = spec_index eq s v /\ contains_by eq s v = existsb (eq v) s /\ index_by Z.eqb s v = index s v /\
  (forall a, eq_of EPartial nan_code a = false /\ eq_of EPartial a nan_code = false /\
             lt_of EPartial nan_code a = false /\ lt_of EPartial a nan_code = false /\ cmp3_by (lt_of EPartial) a nan_code = 0).
Proof.
  intros. split; [apply index_by_spec|split; [apply contains_by_spec|split; [apply index_by_native|apply partial_nan]]].
Qed.

(* non-vacuity: lt_full is a strict weak order in the sense of the hypotheses; the identity rounding with every
   rational representable meets the float hypotheses; a concrete input is sorted by the model *)
Example C10_nonvacuous :
  (forall a b, lt_full a b = true -> lt_full b a = false) /\
  (forall a b c, lt_full b a = false -> lt_full c b = false -> lt_full c a = false) /\
  ((forall x y, (x <= y)%Q -> (x <= y)%Q) /\ (forall x, (- x == - x)%Q) /\ (0 < 1 # 10000000)%Q) /\
  sd (sort_func lt_full [5; 3; 9; 1; 3; 20; 19; 18; 17; 16; 15; 14; 13; 12; 11; 10]) =
    [1; 3; 3; 5; 9; 10; 11; 12; 13; 14; 15; 16; 17; 18; 19; 20] /\
  binary_search [1; 3; 3; 5; 9] 3 = (1, true) /\ nondecreasing [1; 3; 3; 5; 9].
Proof.
  split; [intros a b; unfold lt_full; lia|]. split; [exact lt_full_trans|].
  split; [split; [auto|split; [reflexivity|reflexivity]]|].
  split; [vm_compute; reflexivity|]. split; [vm_compute; reflexivity|].
  intros a b Ha Hab Hb. cbn [length] in Hb.
  assert (Ea : a = 0 \/ a = 1 \/ a = 2 \/ a = 3 \/ a = 4) by lia.
  assert (Eb : b = 0 \/ b = 1 \/ b = 2 \/ b = 3 \/ b = 4) by lia.
  destruct Ea as [->|[->|[->|[->| ->]]]]; destruct Eb as [->|[->|[->|[->| ->]]]]; try lia; vm_compute; discriminate.
Qed.

Example C10_swo_nonvacuous : StrictWeakOrder lt_full /\ StrictWeakOrder lt_key.
Proof.
  split; constructor; unfold lt_full, lt_key; intros; rewrite ?Z.ltb_lt, ?Z.ltb_ge in *; lia.
Qed.
(* 100 tagged elements with 5 distinct keys: the stable model output is what the verified checker accepts, and the
   run goes through the rotation branch of symMerge; 100 elements in a pattern that sends pdqsort through partition *)
Definition ex_tagged : list Z := map (fun i => ((Z.of_nat i * 7) mod 5) * 2 ^ 20 + Z.of_nat i) (seq 0 100).
Example C10_sorts_nonvacuous :
  tags_increasing_b ex_tagged = true /\
  stable_sorted_b ex_tagged (sd (sort_stable_func lt_key ex_tagged)) = true /\
  sbad (sort_stable_func lt_key ex_tagged) = false /\
  Z.testbit (spath (sort_stable_func lt_key ex_tagged)) P_symmerge_rotate = true /\
  sorted_perm_b lt_key ex_tagged (sd (sort_func lt_key ex_tagged)) = true /\
  Z.testbit (spath (sort_func lt_key ex_tagged)) P_insertion = true.
Proof. vm_compute. repeat split. Qed.

Print Assumptions C10_cmp_int.
Print Assumptions C10_cmp_int_laws.
Print Assumptions C10_cmp_string.
Print Assumptions C10_cmp_string_laws.
Print Assumptions C10_cmp_bool.
Print Assumptions C10_cmp_reverse.
Print Assumptions C10_cmp_float.
Print Assumptions C10_binary_search.
Print Assumptions C10_binary_search_func.
Print Assumptions C10_is_sorted.
Print Assumptions C10_compare_equal.
Print Assumptions C10_index_contains.
Print Assumptions C10_sort_perm.
Print Assumptions C10_insertion_sorted.
Print Assumptions C10_heapsort_sorted.
Print Assumptions C10_partition_post.
Print Assumptions C10_partition_equal_post.
Print Assumptions C10_sort_sorted_partial.
Print Assumptions C10_sort_sorted.
Print Assumptions C10_pdqsort_range.
Print Assumptions C10_partial_insertion.
Print Assumptions C10_pivot_in_range.
Print Assumptions C10_stable_sorted.
Print Assumptions C10_stable_key.
Print Assumptions C10_symmerge.
Print Assumptions C10_rotate.
Print Assumptions C10_sorted_perm_checker.
Print Assumptions C10_checker_orders.
Print Assumptions C10_stable_checker.
Print Assumptions C10_compare_func_spec.
Print Assumptions C10_equal_func_spec.
Print Assumptions C10_cmpsel_laws.
Print Assumptions C10_element_relations.
