(* Timed complete histories, linearizability with respect to a deterministic sequential
   specification [step : S -> C -> S * R], and a verified decision procedure.

   [lin_check] is a depth-first search over the minimal pending operations (Wing & Gong) with a
   cache of configurations (remaining operations, state) already known to be dead ends (Lowe).
   It is sound AND complete:  lin_check s h = true <-> linearizable s h.
   [lin_segments] justifies cutting a long run at quiescent points.

   Generic: a property instantiates the Section with its own spec and boolean equalities on
   calls, results and states. Stdlib only. *)
From Coq Require Import List NArith Lia Bool Permutation Arith.
Import ListNotations.

Section Lin.
Variables (S C R : Type).
Variable step : S -> C -> S * R.
Variable req : R -> R -> bool.
Hypothesis req_spec : forall a b, req a b = true <-> a = b.
Variable ceq : C -> C -> bool.
Hypothesis ceq_spec : forall a b, ceq a b = true <-> a = b.
Variable steq : S -> S -> bool.
Hypothesis steq_spec : forall a b, steq a b = true <-> a = b.

(* one completed operation: invocation stamp, response stamp, the call and what it returned *)
Record op := { inv : N; resp : N; call : C; ret : R }.

(* a sequential order is acceptable if no later operation had already responded
   before an earlier one was invoked, and the spec reproduces every result *)
Fixpoint rt_ok (l : list op) : Prop :=
  match l with
  | [] => True
  | o :: l' => (forall p, In p l' -> ~ (resp p < inv o)%N) /\ rt_ok l'
  end.

(* the spec, started in s, reproduces every result of l and ends in s' *)
Fixpoint seq_to (s : S) (l : list op) (s' : S) : Prop :=
  match l with
  | [] => s' = s
  | o :: l' => let '(s1, r) := step s (call o) in r = ret o /\ seq_to s1 l' s'
  end.

Definition seq_ok (s : S) (l : list op) : Prop := exists s', seq_to s l s'.

Definition lin_to (s : S) (h : list op) (s' : S) : Prop :=
  exists l, Permutation h l /\ rt_ok l /\ seq_to s l s'.

Definition linearizable (s : S) (h : list op) : Prop :=
  exists l, Permutation h l /\ rt_ok l /\ seq_ok s l.

Lemma linearizable_lin_to s h : linearizable s h <-> exists s', lin_to s h s'.
Proof.
  split.
  - intros (l & HP & Hrt & (s' & Hs)). exists s', l. auto.
  - intros (s' & l & HP & Hrt & Hs). exists l. split; [|split]; auto. now exists s'.
Qed.

(* ------------------------------------------------------------------ picks *)

(* all ways of picking one element, with the remainder (relative order kept) *)
Fixpoint picks {A} (l : list A) : list (A * list A) :=
  match l with
  | [] => []
  | x :: l' => (x, l') :: map (fun '(y, r) => (y, x :: r)) (picks l')
  end.

Lemma picks_perm {A} (l : list A) x r : In (x, r) (picks l) -> Permutation l (x :: r).
Proof.
  revert x r. induction l as [|a l IH]; simpl; intros x r H; [tauto|].
  destruct H as [H|H].
  - inversion H; subst. reflexivity.
  - apply in_map_iff in H. destruct H as ([y r'] & Heq & Hin). inversion Heq; subst.
    apply IH in Hin. rewrite Hin. apply perm_swap.
Qed.

Lemma picks_complete {A} (l : list A) x l' :
  Permutation l (x :: l') -> exists r, In (x, r) (picks l) /\ Permutation r l'.
Proof.
  revert x l'. induction l as [|a l IH]; intros x l' HP.
  - apply Permutation_nil in HP. discriminate.
  - assert (Hin : In x (a :: l)) by (eapply Permutation_in; [symmetry; exact HP|left; reflexivity]).
    destruct Hin as [->|Hin].
    + exists l. split; [left; reflexivity|]. eapply Permutation_cons_inv; eauto.
    + destruct (in_split _ _ Hin) as (l1 & l2 & ->).
      assert (HP' : Permutation (l1 ++ x :: l2) (x :: l1 ++ l2)) by (symmetry; apply Permutation_middle).
      destruct (IH x (l1 ++ l2) HP') as (r & Hr & Hperm).
      exists (a :: r). split.
      * right. apply in_map_iff. exists (x, r). auto.
      * apply Permutation_cons_inv with x.
        rewrite <- HP. rewrite perm_swap. constructor. rewrite Hperm. apply Permutation_middle.
Qed.

Lemma picks_length {A} (l : list A) x r : In (x, r) (picks l) -> Datatypes.S (length r) = length l.
Proof. intros H. apply picks_perm in H. apply Permutation_length in H. simpl in H. lia. Qed.

Definition minimal (o : op) (rest : list op) : bool :=
  forallb (fun p => negb (resp p <? inv o)%N) rest.

Lemma minimal_spec o rest : minimal o rest = true <-> (forall p, In p rest -> ~ (resp p < inv o)%N).
Proof.
  unfold minimal. rewrite forallb_forall. split; intros H p Hp; specialize (H p Hp).
  - rewrite negb_true_iff, N.ltb_ge in H. lia.
  - rewrite negb_true_iff, N.ltb_ge. lia.
Qed.

(* ------------------------------------------------------------------ the search *)

(* "from state s the operations p can be linearized" *)
Definition Lin (s : S) (p : list op) : Prop :=
  exists l, Permutation p l /\ rt_ok l /\ seq_ok s l.

(* one admissible first step of a linearization of a non-empty p *)
Definition good_pick (s : S) (c : op * list op) : Prop :=
  let '(o, rest) := c in
  minimal o rest = true /\ req (snd (step s (call o))) (ret o) = true /\ Lin (fst (step s (call o))) rest.

Lemma Lin_nil s : Lin s [].
Proof. exists []. split; [constructor|split; [exact I|exists s; reflexivity]]. Qed.

Lemma Lin_unfold s p : p <> [] -> (Lin s p <-> exists c, In c (picks p) /\ good_pick s c).
Proof.
  intros Hne. split.
  - intros (l & HP & Hrt & (sf & Hs)). destruct l as [|o l].
    + apply Permutation_sym, Permutation_nil in HP. contradiction.
    + destruct (picks_complete _ _ _ HP) as (rest & Hin & Hperm).
      exists (o, rest). split; [exact Hin|]. simpl in Hrt, Hs. destruct Hrt as [Hmin Hrt].
      unfold good_pick. destruct (step s (call o)) as [s1 r] eqn:Es. destruct Hs as [Hr Hs]. cbn [fst snd].
      split; [|split].
      * apply minimal_spec. intros p0 Hp0. apply Hmin. eapply Permutation_in; eauto.
      * now apply req_spec.
      * exists l. split; [exact Hperm|split; [exact Hrt|now exists sf]].
  - intros ([o rest] & Hin & Hmin & Hr & (l & HP & Hrt & (sf & Hs))).
    exists (o :: l). split; [|split].
    + rewrite (picks_perm _ _ _ Hin). now constructor.
    + simpl. split; [|exact Hrt]. rewrite minimal_spec in Hmin. intros p0 Hp0. apply Hmin.
      eapply Permutation_in; [symmetry; exact HP|exact Hp0].
    + exists sf. simpl. destruct (step s (call o)) as [s1 r]. cbn [fst snd] in *. split; [now apply req_spec|exact Hs].
Qed.

Definition op_eqb (a b : op) : bool :=
  N.eqb (inv a) (inv b) && N.eqb (resp a) (resp b) && ceq (call a) (call b) && req (ret a) (ret b).

Lemma op_eqb_spec a b : op_eqb a b = true <-> a = b.
Proof.
  unfold op_eqb. destruct a as [i1 r1 c1 t1], b as [i2 r2 c2 t2]; cbn [inv resp call ret].
  rewrite !andb_true_iff, !N.eqb_eq, ceq_spec, req_spec. split.
  - intros [[[-> ->] ->] ->]. reflexivity.
  - intros E. inversion E; subst. auto.
Qed.

Fixpoint ops_eqb (l1 l2 : list op) : bool :=
  match l1, l2 with
  | [], [] => true
  | a :: t1, b :: t2 => op_eqb a b && ops_eqb t1 t2
  | _, _ => false
  end.

Lemma ops_eqb_spec l1 l2 : ops_eqb l1 l2 = true <-> l1 = l2.
Proof.
  revert l2. induction l1 as [|a l1 IH]; intros [|b l2]; simpl; split; intros E; try congruence; auto.
  - apply andb_true_iff in E as [E1 E2]. apply op_eqb_spec in E1. apply IH in E2. congruence.
  - inversion E; subst. apply andb_true_iff. split; [now apply op_eqb_spec|now apply IH].
Qed.

(* dead-end cache: configurations from which no linearization exists *)
Definition cache := list (list op * S).

Definition cache_mem (c : cache) (p : list op) (s : S) : bool :=
  existsb (fun e => steq (snd e) s && ops_eqb (fst e) p) c.

Definition cache_ok (c : cache) : Prop := forall p s, In (p, s) c -> ~ Lin s p.

Lemma cache_mem_sound c p s : cache_ok c -> cache_mem c p s = true -> ~ Lin s p.
Proof.
  intros Hc H. unfold cache_mem in H. apply existsb_exists in H as ([p' s'] & Hin & E).
  cbn [fst snd] in E. apply andb_true_iff in E as [E1 E2]. apply steq_spec in E1. apply ops_eqb_spec in E2.
  subst. now apply Hc.
Qed.

(* try the candidates in turn; [f] decides the remainder (it is [search fuel']) *)
Fixpoint try_all (f : S -> list op -> cache -> bool * cache) (s : S)
         (cands : list (op * list op)) (c : cache) : bool * cache :=
  match cands with
  | [] => (false, c)
  | (o, rest) :: cands' =>
      let '(s1, r) := step s (call o) in
      if minimal o rest && req r (ret o) then
        let '(b, c1) := f s1 rest c in
        if b then (true, c1) else try_all f s cands' c1
      else try_all f s cands' c
  end.

Fixpoint search (fuel : nat) (s : S) (pending : list op) (c : cache) : bool * cache :=
  match pending with
  | [] => (true, c)
  | _ :: _ =>
    match fuel with
    | O => (false, c)
    | Datatypes.S fuel' =>
      if cache_mem c pending s then (false, c) else
      let '(b, c1) := try_all (search fuel') s (picks pending) c in
      if b then (true, c1) else (false, (pending, s) :: c1)
    end
  end.

Definition lin_check (s : S) (h : list op) : bool := fst (search (length h) s h []).

(* what a correct decision function for remainders of length <= n looks like *)
Definition decides (n : nat) (f : S -> list op -> cache -> bool * cache) : Prop :=
  forall s p c, length p <= n -> cache_ok c ->
    cache_ok (snd (f s p c)) /\ (fst (f s p c) = true <-> Lin s p).

Lemma try_all_spec n f : decides n f -> forall s cands c,
  (forall o rest, In (o, rest) cands -> length rest <= n) -> cache_ok c ->
  cache_ok (snd (try_all f s cands c)) /\
  (fst (try_all f s cands c) = true <-> exists cd, In cd cands /\ good_pick s cd).
Proof.
  intros Hf s cands. induction cands as [|[o rest] cands IH]; intros c Hlen Hc.
  - simpl. split; [exact Hc|]. split; [discriminate|]. intros (cd & [] & _).
  - assert (Hlen' : forall o0 rest0, In (o0, rest0) cands -> length rest0 <= n)
      by (intros; eapply Hlen; right; eauto).
    cbn [try_all]. destruct (step s (call o)) as [s1 r] eqn:Es.
    destruct (minimal o rest && req r (ret o)) eqn:Eg.
    + apply andb_true_iff in Eg as [Eg1 Eg2].
      assert (Hl : length rest <= n) by (eapply Hlen; left; reflexivity).
      destruct (Hf s1 rest c Hl Hc) as [Hc1 Hb]. destruct (f s1 rest c) as [b c1]. cbn [fst snd] in *.
      destruct b.
      * cbn [fst snd]. split; [exact Hc1|]. split; [intros _|reflexivity].
        exists (o, rest). split; [left; reflexivity|]. unfold good_pick. rewrite Es. cbn [fst snd].
        split; [exact Eg1|split; [exact Eg2|now apply Hb]].
      * destruct (IH c1 Hlen' Hc1) as [Hc2 Hb2]. split; [exact Hc2|]. rewrite Hb2. split.
        -- intros (cd & Hin & Hg). exists cd. split; [right; exact Hin|exact Hg].
        -- intros (cd & [<-|Hin] & Hg).
           ++ unfold good_pick in Hg. rewrite Es in Hg. cbn [fst snd] in Hg. destruct Hg as (_ & _ & HL).
              apply Hb in HL. discriminate.
           ++ exists cd. split; assumption.
    + destruct (IH c Hlen' Hc) as [Hc2 Hb2]. split; [exact Hc2|]. rewrite Hb2. split.
      * intros (cd & Hin & Hg). exists cd. split; [right; exact Hin|exact Hg].
      * intros (cd & [<-|Hin] & Hg).
        -- unfold good_pick in Hg. rewrite Es in Hg. cbn [fst snd] in Hg. destruct Hg as (G1 & G2 & _).
           rewrite G1, G2 in Eg. discriminate.
        -- exists cd. split; assumption.
Qed.

Lemma search_decides fuel : decides fuel (search fuel).
Proof.
  induction fuel as [|fuel IH]; intros s p c Hlen Hc.
  - destruct p as [|o p]; [|simpl in Hlen; lia]. simpl. split; [exact Hc|]. split; [intros _; apply Lin_nil|reflexivity].
  - destruct p as [|o p].
    + simpl. split; [exact Hc|]. split; [intros _; apply Lin_nil|reflexivity].
    + cbn [search]. destruct (cache_mem c (o :: p) s) eqn:Em.
      * cbn [fst snd]. split; [exact Hc|]. split; [discriminate|].
        intros HL. exfalso. eapply cache_mem_sound; eauto.
      * assert (Hl : forall o0 rest, In (o0, rest) (picks (o :: p)) -> length rest <= fuel).
        { intros o0 rest Hin. apply picks_length in Hin. simpl in Hin, Hlen. lia. }
        destruct (try_all_spec fuel (search fuel) IH s (picks (o :: p)) c Hl Hc) as [Hc1 Hb].
        destruct (try_all (search fuel) s (picks (o :: p)) c) as [b c1]. cbn [fst snd] in *.
        assert (Hne : o :: p <> []) by discriminate.
        destruct b; cbn [fst snd].
        -- split; [exact Hc1|]. split; [intros _|reflexivity]. apply (Lin_unfold s _ Hne). now apply Hb.
        -- split.
           ++ intros p' s' [E|Hin]; [|now apply Hc1]. inversion E; subst. intros HL.
              apply (Lin_unfold s' _ Hne) in HL. apply Hb in HL. discriminate.
           ++ split; [discriminate|]. intros HL. apply (Lin_unfold s _ Hne) in HL. apply Hb in HL. discriminate.
Qed.

Theorem lin_check_correct s h : lin_check s h = true <-> linearizable s h.
Proof.
  unfold lin_check, linearizable.
  assert (Hc : cache_ok []) by (intros p s' []).
  destruct (search_decides (length h) s h [] (le_n _) Hc) as [_ Hb]. exact Hb.
Qed.

(* ------------------------------------------------------------------ segmentation *)

(* every operation of h1 has responded before any operation of h2 is invoked *)
Definition quiescent_cut (h h1 h2 : list op) : Prop :=
  Permutation h (h1 ++ h2) /\
  (forall p q, In p h1 -> In q h2 -> (resp p < inv q)%N) /\
  (forall p, In p h -> (inv p <= resp p)%N).

Lemma seq_to_app s l1 l2 s' : seq_to s (l1 ++ l2) s' <-> exists sm, seq_to s l1 sm /\ seq_to sm l2 s'.
Proof.
  revert s. induction l1 as [|o l1 IH]; intros s; simpl.
  - split; [intros H; exists s; auto|intros (sm & -> & H); exact H].
  - destruct (step s (call o)) as [s1 r]. rewrite IH. split.
    + intros (Hr & sm & H1 & H2). exists sm. auto.
    + intros (sm & (Hr & H1) & H2). split; [exact Hr|]. exists sm. auto.
Qed.

Lemma rt_ok_app l1 l2 : rt_ok (l1 ++ l2) <->
  rt_ok l1 /\ rt_ok l2 /\ (forall o p, In o l1 -> In p l2 -> ~ (resp p < inv o)%N).
Proof.
  induction l1 as [|a l1 IH]; simpl.
  - split; [intros H; split; [exact I|split; [exact H|intros o p []]]|intros (_ & H & _); exact H].
  - rewrite IH. split.
    + intros (Ha & H1 & H2 & H3). split; [split; [|exact H1]|split; [exact H2|]].
      * intros p Hp. apply Ha. apply in_or_app. now left.
      * intros o p [<-|Ho] Hp; [apply Ha; apply in_or_app; now right|now apply H3].
    + intros ((Ha & H1) & H2 & H3). split; [|split; [exact H1|split; [exact H2|]]].
      * intros p Hp. apply in_app_or in Hp as [Hp|Hp]; [now apply Ha|apply H3; [now left|exact Hp]].
      * intros o p Ho Hp. apply H3; [now right|exact Hp].
Qed.

(* a real-time respecting order of h1 ++ h2 lists h1 completely before h2 *)
Lemma cut_split l : forall h1 h2,
  Permutation (h1 ++ h2) l -> rt_ok l ->
  (forall p q, In p h1 -> In q h2 -> (resp p < inv q)%N) ->
  (forall p, In p h1 -> (inv p <= resp p)%N) ->
  exists l1 l2, l = l1 ++ l2 /\ Permutation h1 l1 /\ Permutation h2 l2.
Proof.
  induction l as [|o l IH]; intros h1 h2 HP Hrt Hcut Hwf.
  - apply Permutation_sym, Permutation_nil in HP. apply app_eq_nil in HP as [-> ->].
    exists [], []. auto.
  - destruct h1 as [|p0 h1].
    + exists [], (o :: l). simpl in *. auto.
    + simpl in Hrt. destruct Hrt as [Hmin Hrt].
      assert (Ho : In o (p0 :: h1)).
      { assert (Hin : In o ((p0 :: h1) ++ h2)) by (eapply Permutation_in; [symmetry; exact HP|now left]).
        apply in_app_or in Hin as [Hin|Hin]; [exact Hin|].
        (* o in h2: then p0 (in h1) must come later in l, which real time forbids *)
        assert (Hp0 : In p0 (o :: l)) by (eapply Permutation_in; [exact HP|now left]).
        pose proof (Hcut p0 o (or_introl eq_refl) Hin) as Hlt.
        destruct Hp0 as [E|Hp0].
        - subst p0. pose proof (Hwf o (or_introl eq_refl)). lia.
        - exfalso. exact (Hmin p0 Hp0 Hlt). }
      destruct (in_split _ _ Ho) as (a & b & Eab).
      assert (HP1 : Permutation ((a ++ b) ++ h2) l).
      { apply Permutation_cons_inv with o. rewrite <- HP. rewrite Eab.
        rewrite <- !app_assoc. simpl. apply Permutation_middle. }
      assert (Hsub : forall x, In x (a ++ b) -> In x (p0 :: h1)).
      { intros x Hx. rewrite Eab. apply in_app_or in Hx as [Hx|Hx]; apply in_or_app; [now left|right; now right]. }
      destruct (IH (a ++ b) h2 HP1 Hrt) as (l1 & l2 & -> & P1 & P2).
      * intros p q Hp Hq. apply Hcut; [now apply Hsub|exact Hq].
      * intros p Hp. apply Hwf. now apply Hsub.
      * exists (o :: l1), l2. split; [reflexivity|split; [|exact P2]].
        rewrite Eab. rewrite <- Permutation_middle. now constructor.
Qed.

Theorem lin_segments s h h1 h2 : quiescent_cut h h1 h2 ->
  (linearizable s h <-> exists s', lin_to s h1 s' /\ linearizable s' h2).
Proof.
  intros (HP & Hcut & Hwf). split.
  - intros (l & HPl & Hrt & (sf & Hs)).
    assert (HP' : Permutation (h1 ++ h2) l) by (rewrite <- HP; exact HPl).
    destruct (cut_split l h1 h2 HP' Hrt Hcut) as (l1 & l2 & -> & P1 & P2).
    { intros p Hp. apply Hwf. eapply Permutation_in; [symmetry; exact HP|apply in_or_app; now left]. }
    apply rt_ok_app in Hrt as (R1 & R2 & _). apply seq_to_app in Hs as (sm & S1 & S2).
    exists sm. split; [exists l1; auto|]. exists l2. split; [exact P2|split; [exact R2|now exists sf]].
  - intros (sm & (l1 & P1 & R1 & S1) & (l2 & P2 & R2 & (sf & S2))).
    exists (l1 ++ l2). split; [|split].
    + rewrite HP. now apply Permutation_app.
    + apply rt_ok_app. split; [exact R1|split; [exact R2|]]. intros o p Ho Hp Hlt.
      assert (Ho1 : In o h1) by (eapply Permutation_in; [symmetry; exact P1|exact Ho]).
      assert (Hp2 : In p h2) by (eapply Permutation_in; [symmetry; exact P2|exact Hp]).
      pose proof (Hcut o p Ho1 Hp2) as H1.
      assert (Hwo : (inv o <= resp o)%N)
        by (apply Hwf; eapply Permutation_in; [symmetry; exact HP|apply in_or_app; now left]).
      assert (Hwp : (inv p <= resp p)%N)
        by (apply Hwf; eapply Permutation_in; [symmetry; exact HP|apply in_or_app; now right]).
      lia.
    + exists sf. apply seq_to_app. exists sm. auto.
Qed.

End Lin.

Arguments inv {C R} _.
Arguments resp {C R} _.
Arguments call {C R} _.
Arguments ret {C R} _.
Arguments Build_op {C R} _ _ _ _.
