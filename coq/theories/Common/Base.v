(* Shared list/arith utilities used by every model. Stdlib only. *)
From Coq Require Export List ZArith Lia Bool Permutation Arith.
Export ListNotations.

(* in-place update of a list cell (arrays are modelled as lists) *)
Fixpoint upd {A} (l : list A) (i : nat) (x : A) : list A :=
  match l, i with
  | [], _ => []
  | _ :: t, O => x :: t
  | a :: t, S i' => a :: upd t i' x
  end.

Lemma upd_length {A} (l : list A) i x : length (upd l i x) = length l.
Proof. revert i; induction l as [|a l IH]; intros [|i]; simpl; auto. Qed.

Lemma nth_upd_same {A} (l : list A) i x d : i < length l -> nth i (upd l i x) d = x.
Proof. revert i; induction l as [|a l IH]; intros [|i] H; simpl in *; try lia; auto. apply IH; lia. Qed.

Lemma nth_upd_other {A} (l : list A) i j x d : i <> j -> nth j (upd l i x) d = nth j l d.
Proof.
  revert i j; induction l as [|a l IH]; intros [|i] [|j] H; simpl; auto; try congruence.
Qed.

Lemma upd_oob {A} (l : list A) i x : length l <= i -> upd l i x = l.
Proof. revert i; induction l as [|a l IH]; intros [|i] H; simpl in *; auto; try lia. f_equal; apply IH; lia. Qed.

(* swap two cells *)
Definition swap {A} (d : A) (l : list A) (i j : nat) : list A :=
  upd (upd l i (nth j l d)) j (nth i l d).

Lemma swap_length {A} (d : A) l i j : length (swap d l i j) = length l.
Proof. unfold swap; now rewrite !upd_length. Qed.

Lemma upd_perm_app {A} (l : list A) j x d :
  j < length l -> Permutation (upd l j x ++ [nth j l d]) (x :: l).
Proof.
  revert j; induction l as [|a l IH]; intros [|j] H; simpl in *; try lia.
  - change (Permutation ((x :: l) ++ [a]) (x :: a :: l)).
    rewrite <- Permutation_cons_append. apply perm_swap.
  - eapply perm_trans; [apply perm_skip, IH; lia|]. apply perm_swap.
Qed.

Lemma swap_perm {A} (d : A) l i j :
  i < length l -> j < length l -> Permutation (swap d l i j) l.
Proof.
  revert i j; induction l as [|a l IH]; intros i j Hi Hj; simpl in *; [lia|].
  unfold swap in *. destruct i as [|i], j as [|j]; simpl.
  - reflexivity.
  - (* i = 0, j = S j *)
    assert (Hj' : j < length l) by lia.
    pose proof (upd_perm_app l j a d Hj') as P.
    eapply perm_trans; [apply Permutation_cons_append|]. exact P.
  - assert (Hi' : i < length l) by lia.
    pose proof (upd_perm_app l i a d Hi') as P.
    eapply perm_trans; [apply Permutation_cons_append|]. exact P.
  - apply perm_skip. apply IH; lia.
Qed.

(* index of failures in a list of booleans-with-payload, used by the Check files *)
Fixpoint find_bad_aux {A} (f : A -> nat) (l : list A) (i : nat) : list (nat * nat) :=
  match l with
  | [] => []
  | x :: t => let c := f x in
              if Nat.eqb c 0 then find_bad_aux f t (S i) else (i, c) :: find_bad_aux f t (S i)
  end.
Definition find_bad {A} (f : A -> nat) (l : list A) := find_bad_aux f l 0.

Definition list_eqb {A} (eqb : A -> A -> bool) : list A -> list A -> bool :=
  fix go l1 l2 := match l1, l2 with
                  | [], [] => true
                  | a :: t1, b :: t2 => eqb a b && go t1 t2
                  | _, _ => false
                  end.

Lemma list_eqb_eq {A} (eqb : A -> A -> bool) :
  (forall a b, eqb a b = true <-> a = b) -> forall l1 l2, list_eqb eqb l1 l2 = true <-> l1 = l2.
Proof.
  intros H; induction l1 as [|a l1 IH]; intros [|b l2]; simpl; split; intros E; try congruence; auto.
  - apply andb_true_iff in E as [E1 E2]. apply H in E1. apply IH in E2. congruence.
  - inversion E; subst. apply andb_true_iff; split; [now apply H | now apply IH].
Qed.

Definition option_eqb {A} (eqb : A -> A -> bool) (a b : option A) : bool :=
  match a, b with Some x, Some y => eqb x y | None, None => true | _, _ => false end.

(* Stateful cases: fold a per-step checker over the recorded steps. The per-step function returns the
   next model state and a kind (0 = agrees, 1 = model differs from the implementation but the observation
   satisfies the property, 2 = the observation violates the property). The case code is
   step_index * 4 + kind of the first non-zero step (0 = whole case fine). *)
(* A kind-1 step (model differs, property holds) does not end the scan: the property judgement (kind >= 2) does not
   depend on the model, so later steps are still judged; the case code is the first step of kind >= 2 if there is
   one, else the first kind-1 step. *)
Fixpoint scan_from {St X} (f : St -> X -> St * nat) (s : St) (xs : list X) (i : nat) (first1 : nat) : nat :=
  match xs with
  | [] => first1
  | x :: t => let '(s', k) := f s x in
              if Nat.eqb k 0 then scan_from f s' t (S i) first1
              else if Nat.leb 2 k then i * 4 + k
              else scan_from f s' t (S i) (if Nat.eqb first1 0 then i * 4 + k else first1)
  end.
Definition scan {St X} (f : St -> X -> St * nat) (s : St) (xs : list X) (i : nat) : nat := scan_from f s xs i 0.

Definition kind_of (model_agrees property_holds : bool) : nat :=
  if negb property_holds then 2 else if negb model_agrees then 1 else 0.
