(* C03 property theorems. Nothing but statements closed by [exact] and Print Assumptions.
   Model: C03/Model.v (zset.go + skiplist.go as repaired by fixes 0002-0005, 0007, 0030-0032);
   specification: C03/Spec.v (sorted unique list of (score, member), Redis index semantics in [slice]). *)
From VF Require Import Common.Base C03.Spec C03.Model C03.ProofsSpec C03.ProofsWalk C03.ProofsSL C03.ProofsSL2
  C03.ProofsSL3 C03.ProofsZ C03.ProofsZ2 C03.ProofsZ3 C03.Proofs C03.ProofsAlg C03.ProofsExtra C03.Spans C03.Lanes.
From Coq Require Import Sorting.Sorted.
Local Open Scope Z_scope.

(* every query and every return value of a mutator equals the specification's, for ALL operation
   lists and ALL height oracles (heights are >= 1 as randomLevel's are) *)
Theorem C03_refines : forall ops, heights_pos ops ->
  snd (run zset_step zset_empty ops) = snd (run zspec_step [] ops).
Proof. exact refines_all. Qed.

(* the representation invariant holds after every operation list ... *)
Theorem C03_inv : forall ops, heights_pos ops -> ZInv (fst (run zset_step zset_empty ops)).
Proof. exact inv_all. Qed.

(* ... and says: level-0 sequence sorted by (score, member), members unique, dict = its member->score
   map, heights >= 1, highestLevel >= 1, length cached correctly *)
Theorem C03_inv_meaning : forall z, ZInv z <->
  (StronglySorted elt (abs z) /\ NoDup (map snd (abs z)))
  /\ (forall m, dget m (z_dict z) = sp_find m (abs z))
  /\ Forall (fun y => (1 <= n_height y)%nat) (sl_nodes (z_list z))
  /\ (1 <= sl_highest (z_list z))%nat
  /\ sl_length (z_list z) = Z.of_nat (length (sl_nodes (z_list z))).
Proof. exact ZInv_meaning. Qed.

(* the abstraction of the model's state is the specification's state *)
Theorem C03_abs : forall ops, heights_pos ops ->
  abs (fst (run zset_step zset_empty ops)) = fst (run zspec_step [] ops).
Proof. exact abs_all. Qed.

(* one step, from ANY state satisfying the invariant (not only reachable ones) *)
Theorem C03_step : forall z o, ZInv z -> Forall (fun h => (1 <= h)%nat) (op_heights o) ->
  snd (zset_step z o) = snd (zspec_step (abs z) o)
  /\ abs (fst (zset_step z o)) = fst (zspec_step (abs z) o)
  /\ ZInv (fst (zset_step z o)).
Proof. exact step_refines. Qed.

(* each member once, with its latest score *)
Theorem C03_latest_score : forall s m m' l, sp_find m' (sp_set s m l) = if m' =? m then Some s else sp_find m' l.
Proof. exact latest_score. Qed.

Theorem C03_revrank : forall z m, ZInv z -> zs_containsb m z = true ->
  zs_revrank m z = zs_len z - 1 - zs_rank m z /\ 0 <= zs_rank m z < zs_len z.
Proof. exact revrank_rank. Qed.

(* Range / RevRange equal the clamped slice and never return an element that is not in the set *)
Theorem C03_range_slice : forall start stop z, ZInv z -> zs_range start stop z = slice start stop (abs z).
Proof. exact zs_range_spec. Qed.
Theorem C03_revrange_slice : forall start stop z, ZInv z -> zs_revrange start stop z = slice start stop (rev (abs z)).
Proof. exact zs_revrange_spec. Qed.
Theorem C03_range_members : forall z a b e, ZInv z ->
  (In e (zs_range a b z) -> In e (abs z)) /\ (In e (zs_revrange a b z) -> In e (abs z)).
Proof. exact range_members. Qed.

(* score ranges with inclusive / exclusive bounds, Count *)
Theorem C03_range_by_score : forall min max exmin exmax z, ZInv z ->
  zs_range_by_score min max exmin exmax z = Val (sp_by_score min max exmin exmax (abs z)).
Proof. exact zs_range_by_score_spec. Qed.
Theorem C03_revrange_by_score : forall max min exmin exmax z, ZInv z ->
  zs_revrange_by_score max min exmin exmax z = rev (sp_by_score min max exmin exmax (abs z)).
Proof. exact zs_revrange_by_score_spec. Qed.
Theorem C03_count : forall min max exmin exmax z, ZInv z ->
  zs_count min max exmin exmax z = Val (sp_len (sp_by_score min max exmin exmax (abs z))).
Proof. exact zs_count_spec. Qed.

(* removed-element lists and what remains *)
Theorem C03_remove_range_by_rank : forall start stop z, ZInv z ->
  let '(z', rem) := zs_rem_range_by_rank start stop z in
  rem = slice start stop (abs z) /\ abs z' = unslice start stop (abs z) /\ ZInv z'.
Proof. exact zs_rem_range_by_rank_spec. Qed.
Theorem C03_remove_range_by_score : forall min max exmin exmax z, ZInv z ->
  let '(z', rem) := zs_rem_range_by_score min max exmin exmax z in
  rem = sp_by_score min max exmin exmax (abs z)
  /\ abs z' = sp_not_by_score min max exmin exmax (abs z) /\ ZInv z'.
Proof. exact zs_rem_range_by_score_spec. Qed.

(* Union = score-summing merge, Inter = score-summing intersection, for every oracle *)
Theorem C03_union : forall zs hs, Forall ZInv zs -> Forall (fun h => (1 <= h)%nat) hs ->
  exists z, zs_union zs hs = Val z /\ abs z = merge_sum (map abs zs) /\ ZInv z.
Proof. exact union_spec. Qed.
Theorem C03_inter : forall zs hs, Forall ZInv zs -> Forall (fun h => (1 <= h)%nat) hs ->
  exists z, zs_inter zs hs = Val z /\ abs z = inter_sum (map abs zs) /\ ZInv z.
Proof. exact inter_spec. Qed.
(* what merge_sum / inter_sum mean, member by member *)
Theorem C03_merge_sum_meaning : forall ls,
  SU (merge_sum ls) /\ forall m, sp_find m (merge_sum ls) = if any_has m ls then Some (sum_scores m ls) else None.
Proof. exact merge_sum_spec. Qed.
Theorem C03_inter_sum_meaning : forall l rs, SU l ->
  SU (inter_sum (l :: rs)) /\
  forall m, sp_find m (inter_sum (l :: rs)) = match sp_find m l with Some s => keep rs (s, m) | None => None end.
Proof. exact inter_sum_spec. Qed.

(* ---- span lemmas ---- *)
(* the search over derived chains ends on the threshold position with rank = position *)
Theorem C03_search_position : forall adv l k, Thr adv (sl_nodes l) k ->
  Forall (fun y => (1 <= n_height y)%nat) (sl_nodes l) -> (1 <= sl_highest l)%nat ->
  search adv l = zip_at (sl_nodes l) k.
Proof. exact search_zip. Qed.
(* Rank computed from spans = 1-based level-0 position *)
Theorem C03_rank_by_spans : forall l p x, SInv l -> nth_error (sl_nodes l) p = Some x ->
  sl_rank (n_score x) (n_member x) l = Z.of_nat (S p).
Proof. exact rank_of_nth. Qed.
(* GetNodeByRank finds exactly the node at that position *)
Theorem C03_get_node_by_rank : forall rank l, SInv l ->
  sl_get_node_by_rank rank l =
    if (1 <=? rank) && (rank <=? sl_length l) then Some (zip_at (sl_nodes l) (Z.to_nat rank)) else None.
Proof. exact sl_get_node_by_rank_spec. Qed.
(* one iteration of a Go search loop = one step along the derived chain, adding the derived span *)
Theorem C03_walk_step : forall adv i st A2 y rest, low i A2 -> (i < n_height y)%nat ->
  w_suf st = A2 ++ y :: rest ->
  lwalk adv i (w_suf st) [] 0 st =
    if adv (w_rank st + span_of i (w_suf st)) y
    then lwalk adv i rest [] 0 (mkW (w_rank st + span_of i (w_suf st)) (y :: rev A2 ++ w_pre st) rest)
    else st.
Proof. exact lwalk_step. Qed.
(* the update equations of Insert and deleteNode hold between the derived spans before and after *)
Theorem C03_span_insert : forall i A2 x B, low i A2 ->
  ((i < n_height x)%nat -> span_of i B = span_of i (A2 ++ B) - len A2 /\ span_of i (A2 ++ x :: B) = len A2 + 1)
  /\ ((n_height x <= i)%nat -> span_of i (A2 ++ x :: B) = span_of i (A2 ++ B) + 1).
Proof. exact span_insert. Qed.
Theorem C03_span_delete : forall i A2 x B, low i A2 ->
  ((i < n_height x)%nat -> span_of i (A2 ++ B) = span_of i (A2 ++ x :: B) + span_of i B - 1)
  /\ ((n_height x <= i)%nat -> span_of i (A2 ++ B) = span_of i (A2 ++ x :: B) - 1).
Proof. exact span_delete. Qed.

(* ---- lanes (feeds C17) ---- *)
Theorem C03_lanes : forall ops, heights_pos ops -> Lanes (z_list (fst (run zset_step zset_empty ops))).
Proof. exact lanes_all. Qed.
Theorem C03_lanes_chain : forall l, Lanes l ->
  forall i y, In y (sl_nodes l) -> (i < n_height y)%nat -> (i < sl_highest l)%nat /\ In y (chain i (sl_nodes l)).
Proof. exact lanes_chain. Qed.

(* non-vacuity: a concrete history with ties, negative scores, an in-place and a moving re-score,
   tall towers, range removals; its outputs computed by the model *)
Example C03_nonvacuous :
  let ops := [OAddB 1 10 [3%nat]; OAddB (-2) 20 [1%nat]; OAddB 1 5 [2%nat]; OAddB 0 30 [5%nat];
              OIncrBy 1 20 [1%nat]; OIncrBy 5 20 [2%nat]; ORevRank 5; ORange (-3) 7; ORevRange 1 2;
              OCountOpt 0 1 true false; ORemRangeByRank 0 0; ORemRangeByScore 1 1; OLen; OValues] in
  heights_pos ops
  /\ snd (run zset_step zset_empty ops)
     = [RBool true; RBool true; RBool true; RBool true; RScoreOk (-1) true; RScoreOk 4 true; RInt 2;
        RNodes [(1, 5); (1, 10); (4, 20)]; RNodes [(1, 10); (1, 5)]; RInt 2; RNodes [(0, 30)];
        RNodes [(1, 5); (1, 10)]; RInt 1; RVals [20]]
  /\ ZInv (fst (run zset_step zset_empty ops)).
Proof.
  cbv zeta. split; [repeat constructor|]. split; [vm_compute; reflexivity|].
  apply inv_all. repeat constructor.
Qed.

Print Assumptions C03_refines.
Print Assumptions C03_inv.
Print Assumptions C03_inv_meaning.
Print Assumptions C03_abs.
Print Assumptions C03_step.
Print Assumptions C03_latest_score.
Print Assumptions C03_revrank.
Print Assumptions C03_range_slice.
Print Assumptions C03_revrange_slice.
Print Assumptions C03_range_members.
Print Assumptions C03_range_by_score.
Print Assumptions C03_revrange_by_score.
Print Assumptions C03_count.
Print Assumptions C03_remove_range_by_rank.
Print Assumptions C03_remove_range_by_score.
Print Assumptions C03_union.
Print Assumptions C03_inter.
Print Assumptions C03_merge_sum_meaning.
Print Assumptions C03_inter_sum_meaning.
Print Assumptions C03_search_position.
Print Assumptions C03_rank_by_spans.
Print Assumptions C03_get_node_by_rank.
Print Assumptions C03_walk_step.
Print Assumptions C03_span_insert.
Print Assumptions C03_span_delete.
Print Assumptions C03_lanes.
Print Assumptions C03_lanes_chain.
