(* C03: one step of the model refines one step of the specification; hence every run does. *)
From VF Require Import Common.Base C03.Spec C03.Model C03.ProofsSpec C03.ProofsWalk C03.ProofsSL C03.ProofsSL2
  C03.ProofsSL3 C03.ProofsZ C03.ProofsZ2 C03.ProofsZ3.
Local Open Scope Z_scope.

Lemma step_refines z o : ZInv z -> hs_pos (op_heights o) ->
  snd (zset_step z o) = snd (zspec_step (abs z) o)
  /\ abs (fst (zset_step z o)) = fst (zspec_step (abs z) o)
  /\ ZInv (fst (zset_step z o)).
Proof.
  intros I Hh. destruct o; cbn [zset_step zspec_step op_heights] in *.
  - (* AddB *)
    destruct (zs_addb_spec s m hs z I Hh) as (z' & hs' & E & A & I' & _). rewrite E. cbn [fst snd]. auto.
  - (* IncrBy *)
    destruct (zs_incrby_spec s m hs z I Hh) as (z' & hs' & E & A & I' & _). rewrite E.
    destruct (sp_find m (abs z)); cbn [fst snd]; auto.
  - (* RemoveB *)
    pose proof (zs_removeb_spec m z I) as R. destruct (zs_removeb m z) as [[z' s] b].
    destruct R as (E & A & I'). destruct (sp_find m (abs z)) eqn:F; inversion E; subst; cbn [fst snd]; auto.
    apply sp_find_none in F. rewrite (sp_remove_absent m (abs z) F) in A. auto.
  - (* Add *)
    destruct (zs_add_spec ms hs z I Hh) as (z' & E & A & I'). rewrite E. cbn [fst snd]. auto.
  - (* Remove *)
    destruct (zs_remove_spec ms z I) as [A I']. cbn [fst snd]. auto.
  - (* Contains *)
    cbn [fst snd]. rewrite (zs_contains_spec ms z I). auto.
  - (* Clear *)
    cbn [fst snd]. split; [reflexivity|]. split; [reflexivity|apply ZInv_empty].
  - cbn [fst snd]. rewrite (zs_len_spec z I). auto.
  - cbn [fst snd]. rewrite (zs_len_spec z I). auto.
  - cbn [fst snd]. rewrite (zs_len_spec z I). auto.
  - (* Values *)
    cbn [fst snd]. rewrite (zs_range_spec 0 (-1) z I), slice_all. auto.
  - (* Score *)
    cbn [fst snd]. destruct I as [I D]. rewrite (D m). fold (abs z). split; [|split; [reflexivity|split; assumption]].
    reflexivity.
  - cbn [fst snd]. rewrite (zs_containsb_spec m z I). auto.
  - cbn [fst snd]. rewrite (zs_rank_spec m z I). auto.
  - cbn [fst snd]. rewrite (zs_revrank_spec m z I). auto.
  - cbn [fst snd]. rewrite (zs_count_spec min max false false z I). auto.
  - cbn [fst snd]. rewrite (zs_count_spec min max exmin exmax z I). auto.
  - cbn [fst snd]. rewrite (zs_range_spec start stop z I). auto.
  - cbn [fst snd]. rewrite (zs_revrange_spec start stop z I). auto.
  - cbn [fst snd]. rewrite (zs_range_by_score_spec min max false false z I). auto.
  - cbn [fst snd]. rewrite (zs_range_by_score_spec min max exmin exmax z I). auto.
  - cbn [fst snd]. rewrite (zs_revrange_by_score_spec max min false false z I). auto.
  - cbn [fst snd]. rewrite (zs_revrange_by_score_spec max min exmin exmax z I). auto.
  - (* RemoveRangeByRank *)
    pose proof (zs_rem_range_by_rank_spec start stop z I) as R.
    destruct (zs_rem_range_by_rank start stop z) as [z' rem]. destruct R as (E & A & I'). subst. cbn [fst snd]. auto.
  - pose proof (zs_rem_range_by_score_spec min max false false z I) as R.
    destruct (zs_rem_range_by_score min max false false z) as [z' rem]. destruct R as (E & A & I'). subst. cbn [fst snd]. auto.
  - pose proof (zs_rem_range_by_score_spec min max exmin exmax z I) as R.
    destruct (zs_rem_range_by_score min max exmin exmax z) as [z' rem]. destruct R as (E & A & I'). subst. cbn [fst snd]. auto.
Qed.

Lemma run_refines ops : forall z, ZInv z -> heights_pos ops ->
  snd (run zset_step z ops) = snd (run zspec_step (abs z) ops)
  /\ abs (fst (run zset_step z ops)) = fst (run zspec_step (abs z) ops)
  /\ ZInv (fst (run zset_step z ops)).
Proof.
  induction ops as [|o r IH]; intros z I H; simpl; [auto|].
  inversion H; subst. destruct (step_refines z o I H2) as (E1 & E2 & I1).
  destruct (zset_step z o) as [z1 x1]. destruct (zspec_step (abs z) o) as [a1 y1]. cbn [fst snd] in *. subst.
  destruct (IH z1 I1 H3) as (F1 & F2 & F3).
  destruct (run zset_step z1 r) as [z2 xs]. destruct (run zspec_step (abs z1) r) as [a2 ys]. cbn [fst snd] in *.
  subst. auto.
Qed.

Theorem refines_all : forall ops, heights_pos ops ->
  snd (run zset_step zset_empty ops) = snd (run zspec_step [] ops).
Proof. intros ops H. apply (run_refines ops zset_empty ZInv_empty H). Qed.

Theorem inv_all : forall ops, heights_pos ops -> ZInv (fst (run zset_step zset_empty ops)).
Proof. intros ops H. apply (run_refines ops zset_empty ZInv_empty H). Qed.

Theorem abs_all : forall ops, heights_pos ops ->
  abs (fst (run zset_step zset_empty ops)) = fst (run zspec_step [] ops).
Proof. intros ops H. apply (run_refines ops zset_empty ZInv_empty H). Qed.
