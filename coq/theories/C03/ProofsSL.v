(* C03: the skip-list layer.  Every search-based operation on the level-0 sequence is characterised
   by list functions (firstn/skipn at a threshold position) and related to the specification. *)
From VF Require Import Common.Base C03.Spec C03.Model C03.ProofsSpec C03.ProofsWalk.
From Coq Require Import Sorting.Sorted.
Local Open Scope Z_scope.

Definition ents (ns : list node) : sset := map ent ns.
Definition hpos (ns : list node) : Prop := Forall (fun y => (1 <= n_height y)%nat) ns.
Definition hs_pos (hs : list nat) : Prop := Forall (fun h => (1 <= h)%nat) hs.

Record SInv (l : slist) : Prop := mkSInv {
  si_su : SU (ents (sl_nodes l));
  si_h : hpos (sl_nodes l);
  si_hi : (1 <= sl_highest l)%nat;
  si_len : sl_length l = Z.of_nat (length (sl_nodes l)) }.

(* ---- comparisons ---- *)
Lemma icmp_lt a b : (icmp a b <? 0) = (a <? b).
Proof. unfold icmp. destruct (a <? b) eqn:E; [reflexivity|]. destruct (a =? b); reflexivity. Qed.
Lemma icmp_le a b : (icmp a b <=? 0) = (a <=? b).
Proof.
  unfold icmp. destruct (a <? b) eqn:E.
  - apply Z.ltb_lt in E. symmetry. apply Z.leb_le. lia.
  - destruct (a =? b) eqn:E2.
    + apply Z.eqb_eq in E2. symmetry. apply Z.leb_le. lia.
    + apply Z.ltb_ge in E. apply Z.eqb_neq in E2. symmetry. apply Z.leb_gt. lia.
Qed.

Lemma less_than_elt y s m : less_than y s m = true <-> elt (ent y) (s, m).
Proof.
  unfold less_than, elt, ent. simpl. rewrite icmp_lt, orb_true_iff, andb_true_iff, !Z.ltb_lt, Z.eqb_eq. tauto.
Qed.
Lemma less_equal_elt y s m : less_equal y s m = true <-> ~ elt (s, m) (ent y).
Proof.
  unfold less_equal, elt, ent. simpl. rewrite icmp_le, orb_true_iff, andb_true_iff, Z.ltb_lt, Z.eqb_eq, Z.leb_le. lia.
Qed.
Lemma node_equal_ent y s m : node_equal y s m = true <-> ent y = (s, m).
Proof.
  unfold node_equal, ent. rewrite andb_true_iff, !Z.eqb_eq. split; [intros [-> ->]; reflexivity|intros H; inversion H; auto].
Qed.

(* ---- prefix counting and thresholds ---- *)
Fixpoint cnt (P : node -> bool) (ns : list node) : nat :=
  match ns with [] => O | y :: r => if P y then S (cnt P r) else O end.

Definition mono (P : node -> bool) : Prop := forall a b, elt (ent a) (ent b) -> P b = true -> P a = true.

Lemma cnt_le P ns : (cnt P ns <= length ns)%nat.
Proof. induction ns as [|y r IH]; simpl; [lia|]. destruct (P y); lia. Qed.

Lemma thr_mono P ns : StronglySorted elt (ents ns) -> mono P -> Thr (fun _ y => P y) ns (cnt P ns).
Proof.
  intros S M. split; [apply cnt_le|].
  induction ns as [|y0 r IH]; intros j y H; [destruct j; discriminate|].
  simpl in S. inversion S; subst. simpl. destruct (P y0) eqn:E0.
  - destruct j as [|j]; simpl in H.
    + inversion H; subst. rewrite E0. reflexivity.
    + rewrite (IH H2 j y H). reflexivity.
  - destruct j as [|j]; simpl in H.
    + inversion H; subst. rewrite E0. reflexivity.
    + destruct (P y) eqn:E; [|reflexivity]. exfalso.
      assert (Q : elt (ent y0) (ent y)).
      { rewrite Forall_forall in H3. apply H3. apply in_map. eapply nth_error_In; eauto. }
      rewrite (M _ _ Q E) in E0. discriminate.
Qed.

Lemma cnt_split P ns : StronglySorted elt (ents ns) -> mono P ->
  Forall (fun y => P y = true) (firstn (cnt P ns) ns) /\ Forall (fun y => P y = false) (skipn (cnt P ns) ns).
Proof.
  intros S M. induction ns as [|y0 r IH]; simpl; [split; constructor|].
  simpl in S. inversion S; subst. destruct (P y0) eqn:E0.
  - destruct (IH H1) as [A B]. simpl. split; auto.
  - simpl. split; [constructor|]. constructor; auto.
    rewrite Forall_forall in *. intros y Hy. destruct (P y) eqn:E; [|reflexivity]. exfalso.
    assert (Q : elt (ent y0) (ent y)) by (apply H2; apply in_map; auto).
    rewrite (M _ _ Q E) in E0. discriminate.
Qed.

Lemma search_mono P l : SInv l -> mono P ->
  search (fun _ y => P y) l = zip_at (sl_nodes l) (cnt P (sl_nodes l)).
Proof.
  intros I M. apply search_zip; [|apply (si_h _ I)|apply (si_hi _ I)].
  apply thr_mono; auto. apply (si_su _ I).
Qed.

Lemma mono_less_than s m : mono (fun y => less_than y s m).
Proof.
  intros a b H. rewrite !less_than_elt. intros Q. eapply elt_trans; eauto.
Qed.
Lemma mono_less_equal s m : mono (fun y => less_equal y s m).
Proof.
  intros a b H. rewrite !less_equal_elt. intros Q C. apply Q. eapply elt_trans; eauto.
Qed.

(* ---- small list facts ---- *)
Lemma rev_append_zip {A} (l1 l2 : list A) : rev_append (rev l1) l2 = l1 ++ l2.
Proof. now rewrite rev_append_rev, rev_involutive. Qed.

Lemma nth_split_at {A} (l : list A) : forall p x, nth_error l p = Some x ->
  l = firstn p l ++ x :: skipn (S p) l /\ skipn p l = x :: skipn (S p) l.
Proof.
  induction l as [|a l IH]; intros p x H; [destruct p; discriminate|].
  destruct p as [|p]; simpl in H.
  - inversion H; subst. split; reflexivity.
  - destruct (IH p x H) as [E1 E2]. split.
    + change (firstn (S p) (a :: l)) with (a :: firstn p l).
      change (skipn (S (S p)) (a :: l)) with (skipn (S p) l). simpl. f_equal. exact E1.
    + exact E2.
Qed.

Lemma in_firstn {A} (l : list A) : forall n x, In x (firstn n l) -> In x l.
Proof. induction l as [|a l IH]; intros [|n] x H; simpl in *; try tauto. destruct H; eauto. Qed.
Lemma in_skipn {A} (l : list A) : forall n x, In x (skipn n l) -> In x l.
Proof. induction l as [|a l IH]; intros [|n] x H; simpl in *; try tauto. eauto. Qed.
Lemma Forall_firstn {A} (P : A -> Prop) l n : Forall P l -> Forall P (firstn n l).
Proof. rewrite !Forall_forall. intros H x Hx. apply H. eapply in_firstn; eauto. Qed.
Lemma Forall_skipn {A} (P : A -> Prop) l n : Forall P l -> Forall P (skipn n l).
Proof. rewrite !Forall_forall. intros H x Hx. apply H. eapply in_skipn; eauto. Qed.

Lemma ents_app a b : ents (a ++ b) = ents a ++ ents b.
Proof. apply map_app. Qed.

Lemma members_ents ns : map snd (ents ns) = map n_member ns.
Proof. unfold ents. rewrite map_map. reflexivity. Qed.

Lemma random_level_pos hs : hs_pos hs ->
  (1 <= fst (random_level hs))%nat /\ hs_pos (snd (random_level hs)).
Proof.
  intros H. destruct hs as [|h r]; simpl; [split; [lia|constructor]|].
  inversion H; subst. split; auto. destruct (maxLevel <? h)%nat; [unfold maxLevel|]; lia.
Qed.

(* ---- position of an element ---- *)
Lemma find_pos ns s m : SU (ents ns) -> In (s, m) (ents ns) ->
  exists p x, nth_error ns p = Some x /\ ent x = (s, m)
              /\ cnt (fun y => less_than y s m) ns = p /\ cnt (fun y => less_equal y s m) ns = S p.
Proof.
  induction ns as [|y r IH]; intros H I; [destruct I|].
  simpl in H. destruct (SU_cons_inv _ _ H) as (Hr & F & N). simpl in I. destruct I as [E|I].
  - exists O, y. simpl. repeat split; auto.
    + destruct (less_than y s m) eqn:L; [|reflexivity]. apply less_than_elt in L. rewrite E in L.
      exfalso. eapply elt_irrefl; eauto.
    + assert (L : less_equal y s m = true) by (apply less_equal_elt; rewrite E; apply elt_irrefl).
      rewrite L. f_equal. destruct r as [|z r']; [reflexivity|]. simpl.
      destruct (less_equal z s m) eqn:L2; [|reflexivity]. apply less_equal_elt in L2. exfalso. apply L2.
      inversion F; subst. rewrite <- E. assumption.
  - assert (Q : elt (ent y) (s, m)) by (rewrite Forall_forall in F; auto).
    destruct (IH Hr I) as (p & x & A1 & A2 & A3 & A4). exists (S p), x. simpl.
    assert (L1 : less_than y s m = true) by (apply less_than_elt; exact Q).
    assert (L2 : less_equal y s m = true).
    { apply less_equal_elt. intros C. eapply elt_irrefl. eapply elt_trans; eauto. }
    rewrite L1, L2. repeat split; auto.
Qed.

(* removing the node at index p *)
Lemma remove_at ns p x : SU (ents ns) -> nth_error ns p = Some x ->
  ents (firstn p ns ++ skipn (S p) ns) = sp_remove (n_member x) (ents ns).
Proof.
  intros H N. destruct (nth_split_at _ _ _ N) as [E _].
  rewrite E in H at 1. rewrite E at 3. rewrite !ents_app in *. simpl in *.
  destruct (SU_app_inv _ _ H) as (H1 & H2 & C & D).
  destruct (SU_cons_inv _ _ H2) as (_ & _ & N2).
  symmetry. apply sp_remove_split; auto.
  intros I. apply (D _ I). left. reflexivity.
Qed.

(* ---- Insert ---- *)
Lemma sl_insert_nodes s m hs l : SInv l ->
  sl_nodes (fst (sl_insert s m hs l)) =
    let k := cnt (fun y => less_than y s m) (sl_nodes l) in
    firstn k (sl_nodes l) ++ mkNode s m (fst (random_level hs)) :: skipn k (sl_nodes l).
Proof.
  intros I. unfold sl_insert. rewrite (search_mono _ l I (mono_less_than s m)).
  destruct (random_level hs) as [lv hs'] eqn:R. cbn [fst sl_nodes zip_at w_pre w_suf].
  apply rev_append_zip.
Qed.

Lemma sl_insert_spec s m hs l : SInv l -> ~ In m (map snd (ents (sl_nodes l))) -> hs_pos hs ->
  ents (sl_nodes (fst (sl_insert s m hs l))) = sp_insert (s, m) (ents (sl_nodes l))
  /\ SInv (fst (sl_insert s m hs l)) /\ hs_pos (snd (sl_insert s m hs l)).
Proof.
  intros I N Hh.
  assert (E : ents (sl_nodes (fst (sl_insert s m hs l))) = sp_insert (s, m) (ents (sl_nodes l))).
  { rewrite sl_insert_nodes by exact I. cbv zeta.
    set (k := cnt (fun y => less_than y s m) (sl_nodes l)).
    destruct (cnt_split _ _ (proj1 (si_su _ I)) (mono_less_than s m)) as [A B]. fold k in A, B.
    rewrite <- (firstn_skipn k (sl_nodes l)) at 3. rewrite !ents_app. simpl.
    symmetry. apply sp_insert_split.
    - unfold ents. rewrite Forall_map. eapply Forall_impl; [|exact A]. intros y Hy. now apply less_than_elt.
    - destruct (skipn k (sl_nodes l)) as [|z r]; simpl; auto. inversion B as [|? ? Hz ?]; subst.
      intros C. apply less_than_elt in C. simpl in C. cbv beta in Hz. congruence. }
  split; [exact E|].
  pose proof (random_level_pos hs Hh) as [R1 R2].
  split.
  - constructor.
    + rewrite E. apply sp_insert_SU; [apply (si_su _ I)|exact N].
    + rewrite sl_insert_nodes by exact I. cbv zeta. unfold hpos. apply Forall_app. split.
      * apply Forall_firstn, (si_h _ I).
      * constructor; [exact R1|]. apply Forall_skipn, (si_h _ I).
    + unfold sl_insert. destruct (random_level hs) as [lv hs'] eqn:R. cbn [fst sl_highest]. simpl in R1.
      pose proof (si_hi _ I). destruct (sl_highest l <? lv)%nat; lia.
    + pose proof (f_equal (@length _) E) as L. unfold ents in L. rewrite map_length in L.
      unfold sl_insert in *. destruct (random_level hs) as [lv hs'] eqn:R. cbn [fst sl_length sl_nodes] in *.
      rewrite L. rewrite (si_len _ I).
      assert (LL : forall e (x : sset), length (sp_insert e x) = S (length x)).
      { intros e x. induction x as [|a x IHx]; simpl; auto. destruct (entry_ltb a e); simpl; auto. }
      rewrite LL, map_length. lia.
  - unfold sl_insert. destruct (random_level hs) as [lv hs'] eqn:R. exact R2.
Qed.

(* ---- deleteNode / Delete ---- *)
Lemma trim_pos pre suf h : (1 <= h)%nat -> (1 <= trim pre suf h)%nat.
Proof.
  induction h as [|h IH]; intros H; [lia|].
  destruct h as [|h]; simpl; [lia|].
  destruct (has_tall pre suf (S h)); [lia|]. apply IH. lia.
Qed.

Lemma length_remove_at {A} (l : list A) p x : nth_error l p = Some x ->
  length l = S (length (firstn p l ++ skipn (S p) l)).
Proof.
  intros N. destruct (nth_split_at _ _ _ N) as [E _]. rewrite E at 1.
  rewrite !app_length. simpl. lia.
Qed.

Lemma sl_delete_node_spec l p x : SInv l -> nth_error (sl_nodes l) p = Some x ->
  let l' := sl_delete_node (rev (firstn p (sl_nodes l))) (skipn (S p) (sl_nodes l)) l in
  sl_nodes l' = firstn p (sl_nodes l) ++ skipn (S p) (sl_nodes l)
  /\ ents (sl_nodes l') = sp_remove (n_member x) (ents (sl_nodes l)) /\ SInv l'.
Proof.
  intros I N l'.
  assert (E : sl_nodes l' = firstn p (sl_nodes l) ++ skipn (S p) (sl_nodes l)).
  { unfold l', sl_delete_node. cbn [sl_nodes]. apply rev_append_zip. }
  assert (E2 : ents (sl_nodes l') = sp_remove (n_member x) (ents (sl_nodes l))).
  { rewrite E. apply remove_at; auto. apply (si_su _ I). }
  split; [exact E|]. split; [exact E2|]. constructor.
  - rewrite E2. apply sp_remove_SU, (si_su _ I).
  - rewrite E. apply Forall_app. split; [apply Forall_firstn|apply Forall_skipn]; apply (si_h _ I).
  - unfold l', sl_delete_node. cbn [sl_highest]. apply trim_pos, (si_hi _ I).
  - rewrite E. unfold l', sl_delete_node. cbn [sl_length]. rewrite (si_len _ I).
    rewrite (length_remove_at _ _ _ N). lia.
Qed.

Lemma sl_delete_spec s m l : SInv l -> In (s, m) (ents (sl_nodes l)) ->
  snd (sl_delete s m l) = true
  /\ ents (sl_nodes (fst (sl_delete s m l))) = sp_remove m (ents (sl_nodes l))
  /\ SInv (fst (sl_delete s m l)).
Proof.
  intros I H. destruct (find_pos _ _ _ (si_su _ I) H) as (p & x & N & Ex & C1 & C2).
  unfold sl_delete. rewrite (search_mono _ l I (mono_less_than s m)), C1.
  cbn [zip_at w_suf w_pre]. destruct (nth_split_at _ _ _ N) as [_ Sk]. rewrite Sk.
  assert (Q : node_equal x s m = true) by (apply node_equal_ent; exact Ex). rewrite Q.
  cbn [fst snd]. split; [reflexivity|].
  destruct (sl_delete_node_spec l p x I N) as (A1 & A2 & A3).
  assert (M : n_member x = m) by (unfold ent in Ex; inversion Ex; reflexivity).
  rewrite <- M. split; assumption.
Qed.

(* ---- UpdateScore ---- *)
Lemma last_score_bound ns q t : StronglySorted elt (ents ns) -> rev ns = q :: t ->
  forall y, In y ns -> n_score y <= n_score q.
Proof.
  intros S R y Hy. assert (E : ns = rev t ++ [q]).
  { rewrite <- (rev_involutive ns), R. reflexivity. }
  rewrite E in S, Hy. rewrite ents_app in S. destruct (SS_app_inv _ _ _ S) as (_ & _ & C).
  apply in_app_or in Hy as [Hy|[<-|[]]]; [|lia].
  assert (Q : elt (ent y) (ent q)) by (apply C; [apply in_map; auto|left; reflexivity]).
  unfold elt, ent in Q. simpl in Q. lia.
Qed.

Lemma length_replace_at {A} (l : list A) p x x' : nth_error l p = Some x ->
  length (firstn p l ++ x' :: skipn (S p) l) = length l.
Proof.
  intros N. destruct (nth_split_at _ _ _ N) as [E _]. rewrite E at 3.
  rewrite !app_length. simpl. lia.
Qed.

Lemma sl_update_score_spec old m new hs l : SInv l -> In (old, m) (ents (sl_nodes l)) -> hs_pos hs ->
  exists l' hs', sl_update_score old m new hs l = Some (l', hs')
    /\ ents (sl_nodes l') = sp_set new m (ents (sl_nodes l)) /\ SInv l' /\ hs_pos hs'.
Proof.
  intros I H Hh. destruct (find_pos _ _ _ (si_su _ I) H) as (p & x & N & Ex & C1 & C2).
  assert (M : n_member x = m) by (unfold ent in Ex; inversion Ex; reflexivity).
  unfold sl_update_score. rewrite (search_mono _ l I (mono_less_than old m)), C1.
  cbn [zip_at w_suf w_pre]. destruct (nth_split_at _ _ _ N) as [Sp Sk]. rewrite Sk.
  set (ns := sl_nodes l) in *.
  destruct (sl_delete_node_spec l p x I N) as (A1 & A2 & A3). fold ns in A1, A2, A3.
  match goal with |- context [if ?c then _ else _] => destruct c eqn:Fast end.
  - (* in place *)
    eexists; eexists. split; [reflexivity|]. cbn [sl_nodes]. rewrite rev_append_zip.
    assert (E : ents (firstn p ns ++ mkNode new (n_member x) (n_height x) :: skipn (S p) ns)
                = sp_set new m (ents ns)).
    { unfold sp_set. rewrite <- M, <- (remove_at ns p x (si_su _ I) N). rewrite !ents_app.
      change (ents (mkNode new (n_member x) (n_height x) :: skipn (S p) ns))
        with ((new, n_member x) :: ents (skipn (S p) ns)).
      symmetry. apply sp_insert_split.
      - apply andb_true_iff in Fast as [F1 _].
        unfold ents. rewrite Forall_map. apply Forall_forall. intros y Hy.
        destruct (rev (firstn p ns)) as [|q t] eqn:R.
        + assert (firstn p ns = []) by (rewrite <- (rev_involutive (firstn p ns)), R; reflexivity).
          rewrite H0 in Hy. destruct Hy.
        + apply Z.ltb_lt in F1.
          assert (S1 : StronglySorted elt (ents (firstn p ns))).
          { pose proof (proj1 (si_su _ I)) as S0. fold ns in S0. rewrite Sp, ents_app in S0.
            apply (SS_app_inv _ _ _ S0). }
          pose proof (last_score_bound _ _ _ S1 R y Hy). unfold elt, ent. simpl. lia.
      - apply andb_true_iff in Fast as [_ F2].
        destruct (skipn (S p) ns) as [|nx r]; [exact Logic.I|]. apply Z.ltb_lt in F2.
        unfold elt, ent. simpl. lia. }
    split; [exact E|]. split; [|exact Hh]. constructor; cbn [sl_nodes sl_highest sl_length].
    + rewrite E. apply sp_set_SU, (si_su _ I).
    + apply Forall_app. split; [apply Forall_firstn, (si_h _ I)|].
      constructor; [|apply Forall_skipn, (si_h _ I)]. simpl.
      pose proof (si_h _ I) as Hp. unfold hpos in Hp. rewrite Forall_forall in Hp. apply Hp.
      eapply nth_error_In; eauto.
    + apply (si_hi _ I).
    + rewrite (length_replace_at _ _ _ _ N). apply (si_len _ I).
  - (* delete and re-insert *)
    set (l1 := sl_delete_node (rev (firstn p ns)) (skipn (S p) ns) l) in *.
    assert (Nm : ~ In m (map snd (ents (sl_nodes l1)))).
    { rewrite A2, M, sp_remove_members. tauto. }
    destruct (sl_insert_spec new m hs l1 A3 Nm Hh) as (B1 & B2 & B3).
    rewrite M. destruct (sl_insert new m hs l1) as [l' hs'] eqn:Ei. cbn [fst snd] in *.
    exists l', hs'. split; [reflexivity|]. split; [|split; assumption].
    rewrite B1, A2, M. reflexivity.
Qed.
