(* C03: zset mutators and rank/score queries against the specification. *)
From VF Require Import Common.Base C03.Spec C03.Model C03.ProofsSpec C03.ProofsWalk C03.ProofsSL C03.ProofsSL2 C03.ProofsSL3 C03.ProofsZ.
From Coq Require Import Sorting.Sorted.
Local Open Scope Z_scope.

Lemma elt_asym a b : elt a b -> ~ elt b a.
Proof. unfold elt. lia. Qed.

(* setting a member to the score it already has changes nothing *)
Lemma sp_set_same s m l : SU l -> In (s, m) l -> sp_set s m l = l.
Proof.
  intros H I. apply in_split in I as (l1 & l2 & ->).
  destruct (SU_app_inv _ _ H) as (H1 & H2 & C & D).
  destruct (SU_cons_inv _ _ H2) as (H3 & F & N2).
  unfold sp_set. rewrite sp_remove_split; auto.
  - apply sp_insert_split.
    + apply Forall_forall. intros x Hx. apply C; auto. left. reflexivity.
    + destruct l2 as [|x r]; auto. inversion F; subst. now apply elt_asym.
  - intros Hm. apply (D _ Hm). left. reflexivity.
Qed.

Lemma DInv_set z l' s m : DInv (z_dict z) (sl_nodes (z_list z)) ->
  ents (sl_nodes l') = sp_set s m (abs z) -> DInv (dset m s (z_dict z)) (sl_nodes l').
Proof.
  intros D E m'. rewrite dget_dset, E, sp_find_set, (D m'). reflexivity.
Qed.

Lemma zs_addb_spec s m hs z : ZInv z -> hs_pos hs ->
  exists z' hs', zs_addb s m hs z
                 = Val (z', match sp_find m (abs z) with Some _ => false | None => true end, hs')
    /\ abs z' = sp_set s m (abs z) /\ ZInv z' /\ hs_pos hs'.
Proof.
  intros [I D] Hh. unfold zs_addb. rewrite (D m). fold (abs z).
  destruct (sp_find m (abs z)) as [old|] eqn:F.
  - apply sp_find_some_in in F. destruct (s =? old) eqn:E.
    + apply Z.eqb_eq in E. subst. simpl. exists z, hs. split; [reflexivity|].
      split; [symmetry; apply sp_set_same; [apply (si_su _ I)|exact F]|]. split; [split; assumption|exact Hh].
    + simpl. destruct (sl_update_score_spec old m s hs _ I F Hh) as (l' & hs' & U & A1 & A2 & A3).
      rewrite U. eexists; eexists. split; [reflexivity|]. unfold abs at 1. cbn [z_list].
      split; [exact A1|]. split; [|exact A3]. split; [exact A2|]. cbn [z_dict z_list]. now apply DInv_set.
  - apply sp_find_none in F.
    destruct (sl_insert_spec s m hs _ I F Hh) as (A1 & A2 & A3).
    destruct (sl_insert s m hs (z_list z)) as [l' hs'] eqn:Ei. cbn [fst snd] in *.
    eexists; eexists. split; [reflexivity|]. unfold abs at 1. cbn [z_list].
    assert (E : ents (sl_nodes l') = sp_set s m (abs z)).
    { rewrite A1. unfold sp_set. fold (abs z). now rewrite (sp_remove_absent m (abs z) F). }
    split; [exact E|]. split; [|exact A3]. split; [exact A2|]. cbn [z_dict z_list]. now apply DInv_set.
Qed.

Lemma zs_incrby_spec incr m hs z : ZInv z -> hs_pos hs ->
  exists z' hs',
    zs_incrby incr m hs z
    = Val (z', match sp_find m (abs z) with Some old => old + incr | None => incr end,
           match sp_find m (abs z) with Some _ => true | None => false end, hs')
    /\ abs z' = sp_set (match sp_find m (abs z) with Some old => old + incr | None => incr end) m (abs z)
    /\ ZInv z' /\ hs_pos hs'.
Proof.
  intros [I D] Hh. unfold zs_incrby. rewrite (D m). fold (abs z).
  destruct (sp_find m (abs z)) as [old|] eqn:F.
  - apply sp_find_some_in in F.
    destruct (sl_update_score_spec old m (old + incr) hs _ I F Hh) as (l' & hs' & U & A1 & A2 & A3).
    rewrite U. eexists; eexists. split; [reflexivity|]. unfold abs at 1. cbn [z_list].
    split; [exact A1|]. split; [|exact A3]. split; [exact A2|]. cbn [z_dict z_list]. now apply DInv_set.
  - apply sp_find_none in F.
    destruct (sl_insert_spec incr m hs _ I F Hh) as (A1 & A2 & A3).
    destruct (sl_insert incr m hs (z_list z)) as [l' hs'] eqn:Ei. cbn [fst snd] in *.
    eexists; eexists. split; [reflexivity|]. unfold abs at 1. cbn [z_list].
    assert (E : ents (sl_nodes l') = sp_set incr m (abs z)).
    { rewrite A1. unfold sp_set. fold (abs z). now rewrite (sp_remove_absent m (abs z) F). }
    split; [exact E|]. split; [|exact A3]. split; [exact A2|]. cbn [z_dict z_list]. now apply DInv_set.
Qed.

Lemma zs_removeb_spec m z : ZInv z ->
  let '(z', s, b) := zs_removeb m z in
  (s, b) = match sp_find m (abs z) with Some s => (s, true) | None => (0, false) end
  /\ abs z' = sp_remove m (abs z) /\ ZInv z'.
Proof.
  intros [I D]. unfold zs_removeb. rewrite (D m). fold (abs z).
  destruct (sp_find m (abs z)) as [s|] eqn:F.
  - apply sp_find_some_in in F. destruct (sl_delete_spec s m _ I F) as (A1 & A2 & A3).
    split; [reflexivity|]. unfold abs at 1. cbn [z_list]. split; [exact A2|]. split; [exact A3|].
    cbn [z_dict z_list]. intros m'. rewrite dget_ddel, A2, (D m'). fold (abs z).
    destruct (m' =? m) eqn:E.
    + apply Z.eqb_eq in E. subst. now rewrite sp_find_remove_same.
    + apply Z.eqb_neq in E. now rewrite sp_find_remove_other.
  - apply sp_find_none in F. split; [reflexivity|]. split; [now rewrite sp_remove_absent|split; assumption].
Qed.

Lemma zs_add_spec ms : forall hs z, ZInv z -> hs_pos hs ->
  exists z', zs_add ms hs z = Val z'
             /\ abs z' = fold_left (fun acc m => sp_set 0 m acc) ms (abs z) /\ ZInv z'.
Proof.
  induction ms as [|m r IH]; intros hs z I Hh; simpl.
  - exists z. auto.
  - destruct (zs_addb_spec 0 m hs z I Hh) as (z1 & hs1 & E & A & I1 & H1). rewrite E.
    destruct (IH hs1 z1 I1 H1) as (z' & E' & A' & I'). exists z'. rewrite E', A', A. auto.
Qed.

Lemma zs_remove_spec ms : forall z, ZInv z ->
  abs (zs_remove ms z) = fold_left (fun acc m => sp_remove m acc) ms (abs z) /\ ZInv (zs_remove ms z).
Proof.
  induction ms as [|m r IH]; intros z I; simpl; [auto|].
  pose proof (zs_removeb_spec m z I) as R. destruct (zs_removeb m z) as [[z1 s] b]. cbn [fst].
  destruct R as (_ & A & I1). destruct (IH z1 I1) as [A' I']. rewrite A', A. auto.
Qed.

Lemma zs_containsb_spec m z : ZInv z ->
  zs_containsb m z = match sp_find m (abs z) with Some _ => true | None => false end.
Proof. intros [I D]. unfold zs_containsb. rewrite (D m). reflexivity. Qed.

Lemma zs_contains_spec ms z : ZInv z ->
  zs_contains ms z = forallb (fun m => match sp_find m (abs z) with Some _ => true | None => false end) ms.
Proof.
  intros I. induction ms as [|m r IH]; simpl; [reflexivity|].
  rewrite (zs_containsb_spec m z I). destruct (sp_find m (abs z)); simpl; auto.
Qed.

(* ---- Rank / RevRank ---- *)
Lemma sp_index_find m l : sp_index m l = None <-> sp_find m l = None.
Proof. rewrite sp_index_none, sp_find_none. tauto. Qed.

Lemma zs_rank_spec m z : ZInv z ->
  zs_rank m z = match sp_index m (abs z) with Some i => i | None => -1 end.
Proof.
  intros [I D]. unfold zs_rank. rewrite (D m). fold (abs z).
  destruct (sp_find m (abs z)) as [s|] eqn:F.
  - apply sp_find_some_in in F. destruct (sl_rank_spec s m _ I F) as (p & Ix & R).
    fold (abs z) in Ix. rewrite Ix, R. lia.
  - apply sp_index_find in F. now rewrite F.
Qed.

Lemma zs_revrank_spec m z : ZInv z ->
  zs_revrank m z = match sp_index m (abs z) with Some i => sp_len (abs z) - 1 - i | None => -1 end.
Proof.
  intros [I D]. unfold zs_revrank. rewrite (D m). fold (abs z).
  destruct (sp_find m (abs z)) as [s|] eqn:F.
  - apply sp_find_some_in in F. destruct (sl_rank_spec s m _ I F) as (p & Ix & R).
    fold (abs z) in Ix. rewrite Ix, R. unfold sp_len, abs. rewrite ents_length, (si_len _ I). lia.
  - apply sp_index_find in F. now rewrite F.
Qed.

Lemma rank_of_nth l p x : SInv l -> nth_error (sl_nodes l) p = Some x ->
  sl_rank (n_score x) (n_member x) l = Z.of_nat (S p).
Proof.
  intros I N.
  assert (H' : In (ent x) (ents (sl_nodes l))) by (apply in_map; eapply nth_error_In; eauto).
  destruct (sl_rank_spec _ _ _ I H') as (q & Ix & R). rewrite R.
  assert (Ix' : sp_index (n_member x) (ents (sl_nodes l)) = Some (Z.of_nat p)).
  { eapply sp_index_of_nth; [apply (si_su _ I)|apply ents_nth; eauto|reflexivity]. }
  rewrite Ix in Ix'. inversion Ix'. lia.
Qed.
