(* C03 extra (feeds C17): the "lanes" invariant of the skip list.
   In the model forward pointers are derived: the level-i chain from the header is the
   sub-sequence of nodes of height > i, so it contains every such node by construction PROVIDED the
   header carries that level, i.e. i < highestLevel.  The invariant therefore is: every node's height
   is at most highestLevel (so each of its lanes starts at the header), highestLevel is tight
   (1, or the height of some node: deleteNode trims exactly the empty top levels, fix 0007) and
   at most maxLevel.  Preserved by every operation, for every operation list and oracle.
   No sortedness or dict agreement is needed: a search only moves the zipper. *)
From VF Require Import Common.Base C03.Spec C03.Model.
Local Open Scope Z_scope.

Definition chain (i : nat) (ns : list node) : list node := filter (fun y => (i <? n_height y)%nat) ns.

Record Lanes (l : slist) : Prop := mkLanes {
  ln_pos : (1 <= sl_highest l <= maxLevel)%nat;
  ln_le : forall y, In y (sl_nodes l) -> (n_height y <= sl_highest l)%nat;
  ln_tight : sl_highest l = 1%nat \/ exists y, In y (sl_nodes l) /\ n_height y = sl_highest l }.

(* the statement in the words of DESIGN C17: for every i < highest, every node of height > i is on
   the level-i chain from the header; and no node has a lane at or above highest *)
Lemma lanes_chain l : Lanes l ->
  (forall i y, In y (sl_nodes l) -> (i < n_height y)%nat -> (i < sl_highest l)%nat /\ In y (chain i (sl_nodes l))).
Proof.
  intros L i y Hy Hi. split.
  - pose proof (ln_le _ L y Hy). lia.
  - unfold chain. apply filter_In. split; auto. now apply Nat.ltb_lt.
Qed.

(* ---- a search only moves the zipper ---- *)
Definition zlist (st : wst) : list node := rev (w_pre st) ++ w_suf st.

Lemma lwalk_zlist adv i : forall l pend d st, w_suf st = rev pend ++ l ->
  zlist (lwalk adv i l pend d st) = zlist st.
Proof.
  induction l as [|y r IH]; intros pend d st H; simpl; [reflexivity|].
  destruct (i <? n_height y)%nat.
  - destruct (adv (w_rank st + (d + 1)) y); [|reflexivity].
    rewrite IH by reflexivity. unfold zlist. cbn [w_pre w_suf]. rewrite H.
    cbn [rev]. rewrite rev_app_distr, <- !app_assoc. reflexivity.
  - apply IH. rewrite H. simpl. now rewrite <- app_assoc.
Qed.

Lemma walk_zlist adv exit : forall levels st, zlist (fst (walk adv exit levels st)) = zlist st.
Proof.
  induction levels as [|i IH]; intros st; simpl; [reflexivity|].
  assert (E : zlist (lwalk adv i (w_suf st) [] 0 st) = zlist st) by (apply lwalk_zlist; reflexivity).
  destruct (exit _); [exact E|]. now rewrite IH.
Qed.

Lemma search_zlist adv l : zlist (search adv l) = sl_nodes l.
Proof. unfold search. rewrite walk_zlist. reflexivity. Qed.

Lemma search_in adv l y : In y (sl_nodes l) <-> In y (w_pre (search adv l)) \/ In y (w_suf (search adv l)).
Proof. rewrite <- (search_zlist adv l). unfold zlist. rewrite in_app_iff, <- in_rev. tauto. Qed.

Lemma in_rev_append {A} (a b : list A) x : In x (rev_append a b) <-> In x a \/ In x b.
Proof. rewrite rev_append_rev, in_app_iff, <- in_rev. tauto. Qed.

(* ---- Insert ---- *)
Lemma random_level_max hs : (fst (random_level hs) <= maxLevel)%nat.
Proof.
  destruct hs as [|h r]; simpl; [unfold maxLevel; lia|].
  destruct (maxLevel <? h)%nat eqn:E; [lia|]. apply Nat.ltb_ge in E. exact E.
Qed.

Lemma insert_lanes s m hs l : (1 <= fst (random_level hs))%nat -> Lanes l -> Lanes (fst (sl_insert s m hs l)).
Proof.
  intros Hp L. unfold sl_insert. pose proof (random_level_max hs) as Hm.
  destruct (random_level hs) as [lv hs'] eqn:R. cbn [fst] in *.
  set (st := search _ l).
  assert (IN : forall y, In y (rev_append (w_pre st) (mkNode s m lv :: w_suf st)) <->
                         y = mkNode s m lv \/ In y (sl_nodes l)).
  { intros y. rewrite in_rev_append. simpl. rewrite (search_in (fun _ y0 => less_than y0 s m) l y). fold st. intuition. }
  pose proof (ln_pos _ L) as P.
  constructor; cbn [sl_nodes sl_highest].
  - destruct (sl_highest l <? lv)%nat; lia.
  - intros y Hy. apply IN in Hy as [->|Hy].
    + simpl. destruct (sl_highest l <? lv)%nat eqn:E; [lia|apply Nat.ltb_ge in E; lia].
    + pose proof (ln_le _ L y Hy). destruct (sl_highest l <? lv)%nat eqn:E; [apply Nat.ltb_lt in E|]; lia.
  - destruct (sl_highest l <? lv)%nat eqn:E.
    + right. exists (mkNode s m lv). split; [apply IN; auto|reflexivity].
    + destruct (ln_tight _ L) as [T|(y & Hy & T)]; [left; exact T|]. right. exists y. split; [apply IN; auto|exact T].
Qed.

(* ---- deleteNode ---- *)
Lemma has_tall_spec pre suf i : has_tall pre suf i = true <-> exists y, (In y pre \/ In y suf) /\ (i < n_height y)%nat.
Proof.
  unfold has_tall. rewrite orb_true_iff, !existsb_exists. split.
  - intros [(y & I & E)|(y & I & E)]; apply Nat.ltb_lt in E; eauto.
  - intros (y & [I|I] & E); [left|right]; exists y; split; auto; now apply Nat.ltb_lt.
Qed.

Lemma trim_SS pre suf h :
  trim pre suf (S (S h)) = if has_tall pre suf (S h) then S (S h) else trim pre suf (S h).
Proof. reflexivity. Qed.

Lemma trim_lanes pre suf : forall h, (1 <= h)%nat ->
  (forall y, In y pre \/ In y suf -> (n_height y <= h)%nat) ->
  let t := trim pre suf h in
  (1 <= t <= h)%nat /\ (forall y, In y pre \/ In y suf -> (n_height y <= t)%nat)
  /\ (t = 1%nat \/ exists y, (In y pre \/ In y suf) /\ n_height y = t).
Proof.
  induction h as [|h IH]; intros Hh Hle; [lia|].
  destruct h as [|h].
  - cbn [trim]. split; [lia|]. split; [exact Hle|]. left. reflexivity.
  - rewrite trim_SS. destruct (has_tall pre suf (S h)) eqn:T.
    + split; [lia|]. split; [exact Hle|]. right.
      apply has_tall_spec in T as (y & Hy & Ht). exists y. split; auto. specialize (Hle y Hy). lia.
    + assert (Hle' : forall y, In y pre \/ In y suf -> (n_height y <= S h)%nat).
      { intros y Hy. destruct (Nat.le_gt_cases (n_height y) (S h)) as [Q|Q]; auto.
        assert (has_tall pre suf (S h) = true) by (apply has_tall_spec; exists y; split; auto). congruence. }
      assert (H1 : (1 <= S h)%nat) by lia.
      destruct (IH H1 Hle') as (A & B & C). cbv zeta in *. split; [lia|]. split; auto.
Qed.

Lemma delete_node_lanes pre suf l :
  (forall y, In y pre \/ In y suf -> In y (sl_nodes l)) -> Lanes l -> Lanes (sl_delete_node pre suf l).
Proof.
  intros Sub L. pose proof (ln_pos _ L) as P.
  assert (H1 : (1 <= sl_highest l)%nat) by lia.
  destruct (trim_lanes pre suf (sl_highest l) H1) as (A & B & C).
  { intros y Hy. apply (ln_le _ L). auto. }
  cbv zeta in *. constructor; unfold sl_delete_node; cbn [sl_nodes sl_highest].
  - lia.
  - intros y Hy. apply in_rev_append in Hy. auto.
  - destruct C as [C|(y & Hy & C)]; [left; exact C|]. right. exists y. split; [apply in_rev_append; exact Hy|exact C].
Qed.

Lemma delete_lanes s m l : Lanes l -> Lanes (fst (sl_delete s m l)).
Proof.
  intros L. unfold sl_delete. set (st := search _ l).
  pose proof (search_in (fun _ y => less_than y s m) l) as IN. fold st in IN.
  destruct (w_suf st) as [|x r] eqn:E; [exact L|]. destruct (node_equal x s m); [|exact L]. cbn [fst].
  apply delete_node_lanes; auto. intros y [Hy|Hy]; apply IN; auto. right. right. exact Hy.
Qed.

(* ---- UpdateScore ---- *)
Lemma update_score_lanes old m new hs l r : hs = [] \/ (1 <= hd 1%nat hs)%nat -> Lanes l ->
  sl_update_score old m new hs l = Some r -> Lanes (fst r).
Proof.
  intros Hh L. unfold sl_update_score. set (st := search _ l).
  pose proof (search_in (fun _ y => less_than y old m) l) as IN. fold st in IN.
  destruct (w_suf st) as [|x rest] eqn:E; [discriminate|].
  match goal with |- context [if ?c then _ else _] => destruct c end; intros H; inversion H; subst; clear H; cbn [fst].
  - (* in place: same heights *)
    pose proof (ln_pos _ L) as P.
    assert (INx : forall y, In y (rev_append (w_pre st) (mkNode new (n_member x) (n_height x) :: rest)) ->
                            exists y', In y' (sl_nodes l) /\ n_height y' = n_height y).
    { intros y Hy. apply in_rev_append in Hy. destruct Hy as [Hy|[<-|Hy]].
      - exists y. split; auto. apply IN. auto.
      - exists x. split; auto. apply IN. right. left. reflexivity.
      - exists y. split; auto. apply IN. right. right. exact Hy. }
    constructor; cbn [sl_nodes sl_highest].
    + exact P.
    + intros y Hy. destruct (INx y Hy) as (y' & Hy' & Eh). rewrite <- Eh. now apply (ln_le _ L).
    + destruct (ln_tight _ L) as [T|(y & Hy & T)]; [left; exact T|]. right.
      apply IN in Hy. destruct Hy as [Hy|[<-|Hy]].
      * exists y. split; auto. apply in_rev_append. auto.
      * exists (mkNode new (n_member x) (n_height x)). split; [apply in_rev_append; right; left; reflexivity|exact T].
      * exists y. split; auto. apply in_rev_append. right. right. exact Hy.
  - apply insert_lanes.
    + destruct hs as [|h hs']; simpl; [lia|]. destruct Hh as [Hh|Hh]; [discriminate|]. simpl in Hh.
      destruct (maxLevel <? h)%nat; [unfold maxLevel|]; lia.
    + apply delete_node_lanes; auto. intros y [Hy|Hy]; apply IN; auto. right. right. exact Hy.
Qed.

(* ---- the deletion loop ---- *)
Lemma del_loop_lanes cond pre : forall suf trav hi len d rem suf' hi' len' d',
  del_loop cond pre suf trav hi len d = (rem, suf', hi', len', d') ->
  (1 <= hi <= maxLevel)%nat ->
  (forall y, In y pre \/ In y suf -> (n_height y <= hi)%nat) ->
  (hi = 1%nat \/ exists y, (In y pre \/ In y suf) /\ n_height y = hi) ->
  (1 <= hi' <= maxLevel)%nat /\ (forall y, In y suf' -> In y suf)
  /\ (forall y, In y pre \/ In y suf' -> (n_height y <= hi')%nat)
  /\ (hi' = 1%nat \/ exists y, (In y pre \/ In y suf') /\ n_height y = hi').
Proof.
  induction suf as [|x r IH]; intros trav hi len d rem suf' hi' len' d' H P Le T; simpl in H.
  - inversion H; subst. repeat split; auto; try lia.
  - destruct (cond trav x).
    + destruct (del_loop cond pre r (trav + 1) (trim pre r hi) (len - 1) (ddel (n_member x) d))
        as [[[[rem1 suf1] hi1] len1] d1] eqn:E. inversion H; subst.
      assert (H1 : (1 <= hi)%nat) by lia.
      destruct (trim_lanes pre r hi H1) as (A & B & C).
      { intros y [Hy|Hy]; apply Le; auto. right. right. exact Hy. }
      cbv zeta in *. assert (H2 : (1 <= trim pre r hi <= maxLevel)%nat) by lia.
      destruct (IH _ _ _ _ _ _ _ _ _ E H2 B C) as (P1 & S1 & L1 & T1).
      split; [exact P1|]. split; [intros y Hy; right; auto|]. split; assumption.
    + inversion H; subst. repeat split; auto; try lia.
Qed.

Lemma del_result_lanes l adv cond trav0 d rem suf' hi' len' d' :
  Lanes l ->
  del_loop cond (w_pre (search adv l)) (w_suf (search adv l)) trav0 (sl_highest l) (sl_length l) d
    = (rem, suf', hi', len', d') ->
  Lanes (mkSL (rev_append (w_pre (search adv l)) suf') hi' len').
Proof.
  intros L E. set (st := search adv l) in *.
  pose proof (search_in adv l) as IN. fold st in IN.
  destruct (del_loop_lanes _ _ _ _ _ _ _ _ _ _ _ _ E (ln_pos _ L)) as (P1 & S1 & L1 & T1).
  - intros y Hy. apply (ln_le _ L). apply IN. exact Hy.
  - destruct (ln_tight _ L) as [T|(y & Hy & T)]; [left; exact T|]. right. exists y. split; [apply IN; exact Hy|exact T].
  - constructor; cbn [sl_nodes sl_highest].
    + exact P1.
    + intros y Hy. apply in_rev_append in Hy. auto.
    + destruct T1 as [T1|(y & Hy & T1)]; [left; exact T1|]. right. exists y. split; [apply in_rev_append; exact Hy|exact T1].
Qed.

Lemma delete_range_by_score_lanes min max exmin exmax d l : Lanes l ->
  Lanes (fst (fst (sl_delete_range_by_score min max exmin exmax d l))).
Proof.
  intros L. unfold sl_delete_range_by_score.
  destruct (del_loop _ _ _ _ _ _ _) as [[[[rem suf'] hi'] len'] d'] eqn:E. cbn [fst].
  eapply del_result_lanes; eauto.
Qed.

Lemma delete_range_by_rank_lanes start end_ d l : Lanes l ->
  Lanes (fst (fst (sl_delete_range_by_rank start end_ d l))).
Proof.
  intros L. unfold sl_delete_range_by_rank.
  destruct (del_loop _ _ _ _ _ _ _) as [[[[rem suf'] hi'] len'] d'] eqn:E. cbn [fst].
  eapply del_result_lanes; eauto.
Qed.

(* ---- zset layer ---- *)
Definition hs_ok (hs : list nat) : Prop := Forall (fun h => (1 <= h)%nat) hs.

Lemma random_level_ok hs : hs_ok hs -> (1 <= fst (random_level hs))%nat /\ hs_ok (snd (random_level hs)).
Proof.
  intros H. destruct hs as [|h r]; simpl; [split; [lia|constructor]|].
  inversion H; subst. split; auto. destruct (maxLevel <? h)%nat; [unfold maxLevel|]; lia.
Qed.

Lemma insert_ok s m hs l : hs_ok hs -> Lanes l ->
  Lanes (fst (sl_insert s m hs l)) /\ hs_ok (snd (sl_insert s m hs l)).
Proof.
  intros H L. destruct (random_level_ok hs H) as [R1 R2]. split; [now apply insert_lanes|].
  unfold sl_insert. destruct (random_level hs); exact R2.
Qed.

Lemma update_score_ok old m new hs l r : hs_ok hs -> Lanes l ->
  sl_update_score old m new hs l = Some r -> Lanes (fst r) /\ hs_ok (snd r).
Proof.
  intros H L E. split.
  - assert (Q : hs = [] \/ (1 <= hd 1%nat hs)%nat).
    { destruct hs as [|h t]; [left; reflexivity|right]. inversion H; subst. assumption. }
    exact (update_score_lanes _ _ _ _ _ _ Q L E).
  - unfold sl_update_score in E. destruct (w_suf _) as [|x rest]; [discriminate|].
    match type of E with (if ?c then _ else _) = _ => destruct c end; inversion E; subst; cbn [snd]; auto.
    destruct (random_level_ok hs H) as [_ R2]. unfold sl_insert. destruct (random_level hs); exact R2.
Qed.

Definition ZLanes (z : zset) : Prop := Lanes (z_list z).

Lemma addb_lanes s m hs z z' b hs' : hs_ok hs -> ZLanes z -> zs_addb s m hs z = Val (z', b, hs') ->
  ZLanes z' /\ hs_ok hs'.
Proof.
  intros H L. unfold zs_addb. destruct (dget m (z_dict z)) as [old|].
  - destruct (negb (s =? old)).
    + destruct (sl_update_score old m s hs (z_list z)) as [[l1 hs1]|] eqn:E; [|discriminate].
      intros Q. inversion Q; subst. apply (update_score_ok _ _ _ _ _ _ H L E).
    + intros Q. inversion Q; subst. auto.
  - destruct (insert_ok s m hs (z_list z) H L) as [A B].
    destruct (sl_insert s m hs (z_list z)) as [l1 hs1]. intros Q. inversion Q; subst. auto.
Qed.

Lemma incrby_lanes s m hs z z' v b hs' : hs_ok hs -> ZLanes z -> zs_incrby s m hs z = Val (z', v, b, hs') ->
  ZLanes z' /\ hs_ok hs'.
Proof.
  intros H L. unfold zs_incrby. destruct (dget m (z_dict z)) as [old|].
  - destruct (sl_update_score old m (old + s) hs (z_list z)) as [[l1 hs1]|] eqn:E; [|discriminate].
    intros Q. inversion Q; subst. apply (update_score_ok _ _ _ _ _ _ H L E).
  - destruct (insert_ok s m hs (z_list z) H L) as [A B].
    destruct (sl_insert s m hs (z_list z)) as [l1 hs1]. intros Q. inversion Q; subst. auto.
Qed.

Lemma removeb_lanes m z : ZLanes z -> ZLanes (fst (fst (zs_removeb m z))).
Proof.
  intros L. unfold zs_removeb. destruct (dget m (z_dict z)) as [s|]; cbn [fst]; [|exact L].
  unfold ZLanes. cbn [z_list]. now apply delete_lanes.
Qed.

Lemma add_lanes ms : forall hs z z', hs_ok hs -> ZLanes z -> zs_add ms hs z = Val z' -> ZLanes z'.
Proof.
  induction ms as [|m r IH]; intros hs z z' H L E; simpl in E.
  - inversion E; subst. exact L.
  - destruct (zs_addb 0 m hs z) as [[[z1 b] hs1]|] eqn:A; [|discriminate].
    destruct (addb_lanes _ _ _ _ _ _ _ H L A) as [L1 H1]. eapply IH; eauto.
Qed.

Lemma remove_lanes ms : forall z, ZLanes z -> ZLanes (zs_remove ms z).
Proof. induction ms as [|m r IH]; intros z L; simpl; auto. apply IH. now apply removeb_lanes. Qed.

Lemma lanes_new : Lanes sl_new.
Proof. constructor; simpl; [unfold maxLevel; lia|tauto|auto]. Qed.

Lemma step_lanes z o : hs_ok (op_heights o) -> ZLanes z -> ZLanes (fst (zset_step z o)).
Proof.
  intros H L. destruct o; cbn [zset_step op_heights] in *; try exact L.
  - destruct (zs_addb s m hs z) as [[[z1 b] hs1]|] eqn:A; cbn [fst]; [|exact L]. eapply addb_lanes; eauto.
  - destruct (zs_incrby s m hs z) as [[[[z1 v] b] hs1]|] eqn:A; cbn [fst]; [|exact L]. eapply incrby_lanes; eauto.
  - pose proof (removeb_lanes m z L) as R. destruct (zs_removeb m z) as [[z1 s] b]. exact R.
  - destruct (zs_add ms hs z) as [z1|] eqn:A; cbn [fst]; [|exact L]. eapply add_lanes; eauto.
  - cbn [fst]. now apply remove_lanes.
  - exact lanes_new.
  - unfold zs_rem_range_by_rank.
    match goal with |- context [sl_delete_range_by_rank ?a ?b ?d ?l] =>
      pose proof (delete_range_by_rank_lanes a b d l L) as R; destruct (sl_delete_range_by_rank a b d l) as [[l1 d1] rem] end.
    exact R.
  - unfold zs_rem_range_by_score.
    match goal with |- context [sl_delete_range_by_score ?a ?b ?c ?e ?d ?l] =>
      pose proof (delete_range_by_score_lanes a b c e d l L) as R; destruct (sl_delete_range_by_score a b c e d l) as [[l1 d1] rem] end.
    exact R.
  - unfold zs_rem_range_by_score.
    match goal with |- context [sl_delete_range_by_score ?a ?b ?c ?e ?d ?l] =>
      pose proof (delete_range_by_score_lanes a b c e d l L) as R; destruct (sl_delete_range_by_score a b c e d l) as [[l1 d1] rem] end.
    exact R.
Qed.

Theorem lanes_all : forall ops, heights_pos ops -> ZLanes (fst (run zset_step zset_empty ops)).
Proof.
  intros ops. assert (G : forall z, ZLanes z -> heights_pos ops -> ZLanes (fst (run zset_step z ops))).
  { induction ops as [|o r IH]; intros z L H; simpl; [exact L|]. inversion H; subst.
    pose proof (step_lanes z o H2 L) as L1. destruct (zset_step z o) as [z1 x]. cbn [fst] in L1.
    specialize (IH z1 L1 H3). destruct (run zset_step z1 r) as [z2 xs]. exact IH. }
  apply G. exact lanes_new.
Qed.
