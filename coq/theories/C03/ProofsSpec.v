(* C03: facts about the specification functions (sorted unique lists of (score, member)). *)
From VF Require Import Common.Base C03.Spec.
From Coq Require Import Sorting.Sorted.
Local Open Scope Z_scope.

Definition elt (a b : entry) : Prop := fst a < fst b \/ (fst a = fst b /\ snd a < snd b).

Lemma entry_ltb_elt a b : entry_ltb a b = true <-> elt a b.
Proof.
  unfold entry_ltb, elt. rewrite orb_true_iff, andb_true_iff, !Z.ltb_lt, Z.eqb_eq. tauto.
Qed.
Lemma entry_ltb_false a b : entry_ltb a b = false <-> ~ elt a b.
Proof. rewrite <- entry_ltb_elt. destruct (entry_ltb a b); split; congruence. Qed.

Lemma elt_trans a b c : elt a b -> elt b c -> elt a c.
Proof. unfold elt. lia. Qed.
Lemma elt_irrefl a : ~ elt a a.
Proof. unfold elt. lia. Qed.
Lemma elt_total a b : elt a b \/ a = b \/ elt b a.
Proof. destruct a, b. unfold elt. simpl. destruct (Z.eq_dec z z1), (Z.eq_dec z0 z2); subst; auto; lia. Qed.

(* sorted by (score, member), members unique *)
Definition SU (l : sset) : Prop := StronglySorted elt l /\ NoDup (map snd l).

Lemma SU_nil : SU [].
Proof. split; constructor. Qed.

Lemma SU_cons_inv e l : SU (e :: l) -> SU l /\ Forall (elt e) l /\ ~ In (snd e) (map snd l).
Proof.
  intros [S N]. inversion S; subst. inversion N; subst. repeat split; auto.
Qed.

Lemma SU_cons e l : SU l -> Forall (elt e) l -> ~ In (snd e) (map snd l) -> SU (e :: l).
Proof. intros [S N] F I. split; constructor; auto. Qed.

(* ---- find ---- *)
Lemma sp_find_none m l : sp_find m l = None <-> ~ In m (map snd l).
Proof.
  unfold sp_find. induction l as [|e l IH]; simpl; [tauto|].
  destruct (snd e =? m) eqn:E.
  - apply Z.eqb_eq in E. split; [discriminate|]. intros H. exfalso. apply H. auto.
  - apply Z.eqb_neq in E. rewrite IH. tauto.
Qed.

Lemma sp_find_some_in m s l : sp_find m l = Some s -> In (s, m) l.
Proof.
  unfold sp_find. induction l as [|e l IH]; simpl; [discriminate|].
  destruct (snd e =? m) eqn:E.
  - apply Z.eqb_eq in E. intros H. inversion H; subst. left. destruct e; reflexivity.
  - intros H. right. auto.
Qed.

Lemma sp_find_in m s l : NoDup (map snd l) -> In (s, m) l -> sp_find m l = Some s.
Proof.
  unfold sp_find. induction l as [|e l IH]; simpl; intros N I; [tauto|].
  inversion N; subst. destruct I as [->|I].
  - simpl. now rewrite Z.eqb_refl.
  - destruct (snd e =? m) eqn:E.
    + apply Z.eqb_eq in E. exfalso. apply H1. rewrite E. apply (in_map snd) in I. exact I.
    + auto.
Qed.

Lemma sp_find_cons m e l : sp_find m (e :: l) = if snd e =? m then Some (fst e) else sp_find m l.
Proof. unfold sp_find. simpl. destruct (snd e =? m); reflexivity. Qed.

Lemma sp_find_app m l1 l2 :
  sp_find m (l1 ++ l2) = match sp_find m l1 with Some s => Some s | None => sp_find m l2 end.
Proof.
  induction l1 as [|e l1 IH]; [reflexivity|].
  rewrite <- app_comm_cons, !sp_find_cons. destruct (snd e =? m); auto.
Qed.

(* ---- insert ---- *)
Lemma sp_insert_split e l1 l2 :
  Forall (fun x => elt x e) l1 ->
  match l2 with [] => True | x :: _ => ~ elt x e end ->
  sp_insert e (l1 ++ l2) = l1 ++ e :: l2.
Proof.
  intros F H. induction F as [|x l1 Hx F IH]; simpl.
  - destruct l2 as [|x r]; [reflexivity|]. simpl. apply entry_ltb_false in H. now rewrite H.
  - apply entry_ltb_elt in Hx. rewrite Hx. now rewrite IH.
Qed.

Lemma sp_insert_in e l x : In x (sp_insert e l) <-> x = e \/ In x l.
Proof.
  induction l as [|y l IH]; simpl; [intuition|].
  destruct (entry_ltb y e); simpl; rewrite ?IH; intuition.
Qed.

Lemma sp_insert_members e l m : In m (map snd (sp_insert e l)) <-> m = snd e \/ In m (map snd l).
Proof.
  rewrite !in_map_iff. split.
  - intros (x & <- & I). apply sp_insert_in in I as [->|I]; [now left|right; eauto].
  - intros [->|(x & <- & I)]; [exists e|exists x]; split; auto; apply sp_insert_in; auto.
Qed.

Lemma sp_insert_SU e l : SU l -> ~ In (snd e) (map snd l) -> SU (sp_insert e l).
Proof.
  induction l as [|y l IH]; intros H N.
  - simpl. apply SU_cons; [apply SU_nil|constructor|simpl; tauto].
  - destruct (SU_cons_inv _ _ H) as (Hl & Fy & Ny). simpl.
    destruct (entry_ltb y e) eqn:E.
    + apply entry_ltb_elt in E. apply SU_cons.
      * apply IH; auto. simpl in N. tauto.
      * rewrite Forall_forall. intros x Hx. apply sp_insert_in in Hx as [->|Hx]; auto.
        rewrite Forall_forall in Fy. auto.
      * rewrite sp_insert_members. simpl in N. intros [Q|Q]; [|tauto]. apply N. left. auto.
    + apply entry_ltb_false in E.
      assert (Hey : elt e y).
      { destruct (elt_total e y) as [T|[T|T]]; auto; [|tauto]. subst. exfalso. apply N. left. reflexivity. }
      apply SU_cons; auto.
      constructor; auto. rewrite Forall_forall in *. intros x Hx. eapply elt_trans; eauto.
Qed.

Lemma sp_find_insert_same s m l : ~ In m (map snd l) -> sp_find m (sp_insert (s, m) l) = Some s.
Proof.
  intros N. induction l as [|y l IH]; simpl.
  - rewrite sp_find_cons. simpl. now rewrite Z.eqb_refl.
  - simpl in N. destruct (entry_ltb y (s, m)).
    + rewrite sp_find_cons. destruct (snd y =? m) eqn:E; [apply Z.eqb_eq in E; tauto|]. apply IH. tauto.
    + rewrite sp_find_cons. simpl. now rewrite Z.eqb_refl.
Qed.

Lemma sp_find_insert_other s m m' l : m' <> m -> sp_find m' (sp_insert (s, m) l) = sp_find m' l.
Proof.
  intros N. induction l as [|y l IH]; simpl.
  - rewrite sp_find_cons. simpl. destruct (m =? m') eqn:E; [apply Z.eqb_eq in E; congruence|reflexivity].
  - destruct (entry_ltb y (s, m)).
    + rewrite !sp_find_cons. now rewrite IH.
    + rewrite sp_find_cons. simpl. destruct (m =? m') eqn:E; [apply Z.eqb_eq in E; congruence|reflexivity].
Qed.

(* ---- remove ---- *)
Lemma filter_SU f l : SU l -> SU (filter f l).
Proof.
  induction l as [|y l IH]; intros H; [exact H|].
  destruct (SU_cons_inv _ _ H) as (Hl & Fy & Ny). simpl. destruct (f y); auto.
  apply SU_cons; auto.
  - rewrite Forall_forall in *. intros x Hx. apply filter_In in Hx. apply Fy. tauto.
  - intros I. apply Ny. apply in_map_iff in I as (x & E & I). apply filter_In in I.
    apply in_map_iff. exists x. tauto.
Qed.

Lemma sp_remove_SU m l : SU l -> SU (sp_remove m l).
Proof. apply filter_SU. Qed.

Lemma sp_remove_members m l x : In x (map snd (sp_remove m l)) <-> x <> m /\ In x (map snd l).
Proof.
  unfold sp_remove. rewrite !in_map_iff. split.
  - intros (e & <- & I). apply filter_In in I as [I E]. apply negb_true_iff, Z.eqb_neq in E. split; eauto.
  - intros (N & e & <- & I). exists e. split; auto. apply filter_In. split; auto.
    apply negb_true_iff, Z.eqb_neq. auto.
Qed.

Lemma sp_find_remove_same m l : sp_find m (sp_remove m l) = None.
Proof. apply sp_find_none. rewrite sp_remove_members. tauto. Qed.

Lemma sp_find_remove_other m m' l : m' <> m -> sp_find m' (sp_remove m l) = sp_find m' l.
Proof.
  intros N. unfold sp_remove. induction l as [|y l IH]; simpl; [reflexivity|].
  destruct (snd y =? m) eqn:E; simpl.
  - apply Z.eqb_eq in E. rewrite sp_find_cons.
    destruct (snd y =? m') eqn:E'; [apply Z.eqb_eq in E'; congruence|]. exact IH.
  - rewrite !sp_find_cons. now rewrite IH.
Qed.

Lemma sp_remove_absent m l : ~ In m (map snd l) -> sp_remove m l = l.
Proof.
  unfold sp_remove. induction l as [|y l IH]; simpl; intros N; [reflexivity|].
  destruct (snd y =? m) eqn:E; [apply Z.eqb_eq in E; tauto|]. simpl. f_equal. apply IH. tauto.
Qed.

Lemma sp_remove_split m l1 e l2 :
  snd e = m -> ~ In m (map snd l1) -> ~ In m (map snd l2) -> sp_remove m (l1 ++ e :: l2) = l1 ++ l2.
Proof.
  intros E N1 N2. unfold sp_remove. rewrite filter_app. simpl.
  rewrite E, Z.eqb_refl. simpl. fold (sp_remove m l1). fold (sp_remove m l2).
  now rewrite !sp_remove_absent.
Qed.

(* ---- set ---- *)
Lemma sp_set_SU s m l : SU l -> SU (sp_set s m l).
Proof.
  intros H. unfold sp_set. apply sp_insert_SU; [now apply sp_remove_SU|].
  simpl. rewrite sp_remove_members. tauto.
Qed.

Lemma sp_find_set s m m' l : sp_find m' (sp_set s m l) = if m' =? m then Some s else sp_find m' l.
Proof.
  unfold sp_set. destruct (m' =? m) eqn:E.
  - apply Z.eqb_eq in E. subst. apply sp_find_insert_same. rewrite sp_remove_members. tauto.
  - apply Z.eqb_neq in E. rewrite sp_find_insert_other; auto. now apply sp_find_remove_other.
Qed.

(* ---- StronglySorted over app ---- *)
Lemma SS_app_inv {A} (R : A -> A -> Prop) l1 l2 :
  StronglySorted R (l1 ++ l2) ->
  StronglySorted R l1 /\ StronglySorted R l2 /\ (forall x y, In x l1 -> In y l2 -> R x y).
Proof.
  induction l1 as [|a l1 IH]; simpl; intros H.
  - repeat split; auto. constructor. intros x y [].
  - inversion H; subst. destruct (IH H2) as (S1 & S2 & C). repeat split; auto.
    + constructor; auto. rewrite Forall_forall in *. intros x Hx. apply H3. apply in_or_app. auto.
    + intros x y [->|Hx] Hy; auto. rewrite Forall_forall in H3. apply H3. apply in_or_app. auto.
Qed.

Lemma SS_app {A} (R : A -> A -> Prop) l1 l2 :
  StronglySorted R l1 -> StronglySorted R l2 -> (forall x y, In x l1 -> In y l2 -> R x y) ->
  StronglySorted R (l1 ++ l2).
Proof.
  induction l1 as [|a l1 IH]; simpl; intros S1 S2 C; auto.
  inversion S1; subst. constructor.
  - apply IH; auto.
  - rewrite Forall_forall in *. intros x Hx. apply in_app_or in Hx as [Hx|Hx]; auto.
Qed.

Lemma NoDup_app_inv {A} (a b : list A) : NoDup (a ++ b) ->
  NoDup a /\ NoDup b /\ (forall x, In x a -> ~ In x b).
Proof.
  induction a as [|x a IH]; simpl; intros N.
  - repeat split; auto. constructor.
  - inversion N; subst. destruct (IH H2) as (Na & Nb & D). repeat split; auto.
    + constructor; auto. intros I. apply H1. apply in_or_app. auto.
    + intros y [->|Hy]; auto. intros I. apply H1. apply in_or_app. auto.
Qed.

Lemma SU_app_inv l1 l2 : SU (l1 ++ l2) ->
  SU l1 /\ SU l2 /\ (forall x y, In x l1 -> In y l2 -> elt x y) /\
  (forall m, In m (map snd l1) -> ~ In m (map snd l2)).
Proof.
  intros [S N]. destruct (SS_app_inv _ _ _ S) as (S1 & S2 & C).
  rewrite map_app in N. destruct (NoDup_app_inv _ _ N) as (N1 & N2 & D).
  repeat split; auto.
Qed.

Lemma NoDup_app_intro {A} (a b : list A) : NoDup a -> NoDup b -> (forall x, In x a -> ~ In x b) -> NoDup (a ++ b).
Proof.
  induction a as [|x a IH]; simpl; intros Na Nb D; auto.
  inversion Na; subst. constructor.
  - intros I. apply in_app_or in I as [I|I]; [tauto|]. apply (D x); auto.
  - apply IH; auto.
Qed.

Lemma SU_app l1 l2 : SU l1 -> SU l2 -> (forall x y, In x l1 -> In y l2 -> elt x y) ->
  (forall m, In m (map snd l1) -> ~ In m (map snd l2)) -> SU (l1 ++ l2).
Proof.
  intros [S1 N1] [S2 N2] C D. split; [apply SS_app; auto|].
  rewrite map_app. apply NoDup_app_intro; auto.
Qed.

(* ---- index ---- *)
Lemma sp_index_nth m l i : sp_index m l = Some i ->
  0 <= i /\ exists e, nth_error l (Z.to_nat i) = Some e /\ snd e = m.
Proof.
  revert i. induction l as [|e l IH]; simpl; intros i H; [discriminate|].
  destruct (snd e =? m) eqn:E.
  - inversion H; subst. apply Z.eqb_eq in E. split; [lia|]. exists e. auto.
  - destruct (sp_index m l) as [j|]; [|discriminate]. inversion H; subst.
    destruct (IH j eq_refl) as (P & e' & N & Sm). split; [lia|]. exists e'. split; auto.
    replace (Z.to_nat (j + 1)) with (S (Z.to_nat j)) by lia. exact N.
Qed.

Lemma sp_index_none m l : sp_index m l = None <-> ~ In m (map snd l).
Proof.
  induction l as [|e l IH]; simpl; [tauto|].
  destruct (snd e =? m) eqn:E.
  - apply Z.eqb_eq in E. split; [discriminate|]. intros H; exfalso; apply H; auto.
  - apply Z.eqb_neq in E. destruct (sp_index m l) as [j|].
    + split; [discriminate|]. intros H. exfalso.
      assert (Q : Some j = None) by (apply IH; tauto). discriminate.
    + split; [|reflexivity]. intros _. assert (Q : ~ In m (map snd l)) by (apply IH; reflexivity). tauto.
Qed.

Lemma sp_index_of_nth m l : NoDup (map snd l) -> forall j e,
  nth_error l j = Some e -> snd e = m -> sp_index m l = Some (Z.of_nat j).
Proof.
  induction l as [|x l IH]; intros N j e H S; [destruct j; discriminate|].
  inversion N; subst. destruct j as [|j]; simpl in *.
  - inversion H; subst. now rewrite Z.eqb_refl.
  - destruct (snd x =? snd e) eqn:E.
    + apply Z.eqb_eq in E. exfalso. apply H2. rewrite E. apply in_map. eapply nth_error_In; eauto.
    + rewrite (IH H3 j e H eq_refl). f_equal. lia.
Qed.
