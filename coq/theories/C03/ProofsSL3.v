(* C03: the dict, the deletion loop, DeleteRangeByScore / DeleteRangeByRank. *)
From VF Require Import Common.Base C03.Spec C03.Model C03.ProofsSpec C03.ProofsWalk C03.ProofsSL C03.ProofsSL2.
From Coq Require Import Sorting.Sorted.
Local Open Scope Z_scope.

(* ---- dict ---- *)
Lemma dget_dset m s m' d : dget m' (dset m s d) = if m' =? m then Some s else dget m' d.
Proof.
  induction d as [|[k v] d IH]; simpl.
  - rewrite (Z.eqb_sym m m'). reflexivity.
  - destruct (k =? m) eqn:E; simpl.
    + apply Z.eqb_eq in E. subst. destruct (m =? m') eqn:E2.
      * apply Z.eqb_eq in E2. subst. now rewrite Z.eqb_refl.
      * rewrite (Z.eqb_sym m' m), E2. reflexivity.
    + destruct (k =? m') eqn:E2.
      * apply Z.eqb_eq in E2. subst. rewrite (Z.eqb_sym m' m) in *. now rewrite E.
      * exact IH.
Qed.

Lemma dget_ddel m m' d : dget m' (ddel m d) = if m' =? m then None else dget m' d.
Proof.
  induction d as [|[k v] d IH]; simpl.
  - destruct (m' =? m); reflexivity.
  - destruct (k =? m) eqn:E; simpl.
    + apply Z.eqb_eq in E. subst. rewrite IH. rewrite (Z.eqb_sym m m'). destruct (m' =? m); reflexivity.
    + destruct (k =? m') eqn:E2.
      * apply Z.eqb_eq in E2. subst. now rewrite E.
      * exact IH.
Qed.

Definition dfold (rem : list node) (d : dict) : dict := fold_left (fun d x => ddel (n_member x) d) rem d.

Lemma dget_dfold m rem : forall d,
  dget m (dfold rem d) = if existsb (fun x => n_member x =? m) rem then None else dget m d.
Proof.
  induction rem as [|x r IH]; intros d; simpl; [reflexivity|].
  unfold dfold in *. simpl. rewrite IH, dget_ddel. rewrite (Z.eqb_sym m (n_member x)).
  destruct (n_member x =? m); simpl; [|reflexivity].
  destruct (existsb _ r); reflexivity.
Qed.

Definition DInv (d : dict) (ns : list node) : Prop := forall m, dget m d = sp_find m (ents ns).

Lemma existsb_member m ns : existsb (fun x => n_member x =? m) ns = true <-> In m (map snd (ents ns)).
Proof.
  rewrite existsb_exists, members_ents, in_map_iff. split.
  - intros (x & I & E). apply Z.eqb_eq in E. eauto.
  - intros (x & E & I). exists x. split; auto. now apply Z.eqb_eq.
Qed.

(* ---- the deletion loop removes a prefix of the suffix ---- *)
Lemma del_loop_spec cond pre : forall suf c trav hi len d,
  (c <= length suf)%nat ->
  (forall i x, (i < c)%nat -> nth_error suf i = Some x -> cond (trav + Z.of_nat i) x = true) ->
  (forall x, nth_error suf c = Some x -> cond (trav + Z.of_nat c) x = false) ->
  (1 <= hi)%nat ->
  exists hi', del_loop cond pre suf trav hi len d
              = (firstn c suf, skipn c suf, hi', len - Z.of_nat c, dfold (firstn c suf) d) /\ (1 <= hi')%nat.
Proof.
  induction suf as [|x r IH]; intros c trav hi len d Hc H1 H2 Hh.
  - simpl in Hc. assert (c = 0)%nat by lia. subst. exists hi. simpl. rewrite Z.sub_0_r. auto.
  - destruct c as [|c].
    + exists hi. simpl. rewrite (H2 x eq_refl) || (specialize (H2 x eq_refl); rewrite Z.add_0_r in H2; rewrite H2).
      rewrite Z.sub_0_r. auto.
    + assert (C0 : cond trav x = true).
      { specialize (H1 0%nat x ltac:(lia) eq_refl). now rewrite Z.add_0_r in H1. }
      destruct (IH c (trav + 1) (trim pre r hi) (len - 1) (ddel (n_member x) d)) as (hi' & E & Hh').
      * simpl in Hc. lia.
      * intros i y Hi N. replace (trav + 1 + Z.of_nat i) with (trav + Z.of_nat (S i)) by lia.
        apply H1; [lia|exact N].
      * intros y N. replace (trav + 1 + Z.of_nat c) with (trav + Z.of_nat (S c)) by lia. apply H2. exact N.
      * now apply trim_pos.
      * exists hi'. split; [|exact Hh']. cbn [del_loop]. rewrite C0, E.
        replace (len - 1 - Z.of_nat c) with (len - Z.of_nat (S c)) by lia. reflexivity.
Qed.

(* ---- removing a contiguous block keeps the invariants ---- *)
Lemma block_remove l A R C d hi' : SInv l -> sl_nodes l = A ++ R ++ C -> DInv d (sl_nodes l) -> (1 <= hi')%nat ->
  SInv (mkSL (A ++ C) hi' (sl_length l - Z.of_nat (length R))) /\ DInv (dfold R d) (A ++ C).
Proof.
  intros I E D Hh. pose proof (si_su _ I) as S. rewrite E, !ents_app in S.
  destruct (SU_app_inv _ _ S) as (SA & SRC & X1 & Y1).
  destruct (SU_app_inv _ _ SRC) as (SR & SC & X2 & Y2).
  split.
  - constructor; cbn [sl_nodes sl_highest sl_length].
    + rewrite ents_app. apply SU_app; auto.
      * intros x y Hx Hy. apply X1; auto. apply in_or_app. auto.
      * intros m Hm Hc. apply (Y1 m Hm). rewrite map_app. apply in_or_app. auto.
    + pose proof (si_h _ I) as Hp. rewrite E in Hp. unfold hpos in *.
      apply Forall_app in Hp as [HA HRC]. apply Forall_app in HRC as [HR HC]. apply Forall_app. auto.
    + exact Hh.
    + rewrite (si_len _ I), E, !app_length. lia.
  - intros m. rewrite dget_dfold, (D m), E, !ents_app, !sp_find_app.
    destruct (existsb (fun x => n_member x =? m) R) eqn:Ex.
    + apply existsb_member in Ex.
      assert (NA : sp_find m (ents A) = None).
      { apply sp_find_none. intros Hm. apply (Y1 m Hm). rewrite map_app. apply in_or_app. auto. }
      assert (NC : sp_find m (ents C) = None).
      { apply sp_find_none. apply (Y2 m Ex). }
      now rewrite NA, NC.
    + assert (NR : sp_find m (ents R) = None).
      { apply sp_find_none. intros Hm. apply existsb_member in Hm. congruence. }
      now rewrite NR.
Qed.

Lemma filter3 {A} (f : A -> bool) X R C :
  Forall (fun x => f x = false) X -> Forall (fun x => f x = true) R -> Forall (fun x => f x = false) C ->
  filter f (X ++ R ++ C) = R /\ filter (fun x => negb (f x)) (X ++ R ++ C) = X ++ C.
Proof.
  intros HX HR HC. split.
  - rewrite !filter_app, (filter_all_false _ _ HX), (filter_all_true _ _ HR), (filter_all_false _ _ HC).
    now rewrite app_nil_r.
  - rewrite !filter_app.
    rewrite (filter_all_true (fun x => negb (f x)) X), (filter_all_false (fun x => negb (f x)) R),
      (filter_all_true (fun x => negb (f x)) C); [reflexivity| | |].
    + eapply Forall_impl; [|exact HC]. intros y Hy. cbv beta in *. now rewrite Hy.
    + eapply Forall_impl; [|exact HR]. intros y Hy. cbv beta in *. now rewrite Hy.
    + eapply Forall_impl; [|exact HX]. intros y Hy. cbv beta in *. now rewrite Hy.
Qed.

(* ---- DeleteRangeByScore ---- *)
Lemma sl_delete_range_by_score_spec min max exmin exmax d l : SInv l -> DInv d (sl_nodes l) ->
  let '(l', d', rem) := sl_delete_range_by_score min max exmin exmax d l in
  map ent rem = sp_by_score min max exmin exmax (ents (sl_nodes l))
  /\ ents (sl_nodes l') = sp_not_by_score min max exmin exmax (ents (sl_nodes l))
  /\ SInv l' /\ DInv d' (sl_nodes l').
Proof.
  intros I D. unfold sl_delete_range_by_score.
  rewrite (search_mono _ l I (mono_below_min min exmin)). set (ns := sl_nodes l). fold (kmin min exmin ns).
  set (a := kmin min exmin ns). cbn [zip_at w_pre w_suf].
  destruct (kmin_split min exmin l I) as [A1 A2]. fold ns in A1, A2. fold a in A1, A2.
  pose proof (proj1 (si_su _ I)) as S. fold ns in S.
  assert (S2 : StronglySorted elt (ents (skipn a ns))).
  { rewrite <- (firstn_skipn a ns), ents_app in S. apply (SS_app_inv _ _ _ S). }
  set (suf := skipn a ns) in *. set (c := cnt (fun y => lt_max (n_score y) max exmax) suf).
  destruct (cnt_split _ _ S2 (mono_lt_max max exmax)) as [B1 B2]. fold c in B1, B2.
  destruct (del_loop_spec (fun _ x => lt_max (n_score x) max exmax) (rev (firstn a ns)) suf c 0
              (sl_highest l) (sl_length l) d) as (hi' & E & Hh).
  - apply cnt_le.
  - intros i x Hi N. rewrite Forall_forall in B1. apply B1. eapply nth_in_firstn; eauto.
  - intros x N. rewrite Forall_forall in B2. apply B2. eapply nth_in_skipn; eauto.
  - apply (si_hi _ I).
  - rewrite E. rewrite rev_append_zip.
    assert (Dec : ns = firstn a ns ++ firstn c suf ++ skipn c suf).
    { rewrite (firstn_skipn c suf). unfold suf. symmetry. apply firstn_skipn. }
    set (inr := fun y => in_range min max exmin exmax (n_score y)).
    destruct (filter3 inr (firstn a ns) (firstn c suf) (skipn c suf)) as [F1 F2].
    + eapply Forall_impl; [|exact A1]. intros y Hy. unfold inr. rewrite in_range_split. cbv beta in Hy. now rewrite Hy.
    + apply Forall_forall. intros y Hy. unfold inr. rewrite in_range_split. apply andb_true_iff. split.
      * rewrite Forall_forall in A2. apply A2. eapply in_firstn; eauto.
      * rewrite Forall_forall in B1. apply B1. exact Hy.
    + eapply Forall_impl; [|exact B2]. intros y Hy. unfold inr. rewrite in_range_split. cbv beta in Hy. rewrite Hy.
      apply andb_false_r.
    + rewrite <- Dec in F1, F2.
      destruct (block_remove l (firstn a ns) (firstn c suf) (skipn c suf) d hi' I Dec D Hh) as [SI DI].
      assert (Lc : length (firstn c suf) = c) by (apply firstn_length_le, cnt_le). rewrite Lc in SI.
      split; [|split; [|split]].
      * unfold sp_by_score. rewrite (filter_ents (fun e => in_range min max exmin exmax (fst e))).
        change (fun y => in_range min max exmin exmax (fst (ent y))) with inr. now rewrite F1.
      * cbn [sl_nodes]. unfold sp_not_by_score.
        rewrite (filter_ents (fun e => negb (in_range min max exmin exmax (fst e)))).
        change (fun y => negb (in_range min max exmin exmax (fst (ent y)))) with (fun y => negb (inr y)).
        now rewrite F2.
      * exact SI.
      * exact DI.
Qed.

(* ---- DeleteRangeByRank (start, end 1-based) ---- *)
Lemma sl_delete_range_by_rank_spec start end_ d l : SInv l -> DInv d (sl_nodes l) ->
  let ns := sl_nodes l in
  let k := Nat.min (Z.to_nat (start - 1)) (length ns) in
  let c := Nat.min (Z.to_nat (end_ - Z.of_nat k)) (length ns - k) in
  let '(l', d', rem) := sl_delete_range_by_rank start end_ d l in
  rem = firstn c (skipn k ns) /\ sl_nodes l' = firstn k ns ++ skipn c (skipn k ns)
  /\ SInv l' /\ DInv d' (sl_nodes l').
Proof.
  intros I D ns k c. unfold sl_delete_range_by_rank.
  assert (HT : Thr (fun pos _ => pos <? start) ns k).
  { split; [unfold k; lia|]. intros j y N.
    assert (j < length ns)%nat by (apply nth_error_Some; congruence).
    unfold k. destruct (Z.of_nat (S j) <? start) eqn:A.
    - apply Z.ltb_lt in A. symmetry. apply Nat.leb_le. lia.
    - apply Z.ltb_ge in A. symmetry. apply Nat.leb_gt. lia. }
  rewrite (search_zip _ l k HT (si_h _ I) (si_hi _ I)). fold ns. cbn [zip_at w_pre w_suf w_rank].
  set (suf := skipn k ns).
  assert (Ls : length suf = (length ns - k)%nat) by (unfold suf; apply skipn_length).
  destruct (del_loop_spec (fun trav _ => trav <=? end_) (rev (firstn k ns)) suf c (Z.of_nat k + 1)
              (sl_highest l) (sl_length l) d) as (hi' & E & Hh).
  - unfold c. lia.
  - intros i x Hi N. apply Z.leb_le. unfold c in Hi. lia.
  - intros x N. apply Z.leb_gt.
    assert (c < length suf)%nat by (apply nth_error_Some; congruence). unfold c in *. lia.
  - apply (si_hi _ I).
  - rewrite E, rev_append_zip.
    assert (Dec : ns = firstn k ns ++ firstn c suf ++ skipn c suf).
    { rewrite (firstn_skipn c suf). unfold suf. symmetry. apply firstn_skipn. }
    destruct (block_remove l (firstn k ns) (firstn c suf) (skipn c suf) d hi' I Dec D Hh) as [SI DI].
    assert (Lc : length (firstn c suf) = c) by (apply firstn_length_le; unfold c; lia). rewrite Lc in SI.
    split; [reflexivity|]. split; [reflexivity|]. split; [exact SI|exact DI].
Qed.
