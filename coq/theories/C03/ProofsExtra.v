(* C03: derived statements used by Props.v *)
From VF Require Import Common.Base C03.Spec C03.Model C03.ProofsSpec C03.ProofsWalk C03.ProofsSL C03.ProofsSL2
  C03.ProofsSL3 C03.ProofsZ C03.ProofsZ2 C03.ProofsZ3 C03.Proofs C03.ProofsAlg.
From Coq Require Import Sorting.Sorted.
Local Open Scope Z_scope.

Lemma ZInv_meaning z : ZInv z <->
  (StronglySorted elt (abs z) /\ NoDup (map snd (abs z)))
  /\ (forall m, dget m (z_dict z) = sp_find m (abs z))
  /\ Forall (fun y => (1 <= n_height y)%nat) (sl_nodes (z_list z))
  /\ (1 <= sl_highest (z_list z))%nat
  /\ sl_length (z_list z) = Z.of_nat (length (sl_nodes (z_list z))).
Proof.
  split.
  - intros [[S H Hi L] D]. repeat split; auto; apply S.
  - intros (S & D & H & Hi & L). split; [constructor; auto|exact D].
Qed.

Lemma revrank_rank z m : ZInv z -> zs_containsb m z = true ->
  zs_revrank m z = zs_len z - 1 - zs_rank m z /\ 0 <= zs_rank m z < zs_len z.
Proof.
  intros I C. rewrite (zs_containsb_spec m z I) in C.
  rewrite (zs_revrank_spec m z I), (zs_rank_spec m z I), (zs_len_spec z I).
  destruct (sp_index m (abs z)) as [i|] eqn:E.
  - split; [reflexivity|]. destruct (sp_index_nth _ _ _ E) as (P & e & N & _).
    assert (Z.to_nat i < length (abs z))%nat by (apply nth_error_Some; congruence). unfold sp_len. lia.
  - apply sp_index_find in E. rewrite E in C. discriminate.
Qed.

Lemma slice_in {A} (a b : Z) (l : list A) x : In x (slice a b l) -> In x l.
Proof.
  unfold slice. destruct (_ <=? _); [|intros []]. intros H. apply in_firstn in H. now apply in_skipn in H.
Qed.

Lemma range_members z a b e : ZInv z ->
  (In e (zs_range a b z) -> In e (abs z)) /\ (In e (zs_revrange a b z) -> In e (abs z)).
Proof.
  intros I. rewrite (zs_range_spec a b z I), (zs_revrange_spec a b z I). split; intros H; apply slice_in in H; auto.
  now apply in_rev.
Qed.

(* the abstraction holds each member once, with the score of the last AddB *)
Lemma latest_score s m m' l : sp_find m' (sp_set s m l) = if m' =? m then Some s else sp_find m' l.
Proof. apply sp_find_set. Qed.
