(* C03 model of structure/sets/zset (skiplist.go, zset.go, oparry.go, opt.go), as repaired by
   fixes 0002-0005, 0007, 0030-0032.  No proofs in this file.

   Layer 1 (skiplist.go): the skip list is its level-0 node sequence; every node carries the height
   that randomLevel drew for it (oracle input).  Forward pointers and spans are DERIVED: the level-i
   successor of a node is the next node of height > i, the span of that link is their level-0
   distance (oparry.go only stores them).  A search is a zipper over the level-0 sequence that moves
   level by level exactly as the Go loops do:
       next := x.loadNext(i); for next != nil && cond(next) { rank += x.loadSpan(i); x = next; ... }
   Layer 2 (zset.go): dict (member -> score) + list, every public method with its index arithmetic.

   Members are Go ints with bcomparator.IntComparator; scores are integers (exactly representable
   float64, so + and comparisons are exact); the header sentinel's score -MaxFloat64 is below every
   score (see [cur_equal], [sl_last_in_range]). *)
From VF Require Import Common.Base C03.Spec.
Local Open Scope Z_scope.

Record node := mkNode { n_score : Z; n_member : Z; n_height : nat }.

Definition maxLevel : nat := 32.

(* bcomparator.IntComparator *)
Definition icmp (a b : Z) : Z := if a <? b then -1 else if a =? b then 0 else 1.

(* randomLevel: the oracle gives the raw level (1 + number of zero draws); capped at maxLevel.
   An exhausted oracle behaves like a first non-zero draw. *)
Definition random_level (hs : list nat) : nat * list nat :=
  match hs with
  | [] => (1%nat, [])
  | h :: r => ((if (maxLevel <? h)%nat then maxLevel else h), r)
  end.

Record slist := mkSL { sl_nodes : list node; sl_highest : nat; sl_length : Z }.
Definition sl_new : slist := mkSL [] 1 0.

(* listNode.lessThan / lessEqual / equal *)
Definition less_than (y : node) (s m : Z) : bool :=
  (n_score y <? s) || ((n_score y =? s) && (icmp (n_member y) m <? 0)).
Definition less_equal (y : node) (s m : Z) : bool :=
  (n_score y <? s) || ((n_score y =? s) && (icmp (n_member y) m <=? 0)).
Definition node_equal (y : node) (s m : Z) : bool := (n_member y =? m) && (n_score y =? s).

(* ---- derived forward pointers and spans ----
   [suf] = the nodes after x on level 0.  The level-i successor of x is the first node of height > i
   in [suf]; [find_tall] returns its distance.  When there is none the stored span is what the code
   leaves there: the number of nodes behind x (never read by a search). *)
Fixpoint find_tall (i : nat) (suf : list node) (d : Z) : option Z :=
  match suf with
  | [] => None
  | y :: r => if (i <? n_height y)%nat then Some (d + 1) else find_tall i r (d + 1)
  end.
Definition span_of (i : nat) (suf : list node) : Z :=
  match find_tall i suf 0 with Some d => d | None => Z.of_nat (length suf) end.
(* successor as a 0-based level-0 index, -1 = nil; [p] = 1-based position of x (0 = header) *)
Definition next_of (i : nat) (p : Z) (suf : list node) : Z :=
  match find_tall i suf 0 with Some d => p + d - 1 | None => -1 end.

(* ---- searching: one zipper state = the Go variables x (head of w_pre; [] = header), the nodes
   behind x, and the accumulated rank ---- *)
Record wst := mkW { w_rank : Z; w_pre : list node; w_suf : list node }.

(* one level: [l] is scanned for the level-i successor ([pend] nodes of height <= i lie between, the
   span is d+1); [adv pos next] is the loop condition, pos = rank + span *)
Fixpoint lwalk (adv : Z -> node -> bool) (i : nat) (l pend : list node) (d : Z) (st : wst) : wst :=
  match l with
  | [] => st                                                    (* next == nil *)
  | y :: r =>
      if (i <? n_height y)%nat then
        if adv (w_rank st + (d + 1)) y
        then lwalk adv i r [] 0 (mkW (w_rank st + (d + 1)) (y :: pend ++ w_pre st) r)
        else st
      else lwalk adv i r (y :: pend) (d + 1) st
  end.

(* for i := highestLevel-1; i >= 0; i-- { level loop; if exit { return } } *)
Fixpoint walk (adv : Z -> node -> bool) (exit : wst -> bool) (levels : nat) (st : wst) : wst * bool :=
  match levels with
  | O => (st, false)
  | S i => let st' := lwalk adv i (w_suf st) [] 0 st in
           if exit st' then (st', true) else walk adv exit i st'
  end.

Definition w_init (l : slist) : wst := mkW 0 [] (sl_nodes l).
Definition no_exit (st : wst) : bool := false.
Definition search (adv : Z -> node -> bool) (l : slist) : wst :=
  fst (walk adv no_exit (sl_highest l) (w_init l)).

(* ---- Insert ---- *)
Definition sl_insert (s m : Z) (hs : list nat) (l : slist) : slist * list nat :=
  let st := search (fun _ y => less_than y s m) l in
  let '(level, hs') := random_level hs in
  let hi := if (sl_highest l <? level)%nat then level else sl_highest l in
  (mkSL (rev_append (w_pre st) (mkNode s m level :: w_suf st)) hi (sl_length l + 1), hs').

(* ---- deleteNode: unlink x (between [pre] and [suf]), then
   for highestLevel > 1 && header.loadNext(highestLevel-1) == nil { highestLevel-- } ---- *)
Definition has_tall (pre suf : list node) (i : nat) : bool :=
  existsb (fun y => (i <? n_height y)%nat) pre || existsb (fun y => (i <? n_height y)%nat) suf.
Fixpoint trim (pre suf : list node) (h : nat) : nat :=
  match h with
  | S (S _ as h1) => if has_tall pre suf h1 then h else trim pre suf h1
  | _ => h
  end.
Definition sl_delete_node (pre suf : list node) (l : slist) : slist :=
  mkSL (rev_append pre suf) (trim pre suf (sl_highest l)) (sl_length l - 1).

(* ---- Delete ---- *)
Definition sl_delete (s m : Z) (l : slist) : slist * bool :=
  let st := search (fun _ y => less_than y s m) l in
  match w_suf st with
  | x :: r => if node_equal x s m then (sl_delete_node (w_pre st) r l, true) else (l, false)
  | [] => (l, false)
  end.

(* ---- UpdateScore; None = nil dereference (the element is assumed to exist) ---- *)
Definition sl_update_score (old m new : Z) (hs : list nat) (l : slist) : option (slist * list nat) :=
  let st := search (fun _ y => less_than y old m) l in
  match w_suf st with
  | [] => None
  | x :: r =>
      if (match w_pre st with [] => true | p :: _ => n_score p <? new end)
         && (match r with [] => true | nx :: _ => new <? n_score nx end)
      then Some (mkSL (rev_append (w_pre st) (mkNode new (n_member x) (n_height x) :: r))
                      (sl_highest l) (sl_length l), hs)
      else Some (sl_insert new (n_member x) hs (sl_delete_node (w_pre st) r l))
  end.

(* ---- Rank (1-based, 0 = not found).  x == header never satisfies equal: its score is -MaxFloat64 ---- *)
Definition cur_equal (s m : Z) (st : wst) : bool :=
  match w_pre st with [] => false | x :: _ => node_equal x s m end.
Definition sl_rank (s m : Z) (l : slist) : Z :=
  let '(st, found) := walk (fun _ y => less_equal y s m) (cur_equal s m) (sl_highest l) (w_init l) in
  if found then w_rank st else 0.

(* ---- GetNodeByRank (fix 0030: rank <= 0 -> nil).  Some st: x = head of w_pre st ---- *)
Definition sl_get_node_by_rank (rank : Z) (l : slist) : option wst :=
  if rank <=? 0 then None else
  let '(st, found) := walk (fun pos _ => pos <=? rank) (fun st => w_rank st =? rank)
                           (sl_highest l) (w_init l) in
  if found then Some st else None.

Definition gt_min (v min : Z) (ex : bool) : bool := if ex then min <? v else min <=? v.
Definition lt_max (v max : Z) (ex : bool) : bool := if ex then v <? max else v <=? max.

(* dict: Go map[K]float64 as an association list *)
Definition dict := list (Z * Z).
Fixpoint dget (m : Z) (d : dict) : option Z :=
  match d with [] => None | (k, v) :: r => if k =? m then Some v else dget m r end.
Fixpoint dset (m s : Z) (d : dict) : dict :=
  match d with
  | [] => [(m, s)]
  | (k, v) :: r => if k =? m then (k, s) :: r else (k, v) :: dset m s r
  end.
Fixpoint ddel (m : Z) (d : dict) : dict :=
  match d with [] => [] | (k, v) :: r => if k =? m then ddel m r else (k, v) :: ddel m r end.

(* the deletion loop shared by DeleteRangeByScore / DeleteRangeByRank:
   for x != nil && cond { next := x.next(0); deleteNode(x, update); delete(dict, x.value);
                          removed = append(removed, x); traversed++; x = next }
   [pre] is the update vector, fixed during the loop. Returns removed, remaining suffix, highest, length, dict *)
Fixpoint del_loop (cond : Z -> node -> bool) (pre suf : list node) (trav : Z) (hi : nat) (len : Z) (d : dict)
  : list node * list node * nat * Z * dict :=
  match suf with
  | [] => ([], [], hi, len, d)
  | x :: r =>
      if cond trav x then
        let '(rem, suf', hi', len', d') :=
          del_loop cond pre r (trav + 1) (trim pre r hi) (len - 1) (ddel (n_member x) d) in
        (x :: rem, suf', hi', len', d')
      else ([], suf, hi, len, d)
  end.

Definition sl_delete_range_by_score (min max : Z) (exmin exmax : bool) (d : dict) (l : slist)
  : slist * dict * list node :=
  let st := search (fun _ y => negb (gt_min (n_score y) min exmin)) l in
  let '(rem, suf', hi', len', d') :=
    del_loop (fun _ x => lt_max (n_score x) max exmax) (w_pre st) (w_suf st) 0 (sl_highest l) (sl_length l) d in
  (mkSL (rev_append (w_pre st) suf') hi' len', d', rem).

(* start, end 1-based *)
Definition sl_delete_range_by_rank (start end_ : Z) (d : dict) (l : slist) : slist * dict * list node :=
  let st := search (fun pos _ => pos <? start) l in
  let '(rem, suf', hi', len', d') :=
    del_loop (fun trav _ => trav <=? end_) (w_pre st) (w_suf st) (w_rank st + 1) (sl_highest l) (sl_length l) d in
  (mkSL (rev_append (w_pre st) suf') hi' len', d', rem).

(* ---- IsInRange / FirstInRange / LastInRange ---- *)
Definition sl_is_in_range (min max : Z) (exmin exmax : bool) (l : slist) : bool :=
  if (max <? min) || ((min =? max) && (exmin || exmax)) then false else
  match sl_nodes l with
  | [] => false                                                  (* tail == nil *)
  | f :: _ =>
      if negb (gt_min (n_score (last (sl_nodes l) f)) min exmin) then false
      else lt_max (n_score f) max exmax
  end.

Inductive res (A : Type) := Val (a : A) | Panic.
Arguments Val {A} a.
Arguments Panic {A}.

(* Val (Some (x, nodes after x)) | Val None = nil | Panic = nil dereference *)
Definition sl_first_in_range (min max : Z) (exmin exmax : bool) (l : slist) : res (option (node * list node)) :=
  if negb (sl_is_in_range min max exmin exmax l) then Val None else
  let st := search (fun _ y => negb (gt_min (n_score y) min exmin)) l in
  match w_suf st with
  | [] => Panic
  | x :: r => if negb (lt_max (n_score x) max exmax) then Val None else Val (Some (x, r))
  end.

(* Some (x, prev chain of x); x == header fails greaterThanMin (score -MaxFloat64) *)
Definition sl_last_in_range (min max : Z) (exmin exmax : bool) (l : slist) : option (node * list node) :=
  if negb (sl_is_in_range min max exmin exmax l) then None else
  let st := search (fun _ y => lt_max (n_score y) max exmax) l in
  match w_pre st with
  | [] => None
  | x :: p => if negb (gt_min (n_score x) min exmin) then None else Some (x, p)
  end.

(* ================= zset.go ================= *)
Record zset := mkZ { z_dict : dict; z_list : slist }.
Definition zset_empty : zset := mkZ [] sl_new.

Definition ent (y : node) : entry := (n_score y, n_member y).

Definition zs_addb (s m : Z) (hs : list nat) (z : zset) : res (zset * bool * list nat) :=
  match dget m (z_dict z) with
  | Some old =>
      if negb (s =? old) then
        match sl_update_score old m s hs (z_list z) with
        | Some (l', hs') => Val (mkZ (dset m s (z_dict z)) l', false, hs')
        | None => Panic
        end
      else Val (z, false, hs)
  | None =>
      let '(l', hs') := sl_insert s m hs (z_list z) in
      Val (mkZ (dset m s (z_dict z)) l', true, hs')
  end.

Definition zs_removeb (m : Z) (z : zset) : zset * Z * bool :=
  match dget m (z_dict z) with
  | None => (z, 0, false)
  | Some s => (mkZ (ddel m (z_dict z)) (fst (sl_delete s m (z_list z))), s, true)
  end.

Definition zs_incrby (incr m : Z) (hs : list nat) (z : zset) : res (zset * Z * bool * list nat) :=
  match dget m (z_dict z) with
  | None =>
      let '(l', hs') := sl_insert incr m hs (z_list z) in
      Val (mkZ (dset m incr (z_dict z)) l', incr, false, hs')
  | Some old =>
      let new := old + incr in
      match sl_update_score old m new hs (z_list z) with
      | Some (l', hs') => Val (mkZ (dset m new (z_dict z)) l', new, true, hs')
      | None => Panic
      end
  end.

Definition zs_len (z : zset) : Z := sl_length (z_list z).

Definition zs_rank (m : Z) (z : zset) : Z :=
  match dget m (z_dict z) with
  | None => -1
  | Some s => sl_rank s m (z_list z) - 1
  end.
(* fix 0002 *)
Definition zs_revrank (m : Z) (z : zset) : Z :=
  match dget m (z_dict z) with
  | None => -1
  | Some s => sl_length (z_list z) - sl_rank s m (z_list z)
  end.

Definition zs_count (min max : Z) (exmin exmax : bool) (z : zset) : res Z :=
  let l := z_list z in
  match sl_first_in_range min max exmin exmax l with
  | Panic => Panic
  | Val None => Val 0
  | Val (Some (f, _)) =>
      let first_rank := sl_rank (n_score f) (n_member f) l - 1 in
      match sl_last_in_range min max exmin exmax l with
      | None => Val (sl_length l - first_rank)
      | Some (la, _) =>
          let last_rank := sl_rank (n_score la) (n_member la) l - 1 in
          Val (last_rank - first_rank + 1)
      end
  end.

(* for x != nil && start <= stop { start++; res = append(res, x); x = x.next / x.prev } *)
Fixpoint take_while_le (chain : list node) (start stop : Z) : list entry :=
  match chain with
  | [] => []
  | x :: r => if start <=? stop then ent x :: take_while_le r (start + 1) stop else []
  end.

(* fix 0005: a start still negative after conversion is clamped to 0 *)
Definition zs_range (start stop : Z) (z : zset) : list entry :=
  let len := sl_length (z_list z) in
  let start := if start <? 0 then len + start else start in
  let stop := if stop <? 0 then len + stop else stop in
  let start := if start <? 0 then 0 else start in
  match sl_get_node_by_rank (start + 1) (z_list z) with
  | None => []
  | Some st => match w_pre st with
               | [] => []
               | x :: _ => take_while_le (x :: w_suf st) start stop
               end
  end.

Definition zs_revrange (start stop : Z) (z : zset) : list entry :=
  let len := sl_length (z_list z) in
  let start := if start <? 0 then len + start else start in
  let stop := if stop <? 0 then len + stop else stop in
  let start := if start <? 0 then 0 else start in
  match sl_get_node_by_rank (len - start) (z_list z) with
  | None => []
  | Some st => take_while_le (w_pre st) start stop
  end.

Fixpoint take_while (p : node -> bool) (chain : list node) : list entry :=
  match chain with
  | [] => []
  | x :: r => if p x then ent x :: take_while p r else []
  end.

Definition zs_range_by_score (min max : Z) (exmin exmax : bool) (z : zset) : res (list entry) :=
  match sl_first_in_range min max exmin exmax (z_list z) with
  | Panic => Panic
  | Val None => Val []
  | Val (Some (x, r)) =>
      Val (take_while (fun y => (n_score y <? max) || (negb exmax && (n_score y =? max))) (x :: r))
  end.

Definition zs_revrange_by_score (max min : Z) (exmin exmax : bool) (z : zset) : list entry :=
  match sl_last_in_range min max exmin exmax (z_list z) with
  | None => []
  | Some (x, p) => take_while (fun y => (min <? n_score y) || (negb exmin && (n_score y =? min))) (x :: p)
  end.

Definition zs_rem_range_by_rank (start stop : Z) (z : zset) : zset * list entry :=
  let len := sl_length (z_list z) in
  let start := if start <? 0 then len + start else start in
  let stop := if stop <? 0 then len + stop else stop in
  let '(l', d', rem) := sl_delete_range_by_rank (start + 1) (stop + 1) (z_dict z) (z_list z) in
  (mkZ d' l', map ent rem).

Definition zs_rem_range_by_score (min max : Z) (exmin exmax : bool) (z : zset) : zset * list entry :=
  let '(l', d', rem) := sl_delete_range_by_score min max exmin exmax (z_dict z) (z_list z) in
  (mkZ d' l', map ent rem).

(* Add(elements...) = AddB(0, e) for each; Remove(elements...) = RemoveB each *)
Fixpoint zs_add (ms : list Z) (hs : list nat) (z : zset) : res zset :=
  match ms with
  | [] => Val z
  | m :: r => match zs_addb 0 m hs z with
              | Val (z', _, hs') => zs_add r hs' z'
              | Panic => Panic
              end
  end.
Fixpoint zs_remove (ms : list Z) (z : zset) : zset :=
  match ms with
  | [] => z
  | m :: r => zs_remove r (fst (fst (zs_removeb m z)))
  end.
Definition zs_containsb (m : Z) (z : zset) : bool :=
  match dget m (z_dict z) with Some _ => true | None => false end.
Fixpoint zs_contains (ms : list Z) (z : zset) : bool :=
  match ms with
  | [] => true
  | m :: r => if negb (zs_containsb m z) then false else zs_contains r z
  end.

Definition zset_step (z : zset) (o : op) : zset * out :=
  match o with
  | OAddB s m hs => match zs_addb s m hs z with Val (z', b, _) => (z', RBool b) | Panic => (z, RPanic) end
  | OIncrBy s m hs =>
      match zs_incrby s m hs z with Val (z', v, b, _) => (z', RScoreOk v b) | Panic => (z, RPanic) end
  | ORemoveB m => let '(z', s, b) := zs_removeb m z in (z', RScoreOk s b)
  | OAdd ms hs => match zs_add ms hs z with Val z' => (z', RUnit) | Panic => (z, RPanic) end
  | ORemove ms => (zs_remove ms z, RUnit)
  | OContains ms => (z, RBool (zs_contains ms z))
  | OClear => (zset_empty, RUnit)
  | OLen => (z, RInt (zs_len z))
  | OSize => (z, RInt (zs_len z))                                   (* fix 0004 *)
  | OEmpty => (z, RBool (zs_len z =? 0))
  | OValues => (z, RVals (map snd (zs_range 0 (-1) z)))
  | OScore m => (z, match dget m (z_dict z) with Some s => RScoreOk s true | None => RScoreOk 0 false end)
  | OContainsB m => (z, RBool (zs_containsb m z))
  | ORank m => (z, RInt (zs_rank m z))
  | ORevRank m => (z, RInt (zs_revrank m z))
  | OCount min max => (z, match zs_count min max false false z with Val c => RInt c | Panic => RPanic end)
  | OCountOpt min max exmin exmax =>
      (z, match zs_count min max exmin exmax z with Val c => RInt c | Panic => RPanic end)
  | ORange a b => (z, RNodes (zs_range a b z))
  | ORevRange a b => (z, RNodes (zs_revrange a b z))
  | ORangeByScore min max =>
      (z, match zs_range_by_score min max false false z with Val r => RNodes r | Panic => RPanic end)
  | ORangeByScoreOpt min max exmin exmax =>
      (z, match zs_range_by_score min max exmin exmax z with Val r => RNodes r | Panic => RPanic end)
  | ORevRangeByScore max min => (z, RNodes (zs_revrange_by_score max min false false z))
  | ORevRangeByScoreOpt max min exmin exmax => (z, RNodes (zs_revrange_by_score max min exmin exmax z))
  | ORemRangeByRank a b => let '(z', rem) := zs_rem_range_by_rank a b z in (z', RNodes rem)
  | ORemRangeByScore min max =>                                     (* fix 0003 *)
      let '(z', rem) := zs_rem_range_by_score min max false false z in (z', RNodes rem)
  | ORemRangeByScoreOpt min max exmin exmax =>
      let '(z', rem) := zs_rem_range_by_score min max exmin exmax z in (z', RNodes rem)
  end.

(* ---- Union (fix 0031: IncrBy) / Inter (fix 0032: summed score) ---- *)
Fixpoint incr_all (es : list entry) (hs : list nat) (dest : zset) : res (zset * list nat) :=
  match es with
  | [] => Val (dest, hs)
  | (s, m) :: r => match zs_incrby s m hs dest with
                   | Val (dest', _, _, hs') => incr_all r hs' dest'
                   | Panic => Panic
                   end
  end.
Fixpoint zs_union_from (zs : list zset) (hs : list nat) (dest : zset) : res zset :=
  match zs with
  | [] => Val dest
  | z :: r => match incr_all (zs_range 0 (-1) z) hs dest with
              | Val (dest', hs') => zs_union_from r hs' dest'
              | Panic => Panic
              end
  end.
Definition zs_union (zs : list zset) (hs : list nat) : res zset := zs_union_from zs hs zset_empty.

(* score := n.Score; for z in zs[1:] { s, exists := z.Score(v); if !exists { ok = false; break }; score += s } *)
Fixpoint inter_score (m : Z) (rest : list zset) (acc : Z) : option Z :=
  match rest with
  | [] => Some acc
  | z :: r => match dget m (z_dict z) with
              | None => None
              | Some s => inter_score m r (acc + s)
              end
  end.
Fixpoint inter_all (es : list entry) (rest : list zset) (hs : list nat) (dest : zset) : res zset :=
  match es with
  | [] => Val dest
  | (s, m) :: r =>
      match inter_score m rest s with
      | None => inter_all r rest hs dest
      | Some sc => match zs_addb sc m hs dest with
                   | Val (dest', _, hs') => inter_all r rest hs' dest'
                   | Panic => Panic
                   end
      end
  end.
Definition zs_inter (zs : list zset) (hs : list nat) : res zset :=
  match zs with
  | [] => Val zset_empty
  | z :: rest => inter_all (zs_range 0 (-1) z) rest hs zset_empty
  end.
