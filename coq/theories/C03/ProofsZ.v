(* C03: the zset layer. Every public method of the model equals the specification function of the
   abstraction; the representation invariant is preserved. *)
From VF Require Import Common.Base C03.Spec C03.Model C03.ProofsSpec C03.ProofsWalk C03.ProofsSL C03.ProofsSL2 C03.ProofsSL3.
From Coq Require Import Sorting.Sorted.
Local Open Scope Z_scope.

Definition abs (z : zset) : sset := ents (sl_nodes (z_list z)).
Definition ZInv (z : zset) : Prop := SInv (z_list z) /\ DInv (z_dict z) (sl_nodes (z_list z)).

Lemma ZInv_empty : ZInv zset_empty.
Proof.
  split; [constructor; simpl; try lia; [apply SU_nil|constructor]|]. intros m. reflexivity.
Qed.

Lemma ents_length ns : length (ents ns) = length ns.
Proof. apply map_length. Qed.
Lemma ents_firstn n ns : ents (firstn n ns) = firstn n (ents ns).
Proof. symmetry. apply firstn_map. Qed.
Lemma ents_skipn n ns : ents (skipn n ns) = skipn n (ents ns).
Proof. symmetry. apply skipn_map. Qed.
Lemma ents_rev ns : ents (rev ns) = rev (ents ns).
Proof. apply map_rev. Qed.

Lemma zs_len_spec z : ZInv z -> zs_len z = sp_len (abs z).
Proof. intros [I _]. unfold zs_len, sp_len, abs. rewrite ents_length. apply (si_len _ I). Qed.

(* ---- Range / RevRange ---- *)
Lemma take_while_le_firstn chain : forall start stop,
  take_while_le chain start stop = ents (firstn (Z.to_nat (stop - start + 1)) chain).
Proof.
  induction chain as [|x r IH]; intros start stop; simpl.
  - now rewrite firstn_nil.
  - destruct (start <=? stop) eqn:E.
    + apply Z.leb_le in E. rewrite IH.
      replace (Z.to_nat (stop - start + 1)) with (S (Z.to_nat (stop - (start + 1) + 1))) by lia. reflexivity.
    + apply Z.leb_gt in E. replace (Z.to_nat (stop - start + 1)) with 0%nat by lia. reflexivity.
Qed.

Lemma firstn_eq_clip {A} (l : list A) p q :
  (p = q \/ (length l <= p /\ length l <= q))%nat -> firstn p l = firstn q l.
Proof. intros [->|[H1 H2]]; [reflexivity|]. now rewrite !firstn_all2. Qed.

Lemma zs_range_spec start stop z : ZInv z -> zs_range start stop z = slice start stop (abs z).
Proof.
  intros [I _]. unfold zs_range, slice, abs, slice_lo, slice_hi, norm_idx.
  set (ns := sl_nodes (z_list z)). rewrite ents_length. rewrite (si_len _ I). fold ns.
  set (n := Z.of_nat (length ns)).
  set (s1 := if start <? 0 then n + start else start).
  set (e1 := if stop <? 0 then n + stop else stop).
  assert (Es : (if s1 <? 0 then 0 else s1) = Z.max 0 s1) by (destruct (s1 <? 0) eqn:E; [apply Z.ltb_lt in E|apply Z.ltb_ge in E]; lia).
  rewrite Es. set (s2 := Z.max 0 s1).
  rewrite (sl_get_node_by_rank_spec _ _ I). rewrite (si_len _ I). fold ns. fold n.
  destruct ((1 <=? s2 + 1) && (s2 + 1 <=? n)) eqn:G.
  - apply andb_true_iff in G as [_ G]. apply Z.leb_le in G.
    replace (Z.to_nat (s2 + 1)) with (S (Z.to_nat s2)) by lia.
    destruct (nth_error ns (Z.to_nat s2)) as [x|] eqn:N; [|apply nth_error_None in N; lia].
    cbn [zip_at w_pre w_suf]. rewrite (rev_firstn_S _ _ _ N).
    destruct (nth_split_at _ _ _ N) as [_ Sk]. rewrite <- Sk. rewrite take_while_le_firstn.
    rewrite ents_firstn, ents_skipn.
    assert (Lx : length (skipn (Z.to_nat s2) (ents ns)) = (length ns - Z.to_nat s2)%nat)
      by (rewrite skipn_length, ents_length; reflexivity).
    destruct (s2 <=? Z.min (n - 1) e1) eqn:C.
    + apply Z.leb_le in C. apply firstn_eq_clip. rewrite Lx. lia.
    + apply Z.leb_gt in C. replace (Z.to_nat (e1 - s2 + 1)) with 0%nat by lia. reflexivity.
  - destruct (s2 <=? Z.min (n - 1) e1) eqn:C; [|reflexivity]. apply Z.leb_le in C.
    apply andb_false_iff in G as [G|G]; [apply Z.leb_gt in G|apply Z.leb_gt in G]; lia.
Qed.

Lemma zs_revrange_spec start stop z : ZInv z -> zs_revrange start stop z = slice start stop (rev (abs z)).
Proof.
  intros [I _]. unfold zs_revrange, slice, abs, slice_lo, slice_hi, norm_idx.
  set (ns := sl_nodes (z_list z)). rewrite rev_length, ents_length. rewrite (si_len _ I). fold ns.
  set (n := Z.of_nat (length ns)).
  set (s1 := if start <? 0 then n + start else start).
  set (e1 := if stop <? 0 then n + stop else stop).
  assert (Es : (if s1 <? 0 then 0 else s1) = Z.max 0 s1) by (destruct (s1 <? 0) eqn:E; [apply Z.ltb_lt in E|apply Z.ltb_ge in E]; lia).
  rewrite Es. set (s2 := Z.max 0 s1).
  rewrite (sl_get_node_by_rank_spec _ _ I). rewrite (si_len _ I). fold ns. fold n.
  destruct ((1 <=? n - s2) && (n - s2 <=? n)) eqn:G.
  - apply andb_true_iff in G as [G _]. apply Z.leb_le in G.
    cbn [zip_at w_pre]. rewrite take_while_le_firstn.
    rewrite ents_firstn, ents_rev, ents_firstn.
    rewrite skipn_rev, ents_length.
    replace (length ns - Z.to_nat s2)%nat with (Z.to_nat (n - s2)) by lia.
    assert (Lx : length (rev (firstn (Z.to_nat (n - s2)) (ents ns))) = Z.to_nat (n - s2)).
    { rewrite rev_length, firstn_length, ents_length. lia. }
    destruct (s2 <=? Z.min (n - 1) e1) eqn:C.
    + apply Z.leb_le in C. apply firstn_eq_clip. rewrite Lx. lia.
    + apply Z.leb_gt in C. replace (Z.to_nat (e1 - s2 + 1)) with 0%nat by lia. reflexivity.
  - destruct (s2 <=? Z.min (n - 1) e1) eqn:C; [|reflexivity]. apply Z.leb_le in C.
    apply andb_false_iff in G as [G|G]; [apply Z.leb_gt in G|apply Z.leb_gt in G]; lia.
Qed.

Lemma slice_all {A} (l : list A) : slice 0 (-1) l = l.
Proof.
  unfold slice, slice_lo, slice_hi, norm_idx. simpl.
  set (n := Z.of_nat (length l)). replace (Z.max 0 0) with 0 by lia. replace (Z.min (n - 1) (n + -1)) with (n - 1) by lia.
  destruct (0 <=? n - 1) eqn:E.
  - simpl. apply firstn_all2. lia.
  - apply Z.leb_gt in E. destruct l; [reflexivity|]. simpl in n. lia.
Qed.
