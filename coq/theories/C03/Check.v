(* C03 correspondence checker.  For every recorded step of the real zset it decides
   (a) kind 2: does the observed return value equal what the Spec (sorted list, Redis index
       semantics) computes -- this judges the implementation, independently of the model;
   (b) kind 1: does the model return the same value AND does the real skip list, dumped through the
       verif accessor (levels, per-level successor and stored span, prev, header, highestLevel,
       length, tail), coincide with the pointers and spans derived from the model's state.
   Evaluated by vm_compute on harness-written cases. *)
From VF Require Import Common.Base C03.Spec C03.Model.
Local Open Scope Z_scope.

(* ---- the dump of the real list ---- *)
(* links: per level (0-based level-0 index of the successor or -1 for nil, stored span) *)
Record dnode := mkD { d_score : Z; d_member : Z; d_level : nat; d_links : list (Z * Z); d_prev : Z }.
Record dump := mkDump { dp_highest : nat; dp_length : Z; dp_tail : Z;
                        dp_header : list (Z * Z); dp_nodes : list dnode }.

(* ---- what the model's state says the dump must be ---- *)
Definition links_of (p : Z) (h : nat) (suf : list node) : list (Z * Z) :=
  map (fun i => (next_of i p suf, span_of i suf)) (seq 0 h).
(* p = 1-based position of the head of l *)
Fixpoint dnodes_of (p : Z) (l : list node) : list dnode :=
  match l with
  | [] => []
  | y :: r => mkD (n_score y) (n_member y) (n_height y) (links_of p (n_height y) r) (p - 2)
              :: dnodes_of (p + 1) r
  end.
(* header levels below highestLevel are derived; the ones above are cleared (nil, 0) *)
Definition header_of (hlen : nat) (l : slist) : list (Z * Z) :=
  map (fun i => if (i <? sl_highest l)%nat then (next_of i 0 (sl_nodes l), span_of i (sl_nodes l)) else (-1, 0))
      (seq 0 hlen).
Definition dump_of (hlen : nat) (l : slist) : dump :=
  mkDump (sl_highest l) (sl_length l) (Z.of_nat (length (sl_nodes l)) - 1) (header_of hlen l)
         (dnodes_of 1 (sl_nodes l)).

Definition zpair_eqb (a b : Z * Z) : bool := (fst a =? fst b) && (snd a =? snd b).
Definition dnode_eqb (a b : dnode) : bool :=
  (d_score a =? d_score b) && (d_member a =? d_member b) && Nat.eqb (d_level a) (d_level b)
  && list_eqb zpair_eqb (d_links a) (d_links b) && (d_prev a =? d_prev b).
Definition dump_eqb (a b : dump) : bool :=
  Nat.eqb (dp_highest a) (dp_highest b) && (dp_length a =? dp_length b) && (dp_tail a =? dp_tail b)
  && list_eqb zpair_eqb (dp_header a) (dp_header b) && list_eqb dnode_eqb (dp_nodes a) (dp_nodes b).
Definition dump_matches (l : slist) (d : dump) : bool := dump_eqb (dump_of (length (dp_header d)) l) d.

Definition out_eqb (a b : out) : bool :=
  match a, b with
  | RUnit, RUnit => true
  | RBool x, RBool y => Bool.eqb x y
  | RInt x, RInt y => x =? y
  | RScoreOk s x, RScoreOk t y => (s =? t) && Bool.eqb x y
  | RNodes x, RNodes y => list_eqb zpair_eqb x y
  | RVals x, RVals y => list_eqb Z.eqb x y
  | RPanic, RPanic => true
  | _, _ => false
  end.

(* ---- cases ---- *)
Record step := mkStep { s_op : op; s_out : out; s_dump : option dump }.

Inductive case :=
| CSeq (steps : list step)
  (* Union / Inter of sets built by operation lists; [hs] = levels drawn while building the result;
     observed: result.Range(0,-1), result.Len(), dump of the result *)
| CAlg (inter : bool) (builds : list (list op)) (hs : list nat) (res : list entry) (len : Z) (d : dump).

Definition step_check (st : zset * sset) (x : step) : (zset * sset) * nat :=
  let '(z, a) := st in
  let '(z', mo) := zset_step z (s_op x) in
  let '(a', so) := zspec_step a (s_op x) in
  let model_ok := out_eqb mo (s_out x)
                  && match s_dump x with None => true | Some d => dump_matches (z_list z') d end in
  let prop_ok := out_eqb so (s_out x) in
  ((z', a'), kind_of model_ok prop_ok).

(* A model mismatch (kind 1: return value or dump differs from the model) must not hide what the
   implementation does afterwards: the remaining steps are still judged against the Spec, whose state
   depends on the operations only.  Reported: the first property violation (kind 2) if there is one,
   otherwise the first model mismatch.  (Common.Base.scan stops at the first non-zero step: a damaged
   back pointer seen in the dump would mask the later reverse traversal that returns the sentinel.) *)
Fixpoint scan_all (st : zset * sset) (xs : list step) (i first1 : nat) : nat :=
  match xs with
  | [] => first1
  | x :: t =>
      let '(st', k) := step_check st x in
      if Nat.eqb k 2 then i * 4 + 2
      else scan_all st' t (S i) (if Nat.eqb k 1 && Nat.eqb first1 0 then i * 4 + 1 else first1)
  end.

Definition check_case (c : case) : nat :=
  match c with
  | CSeq steps => scan_all (zset_empty, []) steps 0 0
  | CAlg inter builds hs res len d =>
      let specs := map (fun ops => fst (run zspec_step [] ops)) builds in
      let models := map (fun ops => fst (run zset_step zset_empty ops)) builds in
      let sres := if inter then inter_sum specs else merge_sum specs in
      let prop_ok := list_eqb zpair_eqb sres res && (len =? sp_len sres) in
      let model_ok :=
        match (if inter then zs_inter models hs else zs_union models hs) with
        | Val z => list_eqb zpair_eqb (map ent (sl_nodes (z_list z))) res && (zs_len z =? len)
                   && dump_matches (z_list z) d
        | Panic => false
        end in
      kind_of model_ok prop_ok
  end.

Definition mismatches (cs : list case) : list (nat * nat) := find_bad check_case cs.
