(* C03 span lemmas.  Spans are derived ([span_of i suf] = level-0 distance from x to its level-i
   successor, or the number of nodes behind x when there is none).  (1) One iteration of a Go search
   loop is exactly one [lwalk] step: next = the derived successor, rank += the derived span.
   (2) The update equations the code applies in Insert and deleteNode hold between the derived spans
   before and after.  (3) Rank computed from spans = level-0 position is [sl_rank_spec]/[rank_of_nth]
   in ProofsSL2/ProofsZ2. *)
From VF Require Import Common.Base C03.Spec C03.Model.
Local Open Scope Z_scope.

Definition low (i : nat) (ns : list node) : Prop := Forall (fun y => (n_height y <= i)%nat) ns.
Definition len (ns : list node) : Z := Z.of_nat (length ns).

Lemma find_tall_acc i l : forall d, find_tall i l d = match find_tall i l 0 with Some k => Some (k + d) | None => None end.
Proof.
  induction l as [|y r IH]; intros d; simpl; [reflexivity|].
  destruct (i <? n_height y)%nat; [f_equal; lia|].
  rewrite (IH (d + 1)), (IH 1). destruct (find_tall i r 0); [f_equal; lia|reflexivity].
Qed.

Lemma span_of_cons_tall i x B : (i < n_height x)%nat -> span_of i (x :: B) = 1.
Proof. intros H. unfold span_of. simpl. apply Nat.ltb_lt in H. now rewrite H. Qed.

Lemma span_of_cons_low i x B : (n_height x <= i)%nat -> span_of i (x :: B) = 1 + span_of i B.
Proof.
  intros H. unfold span_of. cbn [find_tall]. apply Nat.ltb_ge in H. rewrite H, find_tall_acc.
  destruct (find_tall i B 0); [lia|]. cbn [length]. lia.
Qed.

Lemma span_of_app_low i A2 B : low i A2 -> span_of i (A2 ++ B) = len A2 + span_of i B.
Proof.
  unfold len. induction 1 as [|y r Hy F IH]; simpl app; [simpl; lia|].
  rewrite span_of_cons_low by exact Hy. rewrite IH. simpl length. lia.
Qed.

(* Insert, levels i < level of the new node x (update[i] is followed by A2, all low; rank0 - rank_i = |A2|):
     x.span       = update.span - (rank0 - rank_i)
     update.span  = rank0 - rank_i + 1 *)
Lemma span_insert_touched i A2 x B : (i < n_height x)%nat -> low i A2 ->
  span_of i B = span_of i (A2 ++ B) - len A2 /\ span_of i (A2 ++ x :: B) = len A2 + 1.
Proof.
  intros Hx L. rewrite !span_of_app_low by exact L. rewrite span_of_cons_tall by exact Hx. lia.
Qed.

(* Insert, untouched levels i >= level of x:  update.span = update.span + 1 *)
Lemma span_insert_untouched i A2 x B : (n_height x <= i)%nat -> low i A2 ->
  span_of i (A2 ++ x :: B) = span_of i (A2 ++ B) + 1.
Proof.
  intros Hx L. rewrite !span_of_app_low by exact L. rewrite span_of_cons_low by exact Hx. lia.
Qed.

(* deleteNode, update[i].next == x:  update.span = update.span + x.span - 1 *)
Lemma span_delete_linked i A2 x B : (i < n_height x)%nat -> low i A2 ->
  span_of i (A2 ++ B) = span_of i (A2 ++ x :: B) + span_of i B - 1.
Proof.
  intros Hx L. rewrite !span_of_app_low by exact L. rewrite span_of_cons_tall by exact Hx. lia.
Qed.

(* deleteNode, x not on level i:  update.span = update.span - 1 *)
Lemma span_delete_unlinked i A2 x B : (n_height x <= i)%nat -> low i A2 ->
  span_of i (A2 ++ B) = span_of i (A2 ++ x :: B) - 1.
Proof.
  intros Hx L. rewrite !span_of_app_low by exact L. rewrite span_of_cons_low by exact Hx. lia.
Qed.

Lemma span_insert i A2 x B : low i A2 ->
  ((i < n_height x)%nat -> span_of i B = span_of i (A2 ++ B) - len A2 /\ span_of i (A2 ++ x :: B) = len A2 + 1)
  /\ ((n_height x <= i)%nat -> span_of i (A2 ++ x :: B) = span_of i (A2 ++ B) + 1).
Proof. intros L. split; intros H; [now apply span_insert_touched|now apply span_insert_untouched]. Qed.

Lemma span_delete i A2 x B : low i A2 ->
  ((i < n_height x)%nat -> span_of i (A2 ++ B) = span_of i (A2 ++ x :: B) + span_of i B - 1)
  /\ ((n_height x <= i)%nat -> span_of i (A2 ++ B) = span_of i (A2 ++ x :: B) - 1).
Proof. intros L. split; intros H; [now apply span_delete_linked|now apply span_delete_unlinked]. Qed.

(* the header span of a freshly created level (Insert: update[i].storeSpan(i, l.length)) and the span
   of a chain's last node: the number of nodes behind *)
Lemma span_of_none i suf : low i suf -> span_of i suf = len suf.
Proof.
  intros L. pose proof (span_of_app_low i suf [] L) as E. rewrite app_nil_r in E. rewrite E.
  unfold span_of. simpl. lia.
Qed.

(* ---- one loop iteration = one step along the derived chain ---- *)
Lemma lwalk_step adv i st A2 y rest : low i A2 -> (i < n_height y)%nat ->
  w_suf st = A2 ++ y :: rest ->
  lwalk adv i (w_suf st) [] 0 st =
    if adv (w_rank st + span_of i (w_suf st)) y
    then lwalk adv i rest [] 0 (mkW (w_rank st + span_of i (w_suf st)) (y :: rev A2 ++ w_pre st) rest)
    else st.
Proof.
  intros L Hy E. rewrite E at 1.
  assert (G : forall pend d, lwalk adv i (A2 ++ y :: rest) pend d st =
            if adv (w_rank st + (d + len A2 + 1)) y
            then lwalk adv i rest [] 0 (mkW (w_rank st + (d + len A2 + 1)) (y :: (rev A2 ++ pend) ++ w_pre st) rest)
            else st).
  { clear E. unfold len. induction L as [|a r Ha F IH]; intros pend d; simpl app.
    - cbn [lwalk]. apply Nat.ltb_lt in Hy. rewrite Hy. simpl length.
      replace (d + Z.of_nat 0 + 1) with (d + 1) by lia. reflexivity.
    - cbn [lwalk]. apply Nat.ltb_ge in Ha. rewrite Ha. rewrite IH. simpl length.
      replace (d + 1 + Z.of_nat (length r) + 1) with (d + Z.of_nat (S (length r)) + 1) by lia.
      simpl rev. rewrite <- !app_assoc. reflexivity. }
  rewrite G. rewrite E, span_of_app_low by exact L. rewrite span_of_cons_tall by exact Hy.
  rewrite app_nil_r. replace (0 + len A2 + 1) with (len A2 + 1) by lia. reflexivity.
Qed.

(* no successor on this level: the loop does not run *)
Lemma lwalk_nil adv i st : low i (w_suf st) -> lwalk adv i (w_suf st) [] 0 st = st.
Proof.
  intros L. generalize (@nil node) as pend, 0 as d. induction L as [|a r Ha F IH]; intros pend d; [reflexivity|].
  cbn [lwalk]. apply Nat.ltb_ge in Ha. rewrite Ha. apply IH.
Qed.
