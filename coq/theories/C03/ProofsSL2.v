(* C03: Rank, GetNodeByRank, IsInRange, FirstInRange, LastInRange on the level-0 sequence. *)
From VF Require Import Common.Base C03.Spec C03.Model C03.ProofsSpec C03.ProofsWalk C03.ProofsSL.
From Coq Require Import Sorting.Sorted.
Local Open Scope Z_scope.

Lemma rev_firstn_S {A} (l : list A) p x : nth_error l p = Some x ->
  rev (firstn (S p) l) = x :: rev (firstn p l).
Proof.
  intros N. destruct (nth_split_at _ _ _ N) as [_ Sk].
  destruct (skipn_cons_inv _ _ _ _ Sk) as (_ & _ & F & _). rewrite F, rev_app_distr. reflexivity.
Qed.

Lemma rev_firstn_head {A} (l : list A) r q t : (r <= length l)%nat -> rev (firstn r l) = q :: t ->
  exists p, r = S p /\ nth_error l p = Some q.
Proof.
  intros Hr R. destruct r as [|p]; [discriminate|]. exists p. split; [reflexivity|].
  destruct (nth_error l p) as [y|] eqn:N.
  - rewrite (rev_firstn_S _ _ _ N) in R. inversion R; subst. reflexivity.
  - apply nth_error_None in N. lia.
Qed.

Lemma ents_nth ns p x : nth_error ns p = Some x -> nth_error (ents ns) p = Some (ent x).
Proof. intros N. unfold ents. now apply map_nth_error. Qed.

(* ---- Rank: 1-based level-0 position ---- *)
Lemma sl_rank_spec s m l : SInv l -> In (s, m) (ents (sl_nodes l)) ->
  exists p, sp_index m (ents (sl_nodes l)) = Some (Z.of_nat p) /\ sl_rank s m l = Z.of_nat (S p).
Proof.
  intros I H. destruct (find_pos _ _ _ (si_su _ I) H) as (p & x & N & Ex & C1 & C2).
  assert (M : n_member x = m) by (unfold ent in Ex; inversion Ex; reflexivity).
  assert (Ix : sp_index m (ents (sl_nodes l)) = Some (Z.of_nat p)).
  { eapply sp_index_of_nth; [apply (si_su _ I)|apply ents_nth; eauto|simpl; exact M]. }
  exists p. split; [exact Ix|].
  pose proof (thr_mono _ _ (proj1 (si_su _ I)) (mono_less_equal s m)) as HT. rewrite C2 in HT.
  unfold sl_rank, w_init. change (mkW 0 [] (sl_nodes l)) with (zip_at (sl_nodes l) 0).
  destruct (walk _ (cur_equal s m) (sl_highest l) (zip_at (sl_nodes l) 0)) as [st b] eqn:Ew.
  destruct (walk_zip _ _ _ _ HT (si_h _ I) _ 0%nat _ _ (Nat.le_0_l _) Ew) as (r' & E & B & X1 & X2).
  destruct b.
  - specialize (X1 eq_refl). subst st. cbn [zip_at w_rank]. f_equal.
    unfold cur_equal in X1. cbn [zip_at w_pre] in X1.
    destruct (rev (firstn r' (sl_nodes l))) as [|q t] eqn:R; [discriminate|].
    destruct HT as [Hk _].
    assert (Hr' : (r' <= length (sl_nodes l))%nat) by lia.
    destruct (rev_firstn_head _ _ _ _ Hr' R) as (p' & -> & N').
    apply node_equal_ent in X1.
    assert (Ix' : sp_index m (ents (sl_nodes l)) = Some (Z.of_nat p')).
    { eapply sp_index_of_nth; [apply (si_su _ I)|apply ents_nth; eauto|rewrite X1; reflexivity]. }
    rewrite Ix in Ix'. inversion Ix'. lia.
  - destruct (X2 eq_refl (si_hi _ I)) as [-> X]. subst st. exfalso.
    unfold cur_equal in X. cbn [zip_at w_pre] in X. rewrite (rev_firstn_S _ _ _ N) in X.
    assert (Q : node_equal x s m = true) by (apply node_equal_ent; exact Ex). congruence.
Qed.

(* ---- GetNodeByRank ---- *)
Lemma sl_get_node_by_rank_spec rank l : SInv l ->
  sl_get_node_by_rank rank l =
    if (1 <=? rank) && (rank <=? sl_length l) then Some (zip_at (sl_nodes l) (Z.to_nat rank)) else None.
Proof.
  intros I. unfold sl_get_node_by_rank. rewrite (si_len _ I).
  destruct (rank <=? 0) eqn:E0.
  - apply Z.leb_le in E0. destruct (1 <=? rank) eqn:E1; [apply Z.leb_le in E1; lia|reflexivity].
  - apply Z.leb_gt in E0. assert (E1 : (1 <=? rank) = true) by (apply Z.leb_le; lia). rewrite E1. simpl.
    set (ns := sl_nodes l). set (k := Nat.min (Z.to_nat rank) (length ns)).
    assert (HT : Thr (fun pos _ => pos <=? rank) ns k).
    { split; [unfold k; lia|]. intros j y N.
      assert (j < length ns)%nat by (apply nth_error_Some; congruence).
      unfold k. destruct (Z.of_nat (S j) <=? rank) eqn:A.
      - apply Z.leb_le in A. symmetry. apply Nat.leb_le. lia.
      - apply Z.leb_gt in A. symmetry. apply Nat.leb_gt. lia. }
    unfold w_init. change (mkW 0 [] (sl_nodes l)) with (zip_at ns 0).
    destruct (walk _ (fun st => w_rank st =? rank) (sl_highest l) (zip_at ns 0)) as [st b] eqn:Ew.
    destruct (walk_zip _ _ _ _ HT (si_h _ I) _ 0%nat _ _ (Nat.le_0_l _) Ew) as (r' & E & B & X1 & X2).
    destruct b.
    + specialize (X1 eq_refl). subst st. cbn [zip_at w_rank] in X1. apply Z.eqb_eq in X1.
      assert (R : (rank <=? Z.of_nat (length ns)) = true) by (apply Z.leb_le; unfold k in B; lia).
      rewrite R. f_equal. f_equal. lia.
    + destruct (X2 eq_refl (si_hi _ I)) as [-> X]. subst st. cbn [zip_at w_rank] in X. apply Z.eqb_neq in X.
      assert (R : (rank <=? Z.of_nat (length ns)) = false) by (apply Z.leb_gt; unfold k in X; lia).
      rewrite R. reflexivity.
Qed.

(* ---- score bounds ---- *)
Lemma mono_below_min min ex : mono (fun y => negb (gt_min (n_score y) min ex)).
Proof.
  intros a b H. unfold gt_min, elt, ent in *. simpl in H.
  destruct ex; rewrite !negb_true_iff; [rewrite !Z.ltb_ge|rewrite !Z.leb_gt]; lia.
Qed.
Lemma mono_lt_max max ex : mono (fun y => lt_max (n_score y) max ex).
Proof.
  intros a b H. unfold lt_max, elt, ent in *. simpl in H.
  destruct ex; [rewrite !Z.ltb_lt|rewrite !Z.leb_le]; lia.
Qed.

Lemma in_range_split min max exmin exmax s :
  in_range min max exmin exmax s = gt_min s min exmin && lt_max s max exmax.
Proof. reflexivity. Qed.

(* kmin = number of nodes below the range, kmax = number of nodes not above it *)
Definition kmin (min : Z) (ex : bool) (ns : list node) : nat :=
  cnt (fun y => negb (gt_min (n_score y) min ex)) ns.
Definition kmax (max : Z) (ex : bool) (ns : list node) : nat :=
  cnt (fun y => lt_max (n_score y) max ex) ns.

Lemma filter_all_true {A} (f : A -> bool) l : Forall (fun x => f x = true) l -> filter f l = l.
Proof. induction 1 as [|x l H F IH]; simpl; [reflexivity|]. now rewrite H, IH. Qed.
Lemma filter_all_false {A} (f : A -> bool) l : Forall (fun x => f x = false) l -> filter f l = [].
Proof. induction 1 as [|x l H F IH]; simpl; [reflexivity|]. now rewrite H, IH. Qed.

Lemma filter_ents f ns : filter f (ents ns) = ents (filter (fun y => f (ent y)) ns).
Proof.
  induction ns as [|y r IH]; simpl; [reflexivity|]. destruct (f (ent y)); simpl; now rewrite IH.
Qed.

Lemma firstn_firstn_min {A} (l : list A) a b : firstn a (firstn b l) = firstn (Nat.min a b) l.
Proof. apply firstn_firstn. Qed.

(* the members whose score is in range are the block kmin..kmax of the sorted sequence *)
Lemma range_block min max exmin exmax ns : StronglySorted elt (ents ns) ->
  let a := kmin min exmin ns in let b := kmax max exmax ns in
  let inr := fun y => in_range min max exmin exmax (n_score y) in
  filter inr ns = skipn a (firstn b ns)
  /\ filter (fun y => negb (inr y)) ns = firstn (Nat.min a b) ns ++ skipn b ns.
Proof.
  intros S a b inr.
  destruct (cnt_split _ _ S (mono_below_min min exmin)) as [A1 A2]. fold (kmin min exmin ns) in A1, A2. fold a in A1, A2.
  destruct (cnt_split _ _ S (mono_lt_max max exmax)) as [B1 B2]. fold (kmax max exmax ns) in B1, B2. fold b in B1, B2.
  assert (G1 : Forall (fun y => inr y = false) (firstn (Nat.min a b) ns)).
  { replace (Nat.min a b) with (Nat.min b a) by lia. rewrite <- firstn_firstn_min.
    apply Forall_firstn. eapply Forall_impl; [|exact A1]. intros y Hy. unfold inr. rewrite in_range_split.
    apply negb_true_iff in Hy. rewrite Hy. reflexivity. }
  assert (G3 : Forall (fun y => inr y = false) (skipn b ns)).
  { eapply Forall_impl; [|exact B2]. intros y Hy. unfold inr. rewrite in_range_split. cbv beta in Hy. rewrite Hy.
    apply andb_false_r. }
  assert (G2 : Forall (fun y => inr y = true) (skipn a (firstn b ns))).
  { apply Forall_forall. intros y Hy. unfold inr. rewrite in_range_split. apply andb_true_iff. split.
    - destruct (Nat.le_gt_cases a b) as [L|L].
      + assert (In y (skipn a ns)).
        { rewrite <- (firstn_skipn b ns) . rewrite skipn_app. apply in_or_app. left. exact Hy. }
        rewrite Forall_forall in A2. specialize (A2 _ H). cbv beta in A2. now apply negb_false_iff in A2.
      + rewrite skipn_all2 in Hy; [destruct Hy|]. rewrite firstn_length. lia.
    - apply in_skipn in Hy. rewrite Forall_forall in B1. apply (B1 _ Hy). }
  assert (D : ns = firstn (Nat.min a b) ns ++ skipn a (firstn b ns) ++ skipn b ns).
  { destruct (Nat.le_gt_cases a b) as [L|L].
    - replace (Nat.min a b) with a by lia.
      rewrite <- (firstn_skipn b ns) at 1. rewrite <- (firstn_skipn a (firstn b ns)) at 1.
      rewrite firstn_firstn_min. replace (Nat.min a b) with a by lia. now rewrite app_assoc.
    - replace (Nat.min a b) with b by lia. rewrite (skipn_all2 (firstn b ns)); [|rewrite firstn_length; lia].
      simpl. symmetry. apply firstn_skipn. }
  split.
  - rewrite D at 1. rewrite !filter_app.
    rewrite (filter_all_false _ _ G1), (filter_all_true _ _ G2), (filter_all_false _ _ G3). now rewrite app_nil_r.
  - rewrite D at 1. rewrite !filter_app.
    rewrite (filter_all_true (fun y => negb (inr y))), (filter_all_false (fun y => negb (inr y)) (skipn a _)),
      (filter_all_true (fun y => negb (inr y)) (skipn b ns)); [reflexivity| | |].
    + eapply Forall_impl; [|exact G3]. intros y Hy. cbv beta in *. now rewrite Hy.
    + eapply Forall_impl; [|exact G2]. intros y Hy. cbv beta in *. now rewrite Hy.
    + eapply Forall_impl; [|exact G1]. intros y Hy. cbv beta in *. now rewrite Hy.
Qed.

(* ---- IsInRange / FirstInRange / LastInRange ---- *)
Lemma nth_in_firstn {A} (l : list A) : forall i k x, nth_error l i = Some x -> (i < k)%nat -> In x (firstn k l).
Proof.
  induction l as [|a l IH]; intros i k x N L; [destruct i; discriminate|].
  destruct k as [|k]; [lia|]. destruct i as [|i]; simpl in *.
  - inversion N; auto.
  - right. eapply IH; eauto. lia.
Qed.
Lemma nth_in_skipn {A} (l : list A) : forall i k x, nth_error l i = Some x -> (k <= i)%nat -> In x (skipn k l).
Proof.
  induction l as [|a l IH]; intros i k x N L; [destruct i; discriminate|].
  destruct k as [|k].
  - change (skipn 0 (a :: l)) with (a :: l). eapply nth_error_In; eauto.
  - destruct i as [|i]; [lia|]. simpl in N. simpl. eapply IH; eauto. lia.
Qed.

Lemma head_score_bound f r : StronglySorted elt (ents (f :: r)) -> forall y, In y (f :: r) -> n_score f <= n_score y.
Proof.
  intros S y [<-|Hy]; [lia|]. simpl in S. inversion S; subst. rewrite Forall_forall in H2.
  assert (Q : elt (ent f) (ent y)) by (apply H2; apply in_map; auto). unfold elt, ent in Q. simpl in Q. lia.
Qed.

Lemma rev_last {A} (f : A) r : exists t, rev (f :: r) = last (f :: r) f :: t.
Proof.
  assert (N : f :: r <> []) by discriminate.
  exists (rev (removelast (f :: r))).
  pose proof (app_removelast_last f N) as E.
  assert (E2 : rev (f :: r) = rev (removelast (f :: r) ++ [last (f :: r) f])) by (rewrite <- E; reflexivity).
  rewrite E2, rev_app_distr. reflexivity.
Qed.

Section RANGE.
Variables (min max : Z) (exmin exmax : bool) (l : slist).
Hypothesis I : SInv l.
Let ns := sl_nodes l.
Let a := kmin min exmin ns.
Let b := kmax max exmax ns.

Lemma kmin_split : Forall (fun y => gt_min (n_score y) min exmin = false) (firstn a ns)
                   /\ Forall (fun y => gt_min (n_score y) min exmin = true) (skipn a ns).
Proof.
  destruct (cnt_split _ _ (proj1 (si_su _ I)) (mono_below_min min exmin)) as [A1 A2].
  split; (eapply Forall_impl; [|eassumption]); intros y Hy; cbv beta in Hy;
    [now apply negb_true_iff in Hy|now apply negb_false_iff in Hy].
Qed.
Lemma kmax_split : Forall (fun y => lt_max (n_score y) max exmax = true) (firstn b ns)
                   /\ Forall (fun y => lt_max (n_score y) max exmax = false) (skipn b ns).
Proof. apply (cnt_split _ _ (proj1 (si_su _ I)) (mono_lt_max max exmax)). Qed.

Lemma ka_le : (a <= length ns)%nat. Proof. apply cnt_le. Qed.
Lemma kb_le : (b <= length ns)%nat. Proof. apply cnt_le. Qed.

Lemma block_nonempty : (a < b)%nat ->
  exists x, nth_error ns a = Some x /\ gt_min (n_score x) min exmin = true /\ lt_max (n_score x) max exmax = true.
Proof.
  intros L. pose proof kb_le. destruct (nth_error ns a) as [x|] eqn:N; [|apply nth_error_None in N; lia].
  exists x. split; [reflexivity|]. destruct kmin_split as [_ A2]. destruct kmax_split as [B1 _].
  rewrite Forall_forall in A2, B1. split.
  - apply A2. eapply nth_in_skipn; eauto.
  - apply B1. eapply nth_in_firstn; eauto.
Qed.

Lemma is_in_range_of_block : (a < b)%nat -> sl_is_in_range min max exmin exmax l = true.
Proof.
  intros L. destruct (block_nonempty L) as (x & N & G & M).
  unfold sl_is_in_range. fold ns.
  assert (C : (max <? min) || (min =? max) && (exmin || exmax) = false).
  { unfold gt_min, lt_max in G, M. apply orb_false_iff. split.
    - apply Z.ltb_ge. destruct exmin, exmax; rewrite ?Z.ltb_lt, ?Z.leb_le in *; lia.
    - destruct (min =? max) eqn:E; [|reflexivity]. apply Z.eqb_eq in E. simpl.
      destruct exmin, exmax; simpl; rewrite ?Z.ltb_lt, ?Z.leb_le in *; try lia; reflexivity. }
  rewrite C. apply nth_error_In in N. destruct ns as [|f r] eqn:En; [destruct N|].
  pose proof (proj1 (si_su _ I)) as S. fold ns in S. rewrite En in S.
  destruct (rev_last f r) as (t & R).
  pose proof (last_score_bound _ _ _ S R x N) as U. pose proof (head_score_bound _ _ S x N) as V.
  assert (G' : gt_min (n_score (last (f :: r) f)) min exmin = true).
  { unfold gt_min in *. destruct exmin; rewrite ?Z.ltb_lt, ?Z.leb_le in *; lia. }
  rewrite G'. simpl. unfold lt_max in *. destruct exmax; rewrite ?Z.ltb_lt, ?Z.leb_le in *; lia.
Qed.

Lemma first_in_range_some : (a < b)%nat ->
  exists x, nth_error ns a = Some x /\
            sl_first_in_range min max exmin exmax l = Val (Some (x, skipn (S a) ns)).
Proof.
  intros L. destruct (block_nonempty L) as (x & N & G & M). exists x. split; [exact N|].
  unfold sl_first_in_range. rewrite (is_in_range_of_block L). simpl.
  rewrite (search_mono _ l I (mono_below_min min exmin)). fold ns. fold (kmin min exmin ns). fold a.
  cbn [zip_at w_suf]. destruct (nth_split_at _ _ _ N) as [_ Sk]. rewrite Sk. rewrite M. reflexivity.
Qed.

Lemma first_in_range_none : (b <= a)%nat -> sl_first_in_range min max exmin exmax l = Val None.
Proof.
  intros L. unfold sl_first_in_range.
  destruct (sl_is_in_range min max exmin exmax l) eqn:R; [|reflexivity]. simpl.
  rewrite (search_mono _ l I (mono_below_min min exmin)). fold ns. fold (kmin min exmin ns). fold a.
  cbn [zip_at w_suf]. destruct (skipn a ns) as [|x r] eqn:Sk.
  - exfalso. apply skipn_nil_inv in Sk. pose proof ka_le.
    unfold sl_is_in_range in R. fold ns in R.
    destruct ((max <? min) || (min =? max) && (exmin || exmax)); [discriminate|].
    destruct kmin_split as [A1 _]. rewrite firstn_all2 in A1 by lia.
    rewrite Forall_forall in A1.
    destruct ns as [|f r] eqn:En; [discriminate|].
    assert (Q : gt_min (n_score (last (f :: r) f)) min exmin = false).
    { apply A1. destruct (rev_last f r) as (t & Rv). apply in_rev. rewrite Rv. left. reflexivity. }
    rewrite Q in R. discriminate.
  - destruct (skipn_cons_inv _ _ _ _ Sk) as (N & _ & _ & _).
    destruct kmax_split as [_ B2]. rewrite Forall_forall in B2.
    rewrite (B2 x); [reflexivity|]. eapply nth_in_skipn; eauto.
Qed.

Lemma last_in_range_some : (a < b)%nat ->
  exists p x, b = S p /\ nth_error ns p = Some x /\
              sl_last_in_range min max exmin exmax l = Some (x, rev (firstn p ns)).
Proof.
  intros L. assert (Eb : exists p, b = S p) by (exists (Nat.pred b); lia). destruct Eb as (p & Eb).
  pose proof kb_le as Hb. rewrite Eb in Hb.
  destruct (nth_error ns p) as [x|] eqn:N; [|apply nth_error_None in N; lia].
  exists p, x. split; [exact Eb|]. split; [exact N|].
  unfold sl_last_in_range. rewrite (is_in_range_of_block L). simpl.
  rewrite (search_mono _ l I (mono_lt_max max exmax)). fold ns. fold (kmax max exmax ns). fold b. rewrite Eb.
  cbn [zip_at w_pre]. rewrite (rev_firstn_S _ _ _ N).
  destruct kmin_split as [_ A2]. rewrite Forall_forall in A2.
  rewrite (A2 x); [reflexivity|]. eapply nth_in_skipn; eauto. lia.
Qed.

Lemma last_in_range_none : (b <= a)%nat -> sl_last_in_range min max exmin exmax l = None.
Proof.
  intros L. unfold sl_last_in_range.
  destruct (sl_is_in_range min max exmin exmax l) eqn:R; [|reflexivity]. simpl.
  rewrite (search_mono _ l I (mono_lt_max max exmax)). fold ns. fold (kmax max exmax ns). fold b.
  cbn [zip_at w_pre]. destruct (rev (firstn b ns)) as [|x p] eqn:Rv; [reflexivity|].
  destruct (rev_firstn_head _ _ _ _ kb_le Rv) as (p' & E & N).
  destruct kmin_split as [A1 _]. rewrite Forall_forall in A1.
  rewrite (A1 x); [reflexivity|]. eapply nth_in_firstn; eauto. lia.
Qed.
End RANGE.
