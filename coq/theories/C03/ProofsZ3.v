(* C03: score-range queries and range removals of the zset layer against the specification. *)
From VF Require Import Common.Base C03.Spec C03.Model C03.ProofsSpec C03.ProofsWalk C03.ProofsSL C03.ProofsSL2 C03.ProofsSL3 C03.ProofsZ C03.ProofsZ2.
From Coq Require Import Sorting.Sorted.
Local Open Scope Z_scope.

Lemma by_score_block min max exmin exmax ns : StronglySorted elt (ents ns) ->
  sp_by_score min max exmin exmax (ents ns)
  = ents (skipn (kmin min exmin ns) (firstn (kmax max exmax ns) ns)).
Proof.
  intros S. unfold sp_by_score. rewrite (filter_ents (fun e => in_range min max exmin exmax (fst e))).
  destruct (range_block min max exmin exmax ns S) as [F _]. cbv zeta in F.
  change (fun y => in_range min max exmin exmax (fst (ent y))) with (fun y => in_range min max exmin exmax (n_score y)).
  now rewrite F.
Qed.

Lemma zs_count_spec min max exmin exmax z : ZInv z ->
  zs_count min max exmin exmax z = Val (sp_len (sp_by_score min max exmin exmax (abs z))).
Proof.
  intros [I D]. unfold zs_count, abs. rewrite (by_score_block _ _ _ _ _ (proj1 (si_su _ I))).
  set (l := z_list z) in *. set (ns := sl_nodes l).
  set (a := kmin min exmin ns). set (b := kmax max exmax ns).
  assert (Hb : (b <= length ns)%nat) by apply cnt_le.
  assert (L : sp_len (ents (skipn a (firstn b ns))) = Z.of_nat (b - a)).
  { unfold sp_len. rewrite ents_length, skipn_length, firstn_length. f_equal. lia. }
  rewrite L. destruct (Nat.lt_ge_cases a b) as [Lt|Ge].
  - destruct (first_in_range_some min max exmin exmax l I Lt) as (x & N & F). fold ns a in N, F. rewrite F.
    destruct (last_in_range_some min max exmin exmax l I Lt) as (p & x' & Eb & N' & F'). fold ns b in Eb, N', F'.
    rewrite F'. rewrite (rank_of_nth l a x I N), (rank_of_nth l p x' I N'). f_equal. lia.
  - rewrite (first_in_range_none min max exmin exmax l I Ge). f_equal. lia.
Qed.

(* ---- RangeByScore / RevRangeByScore ---- *)
Lemma take_while_ext P Q l : (forall y, P y = Q y) -> take_while P l = take_while Q l.
Proof. intros E. induction l as [|x r IH]; simpl; [reflexivity|]. rewrite E, IH. reflexivity. Qed.

Lemma take_while_cnt P l : take_while P l = ents (firstn (cnt P l) l).
Proof. induction l as [|x r IH]; simpl; [reflexivity|]. destruct (P x); simpl; [now rewrite IH|reflexivity]. Qed.

Lemma take_while_app P l1 l2 : Forall (fun y => P y = true) l1 ->
  match l2 with [] => True | y :: _ => P y = false end -> take_while P (l1 ++ l2) = ents l1.
Proof.
  intros F H. induction F as [|x l1 Hx F IH]; simpl.
  - destruct l2 as [|y r]; [reflexivity|]. simpl. now rewrite H.
  - now rewrite Hx, IH.
Qed.

Lemma cnt_skipn P : forall a ns, (a <= cnt P ns)%nat -> cnt P (skipn a ns) = (cnt P ns - a)%nat.
Proof.
  induction a as [|a IH]; intros ns H; [simpl; lia|].
  destruct ns as [|y r]; [simpl in H; lia|]. simpl in *. destruct (P y); [|lia].
  rewrite IH; lia.
Qed.

Lemma lt_max_alt s max ex : (s <? max) || (negb ex && (s =? max)) = lt_max s max ex.
Proof.
  unfold lt_max. destruct ex; simpl.
  - now rewrite orb_false_r.
  - destruct (s <? max) eqn:A, (s =? max) eqn:B, (s <=? max) eqn:C; simpl; try reflexivity;
      rewrite ?Z.ltb_lt, ?Z.ltb_ge, ?Z.eqb_eq, ?Z.eqb_neq, ?Z.leb_le, ?Z.leb_gt in *; lia.
Qed.
Lemma gt_min_alt s min ex : (min <? s) || (negb ex && (s =? min)) = gt_min s min ex.
Proof.
  unfold gt_min. destruct ex; simpl.
  - now rewrite orb_false_r.
  - destruct (min <? s) eqn:A, (s =? min) eqn:B, (min <=? s) eqn:C; simpl; try reflexivity;
      rewrite ?Z.ltb_lt, ?Z.ltb_ge, ?Z.eqb_eq, ?Z.eqb_neq, ?Z.leb_le, ?Z.leb_gt in *; lia.
Qed.

Lemma zs_range_by_score_spec min max exmin exmax z : ZInv z ->
  zs_range_by_score min max exmin exmax z = Val (sp_by_score min max exmin exmax (abs z)).
Proof.
  intros [I D]. unfold zs_range_by_score, abs. rewrite (by_score_block _ _ _ _ _ (proj1 (si_su _ I))).
  set (l := z_list z) in *. set (ns := sl_nodes l).
  set (a := kmin min exmin ns). set (b := kmax max exmax ns).
  destruct (Nat.lt_ge_cases a b) as [Lt|Ge].
  - destruct (first_in_range_some min max exmin exmax l I Lt) as (x & N & F). fold ns a in N, F. rewrite F.
    f_equal. destruct (nth_split_at _ _ _ N) as [_ Sk]. rewrite <- Sk.
    rewrite (take_while_ext _ (fun y => lt_max (n_score y) max exmax)) by (intros y; apply lt_max_alt).
    rewrite take_while_cnt. fold (kmax max exmax (skipn a ns)).
    unfold kmax. rewrite cnt_skipn by (fold (kmax max exmax ns); fold b; lia).
    fold (kmax max exmax ns). fold b. now rewrite skipn_firstn_comm.
  - rewrite (first_in_range_none min max exmin exmax l I Ge). f_equal.
    rewrite skipn_all2; [reflexivity|]. rewrite firstn_length. lia.
Qed.

Lemma zs_revrange_by_score_spec max min exmin exmax z : ZInv z ->
  zs_revrange_by_score max min exmin exmax z = rev (sp_by_score min max exmin exmax (abs z)).
Proof.
  intros [I D]. unfold zs_revrange_by_score, abs. rewrite (by_score_block _ _ _ _ _ (proj1 (si_su _ I))).
  set (l := z_list z) in *. set (ns := sl_nodes l).
  set (a := kmin min exmin ns). set (b := kmax max exmax ns).
  destruct (Nat.lt_ge_cases a b) as [Lt|Ge].
  - destruct (last_in_range_some min max exmin exmax l I Lt) as (p & x & Eb & N & F). fold ns b in Eb, N, F.
    rewrite F. rewrite <- (rev_firstn_S _ _ _ N), <- Eb.
    rewrite (take_while_ext _ (fun y => gt_min (n_score y) min exmin)) by (intros y; apply gt_min_alt).
    destruct (kmin_split min exmin l I) as [A1 A2]. fold ns a in A1, A2.
    assert (Dec : firstn b ns = firstn a ns ++ skipn a (firstn b ns)).
    { rewrite <- (firstn_skipn a (firstn b ns)) at 1. rewrite firstn_firstn. replace (Nat.min a b) with a by lia. reflexivity. }
    rewrite Dec at 1. rewrite rev_app_distr. rewrite <- ents_rev. apply take_while_app.
    + apply Forall_forall. intros y Hy. apply in_rev in Hy. rewrite skipn_firstn_comm in Hy. apply in_firstn in Hy.
      rewrite Forall_forall in A2. now apply A2.
    + destruct (rev (firstn a ns)) as [|y r] eqn:R; [exact Logic.I|].
      rewrite Forall_forall in A1. apply A1. apply in_rev. rewrite R. left. reflexivity.
  - rewrite (last_in_range_none min max exmin exmax l I Ge).
    rewrite skipn_all2; [reflexivity|]. rewrite firstn_length. lia.
Qed.

(* ---- range removals ---- *)
Lemma zs_rem_range_by_score_spec min max exmin exmax z : ZInv z ->
  let '(z', rem) := zs_rem_range_by_score min max exmin exmax z in
  rem = sp_by_score min max exmin exmax (abs z)
  /\ abs z' = sp_not_by_score min max exmin exmax (abs z) /\ ZInv z'.
Proof.
  intros [I D]. unfold zs_rem_range_by_score.
  pose proof (sl_delete_range_by_score_spec min max exmin exmax (z_dict z) (z_list z) I D) as S.
  destruct (sl_delete_range_by_score min max exmin exmax (z_dict z) (z_list z)) as [[l' d'] rem].
  destruct S as (S1 & S2 & S3 & S4). split; [exact S1|]. split; [exact S2|]. split; assumption.
Qed.

Lemma skipn_skipn' {A} (l : list A) a b : skipn a (skipn b l) = skipn (b + a) l.
Proof. apply skipn_skipn. Qed.

Lemma zs_rem_range_by_rank_spec start stop z : ZInv z ->
  let '(z', rem) := zs_rem_range_by_rank start stop z in
  rem = slice start stop (abs z) /\ abs z' = unslice start stop (abs z) /\ ZInv z'.
Proof.
  intros [I D]. unfold zs_rem_range_by_rank. rewrite (si_len _ I).
  set (ns := sl_nodes (z_list z)). set (n := Z.of_nat (length ns)).
  set (s1 := if start <? 0 then n + start else start).
  set (e1 := if stop <? 0 then n + stop else stop).
  pose proof (sl_delete_range_by_rank_spec (s1 + 1) (e1 + 1) (z_dict z) (z_list z) I D) as S.
  destruct (sl_delete_range_by_rank (s1 + 1) (e1 + 1) (z_dict z) (z_list z)) as [[l' d'] rem].
  cbv zeta in S. fold ns in S. destruct S as (S1 & S2 & S3 & S4).
  set (k := Nat.min (Z.to_nat (s1 + 1 - 1)) (length ns)) in *.
  set (c := Nat.min (Z.to_nat (e1 + 1 - Z.of_nat k)) (length ns - k)) in *.
  unfold slice, unslice, abs, slice_lo, slice_hi, norm_idx. fold ns. rewrite ents_length. fold n. fold s1 e1.
  split; [|split; [|split; assumption]].
  - rewrite S1. destruct (Z.max 0 s1 <=? Z.min (n - 1) e1) eqn:C.
    + apply Z.leb_le in C. rewrite ents_firstn, ents_skipn.
      replace (Z.to_nat (Z.max 0 s1)) with k by (unfold k; lia).
      f_equal. unfold c, k. lia.
    + apply Z.leb_gt in C. replace c with 0%nat by (unfold c, k; lia). reflexivity.
  - unfold abs. cbn [z_list]. rewrite S2. destruct (Z.max 0 s1 <=? Z.min (n - 1) e1) eqn:C.
    + apply Z.leb_le in C. rewrite ents_app, ents_firstn, ents_skipn, ents_skipn.
      replace (Z.to_nat (Z.max 0 s1)) with k by (unfold k; lia).
      f_equal. rewrite skipn_skipn'. f_equal. unfold c, k. lia.
    + apply Z.leb_gt in C. replace c with 0%nat by (unfold c, k; lia).
      change (skipn 0 (skipn k ns)) with (skipn k ns). now rewrite firstn_skipn.
Qed.
