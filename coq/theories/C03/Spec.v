(* C03 specification: a Redis sorted set is a list of (score, member) pairs, sorted by
   (score, member), members unique.  Redis index semantics (negative indexes, clamping) are
   written once, in [slice].  The operation and output types are shared with the model. *)
From VF Require Import Common.Base.
Local Open Scope Z_scope.

Definition entry := (Z * Z)%type.          (* (score, member) *)
Definition sset := list entry.

Definition entry_ltb (a b : entry) : bool :=
  (fst a <? fst b) || ((fst a =? fst b) && (snd a <? snd b)).

Fixpoint sp_insert (e : entry) (l : sset) : sset :=
  match l with
  | [] => [e]
  | x :: r => if entry_ltb x e then x :: sp_insert e r else e :: l
  end.

Definition sp_remove (m : Z) (l : sset) : sset := filter (fun e => negb (snd e =? m)) l.

Definition sp_find (m : Z) (l : sset) : option Z :=
  match find (fun e => snd e =? m) l with Some e => Some (fst e) | None => None end.

(* member m gets score s (whether or not it was present) *)
Definition sp_set (s m : Z) (l : sset) : sset := sp_insert (s, m) (sp_remove m l).

Fixpoint sp_index (m : Z) (l : sset) : option Z :=
  match l with
  | [] => None
  | e :: r => if snd e =? m then Some 0
              else match sp_index m r with Some i => Some (i + 1) | None => None end
  end.

(* ---- Redis index semantics, once ---- *)
Definition norm_idx (i n : Z) : Z := if i <? 0 then n + i else i.
Definition slice_lo (start n : Z) : Z := Z.max 0 (norm_idx start n).
Definition slice_hi (stop n : Z) : Z := Z.min (n - 1) (norm_idx stop n).

(* inclusive range start..stop, negative indexes count from the end, clamped to [0, n-1] *)
Definition slice {A} (start stop : Z) (l : list A) : list A :=
  let n := Z.of_nat (length l) in
  let a := slice_lo start n in
  let b := slice_hi stop n in
  if a <=? b then firstn (Z.to_nat (b - a + 1)) (skipn (Z.to_nat a) l) else [].

(* what is left when that range is removed *)
Definition unslice {A} (start stop : Z) (l : list A) : list A :=
  let n := Z.of_nat (length l) in
  let a := slice_lo start n in
  let b := slice_hi stop n in
  if a <=? b then firstn (Z.to_nat a) l ++ skipn (Z.to_nat (b + 1)) l else l.

Definition in_range (min max : Z) (exmin exmax : bool) (s : Z) : bool :=
  (if exmin then min <? s else min <=? s) && (if exmax then s <? max else s <=? max).

Definition sp_by_score (min max : Z) (exmin exmax : bool) (l : sset) : sset :=
  filter (fun e => in_range min max exmin exmax (fst e)) l.
Definition sp_not_by_score (min max : Z) (exmin exmax : bool) (l : sset) : sset :=
  filter (fun e => negb (in_range min max exmin exmax (fst e))) l.

(* ---- operations and outputs (shared with the model) ---- *)
(* [hs] = the raw levels the skip list's randomLevel draws during the call (oracle; ignored here) *)
Inductive op :=
| OAddB (s m : Z) (hs : list nat)
| OIncrBy (s m : Z) (hs : list nat)
| ORemoveB (m : Z)
| OAdd (ms : list Z) (hs : list nat)
| ORemove (ms : list Z)
| OContains (ms : list Z)
| OClear
| OLen | OSize | OEmpty | OValues
| OScore (m : Z) | OContainsB (m : Z) | ORank (m : Z) | ORevRank (m : Z)
| OCount (min max : Z)
| OCountOpt (min max : Z) (exmin exmax : bool)
| ORange (start stop : Z)
| ORevRange (start stop : Z)
| ORangeByScore (min max : Z)
| ORangeByScoreOpt (min max : Z) (exmin exmax : bool)
| ORevRangeByScore (max min : Z)
| ORevRangeByScoreOpt (max min : Z) (exmin exmax : bool)
| ORemRangeByRank (start stop : Z)
| ORemRangeByScore (min max : Z)
| ORemRangeByScoreOpt (min max : Z) (exmin exmax : bool).

Inductive out :=
| RUnit
| RBool (b : bool)
| RInt (z : Z)
| RScoreOk (s : Z) (ok : bool)
| RNodes (l : list entry)        (* (score, member) *)
| RVals (l : list Z)
| RPanic.

Definition sp_len (l : sset) : Z := Z.of_nat (length l).

Definition zspec_step (l : sset) (o : op) : sset * out :=
  match o with
  | OAddB s m _ =>
      (sp_set s m l, RBool (match sp_find m l with Some _ => false | None => true end))
  | OIncrBy s m _ =>
      match sp_find m l with
      | Some old => (sp_set (old + s) m l, RScoreOk (old + s) true)
      | None => (sp_set s m l, RScoreOk s false)
      end
  | ORemoveB m =>
      match sp_find m l with
      | Some s => (sp_remove m l, RScoreOk s true)
      | None => (l, RScoreOk 0 false)
      end
  | OAdd ms _ => (fold_left (fun acc m => sp_set 0 m acc) ms l, RUnit)
  | ORemove ms => (fold_left (fun acc m => sp_remove m acc) ms l, RUnit)
  | OContains ms =>
      (l, RBool (forallb (fun m => match sp_find m l with Some _ => true | None => false end) ms))
  | OClear => ([], RUnit)
  | OLen => (l, RInt (sp_len l))
  | OSize => (l, RInt (sp_len l))
  | OEmpty => (l, RBool (sp_len l =? 0))
  | OValues => (l, RVals (map snd l))
  | OScore m => (l, match sp_find m l with Some s => RScoreOk s true | None => RScoreOk 0 false end)
  | OContainsB m => (l, RBool (match sp_find m l with Some _ => true | None => false end))
  | ORank m => (l, RInt (match sp_index m l with Some i => i | None => -1 end))
  | ORevRank m => (l, RInt (match sp_index m l with Some i => sp_len l - 1 - i | None => -1 end))
  | OCount min max => (l, RInt (sp_len (sp_by_score min max false false l)))
  | OCountOpt min max exmin exmax => (l, RInt (sp_len (sp_by_score min max exmin exmax l)))
  | ORange a b => (l, RNodes (slice a b l))
  | ORevRange a b => (l, RNodes (slice a b (rev l)))
  | ORangeByScore min max => (l, RNodes (sp_by_score min max false false l))
  | ORangeByScoreOpt min max exmin exmax => (l, RNodes (sp_by_score min max exmin exmax l))
  | ORevRangeByScore max min => (l, RNodes (rev (sp_by_score min max false false l)))
  | ORevRangeByScoreOpt max min exmin exmax => (l, RNodes (rev (sp_by_score min max exmin exmax l)))
  | ORemRangeByRank a b => (unslice a b l, RNodes (slice a b l))
  | ORemRangeByScore min max =>
      (sp_not_by_score min max false false l, RNodes (sp_by_score min max false false l))
  | ORemRangeByScoreOpt min max exmin exmax =>
      (sp_not_by_score min max exmin exmax l, RNodes (sp_by_score min max exmin exmax l))
  end.

(* run a step function over an operation list, collecting the outputs *)
Fixpoint run {S} (step : S -> op -> S * out) (s : S) (ops : list op) : S * list out :=
  match ops with
  | [] => (s, [])
  | o :: r => let '(s1, x) := step s o in
              let '(s2, xs) := run step s1 r in (s2, x :: xs)
  end.

(* every oracle level is at least 1 (randomLevel starts at 1) *)
Definition op_heights (o : op) : list nat :=
  match o with
  | OAddB _ _ hs | OIncrBy _ _ hs | OAdd _ hs => hs
  | _ => []
  end.
Definition heights_pos (ops : list op) : Prop :=
  Forall (fun o => Forall (fun h => (1 <= h)%nat) (op_heights o)) ops.

(* ---- Union / Inter: score-summing merge and intersection ---- *)
Definition sum_scores (m : Z) (ls : list sset) : Z :=
  fold_right (fun l acc => match sp_find m l with Some s => s + acc | None => acc end) 0 ls.
Definition has_member (m : Z) (l : sset) : bool :=
  match sp_find m l with Some _ => true | None => false end.
Fixpoint dedup (ms : list Z) : list Z :=
  match ms with
  | [] => []
  | m :: r => m :: filter (fun x => negb (x =? m)) (dedup r)
  end.
Definition sort_entries (es : list entry) : sset := fold_right sp_insert [] es.

Definition merge_sum (ls : list sset) : sset :=
  sort_entries (map (fun m => (sum_scores m ls, m)) (dedup (map snd (concat ls)))).
Definition inter_sum (ls : list sset) : sset :=
  match ls with
  | [] => []
  | l :: r => sort_entries (map (fun e => (sum_scores (snd e) ls, snd e))
                                (filter (fun e => forallb (has_member (snd e)) r) l))
  end.
