(* C03: the level-by-level search over derived chains ends at the level-0 threshold position.
   [zip_at ns r] is the zipper "x = r-th node (0 = header), rank = r". *)
From VF Require Import Common.Base C03.Spec C03.Model.
Local Open Scope Z_scope.

Definition zip_at (ns : list node) (r : nat) : wst :=
  mkW (Z.of_nat r) (rev (firstn r ns)) (skipn r ns).

(* the loop condition holds exactly for the first k positions *)
Definition Thr (adv : Z -> node -> bool) (ns : list node) (k : nat) : Prop :=
  (k <= length ns)%nat /\
  forall j y, nth_error ns j = Some y -> adv (Z.of_nat (S j)) y = (S j <=? k)%nat.

Lemma skipn_cons_inv {A} (l : list A) : forall r y rest,
  skipn r l = y :: rest ->
  nth_error l r = Some y /\ skipn (S r) l = rest /\ firstn (S r) l = firstn r l ++ [y] /\ (r < length l)%nat.
Proof.
  induction l as [|a l IH]; intros r y rest H.
  - destruct r; discriminate.
  - destruct r as [|r].
    + simpl in H. inversion H; subst. simpl. repeat split; auto. lia.
    + simpl in H. destruct (IH _ _ _ H) as (A1 & A2 & A3 & A4).
      repeat split; auto.
      * change (firstn (S (S r)) (a :: l)) with (a :: firstn (S r) l). rewrite A3. reflexivity.
      * simpl. lia.
Qed.

Lemma skipn_nil_inv {A} (l : list A) r : skipn r l = [] -> (length l <= r)%nat.
Proof.
  intros H. pose proof (skipn_length r l) as L. rewrite H in L. simpl in L. lia.
Qed.

Lemma skipn_skipn {A} (l : list A) : forall a b, skipn a (skipn b l) = skipn (b + a) l.
Proof.
  induction l as [|x l IH]; intros a b.
  - now rewrite !skipn_nil.
  - destruct b as [|b]; simpl; auto.
Qed.

Lemma firstn_add_skip {A} (l : list A) : forall r d,
  firstn (r + d) l = firstn r l ++ firstn d (skipn r l).
Proof.
  induction l as [|x l IH]; intros r d.
  - now rewrite skipn_nil, !firstn_nil.
  - destruct r as [|r]; simpl; auto. now rewrite IH.
Qed.

Lemma zip_commit ns r dn y rest : skipn (r + dn) ns = y :: rest ->
  mkW (Z.of_nat r + (Z.of_nat dn + 1)) (y :: rev (firstn dn (skipn r ns)) ++ rev (firstn r ns)) rest
  = zip_at ns (S (r + dn)).
Proof.
  intros Hl. destruct (skipn_cons_inv _ _ _ _ Hl) as (N1 & N2 & N3 & N4).
  unfold zip_at. rewrite N2, N3, firstn_add_skip, !rev_app_distr. cbn [rev app].
  replace (Z.of_nat r + (Z.of_nat dn + 1)) with (Z.of_nat (S (r + dn))) by lia. reflexivity.
Qed.

Lemma lwalk_zip adv i ns k : Thr adv ns k ->
  forall l r dn, l = skipn (r + dn) ns -> (r <= k)%nat ->
  exists r', lwalk adv i l (rev (firstn dn (skipn r ns))) (Z.of_nat dn) (zip_at ns r) = zip_at ns r'
             /\ (r <= r' <= k)%nat.
Proof.
  intros [Hk HT]. induction l as [|y rest IH]; intros r dn Hl Hr.
  - exists r. split; [reflexivity|lia].
  - symmetry in Hl. destruct (skipn_cons_inv _ _ _ _ Hl) as (N1 & N2 & N3 & N4).
    cbn [lwalk]. destruct (i <? n_height y)%nat eqn:Et.
    + cbn [zip_at w_rank]. replace (Z.of_nat r + (Z.of_nat dn + 1)) with (Z.of_nat (S (r + dn))) by lia.
      rewrite (HT _ _ N1). destruct (S (r + dn) <=? k)%nat eqn:Ea.
      * apply Nat.leb_le in Ea.
        destruct (IH (S (r + dn)) 0%nat) as (r' & E & B).
        { rewrite Nat.add_0_r. now rewrite N2. }
        { lia. }
        exists r'. split; [|lia].
        cbn [firstn rev] in E. rewrite <- E. f_equal.
        replace (Z.of_nat (S (r + dn))) with (Z.of_nat r + (Z.of_nat dn + 1)) by lia.
        apply zip_commit. exact Hl.
      * exists r. split; [reflexivity|lia].
    + destruct (IH r (S dn)) as (r' & E & B).
      { replace (r + S dn)%nat with (S (r + dn)) by lia. now rewrite N2. }
      { exact Hr. }
      exists r'. split; [|exact B]. rewrite <- E. f_equal.
      * assert (F : firstn (S dn) (skipn r ns) = firstn dn (skipn r ns) ++ [y]).
        { assert (S1 : skipn dn (skipn r ns) = y :: rest) by (rewrite skipn_skipn; exact Hl).
          destruct (skipn_cons_inv _ _ _ _ S1) as (_ & _ & F & _). exact F. }
        rewrite F, rev_app_distr. reflexivity.
      * lia.
Qed.

(* on level 0 of a list whose nodes all have height >= 1 the walk reaches the threshold *)
Lemma lwalk_zip0 adv ns k : Thr adv ns k -> Forall (fun y => (1 <= n_height y)%nat) ns ->
  forall l r, l = skipn r ns -> (r <= k)%nat ->
  lwalk adv 0 l [] 0 (zip_at ns r) = zip_at ns k.
Proof.
  intros [Hk HT] Hh. induction l as [|y rest IH]; intros r Hl Hr.
  - symmetry in Hl. apply skipn_nil_inv in Hl. assert (r = k) by lia. subst. reflexivity.
  - symmetry in Hl. destruct (skipn_cons_inv _ _ _ _ Hl) as (N1 & N2 & N3 & N4).
    cbn [lwalk]. assert (Et : (0 <? n_height y)%nat = true).
    { apply Nat.ltb_lt. rewrite Forall_forall in Hh. apply nth_error_In in N1. specialize (Hh _ N1). lia. }
    rewrite Et. cbn [zip_at w_rank]. replace (Z.of_nat r + (0 + 1)) with (Z.of_nat (S r)) by lia.
    rewrite (HT _ _ N1). destruct (S r <=? k)%nat eqn:Ea.
    + apply Nat.leb_le in Ea. rewrite <- (IH (S r)); [|now rewrite N2|lia].
      f_equal. pose proof (zip_commit ns r 0 y rest) as C. rewrite Nat.add_0_r in C.
      specialize (C Hl). cbn [firstn rev app] in C. cbn [w_pre].
      replace (Z.of_nat (S r)) with (Z.of_nat r + (Z.of_nat 0 + 1)) by lia. exact C.
    + apply Nat.leb_gt in Ea. assert (r = k) by lia. subst. reflexivity.
Qed.

Lemma lwalk_zip_level adv i ns k r : Thr adv ns k -> (r <= k)%nat ->
  exists r', lwalk adv i (skipn r ns) [] 0 (zip_at ns r) = zip_at ns r' /\ (r <= r' <= k)%nat.
Proof.
  intros HT Hr.
  destruct (lwalk_zip adv i ns k HT (skipn r ns) r 0%nat) as (r' & E & B); auto.
  - now rewrite Nat.add_0_r.
  - exists r'. split; [exact E|exact B].
Qed.

(* the whole search, with a per-level exit test *)
Lemma walk_zip adv exit ns k : Thr adv ns k -> Forall (fun y => (1 <= n_height y)%nat) ns ->
  forall levels r st b, (r <= k)%nat -> walk adv exit levels (zip_at ns r) = (st, b) ->
  exists r', st = zip_at ns r' /\ (r <= r' <= k)%nat
             /\ (b = true -> exit st = true)
             /\ (b = false -> (1 <= levels)%nat -> r' = k /\ exit st = false).
Proof.
  intros HT Hh. induction levels as [|i IH]; intros r st b Hr Hw.
  - cbn [walk] in Hw. inversion Hw; subst. exists r. repeat split; auto; try lia; try discriminate.
  - cbn [walk] in Hw. cbn [zip_at w_suf] in Hw. fold (zip_at ns r) in Hw.
    destruct i as [|i].
    + rewrite (lwalk_zip0 adv ns k HT Hh (skipn r ns) r eq_refl Hr) in Hw.
      destruct (exit (zip_at ns k)) eqn:Ex.
      * inversion Hw; subst. exists k. repeat split; auto; try lia; discriminate.
      * cbn [walk] in Hw. inversion Hw; subst. exists k. repeat split; auto; try lia; discriminate.
    + destruct (lwalk_zip_level adv (S i) ns k r HT Hr) as (r1 & E & B). rewrite E in Hw.
      destruct (exit (zip_at ns r1)) eqn:Ex.
      * inversion Hw; subst. exists r1. repeat split; auto; try lia; discriminate.
      * destruct (IH r1 st b ltac:(lia) Hw) as (r' & E' & B' & X1 & X2).
        exists r'. split; [exact E'|]. split; [lia|]. split; [exact X1|].
        intros Hb _. apply X2; auto. lia.
Qed.

Lemma search_zip adv l k : Thr adv (sl_nodes l) k -> Forall (fun y => (1 <= n_height y)%nat) (sl_nodes l) ->
  (1 <= sl_highest l)%nat -> search adv l = zip_at (sl_nodes l) k.
Proof.
  intros HT Hh Hl. unfold search, w_init.
  change (mkW 0 [] (sl_nodes l)) with (zip_at (sl_nodes l) 0).
  destruct (walk adv no_exit (sl_highest l) (zip_at (sl_nodes l) 0)) as [st b] eqn:Ew.
  destruct (walk_zip adv no_exit _ k HT Hh _ 0%nat _ _ (Nat.le_0_l k) Ew) as (r' & E & B & X1 & X2).
  destruct b.
  - specialize (X1 eq_refl). discriminate.
  - destruct (X2 eq_refl Hl) as [-> _]. exact E.
Qed.
