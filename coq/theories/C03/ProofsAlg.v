(* C03: Union = score-summing merge, Inter = score-summing intersection. *)
From VF Require Import Common.Base C03.Spec C03.Model C03.ProofsSpec C03.ProofsWalk C03.ProofsSL C03.ProofsSL2
  C03.ProofsSL3 C03.ProofsZ C03.ProofsZ2 C03.ProofsZ3.
From Coq Require Import Sorting.Sorted.
Local Open Scope Z_scope.

(* two sorted-unique lists with the same member->score function are equal *)
Lemma SU_ext : forall l1 l2, SU l1 -> SU l2 -> (forall m, sp_find m l1 = sp_find m l2) -> l1 = l2.
Proof.
  induction l1 as [|e1 r1 IH]; intros l2 H1 H2 E.
  - destruct l2 as [|e2 r2]; [reflexivity|]. specialize (E (snd e2)). rewrite sp_find_cons, Z.eqb_refl in E. discriminate.
  - destruct l2 as [|e2 r2].
    + specialize (E (snd e1)). rewrite sp_find_cons, Z.eqb_refl in E. discriminate.
    + destruct (SU_cons_inv _ _ H1) as (S1 & F1 & N1). destruct (SU_cons_inv _ _ H2) as (S2 & F2 & N2).
      assert (I1 : In e1 (e2 :: r2)).
      { pose proof (E (snd e1)) as Q. rewrite sp_find_cons, Z.eqb_refl in Q. symmetry in Q.
        apply sp_find_some_in in Q. destruct e1; exact Q. }
      assert (I2 : In e2 (e1 :: r1)).
      { pose proof (E (snd e2)) as Q. rewrite (sp_find_cons (snd e2) e2), Z.eqb_refl in Q.
        apply sp_find_some_in in Q. destruct e2; exact Q. }
      assert (Eq : e1 = e2).
      { destruct I1 as [->|I1]; [reflexivity|]. destruct I2 as [->|I2]; [reflexivity|].
        rewrite Forall_forall in F1, F2. exfalso. apply (elt_asym e1 e2); auto. }
      subst e2. f_equal. apply IH; auto. intros m. specialize (E m). rewrite !sp_find_cons in E.
      destruct (snd e1 =? m) eqn:Em; [|exact E]. apply Z.eqb_eq in Em. subst m.
      apply sp_find_none in N1. apply sp_find_none in N2. congruence.
Qed.

(* ---- the declarative side ---- *)
Lemma sort_entries_SU es : NoDup (map snd es) ->
  SU (sort_entries es) /\ forall m, In m (map snd (sort_entries es)) <-> In m (map snd es).
Proof.
  induction es as [|e r IH]; simpl; intros N.
  - split; [apply SU_nil|tauto].
  - inversion N; subst. destruct (IH H2) as [S M]. split.
    + apply sp_insert_SU; auto. rewrite M. exact H1.
    + intros m. rewrite sp_insert_members, M. intuition.
Qed.

Lemma sp_find_sort_entries es m : NoDup (map snd es) -> sp_find m (sort_entries es) = sp_find m es.
Proof.
  induction es as [|e r IH]; simpl; intros N; [reflexivity|].
  inversion N; subst. destruct e as [s m']. rewrite sp_find_cons. simpl. destruct (m' =? m) eqn:E.
  - apply Z.eqb_eq in E. subst. apply sp_find_insert_same. rewrite (proj2 (sort_entries_SU r H2)). exact H1.
  - apply Z.eqb_neq in E. rewrite sp_find_insert_other by congruence. now apply IH.
Qed.

Lemma dedup_spec ms : NoDup (dedup ms) /\ forall m, In m (dedup ms) <-> In m ms.
Proof.
  induction ms as [|a r [N M]]; simpl; [split; [constructor|tauto]|]. split.
  - constructor.
    + rewrite filter_In. intros [_ E]. rewrite Z.eqb_refl in E. discriminate.
    + now apply NoDup_filter.
  - intros m. rewrite filter_In, M. destruct (Z.eq_dec m a) as [->|Ne].
    + tauto.
    + assert (negb (m =? a) = true) by (apply negb_true_iff, Z.eqb_neq; exact Ne). intuition.
Qed.

Lemma sp_find_tagged (f : Z -> Z) ms m :
  sp_find m (map (fun x => (f x, x)) ms) = if existsb (Z.eqb m) ms then Some (f m) else None.
Proof.
  induction ms as [|a r IH]; simpl; [reflexivity|]. rewrite sp_find_cons. simpl. rewrite (Z.eqb_sym a m).
  destruct (m =? a) eqn:E; simpl; [apply Z.eqb_eq in E; now subst|exact IH].
Qed.

Lemma map_snd_tagged (f : Z -> Z) ms : map snd (map (fun x => (f x, x)) ms) = ms.
Proof. rewrite map_map. simpl. apply map_id. Qed.

Definition any_has (m : Z) (ls : list sset) : bool := existsb (has_member m) ls.

Lemma in_concat_members m ls : In m (map snd (concat ls)) <-> any_has m ls = true.
Proof.
  unfold any_has. induction ls as [|l r IH]; simpl; [split; [tauto|discriminate]|].
  rewrite map_app, in_app_iff, orb_true_iff, IH. unfold has_member.
  destruct (sp_find m l) eqn:F.
  - assert (In m (map snd l)) by (apply sp_find_some_in in F; apply in_map_iff; exists (z, m); auto). tauto.
  - apply sp_find_none in F. intuition discriminate.
Qed.

Lemma existsb_eqb m ms : existsb (Z.eqb m) ms = true <-> In m ms.
Proof.
  rewrite existsb_exists. split; [intros (x & I & E); apply Z.eqb_eq in E; now subst|intros I; exists m; split; auto; apply Z.eqb_refl].
Qed.

Lemma merge_sum_spec ls :
  SU (merge_sum ls) /\ forall m, sp_find m (merge_sum ls) = if any_has m ls then Some (sum_scores m ls) else None.
Proof.
  unfold merge_sum. set (ms := dedup (map snd (concat ls))).
  destruct (dedup_spec (map snd (concat ls))) as [N M]. fold ms in N, M.
  assert (N' : NoDup (map snd (map (fun m => (sum_scores m ls, m)) ms))) by (rewrite map_snd_tagged; exact N).
  split; [apply (sort_entries_SU _ N')|]. intros m. rewrite (sp_find_sort_entries _ m N'), sp_find_tagged.
  destruct (existsb (Z.eqb m) ms) eqn:E.
  - apply existsb_eqb, M, in_concat_members in E. now rewrite E.
  - destruct (any_has m ls) eqn:A; [|reflexivity]. apply in_concat_members, M, existsb_eqb in A. congruence.
Qed.

(* ---- the iterative side: Union ---- *)
Definition sp_incr (s m : Z) (l : sset) : sset :=
  sp_set (match sp_find m l with Some old => old + s | None => s end) m l.

Lemma incr_all_spec es : forall hs dest, ZInv dest -> hs_pos hs ->
  exists dest' hs', incr_all es hs dest = Val (dest', hs')
    /\ abs dest' = fold_left (fun acc e => sp_incr (fst e) (snd e) acc) es (abs dest)
    /\ ZInv dest' /\ hs_pos hs'.
Proof.
  induction es as [|[s m] r IH]; intros hs dest I Hh; simpl.
  - exists dest, hs. auto.
  - destruct (zs_incrby_spec s m hs dest I Hh) as (d1 & hs1 & E & A & I1 & H1). rewrite E.
    destruct (IH hs1 d1 I1 H1) as (d2 & hs2 & E2 & A2 & I2 & H2). exists d2, hs2.
    rewrite E2, A2, A. unfold sp_incr. auto.
Qed.

Definition oadd (s : Z) (acc : option Z) : option Z := Some (s + match acc with Some v => v | None => 0 end).

Lemma sp_find_incr s m m' l : sp_find m' (sp_incr s m l) = if m' =? m then oadd s (sp_find m l) else sp_find m' l.
Proof.
  unfold sp_incr. rewrite sp_find_set. destruct (m' =? m); [|reflexivity].
  unfold oadd. destruct (sp_find m l); f_equal; lia.
Qed.

Lemma fold_incr_find es : NoDup (map snd es) -> forall acc m,
  sp_find m (fold_left (fun a e => sp_incr (fst e) (snd e) a) es acc)
  = match sp_find m es with Some s => oadd s (sp_find m acc) | None => sp_find m acc end.
Proof.
  induction es as [|[s m0] r IH]; intros N acc m; simpl; [reflexivity|].
  inversion N; subst. rewrite (IH H2). rewrite sp_find_cons. simpl. rewrite sp_find_incr.
  rewrite (Z.eqb_sym m0 m). destruct (m =? m0) eqn:E.
  - apply Z.eqb_eq in E. subst. apply sp_find_none in H1. simpl in H1. now rewrite H1.
  - reflexivity.
Qed.

Lemma fold_incr_SU es : forall acc, SU acc -> SU (fold_left (fun a e => sp_incr (fst e) (snd e) a) es acc).
Proof. induction es as [|e r IH]; intros acc H; simpl; auto. apply IH. unfold sp_incr. now apply sp_set_SU. Qed.

Definition union_fold (ls : list sset) (acc : sset) : sset :=
  fold_left (fun a l => fold_left (fun a e => sp_incr (fst e) (snd e) a) l a) ls acc.

Lemma union_fold_find ls : Forall SU ls -> forall acc m,
  sp_find m (union_fold ls acc)
  = match sp_find m acc with
    | Some v => Some (v + sum_scores m ls)
    | None => if any_has m ls then Some (sum_scores m ls) else None
    end.
Proof.
  unfold union_fold, any_has. induction ls as [|l r IH]; intros F acc m; simpl.
  - destruct (sp_find m acc); [f_equal; lia|reflexivity].
  - inversion F; subst. rewrite (IH H2). rewrite (fold_incr_find l (proj2 H1)).
    unfold has_member, oadd. destruct (sp_find m l) as [s|]; simpl.
    + destruct (sp_find m acc); f_equal; lia.
    + reflexivity.
Qed.

Lemma union_fold_SU ls : forall acc, SU acc -> SU (union_fold ls acc).
Proof. unfold union_fold. induction ls as [|l r IH]; intros acc H; simpl; auto. apply IH. now apply fold_incr_SU. Qed.

Lemma zs_union_from_spec zs : Forall ZInv zs -> forall hs dest, ZInv dest -> hs_pos hs ->
  exists z, zs_union_from zs hs dest = Val z /\ abs z = union_fold (map abs zs) (abs dest) /\ ZInv z.
Proof.
  induction zs as [|z0 r IH]; intros F hs dest I Hh; simpl.
  - exists dest. auto.
  - inversion F; subst. rewrite (zs_range_spec 0 (-1) z0 H1), slice_all.
    destruct (incr_all_spec (abs z0) hs dest I Hh) as (d1 & hs1 & E & A & I1 & Hh1). rewrite E.
    destruct (IH H2 hs1 d1 I1 Hh1) as (z & E2 & A2 & I2). exists z. rewrite E2, A2, A. auto.
Qed.

Theorem union_spec zs hs : Forall ZInv zs -> hs_pos hs ->
  exists z, zs_union zs hs = Val z /\ abs z = merge_sum (map abs zs) /\ ZInv z.
Proof.
  intros F Hh. destruct (zs_union_from_spec zs F hs zset_empty ZInv_empty Hh) as (z & E & A & I).
  exists z. split; [exact E|]. split; [|exact I]. rewrite A. change (abs zset_empty) with (@nil entry).
  assert (FS : Forall SU (map abs zs)).
  { rewrite Forall_map. eapply Forall_impl; [|exact F]. intros z0 [I0 _]. apply (si_su _ I0). }
  destruct (merge_sum_spec (map abs zs)) as [S M].
  apply SU_ext; [apply union_fold_SU, SU_nil|exact S|].
  intros m. rewrite (union_fold_find _ FS), M. reflexivity.
Qed.

(* ---- Inter ---- *)
Lemma inter_score_spec m rest : Forall ZInv rest -> forall acc,
  inter_score m rest acc
  = if forallb (has_member m) (map abs rest) then Some (acc + sum_scores m (map abs rest)) else None.
Proof.
  induction rest as [|z r IH]; intros F acc; simpl.
  - f_equal. lia.
  - inversion F; subst. destruct H1 as [I D]. rewrite (D m). fold (abs z). unfold has_member at 1.
    destruct (sp_find m (abs z)) as [s|]; simpl; [|reflexivity].
    rewrite (IH H2). destruct (forallb (has_member m) (map abs r)); [f_equal; lia|reflexivity].
Qed.

Definition keep (rs : list sset) (e : entry) : option Z :=
  if forallb (has_member (snd e)) rs then Some (fst e + sum_scores (snd e) rs) else None.

Lemma inter_all_spec rest es : Forall ZInv rest -> forall hs dest, ZInv dest -> hs_pos hs ->
  exists dest', inter_all es rest hs dest = Val dest'
    /\ abs dest' = fold_left (fun acc e => match keep (map abs rest) e with
                                           | Some sc => sp_set sc (snd e) acc | None => acc end) es (abs dest)
    /\ ZInv dest'.
Proof.
  intros F. induction es as [|[s m] r IH]; intros hs dest I Hh; simpl.
  - exists dest. auto.
  - rewrite (inter_score_spec m rest F s). unfold keep. simpl.
    destruct (forallb (has_member m) (map abs rest)).
    + destruct (zs_addb_spec (s + sum_scores m (map abs rest)) m hs dest I Hh) as (d1 & hs1 & E & A & I1 & H1).
      rewrite E. destruct (IH hs1 d1 I1 H1) as (d2 & E2 & A2 & I2). exists d2. rewrite E2, A2, A. auto.
    + apply IH; auto.
Qed.

Lemma fold_keep_SU rs es : forall acc, SU acc ->
  SU (fold_left (fun acc e => match keep rs e with Some sc => sp_set sc (snd e) acc | None => acc end) es acc).
Proof.
  induction es as [|e r IH]; intros acc H; simpl; auto. apply IH. destruct (keep rs e); auto. now apply sp_set_SU.
Qed.

Lemma fold_keep_find rs es : NoDup (map snd es) -> forall acc m,
  sp_find m (fold_left (fun acc e => match keep rs e with Some sc => sp_set sc (snd e) acc | None => acc end) es acc)
  = match sp_find m es with
    | Some s => match keep rs (s, m) with Some sc => Some sc | None => sp_find m acc end
    | None => sp_find m acc
    end.
Proof.
  induction es as [|[s m0] r IH]; intros N acc m; simpl; [reflexivity|].
  inversion N; subst. rewrite (IH H2). rewrite sp_find_cons. simpl. rewrite (Z.eqb_sym m0 m).
  destruct (m =? m0) eqn:E.
  - apply Z.eqb_eq in E. subst. apply sp_find_none in H1. simpl in H1. rewrite H1.
    destruct (keep rs (s, m0)); [|reflexivity]. rewrite sp_find_set, Z.eqb_refl. reflexivity.
  - destruct (keep rs (s, m0)); [|reflexivity]. rewrite sp_find_set, E. reflexivity.
Qed.

Lemma sp_find_map_filter (g : Z -> Z) (k : Z -> bool) l m : NoDup (map snd l) ->
  sp_find m (map (fun e => (g (snd e), snd e)) (filter (fun e => k (snd e)) l))
  = match sp_find m l with Some _ => if k m then Some (g m) else None | None => None end.
Proof.
  induction l as [|e r IH]; intros N; simpl; [reflexivity|]. inversion N; subst.
  rewrite sp_find_cons. destruct (snd e =? m) eqn:E.
  - apply Z.eqb_eq in E. subst. destruct (k (snd e)); simpl.
    + rewrite sp_find_cons. simpl. now rewrite Z.eqb_refl.
    + rewrite (IH H2). apply sp_find_none in H1. now rewrite H1.
  - destruct (k (snd e)); simpl; [rewrite sp_find_cons; simpl; rewrite E|]; apply (IH H2).
Qed.

Lemma inter_sum_spec l rs : SU l ->
  SU (inter_sum (l :: rs)) /\
  forall m, sp_find m (inter_sum (l :: rs))
            = match sp_find m l with Some s => keep rs (s, m) | None => None end.
Proof.
  intros H. unfold inter_sum.
  set (fl := filter (fun e => forallb (has_member (snd e)) rs) l).
  set (es := map (fun e => (sum_scores (snd e) (l :: rs), snd e)) fl).
  assert (N : NoDup (map snd es)).
  { unfold es. rewrite map_map. simpl. apply (filter_SU _ _ H). }
  split; [apply (sort_entries_SU _ N)|]. intros m. rewrite (sp_find_sort_entries _ m N).
  unfold es, fl. rewrite (sp_find_map_filter (fun x => sum_scores x (l :: rs)) (fun x => forallb (has_member x) rs) l m (proj2 H)).
  unfold keep. simpl. destruct (sp_find m l); reflexivity.
Qed.

Theorem inter_spec zs hs : Forall ZInv zs -> hs_pos hs ->
  exists z, zs_inter zs hs = Val z /\ abs z = inter_sum (map abs zs) /\ ZInv z.
Proof.
  intros F Hh. destruct zs as [|z0 rest]; simpl.
  - exists zset_empty. split; [reflexivity|]. split; [reflexivity|apply ZInv_empty].
  - inversion F; subst. rewrite (zs_range_spec 0 (-1) z0 H1), slice_all.
    destruct (inter_all_spec rest (abs z0) H2 hs zset_empty ZInv_empty Hh) as (z & E & A & I).
    exists z. split; [exact E|]. split; [|exact I]. rewrite A. change (abs zset_empty) with (@nil entry).
    pose proof (si_su _ (proj1 H1)) as S0. fold (abs z0) in S0.
    destruct (inter_sum_spec (abs z0) (map abs rest) S0) as [S M].
    apply SU_ext; [apply fold_keep_SU, SU_nil|exact S|].
    intros m. rewrite (fold_keep_find _ _ (proj2 S0)), M.
    destruct (sp_find m (abs z0)) as [s|]; [|reflexivity]. destruct (keep (map abs rest) (s, m)); reflexivity.
Qed.
