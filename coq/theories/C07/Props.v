(* C07 property theorems. Nothing but statements closed by [exact] and Print Assumptions.
   [run step s ops] folds a step function and collects, per call, (result, bytes written to stdout);
   a result is RUnit | RGet v ok | RBool | RInt | RList | RGets | RBools | RPanic. *)
From VF Require Import C07.Model C07.Spec C07.Proofs C07.ProofsArray C07.ProofsLinked.
Local Open Scope nat_scope.

(* for EVERY operation list (any indexes, any batch lengths, any values) each of the three list models
   returns, call by call, exactly what the abstract sequence returns - including an empty stdout and no panic *)
Theorem C07_array : forall ops, snd (run al_step al0 ops) = snd (run seq_step [] ops).
Proof. exact al_refines. Qed.
Theorem C07_dlist : forall ops, snd (run dl_step ll0 ops) = snd (run seq_step [] ops).
Proof. exact dl_refines. Qed.
Theorem C07_slist : forall ops, snd (run sl_step ll0 ops) = snd (run seq_step [] ops).
Proof. exact sl_refines. Qed.

(* the abstract sequence never panics and never prints ... *)
Theorem C07_spec_quiet : forall ops l,
  Forall (fun r : out => fst r <> RPanic /\ snd r = 0) (snd (run seq_step l ops)).
Proof. exact seq_quiet. Qed.
(* hence no call on any of the three lists panics or writes a byte to stdout, whatever the operation list *)
Theorem C07_no_panic_no_output : forall ops,
  Forall (fun r : out => fst r <> RPanic /\ snd r = 0) (snd (run al_step al0 ops)) /\
  Forall (fun r : out => fst r <> RPanic /\ snd r = 0) (snd (run dl_step ll0 ops)) /\
  Forall (fun r : out => fst r <> RPanic /\ snd r = 0) (snd (run sl_step ll0 ops)).
Proof. intros ops. rewrite al_refines, dl_refines, sl_refines. repeat split; apply seq_quiet. Qed.
(* ... ignores out-of-range indexes (index = length appends for Set and Insert) ... *)
Theorem C07_spec_out_of_range : forall l i j v vs, ~ (0 <= i < Z.of_nat (length l))%Z ->
  remove_at i l = l /\ get_at i l = (0%Z, false) /\ swap_at i j l = l /\ swap_at j i l = l /\
  (i <> Z.of_nat (length l) -> set_at i v l = l /\ insert_at i vs l = l).
Proof. exact out_of_range_ignored. Qed.
(* ... IndexOf is the first matching position or -1 ... *)
Theorem C07_spec_index_of : forall v l,
  (index_of v l = (-1)%Z /\ ~ In v l) \/
  (exists k, index_of v l = Z.of_nat k /\ k < length l /\ nth k l 0%Z = v /\ forall j, j < k -> nth j l 0%Z <> v).
Proof. exact index_of_spec. Qed.
(* ... and Sort yields the one ascending permutation *)
Theorem C07_spec_sort : forall l, zsorted (sort_spec l) /\ Permutation (sort_spec l) l /\
  forall s, zsorted s -> Permutation s l -> s = sort_spec l.
Proof. exact sort_spec_ok. Qed.

(* non-vacuity: a run that grows the array, inserts a batch into the back half of a 12-element doubly linked
   list (backward traversal), removes, and searches for the zero value *)
Local Open Scope Z_scope.
Definition q0 (r : res) : out := (r, 0%nat).
Example C07_nonvacuous :
  let ops := [OAdd [1; 0; 3; 1; 3; 3; 3; 3; 2; 3; 1; 3]; OInsert 8 [7; 8]; ORemove 0; OIndexOf 0; OValues; OInsert 99 [5]; OSize] in
  snd (run dl_step ll0 ops) =
    map q0 [RUnit; RUnit; RUnit; RInt 0; RList [0; 3; 1; 3; 3; 3; 3; 7; 8; 2; 3; 1; 3]; RUnit; RInt 13]
  /\ snd (run al_step al0 ops) = snd (run dl_step ll0 ops).
Proof. split; vm_compute; reflexivity. Qed.

Print Assumptions C07_array.
Print Assumptions C07_dlist.
Print Assumptions C07_slist.
Print Assumptions C07_spec_quiet.
Print Assumptions C07_no_panic_no_output.
Print Assumptions C07_spec_out_of_range.
Print Assumptions C07_spec_index_of.
Print Assumptions C07_spec_sort.
