(* C07 lemmas: the three list models refine the abstract sequence. *)
From VF Require Import C07.Model C07.Spec.
From Coq Require Import Sorting.Sorted.
Local Open Scope nat_scope.

(* ---------- generic ---------- *)
Lemma within_spec i n : within i n = true <-> (0 <= i < Z.of_nat n)%Z.
Proof. unfold within. rewrite andb_true_iff, Z.leb_le, Z.ltb_lt. tauto. Qed.
Lemma within_false i n : within i n = false <-> ~ (0 <= i < Z.of_nat n)%Z.
Proof. rewrite <- within_spec. destruct (within i n); split; intros; congruence. Qed.

Lemma firstn_app_exact {A} (a b : list A) n : length a = n -> firstn n (a ++ b) = a.
Proof. intros <-. rewrite firstn_app, Nat.sub_diag, firstn_all. simpl. apply app_nil_r. Qed.
Lemma skipn_app_exact {A} (a b : list A) n : length a = n -> skipn n (a ++ b) = b.
Proof. intros <-. rewrite skipn_app, Nat.sub_diag, skipn_all. reflexivity. Qed.
Lemma firstn_app_le {A} (a b : list A) n : n <= length a -> firstn n (a ++ b) = firstn n a.
Proof. intros H. rewrite firstn_app. replace (n - length a) with 0 by lia. simpl. apply app_nil_r. Qed.
Lemma skipn_app_ge {A} (a b : list A) n : length a <= n -> skipn n (a ++ b) = skipn (n - length a) b.
Proof. intros H. rewrite skipn_app. rewrite (skipn_all2 a) by lia. reflexivity. Qed.

Lemma firstn_upd {A} (l : list A) n i x : firstn n (upd l i x) = upd (firstn n l) i x.
Proof.
  revert n i; induction l as [|a l IH]; intros [|n] [|i]; simpl; auto. now rewrite IH.
Qed.
Lemma skipn_upd_lt {A} (l : list A) n i x : i < n -> skipn n (upd l i x) = skipn n l.
Proof.
  revert n i; induction l as [|a l IH]; intros [|n] [|i] H; simpl; auto; try lia. apply IH; lia.
Qed.
Lemma nth_firstn {A} (l : list A) n i d : i < n -> nth i (firstn n l) d = nth i l d.
Proof.
  revert n i; induction l as [|a l IH]; intros [|n] [|i] H; simpl; auto; try lia.
  apply IH; lia.
Qed.
Lemma upd_split {A} (l : list A) k x : k < length l -> upd l k x = firstn k l ++ x :: skipn (S k) l.
Proof.
  revert k; induction l as [|a l IH]; intros [|k] H; simpl in *; try lia; auto. f_equal. apply IH; lia.
Qed.
Lemma remove_nth_split (l : list Z) k : remove_nth k l = firstn k l ++ skipn (S k) l.
Proof. revert k; induction l as [|a l IH]; intros [|k]; simpl; auto. f_equal. apply IH. Qed.

(* ---------- insertion sort: sorted, a permutation, and the only sorted permutation ---------- *)
Lemma ins_perm x l : Permutation (ins x l) (x :: l).
Proof.
  induction l as [|y t IH]; simpl; auto. destruct (x <=? y)%Z; auto.
  eapply perm_trans; [apply perm_skip, IH|apply perm_swap].
Qed.
Lemma isort_perm l : Permutation (isort l) l.
Proof. induction l as [|x t IH]; simpl; auto. eapply perm_trans; [apply ins_perm|auto]. Qed.
Lemma isort_length l : length (isort l) = length l.
Proof. apply Permutation_length, isort_perm. Qed.

Definition zsorted := Sorted Z.le.
Lemma ins_sorted x l : zsorted l -> zsorted (ins x l).
Proof.
  unfold zsorted. induction l as [|y t IH]; intros H; simpl.
  - repeat constructor.
  - destruct (x <=? y)%Z eqn:E.
    + constructor; auto. constructor. now apply Z.leb_le.
    + apply Z.leb_gt in E. inversion H as [|? ? Ht Hy]; subst. constructor; [auto|].
      destruct t as [|z t']; simpl.
      * constructor; lia.
      * destruct (x <=? z)%Z; constructor; try lia. inversion Hy; auto.
Qed.
Lemma isort_sorted l : zsorted (isort l).
Proof. induction l; simpl; [constructor|now apply ins_sorted]. Qed.

Lemma sorted_perm_unique l1 l2 : zsorted l1 -> zsorted l2 -> Permutation l1 l2 -> l1 = l2.
Proof.
  unfold zsorted. revert l2. induction l1 as [|a t IH]; intros l2 S1 S2 P.
  - apply Permutation_nil in P. auto.
  - destruct l2 as [|b u]; [apply Permutation_sym, Permutation_nil in P; discriminate|].
    apply Sorted_StronglySorted in S1; [|intros x y z; apply Z.le_trans].
    apply Sorted_StronglySorted in S2; [|intros x y z; apply Z.le_trans].
    inversion S1 as [|? ? St Ha]; inversion S2 as [|? ? Su Hb]; subst.
    assert (a = b).
    { assert (Ia : In a (b :: u)) by (eapply Permutation_in; [exact P|now left]).
      assert (Ib : In b (a :: t)) by (eapply Permutation_in; [apply Permutation_sym; exact P|now left]).
      destruct Ia as [->|Ia]; auto. destruct Ib as [->|Ib]; auto.
      rewrite Forall_forall in Ha, Hb. specialize (Ha _ Ib). specialize (Hb _ Ia). lia. }
    subst b. f_equal. apply IH.
    + now apply StronglySorted_Sorted.
    + now apply StronglySorted_Sorted.
    + eapply Permutation_cons_inv; eauto.
Qed.
(* Sort of the specification: any ascending permutation of l is sort_spec l *)
Lemma sort_spec_unique l s : zsorted s -> Permutation s l -> s = sort_spec l.
Proof.
  intros Hs Hp. apply sorted_perm_unique; auto; [apply isort_sorted|].
  eapply perm_trans; [exact Hp|apply Permutation_sym, isort_perm].
Qed.
Lemma isort_small l : length l < 2 -> isort l = l.
Proof. destruct l as [|a [|b t]]; simpl; auto; lia. Qed.

(* ---------- run: a step-wise simulation gives equal outputs ---------- *)
Lemma run_sim {S} (step : S -> op -> S * out) (R : S -> list Z -> Prop) :
  (forall s l o, R s l -> R (fst (step s o)) (fst (seq_step l o)) /\ snd (step s o) = snd (seq_step l o)) ->
  forall ops s l, R s l -> snd (run step s ops) = snd (run seq_step l ops) /\ R (fst (run step s ops)) (fst (run seq_step l ops)).
Proof.
  intros H ops. induction ops as [|o t IH]; intros s l HR; simpl; auto.
  destruct (H s l o HR) as [HR' Ho].
  destruct (step s o) as [s1 r1]. destruct (seq_step l o) as [l1 r1']. simpl in *.
  destruct (IH s1 l1 HR') as [E1 E2].
  destruct (run step s1 t) as [s2 rs]. destruct (run seq_step l1 t) as [l2 rs']. simpl in *.
  split; congruence.
Qed.

(* ---------- what the specification says, spelled out ---------- *)
Lemma seq_quiet : forall ops l, Forall (fun r : out => fst r <> RPanic /\ snd r = 0) (snd (run seq_step l ops)).
Proof.
  induction ops as [|o t IH]; intros l; simpl; [constructor|].
  destruct (seq_step l o) as [l1 r] eqn:E. specialize (IH l1).
  destruct (run seq_step l1 t) as [l2 rs]. simpl in *. constructor; auto.
  destruct o; simpl in E; inversion E; subst; simpl; split; auto; discriminate.
Qed.

Lemma out_of_range_ignored l i j v vs :
  ~ (0 <= i < Z.of_nat (length l))%Z ->
  remove_at i l = l /\ get_at i l = (0%Z, false) /\ swap_at i j l = l /\ swap_at j i l = l /\
  (i <> Z.of_nat (length l) -> set_at i v l = l /\ insert_at i vs l = l).
Proof.
  intros H. apply within_false in H. unfold remove_at, get_at, swap_at, set_at, insert_at. rewrite H.
  rewrite andb_false_r. repeat split; auto.
  - apply Z.eqb_neq in H0. now rewrite H0.
  - apply within_false in H. destruct ((0 <=? i)%Z && (i <=? Z.of_nat (length l))%Z) eqn:E; auto.
    apply andb_true_iff in E. rewrite !Z.leb_le in E. lia.
Qed.

Lemma index_from_spec v l : forall i,
  (index_from v l i = (-1)%Z /\ ~ In v l) \/
  (exists k, index_from v l i = (i + Z.of_nat k)%Z /\ k < length l /\ nth k l 0%Z = v /\
             forall j, j < k -> nth j l 0%Z <> v).
Proof.
  induction l as [|x t IH]; intros i; simpl.
  - left. auto.
  - destruct (x =? v)%Z eqn:E.
    + apply Z.eqb_eq in E. right. exists 0. repeat split; auto; try lia.
    + apply Z.eqb_neq in E. destruct (IH (i + 1)%Z) as [[H1 H2]|(k & H1 & H2 & H3 & H4)].
      * left. split; auto. intros [?|?]; auto.
      * right. exists (S k). repeat split; auto; try lia.
        intros [|j] Hj; auto. apply H4. lia.
Qed.
Lemma index_of_spec v l :
  (index_of v l = (-1)%Z /\ ~ In v l) \/
  (exists k, index_of v l = Z.of_nat k /\ k < length l /\ nth k l 0%Z = v /\ forall j, j < k -> nth j l 0%Z <> v).
Proof. exact (index_from_spec v l 0%Z). Qed.

Lemma sort_spec_ok l : zsorted (sort_spec l) /\ Permutation (sort_spec l) l /\
  forall s, zsorted s -> Permutation s l -> s = sort_spec l.
Proof. split; [apply isort_sorted|split; [apply isort_perm|apply sort_spec_unique]]. Qed.
