(* C07 specification: the abstract sequence. State = list Z. No operation panics or prints. *)
From VF Require Export C07.Model.
Local Open Scope nat_scope.

(* in_range i n: 0 <= i < n (the same test as the code's withinRange) *)
Notation in_range := within (only parsing).

(* Insert at i places the new values, in argument order, immediately before the element previously at i;
   i = length appends; anything else is ignored *)
Definition insert_at (i : Z) (vs l : list Z) : list Z :=
  if (0 <=? i)%Z && (i <=? Z.of_nat (length l))%Z then firstn (Z.to_nat i) l ++ vs ++ skipn (Z.to_nat i) l else l.
Definition remove_at (i : Z) (l : list Z) : list Z :=
  if in_range i (length l) then firstn (Z.to_nat i) l ++ skipn (S (Z.to_nat i)) l else l.
Definition set_at (i v : Z) (l : list Z) : list Z :=
  if in_range i (length l) then firstn (Z.to_nat i) l ++ v :: skipn (S (Z.to_nat i)) l
  else if (i =? Z.of_nat (length l))%Z then l ++ [v] else l.
Definition swap_at (i j : Z) (l : list Z) : list Z :=
  if in_range i (length l) && in_range j (length l) then swap 0%Z l (Z.to_nat i) (Z.to_nat j) else l.
Definition get_at (i : Z) (l : list Z) : Z * bool :=
  if in_range i (length l) then (nth (Z.to_nat i) l 0%Z, true) else (0%Z, false).
(* first matching position or -1 *)
Definition index_of (v : Z) (l : list Z) : Z := index_from v l 0%Z.
Definition contains_all (vs l : list Z) : bool := forallb (fun v => existsb (fun x => (x =? v)%Z) l) vs.
(* Sort: THE ascending permutation (Proofs.v: isort_sorted, isort_perm, sorted_perm_unique) *)
Definition sort_spec (l : list Z) : list Z := isort l.

Definition seq_step (l : list Z) (o : op) : list Z * out :=
  match o with
  | OAdd vs | OAppend vs => (l ++ vs, (RUnit, 0))
  | OPrepend vs => (vs ++ l, (RUnit, 0))
  | OInsert i vs => (insert_at i vs l, (RUnit, 0))
  | ORemove i => (remove_at i l, (RUnit, 0))
  | OSet i v => (set_at i v l, (RUnit, 0))
  | OSwap i j => (swap_at i j l, (RUnit, 0))
  | OSort => (sort_spec l, (RUnit, 0))
  | OClear => ([], (RUnit, 0))
  | OGet i => (l, (RGet (fst (get_at i l)) (snd (get_at i l)), 0))
  | OContains vs => (l, (RBool (contains_all vs l), 0))
  | OIndexOf v => (l, (RInt (index_of v l), 0))
  | OValues => (l, (RList l, 0))
  | OSize => (l, (RInt (Z.of_nat (length l)), 0))
  | OEmpty => (l, (RBool (length l =? 0), 0))
  | OGets => (l, (RGets (map (fun i => get_at i l) (zrange (-1) (length l + 2))), 0))
  | OIndexOfs vs => (l, (RList (map (fun v => index_of v l) vs), 0))
  | OContainsEach vs => (l, (RBools (map (fun v => contains_all [v] l) vs), 0))
  end.
