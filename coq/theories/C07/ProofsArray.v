(* C07: the array-list model refines the abstract sequence. *)
From VF Require Import C07.Model C07.Spec C07.Proofs.
Local Open Scope nat_scope.

(* abstraction: the first size cells of the backing array *)
Definition RA (a : al) (l : list Z) : Prop := firstn (al_n a) (al_e a) = l /\ al_n a <= length (al_e a).

Lemma RA_len a l : RA a l -> length l = al_n a.
Proof. intros [<- H]. now apply firstn_length_le. Qed.

Lemma load_ok e i : i < length e -> load e i = Ok (nth i e 0%Z).
Proof. intros H. unfold load. apply Nat.ltb_lt in H. now rewrite H. Qed.
Lemma store_ok e i v : i < length e -> store e i v = Ok (upd e i v).
Proof. intros H. unfold store. apply Nat.ltb_lt in H. now rewrite H. Qed.
Lemma slice_ok e lo hi : lo <= hi -> hi <= length e -> slice e lo hi = Ok (firstn (hi - lo) (skipn lo e)).
Proof.
  intros H1 H2. unfold slice. apply Nat.leb_le in H1, H2. now rewrite H1, H2.
Qed.
Lemma blit_ok e dst src : dst + length src <= length e ->
  blit e dst src = Ok (firstn dst e ++ src ++ skipn (dst + length src) e).
Proof.
  intros H. unfold blit. assert (E : (dst <=? length e) = true) by (apply Nat.leb_le; lia). rewrite E.
  rewrite Nat.min_r by lia. now rewrite firstn_all.
Qed.

Lemma resize_length c e : length (al_resize c e) = c.
Proof. unfold al_resize. rewrite app_length, firstn_length, repeat_length. lia. Qed.
Lemma resize_firstn c e n : n <= c -> n <= length e -> firstn n (al_resize c e) = firstn n e.
Proof.
  intros H1 H2. unfold al_resize. rewrite firstn_app_le by (rewrite firstn_length; lia).
  rewrite firstn_firstn. now rewrite Nat.min_l by lia.
Qed.

Lemma growby_ok n a l : RA a l ->
  RA (al_growby n a) l /\ al_n (al_growby n a) = al_n a /\ al_n a + n <= length (al_e (al_growby n a)).
Proof.
  intros [Hl Hn]. unfold al_growby, RA.
  destruct (length (al_e a) <=? al_n a + n) eqn:E; cbn [al_e al_n].
  - apply Nat.leb_le in E. rewrite resize_length. repeat split; try lia.
    rewrite resize_firstn by lia. exact Hl.
  - apply Nat.leb_gt in E. repeat split; auto; lia.
Qed.

Lemma firstn_S_upd (e : list Z) n v : n < length e -> firstn (S n) (upd e n v) = firstn n e ++ [v].
Proof.
  revert n; induction e as [|a e IH]; intros [|n] H; simpl in *; try lia; auto.
  f_equal. apply IH. lia.
Qed.

Lemma add_loop_ok vs : forall e n, n + length vs <= length e ->
  exists e', al_add_loop vs e n = Ok {| al_e := e'; al_n := n + length vs |}
             /\ firstn (n + length vs) e' = firstn n e ++ vs /\ length e' = length e.
Proof.
  induction vs as [|v t IH]; intros e n H; simpl in *.
  - exists e. rewrite Nat.add_0_r, app_nil_r. auto.
  - rewrite store_ok by lia. simpl.
    destruct (IH (upd e n v) (S n)) as (e' & E1 & E2 & E3); [rewrite upd_length; lia|].
    exists e'. replace (n + S (length t)) with (S n + length t) by lia. split; [exact E1|]. split.
    + rewrite E2. rewrite firstn_S_upd by lia. now rewrite <- app_assoc.
    + now rewrite E3, upd_length.
Qed.

Lemma al_add_ok vs a l : RA a l -> exists a', al_add vs a = Ok a' /\ RA a' (l ++ vs).
Proof.
  intros HR. destruct (growby_ok (length vs) a l HR) as ([Hl Hn] & Hsz & Hroom).
  rewrite Hsz in Hl, Hn. unfold al_add. rewrite Hsz.
  destruct (add_loop_ok vs (al_e (al_growby (length vs) a)) (al_n a) Hroom) as (e' & E1 & E2 & E3).
  rewrite E1. eexists; split; [reflexivity|]. split; cbn [al_e al_n].
  - rewrite E2. now rewrite Hl.
  - lia.
Qed.

Lemma al_get_ok i a l : RA a l -> al_get i a = Ok (get_at i l).
Proof.
  intros HR. pose proof (RA_len _ _ HR) as HL. destruct HR as [Hl Hn].
  unfold al_get, get_at. rewrite HL.
  destruct (within i (al_n a)) eqn:W; auto.
  apply within_spec in W. rewrite load_ok by lia. simpl. rewrite <- Hl.
  rewrite nth_firstn by lia. reflexivity.
Qed.

Lemma shrink_ok a l : RA a l -> RA (al_shrink a) l.
Proof.
  intros [Hl Hn]. unfold al_shrink. destruct (al_n a <=? length (al_e a) / 4); [|split; auto].
  split; cbn [al_e al_n].
  - rewrite resize_firstn by lia. exact Hl.
  - rewrite resize_length. lia.
Qed.

Lemma al_remove_ok i a l : RA a l -> exists a', al_remove i a = Ok a' /\ RA a' (remove_at i l).
Proof.
  intros HR. pose proof (RA_len _ _ HR) as HL. pose proof HR as [Hl Hn].
  unfold al_remove, remove_at. rewrite HL.
  destruct (within i (al_n a)) eqn:W; [|eauto].
  apply within_spec in W. set (k := Z.to_nat i). assert (Hk : k < al_n a) by (unfold k; lia).
  rewrite store_ok by lia. cbn [bind].
  rewrite slice_ok by (rewrite ?upd_length; lia). cbn [bind].
  rewrite blit_ok.
  2:{ rewrite firstn_length, skipn_length, upd_length. lia. }
  cbn [bind]. eexists; split; [reflexivity|]. apply shrink_ok. split; cbn [al_e al_n].
  - rewrite firstn_length, skipn_length, upd_length.
    replace (Nat.min (al_n a - S k) (length (al_e a) - S k)) with (al_n a - S k) by lia.
    rewrite app_assoc. rewrite firstn_app_exact.
    2:{ rewrite app_length, !firstn_length, skipn_length, !upd_length. lia. }
    rewrite firstn_upd, skipn_upd_lt by lia.
    rewrite upd_oob by (rewrite firstn_length; lia).
    rewrite <- Hl. rewrite firstn_firstn, Nat.min_l by lia. f_equal.
    rewrite skipn_firstn_comm. reflexivity.
  - rewrite !app_length, !firstn_length, !skipn_length, !upd_length. lia.
Qed.

Lemma al_find_ok e v : forall k i, i + k <= length e ->
  al_find e k i v = Ok (existsb (fun x => (x =? v)%Z) (firstn k (skipn i e))).
Proof.
  induction k as [|k IH]; intros i H; simpl; auto.
  rewrite load_ok by lia. cbn [bind].
  assert (E : skipn i e = nth i e 0%Z :: skipn (S i) e).
  { clear -H. revert i H. induction e as [|a e IH]; intros [|i] H; simpl in *; try lia; auto. apply IH. lia. }
  rewrite E. simpl. destruct (nth i e 0 =? v)%Z; auto. apply IH. lia.
Qed.

Lemma al_contains_ok vs a l : RA a l -> al_contains vs a = Ok (contains_all vs l).
Proof.
  intros [Hl Hn]. induction vs as [|v t IH]; simpl; auto.
  rewrite al_find_ok by lia. simpl. rewrite Hl.
  destruct (existsb (fun x => (x =? v)%Z) l); auto.
Qed.

Lemma al_values_ok a l : RA a l -> al_values a = Ok l.
Proof. intros [Hl Hn]. unfold al_values. rewrite slice_ok by lia. simpl. now rewrite Nat.sub_0_r, Hl. Qed.

Lemma al_indexof_ok v a l : RA a l -> al_indexof v a = Ok (index_of v l).
Proof.
  intros HR. pose proof (RA_len _ _ HR) as HL. unfold al_indexof, index_of.
  destruct (al_n a =? 0) eqn:E.
  - apply Nat.eqb_eq in E. destruct l; simpl in *; [reflexivity|lia].
  - pose proof (al_values_ok _ _ HR) as V. unfold al_values in V. rewrite V. reflexivity.
Qed.

Lemma al_sort_ok a l : RA a l -> exists a', al_sort a = Ok a' /\ RA a' (sort_spec l).
Proof.
  intros HR. pose proof (RA_len _ _ HR) as HL. pose proof HR as [Hl Hn]. unfold al_sort, sort_spec.
  destruct (length (al_e a) <? 2) eqn:E.
  - apply Nat.ltb_lt in E. exists a. split; auto. rewrite isort_small by lia. exact HR.
  - pose proof (al_values_ok _ _ HR) as V. unfold al_values in V. rewrite V. simpl.
    eexists; split; [reflexivity|]. split; cbn [al_e al_n].
    + apply firstn_app_exact. rewrite isort_length. exact HL.
    + rewrite app_length, isort_length, skipn_length. lia.
Qed.

Lemma al_swap_ok i j a l : RA a l -> exists a', al_swap i j a = Ok a' /\ RA a' (swap_at i j l).
Proof.
  intros HR. pose proof (RA_len _ _ HR) as HL. pose proof HR as [Hl Hn].
  unfold al_swap, swap_at. rewrite HL.
  destruct (within i (al_n a)) eqn:Wi; destruct (within j (al_n a)) eqn:Wj; cbn [andb];
    try (exists a; split; [reflexivity|exact HR]).
  apply within_spec in Wi, Wj.
  rewrite !load_ok by lia. cbn [bind]. rewrite store_ok by lia. cbn [bind]. rewrite store_ok by (rewrite upd_length; lia). cbn [bind].
  eexists; split; [reflexivity|]. split; cbn [al_e al_n].
  - rewrite !firstn_upd. unfold swap. rewrite <- Hl. rewrite !nth_firstn by lia. reflexivity.
  - rewrite !upd_length. lia.
Qed.

Lemma al_insert_in i vs a l : RA a l -> within i (al_n a) = true ->
  exists a', al_insert i vs a = Ok a' /\ RA a' (insert_at i vs l).
Proof.
  intros HR W. pose proof (RA_len _ _ HR) as HL.
  unfold al_insert, insert_at. rewrite W. apply within_spec in W.
  assert (Hin : ((0 <=? i)%Z && (i <=? Z.of_nat (length l))%Z) = true).
  { apply andb_true_iff. rewrite Z.leb_le, Z.leb_le. lia. }
  rewrite Hin. set (k := Z.to_nat i). assert (Hk : k < al_n a) by (unfold k; lia).
  destruct (growby_ok (length vs) a l HR) as ([Hl Hn] & Hsz & Hroom).
  set (a1 := al_growby (length vs) a) in *. set (e1 := al_e a1) in *. rewrite Hsz in Hl, Hn |- *.
  replace (al_n a + length vs - length vs) with (al_n a) by lia.
  rewrite slice_ok by lia. cbn [bind].
  set (B := firstn (al_n a - k) (skipn k e1)).
  assert (HB : length B = al_n a - k) by (unfold B; rewrite firstn_length, skipn_length; lia).
  rewrite blit_ok by lia. cbn [bind].
  set (e2 := firstn (k + length vs) e1 ++ B ++ skipn (k + length vs + length B) e1).
  assert (L2 : length e2 = length e1).
  { unfold e2. rewrite !app_length, firstn_length, skipn_length. lia. }
  assert (H1 : firstn k e2 = firstn k e1).
  { unfold e2. rewrite firstn_app_le by (rewrite firstn_length; lia).
    rewrite firstn_firstn. now rewrite Nat.min_l by lia. }
  assert (H2 : skipn (k + length vs) e2 = B ++ skipn (k + length vs + length B) e1).
  { unfold e2. apply skipn_app_exact. rewrite firstn_length. lia. }
  rewrite blit_ok by lia. cbn [bind]. rewrite H1, H2.
  eexists; split; [reflexivity|]. split; cbn [al_e al_n].
  - replace (firstn k e1 ++ vs ++ B ++ skipn (k + length vs + length B) e1)
      with ((firstn k e1 ++ vs ++ B) ++ skipn (k + length vs + length B) e1) by (now rewrite <- !app_assoc).
    rewrite firstn_app_exact.
    2:{ rewrite !app_length, firstn_length. lia. }
    rewrite <- Hl. rewrite firstn_firstn, Nat.min_l by lia.
    f_equal. f_equal. unfold B.
    rewrite skipn_firstn_comm. reflexivity.
  - rewrite !app_length, !firstn_length, !skipn_length. lia.
Qed.

Lemma insert_at_end vs l : insert_at (Z.of_nat (length l)) vs l = l ++ vs.
Proof.
  unfold insert_at. rewrite Nat2Z.id, firstn_all, skipn_all, app_nil_r.
  assert (E : ((0 <=? Z.of_nat (length l))%Z && (Z.of_nat (length l) <=? Z.of_nat (length l))%Z) = true).
  { apply andb_true_iff. rewrite !Z.leb_le. lia. }
  now rewrite E.
Qed.

Lemma al_insert_ok i vs a l : RA a l -> exists a', al_insert i vs a = Ok a' /\ RA a' (insert_at i vs l).
Proof.
  intros HR. pose proof (RA_len _ _ HR) as HL.
  destruct (within i (al_n a)) eqn:W; [now apply al_insert_in|].
  unfold al_insert. rewrite W. apply within_false in W.
  destruct (i =? Z.of_nat (al_n a))%Z eqn:E.
  - apply Z.eqb_eq in E. rewrite E, <- HL, insert_at_end. now apply al_add_ok.
  - apply Z.eqb_neq in E. exists a; split; auto. unfold insert_at.
    assert (F : ((0 <=? i)%Z && (i <=? Z.of_nat (length l))%Z) = false).
    { apply andb_false_iff. rewrite Z.leb_gt, Z.leb_gt. lia. }
    now rewrite F.
Qed.

Lemma al_set_ok i v a l : RA a l -> exists a', al_set i v a = Ok a' /\ RA a' (set_at i v l).
Proof.
  intros HR. pose proof (RA_len _ _ HR) as HL. pose proof HR as [Hl Hn].
  unfold al_set, set_at. rewrite HL.
  destruct (within i (al_n a)) eqn:W.
  - apply within_spec in W. rewrite store_ok by lia. simpl. eexists; split; [reflexivity|].
    split; cbn [al_e al_n]; [|rewrite upd_length; lia].
    rewrite firstn_upd, Hl. apply upd_split. lia.
  - destruct (i =? Z.of_nat (al_n a))%Z; [now apply al_add_ok|eauto].
Qed.

Lemma mapM_ok {A B} (f : A -> M B) (g : A -> B) (l : list A) :
  (forall a, f a = Ok (g a)) -> mapM f l = Ok (map g l).
Proof. intros H. induction l as [|a t IH]; simpl; auto. now rewrite H, IH. Qed.

Lemma RA_clear : RA al_clear [].
Proof. split; simpl; auto. Qed.

Lemma al_step_sim a l o : RA a l ->
  RA (fst (al_step a o)) (fst (seq_step l o)) /\ snd (al_step a o) = snd (seq_step l o).
Proof.
  intros HR. pose proof (RA_len _ _ HR) as HL.
  destruct o; cbn [al_step seq_step fst snd].
  - destruct (al_add_ok vs a l HR) as (a' & E & R'). rewrite E. simpl. auto.
  - destruct (al_add_ok vs a l HR) as (a' & E & R'). rewrite E. simpl. auto.
  - destruct (al_insert_ok 0 vs a l HR) as (a' & E & R'). rewrite E. simpl. split; auto.
    unfold insert_at in R'. simpl in R'.
    assert (F : (0 <=? Z.of_nat (length l))%Z = true) by (apply Z.leb_le; lia). now rewrite F in R'.
  - destruct (al_insert_ok i vs a l HR) as (a' & E & R'). rewrite E. simpl. auto.
  - destruct (al_remove_ok i a l HR) as (a' & E & R'). rewrite E. simpl. auto.
  - destruct (al_set_ok i v a l HR) as (a' & E & R'). rewrite E. simpl. auto.
  - destruct (al_swap_ok i j a l HR) as (a' & E & R'). rewrite E. simpl. auto.
  - destruct (al_sort_ok a l HR) as (a' & E & R'). rewrite E. simpl. auto.
  - split; [apply RA_clear|reflexivity].
  - rewrite (al_get_ok i a l HR). simpl. auto.
  - rewrite (al_contains_ok vs a l HR). simpl. auto.
  - rewrite (al_indexof_ok v a l HR). simpl. auto.
  - rewrite (al_values_ok a l HR). simpl. auto.
  - simpl. rewrite HL. auto.
  - simpl. rewrite HL. auto.
  - rewrite (mapM_ok _ (fun i => get_at i l)) by (intros; now apply al_get_ok). simpl. rewrite HL. auto.
  - rewrite (mapM_ok _ (fun v => index_of v l)) by (intros; now apply al_indexof_ok). simpl. auto.
  - rewrite (mapM_ok _ (fun v => contains_all [v] l)) by (intros; now apply al_contains_ok). simpl. auto.
Qed.

Theorem al_refines : forall ops, snd (run al_step al0 ops) = snd (run seq_step [] ops).
Proof.
  intros ops. apply (run_sim al_step RA al_step_sim ops al0 []). split; simpl; auto.
Qed.
