(* C07 correspondence checker. A case is one list of one kind driven through a sequence of calls; every
   call carries what the implementation returned (result, bytes it wrote to stdout).
   kind 2: the recorded output differs from the abstract sequence (Spec.seq_step) - the property is violated;
   kind 1: it satisfies the Spec but differs from the model (Model.al_step / ll_step), or the backing array
           of the array list (SBack, verif accessor) differs from the model's. *)
From VF Require Import C07.Model C07.Spec C07.Proofs.
Local Open Scope nat_scope.

Inductive kind := KArray | KDList | KSList.
Inductive mstate := MA (a : al) | ML (dbl : bool) (s : ll).
Inductive stepx :=
| SOp (o : op) (r : out)
| SBack (l : list Z)
(* aliasing judgement: the harness keeps every slice returned by Values(); at the end of the trace it reads them
   again. Each must still hold what it held when it was returned (the recorded result of that Values() call):
   a result of Values() is a snapshot of the sequence, no later list operation may rewrite it. *)
| SKept (now : list (list Z))
(* user callbacks observing the list in the middle of an operation. The harness passes comparators / iteration
   callbacks that read the list (its Values(), by content class) at EVERY invocation; [obs] is what they saw,
   run-length encoded (count, contents). The documented reference (what the unmodified code does):
     Sort, linked lists : copy the values, sort the copy, then Clear and Add: every comparator call sees the
                          contents the list had BEFORE the Sort;
     Sort, array list   : sorts the stored prefix in place by swaps: every comparator call sees a rearrangement
                          of the contents before the Sort (same multiset, same length);
     Each / Map / Select / Any / All / Find : read-only: every callback sees the list as it is.
   SDuring sorting obs follows the SOp OSort it belongs to (sorting = true: judged against the reference before
   that call) or an iteration (sorting = false: judged against the current reference). *)
| SDuring (sorting : bool) (obs : list (nat * list Z))
(* the (value) arguments an iteration callback received, in call order: the whole reference sequence (full) or,
   when the callback panicked on the way (recovered by the harness), a prefix of it *)
| SSeen (full : bool) (seen : list Z)
(* a Sort whose comparator panicked at some call (recovered by the harness): [obs] as above, [after] = Values()
   afterwards. Linked lists: the list is untouched (the panic happens while the copy is being sorted). Array
   list: the stored prefix is some rearrangement of what it was (the sort is in place). The reference continues
   from [after]. *)
| SSortPanic (obs : list (nat * list Z)) (after : list Z).
Record case := { c_kind : kind; c_steps : list stepx }.

(* compact constructors for the case files *)
Definition s_ (o : op) (r : res) : stepx := SOp o (r, 0).
Definition sb_ (o : op) (r : res) (bytes : nat) : stepx := SOp o (r, bytes).
(* shorter forms of the three observation steps that make up most of a case file *)
Definition T := true.
Definition F := false.
Definition gs_ (vs : list Z) (oks : list bool) : stepx := s_ OGets (RGets (combine vs oks)).
Definition ix_ (r : list Z) : stepx := s_ (OIndexOfs [0; 1; 2; 3; 4]%Z) (RList r).
Definition ce_ (r : list bool) : stepx := s_ (OContainsEach [0; 1; 2; 3; 4]%Z) (RBools r).
(* the same step, with bytes written to stdout during the call *)
Definition sbc_ (x : stepx) (bytes : nat) : stepx :=
  match x with SOp o r => SOp o (fst r, bytes) | _ => x end.

Definition zlist_eqb := list_eqb Z.eqb.
Definition zb_eqb (a b : Z * bool) : bool := (fst a =? fst b)%Z && Bool.eqb (snd a) (snd b).
Definition res_eqb (a b : res) : bool :=
  match a, b with
  | RUnit, RUnit => true
  | RGet v ok, RGet v' ok' => (v =? v')%Z && Bool.eqb ok ok'
  | RBool x, RBool y => Bool.eqb x y
  | RInt x, RInt y => (x =? y)%Z
  | RList x, RList y => zlist_eqb x y
  | RGets x, RGets y => list_eqb zb_eqb x y
  | RBools x, RBools y => list_eqb Bool.eqb x y
  | RPanic, RPanic => true
  | _, _ => false
  end.
Definition out_eqb (a b : out) : bool := res_eqb (fst a) (fst b) && (snd a =? snd b).

Definition m_init (k : kind) : mstate :=
  match k with KArray => MA al0 | KDList => ML true ll0 | KSList => ML false ll0 end.
Definition m_step (m : mstate) (o : op) : mstate * out :=
  match m with
  | MA a => let '(a', r) := al_step a o in (MA a', r)
  | ML d s => let '(s', r) := ll_step d s o in (ML d s', r)
  end.

(* checker state: model state, reference sequence, recorded results of the Values() calls so far (latest first),
   reference sequence before the last call *)
Definition cstate : Type := mstate * list Z * list (list Z) * list Z.
Definition keep (o : op) (r : out) (kept : list (list Z)) : list (list Z) :=
  match o, fst r with OValues, RList l => l :: kept | _, _ => kept end.

Definition same_multiset (a b : list Z) : bool := zlist_eqb (isort a) (isort b).
Definition is_array (m : mstate) : bool := match m with MA _ => true | ML _ _ => false end.
(* what a comparator may see while [pre] is being sorted *)
Definition sort_view_ok (m : mstate) (pre seen : list Z) : bool :=
  if is_array m then same_multiset seen pre else zlist_eqb seen pre.
Fixpoint is_prefix (a l : list Z) : bool :=
  match a, l with
  | [], _ => true
  | x :: a', y :: l' => (x =? y)%Z && is_prefix a' l'
  | _ :: _, [] => false
  end.
(* the array list after a Sort that was abandoned half way: the stored prefix rearranged as observed *)
Definition resync (m : mstate) (after : list Z) : mstate :=
  match m with
  | MA a => MA {| al_e := after ++ skipn (al_n a) (al_e a); al_n := al_n a |}
  | ML _ _ => m
  end.

Definition check_step (st : cstate) (x : stepx) : cstate * nat :=
  let '(m, l, kept, prev) := st in
  match x with
  | SOp o r =>
    let '(m', mo) := m_step m o in
    let '(l', so) := seq_step l o in
    ((m', l', keep o r kept, l), kind_of (out_eqb mo r) (out_eqb so r))
  | SBack b =>
    (st, kind_of (match m with MA a => zlist_eqb (al_e a) b | ML _ _ => true end) true)
  | SKept now =>
    (st, kind_of true (list_eqb zlist_eqb now (rev kept)))
  | SDuring sorting obs =>
    (st, kind_of true (forallb (fun p => if sorting then sort_view_ok m prev (snd p) else zlist_eqb (snd p) l) obs))
  | SSeen full seen =>
    (st, kind_of true (if full then zlist_eqb seen l else is_prefix seen l))
  | SSortPanic obs after =>
    ((resync m after, after, kept, l),
     kind_of true (forallb (fun p => sort_view_ok m l (snd p)) obs && sort_view_ok m l after))
  end.

(* Like Base.scan, but a kind-1 step (model differs, property holds) does not end the scan: the reference
   state of the kind-2 judgement does not depend on the model, so the scan goes on looking for a property
   violation. Result: the code of the first kind-2 step if there is one, else of the first kind-1 step, else 0.
   (A shape mismatch right after a call must not hide that a later call loses an element.) *)
Fixpoint scan_k2 {St X} (f : St -> X -> St * nat) (s : St) (xs : list X) (i first1 : nat) : nat :=
  match xs with
  | [] => first1
  | x :: t => let '(s', k) := f s x in
              if Nat.eqb k 0 then scan_k2 f s' t (S i) first1
              else if Nat.eqb k 1 then scan_k2 f s' t (S i) (if Nat.eqb first1 0 then i * 4 + 1 else first1)
              else i * 4 + k
  end.

Definition check_case (c : case) : nat := scan_k2 check_step (m_init (c_kind c), [], [], []) (c_steps c) 0 0.
Definition mismatches (cs : list case) : list (nat * nat) := find_bad check_case cs.
