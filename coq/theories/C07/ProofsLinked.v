(* C07: the doubly and singly linked list models refine the abstract sequence. *)
From VF Require Import C07.Model C07.Spec C07.Proofs C07.ProofsArray.
Local Open Scope nat_scope.

(* abstraction: the chain is the sequence and the cached size is its length *)
Definition RL (s : ll) (l : list Z) : Prop := ll_e s = l /\ ll_n s = length l.

Lemma ll_add_ok vs : forall s l, RL s l -> exists s', ll_add vs s = Ok s' /\ RL s' (l ++ vs).
Proof.
  induction vs as [|v t IH]; intros s l [He Hn]; simpl.
  - exists s. rewrite app_nil_r. split; [auto|split; auto].
  - destruct (ll_n s =? 0) eqn:E.
    + apply Nat.eqb_eq in E. assert (Hl0 : l = []) by (destruct l; simpl in *; [auto|lia]). rewrite Hl0 in *. clear Hl0.
      destruct (IH {| ll_e := [v]; ll_n := S (ll_n s) |} [v]) as (s' & E1 & R1); [split; simpl; [reflexivity|lia]|].
      exists s'. split; auto.
    + apply Nat.eqb_neq in E. rewrite He. destruct l as [|x l']; [simpl in Hn; lia|].
      destruct (IH {| ll_e := (x :: l') ++ [v]; ll_n := S (ll_n s) |} ((x :: l') ++ [v])) as (s' & E1 & R1).
      { split; cbn [ll_e ll_n]; [reflexivity|]. rewrite app_length, Hn. simpl. lia. }
      exists s'. rewrite <- app_assoc in R1. split; [exact E1|exact R1].
Qed.

Lemma dl_prepend_ok rvs : forall s l, RL s l -> exists s', dl_prepend_rev rvs s = Ok s' /\ RL s' (rev rvs ++ l).
Proof.
  induction rvs as [|v t IH]; intros s l [He Hn]; simpl.
  - exists s. split; [auto|split; auto].
  - destruct (ll_n s =? 0) eqn:E.
    + apply Nat.eqb_eq in E. assert (Hl0 : l = []) by (destruct l; simpl in *; [auto|lia]). rewrite Hl0 in *. clear Hl0.
      destruct (IH {| ll_e := [v]; ll_n := S (ll_n s) |} [v]) as (s' & E1 & R1); [split; simpl; [reflexivity|lia]|].
      exists s'. rewrite <- app_assoc. rewrite app_nil_r in *. split; auto.
    + apply Nat.eqb_neq in E. rewrite He. destruct l as [|x l']; [simpl in Hn; lia|].
      destruct (IH {| ll_e := v :: x :: l'; ll_n := S (ll_n s) |} (v :: x :: l')) as (s' & E1 & R1).
      { split; cbn [ll_e ll_n]; [reflexivity|]. rewrite Hn. simpl. lia. }
      exists s'. rewrite <- app_assoc. split; [exact E1|exact R1].
Qed.

Lemma sl_prepend_ok rvs : forall s l, RL s l -> exists s', sl_prepend_rev rvs s = Ok s' /\ RL s' (rev rvs ++ l).
Proof.
  induction rvs as [|v t IH]; intros s l [He Hn]; simpl.
  - exists s. split; [auto|split; auto].
  - destruct (IH {| ll_e := v :: ll_e s; ll_n := S (ll_n s) |} (v :: l)) as (s' & E1 & R1).
    { split; simpl; [now rewrite He|]. lia. }
    exists s'. rewrite <- app_assoc. split; auto.
Qed.

(* ---------- traversals ---------- *)
Lemma walk_next_ok e : forall k i, i + k < length e -> walk_next e k (Some i) = Ok (Some (i + k)).
Proof.
  induction k as [|k IH]; intros i H; simpl.
  - now rewrite Nat.add_0_r.
  - unfold p_next. assert (E : (S i <? length e) = true) by (apply Nat.ltb_lt; lia). rewrite E.
    rewrite IH by lia. do 2 f_equal. lia.
Qed.
Lemma walk_prev_ok : forall k i, k <= i -> walk_prev k (Some i) = Ok (Some (i - k)).
Proof.
  induction k as [|k IH]; intros i H; simpl.
  - now rewrite Nat.sub_0_r.
  - destruct i as [|i]; [lia|]. simpl. rewrite IH by lia. reflexivity.
Qed.
Lemma walk_next_b_ok e : forall k i b, i + k < length e ->
  walk_next_b e k (Some i) b = Ok (Some (i + k), match k with O => b | S k' => Some (i + k') end).
Proof.
  induction k as [|k IH]; intros i b H; simpl.
  - now rewrite Nat.add_0_r.
  - unfold p_next. assert (E : (S i <? length e) = true) by (apply Nat.ltb_lt; lia). rewrite E.
    rewrite IH by lia. f_equal. f_equal; [f_equal; lia|]. destruct k; f_equal; lia.
Qed.
Lemma p_first_some (e : list Z) : 0 < length e -> p_first e = Some 0.
Proof. destruct e; simpl; [lia|auto]. Qed.
Lemma p_last_some (e : list Z) : 0 < length e -> p_last e = Some (length e - 1).
Proof. destruct e; simpl; [lia|auto]. Qed.

Lemma dl_locate_ok s l k : RL s l -> k < length l -> dl_locate s k = Ok (Some k).
Proof.
  intros [He Hn] H. unfold dl_locate. rewrite He, Hn. destruct (dl_backward (length l) k).
  - rewrite p_last_some by lia. rewrite walk_prev_ok by lia. do 2 f_equal. lia.
  - rewrite p_first_some by lia. now rewrite walk_next_ok by lia.
Qed.
Lemma sl_locate_ok s l k : RL s l -> k < length l -> sl_locate s k = Ok (Some k).
Proof.
  intros [He Hn] H. unfold sl_locate. rewrite He. rewrite p_first_some by lia. now rewrite walk_next_ok by lia.
Qed.

Definition loc_ok (loc : ll -> nat -> M ptr) : Prop :=
  forall s l k, RL s l -> k < length l -> loc s k = Ok (Some k).

Section WithLoc.
Variable loc : ll -> nat -> M ptr.
Hypothesis Hloc : loc_ok loc.

Lemma ll_get_ok i s l : RL s l -> ll_get loc i s = Ok (get_at i l).
Proof.
  intros HR. pose proof HR as [He Hn]. unfold ll_get, get_at. rewrite Hn.
  destruct (within i (length l)) eqn:W; auto. apply within_spec in W.
  rewrite (Hloc s l) by (auto; lia). simpl. now rewrite He.
Qed.

Lemma ll_remove_ok i s l : RL s l -> exists s', ll_remove loc i s = Ok s' /\ RL s' (remove_at i l).
Proof.
  intros HR. pose proof HR as [He Hn]. unfold ll_remove, remove_at. rewrite Hn.
  destruct (within i (length l)) eqn:W; [|eauto]. apply within_spec in W.
  destruct (length l =? 1) eqn:E1.
  - apply Nat.eqb_eq in E1. destruct l as [|x [|y t]]; simpl in E1; try lia.
    assert (Z.to_nat i = 0) as -> by (simpl in W; lia). simpl.
    exists ll_clear. split; [auto|split; auto].
  - rewrite (Hloc s l) by (auto; lia). cbn [bind]. eexists; split; [reflexivity|].
    split; cbn [ll_e ll_n].
    + rewrite He. apply remove_nth_split.
    + rewrite app_length, firstn_length, skipn_length. lia.
Qed.

Lemma ll_set_ok i v s l : RL s l -> exists s', ll_set loc i v s = Ok s' /\ RL s' (set_at i v l).
Proof.
  intros HR. pose proof HR as [He Hn]. unfold ll_set, set_at. rewrite Hn.
  destruct (within i (length l)) eqn:W.
  - apply within_spec in W. rewrite (Hloc s l) by (auto; lia). cbn [bind]. eexists; split; [reflexivity|].
    split; cbn [ll_e ll_n].
    + rewrite He. apply upd_split. lia.
    + rewrite app_length, firstn_length. cbn [length]. rewrite skipn_length. lia.
  - destruct (i =? Z.of_nat (length l))%Z; [now apply ll_add_ok|eauto].
Qed.
End WithLoc.

Lemma ll_contains_ok vs s l : RL s l -> ll_contains vs s = contains_all vs l.
Proof.
  intros [He Hn]. unfold ll_contains, contains_all. destruct vs as [|v t]; auto.
  destruct (ll_n s =? 0) eqn:E; [|now rewrite He].
  apply Nat.eqb_eq in E. assert (Hl0 : l = []) by (destruct l; simpl in *; [auto|lia]). rewrite Hl0 in *. clear Hl0. reflexivity.
Qed.

Lemma ll_values_ok s l : RL s l -> ll_values s = Ok l.
Proof.
  intros [He Hn]. unfold ll_values. rewrite He, Hn, Nat.leb_refl, Nat.sub_diag. simpl. now rewrite app_nil_r.
Qed.

Lemma ll_indexof_ok v s l : RL s l -> ll_indexof v s = Ok (index_of v l).
Proof.
  intros HR. pose proof HR as [He Hn]. unfold ll_indexof, index_of. destruct (ll_n s =? 0) eqn:E.
  - apply Nat.eqb_eq in E. assert (Hl0 : l = []) by (destruct l; simpl in *; [auto|lia]). rewrite Hl0 in *. clear Hl0. reflexivity.
  - rewrite (ll_values_ok s l HR). reflexivity.
Qed.

Lemma RL_clear : RL ll_clear [].
Proof. split; reflexivity. Qed.

Lemma ll_sort_ok s l : RL s l -> exists s', ll_sort s = Ok s' /\ RL s' (sort_spec l).
Proof.
  intros HR. pose proof HR as [He Hn]. unfold ll_sort, sort_spec. destruct (ll_n s <? 2) eqn:E.
  - apply Nat.ltb_lt in E. exists s. split; auto. rewrite isort_small by lia. exact HR.
  - rewrite (ll_values_ok s l HR). simpl. apply (ll_add_ok (isort l) ll_clear [] RL_clear).
Qed.

Lemma ll_swap_ok i j s l : RL s l -> exists s', ll_swap i j s = Ok s' /\ RL s' (swap_at i j l).
Proof.
  intros HR. pose proof HR as [He Hn]. unfold ll_swap, swap_at. rewrite Hn.
  destruct (within i (length l)) eqn:Wi; destruct (within j (length l)) eqn:Wj; cbn [andb];
    try (exists s; split; [reflexivity|exact HR]).
  apply within_spec in Wi, Wj. destruct (i =? j)%Z eqn:E; cbn [negb].
  - apply Z.eqb_eq in E. subst j. exists s. split; auto. split; [|now rewrite swap_length].
    rewrite He. unfold swap. symmetry.
    apply nth_ext with (d := 0%Z) (d' := 0%Z); [now rewrite !upd_length|].
    intros n Hnl. rewrite !upd_length in Hnl.
    destruct (Nat.eq_dec (Z.to_nat i) n) as [->|Hne].
    + now rewrite nth_upd_same by (rewrite upd_length; lia).
    + now rewrite !nth_upd_other by auto.
  - rewrite He. rewrite p_first_some by lia. rewrite walk_next_ok by lia. eexists; split; [reflexivity|].
    split; cbn [ll_e ll_n]; auto. now rewrite swap_length.
Qed.

Lemma ll_splice_ok dbl vs s l k : RL s l -> k < length l ->
  exists s', ll_splice dbl vs s (ll_n s + length vs) (Some k, p_prev k) = Ok s' /\
             RL s' (firstn k l ++ vs ++ skipn k l).
Proof.
  intros [He Hn] Hk. unfold ll_splice. rewrite He. rewrite p_first_some by lia.
  destruct k as [|k]; simpl ptr_eqb.
  - destruct l as [|x t]; [simpl in Hk; lia|]. eexists; split; [reflexivity|].
    split; cbn [ll_e ll_n]; auto. rewrite Hn, !app_length. simpl. lia.
  - cbn [p_prev]. assert (E : (S k <? length l) = true) by (apply Nat.ltb_lt; lia). rewrite E.
    rewrite andb_false_r. eexists; split; [reflexivity|].
    split; cbn [ll_e ll_n]; auto. rewrite Hn, !app_length, firstn_length, skipn_length. lia.
Qed.

Lemma insert_at_in i vs l : within i (length l) = true ->
  insert_at i vs l = firstn (Z.to_nat i) l ++ vs ++ skipn (Z.to_nat i) l.
Proof.
  intros W. apply within_spec in W. unfold insert_at.
  assert (E : ((0 <=? i)%Z && (i <=? Z.of_nat (length l))%Z) = true).
  { apply andb_true_iff. rewrite !Z.leb_le. lia. }
  now rewrite E.
Qed.
Lemma insert_at_nil i l : insert_at i [] l = l.
Proof. unfold insert_at. destruct (_ && _); auto. simpl. apply firstn_skipn. Qed.
Lemma insert_at_out i vs l : within i (length l) = false -> (i =? Z.of_nat (length l))%Z = false -> insert_at i vs l = l.
Proof.
  intros W E. apply within_false in W. apply Z.eqb_neq in E. unfold insert_at.
  assert (F : ((0 <=? i)%Z && (i <=? Z.of_nat (length l))%Z) = false).
  { apply andb_false_iff. rewrite !Z.leb_gt. lia. }
  now rewrite F.
Qed.

Lemma dl_insert_ok i vs s l : RL s l -> exists s', dl_insert i vs s = Ok s' /\ RL s' (insert_at i vs l).
Proof.
  intros HR. pose proof HR as [He Hn]. unfold dl_insert. rewrite Hn.
  destruct (within i (length l)) eqn:W.
  - destruct vs as [|v t]; [exists s; now rewrite insert_at_nil|].
    rewrite insert_at_in by auto. apply within_spec in W. set (k := Z.to_nat i). assert (Hk : k < length l) by (unfold k; lia).
    assert (E : (if dl_backward (length l) k
                 then bind (walk_prev (length l - 1 - k) (p_last (ll_e s)))
                        (fun f => match f with None => Panic | Some j => Ok (f, p_prev j) end)
                 else walk_next_b (ll_e s) k (p_first (ll_e s)) None) = Ok (Some k, p_prev k)).
    { rewrite He. destruct (dl_backward (length l) k).
      - rewrite p_last_some by lia. rewrite walk_prev_ok by lia. simpl.
        replace (length l - 1 - (length l - 1 - k)) with k by lia. reflexivity.
      - rewrite p_first_some by lia. rewrite walk_next_b_ok by lia. simpl. destruct k; reflexivity. }
    rewrite E. cbn [bind]. rewrite <- Hn. apply ll_splice_ok; auto.
  - destruct (i =? Z.of_nat (length l))%Z eqn:E.
    + apply Z.eqb_eq in E. rewrite E, insert_at_end. now apply ll_add_ok.
    + exists s. now rewrite insert_at_out.
Qed.

Lemma sl_insert_ok i vs s l : RL s l -> exists s', sl_insert i vs s = Ok s' /\ RL s' (insert_at i vs l).
Proof.
  intros HR. pose proof HR as [He Hn]. unfold sl_insert. rewrite Hn.
  destruct (within i (length l)) eqn:W.
  - destruct vs as [|v t]; [exists s; now rewrite insert_at_nil|].
    rewrite insert_at_in by auto. apply within_spec in W. set (k := Z.to_nat i). assert (Hk : k < length l) by (unfold k; lia).
    rewrite He. rewrite p_first_some by lia. rewrite walk_next_b_ok by lia. cbn [bind].
    replace (match k with 0 => None | S k' => Some (0 + k') end) with (p_prev k) by (destruct k; reflexivity).
    rewrite <- Hn. apply ll_splice_ok; auto.
  - destruct (i =? Z.of_nat (length l))%Z eqn:E.
    + apply Z.eqb_eq in E. rewrite E, insert_at_end. now apply ll_add_ok.
    + exists s. now rewrite insert_at_out.
Qed.

Lemma ll_step_sim dbl s l o : RL s l ->
  RL (fst (ll_step dbl s o)) (fst (seq_step l o)) /\ snd (ll_step dbl s o) = snd (seq_step l o).
Proof.
  intros HR. pose proof HR as [He Hn].
  assert (HL : loc_ok (if dbl then dl_locate else sl_locate)).
  { destruct dbl; intros s0 l0 k0 R0 K0; [eapply dl_locate_ok|eapply sl_locate_ok]; eauto. }
  destruct o; cbn [ll_step seq_step fst snd].
  - destruct (ll_add_ok vs s l HR) as (s' & E & R'). rewrite E. simpl. auto.
  - destruct (ll_add_ok vs s l HR) as (s' & E & R'). rewrite E. simpl. auto.
  - destruct dbl.
    + destruct (dl_prepend_ok (rev vs) s l HR) as (s' & E & R'). rewrite E. simpl. rewrite rev_involutive in R'. auto.
    + destruct (sl_prepend_ok (rev vs) s l HR) as (s' & E & R'). rewrite E. simpl. rewrite rev_involutive in R'. auto.
  - destruct dbl.
    + destruct (dl_insert_ok i vs s l HR) as (s' & E & R'). rewrite E. simpl. auto.
    + destruct (sl_insert_ok i vs s l HR) as (s' & E & R'). rewrite E. simpl. auto.
  - destruct (ll_remove_ok _ HL i s l HR) as (s' & E & R'). rewrite E. simpl. auto.
  - destruct (ll_set_ok _ HL i v s l HR) as (s' & E & R'). rewrite E. simpl. auto.
  - destruct (ll_swap_ok i j s l HR) as (s' & E & R'). rewrite E. simpl. auto.
  - destruct (ll_sort_ok s l HR) as (s' & E & R'). rewrite E. simpl. auto.
  - split; [apply RL_clear|reflexivity].
  - rewrite (ll_get_ok _ HL i s l HR). simpl. auto.
  - rewrite (ll_contains_ok vs s l HR). auto.
  - rewrite (ll_indexof_ok v s l HR). simpl. auto.
  - rewrite (ll_values_ok s l HR). simpl. auto.
  - simpl. rewrite Hn. auto.
  - simpl. rewrite Hn. auto.
  - rewrite (mapM_ok _ (fun i => get_at i l)) by (intros; now apply ll_get_ok). simpl. rewrite Hn. auto.
  - rewrite (mapM_ok _ (fun v => index_of v l)) by (intros; now apply ll_indexof_ok). simpl. auto.
  - split; auto. do 2 f_equal. apply map_ext. intros v. now apply ll_contains_ok.
Qed.

Theorem dl_refines : forall ops, snd (run dl_step ll0 ops) = snd (run seq_step [] ops).
Proof.
  intros ops. apply (run_sim dl_step RL (ll_step_sim true) ops ll0 []). split; reflexivity.
Qed.
Theorem sl_refines : forall ops, snd (run sl_step ll0 ops) = snd (run seq_step [] ops).
Proof.
  intros ops. apply (run_sim sl_step RL (ll_step_sim false) ops ll0 []). split; reflexivity.
Qed.
