(* C07 model: structure/lists/{arraylist,doublylinkedlist,singlylinkedlist} with element type int.
   NO proofs in this file.

   The model is the model of the code WITH the prepared repairs 0015 (D14), 0017 (D16), 0018 (D17),
   0019/0020 (D18) applied; the unrepaired behaviour is demonstrated by the kind-2 judgement of Check.v,
   which does not depend on this file.

   ArrayList  = backing array [al_e] (len = cap always: every array comes from make(cap,cap) or []E{})
                + cached size [al_n]; growBy / shrink / resize arithmetic as in the code (the float32
                factors 2.0 and 0.25 are exact for every capacity below 2^24: 2*(c+n) and c/4); cells
                beyond size keep whatever the code leaves there (stale values after Remove).
                Every indexed read/write and every slice expression is bounds-checked: Panic.
   DList/SList = the chain first..last as a sequence + cached size; a pointer is [option nat] (position in
                the chain, None = nil); traversals take as many .next/.prev steps as the loops of the code do
                (direction test size-index < index, backwards from last at size-1), a step through nil is Panic.
   Sort         bcomparator.Sort delegates to sort.Sort (pdqsort, C10); with the int comparator the sorted
                result is unique, it is modelled by insertion sort [isort].
   Every operation returns the number of bytes it wrote to stdout (no print statement is left: 0). *)
From VF Require Export Common.Base.
Local Open Scope nat_scope.

(* ---------- operations and outputs (shared with Spec.v) ---------- *)
Inductive op :=
| OAdd (vs : list Z) | OAppend (vs : list Z) | OPrepend (vs : list Z)
| OInsert (i : Z) (vs : list Z) | ORemove (i : Z) | OSet (i v : Z) | OSwap (i j : Z) | OSort | OClear
| OGet (i : Z) | OContains (vs : list Z) | OIndexOf (v : Z) | OValues | OSize | OEmpty
(* aggregated queries used by the harness: Get i for every i in [-1, size]; IndexOf / Contains per value *)
| OGets | OIndexOfs (vs : list Z) | OContainsEach (vs : list Z).

Inductive res :=
| RUnit | RGet (v : Z) (ok : bool) | RBool (b : bool) | RInt (z : Z) | RList (l : list Z)
| RGets (l : list (Z * bool)) | RBools (l : list bool) | RPanic.

Definition out : Type := res * nat.      (* result, bytes written to stdout during the call *)

Inductive M (A : Type) := Ok (a : A) | Panic.
Arguments Ok {A}. Arguments Panic {A}.
Definition bind {A B} (m : M A) (f : A -> M B) : M B := match m with Ok a => f a | Panic => Panic end.

Definition within (i : Z) (n : nat) : bool := (0 <=? i)%Z && (i <? Z.of_nat n)%Z.
Definition zrange (lo : Z) (n : nat) : list Z := map (fun k => (lo + Z.of_nat k)%Z) (seq 0 n).

Fixpoint ins (x : Z) (l : list Z) : list Z :=
  match l with [] => [x] | y :: t => if (x <=? y)%Z then x :: l else y :: ins x t end.
Definition isort (l : list Z) : list Z := fold_right ins [] l.

Fixpoint index_from (v : Z) (l : list Z) (i : Z) : Z :=
  match l with [] => (-1)%Z | x :: t => if (x =? v)%Z then i else index_from v t (i + 1)%Z end.

Fixpoint mapM {A B} (f : A -> M B) (l : list A) : M (list B) :=
  match l with [] => Ok [] | a :: t => bind (f a) (fun b => bind (mapM f t) (fun bs => Ok (b :: bs))) end.

(* ---------- Go slices over one array (len = cap) ---------- *)
Definition load (e : list Z) (i : nat) : M Z := if i <? length e then Ok (nth i e 0%Z) else Panic.
Definition store (e : list Z) (i : nat) (v : Z) : M (list Z) := if i <? length e then Ok (upd e i v) else Panic.
(* e[lo:hi] *)
Definition slice (e : list Z) (lo hi : nat) : M (list Z) :=
  if (lo <=? hi) && (hi <=? length e) then Ok (firstn (hi - lo) (skipn lo e)) else Panic.
(* copy(e[dst:], src) *)
Definition blit (e : list Z) (dst : nat) (src : list Z) : M (list Z) :=
  if dst <=? length e then
    let k := Nat.min (length e - dst) (length src) in
    Ok (firstn dst e ++ firstn k src ++ skipn (dst + k) e)
  else Panic.

(* ================= arraylist ================= *)
Record al := { al_e : list Z; al_n : nat }.
Definition al0 : al := {| al_e := []; al_n := 0 |}.

(* resize(cap): newElements := make([]E, cap, cap); copy(newElements, l.elements) *)
Definition al_resize (c : nat) (e : list Z) : list Z := firstn c e ++ repeat 0%Z (c - length e).

(* growBy(n): if size+n >= cap { resize(int(2.0 * float32(cap+n))) } *)
Definition al_growby (n : nat) (a : al) : al :=
  let c := length (al_e a) in
  if c <=? al_n a + n then {| al_e := al_resize (2 * (c + n)) (al_e a); al_n := al_n a |} else a.

(* shrink(): if size <= int(float32(cap)*0.25) { resize(size) } *)
Definition al_shrink (a : al) : al :=
  let c := length (al_e a) in
  if al_n a <=? c / 4 then {| al_e := al_resize (al_n a) (al_e a); al_n := al_n a |} else a.

Fixpoint al_add_loop (vs : list Z) (e : list Z) (n : nat) : M al :=
  match vs with
  | [] => Ok {| al_e := e; al_n := n |}
  | v :: t => bind (store e n v) (fun e' => al_add_loop t e' (S n))
  end.
Definition al_add (vs : list Z) (a : al) : M al :=
  let a1 := al_growby (length vs) a in al_add_loop vs (al_e a1) (al_n a1).

Definition al_get (i : Z) (a : al) : M (Z * bool) :=
  if within i (al_n a) then bind (load (al_e a) (Z.to_nat i)) (fun v => Ok (v, true)) else Ok (0%Z, false).

Definition al_remove (i : Z) (a : al) : M al :=
  if within i (al_n a) then
    let k := Z.to_nat i in
    bind (store (al_e a) k 0%Z) (fun e1 =>                  (* l.elements[index] = l.zero *)
    bind (slice e1 (S k) (al_n a)) (fun src =>              (* l.elements[index+1:l.size] *)
    bind (blit e1 k src) (fun e2 =>                         (* copy(l.elements[index:], ...) *)
    Ok (al_shrink {| al_e := e2; al_n := al_n a - 1 |}))))
  else Ok a.

(* for index := 0; index < l.size; index++ { if elements[index] == v ... } *)
Fixpoint al_find (e : list Z) (k i : nat) (v : Z) : M bool :=
  match k with
  | O => Ok false
  | S k' => bind (load e i) (fun x => if (x =? v)%Z then Ok true else al_find e k' (S i) v)
  end.
Fixpoint al_contains (vs : list Z) (a : al) : M bool :=
  match vs with
  | [] => Ok true
  | v :: t => bind (al_find (al_e a) (al_n a) 0 v) (fun b => if b then al_contains t a else Ok false)
  end.

Definition al_values (a : al) : M (list Z) := slice (al_e a) 0 (al_n a).

(* repaired (0015): for index, element := range l.elements[:l.size] *)
Definition al_indexof (v : Z) (a : al) : M Z :=
  if al_n a =? 0 then Ok (-1)%Z else bind (slice (al_e a) 0 (al_n a)) (fun s => Ok (index_from v s 0%Z)).

Definition al_clear : al := {| al_e := []; al_n := 0 |}.

(* if len(l.elements) < 2 { return }; Sort(l.elements[:l.size], cmp) *)
Definition al_sort (a : al) : M al :=
  if length (al_e a) <? 2 then Ok a else
  bind (slice (al_e a) 0 (al_n a)) (fun s => Ok {| al_e := isort s ++ skipn (al_n a) (al_e a); al_n := al_n a |}).

Definition al_swap (i j : Z) (a : al) : M al :=
  if within i (al_n a) && within j (al_n a) then
    let ki := Z.to_nat i in let kj := Z.to_nat j in
    bind (load (al_e a) kj) (fun vj => bind (load (al_e a) ki) (fun vi =>
    bind (store (al_e a) ki vj) (fun e1 => bind (store e1 kj vi) (fun e2 =>
    Ok {| al_e := e2; al_n := al_n a |}))))
  else Ok a.

Definition al_insert (i : Z) (vs : list Z) (a : al) : M al :=
  if within i (al_n a) then
    let k := Z.to_nat i in
    let ln := length vs in
    let a1 := al_growby ln a in
    let n' := al_n a1 + ln in                                 (* l.size += ln *)
    bind (slice (al_e a1) k (n' - ln)) (fun src =>            (* l.elements[index:l.size-ln] *)
    bind (blit (al_e a1) (k + ln) src) (fun e2 =>             (* copy(l.elements[index+ln:], ...) *)
    bind (blit e2 k vs) (fun e3 =>                            (* copy(l.elements[index:], values) *)
    Ok {| al_e := e3; al_n := n' |})))
  else if (i =? Z.of_nat (al_n a))%Z then al_add vs a else Ok a.

Definition al_set (i v : Z) (a : al) : M al :=
  if within i (al_n a) then
    bind (store (al_e a) (Z.to_nat i) v) (fun e' => Ok {| al_e := e'; al_n := al_n a |})
  else if (i =? Z.of_nat (al_n a))%Z then al_add [v] a else Ok a.

(* ---------- one step: state, (result, stdout bytes). A panic leaves the model state where it was. ---------- *)
Definition mut {S} (s : S) (m : M S) : S * out :=
  match m with Ok s' => (s', (RUnit, 0)) | Panic => (s, (RPanic, 0)) end.
Definition qry {S A} (s : S) (m : M A) (f : A -> res) : S * out :=
  match m with Ok a => (s, (f a, 0)) | Panic => (s, (RPanic, 0)) end.

Definition al_step (a : al) (o : op) : al * out :=
  match o with
  | OAdd vs | OAppend vs => mut a (al_add vs a)          (* arraylist has no Append: the harness calls Add *)
  | OPrepend vs => mut a (al_insert 0 vs a)              (* arraylist has no Prepend: the harness calls Insert(0, ...) *)
  | OInsert i vs => mut a (al_insert i vs a)
  | ORemove i => mut a (al_remove i a)
  | OSet i v => mut a (al_set i v a)
  | OSwap i j => mut a (al_swap i j a)
  | OSort => mut a (al_sort a)
  | OClear => (al_clear, (RUnit, 0))
  | OGet i => qry a (al_get i a) (fun r => RGet (fst r) (snd r))
  | OContains vs => qry a (al_contains vs a) RBool
  | OIndexOf v => qry a (al_indexof v a) RInt
  | OValues => qry a (al_values a) RList
  | OSize => (a, (RInt (Z.of_nat (al_n a)), 0))
  | OEmpty => (a, (RBool (al_n a =? 0), 0))
  | OGets => qry a (mapM (fun i => al_get i a) (zrange (-1) (al_n a + 2))) RGets
  | OIndexOfs vs => qry a (mapM (fun v => al_indexof v a) vs) RList
  | OContainsEach vs => qry a (mapM (fun v => al_contains [v] a) vs) RBools
  end.

(* ================= linked lists: chain + cached size ================= *)
Definition ptr := option nat.
Definition ptr_eqb (p q : ptr) : bool :=
  match p, q with Some a, Some b => a =? b | None, None => true | _, _ => false end.
Definition p_first (e : list Z) : ptr := match e with [] => None | _ => Some 0 end.
Definition p_last (e : list Z) : ptr := match e with [] => None | _ => Some (length e - 1) end.
Definition p_next (e : list Z) (i : nat) : ptr := if S i <? length e then Some (S i) else None.
Definition p_prev (i : nat) : ptr := match i with O => None | S k => Some k end.

(* k times: element = element.next / element.prev *)
Fixpoint walk_next (e : list Z) (k : nat) (p : ptr) : M ptr :=
  match k with
  | O => Ok p
  | S k' => match p with None => Panic | Some i => walk_next e k' (p_next e i) end
  end.
Fixpoint walk_prev (k : nat) (p : ptr) : M ptr :=
  match k with
  | O => Ok p
  | S k' => match p with None => Panic | Some i => walk_prev k' (p_prev i) end
  end.
(* forward walk remembering beforeElement: returns (found, before) *)
Fixpoint walk_next_b (e : list Z) (k : nat) (p b : ptr) : M (ptr * ptr) :=
  match k with
  | O => Ok (p, b)
  | S k' => match p with None => Panic | Some i => walk_next_b e k' (p_next e i) p end
  end.
Definition deref (e : list Z) (p : ptr) : M Z := match p with None => Panic | Some i => Ok (nth i e 0%Z) end.

Fixpoint remove_nth (i : nat) (l : list Z) : list Z :=
  match l, i with [], _ => [] | _ :: t, O => t | a :: t, S k => a :: remove_nth k t end.

Record ll := { ll_e : list Z; ll_n : nat }.
Definition ll0 : ll := {| ll_e := []; ll_n := 0 |}.

(* Add: if size == 0 { first = new; last = new } else { last.next = new; last = new }; size++ *)
Fixpoint ll_add (vs : list Z) (s : ll) : M ll :=
  match vs with
  | [] => Ok s
  | v :: t =>
    if ll_n s =? 0 then ll_add t {| ll_e := [v]; ll_n := S (ll_n s) |}
    else match ll_e s with
         | [] => Panic                                             (* list.last.next on nil *)
         | _ => ll_add t {| ll_e := ll_e s ++ [v]; ll_n := S (ll_n s) |}
         end
  end.

(* doubly linked Prepend, values taken in reverse: if size == 0 {...} else { first.prev = new; first = new } *)
Fixpoint dl_prepend_rev (rvs : list Z) (s : ll) : M ll :=
  match rvs with
  | [] => Ok s
  | v :: t =>
    if ll_n s =? 0 then dl_prepend_rev t {| ll_e := [v]; ll_n := S (ll_n s) |}
    else match ll_e s with
         | [] => Panic
         | _ => dl_prepend_rev t {| ll_e := v :: ll_e s; ll_n := S (ll_n s) |}
         end
  end.
(* singly linked Prepend: new.next = first; first = new; if size == 0 { last = new }; size++ *)
Fixpoint sl_prepend_rev (rvs : list Z) (s : ll) : M ll :=
  match rvs with
  | [] => Ok s
  | v :: t => sl_prepend_rev t {| ll_e := v :: ll_e s; ll_n := S (ll_n s) |}
  end.

(* the traversal shared by doubly linked Get / Remove / Set / Insert:
   if size-index < index { from last, e := size-1; e != index; e-- } else { from first, e := 0; e != index; e++ } *)
Definition dl_backward (n k : nat) : bool := (Z.of_nat n - Z.of_nat k <? Z.of_nat k)%Z.
Definition dl_locate (s : ll) (k : nat) : M ptr :=
  if dl_backward (ll_n s) k then walk_prev (ll_n s - 1 - k) (p_last (ll_e s))
  else walk_next (ll_e s) k (p_first (ll_e s)).
Definition sl_locate (s : ll) (k : nat) : M ptr := walk_next (ll_e s) k (p_first (ll_e s)).

Definition ll_get (loc : ll -> nat -> M ptr) (i : Z) (s : ll) : M (Z * bool) :=
  if within i (ll_n s) then
    bind (loc s (Z.to_nat i)) (fun p => bind (deref (ll_e s) p) (fun v => Ok (v, true)))
  else Ok (0%Z, false).

Definition ll_clear : ll := {| ll_e := []; ll_n := 0 |}.

(* Remove: out of range -> return; size == 1 -> Clear; locate; unlink (dereferences the element); size-- *)
Definition ll_remove (loc : ll -> nat -> M ptr) (i : Z) (s : ll) : M ll :=
  if within i (ll_n s) then
    if ll_n s =? 1 then Ok ll_clear else
    bind (loc s (Z.to_nat i)) (fun p =>
      match p with
      | None => Panic
      | Some j => Ok {| ll_e := remove_nth j (ll_e s); ll_n := ll_n s - 1 |}
      end)
  else Ok s.

(* Contains: no values -> true; size == 0 -> false; walk the chain for every value *)
Definition ll_contains (vs : list Z) (s : ll) : bool :=
  match vs with
  | [] => true
  | _ => if ll_n s =? 0 then false else forallb (fun v => existsb (fun x => (x =? v)%Z) (ll_e s)) vs
  end.

(* Values: make([]E, size); for e, element := 0, first; element != nil; ... { values[e] = element.value } *)
Definition ll_values (s : ll) : M (list Z) :=
  if length (ll_e s) <=? ll_n s then Ok (ll_e s ++ repeat 0%Z (ll_n s - length (ll_e s))) else Panic.

Definition ll_indexof (v : Z) (s : ll) : M Z :=
  if ll_n s =? 0 then Ok (-1)%Z else bind (ll_values s) (fun l => Ok (index_from v l 0%Z)).

(* Sort: size < 2 -> return; values := Values(); Sort(values); Clear(); Add(values...) *)
Definition ll_sort (s : ll) : M ll :=
  if ll_n s <? 2 then Ok s else bind (ll_values s) (fun l => ll_add (isort l) ll_clear).

(* Swap: both in range and i != j: walk from first until both elements are found, exchange the values *)
Definition ll_swap (i j : Z) (s : ll) : M ll :=
  if within i (ll_n s) && within j (ll_n s) && negb (i =? j)%Z then
    let ki := Z.to_nat i in let kj := Z.to_nat j in
    bind (walk_next (ll_e s) (Nat.max ki kj) (p_first (ll_e s))) (fun p =>
      match p with
      | None => Panic
      | Some _ => Ok {| ll_e := swap 0%Z (ll_e s) ki kj; ll_n := ll_n s |}
      end)
  else Ok s.

Definition ll_set (loc : ll -> nat -> M ptr) (i v : Z) (s : ll) : M ll :=
  if within i (ll_n s) then
    bind (loc s (Z.to_nat i)) (fun p =>
      match p with
      | None => Panic                                                 (* foundElement.value = value on nil *)
      | Some j => Ok {| ll_e := upd (ll_e s) j v; ll_n := ll_n s |}
      end)
  else if (i =? Z.of_nat (ll_n s))%Z then ll_add [v] s else Ok s.

(* the splice of both Insert methods, after (found, before) are known and size has been increased.
   The doubly linked version also writes oldNextElement.prev (a dereference), the singly linked one does not. *)
Definition ll_splice (dbl : bool) (vs : list Z) (s : ll) (n' : nat) (fb : ptr * ptr) : M ll :=
  let '(f, b) := fb in
  if ptr_eqb f (p_first (ll_e s)) then
    match ll_e s with
    | [] => if dbl then Panic else Ok {| ll_e := vs; ll_n := n' |}   (* oldNextElement (= first) is nil *)
    | _ => Ok {| ll_e := vs ++ ll_e s; ll_n := n' |}
    end
  else match b with
       | None => Panic                                                (* beforeElement.next on nil *)
       | Some bi =>
         if dbl && negb (S bi <? length (ll_e s)) then Panic          (* oldNextElement.prev on nil *)
         else Ok {| ll_e := firstn (S bi) (ll_e s) ++ vs ++ skipn (S bi) (ll_e s); ll_n := n' |}
       end.

(* doubly linked Insert, repaired (0018: position located before the size grows, before = found.prev;
   0019: an empty batch returns at once) *)
Definition dl_insert (i : Z) (vs : list Z) (s : ll) : M ll :=
  if within i (ll_n s) then
    match vs with
    | [] => Ok s
    | _ =>
      let k := Z.to_nat i in
      bind (if dl_backward (ll_n s) k then
              bind (walk_prev (ll_n s - 1 - k) (p_last (ll_e s))) (fun f =>
                match f with None => Panic | Some j => Ok (f, p_prev j) end)
            else walk_next_b (ll_e s) k (p_first (ll_e s)) None)
           (ll_splice true vs s (ll_n s + length vs))
    end
  else if (i =? Z.of_nat (ll_n s))%Z then ll_add vs s else Ok s.

(* singly linked Insert, repaired (0020) *)
Definition sl_insert (i : Z) (vs : list Z) (s : ll) : M ll :=
  if within i (ll_n s) then
    match vs with
    | [] => Ok s
    | _ =>
      bind (walk_next_b (ll_e s) (Z.to_nat i) (p_first (ll_e s)) None)
           (ll_splice false vs s (ll_n s + length vs))
    end
  else if (i =? Z.of_nat (ll_n s))%Z then ll_add vs s else Ok s.

Definition ll_step (dbl : bool) (s : ll) (o : op) : ll * out :=
  let loc := if dbl then dl_locate else sl_locate in
  match o with
  | OAdd vs | OAppend vs => mut s (ll_add vs s)
  | OPrepend vs => mut s (if dbl then dl_prepend_rev (rev vs) s else sl_prepend_rev (rev vs) s)
  | OInsert i vs => mut s (if dbl then dl_insert i vs s else sl_insert i vs s)
  | ORemove i => mut s (ll_remove loc i s)
  | OSet i v => mut s (ll_set loc i v s)
  | OSwap i j => mut s (ll_swap i j s)
  | OSort => mut s (ll_sort s)
  | OClear => (ll_clear, (RUnit, 0))
  | OGet i => qry s (ll_get loc i s) (fun r => RGet (fst r) (snd r))
  | OContains vs => (s, (RBool (ll_contains vs s), 0))
  | OIndexOf v => qry s (ll_indexof v s) RInt
  | OValues => qry s (ll_values s) RList
  | OSize => (s, (RInt (Z.of_nat (ll_n s)), 0))
  | OEmpty => (s, (RBool (ll_n s =? 0), 0))
  | OGets => qry s (mapM (fun i => ll_get loc i s) (zrange (-1) (ll_n s + 2))) RGets
  | OIndexOfs vs => qry s (mapM (fun v => ll_indexof v s) vs) RList
  | OContainsEach vs => (s, (RBools (map (fun v => ll_contains [v] s) vs), 0))
  end.

Definition dl_step := ll_step true.
Definition sl_step := ll_step false.

(* run: fold a step function, collect the outputs *)
Fixpoint run {S} (step : S -> op -> S * out) (s : S) (ops : list op) : S * list out :=
  match ops with
  | [] => (s, [])
  | o :: t => let '(s1, r) := step s o in let '(s2, rs) := run step s1 t in (s2, r :: rs)
  end.
