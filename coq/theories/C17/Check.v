(* C17 correspondence checker *)
From VF Require Import C17.Cost C17.BTCost C17.SkipCost C01.Order C01.BTree.
From VF Require C01.RB C01.AVL.
Local Open Scope Z_scope.

Inductive ckind := KRB | KAVL | KBT (m : nat).
Inductive shape := SBin (t : BinTree.tree Z Z unit) | SBT (t : BTree.node Z Z) | SBTEmpty
| SRB (t : RB.tree Z Z) | SAVL (t : AVL.tree Z Z).                   (* with colours / balance factors: CBinOps *)
Inductive probe := PGet (k : Z) | PFloor (k : Z) | PCeiling (k : Z) | PPutPresent (k : Z) | PRemoveAbsent (k : Z).
Inductive bop := BGet | BPut | BRemove.

Inductive mprobe := MPut (k : Z) | MRemove (k : Z) | MGet (k : Z) | MFinal (s : shape).
Inductive skind := SKZ | SKM | SKS.                                   (* zset | skipmap | skipset *)
Inductive sprobe :=
| SLookup (k : Z)                 (* zset.Rank / RevRank | skipmap.Load / Get | skipset.ContainsB / Contains *)
| SInsert (k : Z) (h : nat)       (* skipmap.Store / Put | skipset.AddB / Add; h = level of the node created, 0 = none *)
| SLoS (k : Z) (h : nat)          (* skipmap.LoadOrStore / LoadOrStoreLazy; h likewise *)
| SAdd (s k : Z) (h : nat)        (* zset.AddB(s, k) / Add(k) (s = 0); h = level of k's node afterwards *)
| SIncr (d k : Z) (h : nat)       (* zset.IncrBy(d, k); h likewise *)
| SDelete (k : Z)                 (* zset.RemoveB / Remove | skipmap.Delete / LoadAndDelete / Remove | skipset.RemoveB / Remove *)
| SNoCmp                          (* zset.Score / Contains, skipmap.Range (stopped at the first element) / Len: no comparator call *)
| SFinal (l : list snode).

Inductive case :=
| CShape (k : ckind) (s : shape) (probes : list (probe * nat))
| CBound (k : ckind) (obs : list (bop * Z * Z))                     (* operation, size before, comparator calls *)
(* zset: n, highestLevel, node heights in level-0 order, nodes reachable on each level's chain from the header,
   three batches of comparator-call counts *)
| CSkip (n : Z) (highest : nat) (heights : list nat) (reach : list nat) (batches : list (list nat))
(* skipmap / skipset: per level-0 node the number of lanes it is linked on, and its level field *)
| CSkipLanes (n : Z) (highest : nat) (lanes levels : list Z) (batches : list (list nat))
(* B-tree of order m: dumped shape, then mutating operations, each with its comparator-call count; the model tree is
   carried along by the C01 model and compared with a second dump at the end (MFinal) *)
| CBTOps (m : nat) (s : shape) (ops : list (mprobe * nat))
(* red-black (SRB) / AVL (SAVL) tree: the same with the C01 models RB.put / RB.remove / AVL.put / AVL.remove *)
| CBinOps (s : shape) (ops : list (mprobe * nat))
(* skip lists: highestLevel, level-0 scores (zset; [] = all zero) and keys, node heights (level fields), lanes each
   node is actually linked on; then operations, each with (comparator calls, highestLevel afterwards); SFinal
   carries a second dump *)
| CSkipOps (k : skind) (highest : nat) (scores keys : list Z) (heights lanes : list nat) (ops : list (sprobe * nat * nat))
(* batch averages after a population through one entry point: n, then batches (factor, counts): the average of a
   batch must be at most factor * (4*log2(n+2)+16) -- factor 2 for the operations that search twice
   (zset score updates that move the member: UpdateScore's search + Insert's search) *)
| CSkipAvg (n : Z) (batches : list (Z * list nat)).

Definition key_of (p : probe) : Z :=
  match p with PGet k | PFloor k | PCeiling k | PPutPresent k | PRemoveAbsent k => k end.

Fixpoint bin_count {A} (t : BinTree.tree Z Z A) : nat :=
  match t with E => O | T _ l _ _ r => S (bin_count l + bin_count r) end.
Fixpoint bt_count (fuel : nat) (t : BTree.node Z Z) : nat :=
  match fuel with
  | O => O
  | S f => let '(Node es cs) := t in (length es + fold_right (fun c a => bt_count f c + a) 0 cs)%nat
  end.

(* model cost of a probe on the dumped shape *)
Definition model_cost (s : shape) (p : probe) : nat :=
  match s with
  | SBin t => path_cost Z Z unit zcmp (key_of p) t
  | SBT t => get_cost Z Z zcmp 64 (key_of p) t
  | SBTEmpty => O
  | SRB t => path_cost Z Z RB.color zcmp (key_of p) t
  | SAVL t => path_cost Z Z Z zcmp (key_of p) t
  end.

(* the proved bounds (C17.Props): comparator calls of one point operation on a container holding n keys *)
Definition zlog2n (n : Z) : Z := Z.log2 (n + 1).
Definition bound_get (k : ckind) (n : Z) : Z :=
  match k with
  | KRB => 2 * zlog2n n + 1
  | KAVL => 2 * zlog2n n + 1
  | KBT m => zlog2n n * (Z.log2 (Z.of_nat m - 1) + 1)
  end.
(* Put / Remove: red-black and AVL make no comparison beyond the search path; the B-tree re-searches the parent once
   per split (Put: at most 2 searches per level) and twice per rebalanced level (Remove: at most 3 searches per
   level): the proved bounds C17_bt_put_cost / C17_bt_remove_cost *)
Definition bound_op (k : ckind) (o : bop) (n : Z) : Z :=
  match k, o with
  | KBT _, BPut => 2 * bound_get k n
  | KBT _, BRemove => 3 * bound_get k n
  | _, _ => bound_get k n
  end.

Definition shape_size (s : shape) : Z :=
  match s with
  | SBin t => Z.of_nat (bin_count t) | SBT t => Z.of_nat (bt_count 64 t) | SBTEmpty => 0
  | SRB t => Z.of_nat (bin_count t) | SAVL t => Z.of_nat (bin_count t)
  end.

Definition probe_kind (k : ckind) (s : shape) (x : probe * nat) : nat :=
  let '(p, c) := x in
  kind_of (Nat.eqb c (model_cost s p)) (Z.of_nat c <=? bound_get k (shape_size s)).

Definition bound_kind (k : ckind) (x : bop * Z * Z) : nat :=
  let '(o, n, c) := x in kind_of true (c <=? bound_op k o n).

(* skip lists *)
Definition count_gt (i : nat) (hs : list nat) : nat := length (filter (fun h => Nat.ltb i h) hs).
(* lanes: the level-i chain from the header reaches exactly the nodes of height > i, for every i < highest;
   no node is taller than highest *)
Fixpoint lanes_ok (i : nat) (hs reach : list nat) : bool :=
  match reach with
  | [] => true
  | r :: t => Nat.eqb r (count_gt i hs) && lanes_ok (S i) hs t
  end.
Definition zset_lanes_b (highest : nat) (hs reach : list nat) : bool :=
  forallb (fun h => Nat.leb h highest && Nat.leb 1 h) hs
  && lanes_ok 0 hs reach && Nat.leb (length (filter (fun r => negb (Nat.eqb r 0)) reach)) highest
  && Nat.eqb (count_gt (length reach) hs) 0.
Definition skip_lanes_b (highest : nat) (lanes levels : list Z) : bool :=
  list_eqb Z.eqb lanes levels && forallb (fun l => (1 <=? l) && (l <=? Z.of_nat highest)) levels.

Definition sum_nat (l : list nat) : Z := fold_right (fun x a => Z.of_nat x + a) 0 l.
(* batch average at most 4*log2(n+2) + 16 comparator calls (expected cost of a p = 1/4 skip list is about
   2*log2 n; the constants leave a wide margin, see DESIGN C17) *)
Definition avg_ok (n : Z) (batch : list nat) : bool :=
  sum_nat batch <=? (4 * Z.log2 (n + 2) + 16) * Z.of_nat (length batch).

Definition agree (b : bool) : nat := kind_of b true.

(* ---- B-tree, mutating operations on a carried model tree ---- *)
Fixpoint node_eqb (fuel : nat) (a b : BTree.node Z Z) : bool :=
  match fuel with
  | O => false
  | S f => let '(Node ea ca) := a in let '(Node eb cb) := b in
           list_eqb (fun x y => (fst x =? fst y) && (snd x =? snd y)) ea eb && list_eqb (node_eqb f) ca cb
  end.
Definition bt_root (s : shape) : option (BTree.node Z Z) := match s with SBT t => Some t | _ => None end.
Definition root_count (r : option (BTree.node Z Z)) : Z :=
  match r with Some t => Z.of_nat (bt_count 64 t) | None => 0 end.
Definition bt_step (m : nat) (st : BTree.state Z Z) (x : mprobe * nat) : BTree.state Z Z * nat :=
  let '(p, c) := x in
  let r := BTree.root st in
  let n := root_count r in
  match p with
  | MPut k => (BTree.put Z Z zcmp m k k st,
               kind_of (Nat.eqb c (put_cost Z Z zcmp m r k k)) (Z.of_nat c <=? bound_op (KBT m) BPut n))
  | MRemove k => (BTree.remove Z Z zcmp m k st,
                  kind_of (Nat.eqb c (remove_cost Z Z zcmp m r k)) (Z.of_nat c <=? bound_op (KBT m) BRemove n))
  | MGet k => (st, kind_of (Nat.eqb c (match r with Some t => get_cost Z Z zcmp 64 k t | None => O end))
                           (Z.of_nat c <=? bound_op (KBT m) BGet n))
  | MFinal s => (st, kind_of (negb (BTree.stuck st) && option_eqb (node_eqb 64) r (bt_root s)) true)
  end.

(* ---- red-black / AVL, mutating operations on a carried model tree: every comparison is on the search path ---- *)
Fixpoint tree_eqb {A} (aeqb : A -> A -> bool) (a b : BinTree.tree Z Z A) : bool :=
  match a, b with
  | E, E => true
  | T x l k v r, T x' l' k' v' r' => aeqb x x' && (k =? k') && (v =? v') && tree_eqb aeqb l l' && tree_eqb aeqb r r'
  | _, _ => false
  end.
Definition color_eqb (a b : RB.color) : bool :=
  match a, b with RB.R, RB.R | RB.B, RB.B => true | _, _ => false end.
Definition bin_kinds (c model : nat) (bound : Z) : nat := kind_of (Nat.eqb c model) (Z.of_nat c <=? bound).
Definition bin_step (st : shape) (x : mprobe * nat) : shape * nat :=
  let '(p, c) := x in
  match st with
  | SRB t =>
      let b := bound_get KRB (Z.of_nat (bin_count t)) in
      match p with
      | MPut k => (SRB (RB.put Z Z zcmp k k t), bin_kinds c (rb_put_cost Z Z RB.color zcmp k t) b)
      | MRemove k => (SRB (if RB.is_some (BinTree.lookup zcmp k t) then RB.remove Z Z zcmp k t else t),
                      bin_kinds c (path_cost Z Z RB.color zcmp k t) b)
      | MGet k => (st, bin_kinds c (path_cost Z Z RB.color zcmp k t) b)
      | MFinal (SRB t') => (st, agree (tree_eqb color_eqb t t'))
      | MFinal _ => (st, 1%nat)
      end
  | SAVL t =>
      let b := bound_get KAVL (Z.of_nat (bin_count t)) in
      match p with
      | MPut k => (SAVL (fst (AVL.put Z Z zcmp k k t)), bin_kinds c (path_cost Z Z Z zcmp k t) b)
      | MRemove k => (SAVL (fst (AVL.remove Z Z zcmp k t)), bin_kinds c (path_cost Z Z Z zcmp k t) b)
      | MGet k => (st, bin_kinds c (path_cost Z Z Z zcmp k t) b)
      | MFinal (SAVL t') => (st, agree (tree_eqb Z.eqb t t'))
      | MFinal _ => (st, 1%nat)
      end
  | _ => (st, 1%nat)
  end.

(* ---- skip lists, operations on a carried level-0 sequence ---- *)
Definition snode_eqb (a b : snode) : bool :=
  (sscore a =? sscore b) && (skey a =? skey b) && Nat.eqb (sheight a) (sheight b).
Fixpoint sk_find (k : Z) (l : list snode) : option snode :=
  match l with [] => None | y :: r => if skey y =? k then Some y else sk_find k r end.
(* where Insert's search ends: behind every node that is lessThan (score, key) *)
Fixpoint sk_ins (y : snode) (l : list snode) : list snode :=
  match l with [] => [y] | z :: r => if zlt (sscore y) (skey y) z then z :: sk_ins y r else y :: l end.
Fixpoint sk_del (k : Z) (l : list snode) : list snode :=
  match l with [] => [] | z :: r => if skey z =? k then r else z :: sk_del k r end.
(* the nodes before k (nearest first), k's node, the nodes behind it *)
Fixpoint sk_split (k : Z) (l pre : list snode) : list snode * option snode * list snode :=
  match l with
  | [] => (pre, None, [])
  | y :: r => if skey y =? k then (pre, Some y, r) else sk_split k r (y :: pre)
  end.
(* zset deleteNode:  for highestLevel > 1 && header.next(highestLevel-1) == nil { highestLevel-- } *)
Fixpoint ztrim (l : list snode) (h : nat) : nat :=
  match h with
  | S (S _ as h1) => if existsb (fun y => Nat.ltb h1 (sheight y)) l then h else ztrim l h1
  | _ => h
  end.
Definition raise (hi h : nat) : nat := if Nat.ltb hi h then h else hi.

Definition sk_state := (list snode * nat)%type.
(* zset list.Insert(s, k) of a fresh member; h = the level randomLevel drew (read off the dump afterwards) *)
Definition z_insert (st : sk_state) (s k : Z) (h c ha : nat) : sk_state * nat :=
  let '(l, hi) := st in
  let hi' := raise hi h in
  ((sk_ins (s, k, h) l, hi'), agree (Nat.eqb c (z_search_cost hi l s k) && Nat.leb 1 h && Nat.eqb ha hi')).
(* zset list.UpdateScore(old, k, new): search by (old, k); in place when the neighbours allow it
   ((prev == nil || prev.score < new) && (next == nil || next.score > new)), else deleteNode + Insert(new, k) *)
Definition z_update (st : sk_state) (k new : Z) (h c ha : nat) : sk_state * nat :=
  let '(l, hi) := st in
  match sk_split k l [] with
  | (pre, Some x, post) =>
      let c1 := z_search_cost hi l (sscore x) k in
      let fast := match pre with [] => true | p :: _ => sscore p <? new end
                  && match post with [] => true | nx :: _ => new <? sscore nx end in
      if fast then ((rev_append pre ((new, k, sheight x) :: post), hi),
                    agree (Nat.eqb c c1 && Nat.eqb h (sheight x) && Nat.eqb ha hi))
      else let l' := rev_append pre post in
           let hi' := ztrim l' hi in
           let hi'' := raise hi' h in
           ((sk_ins (new, k, h) l', hi''),
            agree (Nat.eqb c (c1 + z_search_cost hi' l' new k) && Nat.leb 1 h && Nat.eqb ha hi''))
  | _ => (st, 1%nat)
  end.

Definition sk_step (kd : skind) (st : sk_state) (x : sprobe * nat * nat) : sk_state * nat :=
  let '(p, c, ha) := x in
  let '(l, hi) := st in
  let same := Nat.eqb ha hi in
  match p with
  | SFinal f => (st, agree (list_eqb snode_eqb l f && same))
  | SNoCmp => (st, agree (Nat.eqb c O && same))
  | SLookup k =>
      match kd with
      | SKZ => (st, agree (Nat.eqb c (match sk_find k l with Some y => z_rank_cost hi l (sscore y) k | None => O end) && same))
      | _ => (st, agree (Nat.eqb c (m_find_cost hi l k) && same))
      end
  | SAdd s k h =>
      match kd with
      | SKZ => match sk_find k l with
               | None => z_insert st s k h c ha
               | Some y => if sscore y =? s then (st, agree (Nat.eqb c O && Nat.eqb h (sheight y) && same))   (* same score: nothing *)
                           else z_update st k s h c ha
               end
      | _ => (st, 1%nat)
      end
  | SIncr d k h =>
      match kd with
      | SKZ => match sk_find k l with
               | None => z_insert st d k h c ha
               | Some y => z_update st k (sscore y + d) h c ha          (* IncrBy always goes through UpdateScore *)
               end
      | _ => (st, 1%nat)
      end
  | SInsert k h =>
      match kd with
      | SKZ => (st, 1%nat)
      | _ =>
          (* Store / AddB draw the level and raise highestLevel BEFORE searching; when the key is present the level
             drawn is visible only through highestLevel afterwards *)
          match sk_find k l with
          | Some _ => ((l, ha), agree (Nat.leb hi ha && Nat.eqb h O && Nat.eqb c (m_find_cost ha l k)))
          | None => ((sk_ins (0, k, h) l, ha),
                     agree (Nat.leb 1 h && Nat.eqb ha (Nat.max hi h) && Nat.eqb c (m_find_cost ha l k)))
          end
      end
  | SLoS k h =>
      match kd with
      | SKM =>
          (* LoadOrStore(Lazy): search with the highestLevel read at entry; only when the key is absent the level is
             drawn, and when it exceeds that highestLevel the search is repeated with the raised one *)
          match sk_find k l with
          | Some _ => (st, agree (Nat.eqb h O && Nat.eqb c (m_find_cost hi l k) && same))
          | None => let hi' := Nat.max hi h in
                    ((sk_ins (0, k, h) l, hi'),
                     agree (Nat.leb 1 h && Nat.eqb ha hi'
                            && Nat.eqb c (m_find_cost hi l k + if Nat.ltb hi h then m_find_cost h l k else O)))
          end
      | _ => (st, 1%nat)
      end
  | SDelete k =>
      match kd with
      | SKZ =>
          match sk_find k l with
          | Some y => let l' := sk_del k l in let hi' := ztrim l' hi in
                      ((l', hi'), agree (Nat.eqb c (z_search_cost hi l (sscore y) k) && Nat.eqb ha hi'))
          | None => (st, agree (Nat.eqb c O && same))
          end
      | _ => ((sk_del k l, hi), agree (Nat.eqb c (m_del_cost hi l k) && same))
      end
  end.
Fixpoint mk_nodes (scores keys : list Z) (hs : list nat) : list snode :=
  match keys, hs with
  | k :: kr, h :: hr => (hd 0 scores, k, h) :: mk_nodes (tl scores) kr hr
  | _, _ => []
  end.
(* structure of the dump: every node is linked on exactly the lanes 0..level-1 and 1 <= level <= highestLevel *)
Definition sk_struct_b (highest : nat) (keys : list Z) (heights lanes : list nat) : bool :=
  list_eqb Nat.eqb lanes heights && Nat.eqb (length keys) (length heights)
  && forallb (fun h => Nat.leb 1 h && Nat.leb h highest) heights.

Definition check_case (c : case) : nat :=
  match c with
  | CShape k s probes => scan (fun (_ : unit) x => (tt, probe_kind k s x)) tt probes 0
  | CBound k obs => scan (fun (_ : unit) x => (tt, bound_kind k x)) tt obs 0
  | CSkip n hi hs reach batches =>
      if negb (zset_lanes_b hi hs reach) then 1%nat      (* step 0: structure (kind 1) *)
      else scan (fun (_ : unit) b => (tt, kind_of true (avg_ok n b))) tt batches 1
  | CSkipLanes n hi lanes levels batches =>
      if negb (skip_lanes_b hi lanes levels) then 1%nat
      else scan (fun (_ : unit) b => (tt, kind_of true (avg_ok n b))) tt batches 1
  | CBTOps m s ops => scan (bt_step m) (BTree.mkState (bt_root s) 0 false) ops 0
  | CBinOps s ops => scan bin_step s ops 0
  | CSkipOps kd hi scores keys hs lanes ops =>
      if negb (sk_struct_b hi keys hs lanes) then 1%nat
      else scan (sk_step kd) (mk_nodes scores keys hs, hi) ops 1
  | CSkipAvg n batches =>
      scan (fun (_ : unit) b => (tt, kind_of true (sum_nat (snd b) <=? fst b * (4 * Z.log2 (n + 2) + 16) * Z.of_nat (length (snd b)))))
           tt batches 0
  end.

Definition mismatches (cs : list case) : list (nat * nat) := find_bad check_case cs.
