(* C17 correspondence checker *)
From VF Require Import C17.Cost C01.Order C01.BTree.
Local Open Scope Z_scope.

Inductive ckind := KRB | KAVL | KBT (m : nat).
Inductive shape := SBin (t : BinTree.tree Z Z unit) | SBT (t : BTree.node Z Z) | SBTEmpty.
Inductive probe := PGet (k : Z) | PFloor (k : Z) | PCeiling (k : Z) | PPutPresent (k : Z) | PRemoveAbsent (k : Z).
Inductive bop := BGet | BPut | BRemove.

Inductive case :=
| CShape (k : ckind) (s : shape) (probes : list (probe * nat))
| CBound (k : ckind) (obs : list (bop * Z * Z))                     (* operation, size before, comparator calls *)
(* zset: n, highestLevel, node heights in level-0 order, nodes reachable on each level's chain from the header,
   three batches of comparator-call counts *)
| CSkip (n : Z) (highest : nat) (heights : list nat) (reach : list nat) (batches : list (list nat))
(* skipmap / skipset: per level-0 node the number of lanes it is linked on, and its level field *)
| CSkipLanes (n : Z) (highest : nat) (lanes levels : list Z) (batches : list (list nat)).

Definition key_of (p : probe) : Z :=
  match p with PGet k | PFloor k | PCeiling k | PPutPresent k | PRemoveAbsent k => k end.

Fixpoint bin_count {A} (t : BinTree.tree Z Z A) : nat :=
  match t with E => O | T _ l _ _ r => S (bin_count l + bin_count r) end.
Fixpoint bt_count (fuel : nat) (t : BTree.node Z Z) : nat :=
  match fuel with
  | O => O
  | S f => let '(Node es cs) := t in (length es + fold_right (fun c a => bt_count f c + a) 0 cs)%nat
  end.

(* model cost of a probe on the dumped shape *)
Definition model_cost (s : shape) (p : probe) : nat :=
  match s with
  | SBin t => path_cost Z Z unit zcmp (key_of p) t
  | SBT t => get_cost Z Z zcmp 64 (key_of p) t
  | SBTEmpty => O
  end.

(* the proved bounds (C17.Props): comparator calls of one point operation on a container holding n keys *)
Definition zlog2n (n : Z) : Z := Z.log2 (n + 1).
Definition bound_get (k : ckind) (n : Z) : Z :=
  match k with
  | KRB => 2 * zlog2n n + 1
  | KAVL => 2 * zlog2n n + 1
  | KBT m => zlog2n n * (Z.log2 (Z.of_nat m - 1) + 1)
  end.
(* Put / Remove: red-black and AVL make no comparison beyond the search path; the B-tree re-searches the parent once
   per split (Put) and up to four times per rebalanced level (Remove): constant 2 resp. 6 (not proved; see level_note) *)
Definition bound_op (k : ckind) (o : bop) (n : Z) : Z :=
  match k, o with
  | KBT _, BPut => 2 * (bound_get k n + Z.log2 (match k with KBT m => Z.of_nat m | _ => 2 end) + 1)
  | KBT _, BRemove => 6 * (bound_get k n + Z.log2 (match k with KBT m => Z.of_nat m | _ => 2 end) + 1)
  | _, _ => bound_get k n
  end.

Definition shape_size (s : shape) : Z :=
  match s with SBin t => Z.of_nat (bin_count t) | SBT t => Z.of_nat (bt_count 64 t) | SBTEmpty => 0 end.

Definition probe_kind (k : ckind) (s : shape) (x : probe * nat) : nat :=
  let '(p, c) := x in
  kind_of (Nat.eqb c (model_cost s p)) (Z.of_nat c <=? bound_get k (shape_size s)).

Definition bound_kind (k : ckind) (x : bop * Z * Z) : nat :=
  let '(o, n, c) := x in kind_of true (c <=? bound_op k o n).

(* skip lists *)
Definition count_gt (i : nat) (hs : list nat) : nat := length (filter (fun h => Nat.ltb i h) hs).
(* lanes: the level-i chain from the header reaches exactly the nodes of height > i, for every i < highest;
   no node is taller than highest *)
Fixpoint lanes_ok (i : nat) (hs reach : list nat) : bool :=
  match reach with
  | [] => true
  | r :: t => Nat.eqb r (count_gt i hs) && lanes_ok (S i) hs t
  end.
Definition zset_lanes_b (highest : nat) (hs reach : list nat) : bool :=
  forallb (fun h => Nat.leb h highest && Nat.leb 1 h) hs
  && lanes_ok 0 hs reach && Nat.leb (length (filter (fun r => negb (Nat.eqb r 0)) reach)) highest
  && Nat.eqb (count_gt (length reach) hs) 0.
Definition skip_lanes_b (highest : nat) (lanes levels : list Z) : bool :=
  list_eqb Z.eqb lanes levels && forallb (fun l => (1 <=? l) && (l <=? Z.of_nat highest)) levels.

Definition sum_nat (l : list nat) : Z := fold_right (fun x a => Z.of_nat x + a) 0 l.
(* batch average at most 4*log2(n+2) + 16 comparator calls (expected cost of a p = 1/4 skip list is about
   2*log2 n; the constants leave a wide margin, see DESIGN C17) *)
Definition avg_ok (n : Z) (batch : list nat) : bool :=
  sum_nat batch <=? (4 * Z.log2 (n + 2) + 16) * Z.of_nat (length batch).

Definition check_case (c : case) : nat :=
  match c with
  | CShape k s probes => scan (fun (_ : unit) x => (tt, probe_kind k s x)) tt probes 0
  | CBound k obs => scan (fun (_ : unit) x => (tt, bound_kind k x)) tt obs 0
  | CSkip n hi hs reach batches =>
      if negb (zset_lanes_b hi hs reach) then 1%nat      (* step 0: structure (kind 1) *)
      else scan (fun (_ : unit) b => (tt, kind_of true (avg_ok n b))) tt batches 1
  | CSkipLanes n hi lanes levels batches =>
      if negb (skip_lanes_b hi lanes levels) then 1%nat
      else scan (fun (_ : unit) b => (tt, kind_of true (avg_ok n b))) tt batches 1
  end.

Definition mismatches (cs : list case) : list (nat * nat) := find_bad check_case cs.
