(* C17, skipmap / skipset: the multi-level searches that SkipInst.SM prices return exactly what the C04 sequential
   model's level-0 walk (find_node, lfound) returns, in every state with ascending keys and heights between 1 and
   highestLevel (C04's invariant), whatever the heights are. *)
From VF Require Import Common.Base C17.SkipCost C17.SkipRes C17.SkipInst C17.ProofsSkipRes.
From VF Require Import C04.Spec C04.Model C04.Proofs.
Local Open Scope Z_scope.

Lemma find_node_skip k l :
  find_node k l = match SM.skip_lt k l with n :: _ => if nk n =? k then Some n else None | [] => None end.
Proof.
  induction l as [|m t IH]; [reflexivity|]. cbn [find_node SM.skip_lt]. destruct (nk m <? k); [exact IH|reflexivity].
Qed.

(* a list with ascending keys, cut at k *)
Lemma asc_cut k : forall l lo, asc_from lo (keys l) ->
  exists a, l = a ++ SM.skip_lt k l /\ Forall (fun n => (nk n <? k) = true) a
            /\ Forall (fun n => (nk n <? k) = false) (SM.skip_lt k l)
            /\ match SM.skip_lt k l with
               | n :: b' => Forall (fun y => (nk y =? k) = false) b' /\ ((nk n =? k) = false -> (nk n =? k) = false)
               | [] => True
               end
            /\ (forall n b', SM.skip_lt k l = n :: b' -> (nk n =? k) = false ->
                Forall (fun y => (nk y =? k) = false) (n :: b')).
Proof.
  induction l as [|m t IH]; intros lo H.
  - exists []. cbn. repeat split; auto. intros n b' E. discriminate.
  - cbn [keys map asc_from] in H. destruct H as [H1 H2]. cbn [SM.skip_lt].
    destruct (nk m <? k) eqn:Em.
    + destruct (IH (nk m) H2) as (a & E & HA & HB & HC & HD). exists (m :: a). cbn [app]. rewrite <- E.
      repeat split; auto.
    + exists []. cbn [app]. apply Z.ltb_ge in Em.
      assert (Gt : forall y, In y t -> nk m < nk y).
      { intros y Hy. apply (asc_lb (nk m) (keys t)); [exact H2|]. unfold keys. now apply in_map. }
      assert (HF : Forall (fun n => (nk n <? k) = false) (m :: t)).
      { constructor; [now apply Z.ltb_ge|]. apply Forall_forall. intros y Hy. apply Z.ltb_ge. specialize (Gt y Hy). lia. }
      assert (HE : Forall (fun y => (nk y =? k) = false) t).
      { apply Forall_forall. intros y Hy. apply Z.eqb_neq. specialize (Gt y Hy). lia. }
      repeat split; auto. intros n b' E En. inversion E; subst. constructor; auto.
Qed.

  Lemma node_bounds hlv l n : hts_ok hlv l -> In n l -> (1 <= nh n <= hlv)%nat.
  Proof. unfold hts_ok. rewrite Forall_forall. intros H. apply H. Qed.

  (* findNode / Load / findNodeAdd / ContainsB find exactly the node find_node finds, at layer lfound (nh n) hl *)
  Lemma find_result_model s k : asc (keys (nodes s)) -> hts_ok (hl s) (nodes s) ->
    SM.find_result k s = option_map (fun n => (lfound (nh n) (hl s), n)) (find_node k (nodes s)).
  Proof.
    intros Hasc Hhts. destruct Hasc as [lo A]. destruct (asc_cut k _ _ A) as (a & E & HA & HB & HC & HD).
    unfold SM.find_result. rewrite find_node_skip. rewrite E at 1.
    rewrite (find_res_b node nh (fun n => nk n <? k) (fun n => nk n =? k) (hl s) None a _ HA HB).
    destruct (SM.skip_lt k (nodes s)) as [|n b'] eqn:Eb; [now rewrite res_b_miss|].
    destruct (nk n =? k) eqn:En.
    - destruct HC as [HC _].
      assert (In n (nodes s)) by (rewrite E; apply in_or_app; right; now left).
      destruct (node_bounds _ _ n Hhts H) as [N1 N2].
      rewrite (res_b_hit node nh (fun n => nk n =? k) n b' En HC N1 (hl s) ltac:(lia)).
      cbn [option_map]. unfold lfound. rewrite Nat.min_comm. reflexivity.
    - rewrite res_b_miss; [reflexivity|]. now apply (HD n b').
  Qed.

  (* findNodeDelete / findNodeRemove: lFound as in the C04 model, and succs[0] onwards = the level-0 walk's suffix *)
  Lemma del_result_model s k : asc (keys (nodes s)) -> hts_ok (hl s) (nodes s) ->
    SM.del_result k s = (option_map (fun n => lfound (nh n) (hl s)) (find_node k (nodes s)), SM.skip_lt k (nodes s)).
  Proof.
    intros Hasc Hhts. destruct s as [l len0 hlv]. cbn [nodes hl] in *. unfold SM.del_result. cbn [nodes hl].
    assert (Hl : l = [] \/ (1 <= hlv)%nat).
    { destruct l as [|n0 t0]; [now left|right]. pose proof (node_bounds _ _ n0 Hhts (or_introl eq_refl)). lia. }
    destruct Hl as [->|Hl].
    - cbn [SM.skip_lt find_node option_map].
      assert (G : forall lv x lf, finddel_res node nh (fun n => nk n <? k) (fun n => nk n =? k) lv x [] lf = (lf, x, [])).
      { induction lv as [|i IH]; intros x lf; [reflexivity|]. cbn [finddel_res lscan]. rewrite IH. destruct lf; reflexivity. }
      rewrite G. reflexivity.
    - destruct Hasc as [lo A]. destruct (asc_cut k _ _ A) as (a & E & HA & HB & HC & HD).
      rewrite E at 1.
      destruct (finddel_res_b node nh (fun n => nk n <? k) (fun n => nk n =? k) hlv None a _ None HA HB) as [x' Ex]; auto.
      { intros y Hy. apply (node_bounds _ _ y Hhts). rewrite E. apply in_or_app. now left. }
      rewrite Ex. f_equal. rewrite find_node_skip.
      destruct (SM.skip_lt k l) as [|n b'] eqn:Eb; [now rewrite res_b_miss|].
      destruct (nk n =? k) eqn:En.
      + destruct HC as [HC _].
        assert (In n l) by (rewrite E; apply in_or_app; right; now left).
        destruct (node_bounds _ _ n Hhts H) as [N1 N2].
        rewrite (res_b_hit node nh (fun n => nk n =? k) n b' En HC N1 hlv Hl).
        cbn [option_map fst]. unfold lfound. rewrite Nat.min_comm. reflexivity.
      + rewrite res_b_miss; [reflexivity|]. now apply (HD n b').
  Qed.

Lemma skipmap_results_reachable ops : mheights_pos ops -> forall k,
  let s := fst (run skipmap_step sm0 ops) in
  SM.find_result k s = option_map (fun n => (lfound (nh n) (hl s), n)) (find_node k (nodes s)) /\
  SM.del_result k s = (option_map (fun n => lfound (nh n) (hl s)) (find_node k (nodes s)), SM.skip_lt k (nodes s)) /\
  (forall h, SM.find_result k (randomlevel h s) =
             option_map (fun n => (lfound (nh n) (Nat.max (hl s) h), n)) (find_node k (nodes s))).
Proof.
  intros H k s. destruct (seq_map_refines ops H) as [[I _] _]. fold s in I. destruct I as [A L Ht].
  split; [now apply find_result_model|]. split; [now apply del_result_model|].
  intros h. apply (find_result_model (randomlevel h s) k); [exact A|].
  cbn [randomlevel hl nodes]. eapply hts_mono; [exact Ht|lia].
Qed.

Lemma skipset_results_reachable ops : sheights_pos ops -> forall k,
  let s := fst (run skipset_step sm0 ops) in
  SM.find_result k s = option_map (fun n => (lfound (nh n) (hl s), n)) (find_node k (nodes s)) /\
  SM.del_result k s = (option_map (fun n => lfound (nh n) (hl s)) (find_node k (nodes s)), SM.skip_lt k (nodes s)) /\
  (forall h, SM.find_result k (randomlevel h s) =
             option_map (fun n => (lfound (nh n) (Nat.max (hl s) h), n)) (find_node k (nodes s))).
Proof.
  intros H k s. destruct (seq_set_refines ops H) as [[I _] _]. fold s in I. destruct I as [A L Ht].
  split; [now apply find_result_model|]. split; [now apply del_result_model|].
  intros h. apply (find_result_model (randomlevel h s) k); [exact A|].
  cbn [randomlevel hl nodes]. eapply hts_mono; [exact Ht|lia].
Qed.
