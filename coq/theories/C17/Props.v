(* C17 property theorems: statements only. *)
From VF Require Import C17.Cost C17.BTCost C17.Proofs C17.ProofsBT C17.Check C17.ProofsCheck C17.ProofsTree
  C01.Order C01.SortedMap C01.RB C01.AVL C01.BTree C01.Containers C02.Inv.
Local Open Scope Z_scope.

(* Comparator calls of one point operation, as a function of the tree it starts from, are bounded by the very
   bound the correspondence check applies to the implementation's counts (Check.bound_get):
   red-black  2*log2(n+1) + 1,  AVL  2*log2(n+1) + 1,  B-tree of order m  log2(n+1) * (log2(m-1) + 1). *)
Theorem C17_rb_cost : forall K V (cmp : K -> K -> Z) (t : RB.tree K V) x, RBShape K V t ->
  Z.of_nat (rb_put_cost K V color cmp x t) <= bound_get KRB (Z.of_nat (count t)) /\
  Z.of_nat (path_cost K V color cmp x t) <= bound_get KRB (Z.of_nat (count t)).
Proof. exact rb_bound_check. Qed.
Theorem C17_avl_cost : forall K V (cmp : K -> K -> Z) (t : AVL.tree K V) x, avl_ok K V t ->
  Z.of_nat (path_cost K V Z cmp x t) <= bound_get KAVL (Z.of_nat (count t)).
Proof. exact avl_bound_check. Qed.
Theorem C17_bt_get_cost : forall K V (cmp : K -> K -> Z) m fuel d (t : BTree.node K V) x, (3 <= m)%nat -> wf K V m 1 d t ->
  Z.of_nat (get_cost K V cmp fuel x t) <= bound_get (KBT m) (Z.of_nat (entries_count K V t)).
Proof. exact bt_bound_check. Qed.

(* ... and this remains true after ANY history of insertions and deletions, because it follows from the shape
   invariants, which every operation preserves (C02), not from how the tree was built *)
Theorem C17_rb_after_any_history : forall K V (cmp : K -> K -> Z) (zeroV : V), CmpLaws cmp -> forall ops x,
  let t := RB.root (fst (run (RB.step K V cmp zeroV) (RB.empty K V) ops)) in
  Z.of_nat (path_cost K V color cmp x t) <= bound_get KRB (Z.of_nat (count t)).
Proof. exact rb_reachable_cost. Qed.
Theorem C17_avl_after_any_history : forall K V (cmp : K -> K -> Z) (zeroV : V), CmpLaws cmp -> forall ops x,
  let t := AVL.root (fst (run (AVL.step K V cmp zeroV) (AVL.empty K V) ops)) in
  Z.of_nat (path_cost K V Z cmp x t) <= bound_get KAVL (Z.of_nat (count t)).
Proof. exact avl_reachable_cost. Qed.
Theorem C17_bt_after_any_history : forall K V (cmp : K -> K -> Z) (zeroV : V) m, CmpLaws cmp -> (3 <= m)%nat ->
  forall ops x fuel t,
  BTree.root (fst (run (BTree.step K V cmp zeroV m) (BTree.empty K V) ops)) = Some t ->
  Z.of_nat (get_cost K V cmp fuel x t) <= bound_get (KBT m) (Z.of_nat (entries_count K V t)).
Proof. exact bt_reachable_cost. Qed.
Theorem C17_bsearch_cost : forall K V (cmp : K -> K -> Z) k es,
  (search_cost K V cmp k es <= Nat.log2 (length es) + 1)%nat.
Proof. exact search_cost_bound. Qed.

(* B-tree Put and Remove (BTCost.put_cost / remove_cost: the in-node searches of the descent PLUS the searches of the
   parent made by splitNonRoot resp. leftSibling/rightSibling during rebalancing): at most 2 resp. 3 in-node
   searches per level, i.e. the bounds Check.bound_op applies to the implementation's counts,
   2 resp. 3 times log2(n+1) * (log2(m-1) + 1), for every tree with the C02 shape and hence after any history *)
Theorem C17_bt_put_cost : forall K V (cmp : K -> K -> Z) m (r : option (BTree.node K V)) k v, (3 <= m)%nat ->
  BTShape K V m r ->
  Z.of_nat (put_cost K V cmp m r k v) <= bound_op (KBT m) Check.BPut (Z.of_nat (root_entries r)).
Proof. exact bt_put_bound_check. Qed.
Theorem C17_bt_remove_cost : forall K V (cmp : K -> K -> Z) m (r : option (BTree.node K V)) k, (3 <= m)%nat ->
  BTShape K V m r ->
  Z.of_nat (remove_cost K V cmp m r k) <= bound_op (KBT m) Check.BRemove (Z.of_nat (root_entries r)).
Proof. exact bt_remove_bound_check. Qed.
Theorem C17_bt_mut_after_any_history : forall K V (cmp : K -> K -> Z) (zeroV : V) m, CmpLaws cmp -> (3 <= m)%nat ->
  forall ops k v,
  let r := BTree.root (fst (run (BTree.step K V cmp zeroV m) (BTree.empty K V) ops)) in
  Z.of_nat (put_cost K V cmp m r k v) <= bound_op (KBT m) Check.BPut (Z.of_nat (root_entries r)) /\
  Z.of_nat (remove_cost K V cmp m r k) <= bound_op (KBT m) Check.BRemove (Z.of_nat (root_entries r)).
Proof. exact bt_reachable_mut_cost. Qed.

(* treemap / treeset delegate every point operation to the red-black tree they wrap (C01.Containers): the tree
   they hold keeps the red-black shape through every history of map / set operations, so the red-black bound
   applies to their Put/Add (rb_put_cost) and Get/Contains/Remove/Floor/Ceiling (path_cost) *)
Theorem C17_treemap_after_any_history : forall K V (cmp : K -> K -> Z) (zeroK : K) (zeroV : V) ops x,
  let t := RB.root (fst (run (treemap_step K V cmp zeroK zeroV) (RB.empty K V) ops)) in
  Z.of_nat (rb_put_cost K V color cmp x t) <= bound_get KRB (Z.of_nat (count t)) /\
  Z.of_nat (path_cost K V color cmp x t) <= bound_get KRB (Z.of_nat (count t)).
Proof. exact treemap_cost. Qed.
Theorem C17_treeset_after_any_history : forall K (cmp : K -> K -> Z) ops x,
  let t := RB.root (fst (run (treeset_step K cmp) (RB.empty K unit) ops)) in
  Z.of_nat (rb_put_cost K unit color cmp x t) <= bound_get KRB (Z.of_nat (count t)) /\
  Z.of_nat (path_cost K unit color cmp x t) <= bound_get KRB (Z.of_nat (count t)).
Proof. exact treeset_cost. Qed.

(* non-vacuity for the B-tree: order 3, ten ascending keys; inserting a new maximum costs 5 comparisons on the way
   down and 3 more in parents of split nodes; removing the minimum costs 3 on the way down and 4 in rebalancing *)
Example C17_bt_nonvacuous :
  let r := BTree.root (fst (run (BTree.step Z Z zcmp 0 3) (BTree.empty Z Z)
                                (map (fun k => Put k k) [1; 2; 3; 4; 5; 6; 7; 8; 9; 10]))) in
  root_entries r = 10%nat /\ put_cost Z Z zcmp 3 r 100 100 = 8%nat /\ remove_cost Z Z zcmp 3 r 1 = 7%nat /\
  bound_op (KBT 3) Check.BPut 10 = 12 /\ bound_op (KBT 3) Check.BRemove 10 = 18.
Proof. vm_compute. repeat split. Qed.

Example C17_nonvacuous :
  let t := RB.root (fst (run (RB.step Z Z zcmp 0) (RB.empty Z Z) (map (fun k => Put k k) [5; 3; 8; 1; 4; 7; 9; 2; 6]))) in
  count t = 9%nat /\ path_cost Z Z color zcmp 6 t = 4%nat /\ bound_get KRB 9 = 7.
Proof. vm_compute. repeat split. Qed.

Print Assumptions C17_rb_cost.
Print Assumptions C17_avl_cost.
Print Assumptions C17_bt_get_cost.
Print Assumptions C17_rb_after_any_history.
Print Assumptions C17_avl_after_any_history.
Print Assumptions C17_bt_after_any_history.
Print Assumptions C17_bsearch_cost.
Print Assumptions C17_bt_put_cost.
Print Assumptions C17_bt_remove_cost.
Print Assumptions C17_bt_mut_after_any_history.
Print Assumptions C17_treemap_after_any_history.
Print Assumptions C17_treeset_after_any_history.
