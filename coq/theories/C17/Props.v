(* C17 property theorems: statements only. *)
From VF Require Import C17.Cost C17.Proofs C17.Check C17.ProofsCheck C01.Order C01.SortedMap C01.RB C01.AVL C01.BTree
  C02.Inv.
Local Open Scope Z_scope.

(* Comparator calls of one point operation, as a function of the tree it starts from, are bounded by the very
   bound the correspondence check applies to the implementation's counts (Check.bound_get):
   red-black  2*log2(n+1) + 1,  AVL  2*log2(n+1) + 1,  B-tree of order m  log2(n+1) * (log2(m-1) + 1). *)
Theorem C17_rb_cost : forall K V (cmp : K -> K -> Z) (t : RB.tree K V) x, RBShape K V t ->
  Z.of_nat (rb_put_cost K V color cmp x t) <= bound_get KRB (Z.of_nat (count t)) /\
  Z.of_nat (path_cost K V color cmp x t) <= bound_get KRB (Z.of_nat (count t)).
Proof. exact rb_bound_check. Qed.
Theorem C17_avl_cost : forall K V (cmp : K -> K -> Z) (t : AVL.tree K V) x, avl_ok K V t ->
  Z.of_nat (path_cost K V Z cmp x t) <= bound_get KAVL (Z.of_nat (count t)).
Proof. exact avl_bound_check. Qed.
Theorem C17_bt_get_cost : forall K V (cmp : K -> K -> Z) m fuel d (t : BTree.node K V) x, (3 <= m)%nat -> wf K V m 1 d t ->
  Z.of_nat (get_cost K V cmp fuel x t) <= bound_get (KBT m) (Z.of_nat (entries_count K V t)).
Proof. exact bt_bound_check. Qed.

(* ... and this remains true after ANY history of insertions and deletions, because it follows from the shape
   invariants, which every operation preserves (C02), not from how the tree was built *)
Theorem C17_rb_after_any_history : forall K V (cmp : K -> K -> Z) (zeroV : V), CmpLaws cmp -> forall ops x,
  let t := RB.root (fst (run (RB.step K V cmp zeroV) (RB.empty K V) ops)) in
  Z.of_nat (path_cost K V color cmp x t) <= bound_get KRB (Z.of_nat (count t)).
Proof. exact rb_reachable_cost. Qed.
Theorem C17_avl_after_any_history : forall K V (cmp : K -> K -> Z) (zeroV : V), CmpLaws cmp -> forall ops x,
  let t := AVL.root (fst (run (AVL.step K V cmp zeroV) (AVL.empty K V) ops)) in
  Z.of_nat (path_cost K V Z cmp x t) <= bound_get KAVL (Z.of_nat (count t)).
Proof. exact avl_reachable_cost. Qed.
Theorem C17_bt_after_any_history : forall K V (cmp : K -> K -> Z) (zeroV : V) m, CmpLaws cmp -> (3 <= m)%nat ->
  forall ops x fuel t,
  BTree.root (fst (run (BTree.step K V cmp zeroV m) (BTree.empty K V) ops)) = Some t ->
  Z.of_nat (get_cost K V cmp fuel x t) <= bound_get (KBT m) (Z.of_nat (entries_count K V t)).
Proof. exact bt_reachable_cost. Qed.
Theorem C17_bsearch_cost : forall K V (cmp : K -> K -> Z) k es,
  (search_cost K V cmp k es <= Nat.log2 (length es) + 1)%nat.
Proof. exact search_cost_bound. Qed.

Example C17_nonvacuous :
  let t := RB.root (fst (run (RB.step Z Z zcmp 0) (RB.empty Z Z) (map (fun k => Put k k) [5; 3; 8; 1; 4; 7; 9; 2; 6]))) in
  count t = 9%nat /\ path_cost Z Z color zcmp 6 t = 4%nat /\ bound_get KRB 9 = 7.
Proof. vm_compute. repeat split. Qed.

Print Assumptions C17_rb_cost.
Print Assumptions C17_avl_cost.
Print Assumptions C17_bt_get_cost.
Print Assumptions C17_rb_after_any_history.
Print Assumptions C17_avl_after_any_history.
Print Assumptions C17_bt_after_any_history.
Print Assumptions C17_bsearch_cost.
