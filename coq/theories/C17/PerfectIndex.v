(* C17: the ruler sequence IS "height = 1 + number of trailing zero bits of the index": the j-th node (j = 1, 2, ...)
   is taller than i exactly when 2^i divides j. *)
From VF Require Import C17.SkipCost C17.Perfect.
Local Open Scope nat_scope.

Lemma pow2_pos i : 0 < 2 ^ i.
Proof. induction i as [|i IH]; cbn [Nat.pow]; lia. Qed.

Lemma pow2_divide i d : i <= d -> Nat.divide (2 ^ i) (2 ^ d).
Proof. intros H. exists (2 ^ (d - i)). rewrite <- Nat.pow_add_r. f_equal. lia. Qed.

Lemma small_not_divide a j : 0 < j -> j < a -> ~ Nat.divide a j.
Proof. intros H1 H2 D. apply Nat.divide_pos_le in D; lia. Qed.

Lemma ruler_index : forall d j, 1 <= j -> j < 2 ^ d ->
  forall i, i < nth (j - 1) (ruler d) 0 <-> Nat.divide (2 ^ i) j.
Proof.
  induction d as [|d IH]; intros j H1 H2 i; [cbn in H2; lia|].
  pose proof (ruler_length d) as HL. pose proof (pow2_pos d) as HP. rewrite Nat.pow_succ_r' in H2. cbn [ruler].
  destruct (Nat.lt_trichotomy j (2 ^ d)) as [Hlt|[Heq|Hgt]].
  - rewrite app_nth1 by lia. now apply IH.
  - rewrite app_nth2 by lia. replace (j - 1 - length (ruler d)) with 0 by lia. cbn [nth]. subst j. split.
    + intros Hi. apply pow2_divide. lia.
    + intros D. destruct (Nat.le_gt_cases i d) as [Hle|Hg]; [lia|]. exfalso.
      apply (small_not_divide (2 ^ i) (2 ^ d)); auto. apply Nat.pow_lt_mono_r; lia.
  - rewrite app_nth2 by lia. set (j' := j - 2 ^ d).
    replace (j - 1 - length (ruler d)) with (S (j' - 1)) by (unfold j'; lia). cbn [nth].
    assert (J1 : 1 <= j') by (unfold j'; lia). assert (J2 : j' < 2 ^ d) by (unfold j'; lia).
    rewrite (IH j' J1 J2 i). replace j with (2 ^ d + j') by (unfold j'; lia).
    destruct (Nat.le_gt_cases i d) as [Hle|Hg].
    + pose proof (pow2_divide i d Hle) as Dd. split; intros D.
      * now apply Nat.divide_add_r.
      * eapply Nat.divide_add_cancel_r; [exact Dd|exact D].
    + assert (Hp : 2 ^ S d <= 2 ^ i) by (apply Nat.pow_le_mono_r; lia). rewrite Nat.pow_succ_r' in Hp.
      split; intros D; exfalso.
      * apply (small_not_divide (2 ^ i) j'); auto; lia.
      * apply (small_not_divide (2 ^ i) (2 ^ d + j')); auto; lia.
Qed.

(* the same for the first n entries *)
Lemma perfect_index n j : 1 <= j <= n ->
  forall i, i < nth (j - 1) (perfect n) 0 <-> Nat.divide (2 ^ i) j.
Proof.
  intros [H1 H2] i. unfold perfect.
  assert (Hn : n < 2 ^ S (Nat.log2 n)) by (apply Nat.log2_spec; lia).
  assert (E : nth (j - 1) (firstn n (ruler (S (Nat.log2 n)))) 0 = nth (j - 1) (ruler (S (Nat.log2 n))) 0).
  { rewrite <- (firstn_skipn n (ruler (S (Nat.log2 n)))) at 2. rewrite app_nth1; [reflexivity|].
    pose proof (perfect_length n) as PL. unfold perfect in PL. rewrite PL. lia. }
  rewrite E. apply ruler_index; lia.
Qed.
