(* C17 cost model, skip lists: the number of comparator calls made by the search loops of
     structure/sets/zset/skiplist.go   Insert / Delete / UpdateScore (lessThan), Rank (lessEqual + early return)
     structure/maps/skipmap/skipmap.go findNode / Load (lessthan, then equal, early return), findNodeDelete
     structure/sets/skipset/skipset.go findNodeAdd / ContainsB, findNodeRemove (same loops)
   as functions of the level-0 node sequence, the node heights and highestLevel. As in the C03/C04 models the
   forward pointers are derived: the level-i successor of a position is the next node of height > i.

       x := header
       for i := highestLevel-1; i >= 0; i-- {
           next := x.next(i)
           for next != nil && adv(next) { x = next; next = x.next(i) }        <- [lscan]
           ... per-level epilogue (equal test / early return) ...
       }

   Generic in the node type: [adv y] is the loop condition on a successor y, [cadv y] the number of comparator
   calls its evaluation makes (zset: 1 exactly when the scores tie, else 0; skipmap/skipset: 1).
   No proofs in this file. *)
From VF Require Export Common.Base.

Section Skip.
  Variable N : Type.
  Variable height : N -> nat.
  Variable adv : N -> bool.
  Variable cadv : N -> nat.

  (* one level. Position = (x, suf): x = None is the header, suf = the level-0 nodes behind x; [l] = the part of
     suf not yet scanned for the level-i successor. Result: x, its suffix, the final next (None = nil), calls. *)
  Fixpoint lscan (i : nat) (l : list N) (x : option N) (suf : list N) (c : nat)
    : option N * list N * option N * nat :=
    match l with
    | [] => (x, suf, None, c)
    | y :: r =>
        if (i <? height y)%nat then
          if adv y then lscan i r (Some y) r (c + cadv y) else (x, suf, Some y, c + cadv y)
        else lscan i r x suf c
    end.

  (* zset Insert / Delete / UpdateScore: all levels, no epilogue *)
  Fixpoint full_cost (levels : nat) (x : option N) (suf : list N) : nat :=
    match levels with
    | O => O
    | S i => let '(x', suf', _, c) := lscan i suf x suf 0 in (c + full_cost i x' suf')%nat
    end.
  (* where that search ends (the nodes behind update[0]) *)
  Fixpoint full_end (levels : nat) (x : option N) (suf : list N) : list N :=
    match levels with
    | O => suf
    | S i => let '(x', suf', _, _) := lscan i suf x suf 0 in full_end i x' suf'
    end.

  (* zset Rank: after each level  if x.equal(score, value) { return rank }  -- Go ==, no comparator call *)
  Variable xeq : N -> bool.
  Fixpoint rank_cost (levels : nat) (x : option N) (suf : list N) : nat :=
    match levels with
    | O => O
    | S i => let '(x', suf', _, c) := lscan i suf x suf 0 in
             if match x' with Some y => xeq y | None => false end then c else (c + rank_cost i x' suf')%nat
    end.

  (* skipmap findNode / Load, skipset findNodeAdd / ContainsB:
       if succ != nil && succ.equal(key) { return }      -- equal is one more comparator call *)
  Variable eq : N -> bool.
  Variable ceq : N -> nat.
  Fixpoint find_cost (levels : nat) (x : option N) (suf : list N) : nat :=
    match levels with
    | O => O
    | S i => let '(x', suf', nx, c) := lscan i suf x suf 0 in
             match nx with
             | None => (c + find_cost i x' suf')%nat
             | Some y => if eq y then (c + ceq y)%nat else (c + ceq y + find_cost i x' suf')%nat
             end
    end.
  (* findNodeDelete / findNodeRemove:  if lFound == -1 && succ != nil && succ.equal(key) { lFound = i }  (no return) *)
  Fixpoint finddel_cost (levels : nat) (x : option N) (suf : list N) (found : bool) : nat :=
    match levels with
    | O => O
    | S i => let '(x', suf', nx, c) := lscan i suf x suf 0 in
             match nx with
             | None => (c + finddel_cost i x' suf' found)%nat
             | Some y => if found then (c + finddel_cost i x' suf' true)%nat
                         else (c + ceq y + finddel_cost i x' suf' (eq y))%nat
             end
    end.

  (* the longest run of nodes of height exactly i+1 between two consecutive nodes of height > i+1
     (or the ends): how far a search can walk on lane i before lane i+1 would have carried it *)
  Fixpoint maxrun_aux (i : nat) (l : list N) (cur best : nat) : nat :=
    match l with
    | [] => Nat.max cur best
    | y :: r => if (S i <? height y)%nat then maxrun_aux i r 0 (Nat.max cur best)
                else if (i <? height y)%nat then maxrun_aux i r (S cur) best
                else maxrun_aux i r cur best
    end.
  Definition maxrun (i : nat) (l : list N) : nat := maxrun_aux i l 0 0.
  Fixpoint runs_bound (levels : nat) (l : list N) : nat :=
    match levels with O => O | S i => (S (maxrun i l) + runs_bound i l)%nat end.
End Skip.

(* ---- instances ---- *)
Local Open Scope Z_scope.

(* the harness instance: nodes (score, key, height) with the int order on keys; skipmap / skipset nodes carry score 0 *)
Definition snode := (Z * Z * nat)%type.
Definition sscore (y : snode) : Z := fst (fst y).
Definition skey (y : snode) : Z := snd (fst y).
Definition sheight (y : snode) : nat := snd y.
Definition one (y : snode) : nat := 1%nat.
(* zset listNode.lessThan / lessEqual: the member comparator is called exactly when the scores tie *)
Definition ztie (s : Z) (y : snode) : nat := if sscore y =? s then 1%nat else 0%nat.
Definition zlt (s k : Z) (y : snode) : bool := (sscore y <? s) || ((sscore y =? s) && (skey y <? k)).
Definition zle (s k : Z) (y : snode) : bool := (sscore y <? s) || ((sscore y =? s) && (skey y <=? k)).
(* the search loop shared by Insert(s, k), Delete(s, k) and UpdateScore(s = old score, k) *)
Definition z_search_cost (highest : nat) (l : list snode) (s k : Z) : nat :=
  full_cost snode sheight (zlt s k) (ztie s) highest None l.
Definition z_rank_cost (highest : nat) (l : list snode) (s k : Z) : nat :=
  rank_cost snode sheight (zle s k) (ztie s) (fun y => (skey y =? k) && (sscore y =? s)) highest None l.
(* skipmap / skipset *)
Definition m_find_cost (highest : nat) (l : list snode) (k : Z) : nat :=
  find_cost snode sheight (fun y => skey y <? k) one (fun y => skey y =? k) one highest None l.
Definition m_del_cost (highest : nat) (l : list snode) (k : Z) : nat :=
  finddel_cost snode sheight (fun y => skey y <? k) one (fun y => skey y =? k) one highest None l false.
