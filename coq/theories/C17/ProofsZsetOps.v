(* C17, zset: bounds for every entry point that searches (ZsetOps.op_cost), in every reachable state. *)
From VF Require Import Common.Base C17.SkipCost C17.SkipInst C17.ProofsSkip C17.ProofsSkipZ C17.ZsetOps.
From VF Require Import C03.Spec C03.Model C03.Lanes C03.Props.
Local Open Scope nat_scope.

(* update_cost prices the model's UpdateScore: when the node moves, the second search is Insert's, on update_mid *)
Lemma update_moves_model old m new hs l : update_moves old m new l = true ->
  exists x, In x (sl_nodes l) /\
    sl_update_score old m new hs l = Some (sl_insert new (n_member x) hs (update_mid old m new l)).
Proof.
  unfold update_moves, update_mid, sl_update_score, update_fast.
  pose proof (search_in (fun _ y => less_than y old m) l) as IN.
  set (st := search _ l) in *. destruct (w_suf st) as [|x r] eqn:E; [discriminate|].
  intros H. exists x. split; [apply IN; right; now left|].
  apply negb_true_iff in H. rewrite H. reflexivity.
Qed.

Lemma update_mid_lanes old m new l : Lanes l ->
  Lanes (update_mid old m new l) /\ incl (sl_nodes (update_mid old m new l)) (sl_nodes l)
  /\ sl_highest (update_mid old m new l) <= sl_highest l
  /\ length (sl_nodes (update_mid old m new l)) <= length (sl_nodes l).
Proof.
  intros L. unfold update_mid.
  pose proof (search_in (fun _ y => less_than y old m) l) as IN.
  pose proof (search_zlist (fun _ y => less_than y old m) l) as ZL.
  set (st := search _ l) in *.
  destruct (w_suf st) as [|x r] eqn:E; [split; [exact L|split; [apply incl_refl|split; apply Nat.le_refl]]|].
  destruct (update_fast new (w_pre st) r); [split; [exact L|split; [apply incl_refl|split; apply Nat.le_refl]]|].
  assert (Sub : forall y, In y (w_pre st) \/ In y r -> In y (sl_nodes l)).
  { intros y [Hy|Hy]; apply IN; auto. right. now right. }
  split; [now apply delete_node_lanes|]. split; [|split].
  - intros y Hy. cbn [sl_delete_node sl_nodes] in Hy. apply in_rev_append in Hy. now apply Sub.
  - cbn [sl_delete_node sl_highest]. pose proof (ln_pos _ L) as P.
    destruct (trim_lanes (w_pre st) r (sl_highest l) ltac:(lia)) as (A & _).
    { intros y Hy. apply (ln_le _ L). now apply Sub. }
    cbv zeta in A. lia.
  - cbn [sl_delete_node sl_nodes]. rewrite <- ZL. unfold zlist. rewrite E, rev_append_rev, !app_length.
    cbn [length]. lia.
Qed.

Lemma update_cost_le old m new l : Lanes l ->
  update_cost old m new l <= update_bound old m new l /\
  update_cost old m new l <= 2 * (sl_highest l + length (sl_nodes l)).
Proof.
  intros L. destruct (update_mid_lanes old m new l L) as (LM & _ & HH & HL).
  destruct (zs_cost_lanes old m l L) as (A1 & A2 & _).
  unfold update_cost, update_bound, update_moves, update_mid in *.
  set (st := search _ l) in *. destruct (w_suf st) as [|x r]; [lia|].
  destruct (update_fast new (w_pre st) r); cbn [negb]; [lia|].
  destruct (zs_cost_lanes new (n_member x) _ LM) as (B1 & B2 & _). lia.
Qed.

Lemma op_cost_le o z c : Lanes (z_list z) -> op_cost o z = Some c ->
  c <= op_bound o z /\ c <= 2 * (sl_highest (z_list z) + length (sl_nodes (z_list z))).
Proof.
  intros L. set (l := z_list z) in *.
  assert (S1 : forall s m, ZS.search_cost s m l <= ZS.lane_bound l /\
                           ZS.search_cost s m l <= 2 * (sl_highest l + length (sl_nodes l))).
  { intros s m. destruct (zs_cost_lanes s m l L) as (A1 & A2 & _). lia. }
  assert (R1 : forall s m, ZS.rank_cost s m l <= ZS.lane_bound l /\
                           ZS.rank_cost s m l <= 2 * (sl_highest l + length (sl_nodes l))).
  { intros s m. destruct (zs_cost_lanes s m l L) as (_ & _ & A3 & A4 & _). lia. }
  assert (Z0 : 0 <= ZS.lane_bound l /\ 0 <= 2 * (sl_highest l + length (sl_nodes l))) by lia.
  destruct o; cbn [op_cost op_bound]; fold l; intros H; inversion H; subst c; clear H;
    try (destruct (dget m (z_dict z)) as [old|]); auto.
  - destruct (negb (s =? old)%Z); [now apply update_cost_le|].
    pose proof (update_cost_le old m s l L). unfold update_bound. lia.
  - now apply update_cost_le.
Qed.

Lemma op_cost_reachable ops : heights_pos ops -> forall o c,
  let z := fst (run zset_step zset_empty ops) in
  op_cost o z = Some c ->
  c <= op_bound o z /\ c <= 2 * (sl_highest (z_list z) + length (sl_nodes (z_list z))).
Proof. intros H o c z. apply op_cost_le. now apply C03_lanes. Qed.

Lemma update_reachable ops : heights_pos ops -> forall old m new,
  let l := z_list (fst (run zset_step zset_empty ops)) in
  let l' := update_mid old m new l in
  update_cost old m new l <= ZS.lane_bound l + (if update_moves old m new l then ZS.lane_bound l' else 0) /\
  Lanes l' /\ incl (sl_nodes l') (sl_nodes l) /\ sl_highest l' <= sl_highest l <= 32.
Proof.
  intros H old m new l l'. pose proof (C03_lanes ops H) as L. fold l in L.
  destruct (update_mid_lanes old m new l L) as (A & B & C & _).
  destruct (update_cost_le old m new l L) as (D & _). pose proof (ln_pos _ L) as P. unfold maxLevel in P.
  split; [exact D|]. split; [exact A|]. split; [exact B|]. unfold l'. lia.
Qed.
