(* C17, skipmap / skipset: the lane invariant of the C04 sequential model (every node's height is between 1 and
   highestLevel; in that model a node of height h is on lanes 0..h-1 by construction) holds in every state
   reachable through the API, and with it the bounds on the search cost functions. *)
From VF Require Import Common.Base C17.SkipCost C17.SkipInst C17.ProofsSkip.
From VF Require Import C04.Spec C04.Model C04.Proofs.
Local Open Scope nat_scope.

Lemma hts_Q adv hlv l : hts_ok hlv l -> Q node nh adv hlv l.
Proof.
  intros H. apply Q_none. unfold hts_ok in H. eapply Forall_impl; [|exact H]. cbn beta. intros n Hn. lia.
Qed.

Lemma sm_cost_inv k s : hts_ok (hl s) (nodes s) ->
  SM.find_cost k s <= 2 * hl s + length (nodes s) /\ SM.find_cost k s <= SM.lane_bound s /\
  SM.del_cost k s <= 2 * hl s + length (nodes s) /\ SM.del_cost k s <= SM.lane_bound s.
Proof.
  intros H. unfold SM.find_cost, SM.del_cost, SM.lane_bound.
  assert (C : forall n : node, SM.c1 n <= 1) by (intros n; apply Nat.le_refl).
  repeat split.
  - now apply find_cost_len.
  - apply find_cost_runs; auto. now apply hts_Q.
  - now apply finddel_cost_len.
  - apply finddel_cost_runs; auto. now apply hts_Q.
Qed.

Lemma sm_store_cost_inv k h s : hts_ok (hl s) (nodes s) ->
  SM.store_cost k h s <= 2 * Nat.max (hl s) h + length (nodes s) /\
  SM.store_cost k h s <= SM.lane_bound (randomlevel h s).
Proof.
  intros H. unfold SM.store_cost.
  assert (H1 : hts_ok (hl (randomlevel h s)) (nodes (randomlevel h s))).
  { cbn [randomlevel hl nodes]. eapply hts_mono; [exact H|lia]. }
  destruct (sm_cost_inv k _ H1) as (A & B & _). split; [exact A|exact B].
Qed.

Definition sm_bounds (s : skm) : Prop :=
  hts_ok (hl s) (nodes s) /\
  forall k,
    SM.find_cost k s <= 2 * hl s + length (nodes s) /\ SM.find_cost k s <= SM.lane_bound s /\
    SM.del_cost k s <= 2 * hl s + length (nodes s) /\ SM.del_cost k s <= SM.lane_bound s /\
    forall h, SM.store_cost k h s <= 2 * Nat.max (hl s) h + length (nodes s) /\
              SM.store_cost k h s <= SM.lane_bound (randomlevel h s).

Lemma sm_bounds_inv s : hts_ok (hl s) (nodes s) -> sm_bounds s.
Proof.
  intros H. split; [exact H|]. intros k. destruct (sm_cost_inv k s H) as (A & B & C & D).
  repeat split; auto; now apply sm_store_cost_inv.
Qed.

Lemma skipmap_reachable ops : mheights_pos ops -> sm_bounds (fst (run skipmap_step sm0 ops)).
Proof. intros H. destruct (seq_map_refines ops H) as [[I _] _]. apply sm_bounds_inv. apply I. Qed.

Lemma skipset_reachable ops : sheights_pos ops -> sm_bounds (fst (run skipset_step sm0 ops)).
Proof. intros H. destruct (seq_set_refines ops H) as [[I _] _]. apply sm_bounds_inv. apply I. Qed.

Lemma sm_los_cost_inv k h s : hts_ok (hl s) (nodes s) ->
  SM.los_cost k h s <= SM.lane_bound s + SM.lane_bound (randomlevel h s).
Proof.
  intros H. unfold SM.los_cost. destruct (sm_cost_inv k s H) as (_ & B & _).
  destruct (sm_store_cost_inv k h s H) as (_ & C). destruct (hl s <? h); lia.
Qed.

Lemma skipmap_los_reachable ops : mheights_pos ops -> forall k h,
  let s := fst (run skipmap_step sm0 ops) in
  SM.los_cost k h s <= SM.lane_bound s + SM.lane_bound (randomlevel h s).
Proof. intros H k h s. destruct (seq_map_refines ops H) as [[I _] _]. apply sm_los_cost_inv. apply I. Qed.
