(* C17 cost model, B-tree Put / Remove: comparator calls as functions of the C01 model tree the operation starts
   from. The functional behaviour (which child splits, which sibling is borrowed from / merged with) is the C01
   model's (BTree.ins / del / del_max / fix_child); this file only adds the calls to Tree.search:

   Put    insert -> insertIntoInternal/insertIntoLeaf: one in-node search per level on the way down (stops at an
          equal key); split -> splitNonRoot: one search of the PARENT (entries as before the split, key = the
          middle key that moves up) per split of a non-root node; splitRoot searches nothing.
   Remove searchRecursively: one in-node search per level until found or a leaf; then delete -> rebalance(node, dk):
          nothing if the node is not deficient; else leftSibling searches the parent for dk (1 search); if the
          left sibling cannot lend, rightSibling searches the parent for dk AGAIN (2 searches); after a merge
          dk := the key of the separator taken out of the parent, and rebalance continues with the parent.
          For a deletion from an internal node dk is the largest key of the left subtree, which at that moment
          is ALSO the entry that replaced the deleted one, so the search of that node finds it (and may stop early).
          The root has no parent: no search.
   No proofs in this file. *)
From VF Require Export Common.Base C01.BTree C17.Cost.

Section BTMut.
  Variables K V : Type.
  Variable cmp : K -> K -> Z.
  Variable m : nat.
  Notation node := (BTree.node K V).
  Notation scost := (search_cost K V cmp).

  Fixpoint ins_cost (fuel : nat) (k : K) (v : V) (t : node) : nat :=
    match fuel with
    | O => O
    | S f =>
      let '(Node es cs) := t in
      let '(i, found) := BTree.search K V cmp k es in
      (scost k es +
       if found then O
       else match cs with
            | [] => O
            | _ => match nth_error cs i with
                   | None => O
                   | Some c =>
                     ins_cost f k v c +
                     match BTree.ins K V cmp m f k v c with
                     | Some (RS _ _ _ e _, _) => scost (fst e) es        (* splitNonRoot(child): search(parent, middle key) *)
                     | _ => O
                     end
                   end
            end)%nat
    end.
  Definition put_cost (r : option node) (k : K) (v : V) : nat :=
    match r with None => O | Some t => ins_cost (S (BTree.depth K V t)) k v t end.

  Definition sep_key (es : list (K * V)) (j : nat) (dk : K) : K :=
    match nth_error es j with Some e => fst e | None => dk end.

  (* rebalance(child i, dk) seen from the parent (es, cs): calls, and the deletedKey the code continues with *)
  Definition fix_cost (es : list (K * V)) (cs : list node) (i : nat) (dk : K) : nat * K :=
    match nth_error cs i with
    | None => (O, dk)
    | Some (Node ne nc) =>
      if (minE m <=? length ne)%nat then (O, dk)
      else
        let s := scost dk es in
        let left := match i with O => None | S j => nth_error cs j end in
        let right := nth_error cs (S i) in
        match left with
        | Some (Node le lc) =>
          if (minE m <? length le)%nat then (s, dk)                                  (* borrow left *)
          else match right with
               | Some (Node re rc) =>
                 if (minE m <? length re)%nat then ((s + s)%nat, dk)                 (* borrow right *)
                 else ((s + s)%nat, sep_key es i dk)                                 (* merge right *)
               | None => ((s + s)%nat, sep_key es (i - 1) dk)                        (* merge left *)
               end
        | None =>
          match right with
          | Some (Node re rc) =>
            if (minE m <? length re)%nat then ((s + s)%nat, dk) else ((s + s)%nat, sep_key es i dk)
          | None => ((s + s)%nat, dk)
          end
        end
    end.

  (* Tree.right + deleteEntry + rebalance chain below t; [d0] only fills the impossible empty-leaf case *)
  Fixpoint del_max_cost (fuel : nat) (d0 : K) (t : node) : nat * K :=
    match fuel with
    | O => (O, d0)
    | S f =>
      let '(Node es cs) := t in
      match cs with
      | [] => (O, match rev es with e :: _ => fst e | [] => d0 end)
      | _ =>
        let i := (length cs - 1)%nat in
        match nth_error cs i with
        | None => (O, d0)
        | Some c =>
          let '(cc, dkc) := del_max_cost f d0 c in
          match BTree.del_max K V m f c with
          | Some (_, c') => let '(cf, dk') := fix_cost es (set_nth i c' cs) i dkc in ((cc + cf)%nat, dk')
          | None => (cc, dkc)
          end
        end
      end
    end.

  Fixpoint del_cost (fuel : nat) (k : K) (t : node) : nat * K :=
    match fuel with
    | O => (O, k)
    | S f =>
      let '(Node es cs) := t in
      let '(i, found) := BTree.search K V cmp k es in
      let s0 := scost k es in
      match cs with
      | [] => (s0, k)
      | _ =>
        match nth_error cs i with
        | None => (s0, k)
        | Some c =>
          if found then
            match BTree.del_max K V m f c with
            | None => (s0, k)
            | Some (e, c') =>
              let '(cm, dkm) := del_max_cost f k c in
              let '(cf, dk') := fix_cost (set_nth i e es) (set_nth i c' cs) i dkm in
              ((s0 + cm + cf)%nat, dk')
            end
          else
            let '(cc, dkc) := del_cost f k c in
            match BTree.del K V cmp m f k c with
            | Some (c', true) => let '(cf, dk') := fix_cost es (set_nth i c' cs) i dkc in ((s0 + cc + cf)%nat, dk')
            | _ => ((s0 + cc)%nat, k)
            end
        end
      end
    end.
  Definition remove_cost (r : option node) (k : K) : nat :=
    match r with None => O | Some t => fst (del_cost (S (BTree.depth K V t)) k t) end.
End BTMut.
