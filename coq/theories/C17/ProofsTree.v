(* C17, treemap / treeset: both delegate every point operation to the red-black tree they wrap
   (treemap.Put/Get/Remove/Floor/Ceiling = tree.Put/Get/Remove/Floor/Ceiling; treeset.Add/Contains/Remove =
   tree.Put/Get/Remove per item), so their comparator calls are those of the red-black tree on the wrapped
   root, and the wrapped root keeps the red-black shape through every history of map / set operations. *)
From VF Require Import C17.Cost C17.Proofs C17.Check C17.ProofsCheck.
From VF Require Import C01.Order C01.SortedMap C01.SpecProofs C01.BinTree C01.RB C01.Containers C02.Inv C02.RBProofs C02.RBReach.
Local Open Scope Z_scope.

Section TM.
  Variables K V : Type.
  Variable cmp : K -> K -> Z.
  Variable zeroK : K.
  Variable zeroV : V.

  Lemma treemap_shape ops :
    RBShape K V (RB.root (fst (run (treemap_step K V cmp zeroK zeroV) (RB.empty K V) ops))).
  Proof.
    apply (run_invariant (treemap_step K V cmp zeroK zeroV) (fun s => RBShape K V (RB.root s))).
    - intros s o H. unfold treemap_step. pose proof (rb_step_shape (cmp := cmp) zeroV s o H) as H1.
      destruct (RB.step K V cmp zeroV s o) as [s' r]. exact H1.
    - apply RBShape_E.
  Qed.

  Lemma treemap_cost ops x :
    let t := RB.root (fst (run (treemap_step K V cmp zeroK zeroV) (RB.empty K V) ops)) in
    Z.of_nat (rb_put_cost K V color cmp x t) <= bound_get KRB (Z.of_nat (count t)) /\
    Z.of_nat (path_cost K V color cmp x t) <= bound_get KRB (Z.of_nat (count t)).
  Proof. intros t. apply rb_bound_check. apply treemap_shape. Qed.
End TM.

Section TS.
  Variable K : Type.
  Variable cmp : K -> K -> Z.

  Lemma fold_shape (f : ts_state K -> K -> ts_state K) :
    (forall s k, RBShape K unit (RB.root s) -> RBShape K unit (RB.root (f s k))) ->
    forall ks s, RBShape K unit (RB.root s) -> RBShape K unit (RB.root (fold_left f ks s)).
  Proof. intros Hf. induction ks as [|k ks IH]; intros s H; cbn [fold_left]; auto. Qed.

  Lemma treeset_shape ops :
    RBShape K unit (RB.root (fst (run (treeset_step K cmp) (RB.empty K unit) ops))).
  Proof.
    apply (run_invariant (treeset_step K cmp) (fun s => RBShape K unit (RB.root s))).
    - intros s o H. destruct o; cbn [treeset_step fst]; auto.
      + apply fold_shape; auto. intros s' k H'. unfold ts_put. now apply rb_step_shape.
      + apply fold_shape; auto. intros s' k H'. unfold ts_remove. now apply rb_step_shape.
      + apply RBShape_E.
    - apply RBShape_E.
  Qed.

  Lemma treeset_cost ops x :
    let t := RB.root (fst (run (treeset_step K cmp) (RB.empty K unit) ops)) in
    Z.of_nat (rb_put_cost K unit color cmp x t) <= bound_get KRB (Z.of_nat (count t)) /\
    Z.of_nat (path_cost K unit color cmp x t) <= bound_get KRB (Z.of_nat (count t)).
  Proof. intros t. apply rb_bound_check. apply treeset_shape. Qed.
End TS.
